(* C01 / File C of Proofs/C01_PLAN.md: the trapezoid pass of finalize_constraints
   (lattice_lib._approximately_project_trapezoid with _trapezoid_violation_update,
   modelled by trap_step / trapezoid_one / approx_trapezoid in Model/LatticeFinalize.v).

   Two modes.  Elementwise (no Edgeworth trust configured, edge = []): along the
   (possibly reversed) conditional axis, slice 0 of the main axis becomes its
   running minimum and slice max its running maximum, separately at every behind
   position.  Scalar (edge <> []): the whole (0, j+1) / (max, j+1) column is
   shifted by the per-unit maximal violation, and by at least the previous
   shift ([prior]) when the same (m, c, dir) is also an Edgeworth trust.

   Structure: the behind list is abstract in Section Trap (B_at / B_repr); the
   reversal of the conditional axis for dir < 0 is handled once by working in
   "logical" positions p <-> column cj rv sc p (lpair, ledge), converted to the
   Spec predicates by T_trap_lpair / T_edge_ledge.  Order relations between
   neighbours (mono_along, the two halves of a trapezoid trust) are both
   instances of [pmono].

   Main results (all Closed under the global context), for
   trap_ctx sh ud units m c  (m, c, ud pairwise distinct and in range,
   nth ud sh = units, size of the main dimension >= 2), T = trapezoid_one ... (m,c,dir):
     trapezoid_one_established, trapezoid_one_fixed            (dir <> 0, both modes)
     trapezoid_one_mono_main / _mono_other                     (both modes)
     trapezoid_one_mono_cond_elementwise                       (edge = [])
     trapezoid_one_keeps_edgeworth                             (edge <> [], incl. the matching trust)
     trapezoid_one_keeps_trapezoid_other                       (other conditional dim, both modes)
     trapezoid_one_keeps_trapezoid_shared_cond_elementwise     (same conditional dim, edge = []:
                                                                the docstring's claim, TRUE)
   and under cfg_valid:
     approx_trapezoid_established  (guard ~ documented_exception)
     approx_trapezoid_mono         (guard ~ trap_mono_cond_with_edgeworth)
     approx_trapezoid_keeps_edgeworth, approx_trapezoid_fixed  (no guard needed)
   Examples at the end: the guards are needed at the level of a single pass.

   Size of the main dimension: with nth m sh = 1 slices 0 and max coincide and
   the scalar mode does NOT establish the trust (the raise undoes the lowering at
   the non-maximal behind positions); verify_hyperparameters / cfg_valid demand
   sizes >= 2. *)
From TFL Require Import Proofs.LatticeSpecFacts.
Open Scope Q_scope.

(* ------------------------------------------------------------------ *)
(* generic helpers                                                      *)
(* ------------------------------------------------------------------ *)
Lemma T_fold_seq_inv {A} (f : A -> nat -> A) (Inv : nat -> A -> Prop) : forall n s a,
  Inv s a -> (forall k a, (s <= k < s + n)%nat -> Inv k a -> Inv (S k) (f a k)) ->
  Inv (s + n)%nat (fold_left f (seq s n) a).
Proof. induction n as [|n IH]; intros s a H0 Hs; cbn [seq fold_left]. rewrite Nat.add_0_r; assumption.
  replace (s + S n)%nat with (S s + n)%nat by lia. apply IH. apply Hs; [lia|assumption].
  intros k a' Hk. apply Hs; lia. Qed.

Lemma T_cj_lt rv sc p : (p < sc)%nat -> (cj rv sc p < sc)%nat.
Proof. unfold cj; destruct rv; lia. Qed.
Lemma T_cj_inj rv sc p q : (p < sc)%nat -> (q < sc)%nat -> cj rv sc p = cj rv sc q -> p = q.
Proof. unfold cj; destruct rv; lia. Qed.
Lemma T_cj_adj rv sc p : (S p < sc)%nat -> cj rv sc (S p) = S (cj rv sc p) \/ cj rv sc p = S (cj rv sc (S p)).
Proof. unfold cj; destruct rv; lia. Qed.

Lemma T_unit_viols_length ud units B g : length (unit_viols ud units B g) = units.
Proof. unfold unit_viols. rewrite map_length, seq_length. reflexivity. Qed.
Lemma T_unit_viols_nth ud units B g u : (u < units)%nat ->
  nth u (unit_viols ud units B g) 0 = maxl0 (map (fun b => g (upd b ud u)) B).
Proof. intros. unfold unit_viols. apply (nth_map_seq (fun u => maxl0 (map (fun b => g (upd b ud u)) B))). assumption. Qed.

Definition T_comb (se : bool) (raw prev : list Q) : list Q := if se then map2 qmax raw prev else raw.
Lemma T_comb_length se raw prev n : length raw = n -> length prev = n -> length (T_comb se raw prev) = n.
Proof. intros. unfold T_comb. destruct se; [rewrite map2_length; lia|assumption]. Qed.
Lemma T_comb_nth se raw prev n u : length raw = n -> length prev = n -> (u < n)%nat ->
  nth u (T_comb se raw prev) 0 = if se then qmax (nth u raw 0) (nth u prev 0) else nth u raw 0.
Proof. intros. unfold T_comb. destruct se; [|reflexivity]. apply nth_map2; lia. Qed.

Definition T_zeros (units : nat) : list Q := map (fun _ => 0) (seq 0 units).
Lemma T_zeros_length units : length (T_zeros units) = units.
Proof. unfold T_zeros. rewrite map_length, seq_length. reflexivity. Qed.
Lemma T_zeros_nth units u : nth u (T_zeros units) 0 = 0.
Proof. destruct (Nat.ltb_spec u units). unfold T_zeros. apply (nth_map_seq (fun _ => 0)); assumption.
  apply nth_overflow. rewrite T_zeros_length. assumption. Qed.

(* ------------------------------------------------------------------ *)
(* "directional monotonicity on a slice": common form of mono_along and *)
(* of the two halves of a trapezoid trust                               *)
(* ------------------------------------------------------------------ *)
Definition pmono (sh : list nat) (P : idx -> Prop) (d : nat) (up : bool) (f : tens) : Prop :=
  forall x, valid sh x -> P x -> (S (nth d x 0%nat) < nth d sh 0%nat)%nat ->
  if up then f x <= f (upd x d (S (nth d x 0%nat))) else f (upd x d (S (nth d x 0%nat))) <= f x.

Lemma T_mono_along_pmono sh d f : mono_along sh d f <-> pmono sh (fun _ => True) d true f.
Proof. unfold mono_along, pmono. split; intros H x Hv; [intros _|]; auto. Qed.

Lemma T_trapezoid_pmono sh m c dir f : m <> c -> (m < length sh)%nat -> (c < length sh)%nat -> (1 <= nth m sh 0%nat)%nat ->
  (trapezoid_holds sh (m, c, dir) f <->
   pmono sh (fun x => nth m x 0%nat = 0%nat) c (negb (0 <? dir)%Z) f /\
   pmono sh (fun x => nth m x 0%nat = (nth m sh 0%nat - 1)%nat) c (0 <? dir)%Z f).
Proof. intros Hmc Hm Hc H1. unfold trapezoid_holds, pmono. cbv zeta. split.
  - intros H. split; intros x Hv Px Hs; specialize (H x (nth c x 0%nat) Hv Hs);
      rewrite !(at2_eq_self x m c _ (nth c x 0%nat) Px eq_refl) in H;
      unfold at2 in H; rewrite !(upd_eq_self x m _ Px) in H;
      destruct (0 <? dir)%Z; cbn [negb]; tauto.
  - intros [H0 Hx] b j Hv Hj.
    assert (Hl : length b = length sh) by (apply valid_length; assumption).
    assert (V0 : valid sh (at2 b m c 0%nat j)) by (apply at2_valid; [assumption|lia|lia]).
    assert (Vx : valid sh (at2 b m c (nth m sh 0%nat - 1)%nat j)) by (apply at2_valid; [assumption|lia|lia]).
    specialize (H0 _ V0). specialize (Hx _ Vx).
    rewrite at2_nth_m, at2_nth_c, at2_upd_c in H0, Hx by (auto; lia).
    specialize (H0 eq_refl Hj). specialize (Hx eq_refl Hj).
    destruct (0 <? dir)%Z; cbn [negb] in *; tauto. Qed.

(* ------------------------------------------------------------------ *)
(* one trapezoid pass; the behind list is abstract                      *)
(* ------------------------------------------------------------------ *)
Section Trap.
Variables (sh : list nat) (ud units m c : nat) (rv : bool) (B : list idx).
Hypothesis Hmc : m <> c.
Hypothesis Hmu : m <> ud.
Hypothesis Hcu : c <> ud.
Hypothesis Hm : (m < length sh)%nat.
Hypothesis Hc : (c < length sh)%nat.
Hypothesis Hud : (ud < length sh)%nat.
Hypothesis Hun : nth ud sh 0%nat = units.
Hypothesis Hm2 : (2 <= nth m sh 0%nat)%nat.
Hypothesis B_at : forall b u i j, In b B -> (u < units)%nat -> (i < nth m sh 0%nat)%nat -> (j < nth c sh 0%nat)%nat ->
  valid sh (at2 (upd b ud u) m c i j).
Hypothesis B_repr : forall x, valid sh x ->
  exists b, In b B /\ forall i j, at2 (upd b ud (nth ud x 0%nat)) m c i j = at2 x m c i j.
Local Notation sc := (nth c sh 0%nat).
Local Notation sm := (nth m sh 0%nat).
Local Notation mx := (nth m sh 0%nat - 1)%nat.
Local Notation cjp := (cj rv (nth c sh 0%nat)).
Local Notation xm x := (nth m x 0%nat).
Local Notation xc x := (nth c x 0%nat).
Local Notation xu x := (nth ud x 0%nat).

Lemma T_len x : valid sh x -> length x = length sh.
Proof. apply valid_length. Qed.
Lemma T_updc_valid x j : valid sh x -> (j < sc)%nat -> valid sh (upd x c j).
Proof. intros; apply upd_valid; assumption. Qed.
Lemma T_updc_c x j : valid sh x -> xc (upd x c j) = j.
Proof. intros Hv. apply nth_upd_same. rewrite (T_len x Hv). exact Hc. Qed.
Lemma T_updc_m x j : xm (upd x c j) = xm x.
Proof. apply nth_upd_other. auto. Qed.
Lemma T_updc_u x j : xu (upd x c j) = xu x.
Proof. apply nth_upd_other. auto. Qed.
Lemma T_xu_lt x : valid sh x -> (xu x < units)%nat.
Proof. intros Hv. rewrite <- Hun. apply valid_nth; assumption. Qed.
Lemma T_xc_lt x : valid sh x -> (xc x < sc)%nat.
Proof. intros Hv. apply valid_nth; assumption. Qed.
Lemma T_xm_lt x : valid sh x -> (xm x < sm)%nat.
Proof. intros Hv. apply valid_nth; assumption. Qed.
Lemma T_pt_at2 x i j : xm x = i -> at2 x m c i j = upd x c j.
Proof. intros E. unfold at2. rewrite (upd_eq_self x m i E). reflexivity. Qed.
Lemma T_cjp_ne p q : (p < sc)%nat -> (q < sc)%nat -> p <> q -> cjp p <> cjp q.
Proof. intros Hp Hq Hne E. apply Hne. eapply T_cj_inj; eassumption. Qed.

(* --- the two half-steps of one iteration, in both modes --- *)
Definition T_lo_el (j0 j1 : nat) (W : tens) : tens :=
  memo sh (fun x => if (nth m x 0 =? 0)%nat && (nth c x 0 =? j1)%nat
                    then Qred (W x - qmax (W x - W (upd x c j0)) 0) else W x).
Definition T_hi_el (j0 j1 : nat) (W1 : tens) : tens :=
  memo sh (fun x => if (nth m x 0 =? mx)%nat && (nth c x 0 =? j1)%nat
                    then Qred (W1 x + qmax (W1 (upd x c j0) - W1 x) 0) else W1 x).
Definition T_lo_sc (j1 : nat) (lu : list Q) (W : tens) : tens :=
  memo sh (fun x => if (nth m x 0 =? 0)%nat && (nth c x 0 =? j1)%nat
                    then Qred (W x - nth (nth ud x 0%nat) lu 0) else W x).
Definition T_hi_sc (j1 : nat) (ru : list Q) (W1 : tens) : tens :=
  memo sh (fun x => if (nth m x 0 =? mx)%nat && (nth c x 0 =? j1)%nat
                    then Qred (W1 x + nth (nth ud x 0%nat) ru 0) else W1 x).
Definition T_lraw (j0 j1 : nat) (W : tens) : list Q :=
  unit_viols ud units B (fun b => W (at2 b m c 0%nat j1) - W (at2 b m c 0%nat j0)).
Definition T_rraw (j0 j1 : nat) (W1 : tens) : list Q :=
  unit_viols ud units B (fun b => W1 (at2 b m c mx j0) - W1 (at2 b m c mx j1)).

Lemma T_step_el se st j :
  trap_step sh ud units B m c rv false se st j =
  mkTS (T_hi_el (cjp j) (cjp (S j)) (T_lo_el (cjp j) (cjp (S j)) (ts_W st))) (ts_l st) (ts_r st).
Proof. reflexivity. Qed.
Lemma T_step_sc se st j :
  trap_step sh ud units B m c rv true se st j =
  let j0 := cjp j in let j1 := cjp (S j) in
  let lu := T_comb se (T_lraw j0 j1 (ts_W st)) (ts_l st) in
  let W1 := T_lo_sc j1 lu (ts_W st) in
  let ru := T_comb se (T_rraw j0 j1 W1) (ts_r st) in
  mkTS (T_hi_sc j1 ru W1) lu ru.
Proof. reflexivity. Qed.

(* abstract descriptions on valid indices *)
Definition is_hstep (i0 : nat) (op : Q -> Q -> Q) (j0 j1 : nat) (W W' : tens) : Prop :=
  forall x, valid sh x ->
    W' x == if (xm x =? i0)%nat && (xc x =? j1)%nat then op (W x) (W (upd x c j0)) else W x.
Definition is_shift (i0 j1 : nat) (dl : nat -> Q) (W W' : tens) : Prop :=
  forall x, valid sh x ->
    W' x == if (xm x =? i0)%nat && (xc x =? j1)%nat then W x + dl (xu x) else W x.

Lemma T_lo_el_hstep j0 j1 W : is_hstep 0 qmin j0 j1 W (T_lo_el j0 j1 W).
Proof. intros x Hv. unfold T_lo_el. rewrite memo_ok by assumption.
  destruct (_ && _); [|reflexivity]. rewrite Qred_correct. qcases; lra. Qed.
Lemma T_hi_el_hstep j0 j1 W : is_hstep mx qmax j0 j1 W (T_hi_el j0 j1 W).
Proof. intros x Hv. unfold T_hi_el. rewrite memo_ok by assumption.
  destruct (_ && _); [|reflexivity]. rewrite Qred_correct. qcases; lra. Qed.
Lemma T_lo_sc_shift j1 lu W : is_shift 0 j1 (fun u => - nth u lu 0) W (T_lo_sc j1 lu W).
Proof. intros x Hv. unfold T_lo_sc. rewrite memo_ok by assumption.
  destruct (_ && _); [|reflexivity]. rewrite Qred_correct. lra. Qed.
Lemma T_hi_sc_shift j1 ru W : is_shift mx j1 (fun u => nth u ru 0) W (T_hi_sc j1 ru W).
Proof. intros x Hv. unfold T_hi_sc. rewrite memo_ok by assumption.
  destruct (_ && _); [|reflexivity]. rewrite Qred_correct. lra. Qed.

(* --- per-unit maximal violations --- *)
Lemma T_raw_nonneg g u : (u < units)%nat -> 0 <= nth u (unit_viols ud units B g) 0.
Proof. intros Hu. rewrite T_unit_viols_nth by assumption. apply maxl0_nonneg. Qed.
Lemma T_raw_ge (W : tens) i0 ja jb x : valid sh x -> xm x = i0 ->
  W (upd x c ja) - W (upd x c jb) <=
  nth (xu x) (unit_viols ud units B (fun b => W (at2 b m c i0 ja) - W (at2 b m c i0 jb))) 0.
Proof. intros Hv Hx. rewrite T_unit_viols_nth by (apply T_xu_lt; assumption).
  destruct (B_repr x Hv) as [b [Hb He]]. apply maxl0_ge. apply in_map_iff. exists b. split; [|assumption].
  rewrite !He. rewrite !(T_pt_at2 x i0 _ Hx). reflexivity. Qed.
Lemma T_raw_zero (W : tens) i0 ja jb u : (u < units)%nat -> (i0 < sm)%nat -> (ja < sc)%nat ->
  (forall x, valid sh x -> xm x = i0 -> W (upd x c ja) <= W (upd x c jb)) ->
  nth u (unit_viols ud units B (fun b => W (at2 b m c i0 ja) - W (at2 b m c i0 jb))) 0 == 0.
Proof. intros Hu Hi Hja H. rewrite T_unit_viols_nth by assumption. apply maxl0_zero.
  intros v Hin. apply in_map_iff in Hin. destruct Hin as [b [<- Hb]].
  pose proof (B_at b u i0 ja Hb Hu Hi Hja) as Hv.
  assert (Hl : length (upd b ud u) = length sh) by (rewrite <- (valid_length _ _ Hv), at2_length; reflexivity).
  assert (Hxm : xm (at2 (upd b ud u) m c i0 ja) = i0) by (apply at2_nth_m; [assumption|lia]).
  specialize (H _ Hv Hxm). rewrite !at2_upd_c in H. lra. Qed.

(* --- what one iteration guarantees, independent of the mode --- *)
Definition step_spec (j0 j1 : nat) (W W' : tens) : Prop := forall x, valid sh x ->
  if (xc x =? j1)%nat then
    if (xm x =? 0)%nat then W' x <= W x /\ W' x <= W (upd x c j0)
    else if (xm x =? mx)%nat then W x <= W' x /\ W (upd x c j0) <= W' x
    else W' x == W x
  else W' x == W x.

Lemma T_ss_other j0 j1 W W' x : step_spec j0 j1 W W' -> valid sh x -> xc x <> j1 -> W' x == W x.
Proof. intros H Hv Hne. specialize (H x Hv). destruct (Nat.eqb_spec (xc x) j1); [contradiction|assumption]. Qed.
Lemma T_ss_lo j0 j1 W W' x : step_spec j0 j1 W W' -> valid sh x -> xc x = j1 -> xm x = 0%nat ->
  W' x <= W x /\ W' x <= W (upd x c j0).
Proof. intros H Hv E1 E2. specialize (H x Hv). rewrite E1, E2, Nat.eqb_refl in H. exact H. Qed.
Lemma T_ss_hi j0 j1 W W' x : step_spec j0 j1 W W' -> valid sh x -> xc x = j1 -> xm x = mx ->
  W x <= W' x /\ W (upd x c j0) <= W' x.
Proof. intros H Hv E1 E2. specialize (H x Hv). rewrite E1, E2, !Nat.eqb_refl in H.
  destruct (Nat.eqb_spec mx 0); [lia|exact H]. Qed.
Lemma T_ss_mid j0 j1 W W' x : step_spec j0 j1 W W' -> valid sh x -> xm x <> 0%nat -> xm x <> mx -> W' x == W x.
Proof. intros H Hv E1 E2. specialize (H x Hv). destruct (xc x =? j1)%nat; [|exact H].
  destruct (Nat.eqb_spec (xm x) 0); [contradiction|]. destruct (Nat.eqb_spec (xm x) mx); [contradiction|exact H]. Qed.

Lemma T_el_step_spec j0 j1 W W1 W2 : j0 <> j1 -> (j0 < sc)%nat ->
  is_hstep 0 qmin j0 j1 W W1 -> is_hstep mx qmax j0 j1 W1 W2 -> step_spec j0 j1 W W2.
Proof. intros Hne Hj0 H1 H2 x Hv.
  pose proof (H1 x Hv) as E1. pose proof (H2 x Hv) as E2.
  pose proof (H1 _ (T_updc_valid x j0 Hv Hj0)) as E3. rewrite T_updc_c, T_updc_m in E3 by assumption.
  replace (j0 =? j1)%nat with false in E3 by (symmetry; apply Nat.eqb_neq; assumption).
  rewrite andb_false_r in E3.
  destruct (Nat.eqb_spec (xc x) j1) as [Ec|Ec]; destruct (Nat.eqb_spec (xm x) 0) as [E0|E0];
    destruct (Nat.eqb_spec (xm x) mx) as [Ex|Ex]; cbn [andb] in *; try lia; qcases; try split; lra. Qed.

Lemma T_sc_step_spec j0 j1 dl dr W W1 W2 : j0 <> j1 -> (j0 < sc)%nat ->
  is_shift 0 j1 dl W W1 -> is_shift mx j1 dr W1 W2 ->
  (forall u, (u < units)%nat -> dl u <= 0 /\ 0 <= dr u) ->
  (forall x, valid sh x -> xm x = 0%nat -> xc x = j1 -> W x - W (upd x c j0) <= - dl (xu x)) ->
  (forall x, valid sh x -> xm x = mx -> xc x = j1 -> W1 (upd x c j0) - W1 x <= dr (xu x)) ->
  step_spec j0 j1 W W2.
Proof. intros Hne Hj0 H1 H2 Hs Hl Hr x Hv.
  pose proof (H1 x Hv) as E1. pose proof (H2 x Hv) as E2.
  pose proof (H1 _ (T_updc_valid x j0 Hv Hj0)) as E3. rewrite T_updc_c, T_updc_m in E3 by assumption.
  replace (j0 =? j1)%nat with false in E3 by (symmetry; apply Nat.eqb_neq; assumption).
  rewrite andb_false_r in E3.
  destruct (Hs (xu x) (T_xu_lt x Hv)) as [Hs1 Hs2].
  specialize (Hl x Hv). specialize (Hr x Hv).
  destruct (Nat.eqb_spec (xc x) j1) as [Ec|Ec]; destruct (Nat.eqb_spec (xm x) 0) as [E0|E0];
    destruct (Nat.eqb_spec (xm x) mx) as [Ex|Ex]; cbn [andb] in *; try lia; try split;
    try specialize (Hl E0 Ec); try specialize (Hr Ex Ec); lra. Qed.
Lemma T_raw_ge_l (W : tens) i0 ja jb x : valid sh x -> xm x = i0 -> xc x = ja ->
  W x - W (upd x c jb) <=
  nth (xu x) (unit_viols ud units B (fun b => W (at2 b m c i0 ja) - W (at2 b m c i0 jb))) 0.
Proof. intros Hv Hx Hc'. pose proof (T_raw_ge W i0 ja jb x Hv Hx) as G.
  rewrite (upd_eq_self x c ja Hc') in G. exact G. Qed.
Lemma T_raw_ge_r (W : tens) i0 ja jb x : valid sh x -> xm x = i0 -> xc x = ja ->
  W (upd x c jb) - W x <=
  nth (xu x) (unit_viols ud units B (fun b => W (at2 b m c i0 jb) - W (at2 b m c i0 ja))) 0.
Proof. intros Hv Hx Hc'. pose proof (T_raw_ge W i0 jb ja x Hv Hx) as G.
  rewrite (upd_eq_self x c ja Hc') in G. exact G. Qed.

Variables (any_e same_e : bool).
Definition st_ok (st : trap_state) : Prop := length (ts_l st) = units /\ length (ts_r st) = units.
Local Notation stepf := (trap_step sh ud units B m c rv any_e same_e).

Lemma T_step_ok st k : st_ok st -> st_ok (stepf st k).
Proof. intros [H1 H2]. destruct any_e.
  - rewrite T_step_sc. cbv zeta. split; cbn [ts_l ts_r]; (apply T_comb_length; [apply T_unit_viols_length|assumption]).
  - rewrite T_step_el. exact (conj H1 H2). Qed.

(* everything the proofs need to know about one scalar-mode iteration *)
Lemma T_sc_step_facts st k : (S k < sc)%nat -> st_ok st ->
  let st' := trap_step sh ud units B m c rv true same_e st k in
  let lu u := nth u (ts_l st') 0 in let ru u := nth u (ts_r st') 0 in
  st_ok st' /\
  exists W1, is_shift 0 (cjp (S k)) (fun u => - lu u) (ts_W st) W1 /\ is_shift mx (cjp (S k)) ru W1 (ts_W st') /\
  (forall u, (u < units)%nat -> 0 <= lu u /\ 0 <= ru u) /\
  (forall x, valid sh x -> xm x = 0%nat -> xc x = cjp (S k) -> ts_W st x - ts_W st (upd x c (cjp k)) <= lu (xu x)) /\
  (forall x, valid sh x -> xm x = mx -> xc x = cjp (S k) -> W1 (upd x c (cjp k)) - W1 x <= ru (xu x)) /\
  (same_e = true -> forall u, (u < units)%nat -> nth u (ts_l st) 0 <= lu u /\ nth u (ts_r st) 0 <= ru u) /\
  ((forall x, valid sh x -> xm x = 0%nat -> ts_W st (upd x c (cjp (S k))) <= ts_W st (upd x c (cjp k))) ->
   (forall u, (u < units)%nat -> nth u (ts_l st) 0 == 0) -> forall u, (u < units)%nat -> lu u == 0) /\
  ((forall x, valid sh x -> xm x = mx -> W1 (upd x c (cjp k)) <= W1 (upd x c (cjp (S k)))) ->
   (forall u, (u < units)%nat -> nth u (ts_r st) 0 == 0) -> forall u, (u < units)%nat -> ru u == 0).
Proof. intros Hk [Hl Hr]. rewrite T_step_sc. cbv zeta. cbn [ts_W ts_l ts_r].
  set (j0 := cjp k). set (j1 := cjp (S k)).
  assert (Hj0 : (j0 < sc)%nat) by (apply T_cj_lt; lia).
  assert (Hj1 : (j1 < sc)%nat) by (apply T_cj_lt; lia).
  set (lraw := T_lraw j0 j1 (ts_W st)). set (lu := T_comb same_e lraw (ts_l st)).
  set (W1 := T_lo_sc j1 lu (ts_W st)).
  set (rraw := T_rraw j0 j1 W1). set (ru := T_comb same_e rraw (ts_r st)).
  assert (Ll : length lraw = units) by apply T_unit_viols_length.
  assert (Lr : length rraw = units) by apply T_unit_viols_length.
  assert (Lnth : forall u, (u < units)%nat ->
            nth u lu 0 = if same_e then qmax (nth u lraw 0) (nth u (ts_l st) 0) else nth u lraw 0)
    by (intros; apply T_comb_nth with (n := units); assumption).
  assert (Rnth : forall u, (u < units)%nat ->
            nth u ru 0 = if same_e then qmax (nth u rraw 0) (nth u (ts_r st) 0) else nth u rraw 0)
    by (intros; apply T_comb_nth with (n := units); assumption).
  split. { split; apply T_comb_length; assumption. }
  exists W1. split; [apply T_lo_sc_shift|]. split; [apply T_hi_sc_shift|].
  split. { intros u Hu. rewrite Lnth, Rnth by assumption.
    assert (0 <= nth u lraw 0) by (apply T_raw_nonneg; assumption).
    assert (0 <= nth u rraw 0) by (apply T_raw_nonneg; assumption).
    destruct same_e; qcases; lra. }
  split. { intros x Hv Hxm Hxc. rewrite Lnth by (apply T_xu_lt; assumption).
    assert (G : ts_W st x - ts_W st (upd x c j0) <= nth (xu x) lraw 0)
      by exact (T_raw_ge_l (ts_W st) 0%nat j1 j0 x Hv Hxm Hxc).
    destruct same_e; qcases; lra. }
  split. { intros x Hv Hxm Hxc. rewrite Rnth by (apply T_xu_lt; assumption).
    assert (G : W1 (upd x c j0) - W1 x <= nth (xu x) rraw 0)
      by exact (T_raw_ge_r W1 mx j1 j0 x Hv Hxm Hxc).
    destruct same_e; qcases; lra. }
  split. { intros E u Hu. rewrite Lnth, Rnth by assumption. rewrite E. split; apply qmax_r. }
  split.
  - intros H Hz u Hu. rewrite Lnth by assumption.
    assert (Z : nth u lraw 0 == 0) by (apply T_raw_zero; [assumption|lia|assumption|exact H]).
    specialize (Hz u Hu). destruct same_e; qcases; lra.
  - intros H Hz u Hu. rewrite Rnth by assumption.
    assert (Z : nth u rraw 0 == 0) by (apply T_raw_zero; [assumption|lia|assumption|exact H]).
    specialize (Hz u Hu). destruct same_e; qcases; lra. Qed.

Lemma T_trap_step_spec st k : (S k < sc)%nat -> st_ok st ->
  step_spec (cjp k) (cjp (S k)) (ts_W st) (ts_W (stepf st k)).
Proof. intros Hk Hok.
  assert (Hj0 : (cjp k < sc)%nat) by (apply T_cj_lt; lia).
  assert (Hne : cjp k <> cjp (S k)) by (apply T_cjp_ne; lia).
  destruct any_e.
  - destruct (T_sc_step_facts st k Hk Hok) as (_ & W1 & S1 & S2 & Hnn & HL & HR & _).
    eapply T_sc_step_spec; [exact Hne|exact Hj0|exact S1|exact S2| | |].
    + intros u Hu. destruct (Hnn u Hu). cbv beta. split; lra.
    + intros x Hv E1 E2. specialize (HL x Hv E1 E2). cbv beta. lra.
    + intros x Hv E1 E2. exact (HR x Hv E1 E2).
  - rewrite T_step_el. cbn [ts_W].
    eapply T_el_step_spec; [exact Hne|exact Hj0|apply T_lo_el_hstep|apply T_hi_el_hstep]. Qed.

(* --- the trust in "logical" coordinates (position p <-> column cj rv sc p) --- *)
Definition lpair (f : tens) (p : nat) : Prop :=
  (forall x, valid sh x -> xm x = 0%nat -> xc x = cjp (S p) -> f x <= f (upd x c (cjp p))) /\
  (forall x, valid sh x -> xm x = mx -> xc x = cjp (S p) -> f (upd x c (cjp p)) <= f x).

Lemma T_lpair_teq f g p : (S p < sc)%nat -> teq sh f g -> lpair f p -> lpair g p.
Proof. intros Hp E [H1 H2]. assert (Hlt : (cjp p < sc)%nat) by (apply T_cj_lt; lia).
  split; intros x Hv Hxm Hxc; rewrite <- (E x Hv), <- (E _ (T_updc_valid x _ Hv Hlt)); auto. Qed.

Lemma T_ss_fix W W' k : (S k < sc)%nat -> step_spec (cjp k) (cjp (S k)) W W' -> lpair W' k.
Proof. intros Hk H. assert (Hj0 : (cjp k < sc)%nat) by (apply T_cj_lt; lia).
  assert (Hne : cjp k <> cjp (S k)) by (apply T_cjp_ne; lia).
  split; intros x Hv Hxm Hxc;
    pose proof (T_ss_other _ _ _ _ (upd x c (cjp k)) H (T_updc_valid x _ Hv Hj0)
                  ltac:(rewrite T_updc_c by assumption; exact Hne)) as E.
  - destruct (T_ss_lo _ _ _ _ x H Hv Hxc Hxm) as [_ G]. lra.
  - destruct (T_ss_hi _ _ _ _ x H Hv Hxc Hxm) as [_ G]. lra. Qed.

Lemma T_ss_keep W W' k p : (S k < sc)%nat -> (p < k)%nat ->
  step_spec (cjp k) (cjp (S k)) W W' -> lpair W p -> lpair W' p.
Proof. intros Hk Hp H [H1 H2].
  assert (N1 : cjp (S p) <> cjp (S k)) by (apply T_cjp_ne; lia).
  assert (N0 : cjp p <> cjp (S k)) by (apply T_cjp_ne; lia).
  assert (Hj : (cjp p < sc)%nat) by (apply T_cj_lt; lia).
  split; intros x Hv Hxm Hxc;
    pose proof (T_ss_other _ _ _ _ x H Hv ltac:(rewrite Hxc; exact N1));
    pose proof (T_ss_other _ _ _ _ (upd x c (cjp p)) H (T_updc_valid x _ Hv Hj)
                  ltac:(rewrite T_updc_c by assumption; exact N0)).
  - specialize (H1 x Hv Hxm Hxc). lra.
  - specialize (H2 x Hv Hxm Hxc). lra. Qed.

(* slice 0 only lowered, slice mx only raised, the rest untouched *)
Definition lr_rel (W W' : tens) : Prop := forall x, valid sh x ->
  (xm x = 0%nat -> W' x <= W x) /\ (xm x = mx -> W x <= W' x) /\ (xm x <> 0%nat -> xm x <> mx -> W' x == W x).
Lemma T_lr_refl W : lr_rel W W.
Proof. intros x Hv. repeat split; intros; lra. Qed.
Lemma T_lr_trans W1 W2 W3 : lr_rel W1 W2 -> lr_rel W2 W3 -> lr_rel W1 W3.
Proof. intros A A' x Hv. destruct (A x Hv) as (A1 & A2 & A3), (A' x Hv) as (B1 & B2 & B3). repeat split.
  - intros H. specialize (A1 H); specialize (B1 H); lra.
  - intros H. specialize (A2 H); specialize (B2 H); lra.
  - intros H H'. specialize (A3 H H'); specialize (B3 H H'); lra. Qed.
Lemma T_ss_lr j0 j1 W W' : step_spec j0 j1 W W' -> lr_rel W W'.
Proof. intros H x Hv. destruct (Nat.eq_dec (xc x) j1) as [E|E].
  - repeat split; intros.
    + apply (T_ss_lo _ _ _ _ x H Hv E); assumption.
    + apply (T_ss_hi _ _ _ _ x H Hv E); assumption.
    + apply (T_ss_mid _ _ _ _ x H Hv); assumption.
  - pose proof (T_ss_other _ _ _ _ x H Hv E). repeat split; intros; lra. Qed.
Lemma T_lr_mono_main W W' : lr_rel W W' -> mono_along sh m W -> mono_along sh m W'.
Proof. intros R Hmo x Hv Hs. specialize (Hmo x Hv Hs).
  set (y := upd x m (S (xm x))) in *. assert (Hvy : valid sh y) by (apply upd_valid; assumption).
  assert (Hym : xm y = S (xm x)) by (apply nth_upd_same; rewrite (T_len x Hv); exact Hm).
  destruct (R x Hv) as (A1 & A2 & A3), (R y Hvy) as (B1 & B2 & B3).
  destruct (Nat.eq_dec (xm x) 0) as [E0|E0].
  - specialize (A1 E0). destruct (Nat.eq_dec (xm y) mx) as [Ey|Ey].
    + specialize (B2 Ey). lra.
    + specialize (B3 ltac:(lia) Ey). lra.
  - specialize (A3 E0 ltac:(lia)). destruct (Nat.eq_dec (xm y) mx) as [Ey|Ey].
    + specialize (B2 Ey); lra.
    + specialize (B3 ltac:(lia) Ey); lra. Qed.

(* --- the whole pass --- *)
Definition T_run (W : tens) : trap_state :=
  fold_left stepf (seq 0 (sc - 1)) (mkTS W (T_zeros units) (T_zeros units)).
Lemma T_run_inv (Inv : nat -> trap_state -> Prop) W :
  Inv 0%nat (mkTS W (T_zeros units) (T_zeros units)) ->
  (forall k st, (S k < sc)%nat -> Inv k st -> Inv (S k) (stepf st k)) -> Inv (sc - 1)%nat (T_run W).
Proof. intros H0 Hs. unfold T_run. apply (T_fold_seq_inv stepf Inv (sc - 1) 0%nat _ H0).
  intros k a Hk. apply Hs. lia. Qed.
Lemma T_init_ok W : st_ok (mkTS W (T_zeros units) (T_zeros units)).
Proof. split; apply T_zeros_length. Qed.

Lemma T_run_established W p : (S p < sc)%nat -> lpair (ts_W (T_run W)) p.
Proof. intros Hp.
  assert (H : st_ok (T_run W) /\ forall p, (p < sc - 1)%nat -> lpair (ts_W (T_run W)) p).
  { apply (T_run_inv (fun k st => st_ok st /\ forall p, (p < k)%nat -> lpair (ts_W st) p)).
    - split. apply T_init_ok. intros q Hq; lia.
    - intros k st Hk [Hok Hq]. split. apply T_step_ok; assumption.
      intros q Hlt. pose proof (T_trap_step_spec st k Hk Hok) as SS.
      destruct (Nat.eq_dec q k) as [->|Hne]. apply (T_ss_fix (ts_W st)); assumption.
      apply (T_ss_keep (ts_W st) _ k q); try assumption. lia. apply Hq; lia. }
  apply H. lia. Qed.

Lemma T_run_lr W : lr_rel W (ts_W (T_run W)).
Proof.
  assert (H : st_ok (T_run W) /\ lr_rel W (ts_W (T_run W))).
  { apply (T_run_inv (fun _ st => st_ok st /\ lr_rel W (ts_W st))).
    - split. apply T_init_ok. apply T_lr_refl.
    - intros k st Hk [Hok Hq]. split. apply T_step_ok; assumption.
      eapply T_lr_trans. exact Hq. eapply T_ss_lr. apply T_trap_step_spec; assumption. }
  apply H. Qed.
Lemma T_run_mono_main W : mono_along sh m W -> mono_along sh m (ts_W (T_run W)).
Proof. apply T_lr_mono_main. apply T_run_lr. Qed.
(* --- elementwise mode: order relations between neighbours survive ---
   (this is the "square" argument of the docstring: the new value of a point is
   the min / max of itself and its predecessor along c, which is monotone in
   both and always equal to one of them) *)
Definition c_stable (P : idx -> Prop) : Prop := forall x j, P x -> P (upd x c j).

Section Op.
Variable op : Q -> Q -> Q.
Hypothesis op_mono : forall a a' b b', a <= a' -> b <= b' -> op a b <= op a' b'.
Hypothesis op_sel : forall a b, op a b == a \/ op a b == b.

Lemma T_hstep_pmono_other i0 j0 j1 W W' P d up : is_hstep i0 op j0 j1 W W' -> (j0 < sc)%nat ->
  d <> m -> d <> c -> (d < length sh)%nat -> c_stable P -> pmono sh P d up W -> pmono sh P d up W'.
Proof. intros H Hj0 Hdm Hdc Hd Pc Hp x Hv Px Hs.
  set (y := upd x d (S (nth d x 0%nat))).
  assert (Hvy : valid sh y) by (apply upd_valid; assumption).
  pose proof (H x Hv) as Ex. pose proof (H y Hvy) as Ey.
  assert (Eym : xm y = xm x) by (apply nth_upd_other; auto).
  assert (Eyc : xc y = xc x) by (apply nth_upd_other; auto).
  rewrite Eym, Eyc in Ey.
  pose proof (Hp x Hv Px Hs) as G1. fold y in G1.
  set (z := upd x c j0) in *. assert (Hvz : valid sh z) by (apply T_updc_valid; assumption).
  assert (Ezd : nth d z 0%nat = nth d x 0%nat) by (apply nth_upd_other; auto).
  pose proof (Hp z Hvz (Pc x j0 Px)) as G2. rewrite Ezd in G2. specialize (G2 Hs).
  assert (Eyz : upd y c j0 = upd z d (S (nth d x 0%nat))) by (unfold y, z; apply upd_comm; auto).
  rewrite Eyz in Ey.
  destruct ((xm x =? i0)%nat && (xc x =? j1)%nat).
  - destruct up; rewrite Ex, Ey; apply op_mono; assumption.
  - destruct up; rewrite Ex, Ey; assumption. Qed.

Lemma T_hstep_pmono_cond i0 j0 j1 W W' P up : is_hstep i0 op j0 j1 W W' -> (j0 < sc)%nat -> (j1 < sc)%nat ->
  (j0 = S j1 \/ j1 = S j0) -> c_stable P -> pmono sh P c up W -> pmono sh P c up W'.
Proof. intros H Hj0 Hj1 Hadj Pc Hp x Hv Px Hs.
  pose proof (Hp x Hv Px Hs) as G1.
  set (a := xc x) in *. set (y := upd x c (S a)) in *.
  assert (Hvy : valid sh y) by (apply T_updc_valid; assumption).
  pose proof (H x Hv) as Ex. pose proof (H y Hvy) as Ey. fold a in Ex.
  assert (Eym : xm y = xm x) by apply T_updc_m.
  assert (Eyc : xc y = S a) by (apply T_updc_c; assumption).
  rewrite Eym, Eyc in Ey.
  assert (Eyj : upd y c j0 = upd x c j0) by (unfold y; apply upd_upd). rewrite Eyj in Ey.
  set (z := upd x c j0) in *. assert (Hvz : valid sh z) by (apply T_updc_valid; assumption).
  (* x is the updated point: its predecessor z lies on the far side of y or equals y *)
  assert (Btw1 : a = j1 -> if up then W z <= W y else W y <= W z).
  { intros Ea. destruct Hadj as [E|E].
    - assert (Ezy : z = y) by (unfold z, y; f_equal; lia). rewrite Ezy. destruct up; lra.
    - pose proof (Hp z Hvz (Pc x j0 Px)) as G. unfold z in G. rewrite (T_updc_c x j0 Hv) in G.
      specialize (G ltac:(lia)). rewrite upd_upd in G.
      replace (S j0) with a in G by lia. unfold a in G. rewrite upd_self in G. fold z in G.
      destruct up; lra. }
  (* y is the updated point *)
  assert (Btw2 : S a = j1 -> if up then W x <= W z else W z <= W x).
  { intros Ea. destruct Hadj as [E|E].
    - pose proof (Hp y Hvy (Pc x _ Px)) as G. rewrite Eyc in G. specialize (G ltac:(lia)).
      replace (S (S a)) with j0 in G by lia. rewrite Eyj in G. destruct up; lra.
    - assert (Ezx : z = x) by (unfold z; replace j0 with a by lia; apply upd_self). rewrite Ezx. destruct up; lra. }
  destruct (Nat.eqb_spec (xm x) i0) as [Ei|Ei]; cbn [andb] in Ex, Ey;
    [|destruct up; rewrite Ex, Ey; exact G1].
  destruct (Nat.eqb_spec a j1) as [Ea|Ea]; destruct (Nat.eqb_spec (S a) j1) as [Eb|Eb]; try lia.
  - specialize (Btw1 Ea). destruct (op_sel (W x) (W z)) as [S|S]; rewrite S in Ex; destruct up; lra.
  - specialize (Btw2 Eb). destruct (op_sel (W y) (W z)) as [S|S]; rewrite S in Ey; destruct up; lra.
  - destruct up; rewrite Ex, Ey; exact G1. Qed.
End Op.

Lemma T_qmin_sel a b : qmin a b == a \/ qmin a b == b.
Proof. qcases; [left|right]; reflexivity. Qed.
Lemma T_qmax_sel a b : qmax a b == a \/ qmax a b == b.
Proof. qcases; [right|left]; reflexivity. Qed.

Lemma T_el_step_pmono_other se st k P d up : (S k < sc)%nat -> d <> m -> d <> c -> (d < length sh)%nat -> c_stable P ->
  pmono sh P d up (ts_W st) -> pmono sh P d up (ts_W (trap_step sh ud units B m c rv false se st k)).
Proof. intros Hk ? ? ? Pc Hp. rewrite T_step_el. cbn [ts_W].
  assert (cjp k < sc)%nat by (apply T_cj_lt; lia).
  eapply (T_hstep_pmono_other qmax (fun a a' b b' => qmax_mono a b a' b')); [apply T_hi_el_hstep| | | | | |]; try assumption.
  eapply (T_hstep_pmono_other qmin (fun a a' b b' => qmin_mono a b a' b')); [apply T_lo_el_hstep| | | | | |]; assumption. Qed.
Lemma T_el_step_pmono_cond se st k P up : (S k < sc)%nat -> c_stable P ->
  pmono sh P c up (ts_W st) -> pmono sh P c up (ts_W (trap_step sh ud units B m c rv false se st k)).
Proof. intros Hk Pc Hp. rewrite T_step_el. cbn [ts_W].
  assert (cjp k < sc)%nat by (apply T_cj_lt; lia). assert (cjp (S k) < sc)%nat by (apply T_cj_lt; lia).
  assert (cjp k = S (cjp (S k)) \/ cjp (S k) = S (cjp k)) by (destruct (T_cj_adj rv sc k Hk); auto).
  eapply (T_hstep_pmono_cond qmax T_qmax_sel); [apply T_hi_el_hstep| | | | |]; try assumption.
  eapply (T_hstep_pmono_cond qmin T_qmin_sel); [apply T_lo_el_hstep| | | | |]; assumption. Qed.

Lemma T_run_el_pmono_other W P d up : any_e = false -> d <> m -> d <> c -> (d < length sh)%nat -> c_stable P ->
  pmono sh P d up W -> pmono sh P d up (ts_W (T_run W)).
Proof. intros E ? ? ? Pc Hp. apply (T_run_inv (fun _ st => pmono sh P d up (ts_W st))). exact Hp.
  intros k st Hk Hq. destruct any_e; [discriminate|]. apply T_el_step_pmono_other; assumption. Qed.
Lemma T_run_el_pmono_cond W P up : any_e = false -> c_stable P ->
  pmono sh P c up W -> pmono sh P c up (ts_W (T_run W)).
Proof. intros E Pc Hp. apply (T_run_inv (fun _ st => pmono sh P c up (ts_W st))). exact Hp.
  intros k st Hk Hq. destruct any_e; [discriminate|]. apply T_el_step_pmono_cond; assumption. Qed.
(* --- scalar mode: every (m, c, unit) column moves rigidly --- *)
Definition rigid (W W' : tens) : Prop := forall x y, valid sh x -> valid sh y ->
  xm x = xm y -> xc x = xc y -> xu x = xu y -> W' x - W x == W' y - W y.
Lemma T_rigid_refl W : rigid W W.
Proof. intros x y _ _ _ _ _. lra. Qed.
Lemma T_rigid_trans W1 W2 W3 : rigid W1 W2 -> rigid W2 W3 -> rigid W1 W3.
Proof. intros A A' x y Hx Hy E1 E2 E3. specialize (A x y Hx Hy E1 E2 E3). specialize (A' x y Hx Hy E1 E2 E3). lra. Qed.
Lemma T_shift_rigid i0 j1 dl W W' : is_shift i0 j1 dl W W' -> rigid W W'.
Proof. intros H x y Hx Hy E1 E2 E3. rewrite (H x Hx), (H y Hy), E1, E2, E3. destruct (_ && _); lra. Qed.
Lemma T_sc_step_rigid st k : (S k < sc)%nat -> st_ok st ->
  rigid (ts_W st) (ts_W (trap_step sh ud units B m c rv true same_e st k)).
Proof. intros Hk Hok. destruct (T_sc_step_facts st k Hk Hok) as (_ & W1 & S1 & S2 & _).
  eapply T_rigid_trans; eapply T_shift_rigid; eassumption. Qed.
Lemma T_run_rigid W : any_e = true -> rigid W (ts_W (T_run W)).
Proof. intros E.
  assert (H : st_ok (T_run W) /\ rigid W (ts_W (T_run W))).
  { apply (T_run_inv (fun _ st => st_ok st /\ rigid W (ts_W st))).
    - split. apply T_init_ok. apply T_rigid_refl.
    - intros k st Hk [Hok Hq]. split. apply T_step_ok; assumption.
      destruct any_e; [|discriminate]. eapply T_rigid_trans. exact Hq. apply T_sc_step_rigid; assumption. }
  apply H. Qed.

Lemma T_rigid_pmono W W' P d up : rigid W W' -> d <> m -> d <> c -> d <> ud -> (d < length sh)%nat ->
  pmono sh P d up W -> pmono sh P d up W'.
Proof. intros R ? ? ? Hd Hp x Hv Px Hs. specialize (Hp x Hv Px Hs).
  set (y := upd x d (S (nth d x 0%nat))) in *.
  assert (Hvy : valid sh y) by (apply upd_valid; assumption).
  pose proof (R x y Hv Hvy ltac:(symmetry; apply nth_upd_other; auto)
                ltac:(symmetry; apply nth_upd_other; auto) ltac:(symmetry; apply nth_upd_other; auto)).
  destruct up; lra. Qed.

Lemma T_at2_nth b m2 c2 i j d : m2 <> c2 -> (m2 < length b)%nat -> (c2 < length b)%nat ->
  nth d (at2 b m2 c2 i j) 0%nat = if (d =? c2)%nat then j else if (d =? m2)%nat then i else nth d b 0%nat.
Proof. intros Hne H1 H2. destruct (Nat.eqb_spec d c2) as [->|E1]. apply at2_nth_c; assumption.
  destruct (Nat.eqb_spec d m2) as [->|E2]. apply at2_nth_m; assumption. apply at2_nth_other; assumption. Qed.

Lemma T_rigid_esq W W' m2 c2 i j b : rigid W W' -> m2 <> c2 -> m2 <> ud -> c2 <> ud -> m2 <> c -> c2 <> m ->
  (m2 <> m \/ c2 <> c) -> (m2 < length sh)%nat -> (c2 < length sh)%nat -> valid sh b ->
  (S i < nth m2 sh 0%nat)%nat -> (S j < nth c2 sh 0%nat)%nat -> esq W' m2 c2 i j b == esq W m2 c2 i j b.
Proof. intros R Hne Hu1 Hu2 Hx1 Hx2 Hor Hm2' Hc2' Hv Hi Hj.
  assert (Hl : length b = length sh) by (apply T_len; assumption).
  assert (V : forall i' j', (i' <= S i)%nat -> (j' <= S j)%nat -> valid sh (at2 b m2 c2 i' j'))
    by (intros; apply at2_valid; [assumption|lia|lia]).
  assert (Co : forall d i1 j1 i2 j2, (d <> m2 \/ i1 = i2) -> (d <> c2 \/ j1 = j2) ->
             nth d (at2 b m2 c2 i1 j1) 0%nat = nth d (at2 b m2 c2 i2 j2) 0%nat).
  { assert (Hmb : (m2 < length b)%nat) by lia. assert (Hcb : (c2 < length b)%nat) by lia.
    clear - Hne Hmb Hcb. intros d i1 j1 i2 j2 A1 A2. rewrite !(T_at2_nth b m2 c2 _ _ d Hne Hmb Hcb).
    destruct (Nat.eqb_spec d c2); [lia|]. destruct (Nat.eqb_spec d m2); [lia|]. reflexivity. }
  unfold esq. destruct Hor as [Hd|Hd].
  - pose proof (R _ _ (V i j ltac:(lia) ltac:(lia)) (V (S i) j ltac:(lia) ltac:(lia))
                  ltac:(apply Co; lia) ltac:(apply Co; lia) ltac:(apply Co; lia)).
    pose proof (R _ _ (V i (S j) ltac:(lia) ltac:(lia)) (V (S i) (S j) ltac:(lia) ltac:(lia))
                  ltac:(apply Co; lia) ltac:(apply Co; lia) ltac:(apply Co; lia)).
    lra.
  - pose proof (R _ _ (V i j ltac:(lia) ltac:(lia)) (V i (S j) ltac:(lia) ltac:(lia))
                  ltac:(apply Co; lia) ltac:(apply Co; lia) ltac:(apply Co; lia)).
    pose proof (R _ _ (V (S i) j ltac:(lia) ltac:(lia)) (V (S i) (S j) ltac:(lia) ltac:(lia))
                  ltac:(apply Co; lia) ltac:(apply Co; lia) ltac:(apply Co; lia)).
    lra. Qed.

(* --- scalar mode with the matching Edgeworth trust: the updates of
   consecutive columns are non-decreasing (that is what [prior] is for) --- *)
Definition lslope (f : tens) (i p : nat) (b : idx) : Q :=
  f (at2 b m c (S i) (cjp p)) - f (at2 b m c i (cjp p)).
Definition ledge (f : tens) : Prop := forall i p b, valid sh b -> (S i < sm)%nat -> (S p < sc)%nat ->
  lslope f i p b <= lslope f i (S p) b.
Definition slack (l r : nat -> Q) (i u : nat) : Q :=
  (if (i =? 0)%nat then l u else 0) + (if (S i =? mx)%nat then r u else 0).
Lemma T_slack_le l r l' r' i u : l u <= l' u -> r u <= r' u -> slack l r i u <= slack l' r' i u.
Proof. intros. unfold slack. destruct (i =? 0)%nat, (S i =? mx)%nat; lra. Qed.

Lemma T_cjp_eqb p q : (p < sc)%nat -> (q < sc)%nat -> (cjp p =? cjp q)%nat = (p =? q)%nat.
Proof. intros Hp Hq. destruct (Nat.eqb_spec p q) as [->|Hne]. apply Nat.eqb_refl.
  apply Nat.eqb_neq. apply T_cjp_ne; assumption. Qed.

Lemma T_sc_lslope W W1 W2 k lu ru i p b : (S k < sc)%nat ->
  is_shift 0 (cjp (S k)) (fun u => - lu u) W W1 -> is_shift mx (cjp (S k)) ru W1 W2 ->
  valid sh b -> (S i < sm)%nat -> (p < sc)%nat ->
  lslope W2 i p b == lslope W i p b + (if (p =? S k)%nat then slack lu ru i (xu b) else 0).
Proof. intros Hk S1 S2 Hv Hi Hp.
  assert (Hl : length b = length sh) by (apply T_len; assumption).
  assert (Hjp : (cjp p < sc)%nat) by (apply T_cj_lt; assumption).
  assert (V0 : valid sh (at2 b m c i (cjp p))) by (apply at2_valid; [assumption|lia|assumption]).
  assert (V1 : valid sh (at2 b m c (S i) (cjp p))) by (apply at2_valid; [assumption|lia|assumption]).
  pose proof (S1 _ V0) as A0. pose proof (S1 _ V1) as A1. pose proof (S2 _ V0) as B0. pose proof (S2 _ V1) as B1.
  rewrite at2_nth_m, at2_nth_c, at2_nth_other in A0, A1, B0, B1 by lia.
  rewrite T_cjp_eqb in A0, A1, B0, B1 by lia.
  unfold lslope, slack.
  destruct (Nat.eqb_spec p (S k)); destruct (Nat.eqb_spec i 0); destruct (Nat.eqb_spec (S i) mx);
    destruct (Nat.eqb_spec (S i) 0); destruct (Nat.eqb_spec i mx); cbn [andb] in *; try lia; lra. Qed.

Definition ledge_inv (k : nat) (st : trap_state) : Prop :=
  st_ok st /\
  (forall i p b, valid sh b -> (S i < sm)%nat -> (S p < sc)%nat -> p <> k ->
     lslope (ts_W st) i p b <= lslope (ts_W st) i (S p) b) /\
  (forall i b, valid sh b -> (S i < sm)%nat -> (S k < sc)%nat ->
     lslope (ts_W st) i k b - slack (fun u => nth u (ts_l st) 0) (fun u => nth u (ts_r st) 0) i (xu b)
     <= lslope (ts_W st) i (S k) b).

Lemma T_sc_step_ledge st k : same_e = true -> (S k < sc)%nat -> ledge_inv k st ->
  ledge_inv (S k) (trap_step sh ud units B m c rv true same_e st k).
Proof. intros Es Hk (Hok & Hb & Hc').
  destruct (T_sc_step_facts st k Hk Hok) as (Hok' & W1 & S1 & S2 & _ & _ & _ & Hge & _).
  specialize (Hge Es). set (st' := trap_step sh ud units B m c rv true same_e st k) in *.
  assert (L : forall i p b, valid sh b -> (S i < sm)%nat -> (p < sc)%nat ->
            lslope (ts_W st') i p b == lslope (ts_W st) i p b +
              (if (p =? S k)%nat then slack (fun u => nth u (ts_l st') 0) (fun u => nth u (ts_r st') 0) i (xu b) else 0))
    by (intros; apply (T_sc_lslope (ts_W st) W1 _ k); assumption).
  split; [exact Hok'|]. split.
  - intros i p b Hv Hi Hp Hne. rewrite !L by (assumption || lia).
    destruct (Nat.eqb_spec p (S k)); [lia|]. destruct (Nat.eqb_spec (S p) (S k)) as [E|E].
    + assert (p = k) by lia. subst p. specialize (Hc' i b Hv Hi Hk).
      destruct (Hge (xu b) (T_xu_lt b Hv)) as [G1 G2].
      pose proof (T_slack_le (fun u => nth u (ts_l st) 0) (fun u => nth u (ts_r st) 0)
                    (fun u => nth u (ts_l st') 0) (fun u => nth u (ts_r st') 0) i (xu b) G1 G2). lra.
    + specialize (Hb i p b Hv Hi Hp ltac:(lia)). lra.
  - intros i b Hv Hi Hk2. rewrite !L by (assumption || lia). rewrite Nat.eqb_refl.
    destruct (Nat.eqb_spec (S (S k)) (S k)); [lia|].
    specialize (Hb i (S k) b Hv Hi Hk2 ltac:(lia)). lra. Qed.

Lemma T_run_keeps_matching W : any_e = true -> same_e = true -> ledge W -> ledge (ts_W (T_run W)).
Proof. intros Ea Es HW.
  assert (H : ledge_inv (sc - 1) (T_run W)).
  { apply T_run_inv.
    - split; [apply T_init_ok|]. cbn [ts_W ts_l ts_r]. split.
      + intros; apply HW; assumption.
      + intros i b Hv Hi Hk. unfold slack. rewrite !T_zeros_nth. specialize (HW i 0%nat b Hv Hi Hk).
        destruct (i =? 0)%nat, (S i =? mx)%nat; lra.
    - intros k st Hk Hinv. destruct any_e; [|discriminate]. apply T_sc_step_ledge; assumption. }
  intros i p b Hv Hi Hp. destruct H as (_ & Hb & _). apply Hb; try assumption. lia. Qed.

(* --- a trust that already holds is left alone --- *)
Lemma T_hstep_id i0 op j0 j1 W W' : is_hstep i0 op j0 j1 W W' ->
  (forall x, valid sh x -> xm x = i0 -> xc x = j1 -> op (W x) (W (upd x c j0)) == W x) -> teq sh W' W.
Proof. intros H Hid x Hv. rewrite (H x Hv).
  destruct (Nat.eqb_spec (xm x) i0), (Nat.eqb_spec (xc x) j1); cbn [andb]; try reflexivity. apply Hid; assumption. Qed.
Lemma T_shift_id i0 j1 dl W W' : is_shift i0 j1 dl W W' -> (forall u, (u < units)%nat -> dl u == 0) -> teq sh W' W.
Proof. intros H Hz x Hv. rewrite (H x Hv). destruct (_ && _); [|reflexivity]. rewrite (Hz _ (T_xu_lt x Hv)). lra. Qed.

Lemma T_lpair_all f k : (S k < sc)%nat -> lpair f k ->
  (forall x, valid sh x -> xm x = 0%nat -> f (upd x c (cjp (S k))) <= f (upd x c (cjp k))) /\
  (forall x, valid sh x -> xm x = mx -> f (upd x c (cjp k)) <= f (upd x c (cjp (S k)))).
Proof. intros Hk [H1 H2]. assert (Hj : (cjp (S k) < sc)%nat) by (apply T_cj_lt; lia).
  split; intros x Hv Hxm.
  - specialize (H1 _ (T_updc_valid x _ Hv Hj)). rewrite T_updc_m, T_updc_c, upd_upd in H1 by assumption. auto.
  - specialize (H2 _ (T_updc_valid x _ Hv Hj)). rewrite T_updc_m, T_updc_c, upd_upd in H2 by assumption. auto. Qed.

Definition zero_lr (st : trap_state) : Prop :=
  forall u, (u < units)%nat -> nth u (ts_l st) 0 == 0 /\ nth u (ts_r st) 0 == 0.

Lemma T_step_fixed st k : (S k < sc)%nat -> st_ok st -> lpair (ts_W st) k -> zero_lr st ->
  teq sh (ts_W (stepf st k)) (ts_W st) /\ zero_lr (stepf st k).
Proof. intros Hk Hok Hp Hz. destruct any_e.
  - destruct (T_sc_step_facts st k Hk Hok) as (_ & W1 & S1 & S2 & _ & _ & _ & _ & Zl & Zr).
    set (st' := trap_step sh ud units B m c rv true same_e st k) in *.
    destruct (T_lpair_all _ k Hk Hp) as [A1 _].
    assert (Z1 : forall u, (u < units)%nat -> nth u (ts_l st') 0 == 0)
      by (apply Zl; [exact A1|intros u Hu; apply Hz; assumption]).
    assert (E1 : teq sh W1 (ts_W st)).
    { apply (T_shift_id _ _ _ _ _ S1). intros u Hu. cbv beta. rewrite (Z1 u Hu). lra. }
    assert (Hp1 : lpair W1 k) by (apply (T_lpair_teq (ts_W st)); [assumption|apply teq_sym; exact E1|exact Hp]).
    destruct (T_lpair_all _ k Hk Hp1) as [_ A2].
    assert (Z2 : forall u, (u < units)%nat -> nth u (ts_r st') 0 == 0)
      by (apply Zr; [exact A2|intros u Hu; apply Hz; assumption]).
    split. eapply teq_trans; [|exact E1]. apply (T_shift_id _ _ _ _ _ S2). exact Z2.
    intros u Hu. split; auto.
  - rewrite T_step_el. cbn [ts_W ts_l ts_r]. split; [|exact Hz].
    destruct Hp as [P1 P2].
    assert (E1 : teq sh (T_lo_el (cjp k) (cjp (S k)) (ts_W st)) (ts_W st)).
    { apply (T_hstep_id _ _ _ _ _ _ (T_lo_el_hstep _ _ _)). intros x Hv E0 Ec.
      specialize (P1 x Hv E0 Ec). qcases; lra. }
    eapply teq_trans; [|exact E1].
    apply (T_hstep_id _ _ _ _ _ _ (T_hi_el_hstep _ _ _)). intros x Hv E0 Ec.
    assert (Hj : (cjp k < sc)%nat) by (apply T_cj_lt; lia).
    specialize (P2 x Hv E0 Ec). rewrite (E1 x Hv), (E1 _ (T_updc_valid x _ Hv Hj)). qcases; lra. Qed.

Lemma T_run_fixed W : (forall p, (S p < sc)%nat -> lpair W p) -> teq sh (ts_W (T_run W)) W.
Proof. intros HW.
  assert (H : st_ok (T_run W) /\ teq sh (ts_W (T_run W)) W /\ zero_lr (T_run W)).
  { apply (T_run_inv (fun _ st => st_ok st /\ teq sh (ts_W st) W /\ zero_lr st)).
    - split. apply T_init_ok. split. apply teq_refl. intros u Hu. cbn [ts_l ts_r]. rewrite !T_zeros_nth. split; reflexivity.
    - intros k st Hk (Hok & Ht & Hz). split. apply T_step_ok; assumption.
      assert (Hp : lpair (ts_W st) k) by (apply (T_lpair_teq W); [assumption|apply teq_sym; exact Ht|apply HW; assumption]).
      destruct (T_step_fixed st k Hk Hok Hp Hz) as [E Z]. split; [|exact Z]. eapply teq_trans; eassumption. }
  apply H. Qed.
End Trap.
(* ------------------------------------------------------------------ *)
(* trapezoid_one: the behind list made concrete, logical <-> real trust *)
(* ------------------------------------------------------------------ *)
Definition trap_ctx (sh : list nat) (ud units m c : nat) : Prop :=
  m <> c /\ m <> ud /\ c <> ud /\ (m < length sh)%nat /\ (c < length sh)%nat /\ (ud < length sh)%nat /\
  nth ud sh 0%nat = units /\ (2 <= nth m sh 0%nat)%nat.

Lemma T_behind_at sh ud units m c : trap_ctx sh ud units m c ->
  forall b u i j, In b (behind sh [m; c; ud]) -> (u < units)%nat -> (i < nth m sh 0%nat)%nat -> (j < nth c sh 0%nat)%nat ->
  valid sh (at2 (upd b ud u) m c i j).
Proof. intros (Hmc & Hmu & Hcu & Hm & Hc & Hud & Hun & Hm2) b u i j Hb Hu Hi Hj. subst units.
  apply at2_valid; try assumption. apply upd_valid; [|assumption].
  apply (behind_valid sh [m; c; ud]); [|assumption].
  intros d [<-|[<-|[<-|[]]]] _; lia. Qed.

Lemma T_behind_repr sh ud m c : m <> c -> m <> ud -> c <> ud -> forall x, valid sh x ->
  exists b, In b (behind sh [m; c; ud]) /\ forall i j, at2 (upd b ud (nth ud x 0%nat)) m c i j = at2 x m c i j.
Proof. intros Hmc Hmu Hcu x Hv. exists (upd (upd (upd x m 0%nat) c 0%nat) ud 0%nat). split.
  apply behind3_proj; assumption.
  intros i j. rewrite upd_upd.
  rewrite (upd_comm (upd x m 0%nat) c ud) by auto. rewrite (upd_comm x m ud) by auto. rewrite upd_self.
  change (upd (upd x m 0%nat) c 0%nat) with (at2 x m c 0%nat 0%nat). apply at2_at2; assumption. Qed.

Definition T_any (edge : list trust) : bool := match edge with [] => false | _ => true end.
Lemma T_trapezoid_one_run sh ud units edge W m c dir :
  trapezoid_one sh ud units edge W (m, c, dir) =
  ts_W (T_run sh ud units m c (dir <? 0)%Z (behind sh [m; c; ud]) (T_any edge)
              (existsb (trust_eqb (m, c, dir)) edge) W).
Proof. reflexivity. Qed.

Lemma T_dir_cases dir : dir <> 0%Z ->
  ((dir <? 0)%Z = false /\ (0 <? dir)%Z = true) \/ ((dir <? 0)%Z = true /\ (0 <? dir)%Z = false).
Proof. intros. destruct (Z.ltb_spec dir 0), (Z.ltb_spec 0 dir); try lia; auto. Qed.

Lemma T_trap_lpair sh m c dir f : m <> c -> (m < length sh)%nat -> (c < length sh)%nat -> (1 <= nth m sh 0%nat)%nat ->
  dir <> 0%Z ->
  (trapezoid_holds sh (m, c, dir) f <-> forall p, (S p < nth c sh 0%nat)%nat -> lpair sh m c (dir <? 0)%Z f p).
Proof. intros Hmc Hm Hc H1 Hd. unfold trapezoid_holds, lpair. cbv zeta.
  set (sc := nth c sh 0%nat). set (mx := (nth m sh 0%nat - 1)%nat).
  assert (AV : forall b i j, valid sh b -> (i = 0 \/ i = mx)%nat -> (j < sc)%nat ->
            valid sh (at2 b m c i j) /\ nth m (at2 b m c i j) 0%nat = i /\ nth c (at2 b m c i j) 0%nat = j).
  { intros b i j Hv Hi Hj. assert (Hl : length b = length sh) by (apply valid_length; assumption).
    split; [apply at2_valid; [assumption|unfold mx in Hi; lia|assumption]|].
    split; [apply at2_nth_m; [assumption|lia]|apply at2_nth_c; lia]. }
  destruct (T_dir_cases dir Hd) as [[-> E]|[-> E]]; rewrite E; unfold cj; split.
  - intros H p Hp. split; intros x Hv Hxm Hxc; destruct (H x p Hv Hp) as [G1 G2];
      unfold at2 in G1, G2; rewrite !(upd_eq_self x m _ Hxm), ?(upd_eq_self x c _ Hxc) in *; assumption.
  - intros H b j Hv Hj. destruct (H j Hj) as [G1 G2].
    destruct (AV b 0%nat (S j) Hv ltac:(auto) Hj) as (V0 & M0 & C0).
    destruct (AV b mx (S j) Hv ltac:(auto) Hj) as (Vx & Mx & Cx).
    specialize (G1 _ V0 M0 C0). specialize (G2 _ Vx Mx Cx). rewrite at2_upd_c in G1, G2. split; assumption.
  - intros H p Hp. assert (Hj : (S (sc - 1 - S p) < sc)%nat) by lia.
    replace (sc - 1 - p)%nat with (S (sc - 1 - S p)) by lia.
    split; intros x Hv Hxm Hxc; destruct (H x _ Hv Hj) as [G1 G2];
      unfold at2 in G1, G2; rewrite !(upd_eq_self x m _ Hxm), ?(upd_eq_self x c _ Hxc) in *; assumption.
  - intros H b j Hv Hj. assert (Hp : (S (sc - 2 - j) < sc)%nat) by lia. destruct (H _ Hp) as [G1 G2].
    replace (sc - 1 - S (sc - 2 - j))%nat with j in G1, G2 by lia.
    replace (sc - 1 - (sc - 2 - j))%nat with (S j) in G1, G2 by lia.
    destruct (AV b 0%nat j Hv ltac:(auto) ltac:(lia)) as (V0 & M0 & C0).
    destruct (AV b mx j Hv ltac:(auto) ltac:(lia)) as (Vx & Mx & Cx).
    specialize (G1 _ V0 M0 C0). specialize (G2 _ Vx Mx Cx). rewrite at2_upd_c in G1, G2. split; assumption. Qed.

Lemma T_edge_ledge sh m c dir f : dir <> 0%Z ->
  (edgeworth_holds sh (m, c, dir) f <-> ledge sh m c (dir <? 0)%Z f).
Proof. intros Hd. unfold edgeworth_holds, ledge, lslope, esq. set (sc := nth c sh 0%nat).
  destruct (T_dir_cases dir Hd) as [[-> E]|[-> E]]; rewrite E; unfold cj; split.
  - intros H i p b Hv Hi Hp. specialize (H b i p Hv Hi Hp). lra.
  - intros H b i j Hv Hi Hj. specialize (H i j b Hv Hi Hj). lra.
  - intros H i p b Hv Hi Hp. assert (Hj : (S (sc - 1 - S p) < sc)%nat) by lia.
    specialize (H b i _ Hv Hi Hj). replace (S (sc - 1 - S p)) with (sc - 1 - p)%nat in H by lia. lra.
  - intros H b i j Hv Hi Hj. assert (Hp : (S (sc - 2 - j) < sc)%nat) by lia.
    specialize (H i _ b Hv Hi Hp).
    replace (sc - 1 - S (sc - 2 - j))%nat with j in H by lia.
    replace (sc - 1 - (sc - 2 - j))%nat with (S j) in H by lia. lra. Qed.

Lemma T_trust_eqb_refl t : trust_eqb t t = true.
Proof. destruct t as [[m c] d]. unfold trust_eqb. rewrite !Nat.eqb_refl, Z.eqb_refl. reflexivity. Qed.
Lemma T_same_in t edge : In t edge -> existsb (trust_eqb t) edge = true.
Proof. intros H. apply existsb_exists. exists t. split; [assumption|apply T_trust_eqb_refl]. Qed.
Lemma T_any_true edge : edge <> [] -> T_any edge = true.
Proof. destruct edge; [congruence|reflexivity]. Qed.

Section One.
Variables (sh : list nat) (ud units m c : nat) (dir : Z) (edge : list trust).
Hypothesis Hctx : trap_ctx sh ud units m c.
Local Notation T W := (trapezoid_one sh ud units edge W (m, c, dir)).
Local Notation BH := (behind sh [m; c; ud]).

Let Hmc : m <> c. Proof. apply Hctx. Qed.
Let Hmu : m <> ud. Proof. apply Hctx. Qed.
Let Hcu : c <> ud. Proof. apply Hctx. Qed.
Let Hm : (m < length sh)%nat. Proof. apply Hctx. Qed.
Let Hc : (c < length sh)%nat. Proof. apply Hctx. Qed.
Let Hud : (ud < length sh)%nat. Proof. apply Hctx. Qed.
Let Hun : nth ud sh 0%nat = units. Proof. apply Hctx. Qed.
Let Hm2 : (2 <= nth m sh 0%nat)%nat. Proof. apply Hctx. Qed.
Let BA := T_behind_at sh ud units m c Hctx.
Let BR := T_behind_repr sh ud m c Hmc Hmu Hcu.

Theorem trapezoid_one_established W : dir <> 0%Z -> trapezoid_holds sh (m, c, dir) (T W).
Proof. intros Hd. apply T_trap_lpair; try assumption. lia. intros p Hp. rewrite T_trapezoid_one_run.
  apply (T_run_established sh ud units m c _ BH Hmc Hmu Hcu Hm Hc Hud Hun Hm2 BA BR). assumption. Qed.

Theorem trapezoid_one_fixed W : dir <> 0%Z -> trapezoid_holds sh (m, c, dir) W -> teq sh (T W) W.
Proof. intros Hd H. rewrite T_trapezoid_one_run.
  apply (T_run_fixed sh ud units m c _ BH Hmc Hmu Hcu Hm Hc Hud Hun Hm2 BA BR).
  apply T_trap_lpair; try assumption. lia. Qed.

Theorem trapezoid_one_mono_main W : mono_along sh m W -> mono_along sh m (T W).
Proof. rewrite T_trapezoid_one_run.
  apply (T_run_mono_main sh ud units m c _ BH Hmc Hmu Hcu Hm Hc Hud Hun Hm2 BA BR). Qed.

(* order relations along a dimension other than m, c, units: both modes *)
Theorem trapezoid_one_pmono_other W P d up : d <> m -> d <> c -> d <> ud -> (d < length sh)%nat ->
  c_stable c P -> pmono sh P d up W -> pmono sh P d up (T W).
Proof. intros H1 H2 H3 Hd Pc Hp. rewrite T_trapezoid_one_run. destruct edge as [|e0 er].
  - apply (T_run_el_pmono_other sh ud units m c _ BH Hmc Hmu Hcu Hm Hc Hud Hun Hm2); auto.
  - eapply T_rigid_pmono; [|exact H1|exact H2|exact H3|exact Hd|exact Hp].
    apply (T_run_rigid sh ud units m c _ BH Hmc Hmu Hcu Hm Hc Hud Hun Hm2 BA BR). reflexivity. Qed.

(* order relations along the conditional dimension: elementwise mode only *)
Theorem trapezoid_one_pmono_cond_elementwise W P up : edge = [] ->
  c_stable c P -> pmono sh P c up W -> pmono sh P c up (T W).
Proof. intros -> Pc Hp. rewrite T_trapezoid_one_run.
  apply (T_run_el_pmono_cond sh ud units m c _ BH Hmc Hmu Hcu Hm Hc Hud Hun Hm2); auto. Qed.

Theorem trapezoid_one_mono_other W d : d <> m -> d <> c -> d <> ud -> (d < length sh)%nat ->
  mono_along sh d W -> mono_along sh d (T W).
Proof. intros H1 H2 H3 Hd H. apply T_mono_along_pmono. apply trapezoid_one_pmono_other; try assumption.
  intros x j _; exact I. apply T_mono_along_pmono; assumption. Qed.

Theorem trapezoid_one_mono_cond_elementwise W : edge = [] -> mono_along sh c W -> mono_along sh c (T W).
Proof. intros He H. apply T_mono_along_pmono. apply trapezoid_one_pmono_cond_elementwise; try assumption.
  intros x j _; exact I. apply T_mono_along_pmono; assumption. Qed.

Lemma T_slice_stable m2 i0 : m2 <> c -> c_stable c (fun x => nth m2 x 0%nat = i0).
Proof. intros Hne x j Hx. rewrite nth_upd_other by auto. exact Hx. Qed.

(* an earlier trapezoid trust with another conditional dimension: both modes *)
Theorem trapezoid_one_keeps_trapezoid_other W m2 c2 d2 :
  m2 <> c2 -> (m2 < length sh)%nat -> (c2 < length sh)%nat -> (1 <= nth m2 sh 0%nat)%nat ->
  m2 <> c -> c2 <> m -> c2 <> c -> c2 <> ud ->
  trapezoid_holds sh (m2, c2, d2) W -> trapezoid_holds sh (m2, c2, d2) (T W).
Proof. intros Hne H1 H2 H3 Hx1 Hx2 Hx3 Hx4 H.
  apply T_trapezoid_pmono in H; try assumption. destruct H as [A1 A2].
  apply T_trapezoid_pmono; try assumption.
  split; apply trapezoid_one_pmono_other; try assumption; apply T_slice_stable; assumption. Qed.

(* an earlier trapezoid trust with the SAME conditional dimension: elementwise mode
   (the claim of the docstring of _approximately_project_trapezoid) *)
Theorem trapezoid_one_keeps_trapezoid_shared_cond_elementwise W m2 d2 : edge = [] ->
  m2 <> c -> (m2 < length sh)%nat -> (1 <= nth m2 sh 0%nat)%nat ->
  trapezoid_holds sh (m2, c, d2) W -> trapezoid_holds sh (m2, c, d2) (T W).
Proof. intros He Hne H1 H3 H.
  apply T_trapezoid_pmono in H; try assumption. destruct H as [A1 A2].
  apply T_trapezoid_pmono; try assumption.
  split; apply trapezoid_one_pmono_cond_elementwise; try assumption; apply T_slice_stable; assumption. Qed.

(* scalar mode keeps Edgeworth trusts; the trust on the same (m, c) pair needs [prior] *)
Theorem trapezoid_one_keeps_edgeworth W m2 c2 d2 : edge <> [] ->
  m2 <> c2 -> m2 <> ud -> c2 <> ud -> m2 <> c -> c2 <> m -> (m2 < length sh)%nat -> (c2 < length sh)%nat ->
  (m2 = m -> c2 = c -> d2 = dir /\ dir <> 0%Z /\ In (m, c, dir) edge) ->
  edgeworth_holds sh (m2, c2, d2) W -> edgeworth_holds sh (m2, c2, d2) (T W).
Proof. intros He Hne Hu1 Hu2 Hx1 Hx2 Hl1 Hl2 Hsame H.
  pose proof (T_run_rigid sh ud units m c (dir <? 0)%Z BH Hmc Hmu Hcu Hm Hc Hud Hun Hm2 BA BR
                (T_any edge) (existsb (trust_eqb (m, c, dir)) edge) W (T_any_true edge He)) as R.
  rewrite <- T_trapezoid_one_run in R.
  destruct (Nat.eq_dec m2 m) as [E1|E1]; [destruct (Nat.eq_dec c2 c) as [E2|E2]|].
  - destruct (Hsame E1 E2) as (-> & Hd & Hin). subst m2 c2.
    apply T_edge_ledge; [assumption|]. apply T_edge_ledge in H; [|assumption].
    rewrite T_trapezoid_one_run.
    apply (T_run_keeps_matching sh ud units m c _ BH Hmc Hmu Hcu Hm Hc Hud Hun Hm2 BA BR); try assumption.
    apply T_any_true; assumption. apply T_same_in; assumption.
  - intros b i j Hv Hi Hj. specialize (H b i j Hv Hi Hj).
    pose proof (T_rigid_esq sh ud units m c Hmc Hmu Hcu Hm Hc Hud Hun Hm2 W (T W) m2 c2 i j b R
                  Hne Hu1 Hu2 Hx1 Hx2 ltac:(auto) Hl1 Hl2 Hv Hi Hj) as E.
    destruct (0 <? d2)%Z; lra.
  - intros b i j Hv Hi Hj. specialize (H b i j Hv Hi Hj).
    pose proof (T_rigid_esq sh ud units m c Hmc Hmu Hcu Hm Hc Hud Hun Hm2 W (T W) m2 c2 i j b R
                  Hne Hu1 Hu2 Hx1 Hx2 ltac:(auto) Hl1 Hl2 Hv Hi Hj) as E.
    destruct (0 <? d2)%Z; lra. Qed.
End One.
(* ------------------------------------------------------------------ *)
(* list level: approx_trapezoid under cfg_valid                         *)
(* ------------------------------------------------------------------ *)
Lemma T_mono_dims_from_spec ms : forall k d,
  In d (mono_dims_from k ms) <-> exists i, d = (k + i)%nat /\ (i < length ms)%nat /\ nth i ms 0%Z <> 0%Z.
Proof. induction ms as [|z r IH]; intros k d; cbn [mono_dims_from length].
  - split; [intros []|intros (i & _ & Hi & _); lia].
  - destruct (Z.eqb_spec z 0) as [->|Hz].
    + rewrite IH. split.
      * intros (i & -> & Hi & Hn). exists (S i). repeat split; [lia|lia|exact Hn].
      * intros (i & -> & Hi & Hn). destruct i as [|i]; [cbn in Hn; congruence|].
        exists i. repeat split; [lia|lia|exact Hn].
    + cbn [In]. rewrite IH. split.
      * intros [<-|(i & -> & Hi & Hn)].
        exists 0%nat. repeat split; [lia|lia|exact Hz].
        exists (S i). repeat split; [lia|lia|exact Hn].
      * intros (i & -> & Hi & Hn). destruct i as [|i]. left; lia.
        right. exists i. repeat split; [lia|lia|exact Hn]. Qed.
Lemma T_mono_dims_spec ms d : In d (mono_dims ms) <-> (d < length ms)%nat /\ nth d ms 0%Z <> 0%Z.
Proof. unfold mono_dims. rewrite T_mono_dims_from_spec. split.
  - intros (i & -> & Hi & Hn). split; assumption.
  - intros [Hi Hn]. exists d. repeat split; assumption. Qed.

Lemma T_fold_preserve {A} (f : tens -> A -> tens) (Pr : tens -> Prop) ts : forall W,
  (forall t W, In t ts -> Pr W -> Pr (f W t)) -> Pr W -> Pr (fold_left f ts W).
Proof. induction ts as [|t ts IH]; intros W Hs H0; cbn [fold_left]. exact H0.
  apply IH. intros t' W' Hin. apply Hs. right; assumption. apply Hs. left; reflexivity. exact H0. Qed.

Section ListLevel.
Variable cf : lat_cfg.
Hypothesis Hcv : cfg_valid cf.
Local Notation sh := (l_shape cf).
Local Notation ud := (l_ud cf).
Local Notation units := (l_units cf).
Local Notation TT := (trapezoid_one (l_shape cf) (l_ud cf) (l_units cf) (l_edge cf)).

Lemma T_cfg_trust m c dir : In (m, c, dir) (all_trusts cf) ->
  trap_ctx sh ud units m c /\ dir <> 0%Z /\ (m < ud)%nat /\ (c < ud)%nat /\ nth m (l_monos cf) 0%Z = 1%Z.
Proof. intros Hin. destruct Hcv as (Hs & Hu & Hl & Hmon & Hok & Hdis & Hdir & _).
  destruct (Hok _ Hin) as (H1 & H2 & H3 & H4).
  pose proof (Hdis _ _ Hin Hin) as Hne. cbn [fst snd] in Hne.
  assert (Hctx : trap_ctx sh ud units m c).
  { unfold trap_ctx. rewrite l_shape_length. unfold l_ud.
    split; [exact Hne|]. split; [lia|]. split; [lia|]. split; [lia|]. split; [lia|]. split; [lia|].
    split. apply l_ud_units. unfold l_shape. rewrite size_axis_nth by assumption. apply Hs. apply nth_In; assumption. }
  split; [exact Hctx|]. split; [destruct H4; lia|]. unfold l_ud. auto. Qed.

Lemma T_cfg_cross t1 t2 : In t1 (all_trusts cf) -> In t2 (all_trusts cf) -> fst (fst t1) <> snd (fst t2).
Proof. destruct Hcv as (_ & _ & _ & _ & _ & Hdis & _). apply Hdis. Qed.
Lemma T_cfg_dir t1 t2 : In t1 (all_trusts cf) -> In t2 (all_trusts cf) -> fst t1 = fst t2 -> snd t1 = snd t2.
Proof. destruct Hcv as (_ & _ & _ & _ & _ & _ & Hdir & _). apply Hdir. Qed.
Lemma T_in_trap t : In t (l_trap cf) -> In t (all_trusts cf).
Proof. intros. apply in_or_app; right; assumption. Qed.
Lemma T_in_edge t : In t (l_edge cf) -> In t (all_trusts cf).
Proof. intros. apply in_or_app; left; assumption. Qed.
Lemma T_ud_sh : (ud < length sh)%nat /\ length sh = S ud.
Proof. split. apply l_ud_lt. apply l_shape_length. Qed.

(* one pass keeps the kernel monotone *)
Lemma T_pass_mono t W : In t (l_trap cf) -> ~ trap_mono_cond_with_edgeworth cf ->
  monotone_kernel cf W -> monotone_kernel cf (TT W t).
Proof. intros Hin Hg HW d Hd. destruct t as [[m c] dir].
  destruct (T_cfg_trust m c dir (T_in_trap _ Hin)) as (Hctx & Hdir & Hmu & Hcu & _).
  destruct Hcv as (_ & _ & Hl & Hmon & _).
  apply T_mono_dims_spec in Hd as Hd'. destruct Hd' as [Hdl Hdn]. rewrite Hl in Hdl.
  destruct T_ud_sh as [_ Hlen]. unfold l_ud in *.
  destruct (Nat.eq_dec d m) as [->|Hdm]. apply trapezoid_one_mono_main; auto.
  destruct (Nat.eq_dec d c) as [->|Hdc].
  - destruct (l_edge cf) as [|e0 er] eqn:Ee.
    + apply trapezoid_one_mono_cond_elementwise; auto.
    + exfalso. apply Hg. split. rewrite Ee; discriminate. exists (m, c, dir). split; [assumption|]. cbn [fst snd].
      destruct (Hmon (nth c (l_monos cf) 0%Z)) as [E|E]; [apply nth_In; lia|congruence|exact E].
  - apply trapezoid_one_mono_other; auto; lia. Qed.

Theorem approx_trapezoid_mono W : ~ trap_mono_cond_with_edgeworth cf ->
  monotone_kernel cf W -> monotone_kernel cf (approx_trapezoid sh ud units (l_trap cf) (l_edge cf) W).
Proof. intros Hg HW. unfold approx_trapezoid. apply T_fold_preserve; [|exact HW].
  intros t W' Hin H. apply T_pass_mono; assumption. Qed.

(* one pass keeps every Edgeworth trust *)
Lemma T_pass_edgeworth t W : In t (l_trap cf) ->
  (forall te, In te (l_edge cf) -> edgeworth_holds sh te W) ->
  forall te, In te (l_edge cf) -> edgeworth_holds sh te (TT W t).
Proof. intros Hin HW te Hte. destruct t as [[m c] dir]. destruct te as [[m2 c2] d2].
  destruct (T_cfg_trust m c dir (T_in_trap _ Hin)) as (Hctx & Hdir & Hmu & Hcu & _).
  destruct (T_cfg_trust m2 c2 d2 (T_in_edge _ Hte)) as (Hctx2 & Hdir2 & Hmu2 & Hcu2 & _).
  pose proof (T_cfg_cross _ _ (T_in_edge _ Hte) (T_in_trap _ Hin)) as X1. cbn [fst snd] in X1.
  pose proof (T_cfg_cross _ _ (T_in_trap _ Hin) (T_in_edge _ Hte)) as X2. cbn [fst snd] in X2.
  destruct Hctx2 as (Hne2 & _). destruct T_ud_sh as [_ Hlen].
  apply trapezoid_one_keeps_edgeworth; auto; try lia.
  - intro E. rewrite E in Hte. exact Hte.
  - intros -> ->. pose proof (T_cfg_dir _ _ (T_in_edge _ Hte) (T_in_trap _ Hin) eq_refl) as E. cbn [snd] in E.
    subst d2. auto. Qed.

Theorem approx_trapezoid_keeps_edgeworth W :
  (forall te, In te (l_edge cf) -> edgeworth_holds sh te W) ->
  forall te, In te (l_edge cf) ->
    edgeworth_holds sh te (approx_trapezoid sh ud units (l_trap cf) (l_edge cf) W).
Proof. intros HW. unfold approx_trapezoid.
  apply (T_fold_preserve TT (fun W' => forall te, In te (l_edge cf) -> edgeworth_holds sh te W')); [|exact HW].
  intros t W' Hin H. apply T_pass_edgeworth; assumption. Qed.

(* a feasible kernel is a fixed point *)
Theorem approx_trapezoid_fixed W : (forall t, In t (l_trap cf) -> trapezoid_holds sh t W) ->
  teq sh (approx_trapezoid sh ud units (l_trap cf) (l_edge cf) W) W.
Proof. intros HW. unfold approx_trapezoid.
  apply (T_fold_preserve TT (fun W' => teq sh W' W)); [|apply teq_refl].
  intros t W' Hin E. destruct t as [[m c] dir].
  destruct (T_cfg_trust m c dir (T_in_trap _ Hin)) as (Hctx & Hdir & _).
  eapply teq_trans; [|exact E]. apply trapezoid_one_fixed; try assumption.
  apply (trapezoid_holds_teq sh _ W W'). apply teq_sym; exact E. apply HW; assumption. Qed.

(* every trapezoid trust holds afterwards *)
Lemma T_pass_keeps_trapezoid t0 t W : In t0 (l_trap cf) -> In t (l_trap cf) ->
  (l_edge cf <> [] -> snd (fst t) <> snd (fst t0)) ->
  trapezoid_holds sh t W -> trapezoid_holds sh t (TT W t0).
Proof. intros Hin0 Hin Hdist H. destruct t0 as [[m c] dir]. destruct t as [[m2 c2] d2]. cbn [fst snd] in Hdist.
  destruct (T_cfg_trust m c dir (T_in_trap _ Hin0)) as (Hctx & Hdir & Hmu & Hcu & _).
  destruct (T_cfg_trust m2 c2 d2 (T_in_trap _ Hin)) as (Hctx2 & Hdir2 & Hmu2 & Hcu2 & _).
  pose proof (T_cfg_cross _ _ (T_in_trap _ Hin) (T_in_trap _ Hin0)) as X1. cbn [fst snd] in X1.
  pose proof (T_cfg_cross _ _ (T_in_trap _ Hin0) (T_in_trap _ Hin)) as X2. cbn [fst snd] in X2.
  destruct Hctx2 as (Hne2 & _ & _ & Hl1 & Hl2 & _ & _ & Hs2).
  destruct (Nat.eq_dec c2 c) as [->|Hcc].
  - destruct (l_edge cf) as [|e0 er] eqn:Ee.
    + apply trapezoid_one_keeps_trapezoid_shared_cond_elementwise; auto. lia.
    + exfalso. apply Hdist; [discriminate|reflexivity].
  - apply trapezoid_one_keeps_trapezoid_other; auto; lia. Qed.

Lemma T_fold_established ts :
  (forall t, In t ts -> In t (l_trap cf)) ->
  (l_edge cf <> [] -> forall l1 t1 l2 t2 l3, ts = l1 ++ t1 :: l2 ++ t2 :: l3 -> snd (fst t1) <> snd (fst t2)) ->
  forall W t, In t ts -> trapezoid_holds sh t (fold_left TT ts W).
Proof. induction ts as [|t0 ts IH] using rev_ind; intros Hsub Hdist W t Hin. destruct Hin.
  rewrite fold_left_app. cbn [fold_left].
  assert (Hin0 : In t0 (l_trap cf)) by (apply Hsub; apply in_or_app; right; left; reflexivity).
  apply in_app_or in Hin. destruct Hin as [Hin|[<-|[]]].
  - apply T_pass_keeps_trapezoid; [assumption|apply Hsub; apply in_or_app; left; assumption| |].
    + intros He. destruct (in_split _ _ Hin) as (l1 & l2 & E).
      apply (Hdist He l1 t l2 t0 []). rewrite E. rewrite <- app_assoc. reflexivity.
    + apply IH; [intros; apply Hsub; apply in_or_app; left; assumption| |assumption].
      intros He l1 t1 l2 t2 l3 E. apply (Hdist He l1 t1 l2 t2 (l3 ++ [t0])). rewrite E.
      rewrite <- !app_assoc. cbn [app]. rewrite <- !app_assoc. reflexivity.
  - destruct t0 as [[m c] dir].
    destruct (T_cfg_trust m c dir (T_in_trap _ Hin0)) as (Hctx & Hdir & _).
    apply trapezoid_one_established; assumption. Qed.

Theorem approx_trapezoid_established W : ~ documented_exception cf ->
  forall t, In t (l_trap cf) ->
    trapezoid_holds sh t (approx_trapezoid sh ud units (l_trap cf) (l_edge cf) W).
Proof. intros Hg t Hin. unfold approx_trapezoid. apply T_fold_established; auto.
  intros He l1 t1 l2 t2 l3 E Hc. apply Hg. split; [exact He|]. exists t1, t2, l1, l2, l3. auto. Qed.
End ListLevel.
(* ------------------------------------------------------------------ *)
(* the hypotheses are satisfiable; the guards are needed                *)
(* ------------------------------------------------------------------ *)
Example T_cfg_example :
  let cf := mkLat [2; 3]%nat 2 [1; 0]%Z [(0, 1, 1%Z)]%nat [(0, 1, 1%Z)]%nat None None in
  cfg_valid cf /\ ~ documented_exception cf /\ ~ trap_mono_cond_with_edgeworth cf.
Proof. cbv zeta. split; [|split].
  - unfold cfg_valid, all_trusts, trust_ok. cbn [l_sizes l_units l_monos l_edge l_trap l_min l_max app length].
    repeat split.
    + intros s [<-|[<-|[]]]; lia.
    + lia.
    + intros z [<-|[<-|[]]]; auto.
    + intros t [<-|[<-|[]]]; cbn; repeat split; auto.
    + intros t1 t2 [<-|[<-|[]]] [<-|[<-|[]]]; cbn; lia.
    + intros t1 t2 [<-|[<-|[]]] [<-|[<-|[]]]; reflexivity.
  - intros (_ & t1 & t2 & l1 & l2 & l3 & E & _). cbn [l_trap] in E.
    apply (f_equal (@length trust)) in E. rewrite app_length in E. cbn [length] in E.
    rewrite app_length in E. cbn [length] in E. lia.
  - intros (_ & t & [<-|[]] & E). cbn in E. discriminate. Qed.

(* scalar mode (Edgeworth trusts present) with a monotone conditional feature:
   the rigid shift of a whole column breaks monotonicity along c (finding D1) *)
Example T_scalar_breaks_mono_cond :
  let sh := [2; 2; 2; 1]%nat in
  let W := of_list sh [0; 0; 5; 0; 10; 10; 10; 10] in
  trap_ctx sh 3 1 0 1 /\ mono_along sh 1 W /\
  ~ mono_along sh 1 (trapezoid_one sh 3 1 [(0, 1, 1%Z)]%nat W (0, 1, 1%Z)%nat).
Proof. cbv zeta. split; [|split].
  - unfold trap_ctx. cbn. repeat split; lia.
  - apply mono_alongb_ok. vm_compute. reflexivity.
  - intros H. specialize (H [0; 0; 1; 0]%nat).
    assert (Hv : valid [2; 2; 2; 1]%nat [0; 0; 1; 0]%nat) by (repeat constructor).
    specialize (H Hv ltac:(cbn; lia)). apply Qle_bool_iff in H. vm_compute in H. discriminate. Qed.

(* scalar mode with two trapezoid trusts sharing the conditional feature (the
   documented exception): the later pass breaks the earlier trust *)
Example T_scalar_breaks_shared_cond_trapezoid :
  let sh := [2; 2; 2; 2; 1]%nat in
  let W := of_list sh [0; 0; 5; 0; 0; 0; 0; 0; 0; 0; 0; 0; 0; 0; 0; 0] in
  trap_ctx sh 4 1 2 1 /\ trapezoid_holds sh (0, 1, 1%Z)%nat W /\
  ~ trapezoid_holds sh (0, 1, 1%Z)%nat (trapezoid_one sh 4 1 [(0, 1, 1%Z)]%nat W (2, 1, 1%Z)%nat) /\
  (* ... while the elementwise mode keeps it *)
  trapezoid_holds sh (0, 1, 1%Z)%nat (trapezoid_one sh 4 1 [] W (2, 1, 1%Z)%nat).
Proof. cbv zeta.
  assert (Hctx : trap_ctx [2; 2; 2; 2; 1]%nat 4 1 2 1) by (unfold trap_ctx; cbn; repeat split; lia).
  assert (H0 : trapezoid_holds [2; 2; 2; 2; 1]%nat (0, 1, 1%Z)%nat
                 (of_list [2; 2; 2; 2; 1]%nat [0; 0; 5; 0; 0; 0; 0; 0; 0; 0; 0; 0; 0; 0; 0; 0])).
  { intros b j Hv Hj. cbn in Hj. assert (j = 0%nat) by lia. subst j.
    apply all_idx_valid in Hv. vm_compute in Hv.
    repeat (destruct Hv as [<-|Hv]; [vm_compute; split; discriminate|]). destruct Hv. }
  split; [exact Hctx|]. split; [exact H0|]. split.
  - intros H. specialize (H [0; 0; 1; 1; 0]%nat 0%nat).
    assert (Hv : valid [2; 2; 2; 2; 1]%nat [0; 0; 1; 1; 0]%nat) by (repeat constructor).
    specialize (H Hv ltac:(cbn; lia)). destruct H as [H _]. apply Qle_bool_iff in H. vm_compute in H. discriminate.
  - apply trapezoid_one_keeps_trapezoid_shared_cond_elementwise; try assumption; try reflexivity; cbn; lia. Qed.

Print Assumptions trapezoid_one_established.
Print Assumptions trapezoid_one_fixed.
Print Assumptions trapezoid_one_mono_main.
Print Assumptions trapezoid_one_mono_other.
Print Assumptions trapezoid_one_mono_cond_elementwise.
Print Assumptions trapezoid_one_keeps_edgeworth.
Print Assumptions trapezoid_one_keeps_trapezoid_other.
Print Assumptions trapezoid_one_keeps_trapezoid_shared_cond_elementwise.
Print Assumptions approx_trapezoid_established.
Print Assumptions approx_trapezoid_mono.
Print Assumptions approx_trapezoid_keeps_edgeworth.
Print Assumptions approx_trapezoid_fixed.
