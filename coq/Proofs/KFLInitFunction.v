(* C10, KroneckerFactoredLattice at FUNCTION level: the layer's function
   (Model/KFL.v [MK.unit_out]: per-dimension linear interpolation of the kernel
   columns, product over dimensions, scale, mean over terms, bias -- the model of
   property C07, tied to KroneckerFactoredLattice.call by H_C07) evaluated on
   the FRESH parameters
     kernel = kfl_random_monotonic_initializer (KFLInit.kfl_init_col per column, C10's model),
     scale  = ScaleInitializer, bias = BiasInitializer
   is monotone in every monotone input and inside the output bounds, for every
   uniform draw inside the initialisation range -- NO constraint has been applied.

   Composition of
     kfl_init_feasible  (Proofs/PremadeInitKFL.v: the fresh parameters are in the
                         feasible set kfl_feasible, from pack_C10_kfl_init_kernel)
     kfl_state_monotone / kfl_state_bounded (Proofs/PremadeKFL.v: a feasible state is
                         monotone / bounded, from C07's unit_eval_mono / unit_eval_bounded). *)
From TFL Require Import Model.Premade Proofs.Premade Model.PremadeKFL Proofs.PremadeKFL Proofs.PremadeInit
     Proofs.PremadeInitKFL.
From TFL Require Import Model.KFLInit Proofs.KFLInit.
Open Scope Q_scope.

Lemma fresh_scale_length c dims units terms samples :
  length (MK.p_scale (premade_kfl_init c dims units terms samples)) = units.
Proof. cbn [premade_kfl_init MK.p_scale]. unfold MK.scale_init. apply repeat_length. Qed.
Lemma fresh_bias_length c dims units terms samples :
  length (MK.p_bias (premade_kfl_init c dims units terms samples)) = units.
Proof. cbn [premade_kfl_init MK.p_bias]. unfold MK.bias_init. apply repeat_length. Qed.

(* any initialisation range [imin, imax] with 0 <= imin, and imax <= 1 when a bound is configured *)
Theorem kfl_fresh_function_monotone c dims units terms imin imax samples ms u xs ys :
  PK.cfg_ok c dims -> 0 <= imin -> (MK.has_bounds c = true -> imax <= 1) ->
  kfl_samples_ok c dims units terms imin imax samples ->
  MK.canon_monos (MK.c_monos c) = Some ms -> PK.coords_le ms xs ys ->
  MK.c_clip c = true \/ (PK.in_range (MK.c_size c) xs /\ PK.in_range (MK.c_size c) ys) ->
  MK.unit_out c (premade_kfl_init c dims units terms samples) u xs <=
  MK.unit_out c (premade_kfl_init c dims units terms samples) u ys.
Proof. intros Hc H0 H1 Hs Em Hle Hr.
  exact (kfl_state_monotone c dims _ ms u xs ys Hc (kfl_init_feasible c dims units terms imin imax samples Hc H0 H1 Hs) Em Hle Hr). Qed.

Theorem kfl_fresh_function_bounded c dims units terms imin imax samples u xs :
  PK.cfg_ok c dims -> 0 <= imin -> (MK.has_bounds c = true -> imax <= 1) ->
  kfl_samples_ok c dims units terms imin imax samples ->
  (u < units)%nat -> length xs = dims -> MK.c_clip c = true \/ PK.in_range (MK.c_size c) xs ->
  (forall lo, MK.c_min c = Some lo -> lo <= MK.unit_out c (premade_kfl_init c dims units terms samples) u xs) /\
  (forall hi, MK.c_max c = Some hi -> MK.unit_out c (premade_kfl_init c dims units terms samples) u xs <= hi).
Proof. intros Hc H0 H1 Hs Hu Hl Hr.
  apply (kfl_state_bounded c dims _ u xs Hc (kfl_init_feasible c dims units terms imin imax samples Hc H0 H1 Hs)).
  - rewrite fresh_scale_length. exact Hu.
  - rewrite fresh_bias_length. exact Hu.
  - exact Hl.
  - exact Hr. Qed.

(* the layer's default: init range = kfl_lib.default_init_params(output_min, output_max) *)
Lemma kfl_default_range_ok c :
  0 <= fst (kfl_default_init_params (MK.c_min c) (MK.c_max c)) /\
  (MK.has_bounds c = true -> snd (kfl_default_init_params (MK.c_min c) (MK.c_max c)) <= 1).
Proof. unfold MK.has_bounds, kfl_default_init_params. destruct (MK.c_min c), (MK.c_max c); cbn; split; intros; try lra; discriminate. Qed.

Theorem kfl_fresh_function_default c dims units terms samples :
  PK.cfg_ok c dims ->
  kfl_samples_ok c dims units terms (fst (kfl_default_init_params (MK.c_min c) (MK.c_max c)))
                 (snd (kfl_default_init_params (MK.c_min c) (MK.c_max c))) samples ->
  let p := premade_kfl_init c dims units terms samples in
  (forall ms u xs ys, MK.canon_monos (MK.c_monos c) = Some ms -> PK.coords_le ms xs ys ->
     MK.c_clip c = true \/ (PK.in_range (MK.c_size c) xs /\ PK.in_range (MK.c_size c) ys) ->
     MK.unit_out c p u xs <= MK.unit_out c p u ys) /\
  (forall u xs, (u < units)%nat -> length xs = dims -> MK.c_clip c = true \/ PK.in_range (MK.c_size c) xs ->
     (forall lo, MK.c_min c = Some lo -> lo <= MK.unit_out c p u xs) /\
     (forall hi, MK.c_max c = Some hi -> MK.unit_out c p u xs <= hi)).
Proof. intros Hc Hs p. destruct (kfl_default_range_ok c) as [H0 H1]. split.
  - intros ms u xs ys. exact (kfl_fresh_function_monotone c dims units terms _ _ samples ms u xs ys Hc H0 H1 Hs).
  - intros u xs. exact (kfl_fresh_function_bounded c dims units terms _ _ samples u xs Hc H0 H1 Hs). Qed.

(* ---- the two models of the scale / bias initialisers agree ----
   KFLInit.kfl_scale_init / kfl_bias_init are what H_C10.check compares with the
   layer's fresh scale and bias; MK.scale_init / MK.bias_init are what the
   function-level theorems above use.  They differ by Qred only. *)
Lemma term_sign_even t : kfl_term_sign t = (if Nat.even t then 1 else -1).
Proof. reflexivity. Qed.

Lemma scale_models_agree c units terms :
  Forall2 (Forall2 Qeq) (kfl_scale_init units terms (MK.c_min c) (MK.c_max c)) (MK.scale_init c units terms).
Proof. unfold kfl_scale_init, MK.scale_init.
  assert (Hrow : Forall2 Qeq
     (match MK.c_min c, MK.c_max c with
      | Some _, None => repeat 1 terms
      | None, Some _ => repeat (-1) terms
      | Some a, Some b => map (fun t => Qred (kfl_term_sign t * ((b - a) * (1#2)))) (seq 0 terms)
      | None, None => map kfl_term_sign (seq 0 terms)
      end) (map (MK.scale_init1 (MK.c_min c) (MK.c_max c)) (seq 0 terms))).
  { destruct (MK.c_min c) as [a|], (MK.c_max c) as [b|]; unfold MK.scale_init1.
    - apply Forall2_map_seq. intros t _. rewrite Qred_correct, term_sign_even. reflexivity.
    - apply Forall2_repeat_map_seq. intros t _. reflexivity.
    - apply Forall2_repeat_map_seq. intros t _. reflexivity.
    - apply Forall2_map_seq. intros t _. rewrite term_sign_even. reflexivity. }
  induction units as [|n IH]; cbn [repeat]; constructor; assumption. Qed.

Lemma bias_models_agree c units :
  Forall2 Qeq (kfl_bias_init units (MK.c_min c) (MK.c_max c)) (MK.bias_init c units).
Proof. unfold kfl_bias_init, MK.bias_init, MK.bias_init1.
  induction units as [|n IH]; cbn [repeat]; constructor; try assumption.
  destruct (MK.c_min c), (MK.c_max c); try rewrite Qred_correct; reflexivity. Qed.

(* ---- satisfiable: PremadeInitKFL.ex_kfl's configuration (size 2, one monotone
   input, bounds [-1, 1], one unit, two terms with scales +1 / -1, the unsorted
   draw [3/4; 1/4] for both terms) ---- *)
Definition exf_samples : nat -> nat -> nat -> list Q := fun _ _ _ => [3#4; 1#4].
Example exf_hypotheses :
  PK.cfg_ok lk_cfg 1 /\
  kfl_samples_ok lk_cfg 1 1 2 (fst (kfl_default_init_params (MK.c_min lk_cfg) (MK.c_max lk_cfg)))
                 (snd (kfl_default_init_params (MK.c_min lk_cfg) (MK.c_max lk_cfg))) exf_samples /\
  MK.canon_monos (MK.c_monos lk_cfg) = Some [true] /\ PK.coords_le [true] [0] [1] /\
  PK.in_range (MK.c_size lk_cfg) [0] /\ PK.in_range (MK.c_size lk_cfg) [1].
Proof. split. exact lk_cfg_ok. split.
  - intros u t d _ _ _. split. reflexivity. intros x Hx. cbn in Hx |- *. destruct Hx as [<-|[<-|[]]]; lra.
  - split. reflexivity. split. cbn. split; [lra|exact I].
    split; (constructor; [|constructor]); change (MK.qn (MK.c_size lk_cfg)) with 2; lra. Qed.
Example exf_values :
  MK.unit_out lk_cfg (premade_kfl_init lk_cfg 1 1 2 exf_samples) 0 [0] == -(1#4) /\
  MK.unit_out lk_cfg (premade_kfl_init lk_cfg 1 1 2 exf_samples) 0 [1] == 1#4.
Proof. split; vm_compute; reflexivity. Qed.
