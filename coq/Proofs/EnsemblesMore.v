(* Further lemmas for C17 (review gaps): acceptance direction of
   _get_rtl_structure, determinism of the random ensemble / the all-pairs
   cover / Crystals, and totality of the Crystals use allocation for strictly
   positive importance scores (the hypothesis that excludes known finding
   D13). *)
From Coq Require Import Permutation Sorted Qround.
From TFL Require Import Model.RTLStructure Model.Ensembles Proofs.RTLStructure Proofs.Ensembles.
Open Scope nat_scope.

(* ================================================================== *)
(* RTL: accepted for every lattice count with enough slots             *)
(* ================================================================== *)
Lemma rtl_accepts_enough_slots : forall sh1 sh2 cfg,
  0 < n_inputs (c_input cfg) -> n_inputs (c_input cfg) <= c_num cfg * c_rank cfg ->
  exists s, rtl_structure cfg sh1 sh2 = Some s.
Proof.
  intros sh1 sh2 cfg H0 H1. unfold rtl_structure. rewrite flatten_length.
  destruct (Nat.ltb_spec (c_num cfg * c_rank cfg) (n_inputs (c_input cfg))); [lia|].
  destruct (Nat.eqb_spec (n_inputs (c_input cfg)) 0); [lia|]. eauto.
Qed.

Lemma rtl_rejects_iff : forall sh1 sh2 cfg,
  rtl_structure cfg sh1 sh2 = None <->
  (n_inputs (c_input cfg) = 0 \/ c_num cfg * c_rank cfg < n_inputs (c_input cfg)).
Proof.
  intros sh1 sh2 cfg. unfold rtl_structure. rewrite flatten_length.
  destruct (Nat.ltb_spec (c_num cfg * c_rank cfg) (n_inputs (c_input cfg))).
  - split; auto.
  - destruct (Nat.eqb_spec (n_inputs (c_input cfg)) 0).
    + split; auto.
    + split; [discriminate|]. intros [|]; lia.
Qed.

(* ================================================================== *)
(* random ensemble: a function of the values the oracles return        *)
(* ================================================================== *)
Lemma rnd_phase1_ext ch1 ch1' rank feats : forall lats,
  (forall f nf, In f feats -> nf <> [] -> ch1 f nf = ch1' f nf) ->
  rnd_phase1 ch1 rank feats lats = rnd_phase1 ch1' rank feats lats.
Proof.
  induction feats as [|f r IH]; intros lats H; cbn [rnd_phase1]. reflexivity.
  destruct (non_full rank lats) as [|a nf] eqn:E. reflexivity.
  rewrite (H f (a :: nf)); [|left; reflexivity|discriminate].
  apply IH. intros g nf' Hg Hn. apply H; [right; exact Hg|exact Hn].
Qed.

Lemma rnd_phase2_ext ch2 ch2' rank feats : forall lats k,
  (forall k av sz, sz <= length av -> ch2 k av sz = ch2' k av sz) ->
  rnd_phase2 ch2 rank feats k lats = rnd_phase2 ch2' rank feats k lats.
Proof.
  induction lats as [|l r IH]; intros k H; cbn [rnd_phase2]. reflexivity.
  destruct (Nat.ltb_spec (length (filter (fun f => negb (memb f l)) feats)) (rank - length l)). reflexivity.
  rewrite (IH (S k) H). destruct (rnd_phase2 ch2' rank feats (S k) r); [|reflexivity].
  rewrite H by assumption. reflexivity.
Qed.

(* the ensemble depends only on the values np.random.choice returns on the
   calls the code can make: choice(non_full_indices) for a feature f < n on a
   non-empty candidate list, and choice(candidates, size, replace=False) with
   size <= number of candidates *)
Lemma random_deterministic : forall ch1 ch2 ch1' ch2' n num rank,
  (forall f nf, f < n -> nf <> [] -> ch1 f nf = ch1' f nf) ->
  (forall k av sz, sz <= length av -> ch2 k av sz = ch2' k av sz) ->
  random_ensemble ch1 ch2 n num rank = random_ensemble ch1' ch2' n num rank.
Proof.
  intros ch1 ch2 ch1' ch2' n num rank H1 H2. unfold random_ensemble.
  rewrite (rnd_phase1_ext ch1 ch1' rank (seq 0 n)).
  2:{ intros f nf Hf Hn. apply H1; [apply in_seq in Hf; lia|exact Hn]. }
  destruct (rnd_phase1 ch1' rank (seq 0 n) (repeat [] num)); [|reflexivity].
  apply rnd_phase2_ext. exact H2.
Qed.

(* all-pairs cover: depends only on the one permutation the shuffle returns *)
Lemma cover_deterministic : forall sh sh' n rank,
  sh (pairs n) = sh' (pairs n) ->
  pairs_cover sh n rank = pairs_cover sh' n rank /\ prefitting_cover sh n rank = prefitting_cover sh' n rank.
Proof. intros sh sh' n rank E. unfold prefitting_cover, pairs_cover. rewrite E. split; reflexivity. Qed.

(* Crystals: no random source at all; the result is a function of the six
   inputs (feature count, lattice count, rank, swap bound, the two score
   tables) *)
Lemma crystals_deterministic : forall c c',
  k_n c = k_n c' -> k_num c = k_num c' -> k_rank c = k_rank c' -> k_max_swaps c = k_max_swaps c' ->
  k_T c = k_T c' -> k_lap c = k_lap c' ->
  crystal_uses c = crystal_uses c' /\ crystal_lattices c = crystal_lattices c'.
Proof. intros [n num rank ms T lap] [n' num' rank' ms' T' lap']. cbn. intros; subst. split; reflexivity. Qed.

(* ================================================================== *)
(* Crystals: the use allocation for strictly positive importance       *)
(* ================================================================== *)
Open Scope Q_scope.

Lemma qround_ge_half x : x - (1#2) <= inject_Z (qround_half_even x).
Proof.
  unfold qround_half_even. pose proof (Qfloor_le x) as Hf. pose proof (Qlt_floor x) as Hl.
  rewrite inject_Z_plus in Hl. change (inject_Z 1) with 1 in Hl.
  destruct (Qcompare (x - inject_Z (Qfloor x)) (1#2)) eqn:Ec.
  - apply Qeq_alt in Ec. destruct (Z.even _); [lra|]. rewrite inject_Z_plus. change (inject_Z 1) with 1. lra.
  - apply Qlt_alt in Ec. lra.
  - rewrite inject_Z_plus. change (inject_Z 1) with 1. lra.
Qed.

Lemma inject_Z_half_le a b : inject_Z a <= inject_Z b + (1#2) -> (a <= b)%Z.
Proof.
  intros H. destruct (Z_le_gt_dec a b) as [|Hg]; [assumption|exfalso].
  assert (Hz : (b + 1 <= a)%Z) by lia. rewrite Zle_Qle, inject_Z_plus in Hz. change (inject_Z 1) with 1 in Hz. lra.
Qed.

Lemma zsum_zset_add i d l : (i < length l)%nat -> zsum (zset_add i d l) = (zsum l + d)%Z.
Proof. unfold zsum. revert i; induction l as [|x l IH]; intros [|i] H; cbn [length] in H; try lia;
  cbn [zset_add fold_right]; [lia|]. rewrite IH by lia. lia. Qed.

Lemma qsum_map_le_const {A} (v : A -> Q) b l : (forall g, In g l -> v g <= b) ->
  qsum (map v l) <= inject_Z (Z.of_nat (length l)) * b.
Proof.
  induction l as [|x l IH]; intros H; cbn [map qsum length].
  - change (inject_Z (Z.of_nat 0)) with 0. lra.
  - rewrite Nat2Z.inj_succ. unfold Z.succ. rewrite inject_Z_plus. change (inject_Z 1) with 1.
    pose proof (H x (or_introl eq_refl)). assert (qsum (map v l) <= inject_Z (Z.of_nat (length l)) * b)
      by (apply IH; intros; apply H; right; assumption). lra.
Qed.

Section AllocTotal.
Variable num : nat.
Variable imp : list Q.
Hypothesis Hnum : (1 <= num)%nat.
Let sc (f : nat) : Q := nth f imp 0.

(* order: importance descending (what np.argsort(-importance) returns) *)
Definition desc_sorted (order : list nat) : Prop := StronglySorted (fun a b => sc b <= sc a) order.

Lemma alloc_uses_total : forall order uses rem rs,
  (forall f, In f order -> 0 < sc f /\ (f < length uses)%nat) ->
  desc_sorted order ->
  rs == qsum (map sc order) ->
  (0 <= rem <= Z.of_nat (length order) * (Z.of_nat num - 1))%Z ->
  exists uses', alloc_uses num imp order uses rem rs = Some uses' /\
                zsum uses' = (zsum uses + rem)%Z /\ length uses' = length uses.
Proof.
  induction order as [|f r IH]; intros uses rem rs Hin Hsort HS HR; cbn [alloc_uses].
  - exists uses. cbn [length] in HR. split; [reflexivity|]. split; [lia|reflexivity].
  - cbn [map qsum] in HS. fold (sc f).
    destruct (Hin f (or_introl eq_refl)) as [Hf Hlen].
    assert (Hrest0 : 0 <= qsum (map sc r)).
    { apply qsum_map_nonneg. intros g Hg. destruct (Hin g (or_intror Hg)). lra. }
    assert (Hpos : 0 < rs) by lra.
    destruct (Qeq_bool rs 0) eqn:Ez. { apply Qeq_bool_iff in Ez. lra. }
    inversion Hsort as [|? ? Hsr Hall]; subst.
    assert (Hrest1 : qsum (map sc r) <= inject_Z (Z.of_nat (length r)) * sc f).
    { apply qsum_map_le_const. rewrite Forall_forall in Hall. exact Hall. }
    set (R := inject_Z rem) in *.
    set (x := R * sc f / rs).
    assert (HRq : 0 <= R) by (unfold R; change 0 with (inject_Z 0); rewrite <- Zle_Qle; lia).
    assert (Hx0 : 0 <= x).
    { unfold x. apply Qle_shift_div_l; [exact Hpos|]. pose proof (qmul_nonneg _ _ HRq (Qlt_le_weak _ _ Hf)). lra. }
    assert (Hx1 : x <= R).
    { unfold x. apply Qle_shift_div_r; [exact Hpos|]. apply qmul_le_l; [exact HRq|lra]. }
    set (M := inject_Z (Z.of_nat (length r)) + 1).
    assert (HM : 1 <= M) by (unfold M; pose proof (inject_nat_nonneg (length r)); lra).
    (* the feature's share is at least 1/m: x * M >= R *)
    assert (Hshare : R <= x * M).
    { unfold x. unfold Qdiv. setoid_replace (R * sc f * / rs * M) with ((R * (sc f * M)) / rs) by (unfold Qdiv; ring).
      apply Qle_shift_div_l; [exact Hpos|]. apply qmul_le_l; [exact HRq|]. unfold M. lra. }
    pose proof (qround_nonneg x Hx0) as Hr0. pose proof (qround_le_int x rem Hx1) as Hr1.
    pose proof (qround_ge_half x) as Hr2.
    set (rd := qround_half_even x) in *.
    set (added := Z.min rd (Z.of_nat num - 1)).
    assert (Ha : (0 <= added <= rem)%Z) by (unfold added; lia).
    cbn [length] in HR. rewrite Nat2Z.inj_succ in HR.
    assert (Hnew : (rem - added <= Z.of_nat (length r) * (Z.of_nat num - 1))%Z).
    { unfold added. destruct (Z.min_spec rd (Z.of_nat num - 1)) as [[Hlt ->]|[Hge ->]]; [|lia].
      apply inject_Z_half_le. unfold Zminus. rewrite inject_Z_plus, inject_Z_opp, inject_Z_mult. fold R.
      set (K := inject_Z (Z.of_nat (length r))) in *.
      set (N1 := inject_Z (Z.of_nat num + - (1))).
      assert (HN1 : 0 <= N1) by (unfold N1; change 0 with (inject_Z 0); rewrite <- Zle_Qle; lia).
      assert (HK : 0 <= K) by (apply inject_nat_nonneg).
      assert (HRM : R <= M * N1).
      { unfold R, M, K, N1. change 1 with (inject_Z 1). rewrite <- inject_Z_plus, <- inject_Z_mult, <- Zle_Qle. lia. }
      (* (R - x) * M <= R * K <= M * N1 * K, M > 0 *)
      assert (H1 : (R - x) * M <= R * K) by (unfold M in *; lra).
      assert (H2 : R * K <= (M * N1) * K) by (rewrite (Qmult_comm R K), (Qmult_comm (M * N1) K); apply qmul_le_l; assumption).
      assert (H3 : (R - x) * M <= (K * N1) * M) by lra.
      assert (H4 : R - x <= K * N1).
      { apply Qmult_le_r with (z := M); [lra|exact H3]. }
      lra. }
    destruct (IH (zset_add f added uses) (rem - added)%Z (Qred (rs - sc f))) as [uses' [E [Hs Hl]]].
    + intros g Hg. rewrite zset_add_length. apply Hin. right; exact Hg.
    + exact Hsr.
    + rewrite Qred_correct. lra.
    + lia.
    + exists uses'. split; [exact E|]. rewrite Hs, Hl, zset_add_length, zsum_zset_add by exact Hlen.
      split; [lia|reflexivity].
Qed.
End AllocTotal.

(* insertion into a descending list keeps it descending *)
Lemma ins_desc_sorted imp x l : desc_sorted imp l -> desc_sorted imp (ins_desc imp x l).
Proof.
  unfold desc_sorted. induction l as [|y l IH]; intros Hs; cbn [ins_desc].
  - constructor; constructor.
  - inversion Hs as [|? ? Hsl Hall]; subst.
    destruct (Qle_bool (nth y imp 0) (nth x imp 0)) eqn:E.
    + apply Qle_bool_iff in E. constructor; [exact Hs|]. constructor; [exact E|].
      rewrite Forall_forall in *. intros z Hz. pose proof (Hall z Hz). lra.
    + assert (Hlt : nth x imp 0 < nth y imp 0).
      { destruct (Qlt_le_dec (nth x imp 0) (nth y imp 0)); [assumption|].
        apply Qle_bool_iff in q. congruence. }
      constructor; [apply IH; exact Hsl|].
      apply Forall_forall. intros z Hz. apply (Permutation_in _ (ins_desc_perm imp x l)) in Hz.
      destruct Hz as [<-|Hz]; [lra|]. rewrite Forall_forall in Hall. apply Hall; exact Hz.
Qed.

Lemma argsort_desc_sorted imp : desc_sorted imp (argsort_desc imp).
Proof. unfold argsort_desc. induction (seq 0 (length imp)) as [|x l IH]; cbn [fold_right].
  constructor. apply ins_desc_sorted; exact IH. Qed.

Lemma importance_length n T lap : length (importance n T lap) = n.
Proof. unfold importance. rewrite map_length, seq_length. reflexivity. Qed.

Lemma zsum_repeat1 n : zsum (repeat 1%Z n) = Z.of_nat n.
Proof. induction n as [|n IH]. reflexivity. cbn [repeat]. unfold zsum in *. cbn [fold_right]. rewrite IH. lia. Qed.

(* For strictly positive importance scores, enough slots and lattice_rank <=
   number of features, the allocation neither raises nor fails its assert:
   the uses sum to num_lattices * lattice_rank. *)
Lemma crystal_uses_total : forall c,
  (forall f, (f < k_n c)%nat -> 0 < nth f (importance (k_n c) (k_T c) (k_lap c)) 0) ->
  (k_n c <= k_num c * k_rank c)%nat -> (k_rank c <= k_n c)%nat ->
  exists uses, crystal_uses c = Some uses /\ zsum uses = Z.of_nat (k_num c * k_rank c) /\
               length uses = k_n c.
Proof.
  intros c Hpos Hslots Hrank. unfold crystal_uses.
  set (imp := importance (k_n c) (k_T c) (k_lap c)) in *.
  assert (Hlen : length imp = k_n c) by apply importance_length.
  destruct (Nat.eq_dec (k_num c) 0) as [Z0|NZ].
  { (* no lattices: no slots, hence no features *)
    rewrite Z0 in *. cbn [Nat.mul] in *. assert (Hn : k_n c = 0%nat) by lia.
    unfold imp, importance. unfold argsort_desc. rewrite map_length, seq_length. rewrite Hn. cbn.
    exists []. auto. }
  destruct (alloc_uses_total (k_num c) imp ltac:(lia) (argsort_desc imp) (repeat 1%Z (k_n c))
             (Z.of_nat (k_num c * k_rank c) - Z.of_nat (k_n c))%Z (Qred (qsum imp))) as [uses [E [Hs Hl]]].
  - intros f Hf. apply (Permutation_in _ (argsort_desc_perm imp)) in Hf. apply in_seq in Hf.
    rewrite repeat_length. split; [apply Hpos|]; lia.
  - apply argsort_desc_sorted.
  - rewrite Qred_correct. rewrite (qsum_perm _ _ (Permutation_map _ (argsort_desc_perm imp))).
    rewrite map_nth_seq. reflexivity.
  - rewrite (Permutation_length (argsort_desc_perm imp)), seq_length, Hlen.
    assert (k_num c * k_rank c <= k_num c * k_n c)%nat by (apply Nat.mul_le_mono_l; exact Hrank).
    nia.
  - rewrite E. rewrite zsum_repeat1 in Hs. rewrite repeat_length in Hl.
    exists uses. replace (zsum uses =? Z.of_nat (k_num c * k_rank c))%Z with true by (symmetry; apply Z.eqb_eq; lia).
    split; [reflexivity|]. split; [lia|exact Hl].
Qed.
Open Scope nat_scope.

(* ================================================================== *)
(* Crystals: with such an allocation the function returns              *)
(* ================================================================== *)
Lemma flat_map_cond_length {A B} (q : A -> bool) (y : B) (F : A -> list B) us :
  length (flat_map (fun u => if q u then y :: F u else F u) us) = countp q us + length (flat_map F us).
Proof. induction us as [|u r IH]; cbn [flat_map]. reflexivity.
  rewrite countp_cons, !app_length, IH. destruct (q u); cbn [length b2n]; lia. Qed.

Lemma flat_map_nil_length {A B} (us : list A) : length (flat_map (fun _ => @nil B) us) = 0.
Proof. induction us; cbn; auto. Qed.

Lemma flat_map_filter_length (g : nat -> Z) us : forall fs,
  length (flat_map (fun u => filter (fun f => (Z.of_nat u <=? g f)%Z) fs) us) =
  list_sum (map (fun f => countp (fun u => (Z.of_nat u <=? g f)%Z) us) fs).
Proof.
  induction fs as [|f r IH]; cbn [map].
  - apply flat_map_nil_length.
  - rewrite (flat_map_ext _ (fun u => if (Z.of_nat u <=? g f)%Z then f :: filter (fun f0 => (Z.of_nat u <=? g f0)%Z) r
                                      else filter (fun f0 => (Z.of_nat u <=? g f0)%Z) r)) by (intros; reflexivity).
    rewrite flat_map_cond_length, IH. reflexivity.
Qed.

Lemma countp_le_seq k M : (0 <= k)%Z ->
  countp (fun u => (Z.of_nat u <=? k)%Z) (seq 1 M) = Z.to_nat (Z.min k (Z.of_nat M)).
Proof.
  intros Hk. induction M as [|M IH]. unfold countp; cbn [seq filter length]; lia.
  rewrite seq_S, countp_app, IH, countp_cons. unfold countp at 1. cbn [filter length].
  destruct (Z.leb_spec (Z.of_nat (1 + M)) k); cbn [b2n]; lia.
Qed.

Lemma map_nth_seq_z (l : list Z) : map (fun i => nth i l 0%Z) (seq 0 (length l)) = l.
Proof. induction l as [|x l IH]; cbn [length seq map nth]. reflexivity.
  f_equal. rewrite <- seq_shift, map_map. exact IH. Qed.

Lemma list_sum_to_nat l : Forall (fun u => (0 <= u)%Z) l -> list_sum (map Z.to_nat l) = Z.to_nat (zsum l).
Proof. unfold zsum. induction 1 as [|x l Hx Hl IH]. reflexivity.
  cbn [map fold_right]. change (list_sum (Z.to_nat x :: map Z.to_nat l)) with (Z.to_nat x + list_sum (map Z.to_nat l)).
  rewrite IH. assert (0 <= fold_right Z.add 0 l)%Z by (clear IH; induction Hl; cbn [fold_right]; lia). lia. Qed.

Lemma add_list_length n uses : length uses = n -> Forall (fun u => (0 <= u)%Z) uses ->
  length (add_list n uses) = Z.to_nat (zsum uses).
Proof.
  intros Hn Hpos. unfold add_list. rewrite flat_map_filter_length.
  rewrite <- list_sum_to_nat by exact Hpos.
  transitivity (list_sum (map Z.to_nat (map (fun i => nth i uses 0%Z) (seq 0 (length uses)))));
    [|rewrite map_nth_seq_z; reflexivity].
  rewrite Hn, map_map.
  f_equal. apply map_ext_in. intros f Hf. apply in_seq in Hf.
  assert (Hin : In (nth f uses 0%Z) uses) by (apply nth_In; lia).
  pose proof (zmax_list_ge uses _ Hin). rewrite Forall_forall in Hpos. pose proof (Hpos _ Hin).
  rewrite countp_le_seq by assumption. lia.
Qed.

(* strictly positive importance, non-negative torsions, enough slots,
   lattice_rank <= number of features: _get_final_crystal_lattices returns *)
Lemma crystal_lattices_total : forall c,
  Forall (Forall (fun x => (0 <= x)%Q)) (k_T c) ->
  (forall f, f < k_n c -> (0 < nth f (importance (k_n c) (k_T c) (k_lap c)) 0)%Q) ->
  k_n c <= k_num c * k_rank c -> k_rank c <= k_n c ->
  exists uses lats, crystal_uses c = Some uses /\ zsum uses = Z.of_nat (k_num c * k_rank c) /\
                    Forall (fun u => (1 <= u)%Z) uses /\ crystal_lattices c = Some lats.
Proof.
  intros c HT Hpos Hslots Hrank.
  destruct (crystal_uses_total c Hpos Hslots Hrank) as [uses [Eu [Hs Hl]]].
  exists uses. unfold crystal_lattices. rewrite Eu.
  assert (Hge1 : Forall (fun u => (1 <= u)%Z) uses).
  { destruct (Nat.eq_dec (k_num c) 0) as [Z0|NZ].
    - rewrite Z0 in Hslots. cbn in Hslots. assert (length uses = 0) by lia. destruct uses; [constructor|discriminate].
    - unfold crystal_uses in Eu.
      set (imp := importance (k_n c) (k_T c) (k_lap c)) in *.
      destruct (alloc_uses _ _ _ _ _ _) as [u|] eqn:Ea; [|discriminate].
      destruct (Z.eqb _ _); [|discriminate]. inversion Eu; subst u; clear Eu.
      destruct (alloc_uses_ge1 (k_num c) imp ltac:(lia)) with (order := argsort_desc imp)
        (uses := repeat 1%Z (k_n c)) (rem_uses := (Z.of_nat (k_num c * k_rank c) - Z.of_nat (k_n c))%Z)
        (rem_scores := Qred (qsum imp)) (uses' := uses) as [H1 _].
      + intros f. destruct (Nat.lt_ge_cases f (k_n c)) as [Hf|Hf]. apply Qlt_le_weak, Hpos, Hf.
        rewrite nth_overflow. apply Qle_refl. unfold imp. rewrite importance_length. exact Hf.
      + lia.
      + rewrite Qred_correct. rewrite (qsum_perm _ _ (Permutation_map _ (argsort_desc_perm imp))).
        rewrite map_nth_seq. reflexivity.
      + apply Forall_forall. intros u Hu. apply repeat_spec in Hu. lia.
      + exact Ea.
      + exact H1. }
  assert (Hge0 : Forall (fun u => (0 <= u)%Z) uses) by (eapply Forall_impl; [|exact Hge1]; cbn; intros; lia).
  pose proof (add_list_length (k_n c) uses Hl Hge0) as Hal. rewrite Hs, Nat2Z.id in Hal.
  unfold crystals_from_uses. rewrite Hal, Nat.eqb_refl. cbn [negb].
  destruct (place_fold c HT (add_list (k_n c) uses) [] (repeat [] (k_num c))
              (repeat (repeat 0%Z (k_n c)) (k_n c))) as [l1 [C1 [E1 _]]].
  { split; [apply repeat_length|]. split.
    apply Forall_forall. intros l Hl'. apply repeat_spec in Hl'. subst; cbn; lia.
    intros p. rewrite concat_repeat_nil. reflexivity. }
  { cbn [length]. lia. }
  rewrite E1. eexists. split; [reflexivity|]. split; [exact Hs|]. split; [exact Hge1|reflexivity].
Qed.

(* a sufficient condition on the inputs: non-negative torsions and strictly
   positive laplacians give strictly positive importance *)
Lemma importance_pos n T lap : Forall (Forall (fun x => (0 <= x)%Q)) T ->
  (forall f, f < n -> (0 < nth f lap 0)%Q) ->
  forall f, f < n -> (0 < nth f (importance n T lap) 0)%Q.
Proof.
  intros HT HL f Hf. unfold importance.
  rewrite (nth_indep _ 0%Q (Qred (nth 0 lap 0 * 6 + 0))%Q) by (rewrite map_length, seq_length; exact Hf).
  rewrite (nth_map_seq_gen (fun f => Qred (nth f lap 0 * 6 +
      qsum (map (fun g => if f <? g then tget T f g else if g <? f then tget T g f else 0) (seq 0 n)))%Q) 0 n f _ Hf).
  cbn [Nat.add]. rewrite Qred_correct. pose proof (HL f Hf).
  assert (0 <= qsum (map (fun g => if f <? g then tget T f g else if g <? f then tget T g f else 0) (seq 0 n)))%Q.
  { apply qsum_map_nonneg. intros h _. destruct (f <? h); [apply tget_nonneg_gen; exact HT|].
    destruct (h <? f); [apply tget_nonneg_gen; exact HT|apply Qle_refl]. }
  lra.
Qed.

(* Crystals without the "returned" hypothesis: strictly positive importance
   (which excludes D13), non-negative torsions, enough slots and
   lattice_rank <= number of features: the function returns num_lattices
   lattices of exactly lattice_rank features and every feature is used. *)
Lemma crystals_positive_closed : forall c,
  Forall (Forall (fun x => (0 <= x)%Q)) (k_T c) ->
  (forall f, f < k_n c -> (0 < nth f (importance (k_n c) (k_T c) (k_lap c)) 0)%Q) ->
  k_n c <= k_num c * k_rank c -> k_rank c <= k_n c ->
  exists lats, crystal_lattices c = Some lats /\ length lats = k_num c /\
    (forall l, In l lats -> length l = k_rank c) /\
    (forall f, f < k_n c -> exists l, In l lats /\ In f l).
Proof.
  intros c HT Hpos Hslots Hrank.
  destruct (crystal_lattices_total c HT Hpos Hslots Hrank) as [uses [lats [Eu [Hs [Hge1 El]]]]].
  exists lats. split; [exact El|].
  destruct (crystals_closed c lats HT El) as [uses' [Eu' [_ [H1 [H2 H3]]]]].
  assert (uses' = uses) by congruence. subst uses'.
  split; [exact H1|]. split; [exact H2|]. intros f Hf. apply H3; [exact Hf|].
  destruct (crystal_uses_total c Hpos Hslots Hrank) as [u2 [Eu2 [_ Hl]]].
  assert (u2 = uses) by congruence. subst u2.
  rewrite Forall_forall in Hge1. apply Hge1, nth_In. lia.
Qed.

(* the hypotheses are satisfiable, and the D13 witness violates exactly the
   positivity hypothesis *)
Lemma crystals_positive_example :
  let c := mkcr 3 2 2 1000 [[0; 1; 1#2]; [1; 0; 1#4]; [1#2; 1#4; 0]]%Q [1#4; 1#8; 1#8]%Q in
  Forall (Forall (fun x => (0 <= x)%Q)) (k_T c) /\
  (forall f, f < k_n c -> (0 < nth f (importance (k_n c) (k_T c) (k_lap c)) 0)%Q) /\
  k_n c <= k_num c * k_rank c /\ k_rank c <= k_n c.
Proof. cbv zeta. split; [|split; [|split]].
  - repeat constructor; discriminate.
  - intros f Hf. cbn [k_n] in Hf. destruct f as [|[|[|f]]]; [vm_compute; reflexivity..|lia].
  - cbn; lia.
  - cbn; lia. Qed.
