(* Totality of Model/CondPWL.pwl_fn at the function level: after the size check
   ([verify]) the function has one more way to return None, the broadcasting
   test [bcompat ... else None].  This file characterises exactly when that test
   passes, in terms of the shapes the module docstring lists:
     inputs                      (batch, 1) or (batch, units)
     keypoint_input_parameters   None, rank 2, or (1 or batch, 1 or units, size)
     keypoint_output_parameters  the forms the size check lets through
     batch axes                  every one is 1 or a common B
   so "documented form and documented size => Some" holds for the whole function,
   not only for [verify]. *)
From TFL Require Import Model.CondPWL Proofs.CondPWL.
Open Scope Q_scope.

(* ---- shape vocabulary ------------------------------------------------------ *)
(* size of the batch axis of a parameter tensor *)
Definition blen (t : ptens) : nat := match t with P2 t => length t | P3 t => length t end.
Definition kip_blen (kip : option ptens) : nat := match kip with None => 1%nat | Some t => blen t end.
(* an axis of size l broadcasts to size B *)
Definition bcast_to (B l : nat) : Prop := l = 1%nat \/ l = B.
(* "1 or batch_size" on every batch axis *)
Definition batch_bcast (inputs : list (list Q)) (kip : option ptens) (kop : ptens) : Prop :=
  exists B, bcast_to B (length inputs) /\ bcast_to B (kip_blen kip) /\ bcast_to B (blen kop).
Definition nonempty_batch (inputs : list (list Q)) (kip : option ptens) (kop : ptens) : Prop :=
  inputs <> [] /\ kip_blen kip <> 0%nat /\ blen kop <> 0%nat.
(* keypoint_input_parameters: None, rank 2, or rank 3 with "1 or units" *)
Definition kip_doc_form (c : pcfg) (kip : option ptens) : Prop :=
  match kip with
  | None => True
  | Some (P2 _) => True
  | Some (P3 t) => length (hd [] t) = 1%nat \/ length (hd [] t) = p_units c
  end.
(* inputs: (batch, 1) or (batch, units) *)
Definition inputs_doc_form (c : pcfg) (inputs : list (list Q)) : Prop :=
  width inputs = 1%nat \/ width inputs = p_units c.

(* ---- helpers ------------------------------------------------------------------ *)
Lemma tile1_length {A} units (t : list (list A)) : length (tile1 units t) = length t.
Proof. unfold tile1. destruct ((length (hd [] t) =? 1)%nat && (1 <? units)%nat); [apply map_length|reflexivity]. Qed.
Lemma to3_length t : length (to3 t) = blen t.
Proof. destruct t; cbn [to3 blen]; [apply map_length|reflexivity]. Qed.

Lemma out_batch_eq c inputs kip kop :
  out_batch c inputs kip kop = Nat.max (length inputs) (Nat.max (kip_blen kip) (blen kop)).
Proof. unfold out_batch. rewrite !tile1_length, to3_length. destruct kip as [t|]; cbn [kip_blen].
  - rewrite tile1_length, to3_length. reflexivity.
  - reflexivity. Qed.

Lemma bcompat_iff n l : bcompat n l = true <-> bcast_to n l.
Proof. unfold bcompat, bcast_to. rewrite orb_true_iff, !Nat.eqb_eq. tauto. Qed.

(* the second axis after tiling: "1 or units" before <-> compatible with units after *)
Lemma hd_tile1_compat {A} units (t : list (list A)) :
  length (hd [] t) = 1%nat \/ length (hd [] t) = units ->
  bcompat units (length (hd [] (tile1 units t))) = true.
Proof. intros H. unfold tile1. destruct ((length (hd [] t) =? 1)%nat && (1 <? units)%nat) eqn:E.
  - apply andb_true_iff in E. destruct E as [E1 _]. apply Nat.eqb_eq in E1.
    destruct t as [|m r]; [discriminate|]. cbn [map hd] in *. rewrite length_concat_repeat, E1.
    apply bcompat_iff. right. lia.
  - apply bcompat_iff. exact H. Qed.
Lemma hd_tile1_compat_inv {A} units (t : list (list A)) :
  bcompat units (length (hd [] (tile1 units t))) = true ->
  length (hd [] t) = 1%nat \/ length (hd [] t) = units.
Proof. unfold tile1. destruct ((length (hd [] t) =? 1)%nat && (1 <? units)%nat) eqn:E.
  - intros _. apply andb_true_iff in E. destruct E as [E1 _]. apply Nat.eqb_eq in E1. left. exact E1.
  - intros H. apply bcompat_iff in H. exact H. Qed.

Lemma to3_P2_hd t : t <> [] -> length (hd [] (to3 (P2 t))) = 1%nat.
Proof. destruct t; [congruence|reflexivity]. Qed.

(* the unit axis of keypoint_output_parameters of an accepted call *)
Lemma kop_unit_axis c inputs kip kop : verify c inputs kip kop = true -> blen kop <> 0%nat ->
  length (hd [] (to3 kop)) = 1%nat \/ length (hd [] (to3 kop)) = p_units c.
Proof. intros V Hne. destruct (verify_parts _ _ _ _ V) as [_ [_ F]]. destruct kop as [t|t]; cbn [blen] in Hne.
  - left. apply to3_P2_hd. intros E. rewrite E in Hne. apply Hne. reflexivity.
  - right. exact F. Qed.
Lemma kip_unit_axis c t : kip_doc_form c (Some t) -> blen t <> 0%nat ->
  length (hd [] (to3 t)) = 1%nat \/ length (hd [] (to3 t)) = p_units c.
Proof. intros H Hne. destruct t as [t|t]; cbn [blen kip_doc_form] in *.
  - left. apply to3_P2_hd. intros E. rewrite E in Hne. apply Hne. reflexivity.
  - exact H. Qed.

(* the broadcasting test of pwl_fn, named *)
Definition bcast_test (c : pcfg) (inputs : list (list Q)) (kip : option ptens) (kop : ptens) : bool :=
  let units := p_units c in
  let B := out_batch c inputs kip kop in
  bcompat B (length inputs) && bcompat B (kip_blen kip) && bcompat B (blen kop)
  && bcompat units (match kip with None => units | Some t => length (hd [] (tile1 units (to3 t))) end)
  && bcompat units (length (hd [] (tile1 units (to3 kop))))
  && bcompat units (width (tile1 units inputs)).

Lemma pwl_fn_unfold sm sg c inputs kip kop :
  pwl_fn sm sg c inputs kip kop =
  if negb (verify c inputs kip kop) then None else
  if bcast_test c inputs kip kop then
    Some (map (fun b => map (fun u =>
            pwl_row sm sg c (slice_kip c kip b u) (slice_kop c kop b u) (slice_x c inputs b u))
          (seq 0 (p_units c))) (seq 0 (out_batch c inputs kip kop)))
  else None.
Proof. unfold pwl_fn, bcast_test, out_batch, slice_kip, slice_kop, slice_x.
  destruct (negb (verify c inputs kip kop)); [reflexivity|].
  destruct kip as [t|]; cbn [kip_blen]; rewrite ?tile1_length, ?to3_length; reflexivity. Qed.

Lemma bcast_test_iff c inputs kip kop :
  verify c inputs kip kop = true -> nonempty_batch inputs kip kop ->
  (bcast_test c inputs kip kop = true <->
   batch_bcast inputs kip kop /\ kip_doc_form c kip /\ inputs_doc_form c inputs).
Proof. intros V [Nx [Nk No]]. unfold bcast_test. cbv zeta. rewrite out_batch_eq.
  assert (Lx : length inputs <> 0%nat) by (destruct inputs; [congruence|discriminate]).
  set (a := length inputs) in *. set (b := kip_blen kip) in *. set (d := blen kop) in *.
  rewrite !andb_true_iff, !bcompat_iff. split.
  - intros [[[[[Ha Hb] Hd] Hk] _] Hi]. split; [|split].
    + exists (Nat.max a (Nat.max b d)). auto.
    + destruct kip as [t|]; [|exact I]. apply bcompat_iff, hd_tile1_compat_inv in Hk.
      destruct t as [t|t]; cbn [kip_doc_form to3] in *; [exact I|exact Hk].
    + apply bcompat_iff, hd_tile1_compat_inv in Hi. exact Hi.
  - intros [[B [Ha [Hb Hd]]] [Hk Hi]]. unfold bcast_to in Ha, Hb, Hd.
    repeat split.
    + unfold bcast_to. lia.
    + unfold bcast_to. lia.
    + unfold bcast_to. lia.
    + destruct kip as [t|]; [|right; reflexivity]. apply bcompat_iff, hd_tile1_compat.
      apply kip_unit_axis; assumption.
    + apply bcompat_iff, hd_tile1_compat. apply (kop_unit_axis c inputs kip); assumption.
    + apply bcompat_iff. apply (hd_tile1_compat (p_units c) inputs). exact Hi. Qed.

(* ---- totality ------------------------------------------------------------------- *)
(* For non-empty batch axes: the function returns a value exactly when the size
   check accepts and the shapes are the documented broadcastable ones. *)
Lemma pwl_fn_total_iff sm sg c inputs kip kop : nonempty_batch inputs kip kop ->
  ((exists out, pwl_fn sm sg c inputs kip kop = Some out) <->
   (verify c inputs kip kop = true /\ batch_bcast inputs kip kop
    /\ kip_doc_form c kip /\ inputs_doc_form c inputs)).
Proof. intros Hne. rewrite pwl_fn_unfold. destruct (verify c inputs kip kop) eqn:V; cbn [negb].
  - pose proof (bcast_test_iff c inputs kip kop V Hne) as T.
    destruct (bcast_test c inputs kip kop).
    + split. intros _. split; [reflexivity|]. apply T. reflexivity. intros _. eexists. reflexivity.
    + split. intros [out H]. discriminate. intros [_ H]. apply T in H. discriminate.
  - split. intros [out H]. discriminate. intros [H _]. discriminate. Qed.

(* shape of the result: (broadcast batch, units) *)
Lemma pwl_fn_shape sm sg c inputs kip kop out : pwl_fn sm sg c inputs kip kop = Some out ->
  length out = Nat.max (length inputs) (Nat.max (kip_blen kip) (blen kop))
  /\ forall row, In row out -> length row = p_units c.
Proof. intros H. destruct (pwl_fn_some _ _ _ _ _ _ _ H) as [_ [_ ->]]. split.
  - rewrite map_length, seq_length. apply out_batch_eq.
  - intros row Hr. apply in_map_iff in Hr. destruct Hr as [b [<- _]]. rewrite map_length, seq_length. reflexivity. Qed.

(* statement used by Props/C15.v: documented forms + documented size <=> a value *)
Lemma T_pwl_fn_total : forall sm sg c inputs kip kop,
  cfg_valid c -> kop_form_ok c kop -> kip_doc_form c kip -> inputs_doc_form c inputs ->
  nonempty_batch inputs kip kop -> batch_bcast inputs kip kop ->
  ((exists out, pwl_fn sm sg c inputs kip kop = Some out) <->
   (Z.of_nat (plast kop) = doc_output_size c (num_keypoints kip) /\ (0 < doc_output_size c (num_keypoints kip))%Z)).
Proof. intros sm sg c inputs kip kop Hc Hk Hki Hi Hne Hb.
  assert (Hi' : inputs_form_ok c inputs) by (destruct Hi as [Hi|Hi]; [left; lia|right; exact Hi]).
  rewrite (pwl_fn_total_iff sm sg c inputs kip kop Hne). rewrite <- (verify_sizes c inputs kip kop Hc Hk Hi'). tauto. Qed.

Lemma T_pwl_fn_total_iff : forall sm sg c inputs kip kop, nonempty_batch inputs kip kop ->
  ((exists out, pwl_fn sm sg c inputs kip kop = Some out) <->
   (verify c inputs kip kop = true /\ batch_bcast inputs kip kop
    /\ kip_doc_form c kip /\ inputs_doc_form c inputs)).
Proof. exact pwl_fn_total_iff. Qed.

Lemma T_pwl_fn_shape : forall sm sg c inputs kip kop out, pwl_fn sm sg c inputs kip kop = Some out ->
  length out = Nat.max (length inputs) (Nat.max (kip_blen kip) (blen kop))
  /\ forall row, In row out -> length row = p_units c.
Proof. exact pwl_fn_shape. Qed.

(* ---- the hypotheses are satisfiable ------------------------------------------------ *)
(* units = 2, batch 3: inputs (3,1), keypoint_input_parameters (1,1,1),
   keypoint_output_parameters (3,2,2); 'none' monotonicity, cyclic: 3 keypoints - 1 *)
Definition ex_total_c : pcfg := mkP 0 1 0 1 2 MonoNone false false true None None.
Definition ex_total_inputs : list (list Q) := [[0]; [1 # 2]; [1]].
Definition ex_total_kip : option ptens := Some (P3 [[[0]]]).
Definition ex_total_kop : ptens := P3 [[[0; 0]; [0; 0]]; [[0; 0]; [0; 0]]; [[0; 0]; [0; 0]]].
Lemma T_ex_total :
  cfg_valid ex_total_c /\ kop_form_ok ex_total_c ex_total_kop /\ kip_doc_form ex_total_c ex_total_kip
  /\ inputs_doc_form ex_total_c ex_total_inputs /\ nonempty_batch ex_total_inputs ex_total_kip ex_total_kop
  /\ batch_bcast ex_total_inputs ex_total_kip ex_total_kop
  /\ Z.of_nat (plast ex_total_kop) = doc_output_size ex_total_c (num_keypoints ex_total_kip)
  /\ rect_kip ex_total_kip /\ rect_kop ex_total_kop
  /\ exists out, pwl_fn ex_softmax (fun _ => 1 # 2) ex_total_c ex_total_inputs ex_total_kip ex_total_kop = Some out
       /\ length out = 3%nat.
Proof. split. { unfold cfg_valid; cbn. repeat split; try lra; auto; discriminate. }
  split. { reflexivity. } split. { left. reflexivity. } split. { left. reflexivity. }
  split. { repeat split; discriminate. }
  split. { exists 3%nat. cbv. auto. }
  split. { reflexivity. }
  split. { cbn. intros m [<-|[]]. split; [reflexivity|]. intros r [<-|[]]. reflexivity. }
  split. { cbn. intros m Hm. split.
    - destruct Hm as [<-|[<-|[<-|[]]]]; reflexivity.
    - intros r Hr. destruct Hm as [<-|[<-|[<-|[]]]]; destruct Hr as [<-|[<-|[]]]; reflexivity. }
  eexists. split; [vm_compute; reflexivity|reflexivity]. Qed.
