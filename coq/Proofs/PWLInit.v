(* Lemmas about the PWLCalibration kernel initialisers (Model/PWLInit.v), for C10. *)
From TFL Require Export Model.PWLInit.
Open Scope Q_scope.

Lemma qn_S n : qn (S n) == qn n + 1.
Proof. unfold qn. rewrite Nat2Z.inj_succ. unfold Z.succ. rewrite inject_Z_plus. reflexivity. Qed.
Lemma qn_nonneg n : 0 <= qn n.
Proof. induction n as [|n IH]. change (qn 0) with 0. lra. rewrite qn_S; lra. Qed.
Lemma qn_pos n : (1 <= n)%nat -> 0 < qn n.
Proof. destruct n as [|n]; [lia|]. intros _. rewrite qn_S. pose proof (qn_nonneg n). lra. Qed.

Lemma qsum_repeat x n : qsum (repeat x n) == qn n * x.
Proof. induction n as [|n IH]; cbn [repeat qsum]. change (qn 0) with 0. lra. rewrite IH, qn_S. lra. Qed.

(* ---- cumulative sums ---- *)
Lemma cumsum_from_length acc l : length (cumsum_from acc l) = length l.
Proof. revert acc. induction l as [|x l IH]; intros acc; cbn. reflexivity. rewrite IH. reflexivity. Qed.
Lemma cumsum_from_last l : forall acc, l <> [] -> nth (length l - 1) (cumsum_from acc l) 0 == acc + qsum l.
Proof. induction l as [|x l IH]; intros acc H. congruence.
  destruct l as [|y r]. cbn. lra.
  replace (length (x :: y :: r) - 1)%nat with (S (length (y :: r) - 1)) by (cbn [length]; lia).
  change (cumsum_from acc (x :: y :: r)) with ((acc + x) :: cumsum_from (acc + x) (y :: r)). cbn [nth].
  rewrite IH by congruence. cbn [qsum]. lra. Qed.
Lemma cumsum_from_up l : forall acc, (forall x, In x l -> 0 <= x) ->
  forall v, In v (cumsum_from acc l) -> acc <= v /\ v <= acc + qsum l.
Proof. induction l as [|x l IH]; intros acc H v Hv. destruct Hv.
  cbn [cumsum_from qsum] in *. pose proof (H x (or_introl eq_refl)) as Hx.
  assert (Hq : 0 <= qsum l).
  { clear -H. induction l as [|y l IH]; cbn [qsum]. lra.
    pose proof (H y (or_intror (or_introl eq_refl))).
    assert (0 <= qsum l) by (apply IH; intros z [<-|Hz]; apply H; [left|right; right]; auto). lra. }
  destruct Hv as [<-|Hv]. lra.
  destruct (IH (acc + x) (fun z Hz => H z (or_intror Hz)) v Hv). lra. Qed.
Lemma cumsum_from_down l : forall acc, (forall x, In x l -> x <= 0) ->
  forall v, In v (cumsum_from acc l) -> acc + qsum l <= v /\ v <= acc.
Proof. induction l as [|x l IH]; intros acc H v Hv. destruct Hv.
  cbn [cumsum_from qsum] in *. pose proof (H x (or_introl eq_refl)) as Hx.
  assert (Hq : qsum l <= 0).
  { clear -H. induction l as [|y l IH]; cbn [qsum]. lra.
    pose proof (H y (or_intror (or_introl eq_refl))).
    assert (qsum l <= 0) by (apply IH; intros z [<-|Hz]; apply H; [left|right; right]; auto). lra. }
  destruct Hv as [<-|Hv]. lra.
  destruct (IH (acc + x) (fun z Hz => H z (or_intror Hz)) v Hv). lra. Qed.
Lemma qsum_opp l : qsum (map Qopp l) == - qsum l.
Proof. induction l as [|x l IH]; cbn [map qsum]. lra. rewrite IH. lra. Qed.

(* ---- heights ---- *)
(* keypoints strictly increasing = every length positive *)
Definition kps_ok (nk : nat) (kps : option (list Q)) : Prop :=
  match kps with
  | None => True
  | Some k => length k = nk /\ forall l, In l (kp_lengths k) -> 0 < l
  end.

Lemma kp_lengths_length k : length (kp_lengths k) = (length k - 1)%nat.
Proof. unfold kp_lengths. rewrite map2_length. destruct k; cbn [tl length]; lia. Qed.

Lemma qsum_pos l : l <> [] -> (forall x, In x l -> 0 < x) -> 0 < qsum l.
Proof. induction l as [|x l IH]; intros Hne H. congruence. cbn [qsum].
  pose proof (H x (or_introl eq_refl)). destruct l as [|y r]. cbn; lra.
  assert (0 < qsum (y :: r)) by (apply IH; [congruence|intros z Hz; apply H; right; exact Hz]). lra. Qed.

Lemma heights_length nk omin omax kps : kps_ok nk kps -> length (pwl_init_heights nk omin omax kps) = (nk - 1)%nat.
Proof. intros H. destruct kps as [k|]; cbn [pwl_init_heights]. rewrite map_length, kp_lengths_length. destruct H as [-> _]. reflexivity.
  apply repeat_length. Qed.

Lemma heights_nonneg nk omin omax kps : omin <= omax -> (2 <= nk)%nat -> kps_ok nk kps ->
  forall h, In h (pwl_init_heights nk omin omax kps) -> 0 <= h.
Proof. intros Hb Hn Hk h Hh. destruct kps as [k|]; cbn [pwl_init_heights] in Hh.
  - destruct Hk as [Hl Hp]. apply in_map_iff in Hh. destruct Hh as [l [<- Hl']]. rewrite Qred_correct.
    assert (Hne : kp_lengths k <> []).
    { intros E. pose proof (kp_lengths_length k) as HL. rewrite E in HL. cbn in HL. lia. }
    pose proof (qsum_pos _ Hne Hp) as HS. pose proof (Hp l Hl').
    apply qmul_nonneg. lra. apply Qle_shift_div_l. exact HS. lra.
  - apply repeat_spec in Hh. subst h. rewrite Qred_correct. apply Qle_shift_div_l. apply qn_pos. lia. lra. Qed.

Lemma heights_total nk omin omax kps : (2 <= nk)%nat -> kps_ok nk kps ->
  qsum (pwl_init_heights nk omin omax kps) == omax - omin.
Proof. intros Hn Hk. destruct kps as [k|]; cbn [pwl_init_heights].
  - destruct Hk as [Hl Hp].
    assert (Hne : kp_lengths k <> []).
    { intros E. pose proof (kp_lengths_length k) as HL. rewrite E in HL. cbn in HL. lia. }
    pose proof (qsum_pos _ Hne Hp) as HS.
    rewrite (qsum_map_ext _ (fun l => (omax - omin) / qsum (kp_lengths k) * (fun x => x) l)) by (intros; rewrite Qred_correct; lra).
    rewrite qsum_map_scale, map_id. field. lra.
  - rewrite qsum_repeat, Qred_correct. pose proof (qn_pos (nk - 1) ltac:(lia)). field. lra. Qed.

Lemma nth_map_lt {A B} (f : A -> B) l i d d' : (i < length l)%nat -> nth i (map f l) d = f (nth i l d').
Proof. revert i; induction l as [|x l IH]; intros [|i] H; cbn in *; try lia; auto. apply IH; lia. Qed.

(* equal heights / equal slopes *)
Lemma heights_equal nk omin omax h h' :
  In h (pwl_init_heights nk omin omax None) -> In h' (pwl_init_heights nk omin omax None) -> h = h'.
Proof. cbn [pwl_init_heights]. intros H H'. apply repeat_spec in H. apply repeat_spec in H'. congruence. Qed.
Lemma heights_equal_slopes nk omin omax k i : (i < length (kp_lengths k))%nat ->
  nth i (pwl_init_heights nk omin omax (Some k)) 0 == nth i (kp_lengths k) 0 * ((omax - omin) / qsum (kp_lengths k)).
Proof. intros Hi. cbn [pwl_init_heights]. rewrite (nth_map_lt _ _ i 0 0 Hi). apply Qred_correct. Qed.

(* ---- the column ---- *)
Section Column.
Variables (nk : nat) (omin omax : Q) (mono : Z) (kps : option (list Q)).
Hypothesis Hb : omin <= omax.
Hypothesis Hn : (2 <= nk)%nat.
Hypothesis Hk : kps_ok nk kps.
Let col := pwl_linear_init_col nk omin omax mono kps.
Let vals := pwl_keypoint_values col.
Let dec := (mono =? -1)%Z.

Lemma col_length : length col = nk.
Proof. unfold col, pwl_linear_init_col. destruct (mono =? -1)%Z; cbn [length]; rewrite ?map_length, heights_length by exact Hk; lia. Qed.

(* heights point in the configured direction *)
Lemma col_direction h : In h (tl col) -> if dec then h <= 0 else 0 <= h.
Proof. unfold col, pwl_linear_init_col, dec. destruct (mono =? -1)%Z; cbn [tl]; intros H.
  - apply in_map_iff in H. destruct H as [x [<- Hx]]. pose proof (heights_nonneg nk omin omax kps Hb Hn Hk x Hx). lra.
  - apply (heights_nonneg nk omin omax kps Hb Hn Hk). exact H. Qed.

Lemma vals_first : nth 0 vals 0 == (if dec then omax else omin).
Proof. unfold vals, pwl_keypoint_values, cumsum, col, pwl_linear_init_col, dec. destruct (mono =? -1)%Z; cbn; lra. Qed.
Lemma vals_last : nth (nk - 1) vals 0 == (if dec then omin else omax).
Proof. pose proof col_length as HL. unfold vals, pwl_keypoint_values, cumsum.
  rewrite <- HL. rewrite cumsum_from_last by (intros E; rewrite E in HL; cbn in HL; lia).
  unfold col, pwl_linear_init_col, dec. pose proof (heights_total nk omin omax kps Hn Hk) as HT.
  destruct (mono =? -1)%Z; cbn [qsum]; rewrite ?qsum_opp, HT; lra. Qed.
Lemma vals_range v : In v vals -> omin <= v /\ v <= omax.
Proof. unfold vals, pwl_keypoint_values, cumsum, col, pwl_linear_init_col.
  pose proof (heights_total nk omin omax kps Hn Hk) as HT.
  destruct (mono =? -1)%Z; cbn [cumsum_from]; intros [<-|H]; try lra.
  - apply cumsum_from_down in H. rewrite qsum_opp, HT in H. lra.
    intros x Hx. apply in_map_iff in Hx. destruct Hx as [y [<- Hy]].
    pose proof (heights_nonneg nk omin omax kps Hb Hn Hk y Hy). lra.
  - apply cumsum_from_up in H. rewrite HT in H. lra.
    apply (heights_nonneg nk omin omax kps Hb Hn Hk). Qed.
End Column.

(* equal heights or equal slopes, in the configured direction *)
Lemma col_equal_heights nk omin omax mono h h' :
  In h (tl (pwl_linear_init_col nk omin omax mono None)) -> In h' (tl (pwl_linear_init_col nk omin omax mono None)) -> h = h'.
Proof. unfold pwl_linear_init_col. destruct (mono =? -1)%Z; cbn [tl]; intros H H'.
  - apply in_map_iff in H. apply in_map_iff in H'. destruct H as [x [<- Hx]]. destruct H' as [y [<- Hy]].
    f_equal. eapply heights_equal; eassumption.
  - eapply heights_equal; eassumption. Qed.
Lemma col_equal_slopes nk omin omax mono k i : (i < length (kp_lengths k))%nat ->
  let c := (if (mono =? -1)%Z then -1 else 1) * ((omax - omin) / qsum (kp_lengths k)) in
  nth i (tl (pwl_linear_init_col nk omin omax mono (Some k))) 0 == nth i (kp_lengths k) 0 * c.
Proof. intros Hi c. unfold c, pwl_linear_init_col. destruct (mono =? -1)%Z; cbn [tl].
  - assert (Hl : (i < length (pwl_init_heights nk omin omax (Some k)))%nat) by (cbn [pwl_init_heights]; rewrite map_length; exact Hi).
    rewrite (nth_map_lt Qopp _ i 0 0 Hl).
    rewrite heights_equal_slopes by exact Hi. lra.
  - rewrite heights_equal_slopes by exact Hi. lra. Qed.

(* every unit gets the same column *)
Lemma pwl_init_units nk units omin omax mono kps u : (u < units)%nat ->
  column u (pwl_linear_init nk units omin omax mono kps) = pwl_linear_init_col nk omin omax mono kps.
Proof. intros Hu. unfold column, pwl_linear_init. rewrite map_map.
  rewrite <- (map_id (pwl_linear_init_col nk omin omax mono kps)) at 2. apply map_ext. intros x.
  rewrite nth_indep with (d' := x) by (rewrite repeat_length; exact Hu). apply nth_repeat. Qed.

(* convert_all_constraints: the init range is non-empty and inside the output bounds *)
Lemma convert_range omin omax cmn cmx :
  (forall a b, omin = Some a -> omax = Some b -> a <= b) ->
  let '(imin, imax, _, _) := convert_all_constraints omin omax cmn cmx in
  imin <= imax /\ (forall a, omin = Some a -> a <= imin) /\ (forall b, omax = Some b -> imax <= b).
Proof. intros H. unfold convert_all_constraints, convert_constraints.
  destruct omin as [a|], omax as [b|]; cbn.
  - specialize (H a b eq_refl eq_refl). repeat split; intros; try congruence; try lra.
    inversion H0; subst; lra. inversion H0; subst; lra.
  - repeat split; intros; try congruence; try lra. inversion H0; subst; lra.
  - repeat split; intros; try congruence; try lra. inversion H0; subst; lra.
  - repeat split; intros; try congruence; lra. Qed.

(* ---- the hypotheses are satisfiable; concrete values ---- *)
Example kps_ok_ex : kps_ok 4 (Some [0; 1; 3; 7#2]).
Proof. split. reflexivity. cbn. intros l H. repeat (destruct H as [<-|H]; [lra|]). destruct H. Qed.
Example pwl_init_slopes_ex :
  pwl_linear_init_col 4 (-3) (-1) (-1) (Some [0; 1; 3; 7#2]) = [-1; -4#7; -8#7; -2#7].
Proof. vm_compute. reflexivity. Qed.
Example pwl_init_heights_ex : pwl_linear_init_col 3 (1#2) (3#2) 0 None = [1#2; 1#2; 1#2].
Proof. vm_compute. reflexivity. Qed.
Example pwl_layer_one_sided_ex :   (* only output_max given: constant start at the bound *)
  pwl_layer_init [0; 1; 2] 2 None (Some 5) false false 1 false false = [[5; 5]; [0; 0]; [0; 0]].
Proof. vm_compute. reflexivity. Qed.
