(* C20 closed over C06: the Linear layer evaluated with the weights that its own
   kernel constraint (linear_lib.project, Model/LinearProject.v) returns.  The
   weight conditions that Proofs/LinearEval.v takes as hypotheses are discharged
   here from the theorems of Proofs/LinearProject.v, for every kernel column and
   every valid configuration (lin_valid = what verify_hyperparameters checks,
   plus acyclic dominance graphs).  The bounds the layer clips by are the bounds
   of the same configuration (layer_bounds). *)
From TFL Require Import Model.LinearLayer Proofs.LinearEval Proofs.PartialOrder Proofs.TopoSort Proofs.LinearProject.
Open Scope Q_scope.

(* ---------- the layer's clip bounds ---------- *)
Lemma layer_bounds_length c n : length (layer_bounds c n) = n.
Proof. unfold layer_bounds. rewrite map_length, seq_length. reflexivity. Qed.
Lemma layer_bounds_nth c n i : (i < n)%nat ->
  nth i (layer_bounds c n) nob = (nth i (lc_min c) None, nth i (lc_max c) None).
Proof. intros H. unfold layer_bounds.
  exact (nth_map_seq (fun i => (nth i (lc_min c) None, nth i (lc_max c) None)) n i nob H). Qed.

Lemma proj_length rt c n w r : lin_valid c n -> length w = n -> lin_project_col rt c w = Some r -> length r = n.
Proof. intros V L E. destruct (lin_defined rt c n w V L) as [r' [E' L']]. congruence. Qed.

(* ---------- effect of moving one input ---------- *)
Lemma lin_unit_set_diff k b bs x i v v' : (i < length k)%nat -> (i < length bs)%nat -> (i < length x)%nat ->
  lin_unit k b bs (set_nth i v' x) - lin_unit k b bs (set_nth i v x) ==
  nth i k 0 * (clip_opt (fst (nth i bs nob)) (snd (nth i bs nob)) v'
               - clip_opt (fst (nth i bs nob)) (snd (nth i bs nob)) v).
Proof. intros Hk Hb Hx. unfold lin_unit.
  pose proof (lin_sum_set k bs x i v' Hk Hb Hx). pose proof (lin_sum_set k bs x i v Hk Hb Hx). lra. Qed.

Lemma lin_unit_set_diff0 k b bs x i v' : (i < length k)%nat -> (i < length bs)%nat -> (i < length x)%nat ->
  lin_unit k b bs (set_nth i v' x) - lin_unit k b bs x ==
  nth i k 0 * (clip_opt (fst (nth i bs nob)) (snd (nth i bs nob)) v'
               - clip_opt (fst (nth i bs nob)) (snd (nth i bs nob)) (nth i x 0)).
Proof. intros Hk Hb Hx. unfold lin_unit. pose proof (lin_sum_set k bs x i v' Hk Hb Hx). lra. Qed.

Lemma clip_opt_step lo hi v d : 0 <= d -> clip_opt lo hi (v + d) - clip_opt lo hi v <= d.
Proof. intros H. unfold clip_opt, clip_lo, clip_hi. destruct lo, hi; qcases; lra. Qed.
Lemma clip_opt_at_hi l h : l <= h -> clip_opt (Some l) (Some h) h == h.
Proof. intros H. unfold clip_opt, clip_lo, clip_hi. qcases; lra. Qed.
Lemma clip_opt_at_lo l h : l <= h -> clip_opt (Some l) (Some h) l == l.
Proof. intros H. unfold clip_opt, clip_lo, clip_hi. qcases; lra. Qed.

(* ================= (1) monotone ================= *)
(* y is at or above x in every increasing input, at or below in every
   decreasing input, and equal in every unconstrained input *)
Definition dir_le (c : lin_cfg) (x y : list Q) : Prop := forall i,
  (mono c i = 1%Z -> nth i x 0 <= nth i y 0) /\ (mono c i = (-1)%Z -> nth i y 0 <= nth i x 0) /\
  (mono c i = 0%Z -> nth i x 0 == nth i y 0).

Lemma coords_ok_nth : forall ms k x y, length k = length ms -> length x = length ms -> length y = length ms ->
  (forall i, (i < length ms)%nat -> coord_ok (nth i ms 0%Z) (nth i k 0) (nth i x 0) (nth i y 0)) -> coords_ok ms k x y.
Proof. induction ms as [|m ms IH]; intros [|kq k] [|xq x] [|yq y] Lk Lx Ly H; cbn in *; try lia; auto.
  split. apply (H 0%nat); lia. apply IH; try lia. intros i Hi. apply (H (S i)). lia. Qed.

Theorem projected_monotone rt c n w r b x y :
  lin_valid c n -> length w = n -> lin_project_col rt c w = Some r ->
  length x = n -> length y = n -> dir_le c x y ->
  lin_unit r b (layer_bounds c n) x <= lin_unit r b (layer_bounds c n) y.
Proof. intros V L E Lx Ly D. pose proof (proj_length rt c n w r V L E) as Lr.
  pose proof (lin_signs rt c n w r V L E) as S. pose proof (lv_monos_len c n V) as Lm.
  apply (lin_unit_monotone (lc_monos c)); try congruence.
  apply coords_ok_nth; try congruence. intros i Hi. unfold coord_ok.
  destruct (S i) as [S1 S2]. destruct (D i) as [D1 [D2 D3]]. unfold mono in *.
  destruct (Z.eqb_spec (nth i (lc_monos c) 0%Z) 1) as [e|ne]; [split; auto|].
  destruct (Z.eqb_spec (nth i (lc_monos c) 0%Z) (-1)) as [e'|ne']; [split; auto|].
  apply D3. destruct (lv_monos_val c n V i) as [A|[A|A]]; unfold mono in A; congruence. Qed.

(* one constrained input moved, all others fixed: EVERY pair of values v <= v' *)
Theorem projected_monotone_coordinate rt c n w r b x i v v' :
  lin_valid c n -> length w = n -> lin_project_col rt c w = Some r -> length x = n -> (i < n)%nat -> v <= v' ->
  (mono c i = 1%Z -> lin_unit r b (layer_bounds c n) (set_nth i v x) <= lin_unit r b (layer_bounds c n) (set_nth i v' x)) /\
  (mono c i = (-1)%Z -> lin_unit r b (layer_bounds c n) (set_nth i v' x) <= lin_unit r b (layer_bounds c n) (set_nth i v x)).
Proof. intros V L E Lx Hi Hv. pose proof (proj_length rt c n w r V L E) as Lr.
  pose proof (lin_unit_set_diff r b (layer_bounds c n) x i v v') as H.
  rewrite Lr, layer_bounds_length, Lx in H. specialize (H Hi Hi Hi).
  set (lo := fst (nth i (layer_bounds c n) nob)) in *. set (hi := snd (nth i (layer_bounds c n) nob)) in *.
  pose proof (clip_opt_mono lo hi v v' Hv) as Hc. destruct (lin_signs rt c n w r V L E i) as [S1 S2]. unfold mono.
  split; intros Hm.
  - specialize (S1 Hm). pose proof (qmul_nonneg (nth i r 0) (clip_opt lo hi v' - clip_opt lo hi v) S1 ltac:(lra)). lra.
  - specialize (S2 Hm). pose proof (qmul_nonneg (- nth i r 0) (clip_opt lo hi v' - clip_opt lo hi v) ltac:(lra) ltac:(lra)). lra. Qed.

(* ================= (2) monotonic dominance ================= *)
(* "v is not clipped by the bound pair b" *)
Definition unclipped (b : bound) (v : Q) : Prop := clip_opt (fst b) (snd b) v == v.

(* moving the weak input by d >= 0 changes the output at most as much as
   moving the dominant input by d, wherever the dominant input is not clipped
   (the weak input may be clipped or not) *)
Theorem projected_mdom_effect rt c n w r b x dom weak d :
  lin_valid c n -> length w = n -> lin_project_col rt c w = Some r -> length x = n ->
  In (dom, weak) (lc_mdom c) -> 0 <= d ->
  unclipped (nth dom (layer_bounds c n) nob) (nth dom x 0) ->
  unclipped (nth dom (layer_bounds c n) nob) (nth dom x 0 + d) ->
  lin_unit r b (layer_bounds c n) (set_nth weak (nth weak x 0 + d) x) - lin_unit r b (layer_bounds c n) x <=
  lin_unit r b (layer_bounds c n) (set_nth dom (nth dom x 0 + d) x) - lin_unit r b (layer_bounds c n) x.
Proof. intros V L E Lx Hin Hd U1 U2. pose proof (proj_length rt c n w r V L E) as Lr.
  destruct (lv_mdom c n V dom weak Hin) as [Hdn [Hwn [Md Mw]]].
  pose proof (lin_unit_set_diff0 r b (layer_bounds c n) x dom (nth dom x 0 + d)) as H1.
  pose proof (lin_unit_set_diff0 r b (layer_bounds c n) x weak (nth weak x 0 + d)) as H2.
  rewrite Lr, layer_bounds_length, Lx in H1, H2. specialize (H1 Hdn Hdn Hdn). specialize (H2 Hwn Hwn Hwn).
  unfold unclipped in U1, U2. rewrite U1, U2 in H1. rewrite H1, H2.
  set (lo := fst (nth weak (layer_bounds c n) nob)). set (hi := snd (nth weak (layer_bounds c n) nob)).
  pose proof (clip_opt_step lo hi (nth weak x 0) d Hd) as Hs.
  pose proof (clip_opt_mono lo hi (nth weak x 0) (nth weak x 0 + d) ltac:(lra)) as Hm.
  destruct (lin_signs rt c n w r V L E weak) as [Sw _]. unfold mono in Mw. specialize (Sw Mw).
  pose proof (lin_mdom rt c n w r V L E dom weak Hin) as Hle.
  pose proof (qmul_le_l (nth weak r 0) _ _ Sw Hs). pose proof (qmul_le_r (nth weak r 0) (nth dom r 0) d Hd Hle). lra. Qed.

(* ================= (3) range dominance ================= *)
Lemma sweep_effect k b bs x i l h : (i < length k)%nat -> (i < length bs)%nat -> (i < length x)%nat ->
  nth i bs nob = (Some l, Some h) -> l <= h ->
  lin_unit k b bs (set_nth i h x) - lin_unit k b bs (set_nth i l x) == nth i k 0 * (h - l).
Proof. intros Hk Hb Hx Eb Hlh. rewrite (lin_unit_set_diff k b bs x i l h Hk Hb Hx). rewrite Eb. cbn [fst snd].
  rewrite clip_opt_at_hi, clip_opt_at_lo by exact Hlh. reflexivity. Qed.

(* sweeping the dominant input across its whole range [ld, hd] changes the
   output at least as much as sweeping the weak input across [lw, hw], from
   every base point x; the ranges are the layer's own input_min/input_max *)
Theorem projected_rdom_effect rt c n w r b x dom weak :
  lin_valid c n -> length w = n -> lin_project_col rt c w = Some r -> length x = n ->
  In (dom, weak) (lc_rdom c) ->
  exists ld hd lw hw,
    nth dom (layer_bounds c n) nob = (Some ld, Some hd) /\ nth weak (layer_bounds c n) nob = (Some lw, Some hw) /\
    ld < hd /\ lw < hw /\
    (mono c dom = 1%Z ->
       lin_unit r b (layer_bounds c n) (set_nth weak hw x) - lin_unit r b (layer_bounds c n) (set_nth weak lw x) <=
       lin_unit r b (layer_bounds c n) (set_nth dom hd x) - lin_unit r b (layer_bounds c n) (set_nth dom ld x)) /\
    (mono c dom = (-1)%Z ->
       lin_unit r b (layer_bounds c n) (set_nth weak lw x) - lin_unit r b (layer_bounds c n) (set_nth weak hw x) <=
       lin_unit r b (layer_bounds c n) (set_nth dom ld x) - lin_unit r b (layer_bounds c n) (set_nth dom hd x)) /\
    qabs (lin_unit r b (layer_bounds c n) (set_nth weak hw x) - lin_unit r b (layer_bounds c n) (set_nth weak lw x)) <=
    qabs (lin_unit r b (layer_bounds c n) (set_nth dom hd x) - lin_unit r b (layer_bounds c n) (set_nth dom ld x)).
Proof. intros V L E Lx Hin. pose proof (proj_length rt c n w r V L E) as Lr.
  destruct (lin_rdom_explicit rt c n w r V L E dom weak Hin) as [ld [hd [lw [hw [A1 [A2 [A3 [B1 [B2 [B3 [Hinc Hdec]]]]]]]]]]].
  destruct (lv_rdom c n V dom weak Hin) as [Hdn [Hwn [Mdw [Mnz _]]]].
  exists ld, hd, lw, hw.
  assert (Ed : nth dom (layer_bounds c n) nob = (Some ld, Some hd)) by (rewrite layer_bounds_nth by exact Hdn; congruence).
  assert (Ew : nth weak (layer_bounds c n) nob = (Some lw, Some hw)) by (rewrite layer_bounds_nth by exact Hwn; congruence).
  split; [exact Ed|]. split; [exact Ew|]. split; [exact A3|]. split; [exact B3|].
  pose proof (sweep_effect r b (layer_bounds c n) x dom ld hd) as Sd.
  pose proof (sweep_effect r b (layer_bounds c n) x weak lw hw) as Sw.
  rewrite Lr, layer_bounds_length, Lx in Sd, Sw.
  specialize (Sd Hdn Hdn Hdn Ed ltac:(lra)). specialize (Sw Hwn Hwn Hwn Ew ltac:(lra)).
  set (fd := lin_unit r b (layer_bounds c n) (set_nth dom hd x) - lin_unit r b (layer_bounds c n) (set_nth dom ld x)) in *.
  set (fw := lin_unit r b (layer_bounds c n) (set_nth weak hw x) - lin_unit r b (layer_bounds c n) (set_nth weak lw x)) in *.
  unfold mono in *.
  destruct (lin_signs rt c n w r V L E dom) as [Sd1 Sd2]. destruct (lin_signs rt c n w r V L E weak) as [Sw1 Sw2].
  assert (I : nth dom (lc_monos c) 0%Z = 1%Z -> fw <= fd /\ 0 <= fw /\ 0 <= fd).
  { intros Hm. specialize (Hinc Hm). specialize (Sd1 Hm). rewrite Mdw in Hm. specialize (Sw1 Hm).
    pose proof (qmul_nonneg _ (hd - ld) Sd1 ltac:(lra)). pose proof (qmul_nonneg _ (hw - lw) Sw1 ltac:(lra)).
    repeat split; lra. }
  assert (D : nth dom (lc_monos c) 0%Z = (-1)%Z -> - fw <= - fd /\ fw <= 0 /\ fd <= 0).
  { intros Hm. specialize (Hdec Hm). specialize (Sd2 Hm). rewrite Mdw in Hm. specialize (Sw2 Hm).
    pose proof (qmul_nonneg (- nth dom r 0) (hd - ld) ltac:(lra) ltac:(lra)).
    pose proof (qmul_nonneg (- nth weak r 0) (hw - lw) ltac:(lra) ltac:(lra)).
    repeat split; lra. }
  split; [intros Hm; destruct (I Hm); lra|]. split; [intros Hm; destruct (D Hm) as [? _]; unfold fw, fd in *; lra|].
  destruct (lv_monos_val c n V dom) as [M|[M|M]]; unfold mono in M.
  - exfalso. apply Mnz. exact M.
  - destruct (I M) as [? [? ?]]. qcases; lra.
  - destruct (D M) as [? [? ?]]. qcases; lra. Qed.

(* ================= (4) weighted average ================= *)
Definition all_increasing (c : lin_cfg) (n : nat) : Prop := forall i, (i < n)%nat -> mono c i = 1%Z.

Lemma qsum_abs_nonneg l : (forall q, In q l -> 0 <= q) -> qsum (map qabs l) == qsum l.
Proof. induction l as [|q l IH]; intros H; cbn [map qsum]. reflexivity.
  rewrite IH by (intros; apply H; right; assumption). pose proof (H q (or_introl eq_refl)). qcases; lra. Qed.

Lemma all_increasing_nonneg rt c n w r : lin_valid c n -> length w = n -> lin_project_col rt c w = Some r ->
  all_increasing c n -> forall q, In q r -> 0 <= q.
Proof. intros V L E A q Hq. pose proof (proj_length rt c n w r V L E) as Lr.
  destruct (In_nth r q 0 Hq) as [i [Hi <-]]. rewrite Lr in Hi.
  destruct (lin_signs rt c n w r V L E i) as [S _]. apply S. apply (A i Hi). Qed.

(* the guard: the un-normalized projection w3 of the column has L1 norm of at
   least _NORMALIZATION_EPS (then tf.where keeps the norm and the division
   makes the weights sum to one) *)
Theorem projected_weighted_average rt c n w w3 r b x lo hi :
  lin_valid c n -> length w = n -> lc_norm c = 1%nat -> all_increasing c n ->
  lin_project_col rt c w = Some r -> lin_project_col rt (with_norm c 0) w = Some w3 ->
  norm_eps <= qsum (map qabs w3) -> length x = n ->
  (forall v, In v (clipped (layer_bounds c n) x) -> lo <= v /\ v <= hi) ->
  (forall q, In q r -> 0 <= q) /\ qsum r == 1 /\
  lo <= lin_unit r b (layer_bounds c n) x - b /\ lin_unit r b (layer_bounds c n) x - b <= hi.
Proof. intros V L N A E E3 G Lx Hc. pose proof (proj_length rt c n w r V L E) as Lr.
  pose proof (all_increasing_nonneg rt c n w r V L E A) as Hnn.
  destruct (lin_norm1 rt c n w r V L N E) as [w3' [E3' Hor]]. rewrite E3 in E3'. inversion E3'; subst w3'.
  assert (S1 : qsum r == 1).
  { rewrite <- (qsum_abs_nonneg r Hnn). destruct Hor as [H|[H _]]; [exact H|lra]. }
  split; [exact Hnn|]. split; [exact S1|].
  destruct (lin_weighted_average r (layer_bounds c n) x lo hi) as [P Q]; try assumption.
  - rewrite layer_bounds_length; congruence.
  - congruence.
  - unfold lin_unit in *. lra. Qed.

(* below the guard the constraint returns the (numerically zero) column as it
   is: the weights still are >= 0 but sum to s < eps, and the output minus the
   bias is only between lo * s and hi * s (for s = 0: the output IS the bias) *)
Theorem projected_weighted_average_degenerate rt c n w w3 r b x lo hi :
  lin_valid c n -> length w = n -> lc_norm c = 1%nat -> all_increasing c n ->
  lin_project_col rt c w = Some r -> lin_project_col rt (with_norm c 0) w = Some w3 ->
  qsum (map qabs w3) < norm_eps -> length x = n ->
  (forall v, In v (clipped (layer_bounds c n) x) -> lo <= v /\ v <= hi) ->
  peq r w3 /\ 0 <= qsum r /\ qsum r < norm_eps /\
  lo * qsum r <= lin_unit r b (layer_bounds c n) x - b /\ lin_unit r b (layer_bounds c n) x - b <= hi * qsum r.
Proof. intros V L N A E E3 G Lx Hc. pose proof (proj_length rt c n w r V L E) as Lr.
  pose proof (all_increasing_nonneg rt c n w r V L E A) as Hnn.
  destruct (lin_norm1 rt c n w r V L N E) as [w3' [E3' Hor]]. rewrite E3 in E3'. inversion E3'; subst w3'.
  assert (P : peq r w3).
  { destruct (lin_spec rt c n w r V L E) as [p [e [Ep [Er _]]]]. rewrite lin_pre_norm0 in E3.
    rewrite E3 in Ep. inversion Ep; subst p. rewrite N in Er. subst r. apply normalize_small. exact G. }
  split; [exact P|].
  assert (Sabs : qsum (map qabs r) == qsum (map qabs w3)).
  { apply qsum_map_peq; [|exact P]. intros a a' Ha. rewrite Ha. reflexivity. }
  rewrite (qsum_abs_nonneg r Hnn) in Sabs.
  split. { rewrite <- (qsum_abs_nonneg r Hnn). apply qsum_map_nonneg. intros q _. qcases; lra. }
  split; [lra|].
  destruct (lin_sum_bounds r (layer_bounds c n) x lo hi) as [Plo Phi]; try assumption.
  - rewrite layer_bounds_length; congruence.
  - congruence.
  - unfold lin_unit. split; lra. Qed.
