(* C20 closed over C06: the Linear layer evaluated with the weights that its own
   kernel constraint (linear_lib.project, Model/LinearProject.v) returns.  The
   weight conditions that Proofs/LinearEval.v takes as hypotheses are discharged
   here from the theorems of Proofs/LinearProject.v, for every kernel column and
   every valid configuration (lin_valid = what verify_hyperparameters checks,
   plus acyclic dominance graphs).  The bounds the layer clips by are the bounds
   of the same configuration (layer_bounds). *)
From TFL Require Import Model.LinearLayer Proofs.LinearEval Proofs.PartialOrder Proofs.TopoSort Proofs.LinearProject.
Open Scope Q_scope.

(* ---------- the layer's clip bounds ---------- *)
Lemma layer_bounds_length c n : length (layer_bounds c n) = n.
Proof. unfold layer_bounds. rewrite map_length, seq_length. reflexivity. Qed.
Lemma layer_bounds_nth c n i : (i < n)%nat ->
  nth i (layer_bounds c n) nob = (nth i (lc_min c) None, nth i (lc_max c) None).
Proof. intros H. unfold layer_bounds.
  exact (nth_map_seq (fun i => (nth i (lc_min c) None, nth i (lc_max c) None)) n i nob H). Qed.

Lemma proj_length rt c n w r : lin_valid c n -> length w = n -> lin_project_col rt c w = Some r -> length r = n.
Proof. intros V L E. destruct (lin_defined rt c n w V L) as [r' [E' L']]. congruence. Qed.

(* ---------- effect of moving one input ---------- *)
Lemma lin_unit_set_diff k b bs x i v v' : (i < length k)%nat -> (i < length bs)%nat -> (i < length x)%nat ->
  lin_unit k b bs (set_nth i v' x) - lin_unit k b bs (set_nth i v x) ==
  nth i k 0 * (clip_opt (fst (nth i bs nob)) (snd (nth i bs nob)) v'
               - clip_opt (fst (nth i bs nob)) (snd (nth i bs nob)) v).
Proof. intros Hk Hb Hx. unfold lin_unit.
  pose proof (lin_sum_set k bs x i v' Hk Hb Hx). pose proof (lin_sum_set k bs x i v Hk Hb Hx). lra. Qed.

Lemma lin_unit_set_diff0 k b bs x i v' : (i < length k)%nat -> (i < length bs)%nat -> (i < length x)%nat ->
  lin_unit k b bs (set_nth i v' x) - lin_unit k b bs x ==
  nth i k 0 * (clip_opt (fst (nth i bs nob)) (snd (nth i bs nob)) v'
               - clip_opt (fst (nth i bs nob)) (snd (nth i bs nob)) (nth i x 0)).
Proof. intros Hk Hb Hx. unfold lin_unit. pose proof (lin_sum_set k bs x i v' Hk Hb Hx). lra. Qed.

Lemma clip_opt_step lo hi v d : 0 <= d -> clip_opt lo hi (v + d) - clip_opt lo hi v <= d.
Proof. intros H. unfold clip_opt, clip_lo, clip_hi. destruct lo, hi; qcases; lra. Qed.
Lemma clip_opt_at_hi l h : l <= h -> clip_opt (Some l) (Some h) h == h.
Proof. intros H. unfold clip_opt, clip_lo, clip_hi. qcases; lra. Qed.
Lemma clip_opt_at_lo l h : l <= h -> clip_opt (Some l) (Some h) l == l.
Proof. intros H. unfold clip_opt, clip_lo, clip_hi. qcases; lra. Qed.

(* ================= (1) monotone ================= *)
(* y is at or above x in every increasing input, at or below in every
   decreasing input, and equal in every unconstrained input *)
Definition dir_le (c : lin_cfg) (x y : list Q) : Prop := forall i,
  (mono c i = 1%Z -> nth i x 0 <= nth i y 0) /\ (mono c i = (-1)%Z -> nth i y 0 <= nth i x 0) /\
  (mono c i = 0%Z -> nth i x 0 == nth i y 0).

Lemma coords_ok_nth : forall ms k x y, length k = length ms -> length x = length ms -> length y = length ms ->
  (forall i, (i < length ms)%nat -> coord_ok (nth i ms 0%Z) (nth i k 0) (nth i x 0) (nth i y 0)) -> coords_ok ms k x y.
Proof. induction ms as [|m ms IH]; intros [|kq k] [|xq x] [|yq y] Lk Lx Ly H; cbn in *; try lia; auto.
  split. apply (H 0%nat); lia. apply IH; try lia. intros i Hi. apply (H (S i)). lia. Qed.

Theorem projected_monotone rt c n w r b x y :
  lin_valid c n -> length w = n -> lin_project_col rt c w = Some r ->
  length x = n -> length y = n -> dir_le c x y ->
  lin_unit r b (layer_bounds c n) x <= lin_unit r b (layer_bounds c n) y.
Proof. intros V L E Lx Ly D. pose proof (proj_length rt c n w r V L E) as Lr.
  pose proof (lin_signs rt c n w r V L E) as S. pose proof (lv_monos_len c n V) as Lm.
  apply (lin_unit_monotone (lc_monos c)); try congruence.
  apply coords_ok_nth; try congruence. intros i Hi. unfold coord_ok.
  destruct (S i) as [S1 S2]. destruct (D i) as [D1 [D2 D3]]. unfold mono in *.
  destruct (Z.eqb_spec (nth i (lc_monos c) 0%Z) 1) as [e|ne]; [split; auto|].
  destruct (Z.eqb_spec (nth i (lc_monos c) 0%Z) (-1)) as [e'|ne']; [split; auto|].
  apply D3. destruct (lv_monos_val c n V i) as [A|[A|A]]; unfold mono in A; congruence. Qed.

(* one constrained input moved, all others fixed: EVERY pair of values v <= v' *)
Theorem projected_monotone_coordinate rt c n w r b x i v v' :
  lin_valid c n -> length w = n -> lin_project_col rt c w = Some r -> length x = n -> (i < n)%nat -> v <= v' ->
  (mono c i = 1%Z -> lin_unit r b (layer_bounds c n) (set_nth i v x) <= lin_unit r b (layer_bounds c n) (set_nth i v' x)) /\
  (mono c i = (-1)%Z -> lin_unit r b (layer_bounds c n) (set_nth i v' x) <= lin_unit r b (layer_bounds c n) (set_nth i v x)).
Proof. intros V L E Lx Hi Hv. pose proof (proj_length rt c n w r V L E) as Lr.
  pose proof (lin_unit_set_diff r b (layer_bounds c n) x i v v') as H.
  rewrite Lr, layer_bounds_length, Lx in H. specialize (H Hi Hi Hi).
  set (lo := fst (nth i (layer_bounds c n) nob)) in *. set (hi := snd (nth i (layer_bounds c n) nob)) in *.
  pose proof (clip_opt_mono lo hi v v' Hv) as Hc. destruct (lin_signs rt c n w r V L E i) as [S1 S2]. unfold mono.
  split; intros Hm.
  - specialize (S1 Hm). pose proof (qmul_nonneg (nth i r 0) (clip_opt lo hi v' - clip_opt lo hi v) S1 ltac:(lra)). lra.
  - specialize (S2 Hm). pose proof (qmul_nonneg (- nth i r 0) (clip_opt lo hi v' - clip_opt lo hi v) ltac:(lra) ltac:(lra)). lra. Qed.

(* ================= (2) monotonic dominance ================= *)
(* "v is not clipped by the bound pair b" *)
Definition unclipped (b : bound) (v : Q) : Prop := clip_opt (fst b) (snd b) v == v.

(* moving the weak input by d >= 0 changes the output at most as much as
   moving the dominant input by d, wherever the dominant input is not clipped
   (the weak input may be clipped or not) *)
Theorem projected_mdom_effect rt c n w r b x dom weak d :
  lin_valid c n -> length w = n -> lin_project_col rt c w = Some r -> length x = n ->
  In (dom, weak) (lc_mdom c) -> 0 <= d ->
  unclipped (nth dom (layer_bounds c n) nob) (nth dom x 0) ->
  unclipped (nth dom (layer_bounds c n) nob) (nth dom x 0 + d) ->
  lin_unit r b (layer_bounds c n) (set_nth weak (nth weak x 0 + d) x) - lin_unit r b (layer_bounds c n) x <=
  lin_unit r b (layer_bounds c n) (set_nth dom (nth dom x 0 + d) x) - lin_unit r b (layer_bounds c n) x.
Proof. intros V L E Lx Hin Hd U1 U2. pose proof (proj_length rt c n w r V L E) as Lr.
  destruct (lv_mdom c n V dom weak Hin) as [Hdn [Hwn [Md Mw]]].
  pose proof (lin_unit_set_diff0 r b (layer_bounds c n) x dom (nth dom x 0 + d)) as H1.
  pose proof (lin_unit_set_diff0 r b (layer_bounds c n) x weak (nth weak x 0 + d)) as H2.
  rewrite Lr, layer_bounds_length, Lx in H1, H2. specialize (H1 Hdn Hdn Hdn). specialize (H2 Hwn Hwn Hwn).
  unfold unclipped in U1, U2. rewrite U1, U2 in H1. rewrite H1, H2.
  set (lo := fst (nth weak (layer_bounds c n) nob)). set (hi := snd (nth weak (layer_bounds c n) nob)).
  pose proof (clip_opt_step lo hi (nth weak x 0) d Hd) as Hs.
  pose proof (clip_opt_mono lo hi (nth weak x 0) (nth weak x 0 + d) ltac:(lra)) as Hm.
  destruct (lin_signs rt c n w r V L E weak) as [Sw _]. unfold mono in Mw. specialize (Sw Mw).
  pose proof (lin_mdom rt c n w r V L E dom weak Hin) as Hle.
  pose proof (qmul_le_l (nth weak r 0) _ _ Sw Hs). pose proof (qmul_le_r (nth weak r 0) (nth dom r 0) d Hd Hle). lra. Qed.

(* ================= (3) range dominance ================= *)
Lemma sweep_effect k b bs x i l h : (i < length k)%nat -> (i < length bs)%nat -> (i < length x)%nat ->
  nth i bs nob = (Some l, Some h) -> l <= h ->
  lin_unit k b bs (set_nth i h x) - lin_unit k b bs (set_nth i l x) == nth i k 0 * (h - l).
Proof. intros Hk Hb Hx Eb Hlh. rewrite (lin_unit_set_diff k b bs x i l h Hk Hb Hx). rewrite Eb. cbn [fst snd].
  rewrite clip_opt_at_hi, clip_opt_at_lo by exact Hlh. reflexivity. Qed.

(* sweeping the dominant input across its whole range [ld, hd] changes the
   output at least as much as sweeping the weak input across [lw, hw], from
   every base point x; the ranges are the layer's own input_min/input_max *)
Theorem projected_rdom_effect rt c n w r b x dom weak :
  lin_valid c n -> length w = n -> lin_project_col rt c w = Some r -> length x = n ->
  In (dom, weak) (lc_rdom c) ->
  exists ld hd lw hw,
    nth dom (layer_bounds c n) nob = (Some ld, Some hd) /\ nth weak (layer_bounds c n) nob = (Some lw, Some hw) /\
    ld < hd /\ lw < hw /\
    (mono c dom = 1%Z ->
       lin_unit r b (layer_bounds c n) (set_nth weak hw x) - lin_unit r b (layer_bounds c n) (set_nth weak lw x) <=
       lin_unit r b (layer_bounds c n) (set_nth dom hd x) - lin_unit r b (layer_bounds c n) (set_nth dom ld x)) /\
    (mono c dom = (-1)%Z ->
       lin_unit r b (layer_bounds c n) (set_nth weak lw x) - lin_unit r b (layer_bounds c n) (set_nth weak hw x) <=
       lin_unit r b (layer_bounds c n) (set_nth dom ld x) - lin_unit r b (layer_bounds c n) (set_nth dom hd x)) /\
    qabs (lin_unit r b (layer_bounds c n) (set_nth weak hw x) - lin_unit r b (layer_bounds c n) (set_nth weak lw x)) <=
    qabs (lin_unit r b (layer_bounds c n) (set_nth dom hd x) - lin_unit r b (layer_bounds c n) (set_nth dom ld x)).
Proof. intros V L E Lx Hin. pose proof (proj_length rt c n w r V L E) as Lr.
  destruct (lin_rdom_explicit rt c n w r V L E dom weak Hin) as [ld [hd [lw [hw [A1 [A2 [A3 [B1 [B2 [B3 [Hinc Hdec]]]]]]]]]]].
  destruct (lv_rdom c n V dom weak Hin) as [Hdn [Hwn [Mdw [Mnz _]]]].
  exists ld, hd, lw, hw.
  assert (Ed : nth dom (layer_bounds c n) nob = (Some ld, Some hd)) by (rewrite layer_bounds_nth by exact Hdn; congruence).
  assert (Ew : nth weak (layer_bounds c n) nob = (Some lw, Some hw)) by (rewrite layer_bounds_nth by exact Hwn; congruence).
  split; [exact Ed|]. split; [exact Ew|]. split; [exact A3|]. split; [exact B3|].
  pose proof (sweep_effect r b (layer_bounds c n) x dom ld hd) as Sd.
  pose proof (sweep_effect r b (layer_bounds c n) x weak lw hw) as Sw.
  rewrite Lr, layer_bounds_length, Lx in Sd, Sw.
  specialize (Sd Hdn Hdn Hdn Ed ltac:(lra)). specialize (Sw Hwn Hwn Hwn Ew ltac:(lra)).
  set (fd := lin_unit r b (layer_bounds c n) (set_nth dom hd x) - lin_unit r b (layer_bounds c n) (set_nth dom ld x)) in *.
  set (fw := lin_unit r b (layer_bounds c n) (set_nth weak hw x) - lin_unit r b (layer_bounds c n) (set_nth weak lw x)) in *.
  unfold mono in *.
  destruct (lin_signs rt c n w r V L E dom) as [Sd1 Sd2]. destruct (lin_signs rt c n w r V L E weak) as [Sw1 Sw2].
  assert (I : nth dom (lc_monos c) 0%Z = 1%Z -> fw <= fd /\ 0 <= fw /\ 0 <= fd).
  { intros Hm. specialize (Hinc Hm). specialize (Sd1 Hm). rewrite Mdw in Hm. specialize (Sw1 Hm).
    pose proof (qmul_nonneg _ (hd - ld) Sd1 ltac:(lra)). pose proof (qmul_nonneg _ (hw - lw) Sw1 ltac:(lra)).
    repeat split; lra. }
  assert (D : nth dom (lc_monos c) 0%Z = (-1)%Z -> - fw <= - fd /\ fw <= 0 /\ fd <= 0).
  { intros Hm. specialize (Hdec Hm). specialize (Sd2 Hm). rewrite Mdw in Hm. specialize (Sw2 Hm).
    pose proof (qmul_nonneg (- nth dom r 0) (hd - ld) ltac:(lra) ltac:(lra)).
    pose proof (qmul_nonneg (- nth weak r 0) (hw - lw) ltac:(lra) ltac:(lra)).
    repeat split; lra. }
  split; [intros Hm; destruct (I Hm); lra|]. split; [intros Hm; destruct (D Hm) as [? _]; unfold fw, fd in *; lra|].
  destruct (lv_monos_val c n V dom) as [M|[M|M]]; unfold mono in M.
  - exfalso. apply Mnz. exact M.
  - destruct (I M) as [? [? ?]]. qcases; lra.
  - destruct (D M) as [? [? ?]]. qcases; lra. Qed.

(* ================= (4) weighted average ================= *)
Definition all_increasing (c : lin_cfg) (n : nat) : Prop := forall i, (i < n)%nat -> mono c i = 1%Z.

Lemma qsum_abs_nonneg l : (forall q, In q l -> 0 <= q) -> qsum (map qabs l) == qsum l.
Proof. induction l as [|q l IH]; intros H; cbn [map qsum]. reflexivity.
  rewrite IH by (intros; apply H; right; assumption). pose proof (H q (or_introl eq_refl)). qcases; lra. Qed.

Lemma all_increasing_nonneg rt c n w r : lin_valid c n -> length w = n -> lin_project_col rt c w = Some r ->
  all_increasing c n -> forall q, In q r -> 0 <= q.
Proof. intros V L E A q Hq. pose proof (proj_length rt c n w r V L E) as Lr.
  destruct (In_nth r q 0 Hq) as [i [Hi <-]]. rewrite Lr in Hi.
  destruct (lin_signs rt c n w r V L E i) as [S _]. apply S. apply (A i Hi). Qed.

(* the guard: the un-normalized projection w3 of the column has L1 norm of at
   least _NORMALIZATION_EPS (then tf.where keeps the norm and the division
   makes the weights sum to one) *)
Theorem projected_weighted_average rt c n w w3 r b x lo hi :
  lin_valid c n -> length w = n -> lc_norm c = 1%nat -> all_increasing c n ->
  lin_project_col rt c w = Some r -> lin_project_col rt (with_norm c 0) w = Some w3 ->
  norm_eps <= qsum (map qabs w3) -> length x = n ->
  (forall v, In v (clipped (layer_bounds c n) x) -> lo <= v /\ v <= hi) ->
  (forall q, In q r -> 0 <= q) /\ qsum r == 1 /\
  lo <= lin_unit r b (layer_bounds c n) x - b /\ lin_unit r b (layer_bounds c n) x - b <= hi.
Proof. intros V L N A E E3 G Lx Hc. pose proof (proj_length rt c n w r V L E) as Lr.
  pose proof (all_increasing_nonneg rt c n w r V L E A) as Hnn.
  destruct (lin_norm1 rt c n w r V L N E) as [w3' [E3' Hor]]. rewrite E3 in E3'. inversion E3'; subst w3'.
  assert (S1 : qsum r == 1).
  { rewrite <- (qsum_abs_nonneg r Hnn). destruct Hor as [H|[H _]]; [exact H|lra]. }
  split; [exact Hnn|]. split; [exact S1|].
  destruct (lin_weighted_average r (layer_bounds c n) x lo hi) as [P Q]; try assumption.
  - rewrite layer_bounds_length; congruence.
  - congruence.
  - unfold lin_unit in *. lra. Qed.

(* below the guard the constraint returns the (numerically zero) column as it
   is: the weights still are >= 0 but sum to s < eps, and the output minus the
   bias is only between lo * s and hi * s (for s = 0: the output IS the bias) *)
Theorem projected_weighted_average_degenerate rt c n w w3 r b x lo hi :
  lin_valid c n -> length w = n -> lc_norm c = 1%nat -> all_increasing c n ->
  lin_project_col rt c w = Some r -> lin_project_col rt (with_norm c 0) w = Some w3 ->
  qsum (map qabs w3) < norm_eps -> length x = n ->
  (forall v, In v (clipped (layer_bounds c n) x) -> lo <= v /\ v <= hi) ->
  peq r w3 /\ 0 <= qsum r /\ qsum r < norm_eps /\
  lo * qsum r <= lin_unit r b (layer_bounds c n) x - b /\ lin_unit r b (layer_bounds c n) x - b <= hi * qsum r.
Proof. intros V L N A E E3 G Lx Hc. pose proof (proj_length rt c n w r V L E) as Lr.
  pose proof (all_increasing_nonneg rt c n w r V L E A) as Hnn.
  destruct (lin_norm1 rt c n w r V L N E) as [w3' [E3' Hor]]. rewrite E3 in E3'. inversion E3'; subst w3'.
  assert (P : peq r w3).
  { destruct (lin_spec rt c n w r V L E) as [p [e [Ep [Er _]]]]. rewrite lin_pre_norm0 in E3.
    rewrite E3 in Ep. inversion Ep; subst p. rewrite N in Er. subst r. apply normalize_small. exact G. }
  split; [exact P|].
  assert (Sabs : qsum (map qabs r) == qsum (map qabs w3)).
  { apply qsum_map_peq; [|exact P]. intros a a' Ha. rewrite Ha. reflexivity. }
  rewrite (qsum_abs_nonneg r Hnn) in Sabs.
  split. { rewrite <- (qsum_abs_nonneg r Hnn). apply qsum_map_nonneg. intros q _. qcases; lra. }
  split; [lra|].
  destruct (lin_sum_bounds r (layer_bounds c n) x lo hi) as [Plo Phi]; try assumption.
  - rewrite layer_bounds_length; congruence.
  - congruence.
  - unfold lin_unit. split; lra. Qed.

(* a guard on the RAW weights for configurations without dominances: one
   weight of at least eps is enough (the sign clip keeps it) *)
Lemma qsum_abs_ge_nth l i : (i < length l)%nat -> qabs (nth i l 0) <= qsum (map qabs l).
Proof. revert i. induction l as [|q l IH]; intros [|i] H; cbn in H; try lia; cbn [map qsum nth].
  - assert (0 <= qsum (map qabs l)) by (apply qsum_map_nonneg; intros; qcases; lra). lra.
  - pose proof (IH i ltac:(lia)). assert (0 <= qabs q) by (qcases; lra). lra. Qed.

Theorem projected_weighted_average_plain rt c n w r b x lo hi i :
  lin_valid c n -> length w = n -> lc_norm c = 1%nat -> all_increasing c n ->
  lc_mdom c = [] -> lc_rdom c = [] -> (i < n)%nat -> norm_eps <= nth i w 0 ->
  lin_project_col rt c w = Some r -> length x = n ->
  (forall v, In v (clipped (layer_bounds c n) x) -> lo <= v /\ v <= hi) ->
  (forall q, In q r -> 0 <= q) /\ qsum r == 1 /\
  lo <= lin_unit r b (layer_bounds c n) x - b /\ lin_unit r b (layer_bounds c n) x - b <= hi.
Proof. intros V L N A Em Er Hi Hw E Lx Hc.
  assert (E3 : lin_project_col rt (with_norm c 0) w = Some (sign_clip (lc_monos c) w)).
  { rewrite lin_pre_norm0. unfold lin_pre, stage_po, stage_range. rewrite Em, Er. reflexivity. }
  apply (projected_weighted_average rt c n w (sign_clip (lc_monos c) w) r b x lo hi); try assumption.
  pose proof (lv_monos_len c n V) as Lm.
  pose proof (qsum_abs_ge_nth (sign_clip (lc_monos c) w) i) as H. rewrite sign_clip_length in H.
  specialize (H ltac:(lia)). rewrite sign_clip_nth in H by lia.
  pose proof (A i Hi) as Mi. unfold mono in Mi. rewrite Mi in H. unfold sclip in H. cbn [Z.eqb Pos.eqb] in H.
  unfold norm_eps in *. revert H. qcases; intros; lra. Qed.

(* ---------- the zero column (known finding D32): without the guard the
   statement is false.  All-increasing layer, normalization order 1, raw weights
   all negative (one hostile gradient step): the sign clip gives the zero
   column, the normalization leaves it as it is, the output is 0 for the input
   (1, 2), which is not between 1 and 2. ---------- *)
Definition zero_cfg : lin_cfg := mkLin [1; 1]%Z [] [] [] [] 1.
Lemma zero_cfg_valid : lin_valid zero_cfg 2.
Proof. constructor; cbn; try reflexivity; try congruence.
  - intros i. unfold mono. cbn. destruct i as [|[|[|i]]]; auto.
  - intros d k [].
  - intros d k [].
  - intros i [x [[]|[]]].
  - apply (acyclic_rank _ (fun x => x)). intros a b [].
  - apply (acyclic_rank _ (fun x => x)). intros a b []. Qed.
Lemma zero_cfg_increasing : all_increasing zero_cfg 2.
Proof. intros i Hi. unfold mono. cbn. destruct i as [|[|i]]; [reflexivity|reflexivity|lia]. Qed.

Theorem weighted_average_zero_refuted :
  exists rt c n w r x lo hi,
    lin_valid c n /\ length w = n /\ lc_norm c = 1%nat /\ all_increasing c n /\
    lin_project_col rt c w = Some r /\ length x = n /\
    (forall v, In v (clipped (layer_bounds c n) x) -> lo <= v /\ v <= hi) /\
    ~ (lo <= lin_unit r 0 (layer_bounds c n) x).
Proof. exists qsqrt, zero_cfg, 2%nat, [-(1); -(2)], [0; 0], [1; 2], 1, 2.
  split; [exact zero_cfg_valid|]. split; [reflexivity|]. split; [reflexivity|]. split; [exact zero_cfg_increasing|].
  split; [vm_compute; reflexivity|]. split; [reflexivity|]. split.
  - intros v H. cbn in H. destruct H as [<-|[<-|[]]]; vm_compute; split; discriminate.
  - vm_compute. intros H. apply H. reflexivity. Qed.

(* ================= (5) input forms, bias ================= *)
Lemma dot_clip_lin_sum : forall k bs x, dot (clip_row bs x) k == lin_sum k bs x.
Proof. unfold dot, clip_row. induction k as [|kq k IH]; intros [|[lo hi] bs] [|xq x]; cbn [map2 qsum lin_sum fst snd]; try reflexivity.
  rewrite IH. lra. Qed.

Definition bias_of (bias : option (list Q)) (u : nat) : Q := match bias with Some b => nth u b 0 | None => 0 end.
Definition row_of (inp : lin_input) (u : nat) : list Q := match inp with In1 x => x | InN xs => nth u xs [] end.

(* Linear.call, both branches: whenever it is defined, the result has one
   entry per unit and entry u is the clipped affine function of column u *)
Theorem linear_call_spec units K bias bs inp out : linear_call units K bias bs inp = Some out ->
  length out = units /\
  forall u, (u < units)%nat -> nth u out 0 == lin_unit (column u K) (bias_of bias u) bs (row_of inp u).
Proof. unfold linear_call. destruct inp as [x|xs]; destruct (Nat.eqb_spec units 1) as [->|Hne]; intros E; inversion E; subst out; clear E.
  - split; [reflexivity|]. intros u Hu. assert (u = 0%nat) by lia. subst u. cbn [nth row_of]. unfold lin_unit.
    rewrite <- dot_clip_lin_sum. destruct bias; cbn [bias_of]; lra.
  - split; [rewrite map_length, seq_length; reflexivity|]. intros u Hu.
    rewrite (nth_map_seq (fun u => match bias with Some b => dot (clip_row bs (nth u xs [])) (nth u (transpose units K) []) + nth u b 0
                                   | None => dot (clip_row bs (nth u xs [])) (nth u (transpose units K) []) end) units u 0 Hu).
    unfold transpose. rewrite (nth_map_seq (fun u => column u K) units u [] Hu). cbn [row_of]. unfold lin_unit.
    rewrite <- dot_clip_lin_sum. destruct bias; cbn [bias_of]; lra. Qed.

Lemma linear_call_defined units K bias bs inp :
  linear_call units K bias bs inp <> None <-> (match inp with In1 _ => units = 1%nat | InN _ => units <> 1%nat end).
Proof. unfold linear_call. destruct inp; destruct (Nat.eqb_spec units 1); split; intros; try congruence; try discriminate. Qed.

(* the model of C20_formula and the two-branch model agree *)
Theorem linear_call_eval units K bias bs inp out : linear_call units K bias bs inp = Some out ->
  peq out (linear_eval units K (match bias with Some b => b | None => [] end) bs
             (match inp with In1 x => [x] | InN xs => xs end)).
Proof. intros E. destruct (linear_call_spec units K bias bs inp out E) as [L H]. split.
  - unfold linear_eval. rewrite map_length, seq_length. exact L.
  - intros u. destruct (Nat.lt_ge_cases u units) as [Hu|Hu].
    + rewrite (H u Hu). rewrite linear_eval_unit by exact Hu.
      assert (Eb : bias_of bias u = nth u (match bias with Some b => b | None => [] end) 0)
        by (destruct bias; cbn; [reflexivity|destruct u; reflexivity]).
      assert (Er : row_of inp u = nth u (match inp with In1 x => [x] | InN xs => xs end) []).
      { destruct inp as [x|xs]; cbn [row_of]; [|reflexivity]. unfold linear_call in E.
        destruct (Nat.eqb_spec units 1) as [->|]; [|discriminate]. assert (u = 0%nat) by lia. subst u. reflexivity. }
      rewrite Eb, Er. reflexivity.
    + rewrite !nth_overflow; [reflexivity| |lia]. unfold linear_eval. rewrite map_length, seq_length. exact Hu. Qed.

Definition oqeq (a b : option (list Q)) : Prop :=
  match a, b with Some x, Some y => peq x y | None, None => True | _, _ => False end.

(* use_bias = False is the layer with a zero bias *)
Theorem linear_call_no_bias units K bs inp zs : (forall u, nth u zs 0 == 0) ->
  oqeq (linear_call units K None bs inp) (linear_call units K (Some zs) bs inp).
Proof. intros Hz. destruct (linear_call units K None bs inp) as [a|] eqn:Ea; destruct (linear_call units K (Some zs) bs inp) as [b|] eqn:Eb; cbn.
  - destruct (linear_call_spec _ _ _ _ _ _ Ea) as [La Ha]. destruct (linear_call_spec _ _ _ _ _ _ Eb) as [Lb Hb].
    split; [congruence|]. intros u. destruct (Nat.lt_ge_cases u units) as [Hu|Hu].
    + rewrite (Ha u Hu), (Hb u Hu). unfold lin_unit. cbn [bias_of]. rewrite (Hz u). reflexivity.
    + rewrite !nth_overflow by lia. reflexivity.
  - exfalso. revert Ea Eb. unfold linear_call. destruct inp; destruct (units =? 1)%nat; discriminate.
  - exfalso. revert Ea Eb. unfold linear_call. destruct inp; destruct (units =? 1)%nat; discriminate.
  - exact I. Qed.

(* unit u of a layer with units > 1 (rows per unit, reduce_sum branch) is the
   layer with units = 1 (matmul branch) whose kernel is column u and whose bias
   is bias_u, applied to unit u's row *)
Definition col_matrix (k : list Q) : list (list Q) := map (fun q => [q]) k.
Lemma column_col_matrix k : column 0 (col_matrix k) = k.
Proof. unfold column, col_matrix. rewrite map_map. cbn. apply map_id. Qed.

Theorem linear_call_unit_forms units K bias bs xs out u : (u < units)%nat ->
  linear_call units K bias bs (InN xs) = Some out ->
  exists v, linear_call 1 (col_matrix (column u K)) (option_map (fun b => [nth u b 0]) bias) bs (In1 (nth u xs [])) = Some [v] /\
            nth u out 0 == v.
Proof. intros Hu E. destruct (linear_call_spec _ _ _ _ _ _ E) as [_ H].
  destruct (linear_call 1 (col_matrix (column u K)) (option_map (fun b => [nth u b 0]) bias) bs (In1 (nth u xs []))) as [o|] eqn:E1.
  - destruct (linear_call_spec _ _ _ _ _ _ E1) as [L1 H1]. destruct o as [|v [|? ?]]; cbn in L1; try lia.
    exists v. split; [reflexivity|]. rewrite (H u Hu). specialize (H1 0%nat ltac:(lia)). cbn [nth] in H1. rewrite H1.
    rewrite column_col_matrix. cbn [row_of]. destruct bias; cbn [bias_of option_map nth]; reflexivity.
  - discriminate. Qed.

(* ================= the whole layer after its constraint ================= *)
(* every unit of the constrained layer is the clipped affine function of the
   PROJECTED column of that unit, clipped by the configuration's own bounds:
   the link that carries the column theorems above to every unit *)
Theorem projected_layer rt c units W bias inp out u :
  lin_valid c (length W) -> linear_constrained rt c units W bias inp = Some out -> (u < units)%nat ->
  exists r, lin_project_col rt c (column u W) = Some r /\
    nth u out 0 == lin_unit r (bias_of bias u) (layer_bounds c (length W)) (row_of inp u).
Proof. intros V E Hu. unfold linear_constrained in E. destruct (lin_project rt c units W) as [R|] eqn:ER; [|discriminate].
  destruct (lin_per_unit rt c units W R u V ER Hu) as [r [Er Ec]]. exists r. split; [exact Er|].
  destruct (linear_call_spec _ _ _ _ _ _ E) as [_ H]. rewrite (H u Hu), Ec. reflexivity. Qed.

(* and the constrained layer is defined for every kernel whenever the input form fits *)
Theorem projected_layer_defined rt c units W bias inp : lin_valid c (length W) ->
  (match inp with In1 _ => units = 1%nat | InN _ => units <> 1%nat end) ->
  exists out, linear_constrained rt c units W bias inp = Some out.
Proof. intros V F. unfold linear_constrained. destruct (lin_matrix_defined rt c units W V) as [R ->].
  destruct (linear_call units R bias (layer_bounds c (length W)) inp) as [o|] eqn:E; [exists o; reflexivity|].
  exfalso. apply (proj2 (linear_call_defined units R bias (layer_bounds c (length W)) inp) F). exact E. Qed.

(* end to end, monotonicity of unit u of the constrained layer in the batch-row form *)
Theorem projected_layer_monotone rt c units W bias inp inp' out out' u :
  lin_valid c (length W) -> (u < units)%nat ->
  linear_constrained rt c units W bias inp = Some out -> linear_constrained rt c units W bias inp' = Some out' ->
  length (row_of inp u) = length W -> length (row_of inp' u) = length W -> dir_le c (row_of inp u) (row_of inp' u) ->
  nth u out 0 <= nth u out' 0.
Proof. intros V Hu E E' Lx Ly D.
  destruct (projected_layer rt c units W bias inp out u V E Hu) as [r [Er H]].
  destruct (projected_layer rt c units W bias inp' out' u V E' Hu) as [r' [Er' H']].
  rewrite Er in Er'. inversion Er'; subst r'. rewrite H, H'.
  apply (projected_monotone rt c (length W) (column u W) r); try assumption. apply column_length. Qed.

(* ================= examples: the hypotheses are satisfiable ================= *)
(* ex_cfg (Proofs/LinearProject.v): inputs 0..3 increasing with a monotonic
   dominance diamond, inputs 4, 5 decreasing, bounded, range dominance (4 over 5),
   input 6 free; ex_w projects to ex_r (ex_run). *)
Example ex_r : list Q := [17 # 124; 17 # 124; 4 # 31; 4 # 31; -3 # 62; -3 # 31; 10 # 31].
Example ex_x : list Q := [0; 1; -2; 3; 1; -(1#2); 7].
Example ex_y : list Q := [1; 1; 5; 3; 0; -3; 7].
Example ex_dir_le : dir_le ex_cfg ex_x ex_y.
Proof. intros i. unfold mono. do 7 (destruct i as [|i]; [cbn; repeat split; intros; try discriminate; lra|]).
  destruct i; cbn; repeat split; intros; try discriminate; lra. Qed.
Example ex_monotone_applies : lin_unit ex_r 5 (layer_bounds ex_cfg 7) ex_x <= lin_unit ex_r 5 (layer_bounds ex_cfg 7) ex_y.
Proof. apply (projected_monotone qsqrt ex_cfg 7 ex_w ex_r 5 ex_x ex_y ex_cfg_valid eq_refl ex_run eq_refl eq_refl ex_dir_le). Qed.
Example ex_monotone_coordinate_applies :
  lin_unit ex_r 5 (layer_bounds ex_cfg 7) (set_nth 5 2 ex_x) <= lin_unit ex_r 5 (layer_bounds ex_cfg 7) (set_nth 5 (-(2)) ex_x).
Proof. apply (projected_monotone_coordinate qsqrt ex_cfg 7 ex_w ex_r 5 ex_x 5 (-(2)) 2 ex_cfg_valid eq_refl ex_run eq_refl); [lia|lra|reflexivity]. Qed.
Example ex_mdom_applies :
  lin_unit ex_r 5 (layer_bounds ex_cfg 7) (set_nth 1 (nth 1 ex_x 0 + 3) ex_x) - lin_unit ex_r 5 (layer_bounds ex_cfg 7) ex_x <=
  lin_unit ex_r 5 (layer_bounds ex_cfg 7) (set_nth 0 (nth 0 ex_x 0 + 3) ex_x) - lin_unit ex_r 5 (layer_bounds ex_cfg 7) ex_x.
Proof. apply (projected_mdom_effect qsqrt ex_cfg 7 ex_w ex_r 5 ex_x 0 1 3 ex_cfg_valid eq_refl ex_run eq_refl).
  - cbn. auto.
  - lra.
  - vm_compute. reflexivity.
  - vm_compute. reflexivity. Qed.
Example ex_rdom_applies : exists ld hd lw hw,
  nth 4 (layer_bounds ex_cfg 7) nob = (Some ld, Some hd) /\ nth 5 (layer_bounds ex_cfg 7) nob = (Some lw, Some hw) /\
  lin_unit ex_r 5 (layer_bounds ex_cfg 7) (set_nth 5 lw ex_x) - lin_unit ex_r 5 (layer_bounds ex_cfg 7) (set_nth 5 hw ex_x) <=
  lin_unit ex_r 5 (layer_bounds ex_cfg 7) (set_nth 4 ld ex_x) - lin_unit ex_r 5 (layer_bounds ex_cfg 7) (set_nth 4 hd ex_x).
Proof. destruct (projected_rdom_effect qsqrt ex_cfg 7 ex_w ex_r 5 ex_x 4 5 ex_cfg_valid eq_refl ex_run eq_refl)
    as [ld [hd [lw [hw [A [B [_ [_ [_ [D _]]]]]]]]]]. cbn; auto.
  exists ld, hd, lw, hw. split; [exact A|]. split; [exact B|]. apply D. reflexivity. Qed.

(* an all-increasing configuration with both kinds of dominance and order-1
   normalization, for the weighted average *)
Example avg_cfg : lin_cfg := mkLin [1; 1; 1; 1]%Z [(0, 1)]%nat [(2, 3)]%nat
  [None; Some (-(1)); Some 0; Some 0] [None; None; Some 2; Some 1] 1.
Example avg_cfg_valid : lin_valid avg_cfg 4.
Proof. constructor.
  - reflexivity.
  - intros i. unfold mono. cbn. do 4 (destruct i as [|i]; [auto|]). destruct i; auto.
  - reflexivity.
  - reflexivity.
  - intros d k H. in_cases H; cbn; repeat split; lia.
  - intros d k H. in_cases H. cbn. repeat split; try lia; try discriminate.
    + exists 0, 2. repeat split; lra.
    + exists 0, 1. repeat split; lra.
  - intros i [x [H|H]] [y [H'|H']]; in_cases H; in_cases H'.
  - apply (acyclic_rank _ (fun x => 10 - x)%nat). intros a b H. in_cases H; lia.
  - apply (acyclic_rank _ (fun x => 10 - x)%nat). intros a b H. in_cases H; lia. Qed.
Example avg_cfg_increasing : all_increasing avg_cfg 4.
Proof. intros i Hi. unfold mono. cbn. do 4 (destruct i as [|i]; [reflexivity|]). lia. Qed.
Example avg_w : list Q := [1; 3; -(2); 4].
Example avg_x : list Q := [3; -(5); 1; 7].
Example avg_weighted_average_applies : exists r w3,
  lin_project_col qsqrt avg_cfg avg_w = Some r /\ lin_project_col qsqrt (with_norm avg_cfg 0) avg_w = Some w3 /\
  norm_eps <= qsum (map qabs w3) /\ qsum r == 1 /\
  -(1) <= lin_unit r 0 (layer_bounds avg_cfg 4) avg_x - 0 /\ lin_unit r 0 (layer_bounds avg_cfg 4) avg_x - 0 <= 3.
Proof. destruct (lin_defined qsqrt avg_cfg 4 avg_w avg_cfg_valid eq_refl) as [r [E _]].
  destruct (lin_defined qsqrt (with_norm avg_cfg 0) 4 avg_w (lin_valid_with_norm _ _ 0%nat avg_cfg_valid) eq_refl) as [w3 [E3 _]].
  exists r, w3. split; [exact E|]. split; [exact E3|].
  assert (G : norm_eps <= qsum (map qabs w3)).
  { revert E3. vm_compute. intros E3. inversion E3; subst w3. vm_compute. discriminate. }
  split; [exact G|].
  destruct (projected_weighted_average qsqrt avg_cfg 4 avg_w w3 r 0 avg_x (-(1)) 3 avg_cfg_valid eq_refl eq_refl
              avg_cfg_increasing E E3 G eq_refl) as [_ [S [A B]]].
  - intros v H. cbn in H. repeat (destruct H as [<-|H]; [vm_compute; split; discriminate|]). destruct H.
  - split; [exact S|]. split; [exact A|exact B]. Qed.

(* the degenerate branch is reachable too (all raw weights negative) *)
Example avg_degenerate_applies : exists r w3,
  lin_project_col qsqrt avg_cfg [-(1); -(3); -(2); -(4)] = Some r /\
  lin_project_col qsqrt (with_norm avg_cfg 0) [-(1); -(3); -(2); -(4)] = Some w3 /\ qsum (map qabs w3) < norm_eps.
Proof. eexists. eexists. split; [vm_compute; reflexivity|]. split; [vm_compute; reflexivity|]. vm_compute. reflexivity. Qed.

(* a two-unit constrained layer on both input forms *)
Example ex_layer_defined : exists out,
  linear_constrained qsqrt ex_cfg 2 (map (fun x => [x; - x]) ex_w) (Some [1; 2]) (InN [ex_x; ex_y]) = Some out.
Proof. apply projected_layer_defined. apply ex_cfg_valid. discriminate. Qed.
Example ex_layer1_defined : exists out,
  linear_constrained qsqrt avg_cfg 1 (map (fun x => [x]) avg_w) None (In1 avg_x) = Some out.
Proof. apply projected_layer_defined. apply avg_cfg_valid. reflexivity. Qed.
Example ex_plain_guard : exists i, (i < 2)%nat /\ norm_eps <= nth i [-(1); 1 # 2] 0.
Proof. exists 1%nat. split; [lia|]. vm_compute. discriminate. Qed.
