(* "No silent totalisation" facts for property C16.

   The Gallina models of weight projection and evaluation are total by
   construction: x / 0 = 0 in Q, n / 0 = 0 in nat, nth i l d = d out of range,
   map2 truncates to the shorter list, qmaxl [] = 0.  A ZeroDivisionError, a NaN
   (0/0), an inf (x/0) or an IndexError / InvalidArgumentError of the code would
   therefore be invisible to the theorems about the models.  This file proves,
   site by site, that for configurations ACCEPTED by the decision functions of
   Model/Verify.v (through the bridge theorems of Proofs/VerifyFacts.v) the
   totalised cases are never used: every denominator is non-zero, every index
   is in range - or it exhibits the accepted configuration where it is not
   (`_refuted`, with the known-finding id).

   Convention: for a model function f that divides, [f_den]/[f_dens] is the
   denominator (list of denominators) f uses, defined by the same recursion as
   f; a `_site` lemma (by reflexivity or a one-line induction) shows that f is
   literally "numerator / f_den". *)
From Coq Require Import ZArith QArith List Bool Lia Lqa Permutation.
Import ListNotations.
From TFL Require Import Base.QNum Base.Lists Base.Tensor.
From TFL Require Import Model.Verify Proofs.VerifyFacts Proofs.VerifyFacts2.
From TFL Require Model.LinearProject Model.PWLProject Model.PWLEval Model.KFL Model.LatticeFinalize
  Model.LatticeDykstra Model.CDF Model.CondPWL Model.CategoricalEval Model.LatticeInterp Model.RTLStructure.
From TFL Require Model.PartialOrder Proofs.LinearProject Proofs.PWLProject Proofs.KFL Proofs.LatticeSpec.
Open Scope Q_scope.

Module LP := TFL.Model.LinearProject.
Module PP := TFL.Model.PWLProject.
Module PE := TFL.Model.PWLEval.
Module KF := TFL.Model.KFL.
Module LF := TFL.Model.LatticeFinalize.

Definition nz (x : Q) : Prop := ~ x == 0.

Lemma nz_pos x : 0 < x -> nz x.
Proof. unfold nz. intros H E. rewrite E in H. apply (Qlt_irrefl 0 H). Qed.
Lemma nz_neg x : x < 0 -> nz x.
Proof. unfold nz. intros H E. rewrite E in H. apply (Qlt_irrefl 0 H). Qed.
Lemma qn_nz n : (1 <= n)%nat -> nz (inject_Z (Z.of_nat n)).
Proof. intros H. apply nz_pos. change 0 with (inject_Z 0). rewrite <- Zlt_Qlt. lia. Qed.
Lemma qn_zero : inject_Z (Z.of_nat 0) == 0.
Proof. reflexivity. Qed.

(* ========================================================================= *)
(* 1. Linear: linear_lib.project                                               *)
(* ========================================================================= *)
(* 1a. `weights /= scalings` (range dominances).  scalings[dim] is +-1 times
   (upper - lower) ONLY IF both bounds are given and upper > lower (the code's
   guard `upper > lower` is the model's `qlt l h`): never zero, for every
   configuration, accepted or not. *)
Lemma linear_scaling_nonzero m lo hi : nz (LP.scaling m lo hi).
Proof.
  unfold LP.scaling. destruct lo as [l|], hi as [h|]; try (destruct (m =? -1)%Z; [apply nz_neg|apply nz_pos]; lra).
  destruct (qlt l h) eqn:E.
  - apply qlt_true in E. destruct (m =? -1)%Z; [apply nz_neg|apply nz_pos]; nra.
  - destruct (m =? -1)%Z; [apply nz_neg|apply nz_pos]; lra.
Qed.

Lemma linear_scalings_nonzero : forall ms los his, Forall nz (LP.scalings ms los his).
Proof.
  induction ms as [|m ms IH]; intros [|lo los] [|hi his]; cbn [LP.scalings]; try constructor.
  - apply linear_scaling_nonzero.
  - apply IH.
Qed.

(* the division site of lin_project_col, as the model writes it *)
Definition lin_rdom_divide (c : LP.lin_cfg) (p : list Q) : list Q :=
  map2 (fun x s => Qred (x / s)) p (LP.scalings (LP.lc_monos c) (LP.lc_min c) (LP.lc_max c)).
Lemma lin_rdom_site rt c w : LP.lc_mdom c = [] -> LP.lc_rdom c <> [] ->
  LP.lin_project_col rt c w =
  match PartialOrder.po_project (LP.swap_pairs (LP.lc_rdom c))
          (map2 Qmult (LP.sign_clip (LP.lc_monos c) w) (LP.scalings (LP.lc_monos c) (LP.lc_min c) (LP.lc_max c))) with
  | Some p => Some (LP.normalize rt (LP.lc_norm c) (lin_rdom_divide c p))
  | None => None
  end.
Proof.
  intros E1 E2. unfold LP.lin_project_col, lin_rdom_divide. rewrite E1.
  destruct (LP.lc_rdom c) as [|x r]; [contradiction|]. destruct (PartialOrder.po_project _ _); reflexivity.
Qed.

(* map2 truncates: the scalings must be as long as the weights.  They are, when
   input_min / input_max have the length of the monotonicities (the hypothesis
   of C16_accepted_linear_is_valid; shorter lists are accepted by the library and
   raise IndexError in the projection: known finding D45) *)
Lemma linear_scalings_length : forall ms los his, length los = length ms -> length his = length ms ->
  length (LP.scalings ms los his) = length ms.
Proof.
  induction ms as [|m ms IH]; intros [|lo los] [|hi his] H1 H2; cbn in *; try reflexivity; try discriminate.
  f_equal. apply IH; lia.
Qed.

Lemma linear_accepted_scalings c m norm :
  accepts_linear c = true -> n_monos c = Some m ->
  let lc := conv_linear c norm in
  Forall nz (LP.scalings (LP.lc_monos lc) (LP.lc_min lc) (LP.lc_max lc)) /\
  (length (olist (n_imin c)) = length m -> length (olist (n_imax c)) = length m ->
   length (LP.scalings (LP.lc_monos lc) (LP.lc_min lc) (LP.lc_max lc)) = length m).
Proof.
  intros _ Em lc. split. apply linear_scalings_nonzero.
  intros H1 H2. unfold lc, conv_linear. cbn. rewrite Em. cbn. apply linear_scalings_length; assumption.
Qed.

(* D45: an ACCEPTED configuration whose scalings are shorter than the weights *)
Lemma linear_short_bounds_accepted : exists c m,
  accepts_linear c = true /\ n_monos c = Some m /\
  (length (LP.scalings m (olist (n_imin c)) (olist (n_imax c))) < length m)%nat.
Proof.
  exists (Verify.mkLin (Some [1; 1; 1]%Z) None None (Some [[0; 1]]%Z)
            (Some [Some 0; Some 0]) (Some [Some 1; Some 1])), [1; 1; 1]%Z.
  split; [vm_compute; reflexivity|]. split; [reflexivity|]. cbn. lia.
Qed.

(* 1b. `weights / norm` after `norm = tf.where(norm < eps, 1.0, norm)`: the
   model's guard is the code's guard; the guarded denominator is >= eps = 1e-8,
   for EVERY norm oracle rt (even a wrong one) and every weight vector. *)
Definition lin_norm_den (rt : Q -> Q) (order : nat) (w : list Q) : Q :=
  let n := LP.col_norm rt order w in if qlt n LP.norm_eps then 1 else n.
Lemma lin_normalize_site rt k w :
  LP.normalize rt (S k) w = map (fun x => Qred (x / lin_norm_den rt (S k) w)) w.
Proof. reflexivity. Qed.
Lemma lin_normalize_order0 rt w : LP.normalize rt 0 w = w.
Proof. reflexivity. Qed.
Lemma lin_norm_den_ge_eps rt order w : LP.norm_eps <= lin_norm_den rt order w.
Proof.
  unfold lin_norm_den. cbv zeta. destruct (qlt _ _) eqn:E.
  - unfold LP.norm_eps. lra.
  - apply qlt_false in E. exact E.
Qed.
Lemma lin_norm_den_nonzero rt order w : nz (lin_norm_den rt order w).
Proof. apply nz_pos. pose proof (lin_norm_den_ge_eps rt order w). unfold LP.norm_eps in *. lra. Qed.

(* ========================================================================= *)
(* 2. PWL calibration: projection                                             *)
(* ========================================================================= *)
Import Proofs.PWLProject.

(* 2a. _project_bounds_considering_monotonicity: `/ num_heights` and
   `/ (num_heights + 1)` *)
Lemma pwl_bounds_mono_dens_nonzero (h : list Q) : (1 <= length h)%nat ->
  nz (PP.qn (length h)) /\ nz (PP.qn (length h) + 1).
Proof.
  intros H. pose proof (qn_pos (length h) H). split; apply nz_pos; lra.
Qed.
Lemma pwl_bounds_mono_den2_always (h : list Q) : nz (PP.qn (length h) + 1).
Proof. apply nz_pos. pose proof (qn_nonneg (length h)). lra. Qed.

(* every heights vector the Dykstra loop hands to the bounds projection has
   n >= 1 entries: all reachable states are well-formed (dyk_iter_wf) *)
Lemma pwl_dykstra_bounds_dens_nonzero c n b h k : pwl_valid c n -> length h = n ->
  let st := PP.dyk_iter c k (PP.dyk_init b h) in
  length (bnd_rh st) = n /\ length (PP.qneg_list (bnd_rh st)) = n /\
  nz (PP.qn (length (bnd_rh st))) /\ nz (PP.qn (length (bnd_rh st)) + 1).
Proof.
  intros V Hl st. assert (WF : dyk_wf n st).
  { unfold st. apply dyk_iter_wf. rewrite <- Hl. apply dyk_init_wf. }
  pose proof (bnd_rh_length n st WF) as L. destruct V as (Hn & _).
  rewrite qneg_list_length. split; [exact L|]. split; [exact L|].
  apply pwl_bounds_mono_dens_nonzero. lia.
Qed.

(* with NO height (a one-keypoint calibrator, rejected: C16_reject_pwl_too_few_keypoints)
   the first denominator is 0 *)
Lemma pwl_bounds_mono_den_zero_without_heights : PP.qn (length (@nil Q)) == 0.
Proof. reflexivity. Qed.

(* 2b. _project_convexity: `(h0 + h1) / (l0 + l1)` over consecutive pairs *)
Fixpoint convex_pairs_dens (hs ls : list Q) : list Q :=
  match hs, ls with
  | _ :: _ :: hr, l0 :: l1 :: lr => (l0 + l1) :: convex_pairs_dens hr lr
  | _, _ => []
  end.
Lemma convex_pairs_dens_pos : forall k hs ls, (length hs <= k)%nat -> Forall (fun l => 0 < l) ls ->
  Forall (fun d => 0 < d) (convex_pairs_dens hs ls).
Proof.
  induction k as [|k IH]; intros hs ls Hk Hl.
  - destruct hs; [constructor|cbn in Hk; lia].
  - destruct hs as [|h0 [|h1 hr]]; try constructor. destruct ls as [|l0 [|l1 lr]]; try constructor.
    + inversion Hl as [|? ? A Hl']; subst. inversion Hl' as [|? ? B Hl'']; subst. lra.
    + apply IH. cbn in Hk; lia. inversion Hl as [|? ? A Hl']; subst. inversion Hl'; subst. assumption.
Qed.
Definition project_convexity_dens (conv : Z) (group : nat) (hs ls : list Q) : list Q :=
  if (conv =? 0)%Z then []
  else match length hs with
       | 1%nat => []
       | _ => match group with
              | O => convex_pairs_dens hs ls
              | _ => match hs, ls with _ :: hr, _ :: lr => convex_pairs_dens hr lr | _, _ => [] end
              end
       end.
Lemma project_convexity_dens_pos conv g hs ls : Forall (fun l => 0 < l) ls ->
  Forall (fun d => 0 < d) (project_convexity_dens conv g hs ls).
Proof.
  intros Hl. unfold project_convexity_dens. destruct (conv =? 0)%Z; [constructor|].
  destruct (length hs) as [|[|n]] eqn:E; try constructor.
  - destruct g; [apply (convex_pairs_dens_pos (length hs)); auto|].
    destruct hs; [constructor|]. destruct ls; [constructor|]. apply (convex_pairs_dens_pos (length hs)); auto.
    inversion Hl; assumption.
  - destruct g; [apply (convex_pairs_dens_pos (length hs)); auto|].
    destruct hs; [constructor|]. destruct ls; [constructor|]. apply (convex_pairs_dens_pos (length hs)); auto.
    inversion Hl; assumption.
Qed.

(* 2c. _approximately_project_convexity: `lengths[i] / lengths[i - 1]` *)
Definition approx_convexity_dens (conv : Z) (hs ls : list Q) : list Q :=
  if (conv =? 0)%Z then []
  else match hs, ls with _ :: hr, _ :: _ => firstn (length hr) (removelast ls) | _, _ => [] end.
Lemma Forall_removelast {A} (P : A -> Prop) : forall l, Forall P l -> Forall P (removelast l).
Proof.
  induction l as [|a [|b r] IH]; intros H; cbn [removelast]; try constructor.
  - inversion H; assumption.
  - apply IH. inversion H; assumption.
Qed.
Lemma Forall_firstn {A} (P : A -> Prop) : forall n l, Forall P l -> Forall P (firstn n l).
Proof.
  induction n as [|n IH]; intros [|a l] H; cbn; try constructor.
  - inversion H; assumption.
  - apply IH. inversion H; assumption.
Qed.
Lemma approx_convexity_dens_pos conv hs ls : Forall (fun l => 0 < l) ls ->
  Forall (fun d => 0 < d) (approx_convexity_dens conv hs ls).
Proof.
  intros Hl. unfold approx_convexity_dens. destruct (conv =? 0)%Z; [constructor|].
  destruct hs; [constructor|]. destruct ls; [constructor|]. apply Forall_firstn, Forall_removelast, Hl.
Qed.
(* site: the i-th step of approx_convexity_from divides by the previous length *)
Lemma approx_convexity_from_site conv hprev lprev h hr l lr :
  PP.approx_convexity_from conv hprev lprev (h :: hr) (l :: lr) =
  let temp := hprev * (l / lprev) in
  let h' := if (conv =? 1)%Z then Qred (qmax h temp) else Qred (qmin h temp) in
  h' :: PP.approx_convexity_from conv h' l hr lr.
Proof. reflexivity. Qed.

(* 2d. _squeeze_by_scaling: `sum(heights) / delta` only where delta > 0.001
   (the code's tf.where guard is the model's), then `heights / max(sf, 1)` *)
Definition squeeze_sf (bias : Q) (heights : list Q) (omax : Q) : Q :=
  let delta := omax - bias in if qlt (1 # 1000) delta then qsum heights / delta else 1.
Lemma squeeze_inc_site bias heights omax cmax : cmax <> PP.BNone ->
  PP.squeeze_inc bias heights omax cmax =
  (bias, map (fun h => Qred (h / qmax (squeeze_sf bias heights omax) 1)) heights).
Proof. intros H. unfold PP.squeeze_inc, squeeze_sf. destruct cmax; [contradiction| |]; reflexivity. Qed.
Lemma squeeze_guarded_den_nonzero bias omax : qlt (1 # 1000) (omax - bias) = true -> nz (omax - bias).
Proof. intros H. apply qlt_true in H. apply nz_pos. lra. Qed.
Lemma squeeze_den_nonzero bias heights omax : nz (qmax (squeeze_sf bias heights omax) 1).
Proof. apply nz_pos. pose proof (qmax_r (squeeze_sf bias heights omax) 1). lra. Qed.

(* 2e. accepted PWLCalibration configurations: the lengths the projection
   divides by are the keypoint gaps, all > 0 *)
Lemma accepted_pwl_keypoints c ks : accepts_pwl c = true -> p_keypoints c = Some ks ->
  (2 <= length ks)%nat /\ strictly_increasing ks = true.
Proof.
  intros Hacc Ek. unfold accepts_pwl in Hacc. rewrite Ek, !andb_true_iff in Hacc.
  destruct Hacc as [[[[[[Hlen Hinc] _] _] _] _] _]. apply Z.leb_le in Hlen. unfold zlen in Hlen. split; [lia|exact Hinc].
Qed.

Lemma accepted_pwl_projection_dens c ks clamp_min clamp_max iters conv g hs :
  accepts_pwl c = true -> p_keypoints c = Some ks ->
  let pc := conv_pwl c ks clamp_min clamp_max iters in
  Forall (fun d => 0 < d) (project_convexity_dens conv g hs (PP.p_lengths pc)) /\
  Forall (fun d => 0 < d) (approx_convexity_dens conv hs (PP.p_lengths pc)) /\
  (length hs = (length ks - 1)%nat -> nz (PP.qn (length hs)) /\ nz (PP.qn (length hs) + 1)).
Proof.
  intros Hacc Ek pc. destruct (accepted_pwl_keypoints c ks Hacc Ek) as [Hlen Hinc].
  assert (Hp : Forall (fun l => 0 < l) (PP.p_lengths pc)) by (unfold pc, conv_pwl; cbn; apply kp_lengths_pos, Hinc).
  split; [apply project_convexity_dens_pos, Hp|]. split; [apply approx_convexity_dens_pos, Hp|].
  intros Hl. apply pwl_bounds_mono_dens_nonzero. lia.
Qed.

(* ========================================================================= *)
(* 3. PWL calibration: evaluation (compute_interpolation_weights)              *)
(* ========================================================================= *)
(* `(inputs - keypoints) / lengths`: one division per segment *)
Lemma pwl_interp_w_site x k kps l lens :
  PE.interp_w x (k :: kps) (l :: lens) = qmax (qmin ((x - k) / l) 1) 0 :: PE.interp_w x kps lens.
Proof. reflexivity. Qed.
Definition pwl_interp_dens (kps lens : list Q) : list Q := firstn (length kps) lens.

Lemma kp_diffs_eq : forall ks, PE.kp_diffs ks = kp_lengths ks.
Proof. intros ks. reflexivity. Qed.
Lemma kp_lefts_length : forall ks, length (PE.kp_lefts ks) = (length ks - 1)%nat.
Proof.
  induction ks as [|a [|b r] IH]; try reflexivity.
  change (PE.kp_lefts (a :: b :: r)) with (a :: PE.kp_lefts (b :: r)). cbn [length] in *. lia.
Qed.
Lemma interp_w_length x : forall kps lens, length (PE.interp_w x kps lens) = Nat.min (length kps) (length lens).
Proof. induction kps as [|k kps IH]; intros [|l lens]; cbn; try reflexivity. f_equal. apply IH. Qed.

(* fixed keypoints: gaps > 0; the keypoint and length tables have equal length
   (no truncation), and there are exactly len(keypoints) interpolation weights,
   one per kernel row *)
Lemma accepted_pwl_eval_fixed c ks x :
  accepts_pwl c = true -> p_keypoints c = Some ks ->
  Forall (fun l => 0 < l) (pwl_interp_dens (PE.kp_lefts ks) (PE.kp_diffs ks)) /\
  length (PE.kp_diffs ks) = length (PE.kp_lefts ks) /\
  length (PE.interpolation_weights x (PE.kp_lefts ks) (PE.kp_diffs ks)) = length ks.
Proof.
  intros Hacc Ek. destruct (accepted_pwl_keypoints c ks Hacc Ek) as [Hlen Hinc].
  assert (L1 : length (PE.kp_diffs ks) = (length ks - 1)%nat) by (rewrite kp_diffs_eq; apply kp_lengths_length).
  split; [|split].
  - unfold pwl_interp_dens. apply Forall_firstn. rewrite kp_diffs_eq. apply kp_lengths_pos, Hinc.
  - rewrite L1, kp_lefts_length. reflexivity.
  - unfold PE.interpolation_weights. cbn [length]. rewrite interp_w_length, L1, kp_lefts_length. lia.
Qed.

(* learned_interior keypoints: lengths = softmax(logits) * (last - first keypoint).
   The softmax is an oracle; in exact arithmetic every entry is > 0. *)
Lemma strictly_increasing_hd_last : forall r a, strictly_increasing (a :: r) = true -> r <> [] -> a < last (a :: r) 0.
Proof.
  induction r as [|b r IH]; intros a H Hne; [contradiction|].
  cbn [strictly_increasing] in H. apply andb_true_iff in H. destruct H as [H1 H2]. apply qlt_b_spec in H1.
  destruct r as [|c r]; [cbn; exact H1|].
  specialize (IH b H2 ltac:(discriminate)). change (last (a :: b :: c :: r) 0) with (last (b :: c :: r) 0). lra.
Qed.
Lemma keypoint_range_pos ks : (2 <= length ks)%nat -> strictly_increasing ks = true -> 0 < PE.keypoint_range ks.
Proof.
  intros Hl H. destruct ks as [|a [|b r]]; cbn in Hl; try lia. unfold PE.keypoint_range.
  pose proof (strictly_increasing_hd_last (b :: r) a H ltac:(discriminate)). cbn [hd]. lra.
Qed.
Lemma accepted_pwl_eval_learned c ks sm :
  accepts_pwl c = true -> p_keypoints c = Some ks -> Forall (fun s => 0 < s) sm ->
  Forall (fun l => 0 < l) (PE.learned_lengths ks sm) /\
  length (PE.learned_lefts ks sm) = length (PE.learned_lengths ks sm).
Proof.
  intros Hacc Ek Hs. destruct (accepted_pwl_keypoints c ks Hacc Ek) as [Hlen Hinc].
  pose proof (keypoint_range_pos ks Hlen Hinc) as Hr. split.
  - unfold PE.learned_lengths. induction Hs as [|s sm Hs0 _ IH]; cbn; constructor; [nra|exact IH].
  - unfold PE.learned_lefts. rewrite map_length. generalize (PE.learned_lengths ks sm), 0.
    induction l as [|y l IH]; intros acc; cbn; [reflexivity|]. f_equal. apply IH.
Qed.
(* ... and a softmax entry that is exactly 0 (float underflow of exp) gives a zero length *)
Lemma pwl_eval_learned_underflow_zero_length : forall ks, nth 1 (PE.learned_lengths ks [1; 0]) 1 == 0.
Proof. intros ks. cbn. ring. Qed.

(* ========================================================================= *)
(* 4. KroneckerFactoredLattice                                                *)
(* ========================================================================= *)
(* 4a. evaluation: tf.reduce_mean over the terms axis *)
Definition kfl_mean_den (L : nat) (xs su : list Q) (ku : list KF.term) : Q :=
  KF.qn (length (map2 (KF.term_out L xs) su ku)).
Lemma kfl_unit_eval_site clip L su ku b xs :
  KF.unit_eval clip L su ku b xs =
  qsum (map2 (KF.term_out L (map (KF.clip_in clip L) xs)) su ku) /
    kfl_mean_den L (map (KF.clip_in clip L) xs) su ku + b.
Proof. reflexivity. Qed.
Lemma kfl_mean_den_nonzero L xs su ku terms : (1 <= terms)%nat -> length su = terms -> length ku = terms ->
  nz (kfl_mean_den L xs su ku).
Proof.
  intros Ht H1 H2. unfold kfl_mean_den, KF.qn. rewrite map2_length, H1, H2, Nat.min_id. apply qn_nz, Ht.
Qed.
Lemma kfl_mean_den_zero_terms L xs : kfl_mean_den L xs [] [] == 0.
Proof. reflexivity. Qed.
(* num_terms = 0 IS accepted (`if num_terms and num_terms < 1`): known finding D48 *)
Lemma kfl_zero_terms_accepted_zero_den : exists c, accepts_kfl c = true /\ k_terms c = 0%Z /\
  k_size c <> 0%Z /\ (1 <= k_dims c)%Z /\ (1 <= k_units c)%Z /\
  forall L xs su ku, length su = Z.to_nat (k_terms c) -> length ku = Z.to_nat (k_terms c) -> kfl_mean_den L xs su ku == 0.
Proof.
  exists (mkK 2 1 0 None 2 None None). repeat split; try (vm_compute; congruence); try (cbn; lia).
  intros L xs su ku H1 H2. cbn in H1, H2. destruct su; [|discriminate]. reflexivity.
Qed.

(* 4b. _approximately_project_bounds: `weights / tf.pow(max(prod, 1), 1.0 / dims)`.
   For every root function satisfying Proofs.KFL.root_ok the denominator is >= 1
   as soon as there is an input dimension (then `1.0 / dims` itself is defined). *)
Definition kfl_bounds_den (root : nat -> Q -> Q) (vs : KF.term) : Q :=
  root (length vs) (qmax (KF.qprod (map KF.maxabs vs)) 1).
Lemma kfl_project_bounds_site root lo hi vs :
  KF.project_bounds_term root (Some lo) (Some hi) vs = map (map (fun w => w / kfl_bounds_den root vs)) vs.
Proof. reflexivity. Qed.
Lemma kfl_bounds_den_ge_1 root vs : Proofs.KFL.root_ok root -> (1 <= length vs)%nat -> 1 <= kfl_bounds_den root vs.
Proof.
  intros Hroot Hl. unfold kfl_bounds_den.
  destruct (Hroot (length vs) (qmax (KF.qprod (map KF.maxabs vs)) 1) Hl (qmax_r _ 1)) as [H _]. exact H.
Qed.
Lemma kfl_bounds_den_nonzero root vs : Proofs.KFL.root_ok root -> (1 <= length vs)%nat -> nz (kfl_bounds_den root vs).
Proof. intros Hr Hl. apply nz_pos. pose proof (kfl_bounds_den_ge_1 root vs Hr Hl). lra. Qed.

(* accepted (+ the bridge's side conditions lattice_sizes <> 0, >= 1 input dimension, >= 1 term; kernel of the
   layer's shape): neither division of the KFL meets a zero *)
Lemma accepted_kfl_dens_nonzero c root L xs su ku vs :
  accepts_kfl c = true -> (1 <= k_dims c)%Z -> (1 <= k_terms c)%Z -> Proofs.KFL.root_ok root ->
  length su = Z.to_nat (k_terms c) -> length ku = Z.to_nat (k_terms c) -> length vs = Z.to_nat (k_dims c) ->
  nz (kfl_mean_den L xs su ku) /\ nz (kfl_bounds_den root vs).
Proof.
  intros _ Hd Ht Hroot H1 H2 H3. split.
  - apply (kfl_mean_den_nonzero L xs su ku (Z.to_nat (k_terms c))); try assumption. lia.
  - apply kfl_bounds_den_nonzero; [exact Hroot|]. rewrite H3. lia.
Qed.

(* ========================================================================= *)
(* 5. Lattice: _approximately_project_bounds                                   *)
(* ========================================================================= *)
Definition lat_bounds_maxv (sh : list nat) (ud units : nat) (hi : Q) (W : tens) : list Q :=
  map (fun u => qmax (qmaxl (LF.unit_vals sh ud W u) - hi) 0) (seq 0 units).
Definition lat_bounds_minv (sh : list nat) (ud units : nat) (lo : Q) (W : tens) : list Q :=
  map (fun u => qmax (lo - qminl (LF.unit_vals sh ud W u)) 0) (seq 0 units).
Definition lat_bounds_den (sh : list nat) (ud units : nat) (lo hi : Q) (W : tens) (u : nat) : Q :=
  (hi + nth u (lat_bounds_maxv sh ud units hi W) 0) - (lo - nth u (lat_bounds_minv sh ud units lo W) 0).
Lemma lat_approx_bounds_site sh ud units lo hi W :
  LF.approx_bounds sh ud units (Some lo) (Some hi) W =
  memo sh (fun x => let u := nth ud x 0%nat in
                    Qred ((W x + (nth u (lat_bounds_minv sh ud units lo W) 0 - lo)) *
                          ((hi - lo) / lat_bounds_den sh ud units lo hi W u) + lo)).
Proof. reflexivity. Qed.

Lemma nth_nonneg (l : list Q) u : Forall (fun v => 0 <= v) l -> 0 <= nth u l 0.
Proof.
  intros H. destruct (Nat.lt_ge_cases u (length l)) as [Hu|Hu].
  - rewrite Forall_forall in H. apply H, nth_In, Hu.
  - rewrite nth_overflow by exact Hu. lra.
Qed.
Lemma lat_bounds_den_ge sh ud units lo hi W u : hi - lo <= lat_bounds_den sh ud units lo hi W u.
Proof.
  unfold lat_bounds_den.
  assert (A : 0 <= nth u (lat_bounds_maxv sh ud units hi W) 0).
  { apply nth_nonneg. unfold lat_bounds_maxv. apply Forall_forall. intros v Hv. apply in_map_iff in Hv.
    destruct Hv as (k & <- & _). apply qmax_r. }
  assert (B : 0 <= nth u (lat_bounds_minv sh ud units lo W) 0).
  { apply nth_nonneg. unfold lat_bounds_minv. apply Forall_forall. intros v Hv. apply in_map_iff in Hv.
    destruct Hv as (k & <- & _). apply qmax_r. }
  lra.
Qed.
Lemma lat_bounds_den_nonzero sh ud units lo hi W u : lo < hi -> nz (lat_bounds_den sh ud units lo hi W u).
Proof. intros H. apply nz_pos. pose proof (lat_bounds_den_ge sh ud units lo hi W u). lra. Qed.

(* accepted Lattice (layer or LatticeConstraints object): output_min < output_max strictly *)
Lemma accepted_lattice_bounds_den_nonzero c lo hi sh ud units W u :
  accepts_lattice_constraints_obj c = true -> l_omin c = Some lo -> l_omax c = Some hi ->
  nz (lat_bounds_den sh ud units lo hi W u).
Proof.
  intros Hacc E1 E2. apply lat_bounds_den_nonzero.
  unfold accepts_lattice_constraints_obj in Hacc. apply andb_true_iff in Hacc. destruct Hacc as [_ Hb].
  unfold bounds_strict_ok in Hb. rewrite E1, E2 in Hb. apply qlt_b_spec, Hb.
Qed.
Lemma accepts_lattice_obj c : accepts_lattice c = true -> accepts_lattice_constraints_obj c = true.
Proof.
  unfold accepts_lattice, accepts_lattice_constraints_obj. rewrite !andb_true_iff. tauto.
Qed.

(* the case the strict test excludes: output_min == output_max and a kernel already
   at the bound: 0 / 0 (NaN in the code) - REJECTED by verify_hyperparameters *)
Lemma lat_bounds_den_zero_equal_bounds :
  let W : tens := fun _ => 1 in
  lat_bounds_den [2; 1]%nat 1 1 1 1 W 0 == 0 /\
  forall c, l_omin c = Some 1 -> l_omax c = Some 1 -> accepts_lattice_constraints_obj c = false.
Proof.
  split; [vm_compute; reflexivity|]. intros c E1 E2. unfold accepts_lattice_constraints_obj, bounds_strict_ok.
  rewrite E1, E2. apply andb_false_r.
Qed.

(* ========================================================================= *)
(* 6. Lattice Dykstra: joint unimodality, `violation / sum(hyperplane^2)`       *)
(* ========================================================================= *)
(* (every other division of project_by_dykstra / finalize_constraints is by a
   literal 2, 3 or 4.)  The hyperplane coefficients come from ju_terms: one
   NON-ZERO integer (vertex - centre) * (+-1) per dimension off the centre, and
   the group is skipped (`Some [] => None`, the code's `return None`) when there
   is none: the norm is a sum of squares with a positive term. *)
Module LD := TFL.Model.LatticeDykstra.
Lemma ju_terms_coeffs_nonzero : forall sizes centre vertex offs k ts,
  LD.ju_terms sizes centre vertex offs k = Some ts -> Forall (fun t => snd t <> 0%Z) ts.
Proof.
  induction sizes as [|s sizes IH]; intros centre vertex offs k ts H.
  - cbn in H. injection H as <-. constructor.
  - destruct centre as [|c centre]; [cbn in H; injection H as <-; constructor|].
    destruct vertex as [|v vertex]; [cbn in H; injection H as <-; constructor|].
    destruct offs as [|o offs]; [cbn in H; injection H as <-; constructor|].
    cbn [LD.ju_terms] in H. destruct (LD.ju_terms sizes centre vertex offs (S k)) as [rest|] eqn:E; [|discriminate].
    specialize (IH _ _ _ _ _ E). cbv zeta in H.
    destruct (Z.eqb_spec (Z.of_nat v - Z.of_nat c) 0) as [Ez|Ez]; [injection H as <-; exact IH|].
    destruct (_ || _)%bool; [discriminate|]. injection H as <-. constructor; [|exact IH].
    cbn [snd]. destruct o; lia.
Qed.

Definition ju_norm (vertex : list nat) (terms : list (nat * nat * Z)) : Q :=
  let nbs := map (fun t => let '(k, nv, cf) := t in (upd vertex k nv, inject_Z cf)) terms in
  let csum := fold_right Z.add 0%Z (map (fun t => snd t) terms) in
  let eqn := nbs ++ [(vertex, inject_Z (- csum))] in
  qsum (map (fun e => snd e * snd e) eqn).
Lemma ju_norm_pos vertex terms : terms <> [] -> Forall (fun t => snd t <> 0%Z) terms -> 0 < ju_norm vertex terms.
Proof.
  intros Hne Hnz. unfold ju_norm. cbv zeta. rewrite map_app, qsum_app.
  generalize (inject_Z (- fold_right Z.add 0%Z (map (fun t : nat * nat * Z => snd t) terms))). intros z.
  set (sq := fun e : list nat * Q => snd e * snd e).
  assert (Hsq : forall l : list (list nat * Q), 0 <= qsum (map sq l)).
  { intros l. apply qsum_map_nonneg. intros e _. unfold sq. nra. }
  destruct terms as [|[[k nv] cf] r]; [contradiction|]. inversion Hnz as [|? ? Hcf _]; subst. cbn [snd] in Hcf.
  pose proof (Hsq (map (fun t : nat * nat * Z => let '(k0, nv0, cf0) := t in (upd vertex k0 nv0, inject_Z cf0)) r)) as A.
  pose proof (Hsq [(vertex, z)]) as B.
  assert (C : 0 < sq (upd vertex k nv, inject_Z cf)).
  { unfold sq. cbn [snd]. assert (D : ~ inject_Z cf == 0).
    { intros E. apply Hcf. unfold Qeq in E. cbn in E. lia. }
    destruct (Q_dec (inject_Z cf) 0) as [[H|H]|H]; [| |contradiction].
    - setoid_replace (inject_Z cf * inject_Z cf) with ((- inject_Z cf) * (- inject_Z cf)) by ring.
      apply Qmult_lt_0_compat; lra.
    - apply Qmult_lt_0_compat; lra. }
  clear Hsq. subst sq. cbn beta in A, B, C. cbn [map qsum snd] in A, B, C |- *. change (list nat) with idx in A. set (zz := z * z) in *. set (cc := inject_Z cf * inject_Z cf) in *. lra.
Qed.
Lemma ju_norm_nonzero sizes centre vertex offs terms :
  LD.ju_terms sizes centre vertex offs 0 = Some terms -> terms <> [] -> nz (ju_norm vertex terms).
Proof. intros H Hne. apply nz_pos, ju_norm_pos; [exact Hne|]. eapply ju_terms_coeffs_nonzero; exact H. Qed.

(* ========================================================================= *)
(* 7. CDF layer: reduce_mean over keypoints, over inputs; geometric mean        *)
(* ========================================================================= *)
Module CD := TFL.Model.CDF.
Definition cdf_mean_den (l : list Q) : Q := inject_Z (Z.of_nat (length l)).
Lemma cdf_qmean_site l : CD.qmean l = qsum l / cdf_mean_den l.
Proof. reflexivity. Qed.
Lemma cdf_basis_site sg a zs :
  CD.basis sg a zs = match a with
                     | CD.Sigmoid => qsum (map sg zs) / cdf_mean_den (map sg zs)
                     | _ => qsum (map CD.relu6 zs) / cdf_mean_den (map CD.relu6 zs) * (1 # 6)
                     end.
Proof. destruct a; reflexivity. Qed.
Lemma cdf_geo_site ex lg eps nterms col :
  CD.geo ex lg eps nterms col = ex (qsum (map (fun v => lg (v + eps)) col) / inject_Z (Z.of_nat nterms)).
Proof. reflexivity. Qed.
Lemma cdf_mean_den_nonzero l : (1 <= length l)%nat -> nz (cdf_mean_den l).
Proof. apply qn_nz. Qed.
Lemma cdf_mean_den_map_nonzero (f : Q -> Q) zs : (1 <= length zs)%nat -> nz (cdf_mean_den (map f zs)).
Proof. intros H. apply cdf_mean_den_nonzero. rewrite map_length. exact H. Qed.
Lemma cdf_mean_den_empty (f : Q -> Q) : cdf_mean_den (map f []) == 0.
Proof. reflexivity. Qed.

(* the mean over the keypoint axis of layer_cells runs over seq 0 (length (nth i kernel []))
   = num_keypoints entries; the reduction over axis 1 over the rows of the cell matrix *)
Lemma cdf_layer_cells_length sg a kernel scaling x uf : length (CD.layer_cells sg a kernel scaling x uf) = length kernel.
Proof. unfold CD.layer_cells. rewrite map_length, seq_length. reflexivity. Qed.
Lemma cdf_reshape2_length rows cols m : length (CD.reshape2 rows cols m) = rows.
Proof. unfold CD.reshape2. rewrite map_length, seq_length. reflexivity. Qed.
Lemma cdf_column_length u (m : list (list Q)) : length (column u m) = length m.
Proof. unfold column. apply map_length. Qed.

(* accepted, sparsity_factor > 0 (accepts_cdf only excludes 0), >= 1 input: the row count
   input_dim / sparsity_factor the reductions divide by is >= 1; nat division by the
   sparsity factor is a division by a non-zero number *)
Lemma accepted_cdf_rows c : accepts_cdf c = true -> (0 < d_sparsity c)%Z -> (1 <= d_dims c)%Z ->
  Z.to_nat (d_sparsity c) <> 0%nat /\
  (1 <= Z.to_nat (d_dims c) / Z.to_nat (d_sparsity c))%nat /\
  nz (inject_Z (Z.of_nat (Z.to_nat (d_dims c) / Z.to_nat (d_sparsity c)))) /\
  nz (inject_Z (Z.of_nat (Z.to_nat (d_dims c)))).
Proof.
  intros Hacc Hs Hd. destruct (accepted_cdf_reshape_consistent c Hacc) as (_ & E & _).
  assert (A : (1 <= d_dims c / d_sparsity c)%Z).
  { destruct (Z_lt_le_dec (d_dims c / d_sparsity c) 1) as [H|H]; [|exact H]. exfalso.
    assert (d_sparsity c * (d_dims c / d_sparsity c) <= 0)%Z by (apply Z.mul_nonneg_nonpos; lia). lia. }
  assert (B : (1 <= Z.to_nat (d_dims c) / Z.to_nat (d_sparsity c))%nat).
  { rewrite <- Z2Nat.inj_div by lia. lia. }
  split; [lia|]. split; [exact B|]. split; apply qn_nz; [exact B|lia].
Qed.
Lemma accepted_cdf_keypoints_den c (f : Q -> Q) zs : accepts_cdf c = true -> (1 <= d_keypoints c)%Z ->
  length zs = Z.to_nat (d_keypoints c) -> nz (cdf_mean_den (map f zs)).
Proof. intros _ Hk Hl. apply cdf_mean_den_map_nonzero. rewrite Hl. lia. Qed.
(* num_keypoints = 0 is accepted (known finding D48: the layer returns NaN);
   so is an input of width 0 (reduce_mean over an empty axis: NaN as well) *)
Lemma cdf_zero_keypoints_zero_den : exists c, accepts_cdf c = true /\ d_keypoints c = 0%Z /\
  forall (f : Q -> Q) zs, length zs = Z.to_nat (d_keypoints c) -> cdf_mean_den (map f zs) == 0.
Proof.
  exists (mkCDF 0 2 1 2 true true true true true). split; [reflexivity|]. split; [reflexivity|].
  intros f zs H. cbn in H. destruct zs; [reflexivity|discriminate].
Qed.
Lemma cdf_zero_inputs_zero_den : exists c, accepts_cdf c = true /\ d_dims c = 0%Z /\ (1 <= d_keypoints c)%Z /\
  forall u (m : list (list Q)), length m = Z.to_nat (d_dims c) -> cdf_mean_den (column u m) == 0.
Proof.
  exists (mkCDF 3 1 1 0 true true true true true). split; [reflexivity|]. split; [reflexivity|]. split; [cbn; lia|].
  intros u m H. cbn in H. destruct m; [reflexivity|discriminate].
Qed.

(* ========================================================================= *)
(* 8. Conditional PWL: the model carries the IEEE behaviour of the code itself *)
(* ========================================================================= *)
(* `(inputs - keypoints) / lengths`, NaN replaced by 0, clipped to [0, 1]: the
   model divides only by a non-zero length; for a zero length (possible: lengths
   are softmax * (input_max - input_min), and input_max == input_min passes
   _verify) it computes what IEEE arithmetic + the code's NaN guard give:
   +inf -> 1, -inf -> 0, NaN -> 0 *)
Module CP := TFL.Model.CondPWL.
Lemma condpwl_wclip_guard x kp len :
  (nz len -> CP.wclip x kp len = qclip 0 1 ((x - kp) / len)) /\
  (len == 0 -> CP.wclip x kp len = if qlt kp x then 1 else 0).
Proof.
  unfold CP.wclip, nz. split; intros H.
  - destruct (Qeq_bool len 0) eqn:E; [apply Qeq_bool_iff in E; contradiction|reflexivity].
  - destruct (Qeq_bool len 0) eqn:E; [reflexivity|]. apply Qeq_bool_neq in E. contradiction.
Qed.

(* ========================================================================= *)
(* 9. Indexing                                                                *)
(* ========================================================================= *)
(* 9a. CategoricalCalibration: tf.one_hot + matmul.  An index inside
   [0, num_buckets) selects that bucket's weight; an index OUTSIDE gives the
   all-zero row, i.e. output 0 - this is TensorFlow's documented one_hot
   behaviour, the code does not raise (out-of-vocabulary inputs are silently
   mapped to the output 0.0, not to a bucket). *)
Module CE := TFL.Model.CategoricalEval.
Lemma one_hot_dot_gen i : forall n s col, (Z.of_nat s <= i < Z.of_nat (s + n))%Z -> length col = n ->
  PE.dot (map (fun b => if (Z.of_nat b =? i)%Z then 1 else 0) (seq s n)) col == nth (Z.to_nat i - s) col 0.
Proof.
  induction n as [|n IH]; intros s col H Hl; [lia|]. destruct col as [|y col]; [discriminate|].
  cbn [seq map PE.dot]. destruct (Z.eqb_spec (Z.of_nat s) i) as [E|NE].
  - subst i. rewrite Nat2Z.id, Nat.sub_diag. cbn [nth].
    assert (Z0 : forall m t (l : list Q), (Z.of_nat s < Z.of_nat t)%Z ->
              PE.dot (map (fun b => if (Z.of_nat b =? Z.of_nat s)%Z then 1 else 0) (seq t m)) l == 0).
    { induction m as [|m IHm]; intros t l Ht; [destruct l; reflexivity|]. destruct l as [|z l]; [reflexivity|].
      cbn [seq map PE.dot]. destruct (Z.eqb_spec (Z.of_nat t) (Z.of_nat s)); [lia|]. rewrite IHm by lia. ring. }
    rewrite Z0 by lia. ring.
  - rewrite IH; [|lia|cbn in Hl; lia]. replace (Z.to_nat i - s)%nat with (S (Z.to_nat i - S s)) by lia. cbn [nth]. ring.
Qed.
Lemma cat_one_hot_in_range depth i col : (0 <= i < Z.of_nat depth)%Z -> length col = depth ->
  PE.dot (CE.one_hot depth i) col == nth (Z.to_nat i) col 0.
Proof.
  intros H Hl. unfold CE.one_hot. rewrite (one_hot_dot_gen i depth 0 col) by (cbn; lia || assumption).
  rewrite Nat.sub_0_r. reflexivity.
Qed.
Lemma one_hot_dot_zero i : forall n t (l : list Q), (i < Z.of_nat t \/ Z.of_nat (t + n) <= i)%Z ->
  PE.dot (map (fun b => if (Z.of_nat b =? i)%Z then 1 else 0) (seq t n)) l == 0.
Proof.
  induction n as [|n IHn]; intros t l Ht; [destruct l; reflexivity|]. destruct l as [|z l]; [reflexivity|].
  cbn [seq map PE.dot]. destruct (Z.eqb_spec (Z.of_nat t) i); [lia|]. rewrite IHn by lia. ring.
Qed.
Lemma cat_one_hot_out_of_range depth i col : (i < 0 \/ Z.of_nat depth <= i)%Z -> PE.dot (CE.one_hot depth i) col == 0.
Proof. intros H. unfold CE.one_hot. apply one_hot_dot_zero. cbn. lia. Qed.

(* the default bucket: inputs equal to default_input_value go to bucket
   num_buckets - 1, a valid index as soon as there is a bucket *)
Lemma cat_default_bucket_in_range L d : CE.c_default L = Some d -> (1 <= CE.c_buckets L)%nat ->
  (0 <= CE.replace_default L d < Z.of_nat (CE.c_buckets L))%Z.
Proof. intros E H. unfold CE.replace_default. rewrite E, Z.eqb_refl. lia. Qed.
(* num_buckets = 0 is accepted (known finding D48); the default bucket is then index -1 *)
Lemma cat_zero_buckets_default_out_of_range : exists c u, accepts_categorical_layer c u = true /\
  Verify.c_buckets c = Some 0%Z /\
  forall L d, CE.c_buckets L = 0%nat -> CE.c_default L = Some d -> (CE.replace_default L d < 0)%Z.
Proof.
  exists (mkC (Some 0%Z) None None true None), 1%Z. split; [reflexivity|]. split; [reflexivity|].
  intros L d E1 E2. unfold CE.replace_default. rewrite E2, Z.eqb_refl, E1. cbn. lia.
Qed.
(* units = 1: the layer output is the selected bucket's weight, or 0.0 out of vocabulary *)
Lemma cat_row_units1 L x : CE.c_units L = 1%nat -> length (CE.c_kernel L) = CE.c_buckets L ->
  let i := CE.replace_default L (CE.cast_int x) in
  ((0 <= i < Z.of_nat (CE.c_buckets L))%Z ->
     qleq (CE.cat_row L [x]) [nth 0 (nth (Z.to_nat i) (CE.c_kernel L) []) 0]) /\
  ((i < 0 \/ Z.of_nat (CE.c_buckets L) <= i)%Z -> qleq (CE.cat_row L [x]) [0]).
Proof.
  intros Hu Hk i. unfold CE.cat_row. rewrite Hu. cbn [Nat.eqb map nth]. fold i. split; intros H.
  - constructor; [|constructor]. rewrite cat_one_hot_in_range; [|exact H|unfold column; rewrite map_length; exact Hk].
    unfold column. assert (Hi : (Z.to_nat i < length (CE.c_kernel L))%nat) by lia.
    rewrite (nth_map_gen (fun r : list Q => nth 0 r 0) (CE.c_kernel L) (Z.to_nat i) [] 0 Hi). reflexivity.
  - constructor; [|constructor]. apply cat_one_hot_out_of_range, H.
Qed.

(* 9b. Lattice, simplex interpolation: tf.gather(reshape(kernel, [-1]), indices).
   For clipped or in-range points every gathered index is a vertex index (this
   is Proofs/GradientLinks.v simplex_indices_in_range, stated for the sparse
   form simplex_sparse which unit_fn_simplex_sparse proves equal to the model's
   simplex_unit) ... *)
From TFL Require Model.Gradients Proofs.Gradients Proofs.GradientLinks Proofs.LatticeInterp.
Lemma lattice_simplex_indices_in_range clip sizes x : Proofs.Gradients.lattice_point_ok clip sizes x ->
  forall p, In p (Model.Gradients.simplex_sparse clip sizes x) ->
  (0 <= fst p < Z.of_nat (Model.Gradients.num_vertices sizes))%Z.
Proof. exact (Proofs.GradientLinks.simplex_indices_in_range clip sizes x). Qed.
Lemma lattice_simplex_is_sparse tensor clip units sizes K u x : length x = length sizes ->
  Model.LatticeInterp.unit_fn Model.LatticeInterp.Simplex tensor clip units sizes K u x ==
  Model.Gradients.sp_eval (Model.Gradients.simplex_sparse clip sizes x) (Proofs.LatticeInterp.gather_of units K u).
Proof. exact (Proofs.GradientLinks.unit_fn_simplex_sparse tensor clip units sizes K u x). Qed.
(* ... the flat kernel position index * units + u is inside the flattened (vertices, units) kernel *)
Lemma lattice_simplex_flat_index_in_range units u n i : (u < units)%nat -> (0 <= i < Z.of_nat n)%Z ->
  (0 <= i * Z.of_nat units + Z.of_nat u < Z.of_nat (n * units))%Z.
Proof. intros Hu Hi. rewrite Nat2Z.inj_mul. nia. Qed.
(* ... and WITHOUT clipping an input <= -1 produces a negative index: the model's
   nthZ returns 0 there, the code raises InvalidArgumentError (tf.gather on CPU) *)
Lemma lattice_simplex_negative_index_unclipped :
  exists p, In p (Model.Gradients.simplex_sparse false [3; 3]%nat [-(3#2); 1#2]) /\ (fst p < 0)%Z.
Proof. eexists. split; [vm_compute; left; reflexivity|]. vm_compute. reflexivity. Qed.
(* inputs ABOVE the range are harmless for the indices (the lower corner is capped
   at size - 2; the weights extrapolate): e.g. (5/2, 5/2) on a 3x3 lattice *)
Lemma lattice_simplex_above_range_unclipped :
  forall p, In p (Model.Gradients.simplex_sparse false [3; 3]%nat [5#2; 5#2]) -> (0 <= fst p < 9)%Z.
Proof.
  intros p Hp. apply (in_map fst) in Hp.
  change (In (fst p) (map fst (Model.Gradients.simplex_sparse false [3; 3]%nat [5#2; 5#2]))) in Hp.
  assert (E : map fst (Model.Gradients.simplex_sparse false [3; 3]%nat [5#2; 5#2]) = [4; 7; 8]%Z) by (vm_compute; reflexivity).
  rewrite E in Hp. destruct Hp as [<-|[<-|[<-|[]]]]; lia.
Qed.

(* 9c. RTL: tf.gather(flattened_input, inputs_for_units, axis=1).  For an accepted
   RTL the structure exists (C16_accepted_rtl_structure_exists) and every index
   in it is below the number of inputs (C17_rtl_coverage), for every shuffle that
   is a permutation; the tiling division `total // len(rtl_inputs)` has a
   non-zero divisor (the code's ZeroDivisionError for no input is the model's
   None, and is rejected: C16_reject_rtl_no_inputs). *)
From TFL Require Proofs.RTLStructure.
Lemma accepted_rtl_gather_indices_in_range c avoid ms sh1 sh2 :
  accepts_rtl c = true -> (0 <= t_num c)%Z ->
  (forall z, t_inc c = Some z -> (0 <= z)%Z) -> (forall z, t_unc c = Some z -> (0 <= z)%Z) ->
  Proofs.RTLStructure.perm_oracle sh1 -> Proofs.RTLStructure.perm_oracle sh2 ->
  let cfg := conv_rtl c avoid ms in
  let n := length (Model.RTLStructure.flatten (Model.RTLStructure.c_input cfg)) in
  n <> 0%nat /\ Z.of_nat n = rtl_n_inputs c /\
  exists s, Model.RTLStructure.rtl_structure cfg sh1 sh2 = Some s /\
            forall lat i, In lat (Model.RTLStructure.all_lattices s) -> In i lat -> (i < n)%nat.
Proof.
  intros Hacc Hn H1 H2 P1 P2 cfg n.
  destruct (accepted_rtl_structure_exists c avoid ms sh1 sh2 Hacc Hn H1 H2) as (s & Hs).
  pose proof (conv_rtl_n_inputs c avoid ms H1 H2) as Hlen. fold cfg in Hlen. fold n in Hlen.
  destruct (accepted_rtl_counts c Hacc Hn) as (_ & _ & C).
  split; [lia|]. split; [exact Hlen|]. exists s. split; [exact Hs|].
  destruct (Proofs.RTLStructure.rtl_coverage_closed sh1 sh2 P1 P2 cfg s Hs) as [_ X]. exact X.
Qed.

(* 9d. PWLCalibration.call: the per-unit input column `row[0 if cols == 1 else u]`.
   call() returns (pwl_call = Some _) only when every row has cols in {1, units}
   entries - the code's ValueError exits are the model's None -, so the column
   index is in range for every unit *)
Lemma all_len_spec n m : PE.all_len n m = true -> forall r, In r m -> length r = n.
Proof.
  unfold PE.all_len. rewrite forallb_forall. intros H r Hr. apply Nat.eqb_eq, H, Hr.
Qed.
Lemma pwl_call_column_index_in_range L as_list inputs is_missing out :
  PE.pwl_call L as_list inputs is_missing = Some out ->
  forall row u, In row inputs -> (u < PE.p_units L)%nat ->
  ((if (length row =? 1)%nat then 0 else u) < length row)%nat.
Proof.
  unfold PE.pwl_call. cbv zeta. intros H row u Hr Hu.
  destruct (_ && negb (PE.p_impute L))%bool; [discriminate|].
  destruct (match is_missing with Some _ => _ | None => false end); [discriminate|].
  destruct (negb (PE.all_len _ inputs) || _)%bool eqn:E; [discriminate|].
  apply orb_false_iff in E. destruct E as [E1 E2]. apply negb_false_iff in E1, E2.
  pose proof (all_len_spec _ _ E1 row Hr) as Hlen.
  apply orb_true_iff in E2. destruct E2 as [E2|E2]; apply Nat.eqb_eq in E2; rewrite <- Hlen in E2.
  - destruct (Nat.eqb_spec (length row) 1); lia.
  - rewrite E2. cbn. lia.
Qed.

(* hypotheses of the theorems above are satisfiable *)
Example totality_examples :
  accepts_pwl (mkP (Some [0#1; 1#2; 2#1]) (Some (0#1)) (Some (1#1)) (Some 1%Z) (Some (-1)%Z) false true false true
                   false false false true) = true /\
  accepts_kfl (mkK 3 2 2 (Some [1; 0]%Z) 2 (Some (0#1)) (Some (1#1))) = true /\
  accepts_cdf (mkCDF 5 4 2 6 true true true true true) = true /\
  accepts_lattice_constraints_obj (mkL [3; 2]%Z (Some [1; 0]%Z) None [] [] None None None None (Some (0#1)) (Some (1#1)) true) = true /\
  Proofs.Gradients.lattice_point_ok true [3; 3]%nat [5#2; -(7#1)].
Proof.
  repeat split; try (vm_compute; reflexivity).
  unfold Proofs.Gradients.lattice_point_ok. repeat constructor; auto.
Qed.

(* ========================================================================= *)
(* 10. Further sites                                                          *)
(* ========================================================================= *)
(* 10a. CDF: a NEGATIVE sparsity_factor with negative units passes every build check
   (units // sparsity_factor >= 0); call() then fails in tf.reshape
   (InvalidArgumentError).  Same class as D48 (an unchecked integer hyperparameter). *)
Lemma cdf_negative_sparsity_accepted : exists c, accepts_cdf c = true /\ (d_sparsity c < 0)%Z /\ (d_units c < 0)%Z.
Proof. exists (mkCDF 3 (-2) (-1) 2 true true true true true). split; [reflexivity|]. cbn. lia. Qed.

(* 10b. Lattice _approximately_project_bounds: the reductions reduce_max / reduce_min run over
   a NON-EMPTY set of vertices (qmaxl [] = qminl [] = 0 in the model), and the per-unit table
   is indexed inside its range *)
From TFL Require Proofs.LatticeSpecFacts.
Lemma valid_zeros : forall sh, (forall s, In s sh -> (1 <= s)%nat) -> valid sh (map (fun _ => 0%nat) sh).
Proof.
  induction sh as [|s sh IH]; intros H; cbn [map]; constructor.
  - apply (H s). left. reflexivity.
  - apply IH. intros s' Hs'. apply H. right. exact Hs'.
Qed.
Lemma lat_shape_positive c : Proofs.LatticeSpec.cfg_valid c -> forall s, In s (LF.l_shape c) -> (1 <= s)%nat.
Proof.
  intros (Hs & Hu & _) s Hin. unfold LF.l_shape in Hin. apply in_app_iff in Hin. destruct Hin as [Hin|[<-|[]]].
  - specialize (Hs s Hin). lia.
  - exact Hu.
Qed.
Lemma lat_bounds_reductions_nonempty c W u : Proofs.LatticeSpec.cfg_valid c ->
  LF.unit_vals (LF.l_shape c) (LF.l_ud c) W u <> [].
Proof.
  intros V. pose proof (valid_zeros (LF.l_shape c) (lat_shape_positive c V)) as Hz.
  pose proof (Proofs.LatticeSpecFacts.behind1_proj (LF.l_shape c) (LF.l_ud c) _ Hz) as Hin.
  unfold LF.unit_vals. intros E. apply map_eq_nil in E. rewrite E in Hin. exact Hin.
Qed.
Lemma lat_bounds_unit_index_in_range c lo hi W x : valid (LF.l_shape c) x ->
  (nth (LF.l_ud c) x 0 < length (lat_bounds_maxv (LF.l_shape c) (LF.l_ud c) (LF.l_units c) hi W))%nat /\
  (nth (LF.l_ud c) x 0 < length (lat_bounds_minv (LF.l_shape c) (LF.l_ud c) (LF.l_units c) lo W))%nat.
Proof.
  intros Hv. unfold lat_bounds_maxv, lat_bounds_minv. rewrite !map_length, !seq_length.
  assert (Hd : (LF.l_ud c < length (LF.l_shape c))%nat) by (unfold LF.l_ud, LF.l_shape; rewrite app_length; cbn; lia).
  pose proof (valid_nth _ _ _ Hv Hd) as H. unfold LF.l_shape, LF.l_ud in H.
  rewrite app_nth2 in H by lia. rewrite Nat.sub_diag in H. cbn in H. unfold LF.l_ud. tauto.
Qed.

(* 10c. Lattice, hypercube interpolation: matmul(outer product of the per-dimension weights, kernel).
   The model's dot truncates to the shorter operand; the outer product has exactly
   prod(lattice_sizes) entries - one per kernel row - as soon as there is a dimension
   (lattice_sizes = [] is accepted by the constructor: known finding D60) *)
Module LI := TFL.Model.LatticeInterp.
Lemma outer_step_length acc w : length (LI.outer_step acc w) = (length acc * length w)%nat.
Proof.
  unfold LI.outer_step. induction acc as [|a acc IH]; cbn [flat_map length]; [reflexivity|].
  rewrite app_length, map_length, IH. cbn. reflexivity.
Qed.
Lemma fold_outer_length : forall rest acc,
  length (fold_left LI.outer_step rest acc) = (length acc * fold_right (fun w p => length w * p) 1 rest)%nat.
Proof.
  induction rest as [|w rest IH]; intros acc; cbn [fold_left fold_right]; [lia|].
  rewrite IH, outer_step_length. lia.
Qed.
Lemma weight_lists_prod : forall sizes (ws : list (nat -> Q)), length ws = length sizes ->
  fold_right (fun (w : list Q) p => length w * p)%nat 1%nat (LI.weight_lists sizes ws) = LI.prodn sizes.
Proof.
  induction sizes as [|s sizes IH]; intros [|w ws] H; cbn in H; try discriminate; [reflexivity|].
  unfold LI.weight_lists. cbn [map2 fold_right LI.prodn]. rewrite map_length, seq_length.
  f_equal. apply IH. lia.
Qed.
Lemma batch_outer_length sizes (ws : list (nat -> Q)) : sizes <> [] -> length ws = length sizes ->
  length (LI.batch_outer (LI.weight_lists sizes ws)) = LI.prodn sizes.
Proof.
  intros Hne Hl. destruct sizes as [|s sizes]; [contradiction|]. destruct ws as [|w ws]; [discriminate|].
  unfold LI.weight_lists. cbn [map2 LI.batch_outer]. rewrite fold_outer_length, map_length, seq_length.
  cbn [LI.prodn fold_right]. f_equal. apply (weight_lists_prod sizes ws). cbn in Hl. lia.
Qed.
Lemma hyper_weights_length tensor clip sizes x : length x = length sizes ->
  length (LI.hyper_weights tensor clip sizes x) = length sizes.
Proof.
  intros H. unfold LI.hyper_weights. destruct (LI.all2 sizes && tensor)%bool; rewrite map_length; [exact H|].
  destruct clip; [|exact H]. unfold LI.clip_onto. rewrite map2_length. lia.
Qed.
Lemma lattice_hypercube_no_truncation tensor clip sizes x : sizes <> [] -> length x = length sizes ->
  length (LI.batch_outer (LI.weight_lists sizes (LI.hyper_weights tensor clip sizes x))) = LI.prodn sizes.
Proof. intros Hne H. apply batch_outer_length; [exact Hne|]. apply hyper_weights_length, H. Qed.
Lemma lattice_hypercube_empty_sizes tensor clip x : LI.batch_outer (LI.weight_lists [] (LI.hyper_weights tensor clip [] x)) = [].
Proof. reflexivity. Qed.

(* 10d. KFL: an input of width 0 (monotonicities None) is accepted; `1.0 / dims` of the bounds
   projection is then Python's ZeroDivisionError (the layer's call fails earlier, in the
   convolution, with InvalidArgumentError) - excluded by the hypothesis 1 <= k_dims of the
   theorems above and of C16_accepted_kfl_is_valid *)
Lemma kfl_zero_dims_accepted : exists c, accepts_kfl c = true /\ k_dims c = 0%Z /\ (1 <= k_terms c)%Z /\
  k_omin c <> None /\ k_omax c <> None.
Proof. exists (mkK 2 1 2 None 0 (Some 0) (Some 1)). repeat split; try (vm_compute; congruence); try discriminate. Qed.

(* ========================================================================= *)
(* 11. Initialisers run by build(): lattice linear_initializer, PWL            *)
(*     linear_initializer                                                      *)
(* ========================================================================= *)
From TFL Require Model.LatticeInit Model.PWLInit.
Module LIn := TFL.Model.LatticeInit.
Module PI := TFL.Model.PWLInit.
(* `dim_range = (output_max - output_min) / num_constraint_dims`, where an unconstrained lattice
   counts all its dimensions *)
Lemma lattice_init_dims_pos sizes monos unis : sizes <> [] -> (1 <= LIn.lin_num_constraint_dims sizes monos unis)%nat.
Proof.
  intros H. unfold LIn.lin_num_constraint_dims. destruct (Nat.eqb_spec (LIn.count_nz monos + LIn.count_nz unis) 0) as [E|E].
  - destruct sizes; [contradiction|cbn; lia].
  - lia.
Qed.
Lemma lattice_init_dim_range_site sizes omin omax monos unis :
  LIn.lin_dim_range sizes omin omax monos unis = (omax - omin) / LIn.qnat (LIn.lin_num_constraint_dims sizes monos unis).
Proof. reflexivity. Qed.
Lemma lattice_init_dim_range_den_nonzero sizes monos unis : sizes <> [] ->
  nz (LIn.qnat (LIn.lin_num_constraint_dims sizes monos unis)).
Proof. intros H. apply qn_nz, lattice_init_dims_pos, H. Qed.
(* accepted: every size >= 2 ... but NOT "at least one dimension" (known finding D60:
   Lattice(lattice_sizes=[]) raises ZeroDivisionError at build) *)
Lemma lattice_init_empty_sizes_accepted : exists c, accepts_lattice_layer c = true /\ l_sizes c = [] /\
  LIn.qnat (LIn.lin_num_constraint_dims [] (LIn.zeros_if_none 0 None) (LIn.zeros_if_none 0 None)) == 0.
Proof. exists (mkL [] None None [] [] None None None None None None true). repeat split; vm_compute; reflexivity. Qed.
(* _linspace: `i / (num - 1.0)` behind the code's own `if num == 1: return [start]` *)
Lemma lattice_init_linspace_site start stop num k : num <> 1%nat ->
  LIn.linspace_at start stop num k = Qred (start + (stop - start) * LIn.qnat k / (LIn.qnat num - 1)).
Proof. intros H. unfold LIn.linspace_at. destruct (Nat.eqb_spec num 1); [contradiction|reflexivity]. Qed.
Lemma lattice_init_linspace_den_nonzero num : num <> 1%nat -> nz (LIn.qnat num - 1).
Proof.
  intros H. unfold nz, LIn.qnat. intros E.
  assert (E' : inject_Z (Z.of_nat num) == inject_Z 1) by (rewrite <- (Qplus_0_r (inject_Z 1)), <- E; ring).
  unfold Qeq in E'. cbn in E'. lia.
Qed.

(* PWL linear_initializer: `/ num_pieces` (keypoints None) and `/ reduce_sum(lengths)` *)
Lemma pwl_init_kp_lengths_eq : forall ks, PI.kp_lengths ks = kp_lengths ks.
Proof.
  unfold PI.kp_lengths. induction ks as [|a [|b r] IH]; try reflexivity.
  cbn [tl map2] in *. change (kp_lengths (a :: b :: r)) with ((b - a) :: kp_lengths (b :: r)). f_equal. exact IH.
Qed.
Lemma qsum_pos_nonempty l : l <> [] -> Forall (fun x => 0 < x) l -> 0 < qsum l.
Proof.
  intros Hne H. destruct l as [|x l]; [contradiction|]. inversion H as [|? ? Hx Hl]; subst. cbn [qsum].
  assert (0 <= qsum l). { clear -Hl. induction Hl as [|y l Hy _ IH]; cbn [qsum]; lra. }
  lra.
Qed.
Lemma accepted_pwl_init_dens_nonzero c ks : accepts_pwl c = true -> p_keypoints c = Some ks ->
  nz (PP.qn (length ks - 1)) /\ nz (qsum (PI.kp_lengths ks)).
Proof.
  intros Hacc Ek. destruct (accepted_pwl_keypoints c ks Hacc Ek) as [Hlen Hinc]. split.
  - apply qn_nz. lia.
  - apply nz_pos. rewrite pwl_init_kp_lengths_eq. apply qsum_pos_nonempty; [|apply kp_lengths_pos, Hinc].
    intros E. pose proof (kp_lengths_length ks) as L. rewrite E in L. cbn in L. lia.
Qed.
Lemma pwl_init_heights_site num_keypoints omin omax kps :
  PI.pwl_init_heights num_keypoints omin omax kps =
  match kps with
  | None => repeat (Qred ((omax - omin) / PP.qn (num_keypoints - 1))) (num_keypoints - 1)
  | Some k => map (fun l => Qred (l * ((omax - omin) / qsum (PI.kp_lengths k)))) (PI.kp_lengths k)
  end.
Proof. destruct kps; reflexivity. Qed.
