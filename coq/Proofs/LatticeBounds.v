(* _approximately_project_bounds (approx_bounds) and the final clip of
   LatticeConstraints.__call__ (clip_bounds).

   approx_bounds is, per unit, a positive affine map  w |-> a(u) * w + b(u);
   therefore it keeps monotonicity and both kinds of trust (all points of one
   inequality share the unit coordinate), lands inside the configured bounds,
   and is the identity on kernels already inside them.

   Everything is stated for an arbitrary shape [sh] with a unit axis [ud]:
     Hud : ud < length sh       Hun : nth ud sh 0 = units
   For sh = sizes ++ [units], ud = length sizes these are
   LatticeSpecFacts.unit_axis_lt / unit_axis_nth (l_ud_lt / l_ud_units). *)
From TFL Require Import Proofs.LatticeSpecFacts Proofs.LatticeMono.
Open Scope Q_scope.

(* the side condition on the configured bounds (last conjunct of cfg_valid) *)
Definition bounds_ordered (omin omax : option Q) : Prop :=
  match omin, omax with Some lo, Some hi => lo < hi | _, _ => True end.
Definition bounds_weakly_ordered (omin omax : option Q) : Prop :=
  match omin, omax with Some lo, Some hi => lo <= hi | _, _ => True end.
Lemma bounds_ordered_weaken omin omax : bounds_ordered omin omax -> bounds_weakly_ordered omin omax.
Proof. destruct omin, omax; cbn; auto. apply Qlt_le_weak. Qed.
Lemma cfg_valid_bounds_ordered c : cfg_valid c -> bounds_ordered (l_min c) (l_max c).
Proof. intros H. apply H. Qed.

(* ------------------------------------------------------------------ *)
(* maps that are positive-affine per unit                               *)
(* ------------------------------------------------------------------ *)
Section Affine.
Variables (sh : list nat) (ud : nat) (a b : nat -> Q) (f g : tens).
Hypothesis Ha : forall u, 0 <= a u.
Hypothesis Hg : forall x, valid sh x -> g x == a (nth ud x 0%nat) * f x + b (nth ud x 0%nat).

Lemma affine_le p q : valid sh p -> valid sh q -> nth ud p 0%nat = nth ud q 0%nat -> f p <= f q -> g p <= g q.
Proof. intros Hp Hq E H. rewrite (Hg p Hp), (Hg q Hq), E.
  pose proof (qmul_le_l (a (nth ud q 0%nat)) _ _ (Ha _) H). lra. Qed.

Lemma affine_mono d : d <> ud -> mono_along sh d f -> mono_along sh d g.
Proof. intros Hd Hm i Hv Hs. apply affine_le. assumption. apply upd_valid; assumption.
  rewrite nth_upd_other by auto. reflexivity. apply Hm; assumption. Qed.

Lemma affine_esq m c i j p : m <> ud -> c <> ud -> valid sh p ->
  (S i < nth m sh 0)%nat -> (S j < nth c sh 0)%nat ->
  esq g m c i j p == a (nth ud p 0%nat) * esq f m c i j p.
Proof. intros Hm Hc Hv Hi Hj. unfold esq.
  pose proof (Hg _ (at2_valid sh p m c (S i) j Hv ltac:(lia) ltac:(lia))) as H1.
  pose proof (Hg _ (at2_valid sh p m c i j Hv ltac:(lia) ltac:(lia))) as H2.
  pose proof (Hg _ (at2_valid sh p m c (S i) (S j) Hv ltac:(lia) ltac:(lia))) as H3.
  pose proof (Hg _ (at2_valid sh p m c i (S j) Hv ltac:(lia) ltac:(lia))) as H4.
  rewrite at2_nth_other in H1, H2, H3, H4 by auto.
  rewrite H1, H2, H3, H4. ring. Qed.

Lemma affine_edgeworth m c dir : m <> ud -> c <> ud ->
  edgeworth_holds sh (m, c, dir) f -> edgeworth_holds sh (m, c, dir) g.
Proof. intros Hm Hc H p i j Hv Hi Hj. specialize (H p i j Hv Hi Hj).
  pose proof (affine_esq m c i j p Hm Hc Hv Hi Hj) as He. pose proof (Ha (nth ud p 0%nat)) as Hp.
  destruct (0 <? dir)%Z; rewrite He.
  - pose proof (qmul_le_l _ _ _ Hp H). lra.
  - apply qmul_nonneg; assumption. Qed.

Lemma affine_trapezoid m c dir : m <> ud -> c <> ud ->
  trapezoid_holds sh (m, c, dir) f -> trapezoid_holds sh (m, c, dir) g.
Proof. intros Hm Hc H p j Hv Hj. specialize (H p j Hv Hj). cbv zeta in *.
  set (mx := (nth m sh 0 - 1)%nat) in *.
  assert (V : forall i k, (i = 0 \/ i = mx)%nat -> (k = j \/ k = S j)%nat -> valid sh (at2 p m c i k)).
  { intros i k Hi Hk. apply at2_valid_gen. assumption.
    - intros Hml. pose proof (valid_pos sh p m Hv Hml). unfold mx in Hi. lia.
    - intros _. lia. }
  assert (U : forall i k i' k', nth ud (at2 p m c i k) 0%nat = nth ud (at2 p m c i' k') 0%nat).
  { intros. rewrite !at2_nth_other by auto. reflexivity. }
  destruct (0 <? dir)%Z; destruct H as [H1 H2]; split; apply affine_le; auto. Qed.
End Affine.

(* ------------------------------------------------------------------ *)
(* approx_bounds                                                        *)
(* ------------------------------------------------------------------ *)
Section Bounds.
Variables (sh : list nat) (ud units : nat).
Hypothesis Hud : (ud < length sh)%nat.
Hypothesis Hun : nth ud sh 0%nat = units.

(* per-unit violations, as in the code *)
Definition bnd_minv (lo : Q) (W : tens) (u : nat) : Q := qmax (lo - qminl (unit_vals sh ud W u)) 0.
Definition bnd_maxv (hi : Q) (W : tens) (u : nat) : Q := qmax (qmaxl (unit_vals sh ud W u) - hi) 0.
Definition bnd_den (lo hi : Q) (W : tens) (u : nat) : Q := (hi + bnd_maxv hi W u) - (lo - bnd_minv lo W u).

Lemma unit_lt x : valid sh x -> (nth ud x 0 < units)%nat.
Proof. intros Hv. rewrite <- Hun. apply valid_nth; assumption. Qed.

Lemma unit_vals_bounds W x : valid sh x ->
  qminl (unit_vals sh ud W (nth ud x 0%nat)) <= W x /\ W x <= qmaxl (unit_vals sh ud W (nth ud x 0%nat)).
Proof. intros Hv. pose proof (unit_vals_in sh ud W x Hv). split. apply qminl_le; assumption. apply qmaxl_ge; assumption. Qed.

Lemma bnd_minv_nonneg lo W u : 0 <= bnd_minv lo W u. Proof. unfold bnd_minv. apply qmax_r. Qed.
Lemma bnd_maxv_nonneg hi W u : 0 <= bnd_maxv hi W u. Proof. unfold bnd_maxv. apply qmax_r. Qed.
Lemma bnd_den_pos lo hi W u : lo < hi -> 0 < bnd_den lo hi W u.
Proof. intros H. unfold bnd_den. pose proof (bnd_minv_nonneg lo W u). pose proof (bnd_maxv_nonneg hi W u). lra. Qed.
Lemma bnd_scale_pos lo hi W u : lo < hi -> 0 < (hi - lo) / bnd_den lo hi W u.
Proof. intros H. apply Qlt_shift_div_l. apply bnd_den_pos; assumption. lra. Qed.

Lemma bnd_minv_zero lo W x : valid sh x -> lower_ok sh (Some lo) W -> bnd_minv lo W (nth ud x 0%nat) == 0.
Proof. intros Hv Hl. cbn in Hl. unfold bnd_minv.
  assert (lo <= qminl (unit_vals sh ud W (nth ud x 0%nat))).
  { apply qminl_glb. intros E. pose proof (unit_vals_in sh ud W x Hv) as Hin. rewrite E in Hin. destruct Hin.
    intros v Hin. apply unit_vals_inv in Hin. destruct Hin as [y [Hy [_ ->]]]. apply Hl; assumption.
    apply valid_nth; assumption. }
  qcases; lra. Qed.
Lemma bnd_maxv_zero hi W x : valid sh x -> upper_ok sh (Some hi) W -> bnd_maxv hi W (nth ud x 0%nat) == 0.
Proof. intros Hv Hl. cbn in Hl. unfold bnd_maxv.
  assert (qmaxl (unit_vals sh ud W (nth ud x 0%nat)) <= hi).
  { apply qmaxl_lub. intros E. pose proof (unit_vals_in sh ud W x Hv) as Hin. rewrite E in Hin. destruct Hin.
    intros v Hin. apply unit_vals_inv in Hin. destruct Hin as [y [Hy [_ ->]]]. apply Hl; assumption.
    apply valid_nth; assumption. }
  qcases; lra. Qed.

(* closed form of the result at a valid index *)
Lemma approx_bounds_val omin omax W x : valid sh x ->
  approx_bounds sh ud units omin omax W x ==
  match omin, omax with
  | None, None => W x
  | Some lo, None => W x + bnd_minv lo W (nth ud x 0%nat)
  | None, Some hi => W x - bnd_maxv hi W (nth ud x 0%nat)
  | Some lo, Some hi =>
      (W x + (bnd_minv lo W (nth ud x 0%nat) - lo)) * ((hi - lo) / bnd_den lo hi W (nth ud x 0%nat)) + lo
  end.
Proof. intros Hv. pose proof (unit_lt x Hv) as Hu. unfold approx_bounds.
  destruct omin as [lo|], omax as [hi|]; cbv zeta; try reflexivity;
    rewrite memo_ok by assumption; rewrite Qred_correct; rewrite !nth_map_seq by assumption; reflexivity. Qed.

(* the per-unit affine coefficients *)
Definition bnd_a (omin omax : option Q) (W : tens) (u : nat) : Q :=
  match omin, omax with Some lo, Some hi => (hi - lo) / bnd_den lo hi W u | _, _ => 1 end.
Definition bnd_b (omin omax : option Q) (W : tens) (u : nat) : Q :=
  match omin, omax with
  | None, None => 0
  | Some lo, None => bnd_minv lo W u
  | None, Some hi => - bnd_maxv hi W u
  | Some lo, Some hi => (bnd_minv lo W u - lo) * ((hi - lo) / bnd_den lo hi W u) + lo
  end.
Lemma bnd_a_pos omin omax W u : bounds_ordered omin omax -> 0 < bnd_a omin omax W u.
Proof. intros Hc. unfold bnd_a. destruct omin as [lo|], omax as [hi|]; try lra. apply bnd_scale_pos. exact Hc. Qed.
Lemma approx_bounds_affine_eq omin omax W x : valid sh x ->
  approx_bounds sh ud units omin omax W x ==
  bnd_a omin omax W (nth ud x 0%nat) * W x + bnd_b omin omax W (nth ud x 0%nat).
Proof. intros Hv. rewrite approx_bounds_val by assumption. unfold bnd_a, bnd_b.
  destruct omin as [lo|], omax as [hi|]; ring. Qed.

Lemma approx_bounds_affine omin omax W : bounds_ordered omin omax ->
  exists a b : nat -> Q, (forall u, 0 < a u) /\
    forall x, valid sh x ->
      approx_bounds sh ud units omin omax W x == a (nth ud x 0%nat) * W x + b (nth ud x 0%nat).
Proof. intros Hc. exists (bnd_a omin omax W), (bnd_b omin omax W). split.
  intros u; apply bnd_a_pos; assumption. intros x Hv; apply approx_bounds_affine_eq; assumption. Qed.

Lemma approx_bounds_mono omin omax W d : bounds_ordered omin omax -> d <> ud ->
  mono_along sh d W -> mono_along sh d (approx_bounds sh ud units omin omax W).
Proof. intros Hc Hd. apply (affine_mono sh ud (bnd_a omin omax W) (bnd_b omin omax W)); auto.
  intros u. apply Qlt_le_weak. apply bnd_a_pos; assumption.
  intros x Hv. apply approx_bounds_affine_eq; assumption. Qed.

Lemma approx_bounds_edgeworth omin omax W m c dir : bounds_ordered omin omax -> m <> ud -> c <> ud ->
  edgeworth_holds sh (m, c, dir) W -> edgeworth_holds sh (m, c, dir) (approx_bounds sh ud units omin omax W).
Proof. intros Hc Hm Hcd. apply (affine_edgeworth sh ud (bnd_a omin omax W) (bnd_b omin omax W)); auto.
  intros u. apply Qlt_le_weak. apply bnd_a_pos; assumption.
  intros x Hv. apply approx_bounds_affine_eq; assumption. Qed.

Lemma approx_bounds_trapezoid omin omax W m c dir : bounds_ordered omin omax -> m <> ud -> c <> ud ->
  trapezoid_holds sh (m, c, dir) W -> trapezoid_holds sh (m, c, dir) (approx_bounds sh ud units omin omax W).
Proof. intros Hc Hm Hcd. apply (affine_trapezoid sh ud (bnd_a omin omax W) (bnd_b omin omax W)); auto.
  intros u. apply Qlt_le_weak. apply bnd_a_pos; assumption.
  intros x Hv. apply approx_bounds_affine_eq; assumption. Qed.

Lemma approx_bounds_lower omin omax W : bounds_ordered omin omax ->
  lower_ok sh omin (approx_bounds sh ud units omin omax W).
Proof. intros Hc. destruct omin as [lo|]; [|exact I]. intros x Hv.
  rewrite approx_bounds_val by assumption. destruct (unit_vals_bounds W x Hv) as [Hlo Hhi].
  set (u := nth ud x 0%nat) in *. destruct omax as [hi|].
  - pose proof (bnd_scale_pos lo hi W u Hc) as Hs.
    assert (Ht : 0 <= W x + (bnd_minv lo W u - lo)) by (unfold bnd_minv; qcases; lra).
    pose proof (qmul_nonneg _ _ Ht (Qlt_le_weak _ _ Hs)). lra.
  - unfold bnd_minv. qcases; lra. Qed.

Lemma approx_bounds_upper omin omax W : bounds_ordered omin omax ->
  upper_ok sh omax (approx_bounds sh ud units omin omax W).
Proof. intros Hc. destruct omax as [hi|]; [|exact I]. intros x Hv.
  rewrite approx_bounds_val by assumption. destruct (unit_vals_bounds W x Hv) as [Hlo Hhi].
  set (u := nth ud x 0%nat) in *. destruct omin as [lo|].
  - pose proof (bnd_scale_pos lo hi W u Hc) as Hs. pose proof (bnd_den_pos lo hi W u Hc) as Hd.
    assert (Ht : W x + (bnd_minv lo W u - lo) <= bnd_den lo hi W u) by (unfold bnd_den, bnd_maxv; qcases; lra).
    pose proof (Qmult_le_compat_r _ _ _ Ht (Qlt_le_weak _ _ Hs)) as Hm.
    assert (Hq : bnd_den lo hi W u * ((hi - lo) / bnd_den lo hi W u) == hi - lo).
    { apply Qmult_div_r. intros E. rewrite E in Hd. lra. }
    rewrite Hq in Hm. lra.
  - unfold bnd_maxv. qcases; lra. Qed.

Lemma approx_bounds_fixed omin omax W : bounds_ordered omin omax ->
  lower_ok sh omin W -> upper_ok sh omax W -> teq sh (approx_bounds sh ud units omin omax W) W.
Proof. intros Hc Hl Hu x Hv. rewrite approx_bounds_val by assumption.
  destruct omin as [lo|], omax as [hi|].
  - unfold bnd_den. rewrite (bnd_minv_zero lo W x Hv Hl), (bnd_maxv_zero hi W x Hv Hu).
    cbn in Hc. field. lra.
  - rewrite (bnd_minv_zero lo W x Hv Hl). ring.
  - rewrite (bnd_maxv_zero hi W x Hv Hu). ring.
  - reflexivity. Qed.
End Bounds.

(* ------------------------------------------------------------------ *)
(* clip_bounds                                                          *)
(* ------------------------------------------------------------------ *)
Lemma clip_bounds_val sh omin omax W x : valid sh x ->
  clip_bounds sh omin omax W x = clip_hi omax (clip_lo omin (W x)).
Proof. intros Hv. unfold clip_bounds. rewrite memo_ok by assumption. reflexivity. Qed.

Lemma clip_bounds_mono sh omin omax W d : mono_along sh d W -> mono_along sh d (clip_bounds sh omin omax W).
Proof. intros Hm i Hv Hs. rewrite !clip_bounds_val by (try apply upd_valid; assumption).
  specialize (Hm i Hv Hs). unfold clip_hi, clip_lo. destruct omin, omax; qcases; lra. Qed.

Lemma clip_bounds_upper sh omin omax W : upper_ok sh omax (clip_bounds sh omin omax W).
Proof. destruct omax as [hi|]; [|exact I]. intros x Hv. rewrite clip_bounds_val by assumption.
  unfold clip_hi. apply qmin_r. Qed.
Lemma clip_bounds_lower sh omin omax W : bounds_weakly_ordered omin omax ->
  lower_ok sh omin (clip_bounds sh omin omax W).
Proof. intros Hc. destruct omin as [lo|]; [|exact I]. intros x Hv. rewrite clip_bounds_val by assumption.
  unfold clip_hi, clip_lo. destruct omax as [hi|]; cbn in Hc; qcases; lra. Qed.
Lemma clip_bounds_in sh omin omax W : bounds_weakly_ordered omin omax ->
  lower_ok sh omin (clip_bounds sh omin omax W) /\ upper_ok sh omax (clip_bounds sh omin omax W).
Proof. intros Hc. split. apply clip_bounds_lower; assumption. apply clip_bounds_upper. Qed.

Lemma clip_bounds_id sh omin omax W : lower_ok sh omin W -> upper_ok sh omax W ->
  teq sh (clip_bounds sh omin omax W) W.
Proof. intros Hl Hu x Hv. rewrite clip_bounds_val by assumption. unfold clip_hi, clip_lo.
  destruct omin as [lo|], omax as [hi|]; cbn in Hl, Hu;
    try specialize (Hl x Hv); try specialize (Hu x Hv); qcases; lra. Qed.

(* clip only reads valid positions *)
Lemma clip_bounds_teq sh omin omax W W' : teq sh W W' -> teq sh (clip_bounds sh omin omax W) (clip_bounds sh omin omax W').
Proof. intros E x Hv. rewrite !clip_bounds_val by assumption. specialize (E x Hv).
  unfold clip_hi, clip_lo. destruct omin, omax; rewrite E; reflexivity. Qed.

(* ------------------------------------------------------------------ *)
(* the same at the level of a configuration (as used by finalize)       *)
(* ------------------------------------------------------------------ *)
Section CfgBounds.
Variable c : lat_cfg.
Hypothesis Hc : cfg_valid c.
Local Notation sh := (l_shape c).
Local Notation AB W := (approx_bounds (l_shape c) (l_ud c) (l_units c) (l_min c) (l_max c) W).
Local Notation CB W := (clip_bounds (l_shape c) (l_min c) (l_max c) W).

Lemma approx_bounds_cfg_lower W : lower_ok sh (l_min c) (AB W).
Proof. apply approx_bounds_lower. apply l_ud_lt. apply l_ud_units. apply cfg_valid_bounds_ordered; exact Hc. Qed.
Lemma approx_bounds_cfg_upper W : upper_ok sh (l_max c) (AB W).
Proof. apply approx_bounds_upper. apply l_ud_lt. apply l_ud_units. apply cfg_valid_bounds_ordered; exact Hc. Qed.
Lemma approx_bounds_cfg_monotone W : monotone_kernel c W -> monotone_kernel c (AB W).
Proof. intros Hm d Hd. apply approx_bounds_mono. apply l_ud_lt. apply l_ud_units.
  apply cfg_valid_bounds_ordered; exact Hc. pose proof (cfg_mono_dims_lt c d Hc Hd). lia. apply Hm; exact Hd. Qed.
Lemma approx_bounds_cfg_edgeworth W t : In t (all_trusts c) ->
  edgeworth_holds sh t W -> edgeworth_holds sh t (AB W).
Proof. destruct t as [[m cd] dir]. intros Hin. destruct (cfg_trust_dims c m cd dir Hc Hin) as (H1 & H2 & _).
  apply approx_bounds_edgeworth. apply l_ud_lt. apply l_ud_units. apply cfg_valid_bounds_ordered; exact Hc. lia. lia. Qed.
Lemma approx_bounds_cfg_trapezoid W t : In t (all_trusts c) ->
  trapezoid_holds sh t W -> trapezoid_holds sh t (AB W).
Proof. destruct t as [[m cd] dir]. intros Hin. destruct (cfg_trust_dims c m cd dir Hc Hin) as (H1 & H2 & _).
  apply approx_bounds_trapezoid. apply l_ud_lt. apply l_ud_units. apply cfg_valid_bounds_ordered; exact Hc. lia. lia. Qed.
Lemma approx_bounds_cfg_fixed W : lower_ok sh (l_min c) W -> upper_ok sh (l_max c) W -> teq sh (AB W) W.
Proof. apply approx_bounds_fixed. apply l_ud_lt. apply l_ud_units. apply cfg_valid_bounds_ordered; exact Hc. Qed.

Lemma clip_bounds_cfg_in W : lower_ok sh (l_min c) (CB W) /\ upper_ok sh (l_max c) (CB W).
Proof. apply clip_bounds_in. apply bounds_ordered_weaken. apply cfg_valid_bounds_ordered; exact Hc. Qed.
Lemma clip_bounds_cfg_monotone W : monotone_kernel c W -> monotone_kernel c (CB W).
Proof. intros Hm d Hd. apply clip_bounds_mono. apply Hm; exact Hd. Qed.
(* after approx_bounds the final clip changes nothing *)
Lemma clip_after_bounds_id W : teq sh (CB (AB W)) (AB W).
Proof. apply clip_bounds_id. apply approx_bounds_cfg_lower. apply approx_bounds_cfg_upper. Qed.
End CfgBounds.

(* ------------------------------------------------------------------ *)
(* the hypotheses are satisfiable: a 2 x 3 lattice with 2 units         *)
(* ------------------------------------------------------------------ *)
Definition exb_sh : list nat := [2; 3; 2]%nat.
Definition exb_w : tens := of_list exb_sh [0; 1; 1; 1; 2; 3;  1; 2; 2; 5#2; 4; 3].
Definition exb_w_out : tens := of_list exb_sh [-3; 0; 1; 5; 2; -1;  1; 4; 0; 2; -2; 7].

Example exb_axis : (2 < length exb_sh)%nat /\ nth 2 exb_sh 0%nat = 2%nat.
Proof. split; cbn; lia. Qed.

(* inside [0, 4]: hypotheses of approx_bounds_fixed / clip_bounds_id hold *)
Example approx_bounds_fixed_hyps :
  bounds_ordered (Some 0) (Some 4) /\ lower_ok exb_sh (Some 0) exb_w /\ upper_ok exb_sh (Some 4) exb_w.
Proof. split. cbn; lra. apply in_rangeb_ok. vm_compute. reflexivity. Qed.
Example approx_bounds_fixed_ex : teq exb_sh (approx_bounds exb_sh 2 2 (Some 0) (Some 4) exb_w) exb_w.
Proof. destruct exb_axis, approx_bounds_fixed_hyps as (? & ? & ?). apply approx_bounds_fixed; assumption. Qed.

(* outside [0, 1]: the projection really moves the kernel, and lands inside *)
Example approx_bounds_out_ex :
  ~ lower_ok exb_sh (Some 0) exb_w_out /\
  lower_ok exb_sh (Some 0) (approx_bounds exb_sh 2 2 (Some 0) (Some 1) exb_w_out) /\
  upper_ok exb_sh (Some 1) (approx_bounds exb_sh 2 2 (Some 0) (Some 1) exb_w_out).
Proof. destruct exb_axis as [Hx1 Hx2]. split; [|split].
  - intros Hf. specialize (Hf [0; 0; 0]%nat ltac:(repeat constructor)). vm_compute in Hf. apply Hf. reflexivity.
  - apply approx_bounds_lower; try assumption. cbn; lra.
  - apply approx_bounds_upper; try assumption. cbn; lra. Qed.
(* the concrete numbers: unit 0 has min -3, max 2 (w |-> (w+3)/5); unit 1 has min -1, max 7 (w |-> (w+1)/8) *)
Example approx_bounds_out_values :
  map Qred (to_list exb_sh (approx_bounds exb_sh 2 2 (Some 0) (Some 1) exb_w_out)) =
  map Qred [0; 1#8; 4#5; 3#4; 1; 0;  4#5; 5#8; 3#5; 3#8; 1#5; 1].
Proof. vm_compute. reflexivity. Qed.

(* a kernel with Edgeworth and trapezoid trust (main 0, conditional 1, direction +) that is monotone
   along dim 0 and violates the bounds [1, 3]: the preservation lemmas apply non-vacuously *)
Definition exb_w_trust : tens := of_list exb_sh [2; 1; 1; 1; 0; 1;  2; 1; 3; 1; 4; 2].
Example approx_bounds_keeps_ex :
  let W' := approx_bounds exb_sh 2 2 (Some 1) (Some 3) exb_w_trust in
  ~ lower_ok exb_sh (Some 1) exb_w_trust /\
  (mono_along exb_sh 0%nat exb_w_trust /\ edgeworth_holds exb_sh (0, 1, 1%Z)%nat exb_w_trust /\
   trapezoid_holds exb_sh (0, 1, 1%Z)%nat exb_w_trust) /\
  (mono_along exb_sh 0%nat W' /\ edgeworth_holds exb_sh (0, 1, 1%Z)%nat W' /\
   trapezoid_holds exb_sh (0, 1, 1%Z)%nat W' /\ lower_ok exb_sh (Some 1) W' /\ upper_ok exb_sh (Some 3) W').
Proof. destruct exb_axis as [Hx1 Hx2]. cbv zeta.
  assert (Hm : mono_along exb_sh 0%nat exb_w_trust) by (apply mono_alongb_ok; vm_compute; reflexivity).
  assert (He : edgeworth_holds exb_sh (0, 1, 1%Z)%nat exb_w_trust) by (apply edgeworth_holdsb_ok; vm_compute; reflexivity).
  assert (Ht : trapezoid_holds exb_sh (0, 1, 1%Z)%nat exb_w_trust) by (apply trapezoid_holdsb_ok; vm_compute; reflexivity).
  assert (Ho : bounds_ordered (Some 1) (Some 3)) by (cbn; lra).
  split; [|split; [auto|]].
  - intros Hf. specialize (Hf [0; 2; 0]%nat ltac:(repeat constructor; lia)). vm_compute in Hf. apply Hf. reflexivity.
  - split; [|split; [|split; [|split]]].
    + apply approx_bounds_mono; auto.
    + apply approx_bounds_edgeworth; auto.
    + apply approx_bounds_trapezoid; auto.
    + apply approx_bounds_lower; auto.
    + apply approx_bounds_upper; auto. Qed.

Print Assumptions approx_bounds_affine.
Print Assumptions approx_bounds_lower.
Print Assumptions approx_bounds_upper.
Print Assumptions approx_bounds_mono.
Print Assumptions approx_bounds_edgeworth.
Print Assumptions approx_bounds_trapezoid.
Print Assumptions approx_bounds_fixed.
Print Assumptions clip_bounds_mono.
Print Assumptions clip_bounds_in.
Print Assumptions clip_bounds_id.
Print Assumptions clip_after_bounds_id.
