(* Facts about the specification vocabulary of Proofs/LatticeSpec.v that every
   C01 proof file needs: [teq] is an equivalence, every Spec predicate is
   invariant under [teq], index lemmas for [upd] / [at2] / [behind], and the
   unit axis of  sizes ++ [units]. *)
From TFL Require Export Proofs.LatticeSpec.
Open Scope Q_scope.

(* ------------------------------------------------------------------ *)
(* teq                                                                  *)
(* ------------------------------------------------------------------ *)
Lemma teq_refl sh f : teq sh f f.
Proof. intros i _. reflexivity. Qed.
Lemma teq_sym sh f g : teq sh f g -> teq sh g f.
Proof. intros H i Hv. symmetry. apply H; assumption. Qed.
Lemma teq_trans sh f g h : teq sh f g -> teq sh g h -> teq sh f h.
Proof. intros H1 H2 i Hv. rewrite (H1 i Hv). apply H2; assumption. Qed.
Global Instance teq_equiv sh : Equivalence (teq sh).
Proof. split. intro f; apply teq_refl. intros f g; apply teq_sym. intros f g h; apply teq_trans. Qed.

Lemma memo_teq sh f : teq sh (memo sh f) f.
Proof. intros i Hv. rewrite memo_ok by assumption. reflexivity. Qed.
Lemma memo_teq_ext sh f g : (forall i, valid sh i -> f i == g i) -> teq sh (memo sh f) (memo sh g).
Proof. intros H i Hv. rewrite !memo_ok by assumption. apply H; assumption. Qed.
Lemma memo_teq_l sh f g : (forall i, valid sh i -> f i == g i) -> teq sh (memo sh f) g.
Proof. intros H i Hv. rewrite memo_ok by assumption. apply H; assumption. Qed.

(* ------------------------------------------------------------------ *)
(* upd / valid                                                          *)
(* ------------------------------------------------------------------ *)
Lemma upd_oob i d k : (length i <= d)%nat -> upd i d k = i.
Proof. revert d; induction i as [|x r IH]; intros d H; cbn in *. reflexivity.
  destruct d; [lia|]. f_equal. apply IH; lia. Qed.

(* all-cases form of nth_upd_same / nth_upd_other *)
Lemma nth_upd i d e k :
  nth e (upd i d k) 0%nat = if ((e =? d) && (d <? length i))%nat then k else nth e i 0%nat.
Proof. destruct (Nat.eqb_spec e d) as [->|Hne]; cbn [andb].
  - destruct (Nat.ltb_spec d (length i)). apply nth_upd_same; assumption.
    rewrite upd_oob by assumption. reflexivity.
  - apply nth_upd_other. auto. Qed.

Lemma upd_eq_self i d k : nth d i 0%nat = k -> upd i d k = i.
Proof. intros <-. apply upd_self. Qed.

Lemma valid_iff sh i :
  valid sh i <-> length i = length sh /\ forall e, (e < length sh)%nat -> (nth e i 0 < nth e sh 0)%nat.
Proof. split.
  - intros H. split. apply valid_length; assumption. intros e He. apply valid_nth; assumption.
  - revert i. induction sh as [|s sh IH]; intros [|k r] [Hl H]; cbn in Hl; try discriminate. constructor.
    constructor. apply (H 0%nat); cbn; lia. apply IH. split. lia. intros e He. apply (H (S e)). cbn; lia.
Qed.

Lemma valid_pos sh i d : valid sh i -> (d < length sh)%nat -> (0 < nth d sh 0)%nat.
Proof. intros Hv Hd. pose proof (valid_nth sh i d Hv Hd). lia. Qed.

(* upd_valid without the range condition when d is out of range *)
Lemma upd_valid_gen sh i d k :
  valid sh i -> ((d < length sh)%nat -> (k < nth d sh 0)%nat) -> valid sh (upd i d k).
Proof. intros Hv H. destruct (Nat.ltb_spec d (length sh)) as [Hd|Hd].
  - apply upd_valid; auto.
  - rewrite upd_oob. assumption. rewrite (valid_length sh i Hv). assumption. Qed.

(* moving along d inside the valid range: the index that mono_along talks about *)
Lemma upd_succ_valid sh i d : valid sh i -> (S (nth d i 0) < nth d sh 0)%nat -> valid sh (upd i d (S (nth d i 0%nat))).
Proof. intros. apply upd_valid; assumption. Qed.

(* ------------------------------------------------------------------ *)
(* at2                                                                  *)
(* ------------------------------------------------------------------ *)
Lemma at2_length b m c i j : length (at2 b m c i j) = length b.
Proof. unfold at2. rewrite !upd_length. reflexivity. Qed.

Lemma at2_valid sh b m c i j :
  valid sh b -> (i < nth m sh 0)%nat -> (j < nth c sh 0)%nat -> valid sh (at2 b m c i j).
Proof. intros Hv Hi Hj. unfold at2. apply upd_valid; [apply upd_valid|]; assumption. Qed.

Lemma at2_valid_gen sh b m c i j :
  valid sh b -> ((m < length sh)%nat -> (i < nth m sh 0)%nat) ->
  ((c < length sh)%nat -> (j < nth c sh 0)%nat) -> valid sh (at2 b m c i j).
Proof. intros Hv Hi Hj. unfold at2. apply upd_valid_gen; [apply upd_valid_gen|]; assumption. Qed.

Lemma at2_nth_m b m c i j : m <> c -> (m < length b)%nat -> nth m (at2 b m c i j) 0%nat = i.
Proof. intros Hne Hm. unfold at2. rewrite nth_upd_other by auto. apply nth_upd_same; assumption. Qed.
Lemma at2_nth_c b m c i j : (c < length b)%nat -> nth c (at2 b m c i j) 0%nat = j.
Proof. intros Hc. unfold at2. apply nth_upd_same. rewrite upd_length. assumption. Qed.
Lemma at2_nth_other b m c i j d : d <> m -> d <> c -> nth d (at2 b m c i j) 0%nat = nth d b 0%nat.
Proof. intros H1 H2. unfold at2. rewrite !nth_upd_other by auto. reflexivity. Qed.

Lemma at2_self x m c : at2 x m c (nth m x 0%nat) (nth c x 0%nat) = x.
Proof. unfold at2. rewrite (upd_self x m). apply upd_self. Qed.
Lemma at2_eq_self x m c i j : nth m x 0%nat = i -> nth c x 0%nat = j -> at2 x m c i j = x.
Proof. intros <- <-. apply at2_self. Qed.

Lemma at2_at2 b m c i j i' j' : m <> c -> at2 (at2 b m c i j) m c i' j' = at2 b m c i' j'.
Proof. intros Hne. unfold at2.
  rewrite (upd_comm (upd b m i) c m j i') by auto. rewrite upd_upd.
  rewrite upd_upd. reflexivity. Qed.

Lemma at2_upd_m b m c i j i' : m <> c -> upd (at2 b m c i j) m i' = at2 b m c i' j.
Proof. intros Hne. unfold at2. rewrite (upd_comm (upd b m i) c m j i') by auto. rewrite upd_upd. reflexivity. Qed.
Lemma at2_upd_c b m c i j j' : upd (at2 b m c i j) c j' = at2 b m c i j'.
Proof. unfold at2. apply upd_upd. Qed.
Lemma at2_upd_other b m c i j d k : d <> m -> d <> c -> upd (at2 b m c i j) d k = at2 (upd b d k) m c i j.
Proof. intros H1 H2. unfold at2.
  rewrite (upd_comm (upd b m i) c d j k) by auto.
  rewrite (upd_comm b m d i k) by auto. reflexivity. Qed.
(* the base point of a column only matters up to its m and c coordinates *)
Lemma at2_base b m c i0 j0 i j : m <> c -> at2 (at2 b m c i0 j0) m c i j = at2 b m c i j.
Proof. apply at2_at2. Qed.

(* ------------------------------------------------------------------ *)
(* behind                                                               *)
(* ------------------------------------------------------------------ *)
Definition keep_shape (keep : list nat) (sh : list nat) : list nat :=
  fold_left (fun s d => upd s d 1%nat) keep sh.
Lemma behind_unfold sh keep : behind sh keep = all_idx (keep_shape keep sh).
Proof. reflexivity. Qed.

Lemma keep_shape_length keep : forall sh, length (keep_shape keep sh) = length sh.
Proof. induction keep as [|d r IH]; intros sh; cbn. reflexivity.
  unfold keep_shape in IH. rewrite IH. apply upd_length. Qed.

Lemma keep_shape_nth keep : forall sh e, (e < length sh)%nat ->
  nth e (keep_shape keep sh) 0%nat = if mem_nat e keep then 1%nat else nth e sh 0%nat.
Proof. induction keep as [|d r IH]; intros sh e He. reflexivity.
  change (keep_shape (d :: r) sh) with (keep_shape r (upd sh d 1%nat)).
  rewrite IH by (rewrite upd_length; assumption).
  unfold mem_nat at 2. cbn [existsb]. fold (mem_nat e r).
  destruct (mem_nat e r); [rewrite orb_true_r; reflexivity|]. rewrite orb_false_r.
  rewrite nth_upd. destruct (Nat.eqb_spec e d) as [->|Hne]; cbn [andb]; [|reflexivity].
  destruct (Nat.ltb_spec d (length sh)); [reflexivity|lia]. Qed.

Lemma behind_iff sh keep b :
  In b (behind sh keep) <->
  length b = length sh /\
  forall e, (e < length sh)%nat ->
    if mem_nat e keep then nth e b 0%nat = 0%nat else (nth e b 0 < nth e sh 0)%nat.
Proof. rewrite behind_unfold, all_idx_valid, valid_iff, keep_shape_length.
  split; intros [Hl H]; (split; [exact Hl|]); intros e He; specialize (H e He);
    rewrite keep_shape_nth in * by assumption; destruct (mem_nat e keep); lia. Qed.

Lemma behind_zero sh keep b d : In b (behind sh keep) -> In d keep -> nth d b 0%nat = 0%nat.
Proof. intros Hb Hd. apply behind_iff in Hb. destruct Hb as [Hl H].
  destruct (Nat.ltb_spec d (length sh)) as [Hlt|Hge].
  - specialize (H d Hlt). apply mem_nat_true in Hd. rewrite Hd in H. exact H.
  - apply nth_overflow. lia. Qed.

Lemma behind_valid sh keep b :
  (forall d, In d keep -> (d < length sh)%nat -> (1 <= nth d sh 0)%nat) ->
  In b (behind sh keep) -> valid sh b.
Proof. intros Hpos Hb. apply behind_iff in Hb. destruct Hb as [Hl H]. apply valid_iff. split. exact Hl.
  intros e He. specialize (H e He). destruct (mem_nat e keep) eqn:E; [|exact H].
  apply mem_nat_true in E. specialize (Hpos e E He). lia. Qed.

Lemma behind_intro sh keep b :
  valid sh b -> (forall d, In d keep -> nth d b 0%nat = 0%nat) -> In b (behind sh keep).
Proof. intros Hv Hz. apply behind_iff. apply valid_iff in Hv. destruct Hv as [Hl H]. split. exact Hl.
  intros e He. destruct (mem_nat e keep) eqn:E. apply Hz. apply mem_nat_true; exact E. apply H; exact He. Qed.

(* projecting a valid index onto the behind set *)
Definition zero_at (keep : list nat) (x : idx) : idx := fold_left (fun b d => upd b d 0%nat) keep x.
Lemma zero_at_length keep : forall x, length (zero_at keep x) = length x.
Proof. induction keep as [|d r IH]; intros x; cbn. reflexivity. unfold zero_at in IH. rewrite IH. apply upd_length. Qed.
Lemma zero_at_nth keep : forall x e,
  nth e (zero_at keep x) 0%nat = if mem_nat e keep then 0%nat else nth e x 0%nat.
Proof. induction keep as [|d r IH]; intros x e. reflexivity.
  change (zero_at (d :: r) x) with (zero_at r (upd x d 0%nat)). rewrite IH.
  unfold mem_nat at 2. cbn [existsb]. fold (mem_nat e r).
  destruct (mem_nat e r); [rewrite orb_true_r; reflexivity|]. rewrite orb_false_r.
  rewrite nth_upd. destruct (Nat.eqb_spec e d) as [->|Hne]; cbn [andb]; [|reflexivity].
  destruct (Nat.ltb_spec d (length x)); [reflexivity|]. apply nth_overflow. lia. Qed.
Lemma behind_proj sh keep x : valid sh x -> In (zero_at keep x) (behind sh keep).
Proof. intros Hv. apply valid_iff in Hv. destruct Hv as [Hl H]. apply behind_iff. split.
  rewrite zero_at_length. exact Hl.
  intros e He. rewrite zero_at_nth. destruct (mem_nat e keep). reflexivity. apply H; exact He. Qed.

Lemma behind1_proj sh ud x : valid sh x -> In (upd x ud 0%nat) (behind sh [ud]).
Proof. apply (behind_proj sh [ud] x). Qed.
Lemma behind3_proj sh m c ud x :
  valid sh x -> In (upd (upd (upd x m 0%nat) c 0%nat) ud 0%nat) (behind sh [m; c; ud]).
Proof. apply (behind_proj sh [m; c; ud] x). Qed.

(* a valid index is recovered from its projection onto behind [m;c;ud] *)
Lemma behind3_recover x m c ud : m <> c -> m <> ud -> c <> ud ->
  upd (at2 (upd (upd (upd x m 0%nat) c 0%nat) ud 0%nat) m c (nth m x 0%nat) (nth c x 0%nat)) ud (nth ud x 0%nat) = x.
Proof. intros Hmc Hmu Hcu. unfold at2.
  set (i := nth m x 0%nat). set (j := nth c x 0%nat). set (u := nth ud x 0%nat).
  rewrite (upd_comm (upd (upd x m 0%nat) c 0%nat) ud m 0%nat i) by auto.
  rewrite (upd_comm (upd x m 0%nat) c m 0%nat i) by auto. rewrite upd_upd.
  rewrite (upd_comm (upd (upd x m i) c 0%nat) ud c 0%nat j) by auto. rewrite upd_upd.
  rewrite upd_upd. unfold i, j, u. rewrite (upd_self x m), (upd_self x c). apply upd_self. Qed.

(* ------------------------------------------------------------------ *)
(* the unit axis of  sizes ++ [units]                                   *)
(* ------------------------------------------------------------------ *)
Lemma unit_axis_lt (sizes : list nat) (units : nat) : (length sizes < length (sizes ++ [units]))%nat.
Proof. rewrite app_length. cbn. lia. Qed.
Lemma unit_axis_nth (sizes : list nat) (units : nat) : nth (length sizes) (sizes ++ [units]) 0%nat = units.
Proof. rewrite app_nth2 by lia. rewrite Nat.sub_diag. reflexivity. Qed.
Lemma size_axis_nth (sizes : list nat) (units d : nat) : (d < length sizes)%nat -> nth d (sizes ++ [units]) 0%nat = nth d sizes 0%nat.
Proof. intros. apply app_nth1. assumption. Qed.
Lemma l_ud_lt c : (l_ud c < length (l_shape c))%nat.
Proof. apply unit_axis_lt. Qed.
Lemma l_ud_units c : nth (l_ud c) (l_shape c) 0%nat = l_units c.
Proof. apply unit_axis_nth. Qed.
Lemma l_shape_length c : length (l_shape c) = S (length (l_sizes c)).
Proof. unfold l_shape. rewrite app_length. cbn. lia. Qed.

(* W x is one of the values reduced over for its own unit *)
Lemma unit_vals_in sh ud W x : valid sh x -> In (W x) (unit_vals sh ud W (nth ud x 0%nat)).
Proof. intros Hv. unfold unit_vals. apply in_map_iff. exists (upd x ud 0%nat). split.
  rewrite upd_upd, upd_self. reflexivity. apply behind1_proj. assumption. Qed.
(* and every reduced value is W at a valid index of that unit *)
Lemma unit_vals_inv sh ud W u v : (u < nth ud sh 0)%nat -> In v (unit_vals sh ud W u) ->
  exists x, valid sh x /\ nth ud x 0%nat = u /\ v = W x.
Proof. intros Hu Hin. unfold unit_vals in Hin. apply in_map_iff in Hin. destruct Hin as [b [<- Hb]].
  assert (Hd : (ud < length sh)%nat).
  { destruct (Nat.ltb_spec ud (length sh)); [assumption|]. rewrite nth_overflow in Hu by assumption. lia. }
  assert (Hvb : valid sh b).
  { apply (behind_valid sh [ud]); [|assumption]. intros d [<-|[]] _. lia. }
  exists (upd b ud u). split. apply upd_valid; assumption. split; [|reflexivity].
  apply nth_upd_same. rewrite (valid_length sh b Hvb). assumption. Qed.

(* ------------------------------------------------------------------ *)
(* invariance of the Spec predicates under teq                          *)
(* ------------------------------------------------------------------ *)
Lemma mono_along_teq sh d f g : teq sh f g -> mono_along sh d f -> mono_along sh d g.
Proof. intros E H i Hv Hs.
  rewrite <- (E i Hv), <- (E _ (upd_valid _ _ _ _ Hv Hs)). apply H; assumption. Qed.

Lemma esq_teq sh f g m c i j b : teq sh f g -> valid sh b ->
  (S i < nth m sh 0)%nat -> (S j < nth c sh 0)%nat -> esq f m c i j b == esq g m c i j b.
Proof. intros E Hv Hi Hj. unfold esq.
  pose proof (E _ (at2_valid sh b m c (S i) j Hv ltac:(lia) ltac:(lia))).
  pose proof (E _ (at2_valid sh b m c i j Hv ltac:(lia) ltac:(lia))).
  pose proof (E _ (at2_valid sh b m c (S i) (S j) Hv ltac:(lia) ltac:(lia))).
  pose proof (E _ (at2_valid sh b m c i (S j) Hv ltac:(lia) ltac:(lia))). lra. Qed.

Lemma edgeworth_holds_teq sh t f g : teq sh f g -> edgeworth_holds sh t f -> edgeworth_holds sh t g.
Proof. destruct t as [[m c] dir]. intros E H b i j Hv Hi Hj. specialize (H b i j Hv Hi Hj).
  pose proof (esq_teq sh f g m c i j b E Hv Hi Hj). destruct (0 <? dir)%Z; lra. Qed.

Lemma trapezoid_holds_teq sh t f g : teq sh f g -> trapezoid_holds sh t f -> trapezoid_holds sh t g.
Proof. destruct t as [[m c] dir]. intros E H b j Hv Hj. specialize (H b j Hv Hj). cbv zeta in *.
  set (mx := (nth m sh 0 - 1)%nat) in *.
  assert (V : forall i k, (i = 0 \/ i = mx)%nat -> (k = j \/ k = S j)%nat -> valid sh (at2 b m c i k)).
  { intros i k Hi Hk. apply at2_valid_gen. assumption.
    - intros Hm. pose proof (valid_pos sh b m Hv Hm). unfold mx in Hi. lia.
    - intros _. lia. }
  pose proof (E _ (V 0%nat j ltac:(auto) ltac:(auto))).
  pose proof (E _ (V 0%nat (S j) ltac:(auto) ltac:(auto))).
  pose proof (E _ (V mx j ltac:(auto) ltac:(auto))).
  pose proof (E _ (V mx (S j) ltac:(auto) ltac:(auto))).
  destruct (0 <? dir)%Z; lra. Qed.

Lemma lower_ok_teq sh omin f g : teq sh f g -> lower_ok sh omin f -> lower_ok sh omin g.
Proof. destruct omin as [lo|]; cbn; [|auto]. intros E H i Hv. rewrite <- (E i Hv). apply H; assumption. Qed.
Lemma upper_ok_teq sh omax f g : teq sh f g -> upper_ok sh omax f -> upper_ok sh omax g.
Proof. destruct omax as [hi|]; cbn; [|auto]. intros E H i Hv. rewrite <- (E i Hv). apply H; assumption. Qed.

Lemma monotone_kernel_teq c f g : teq (l_shape c) f g -> monotone_kernel c f -> monotone_kernel c g.
Proof. intros E H d Hd. apply (mono_along_teq _ _ f g E). apply H; assumption. Qed.
Lemma feasible_kernel_teq c f g : teq (l_shape c) f g -> feasible_kernel c f -> feasible_kernel c g.
Proof. intros E (H1 & H2 & H3 & H4 & H5). repeat split.
  - apply (monotone_kernel_teq c f g E H1).
  - intros t Ht. apply (edgeworth_holds_teq _ _ f g E). apply H2; assumption.
  - intros t Ht. apply (trapezoid_holds_teq _ _ f g E). apply H3; assumption.
  - apply (lower_ok_teq _ _ f g E H4).
  - apply (upper_ok_teq _ _ f g E H5). Qed.

(* ------------------------------------------------------------------ *)
(* monotone along d: any two positions, not only neighbours             *)
(* ------------------------------------------------------------------ *)
Lemma mono_along_le sh d f i : mono_along sh d f -> valid sh i -> (d < length sh)%nat ->
  forall k2 k1, (k1 <= k2)%nat -> (k2 < nth d sh 0)%nat -> f (upd i d k1) <= f (upd i d k2).
Proof. intros Hm Hv Hd. induction k2 as [|k2 IH]; intros k1 Hle Hk.
  - assert (k1 = 0%nat) by lia. subst. lra.
  - destruct (Nat.eq_dec k1 (S k2)) as [->|Hne]. lra.
    eapply Qle_trans. apply (IH k1); lia.
    assert (Hv2 : valid sh (upd i d k2)) by (apply upd_valid; [assumption|lia]).
    pose proof (Hm (upd i d k2) Hv2) as Hs.
    rewrite nth_upd_same in Hs by (rewrite (valid_length sh i Hv); assumption).
    rewrite upd_upd in Hs. apply Hs. assumption. Qed.

(* ------------------------------------------------------------------ *)
(* deciding a property of all valid indices (for concrete Examples)     *)
(* ------------------------------------------------------------------ *)
Lemma forall_valid_check sh (P : idx -> bool) :
  forallb P (all_idx sh) = true -> forall i, valid sh i -> P i = true.
Proof. intros H i Hv. rewrite forallb_forall in H. apply H. apply all_idx_valid. assumption. Qed.

Definition mono_alongb (sh : list nat) (d : nat) (f : tens) : bool :=
  forallb (fun i => if (S (nth d i 0) <? nth d sh 0)%nat then Qle_bool (f i) (f (upd i d (S (nth d i 0%nat)))) else true)
          (all_idx sh).
Lemma mono_alongb_ok sh d f : mono_alongb sh d f = true -> mono_along sh d f.
Proof. intros H i Hv Hs. pose proof (forall_valid_check sh _ H i Hv) as Hc. cbv beta in Hc.
  apply Nat.ltb_lt in Hs. rewrite Hs in Hc. apply Qle_bool_iff. exact Hc. Qed.
Definition teqb (sh : list nat) (f g : tens) : bool := forallb (fun i => Qeq_bool (f i) (g i)) (all_idx sh).
Lemma teqb_ok sh f g : teqb sh f g = true -> teq sh f g.
Proof. intros H i Hv. pose proof (forall_valid_check sh _ H i Hv) as Hc. apply Qeq_bool_iff. exact Hc. Qed.
Definition in_rangeb (sh : list nat) (omin omax : option Q) (f : tens) : bool :=
  forallb (fun i => match omin with Some lo => Qle_bool lo (f i) | None => true end &&
                    match omax with Some hi => Qle_bool (f i) hi | None => true end) (all_idx sh).
Lemma in_rangeb_ok sh omin omax f : in_rangeb sh omin omax f = true -> lower_ok sh omin f /\ upper_ok sh omax f.
Proof. intros H. split; [destruct omin as [lo|]|destruct omax as [hi|]]; cbn; auto; intros i Hv;
  pose proof (forall_valid_check sh _ H i Hv) as Hc; cbv beta in Hc; apply andb_prop in Hc; destruct Hc as [H1 H2];
  apply Qle_bool_iff; assumption. Qed.

Definition edgeworth_holdsb (sh : list nat) (t : trust) (f : tens) : bool :=
  let '(m, c, dir) := t in
  forallb (fun b =>
    forallb (fun i =>
      forallb (fun j => if (0 <? dir)%Z then Qle_bool (esq f m c i j b) 0 else Qle_bool 0 (esq f m c i j b))
              (seq 0 (nth c sh 0%nat - 1)))
            (seq 0 (nth m sh 0%nat - 1)))
          (all_idx sh).
Lemma edgeworth_holdsb_ok sh t f : edgeworth_holdsb sh t f = true -> edgeworth_holds sh t f.
Proof. destruct t as [[m c] dir]. intros H b i j Hv Hi Hj.
  pose proof (forall_valid_check sh _ H b Hv) as Hb. cbv beta in Hb.
  rewrite forallb_forall in Hb. specialize (Hb i ltac:(apply in_seq; lia)).
  rewrite forallb_forall in Hb. specialize (Hb j ltac:(apply in_seq; lia)).
  destruct (0 <? dir)%Z; apply Qle_bool_iff; exact Hb. Qed.

Definition trapezoid_holdsb (sh : list nat) (t : trust) (f : tens) : bool :=
  let '(m, c, dir) := t in
  let mx := (nth m sh 0%nat - 1)%nat in
  forallb (fun b =>
    forallb (fun j =>
      if (0 <? dir)%Z
      then Qle_bool (f (at2 b m c 0%nat (S j))) (f (at2 b m c 0%nat j)) && Qle_bool (f (at2 b m c mx j)) (f (at2 b m c mx (S j)))
      else Qle_bool (f (at2 b m c 0%nat j)) (f (at2 b m c 0%nat (S j))) && Qle_bool (f (at2 b m c mx (S j))) (f (at2 b m c mx j)))
            (seq 0 (nth c sh 0%nat - 1)))
          (all_idx sh).
Lemma trapezoid_holdsb_ok sh t f : trapezoid_holdsb sh t f = true -> trapezoid_holds sh t f.
Proof. destruct t as [[m c] dir]. intros H b j Hv Hj.
  pose proof (forall_valid_check sh _ H b Hv) as Hb. cbv beta zeta in Hb.
  rewrite forallb_forall in Hb. specialize (Hb j ltac:(apply in_seq; lia)).
  destruct (0 <? dir)%Z; apply andb_prop in Hb; destruct Hb as [H1 H2]; split; apply Qle_bool_iff; assumption. Qed.

(* ------------------------------------------------------------------ *)
(* what cfg_valid says about dimensions                                 *)
(* ------------------------------------------------------------------ *)
Lemma cfg_trust_dims c m cd dir : cfg_valid c -> In (m, cd, dir) (all_trusts c) ->
  (m < l_ud c)%nat /\ (cd < l_ud c)%nat /\ m <> cd /\ (dir = 1%Z \/ dir = (-1)%Z).
Proof. intros (_ & _ & _ & _ & Hok & Hmc & _) Hin. pose proof (Hok _ Hin) as (H1 & H2 & _ & H4).
  unfold l_ud. repeat split; auto. exact (Hmc _ _ Hin Hin). Qed.
Lemma cfg_edge_dims c m cd dir : cfg_valid c -> In (m, cd, dir) (l_edge c) ->
  (m < l_ud c)%nat /\ (cd < l_ud c)%nat /\ m <> cd /\ (dir = 1%Z \/ dir = (-1)%Z).
Proof. intros Hc Hin. apply cfg_trust_dims; auto. unfold all_trusts. apply in_app_iff; left; assumption. Qed.
Lemma cfg_trap_dims c m cd dir : cfg_valid c -> In (m, cd, dir) (l_trap c) ->
  (m < l_ud c)%nat /\ (cd < l_ud c)%nat /\ m <> cd /\ (dir = 1%Z \/ dir = (-1)%Z).
Proof. intros Hc Hin. apply cfg_trust_dims; auto. unfold all_trusts. apply in_app_iff; right; assumption. Qed.
