(* Soundness of the boolean wiring check of Model/PremadeCheck.v at tolerance 0:
   [ens_ok 0 false e = true] implies the hypotheses of the ensemble composition
   theorems of Props/C03.v (C03_ensemble_monotone_mixed,
   C03_ensemble_bounded_mixed) and hence monotonicity / boundedness of
   [ensemble2_eval] on the extracted structure, for ALL inputs; all-vertices
   lattice members and KroneckerFactoredLattice units alike (kfl_layer_ok
   decides kfl_feasible: term_ok_sound). *)
From TFL Require Import Model.PremadeKFL Model.PremadeCheck Proofs.Premade Proofs.PremadeKFL.
From TFL Require Import Proofs.PWLEval Proofs.LinearEval Proofs.LatticeInterp.
Open Scope Q_scope.

(* ---------------------------------------------------------------------- *)
(* elementary decisions                                                     *)
(* ---------------------------------------------------------------------- *)
Lemma le_t0 a b : le_t 0 a b = true -> a <= b.
Proof. unfold le_t. intros H. apply Qle_bool_iff in H. lra. Qed.

Lemma in_opt_range0 lo hi v : in_opt_range 0 (Some lo) (Some hi) v = true -> lo <= v <= hi.
Proof. unfold in_opt_range. intros H. apply andb_prop in H. destruct H as [H1 H2].
  split; apply le_t0; assumption. Qed.
Lemma in_opt_range0_lo lo hi v : in_opt_range 0 (Some lo) hi v = true -> lo <= v.
Proof. unfold in_opt_range. intros H. apply andb_prop in H. destruct H as [H1 _]. apply le_t0; assumption. Qed.
Lemma in_opt_range0_hi lo hi v : in_opt_range 0 lo (Some hi) v = true -> v <= hi.
Proof. unfold in_opt_range. intros H. apply andb_prop in H. destruct H as [_ H2]. apply le_t0; assumption. Qed.

Lemma adjacent_nth (r : Q -> Q -> bool) : forall l j, adjacent r l = true -> (S j < length l)%nat ->
  r (nth j l 0) (nth (S j) l 0) = true.
Proof. induction l as [|a l IH]; intros j H Hj; cbn in Hj; [lia|].
  destruct l as [|b l]; [cbn in Hj; lia|]. cbn [adjacent] in H. apply andb_prop in H. destruct H as [H1 H2].
  destruct j as [|j]. exact H1. cbn [nth]. apply (IH j H2). cbn in *. lia. Qed.

Lemma cumsum_incl_length : forall l acc, length (cumsum_incl acc l) = length l.
Proof. induction l as [|a l IH]; intros acc; cbn; [reflexivity|]. f_equal. apply IH. Qed.

Lemma adjacent_nondecr col : adjacent (le_t 0) (outs_of col) = true -> outs_nondecr col.
Proof. intros H j Hj. unfold kp_outs. apply le_t0. apply (adjacent_nth (le_t 0) (outs_of col) j H).
  unfold outs_of. rewrite cumsum_incl_length. exact Hj. Qed.
Lemma adjacent_nonincr col : adjacent (fun a b => le_t 0 b a) (outs_of col) = true -> outs_nonincr col.
Proof. intros H j Hj. unfold kp_outs. apply le_t0.
  apply (adjacent_nth (fun a b => le_t 0 b a) (outs_of col) j H).
  unfold outs_of. rewrite cumsum_incl_length. exact Hj. Qed.

Lemma seg_ok_segments : forall kps lens, seg_ok kps lens = true -> exists e, segments kps lens e.
Proof. induction kps as [|k kps IH]; intros [|l lens] H; cbn [seg_ok] in H; try discriminate.
  - exists 0. exact I.
  - apply andb_prop in H. destruct H as [H H3]. apply andb_prop in H. destruct H as [H1 H2].
    assert (Hl : 0 < l).
    { destruct (Qle_bool l 0) eqn:E; [discriminate|]. apply Qnot_le_lt. intros C. apply Qle_bool_iff in C. congruence. }
    destruct kps as [|k' kps].
    + destruct lens; [|cbn in H3; discriminate]. exists (k + l). cbn. split. exact Hl. split. reflexivity. exact I.
    + destruct (IH lens H3) as [e He]. exists e. cbn [segments]. split. exact Hl. split.
      apply Qeq_bool_iff. exact H2. exact He. Qed.

Lemma forallb_In {A} (f : A -> bool) l x : forallb f l = true -> In x l -> f x = true.
Proof. intros H Hx. rewrite forallb_forall in H. apply H. exact Hx. Qed.

(* ---------------------------------------------------------------------- *)
(* calibrators                                                              *)
(* ---------------------------------------------------------------------- *)
Lemma calib_ok_range lo hi f c : calib_ok 0 (Some lo) (Some hi) f c = true -> calib_range c lo hi.
Proof. destruct c as [kps lens col miss|vals d]; cbn [calib_ok calib_range]; intros H.
  - repeat (apply andb_prop in H; destruct H as [H ?]).
    split. apply seg_ok_segments. assumption. split. apply Nat.eqb_eq. assumption. split.
    + intros y Hy. apply in_opt_range0. eapply forallb_In. eassumption. exact Hy.
    + destruct miss as [[miv mo]|]; [apply in_opt_range0; assumption|exact I].
  - apply andb_prop in H. destruct H as [H _]. intros v Hv. apply in_opt_range0. eapply forallb_In; eassumption. Qed.

(* numeric feature: the calibrator is a PWL unit of the feature's direction *)
Lemma calib_ok_numeric lo hi m c : m <> 0%Z -> calib_ok 0 lo hi (MNum m) c = true ->
  exists kps lens col miss, c = CPwl kps lens col miss /\ Forall (fun l => 0 < l) lens /\
    (m = 1%Z -> outs_nondecr col) /\ (m = (-1)%Z -> outs_nonincr col).
Proof. destruct c as [kps lens col miss|vals d]; cbn [calib_ok]; intros Hm H.
  - repeat (apply andb_prop in H; destruct H as [H ?]). exists kps, lens, col, miss. split. reflexivity.
    split. { destruct (seg_ok_segments kps lens) as [e He]. assumption. exact (segments_pos kps lens e He). }
    split; intros ->; cbn in *. apply adjacent_nondecr; assumption. apply adjacent_nonincr; assumption.
  - apply andb_prop in H. destruct H as [_ H]. apply Z.eqb_eq in H. contradiction. Qed.

Lemma calib_ok_pairs lo hi ps c : ps <> [] -> calib_ok 0 lo hi (MPairs ps) c = true ->
  exists vals d, c = CCat vals d /\
    forall a b, In (a, b) ps -> (a < length vals)%nat /\ (b < length vals)%nat /\ nth a vals 0 <= nth b vals 0.
Proof. destruct c as [kps lens col miss|vals d]; cbn [calib_ok]; intros Hne H.
  - repeat (apply andb_prop in H; destruct H as [H ?]). discriminate.
  - apply andb_prop in H. destruct H as [_ H]. exists vals, d. split. reflexivity. intros a b Hab.
    pose proof (forallb_In _ _ _ H Hab) as G. cbn [fst snd] in G.
    apply andb_prop in G. destruct G as [G G3]. apply andb_prop in G. destruct G as [G1 G2].
    split. apply Nat.ltb_lt; assumption. split. apply Nat.ltb_lt; assumption. apply le_t0; assumption. Qed.

(* output calibrator *)
Lemma oc_ok_monotone lo hi oc : oc_ok 0 lo hi oc = true -> out_monotone oc.
Proof. destruct oc as [[[kps lens] col]|]; cbn [oc_ok out_monotone]; [|auto]. intros H.
  repeat (apply andb_prop in H; destruct H as [H ?]). split.
  - destruct (seg_ok_segments kps lens) as [e He]. assumption. exact (segments_pos kps lens e He).
  - apply adjacent_nondecr; assumption. Qed.
Lemma oc_ok_range lo hi oc : oc_ok 0 (Some lo) (Some hi) oc = true -> out_range oc lo hi.
Proof. destruct oc as [[[kps lens] col]|]; cbn [oc_ok out_range]; [|auto]. intros H.
  repeat (apply andb_prop in H; destruct H as [H ?]). split. apply seg_ok_segments; assumption.
  split. apply Nat.eqb_eq; assumption. intros y Hy. apply in_opt_range0. eapply forallb_In; eassumption. Qed.

(* ---------------------------------------------------------------------- *)
(* lattice kernels                                                          *)
(* ---------------------------------------------------------------------- *)
Lemma nondecr_along_knondecr sizes K d : nondecr_along 0 sizes K d = true -> knondecr sizes K d.
Proof. unfold nondecr_along, knondecr. intros H i Hi Hd.
  pose proof (forallb_In _ _ i H (proj2 (all_idx_valid sizes i) Hi)) as G. cbn beta in G.
  apply Nat.ltb_lt in Hd. rewrite Hd in G. apply le_t0. exact G. Qed.

(* ---------------------------------------------------------------------- *)
(* KroneckerFactoredLattice layers: kfl_layer_ok decides kfl_feasible        *)
(* ---------------------------------------------------------------------- *)
Lemma adjacent_sorted : forall v, adjacent (le_t 0) v = true -> PK.sorted v.
Proof. induction v as [|a v IH]; intros H. exact I. destruct v as [|b v]. exact I.
  cbn [adjacent] in H. apply andb_prop in H. destruct H as [H1 H2]. split. apply le_t0; exact H1. apply IH; exact H2. Qed.
Lemma adjacent_rsorted : forall v, adjacent (fun a b => le_t 0 b a) v = true -> PK.rsorted v.
Proof. induction v as [|a v IH]; intros H. exact I. destruct v as [|b v]. exact I.
  cbn [adjacent] in H. apply andb_prop in H. destruct H as [H1 H2]. split. apply le_t0; exact H1. apply IH; exact H2. Qed.

Lemma forallb_combine_Forall2 {A B} (f : A * B -> bool) : forall (a : list A) (b : list B), length a = length b ->
  forallb f (combine a b) = true -> Forall2 (fun x y => f (x, y) = true) a b.
Proof. induction a as [|x a IH]; intros [|y b] Hl H; try discriminate; constructor.
  - cbn in H. apply andb_prop in H. tauto.
  - apply IH. cbn in Hl; lia. cbn in H. apply andb_prop in H. tauto. Qed.

Lemma count_true_existsb : forall ms, (0 < MK.count_true ms)%nat -> existsb (fun b => b) ms = true.
Proof. unfold MK.count_true. induction ms as [|[|] ms IH]; cbn; intros H; [lia|reflexivity|apply IH; exact H]. Qed.

Lemma nonneg_tnonneg vs : forallb (forallb (le_t 0 0)) vs = true -> PK.tnonneg vs.
Proof. intros H. apply Forall_forall. intros v Hv. apply Forall_forall. intros w Hw. apply le_t0.
  exact (forallb_In _ _ w (forallb_In _ _ v H Hv) Hw). Qed.

Lemma qabs_le0 a b : qabs_le 0 a b = true -> - b <= a <= b.
Proof. unfold qabs_le. intros H. apply andb_prop in H. destruct H as [H1 H2]. apply le_t0 in H1, H2. lra. Qed.

Lemma term_ok_sound c dims s vs : (forall ms, MK.canon_monos (MK.c_monos c) = Some ms -> length ms = dims) ->
  term_ok 0 c dims s vs = true -> PK.tshape (MK.c_size c) dims vs /\ PK.kgood c s vs /\ PK.sgood c s.
Proof. intros Hms H. unfold term_ok in H. cbn zeta in H.
  apply andb_prop in H; destruct H as [H T6]. apply andb_prop in H; destruct H as [H T5].
  apply andb_prop in H; destruct H as [H T4]. apply andb_prop in H; destruct H as [H T3].
  apply andb_prop in H; destruct H as [T1 T2]. apply Nat.eqb_eq in T1.
  split. { split. exact T1. apply Forall_forall. intros v Hv. apply Nat.eqb_eq. exact (forallb_In _ _ v T2 Hv). }
  split.
  - split; [|split].
    + intros ms Em Hc. rewrite Em in T4. rewrite (count_true_existsb ms Hc) in T4.
      apply Bool.orb_prop in T4. destruct T4 as [Z|G].
      * left. apply qabs_le0 in Z. lra.
      * apply andb_prop in G. destruct G as [G1 G2]. apply nonneg_tnonneg in G1.
        pose proof (forallb_combine_Forall2 _ ms vs ltac:(rewrite (Hms ms Em); lia) G2) as F. cbn [fst snd] in F.
        destruct (Qlt_le_dec 0 s) as [Hp|Hn].
        -- right. left. split. exact Hp. split. exact G1. eapply PK.Forall2_impl. exact F. cbn beta. intros m v Hmv ->.
           assert (E : Qle_bool 0 s = true) by (apply Qle_bool_iff; lra). rewrite E in Hmv. apply adjacent_sorted. exact Hmv.
        -- destruct (Qlt_le_dec s 0) as [Hs|Hz]; [|left; lra].
           right. right. split. exact Hs. split. exact G1. eapply PK.Forall2_impl. exact F. cbn beta. intros m v Hmv ->.
           assert (E : Qle_bool 0 s = false).
           { destruct (Qle_bool 0 s) eqn:E'; [|reflexivity]. apply Qle_bool_iff in E'. lra. }
           rewrite E in Hmv. apply adjacent_rsorted. exact Hmv.
    + intros I1 I2. destruct (MK.c_min c), (MK.c_max c); try discriminate. unfold PK.prodmax. apply le_t0 in T5. lra.
    + intros I. destruct (MK.c_min c), (MK.c_max c); cbn in I; try congruence; apply nonneg_tnonneg; exact T6.
  - unfold PK.sgood. destruct (MK.c_min c) as [lo|], (MK.c_max c) as [hi|].
    + apply qabs_le0 in T3. lra.
    + apply le_t0 in T3. exact T3.
    + apply le_t0 in T3. exact T3.
    + exact I. Qed.

Lemma kfl_layer_ok_feasible lo hi c p dims : kfl_layer_ok 0 lo hi c p dims = true -> kfl_feasible c dims p.
Proof. intros HL. unfold kfl_layer_ok in HL.
  apply andb_prop in HL; destruct HL as [HL K11]. apply andb_prop in HL; destruct HL as [HL K10].
  apply andb_prop in HL; destruct HL as [HL K9]. apply andb_prop in HL; destruct HL as [HL K8].
  apply andb_prop in HL; destruct HL as [HL K7]. apply andb_prop in HL; destruct HL as [HL K6].
  apply andb_prop in HL; destruct HL as [HL K5]. apply andb_prop in HL; destruct HL as [HL K4].
  apply andb_prop in HL; destruct HL as [HL K3]. apply andb_prop in HL; destruct HL as [K1 K2].
  apply Nat.eqb_eq in K8.
  assert (Hms : forall ms, MK.canon_monos (MK.c_monos c) = Some ms -> length ms = dims).
  { intros ms E. destruct (MK.c_monos c) as [ms0|]; [|discriminate]. apply Nat.eqb_eq in K7.
    destruct ms0; cbn in E; [discriminate|]. injection E as <-. exact K7. }
  split.
  - pose proof (forallb_combine_Forall2 _ _ _ K8 K10) as F. eapply PK.Forall2_impl. exact F. cbn beta.
    intros su ku G. cbn [fst snd] in G. apply andb_prop in G. destruct G as [G1 G2]. apply Nat.eqb_eq in G1.
    pose proof (forallb_combine_Forall2 _ _ _ G1 G2) as F2. eapply PK.Forall2_impl. exact F2. cbn beta.
    intros s vs G3. cbn [fst snd] in G3. exact (term_ok_sound c dims s vs Hms G3).
  - intros Hb. rewrite Hb in K11. apply Forall_forall. intros b Hin. pose proof (forallb_In _ _ b K11 Hin) as G.
    apply qabs_le0 in G. lra. Qed.

(* ---------------------------------------------------------------------- *)
(* members                                                                  *)
(* ---------------------------------------------------------------------- *)
Lemma forallb_seq (f : nat -> bool) n q : forallb f (seq 0 n) = true -> (q < n)%nat -> f q = true.
Proof. intros H Hq. apply (forallb_In f (seq 0 n) q H). apply in_seq. lia. Qed.

Lemma pos_ok_facts feat size mono_at i cal : pos_ok 0 feat size mono_at i cal = true ->
  (i < length feat)%nat /\ calib_range cal 0 (qn size - 1) /\
  calib_ok 0 (Some 0) (Some (qn size - 1)) (nth i feat (MNum 0)) cal = true /\
  (lattice_dim_mono (nth i feat (MNum 0)) = 1%Z -> mono_at = true).
Proof. unfold pos_ok. intros H. apply andb_prop in H. destruct H as [H H3]. apply andb_prop in H. destruct H as [H1 H2].
  split. apply Nat.ltb_lt; exact H1. split. exact (calib_ok_range _ _ _ _ H2). split. exact H2.
  intros E. rewrite E in H3. exact H3. Qed.

Definition member_bounded (lo hi : option Q) (m : member2) : Prop :=
  forall l h, lo = Some l -> hi = Some h -> exists l' h', l' == l /\ h' == h /\ member2_in_bounds m l' h'.

Lemma qeq_opt a lo : match a, lo with Some a, Some b => Qeq_bool a b | None, None => true | _, _ => false end = true ->
  forall l, lo = Some l -> exists l', a = Some l' /\ l' == l.
Proof. intros H l ->. destruct a as [a|]; [|discriminate]. exists a. split. reflexivity. apply Qeq_bool_iff. exact H. Qed.

Lemma member_ok_b_sound feat lo hi multi m : member_ok_b 0 feat lo hi multi m = true ->
  member2_ok m /\ member_bounded lo hi m /\
  (multi = false -> nodupb (member2_idx m) = true) /\
  forall q, (q < length (member2_idx m))%nat ->
    (nth q (member2_idx m) 0 < length feat)%nat /\
    (exists size, calib_ok 0 (Some 0) (Some (qn size - 1)) (nth (nth q (member2_idx m) 0%nat) feat (MNum 0))
                           (nth q (member2_cals m) dcal) = true) /\
    (lattice_dim_mono (nth (nth q (member2_idx m) 0%nat) feat (MNum 0)) = 1%Z -> member2_mono_dim m q).
Proof. unfold member_ok_b. intros H. apply andb_prop in H. destruct H as [Hd H].
  assert (D : multi = false -> nodupb (member2_idx m) = true) by (intros ->; exact Hd). clear Hd.
  destruct m as [m|idx cals c p u]; cbn [member2_idx member2_cals member2_ok member2_mono_dim].
  - cbn zeta in H. repeat (apply andb_prop in H; destruct H as [H ?]).
    repeat match goal with E : (_ =? _)%nat = true |- _ => apply Nat.eqb_eq in E end.
    assert (P : forall q, (q < length (m_sizes m))%nat ->
              pos_ok 0 feat (nth q (m_sizes m) 0%nat) (nondecr_along 0 (m_sizes m) (of_list (m_sizes m) (column 0 (m_K m))) q)
                     (nth q (m_idx m) 0%nat) (nth q (m_cals m) dcal0) = true).
    { intros q Hq. match goal with F : forallb _ (seq 0 _) = true |- _ => exact (forallb_seq _ _ q F Hq) end. }
    split; [|split; [|split; [exact D|]]].
    + unfold member_ok. split. { intros E. rewrite E in H. cbn in H. discriminate. }
      split. { apply Forall_forall. intros s Hs. apply Nat.leb_le. eapply forallb_In; eassumption. }
      split. { split. lia. apply Forall_forall. intros r Hr. apply Nat.eqb_eq.
               match goal with F : forallb (fun r => (length r =? 1)%nat) _ = true |- _ => exact (forallb_In _ _ r F Hr) end. }
      split. assumption. split. assumption. split. assumption.
      intros j Hj. destruct (pos_ok_facts _ _ _ _ _ (P j Hj)) as (_ & R & _). exact R.
    + intros l h -> ->. exists l, h. split. reflexivity. split. reflexivity. cbn [member2_in_bounds].
      apply column_bounds_kern. assumption. intros v Hv. apply in_opt_range0.
      match goal with F : forallb (in_opt_range 0 _ _) _ = true |- _ => exact (forallb_In _ _ v F Hv) end.
    + intros q Hq. assert (Hq' : (q < length (m_sizes m))%nat) by lia.
      destruct (pos_ok_facts _ _ _ _ _ (P q Hq')) as (F1 & _ & F3 & F4).
      split. exact F1. split. exists (nth q (m_sizes m) 0%nat). exact F3.
      intros E. apply nondecr_along_knondecr. exact (F4 E).
  - cbn zeta in H. apply andb_prop in H. destruct H as [H HP]. apply andb_prop in H. destruct H as [H Hu].
    apply andb_prop in H. destruct H as [Hc HL]. apply Nat.eqb_eq in Hc. apply Nat.ltb_lt in Hu.
    pose proof (kfl_layer_ok_feasible _ _ _ _ _ HL) as Hfeas.
    unfold kfl_layer_ok in HL.
    apply andb_prop in HL; destruct HL as [HL K11]. apply andb_prop in HL; destruct HL as [HL K10].
    apply andb_prop in HL; destruct HL as [HL K9]. apply andb_prop in HL; destruct HL as [HL K8].
    apply andb_prop in HL; destruct HL as [HL K7]. apply andb_prop in HL; destruct HL as [HL K6].
    apply andb_prop in HL; destruct HL as [HL K5]. apply andb_prop in HL; destruct HL as [HL K4].
    apply andb_prop in HL; destruct HL as [HL K3]. apply andb_prop in HL; destruct HL as [K1 K2].
    apply Nat.leb_le in K5, K6. apply Nat.eqb_eq in K8, K9.
    assert (P : forall q, (q < length idx)%nat ->
              pos_ok 0 feat (MK.c_size c) (kfl_mono_at c q) (nth q idx 0%nat) (nth q cals dcal0) = true).
    { intros q Hq. exact (forallb_seq _ _ q HP Hq). }
    destruct (MK.c_monos c) as [ms|] eqn:Em; [|discriminate].
    apply Nat.eqb_eq in K7. rename K7 into Lms.
    assert (Cm : MK.canon_monos (MK.c_monos c) = Some ms).
    { rewrite Em. destruct ms; [cbn in Lms; lia|reflexivity]. }
    split; [|split; [|split; [exact D|]]].
    + exists (length idx). split.
      { split. exact K5. split. exact K6. split.
        - intros l h El Eh. rewrite El, Eh in K3.
          destruct (Qle_bool h l) eqn:E; [discriminate|]. apply Qnot_le_lt. intros C. apply Qle_bool_iff in C. congruence.
        - intros ms' E'. rewrite Cm in E'. injection E' as <-. exact Lms. }
      split. exact Hfeas. split. reflexivity. split. exact Hc.
      intros j Hj. rewrite repeat_length in Hj. rewrite nth_repeat_lt by exact Hj.
      destruct (pos_ok_facts _ _ _ _ _ (P j Hj)) as (_ & R & _). exact R.
    + intros l h El Eh.
      destruct (qeq_opt _ _ K1 l El) as (l' & A1 & A2). destruct (qeq_opt _ _ K2 h Eh) as (h' & B1 & B2).
      exists l', h'. split. exact A2. split. exact B2. cbn [member2_in_bounds]. split. exact A1. split. exact B1. split. exact Hu. lia.
    + intros q Hq. destruct (pos_ok_facts _ _ _ _ _ (P q Hq)) as (F1 & _ & F3 & F4).
      split. exact F1. split. exists (MK.c_size c). exact F3.
      intros E. specialize (F4 E). unfold kfl_mono_at in F4. rewrite Cm in F4. exists ms. split. exact Cm. exact F4. Qed.

(* ---------------------------------------------------------------------- *)
(* combiner                                                                 *)
(* ---------------------------------------------------------------------- *)
Lemma comb_ok_monotone d wavg n c : comb_ok 0 d wavg n c = true -> comb_monotone c.
Proof. destruct c as [|w b]; cbn [comb_ok comb_monotone]; [auto|]. intros H.
  apply andb_prop in H. destruct H as [H _]. apply andb_prop in H. destruct H as [_ H].
  intros q Hq. apply le_t0. exact (forallb_In _ _ q H Hq). Qed.

Lemma comb_ok_average_like n c : comb_ok 0 false true n c = true -> comb_average_like c n.
Proof. destruct c as [|w b]; cbn [comb_ok comb_average_like]; intros H.
  - apply Nat.leb_le in H. lia.
  - apply andb_prop in H. destruct H as [H H3]. apply andb_prop in H. destruct H as [H1 H2].
    apply andb_prop in H3. destruct H3 as [H3 H4]. cbn [andb] in H3. rewrite Bool.orb_false_r in H3.
    apply andb_prop in H3. destruct H3 as [S1 S2]. apply le_t0 in S1, S2.
    split. apply Nat.eqb_eq; exact H1. split. apply Qeq_bool_iff; exact H4.
    split. intros q Hq. apply le_t0. exact (forallb_In _ _ q H2 Hq). lra. Qed.

(* ---------------------------------------------------------------------- *)
(* the whole ensemble                                                       *)
(* ---------------------------------------------------------------------- *)
Definition ens_lo (e : ens) : option Q := if has_some (en_oc e) then Some 0 else en_lo e.
Definition ens_hi (e : ens) : option Q := if has_some (en_oc e) then Some 1 else en_hi e.

Lemma ens_ok_parts t d e : ens_ok t d e = true ->
  oc_ok t (en_lo e) (en_hi e) (en_oc e) = true /\
  comb_ok t d (has_some (en_oc e) || has_some (en_lo e) || has_some (en_hi e)) (length (en_ms e)) (en_comb e) = true /\
  forallb (member_ok_b t (en_feat e) (ens_lo e) (ens_hi e) (en_multi e)) (en_ms e) = true.
Proof. unfold ens_ok, ens_lo, ens_hi. destruct (has_some (en_oc e)); cbn zeta; intros H;
    apply andb_prop in H; destruct H as [H H3]; apply andb_prop in H; destruct H as [H1 H2]; auto. Qed.

Definition feat_at (e : ens) (i : nat) : fmono := nth i (en_feat e) (MNum 0).
(* the calibrator units through which the members read model feature i *)
Definition reader (e : ens) (i : nat) (c : calib) : Prop :=
  exists m q, In m (en_ms e) /\ (q < length (member2_idx m))%nat /\ nth q (member2_idx m) 0%nat = i /\
              c = nth q (member2_cals m) dcal.

(* The check at tolerance 0 (D32 escape off) implies the hypotheses of
   C03_ensemble_monotone_mixed and C03_ensemble_bounded_mixed on the extracted
   structure. *)
Theorem ens_ok_hypotheses e : ens_ok 0 false e = true ->
  comb_monotone (en_comb e) /\ out_monotone (en_oc e) /\
  (forall m, In m (en_ms e) -> member2_ok m) /\
  (* a feature with a monotone lattice dimension flag (increasing, decreasing, categorical pairs) is read
     through monotone dimensions only: member2_monotone_in reduces to the calibrator units *)
  (forall m i xi v, In m (en_ms e) -> lattice_dim_mono (feat_at e i) = 1%Z ->
     (forall c, reader e i c -> calib_eval c xi <= calib_eval c v) -> member2_monotone_in m i xi v) /\
  (* every reader of a feature is a calibrator unit of the feature's kind and direction *)
  (forall i c, reader e i c ->
     (forall mo, feat_at e i = MNum mo -> mo <> 0%Z ->
        exists kps lens col miss, c = CPwl kps lens col miss /\ Forall (fun l => 0 < l) lens /\
          (mo = 1%Z -> outs_nondecr col) /\ (mo = (-1)%Z -> outs_nonincr col)) /\
     (forall ps, feat_at e i = MPairs ps -> ps <> [] ->
        exists vals d, c = CCat vals d /\
          forall a b, In (a, b) ps -> (a < length vals)%nat /\ (b < length vals)%nat /\ nth a vals 0 <= nth b vals 0)) /\
  (* bounds *)
  (forall lo hi, en_lo e = Some lo -> en_hi e = Some hi -> out_range (en_oc e) lo hi) /\
  (en_oc e = None -> forall lo hi, en_lo e = Some lo -> en_hi e = Some hi ->
     comb_average_like (en_comb e) (length (en_ms e)) /\
     forall m, In m (en_ms e) -> exists lo' hi', lo' == lo /\ hi' == hi /\ member2_in_bounds m lo' hi') /\
  (* explicit / random / Crystals structures: no lattice reads a feature twice *)
  (en_multi e = false -> forall m, In m (en_ms e) -> nodupb (member2_idx m) = true).
Proof. intros H. destruct (ens_ok_parts _ _ _ H) as (Hoc & Hc & Hm).
  assert (M : forall m, In m (en_ms e) -> member_ok_b 0 (en_feat e) (ens_lo e) (ens_hi e) (en_multi e) m = true).
  { intros m Hin. exact (forallb_In _ _ m Hm Hin). }
  split. exact (comb_ok_monotone _ _ _ _ Hc). split. exact (oc_ok_monotone _ _ _ Hoc).
  split. { intros m Hin. pose proof (M m Hin) as A. exact (proj1 (member_ok_b_sound _ _ _ _ _ A)). }
  split. { intros m i xi v Hin Hf Hcal q Hq Eq. pose proof (M m Hin) as A.
    destruct (member_ok_b_sound _ _ _ _ _ A) as (_ & _ & _ & P). destruct (P q Hq) as (_ & _ & P3).
    split. apply P3. unfold feat_at in Hf. rewrite Eq. exact Hf.
    apply Hcal. exists m, q. auto. }
  split. { intros i c (m & q & Hin & Hq & Eq & ->). pose proof (M m Hin) as A.
    destruct (member_ok_b_sound _ _ _ _ _ A) as (_ & _ & _ & P). destruct (P q Hq) as (_ & (size & P2) & _).
    rewrite Eq in P2. fold (feat_at e i) in P2. split.
    - intros mo Ef Hmo. rewrite Ef in P2. exact (calib_ok_numeric _ _ _ _ Hmo P2).
    - intros ps Ef Hps. rewrite Ef in P2. exact (calib_ok_pairs _ _ _ _ Hps P2). }
  split. { intros lo hi El Eh. rewrite El, Eh in Hoc. exact (oc_ok_range _ _ _ Hoc). }
  split. { intros Eo lo hi El Eh. unfold ens_lo, ens_hi in M. rewrite Eo, El in Hc. cbn in Hc. rewrite Eo in M. cbn [has_some] in M.
    split. exact (comb_ok_average_like _ _ Hc).
    intros m Hin. pose proof (M m Hin) as A. destruct (member_ok_b_sound _ _ _ _ _ A) as (_ & Bd & _).
    exact (Bd lo hi El Eh). }
  intros Emu m Hin. pose proof (M m Hin) as A. destruct (member_ok_b_sound _ _ _ _ _ A) as (_ & _ & Dd & _).
  exact (Dd Emu). Qed.

Definition ens_eval (e : ens) (x : list Q) : Q := ensemble2_eval (en_ms e) (en_comb e) (en_oc e) x.

(* whenever every calibrator unit reading feature i does not decrease, the checked ensemble does not decrease *)
Lemma ens_ok_core e i x v : ens_ok 0 false e = true -> (i < length x)%nat ->
  lattice_dim_mono (feat_at e i) = 1%Z ->
  (forall c, reader e i c -> calib_eval c (nth i x 0) <= calib_eval c v) ->
  ens_eval e x <= ens_eval e (set_nth i v x).
Proof. intros H Hi Hf Hc. destruct (ens_ok_hypotheses e H) as (C1 & C2 & C3 & C4 & _).
  apply ensemble2_compose_monotone; try assumption. intros m Hin. split. exact (C3 m Hin). exact (C4 m i _ v Hin Hf Hc). Qed.

(* END-TO-END on the extracted structure: increasing feature, all pairs of non-missing inputs *)
Theorem ens_ok_increasing e i x v : ens_ok 0 false e = true -> (i < length x)%nat ->
  feat_at e i = MNum 1 ->
  (forall c, reader e i c -> regular_input c (nth i x 0) /\ regular_input c v) -> nth i x 0 <= v ->
  ens_eval e x <= ens_eval e (set_nth i v x).
Proof. intros H Hi Hf Hr Hle. apply ens_ok_core; try assumption. rewrite Hf. reflexivity.
  intros c Hc. destruct (ens_ok_hypotheses e H) as (_ & _ & _ & _ & C5 & _).
  destruct (proj1 (C5 i c Hc) 1%Z Hf ltac:(lia)) as (kps & lens & col & miss & -> & Hl & Hup & _).
  destruct (Hr _ Hc) as [R1 R2]. exact (proj1 (calib_pwl_monotone kps lens col miss _ _ Hl R1 R2 Hle) (Hup eq_refl)). Qed.

Theorem ens_ok_decreasing e i x v : ens_ok 0 false e = true -> (i < length x)%nat ->
  feat_at e i = MNum (-1) ->
  (forall c, reader e i c -> regular_input c (nth i x 0) /\ regular_input c v) -> nth i x 0 <= v ->
  ens_eval e (set_nth i v x) <= ens_eval e x.
Proof. intros H Hi Hf Hr Hle.
  rewrite <- (set_nth_self x i) at 2. rewrite <- (set_nth_twice x i v (nth i x 0)).
  apply ens_ok_core; try assumption. rewrite set_nth_length; exact Hi. rewrite Hf. reflexivity.
  intros c Hc. rewrite nth_set_nth_same by exact Hi. destruct (ens_ok_hypotheses e H) as (_ & _ & _ & _ & C5 & _).
  destruct (proj1 (C5 i c Hc) (-1)%Z Hf ltac:(lia)) as (kps & lens & col & miss & -> & Hl & _ & Hdn).
  destruct (Hr _ Hc) as [R1 R2]. exact (proj2 (calib_pwl_monotone kps lens col miss _ _ Hl R1 R2 Hle) (Hdn eq_refl)). Qed.

(* categorical feature, ordering pair (a, b), neither being the default bucket of a reader *)
Theorem ens_ok_categorical e i x ps a b : ens_ok 0 false e = true -> (i < length x)%nat ->
  feat_at e i = MPairs ps -> In (a, b) ps ->
  (forall vals d, reader e i (CCat vals d) -> d <> Some (Z.of_nat a) /\ d <> Some (Z.of_nat b)) ->
  ens_eval e (set_nth i (qn a) x) <= ens_eval e (set_nth i (qn b) x).
Proof. intros H Hi Hf Hab Hd. assert (Hps : ps <> []) by (intros ->; destruct Hab).
  rewrite <- (set_nth_twice x i (qn a) (qn b)). apply ens_ok_core; try assumption. rewrite set_nth_length; exact Hi.
  rewrite Hf. destruct ps; [congruence|reflexivity].
  intros c Hc. rewrite nth_set_nth_same by exact Hi. destruct (ens_ok_hypotheses e H) as (_ & _ & _ & _ & C5 & _).
  destruct (proj2 (C5 i c Hc) ps Hf Hps) as (vals & d & -> & Hp). destruct (Hp a b Hab) as (La & Lb & Hv).
  destruct (Hd vals d Hc) as [Da Db]. exact (calib_cat_pair vals d a b La Lb Da Db Hv). Qed.

(* bounds for ALL inputs, missing values included *)
Theorem ens_ok_bounded e lo hi x : ens_ok 0 false e = true ->
  en_lo e = Some lo -> en_hi e = Some hi -> lo <= ens_eval e x <= hi.
Proof. intros H El Eh. destruct (ens_ok_hypotheses e H) as (_ & _ & C3 & _ & _ & C6 & C7 & _).
  unfold ens_eval, ensemble2_eval. apply out_eval_range. exact (C6 lo hi El Eh). intros Eo.
  destruct (C7 Eo lo hi El Eh) as [Ca Cb]. apply Proofs.Premade.combine_range. rewrite map_length. exact Ca.
  intros y Hy. apply in_map_iff in Hy. destruct Hy as [m [<- Hin]]. destruct (Cb m Hin) as (lo' & hi' & E1 & E2 & Hb).
  pose proof (member2_bounds m x lo' hi' (C3 m Hin) Hb). lra. Qed.

(* non-vacuity: a two-member ensemble (one lattice, one KFL unit) passes the exact check *)
Definition exc_cal : calib := CPwl [0] [1] [0; 1] None.
Definition exc_ens : ens :=
  mkEns [MLat (mkMember [0; 1]%nat [exc_cal; exc_cal] Hypercube [2; 2]%nat [[0]; [1#2]; [1#4]; [1]]);
         MKfl [1]%nat [exc_cal] lk_cfg lk_par 0]
        (LinComb [1#4; 3#4] 0) None [MNum 0; MNum 1] (Some (-(1))) (Some 1) false.
Example exc_passes : ens_ok 0 false exc_ens = true.
Proof. vm_compute. reflexivity. Qed.
