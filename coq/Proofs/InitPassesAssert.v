(* C10 x C12: a freshly built layer passes its own assert_constraints().
   The initialiser models of C10 (Model/LatticeInit.v, PWLInit.v, KFLInit.v,
   the categorical build-time projection) are fed to the assert models of C12
   (Model/Asserts.v); the C12 "complete" theorems reduce the boolean assert to
   a Prop-level feasibility predicate, which the C10 lemmas establish. *)
From TFL Require Import Base.QNum Base.Lists Base.Tensor.
From TFL Require Import Model.Asserts Proofs.Asserts.
From TFL Require Import Model.LatticeInit Proofs.LatticeSpec Proofs.LatticeSpecFacts
     Proofs.LatticeInit Proofs.LatticeInitFixed.
From Coq Require Import Permutation.
Open Scope Q_scope.

(* ====================================================================== *)
(* 1. Lattice                                                               *)
(* ====================================================================== *)
(* every asserted family, in the vocabulary of Proofs/LatticeSpec.v and
   Proofs/LatticeInit.v (all positions, all squares, all units) *)
Definition la_holds (c : la_cfg) (W : tens) : Prop :=
  let sh := a_shape c in
  (forall d, (d < length (a_monos c))%nat -> nth d (a_monos c) 0%Z = 1%Z -> mono_along sh d W) /\
  (forall t, In t (a_edge c) -> edgeworth_holds sh t W) /\
  (forall t, In t (a_trap c) -> trapezoid_holds sh t W) /\
  (forall p, In p (a_mdom c) -> mono_dominance_holds sh p W) /\
  (forall p, In p (a_rdom c) -> range_dominance_holds sh p W) /\
  (forall p, In p (a_jmono c) -> joint_mono_holds sh p W) /\
  lower_ok sh (a_min c) W /\ upper_ok sh (a_max c) W.

Lemma la_holds_passes c W eps : la_ok c -> 0 <= eps -> la_holds c W -> assert_lattice c W eps = true.
Proof. intros Hok He (Hmo & Hed & Htp & Hmd & Hrd & Hjm & Hlo & Hup). apply lattice_complete; [assumption|assumption|].
  intros q Hq.
  destruct q as [d x|t b i j|t b j|t b j|pq b i j|pq b i j|pq b i j|pq b i j|pq b i j|x|x]; cbn [covered] in Hq.
  - destruct Hq as (Hd & E & Hv & Hs). cbn [slack]. pose proof (Hmo d Hd E x Hv Hs). lra.
  - destruct t as [[m cd] dir]. destruct Hq as (Hin & Hv & Hi & Hj). cbn [fst snd] in *.
    pose proof (Hed _ Hin b i j Hv Hi Hj) as G. cbn [slack]. unfold tsign. destruct (0 <? dir)%Z; lra.
  - destruct t as [[m cd] dir]. destruct Hq as (Hin & Hv & Hj). cbn [fst snd] in *.
    pose proof (Htp _ Hin b j Hv Hj) as G. cbv zeta in G. cbn [slack]. unfold tsign. destruct (0 <? dir)%Z; lra.
  - destruct t as [[m cd] dir]. destruct Hq as (Hin & Hv & Hj). cbn [fst snd] in *.
    pose proof (Htp _ Hin b j Hv Hj) as G. cbv zeta in G. cbn [slack]. cbv zeta.
    unfold tsign. destruct (0 <? dir)%Z; lra.
  - destruct pq as [p q]. destruct Hq as (Hin & Hv & Hi & Hj). cbn [fst snd] in *.
    pose proof (Hmd _ Hin b i j Hv Hi Hj) as G. cbv zeta in G. cbn [slack]. lra.
  - destruct pq as [p q]. destruct Hq as (Hin & Hv & Hi & Hj). cbn [fst snd] in *.
    pose proof (Hmd _ Hin b i j Hv Hi Hj) as G. cbv zeta in G. cbn [slack]. lra.
  - destruct pq as [p q]. destruct Hq as (Hin & Hv & Hi & Hj). cbn [fst snd] in *.
    pose proof (Hrd _ Hin b i j Hv Hi Hj) as G. cbn [slack]. cbv zeta. lra.
  - destruct pq as [p q]. destruct Hq as (Hin & Hv & Hi & Hj). cbn [fst snd] in *.
    pose proof (Hjm _ Hin b i j Hv Hi Hj) as G. cbv zeta in G. cbn [slack]. lra.
  - destruct pq as [p q]. destruct Hq as (Hin & Hv & Hi & Hj). cbn [fst snd] in *.
    pose proof (Hjm _ Hin b i j Hv Hi Hj) as G. cbv zeta in G. cbn [slack]. lra.
  - destruct Hq as [Hn Hv]. cbn [slack]. unfold lower_ok in Hlo. destruct (a_min c) as [lo|]; [|lra].
    specialize (Hlo x Hv). lra.
  - destruct Hq as [Hn Hv]. cbn [slack]. unfold upper_ok in Hup. destruct (a_max c) as [hi|]; [|lra].
    specialize (Hup x Hv). lra. Qed.

(* ---------------- linear initialiser ---------------- *)
Lemma passes_assert_lattice_linear : forall (c : la_cfg) monos unis imin imax eps,
  let sizes := a_sizes c in
  let rank := length sizes in
  let zm := zeros_if_none rank monos in let zu := zeros_if_none rank unis in
  let em := lin_eff_monos sizes zm zu in
  (* what verify_hyperparameters guarantees *)
  la_ok c -> (forall s, In s sizes -> (2 <= s)%nat) -> (1 <= rank)%nat ->
  length zm = rank -> length zu = rank -> (forall d, nz (nth d zm 0%Z) && nz (nth d zu 0%Z) = false) ->
  (forall d, (d < length (a_monos c))%nat -> nth d (a_monos c) 0%Z = 1%Z -> nz (nth d zm 0%Z) = true) ->
  (forall m cd dir, In (m, cd, dir) (a_edge c ++ a_trap c) -> (m < rank)%nat /\ (cd < rank)%nat) ->
  (forall p q, In (p, q) (a_mdom c ++ a_rdom c ++ a_jmono c) -> (p < rank)%nat /\ (q < rank)%nat) ->
  (forall p q, In (p, q) (a_mdom c ++ a_rdom c) -> nz (nth p em 0%Z) = true /\ nz (nth q em 0%Z) = true) ->
  (* the initialisation range is non-empty and inside the output bounds *)
  imin <= imax -> (forall lo, a_min c = Some lo -> lo <= imin) -> (forall hi, a_max c = Some hi -> imax <= hi) ->
  (* outside known finding D6 *)
  (forall m cd dir, In (m, cd, dir) (a_trap c) -> nz (nth cd em 0%Z) = false /\ nz (nth cd zu 0%Z) = false) ->
  (forall p q, In (p, q) (a_mdom c) -> (nth p sizes 0 <= nth q sizes 0)%nat) ->
  (forall p q, In (p, q) (a_jmono c) ->
     (nz (nth p em 0%Z) = true \/ nz (nth p zu 0%Z) = false) /\ (nz (nth q em 0%Z) = true \/ nz (nth q zu 0%Z) = false)) ->
  0 <= eps ->
  assert_lattice c (linear_init sizes imin imax monos unis (a_units c)) eps = true.
Proof. intros c monos unis imin imax eps sizes rank zm zu em Hok Hs Hr Hlm Hlu Hdisj Hmon Htd Hpd Hdm Hb Hlo Hhi Gt Gm Gj He.
  pose proof Hok as (Hp & _ & Htr & Hpq).
  assert (Hu : (1 <= a_units c)%nat) by (apply Hp; unfold a_shape; apply in_app_iff; right; left; reflexivity).
  apply la_holds_passes; [assumption|assumption|]. unfold la_holds, a_shape. fold sizes. cbv zeta.
  split; [|split; [|split; [|split; [|split; [|split; [|split]]]]]].
  - intros d Hd E. pose proof (Hmon d Hd E) as Hnz.
    assert (Hdr : (d < rank)%nat).
    { destruct (Nat.ltb_spec d rank); [assumption|]. fold zm in Hnz. rewrite nth_overflow in Hnz by lia. discriminate. }
    apply linear_mono_dim; [exact Hb|exact Hdr|]. apply configured_mono_dim. exact Hnz.
  - intros [[m cd] dir] Hin. destruct (Htd m cd dir (in_or_app _ _ _ (or_introl Hin))) as [Hm Hc].
    destruct (Htr m cd dir (in_or_app _ _ _ (or_introl Hin))) as [Hne _].
    apply linear_edgeworth; assumption.
  - intros [[m cd] dir] Hin. destruct (Htd m cd dir (in_or_app _ _ _ (or_intror Hin))) as [Hm Hc].
    destruct (Htr m cd dir (in_or_app _ _ _ (or_intror Hin))) as [Hne _].
    destruct (Gt m cd dir Hin) as [G1 G2].
    apply linear_trapezoid_free_cond; assumption.
  - intros [p q] Hin. destruct (Hpd p q ltac:(apply in_or_app; left; exact Hin)) as [H1 H2].
    pose proof (Hpq p q ltac:(apply in_or_app; left; exact Hin)) as Hne.
    destruct (Hdm p q ltac:(apply in_or_app; left; exact Hin)) as [M1 M2].
    apply linear_mono_dominance; try assumption. exact (Gm p q Hin).
  - intros [p q] Hin. destruct (Hpd p q ltac:(apply in_or_app; right; apply in_or_app; left; exact Hin)) as [H1 H2].
    pose proof (Hpq p q ltac:(apply in_or_app; right; apply in_or_app; left; exact Hin)) as Hne.
    destruct (Hdm p q ltac:(apply in_or_app; right; exact Hin)) as [M1 M2].
    apply linear_range_dominance; assumption.
  - intros [p q] Hin. destruct (Hpd p q ltac:(apply in_or_app; right; apply in_or_app; right; exact Hin)) as [H1 H2].
    pose proof (Hpq p q ltac:(apply in_or_app; right; apply in_or_app; right; exact Hin)) as Hne.
    destruct (Gj p q Hin) as [J1 J2].
    apply linear_joint_mono; assumption.
  - unfold lower_ok. destruct (a_min c) as [lo|] eqn:E; [|exact I]. intros i Hv.
    destruct (linear_range sizes imin imax monos unis (a_units c) Hs Hu Hr Hlm Hlu Hdisj Hb) as [Hin _].
    destruct (Hin i Hv) as [G _]. pose proof (Hlo lo eq_refl). lra.
  - unfold upper_ok. destruct (a_max c) as [hi|] eqn:E; [|exact I]. intros i Hv.
    destruct (linear_range sizes imin imax monos unis (a_units c) Hs Hu Hr Hlm Hlu Hdisj Hb) as [Hin _].
    destruct (Hin i Hv) as [_ G]. pose proof (Hhi hi eq_refl). lra. Qed.

(* ---------------- random monotonic initialiser ---------------- *)
(* non-decreasing along both dimensions of a pair implies joint monotonicity *)
Lemma mono_joint_mono sh p q W : p <> q -> (p < length sh)%nat -> (q < length sh)%nat ->
  mono_along sh p W -> mono_along sh q W -> joint_mono_holds sh (p, q) W.
Proof. intros Hne Hpl Hql Hp Hq b i j Hv Hi Hj. cbv zeta.
  assert (Hlb : length b = length sh) by (apply valid_length; exact Hv).
  assert (V00 : valid sh (at2 b p q i j)) by (apply at2_valid; [exact Hv|lia|lia]).
  assert (V10 : valid sh (at2 b p q (S i) j)) by (apply at2_valid; [exact Hv|lia|lia]).
  assert (V01 : valid sh (at2 b p q i (S j))) by (apply at2_valid; [exact Hv|lia|lia]).
  (* (i,j) -> (i+1,j) along p;  (i,j) -> (i,j+1) along q;  (i+1,j) -> (i+1,j+1) along q;  (i,j+1) -> (i+1,j+1) along p *)
  pose proof (Hp (at2 b p q i j) V00) as A1. rewrite at2_nth_m in A1 by (auto; lia). rewrite at2_upd_m in A1 by exact Hne.
  pose proof (Hq (at2 b p q i j) V00) as A2. rewrite at2_nth_c in A2 by lia. rewrite at2_upd_c in A2.
  pose proof (Hq (at2 b p q (S i) j) V10) as A3. rewrite at2_nth_c in A3 by lia. rewrite at2_upd_c in A3.
  pose proof (Hp (at2 b p q i (S j)) V01) as A4. rewrite at2_nth_m in A4 by (auto; lia). rewrite at2_upd_m in A4 by exact Hne.
  specialize (A1 Hi). specialize (A2 Hj). specialize (A3 Hj). specialize (A4 Hi). lra. Qed.

Lemma passes_assert_lattice_random_monotonic : forall (c : la_cfg) order samples imin imax eps,
  let sizes := a_sizes c in
  let rank := length sizes in
  la_ok c ->
  (forall p q, In (p, q) (a_jmono c) -> (p < rank)%nat /\ (q < rank)%nat) ->
  (* the oracles: np.random.shuffle leaves each level in SOME order, the samples are sorted, one per vertex, in range *)
  Forall2 (@Permutation idx) order (levels sizes) ->
  (forall a b, (a <= b)%nat -> (b < length samples)%nat -> nth a samples 0 <= nth b samples 0) ->
  length samples = length (concat order) ->
  (forall x, In x samples -> imin <= x /\ x <= imax) ->
  (* the initialisation range is inside the output bounds *)
  (forall lo, a_min c = Some lo -> lo <= imin) -> (forall hi, a_max c = Some hi -> imax <= hi) ->
  (* outside known finding D24: nothing but monotonicity, joint monotonicity and bounds is configured *)
  a_edge c = [] -> a_trap c = [] -> a_mdom c = [] -> a_rdom c = [] ->
  0 <= eps ->
  assert_lattice c (random_mono_init sizes (a_units c) order samples) eps = true.
Proof. intros c order samples imin imax eps sizes rank Hok Hjd Ho Hs Hl Hr Hlo Hhi E1 E2 E3 E4 He.
  pose proof Hok as (Hp & Hml & _ & Hpq).
  apply la_holds_passes; [assumption|assumption|]. unfold la_holds, a_shape. fold sizes. cbv zeta.
  rewrite E1, E2, E3, E4.
  assert (Hmono : forall d, (d < rank)%nat -> mono_along (sizes ++ [a_units c]) d (random_mono_init sizes (a_units c) order samples)).
  { intros d Hd. apply random_mono_all_dims; assumption. }
  split; [|split; [|split; [|split; [|split; [|split; [|split]]]]]];
    [|intros ? []|intros ? []|intros ? []|intros ? []| | |].
  - intros d Hd _. apply Hmono. fold sizes rank in Hml. lia.
  - intros [p q] Hin. destruct (Hjd p q Hin) as [H1 H2].
    pose proof (Hpq p q ltac:(rewrite E3, E4; exact Hin)) as Hne.
    apply mono_joint_mono; [exact Hne|rewrite app_length; fold rank; lia|rewrite app_length; fold rank; lia|apply Hmono; exact H1|apply Hmono; exact H2].
  - unfold lower_ok. destruct (a_min c) as [lo|] eqn:E; [|exact I]. intros i Hv.
    destruct (random_mono_in_range sizes (a_units c) order samples imin imax Ho Hl Hr i Hv) as [G _].
    pose proof (Hlo lo eq_refl). lra.
  - unfold upper_ok. destruct (a_max c) as [hi|] eqn:E; [|exact I]. intros i Hv.
    destruct (random_mono_in_range sizes (a_units c) order samples imin imax Ho Hl Hr i Hv) as [_ G].
    pose proof (Hhi hi eq_refl). lra. Qed.

(* ---------------- the layer: create_kernel_initializer + the initialiser it selects ---------------- *)
Lemma set_nth_z_length : forall l i v, length (set_nth_z i v l) = length l.
Proof. induction l as [|x l IH]; intros [|i] v; cbn; auto. Qed.
Lemma merge_unimodalities_length rank unis juni : length (merge_unimodalities rank unis juni) = rank.
Proof. unfold merge_unimodalities.
  set (base := map _ (seq 0 rank)). assert (Hb : length base = rank) by (unfold base; rewrite map_length, seq_length; reflexivity).
  clearbody base. revert base Hb. induction juni as [|g juni IH]; intros base Hb; cbn [fold_left]. exact Hb.
  apply IH. generalize (fst g). intros ds. revert base Hb. induction ds as [|d ds IHd]; intros base Hb; cbn [fold_left]. exact Hb.
  apply IHd. rewrite set_nth_z_length. exact Hb. Qed.

Lemma default_init_params_ok omin omax : (forall a b, omin = Some a -> omax = Some b -> a <= b) ->
  fst (default_init_params omin omax) <= snd (default_init_params omin omax) /\
  (forall lo, omin = Some lo -> lo <= fst (default_init_params omin omax)) /\
  (forall hi, omax = Some hi -> snd (default_init_params omin omax) <= hi).
Proof. intros H. unfold default_init_params. destruct omin as [a|], omax as [b|]; cbn [fst snd].
  - pose proof (H a b eq_refl eq_refl). split; [assumption|]. split; intros ? E; inversion E; subst; lra.
  - split; [qcases; lra|]. split; intros ? E; inversion E; subst; lra.
  - split; [qcases; lra|]. split; intros ? E; inversion E; subst; lra.
  - split; [lra|]. split; intros ? E; inversion E. Qed.

Definition monos_list (monos : option (list Z)) : list Z := match monos with Some l => l | None => [] end.

Lemma passes_assert_lattice_layer : forall (c : la_cfg) id monos unis juni override order samples W eps,
  let sizes := a_sizes c in
  let rank := length sizes in
  let zm := zeros_if_none rank monos in
  let zu := merge_unimodalities rank unis juni in
  let em := lin_eff_monos sizes zm zu in
  let ch := create_kernel_initializer id sizes monos (a_min c) (a_max c) unis juni override in
  (* the fresh kernel is the one a library initialiser produced (excludes the Keras fall-back, D25) *)
  lattice_init_kernel ch sizes (a_units c) order samples = Some W ->
  (* what verify_hyperparameters guarantees *)
  la_ok c -> (forall s, In s sizes -> (2 <= s)%nat) -> (1 <= rank)%nat -> length zm = rank ->
  (forall d, nz (nth d zm 0%Z) && nz (nth d zu 0%Z) = false) ->
  a_monos c = monos_list monos ->
  (forall m cd dir, In (m, cd, dir) (a_edge c ++ a_trap c) -> (m < rank)%nat /\ (cd < rank)%nat) ->
  (forall p q, In (p, q) (a_mdom c ++ a_rdom c ++ a_jmono c) -> (p < rank)%nat /\ (q < rank)%nat) ->
  (forall p q, In (p, q) (a_mdom c ++ a_rdom c) -> nth p (a_monos c) 0%Z = 1%Z /\ nth q (a_monos c) 0%Z = 1%Z) ->
  (forall a b, a_min c = Some a -> a_max c = Some b -> a <= b) ->
  (* a user-given init range is non-empty and inside the output bounds *)
  (forall p, override = Some p -> fst p <= snd p /\
     (forall lo, a_min c = Some lo -> lo <= fst p) /\ (forall hi, a_max c = Some hi -> snd p <= hi)) ->
  match ch with
  | UseLinear _ _ _ _ =>
      (* outside known finding D6 *)
      (forall m cd dir, In (m, cd, dir) (a_trap c) -> nz (nth cd em 0%Z) = false /\ nz (nth cd zu 0%Z) = false) /\
      (forall p q, In (p, q) (a_mdom c) -> (nth p sizes 0 <= nth q sizes 0)%nat) /\
      (forall p q, In (p, q) (a_jmono c) ->
         (nz (nth p em 0%Z) = true \/ nz (nth p zu 0%Z) = false) /\ (nz (nth q em 0%Z) = true \/ nz (nth q zu 0%Z) = false))
  | UseRandomMono imin imax =>
      (* outside known finding D24 *)
      (a_edge c = [] /\ a_trap c = [] /\ a_mdom c = [] /\ a_rdom c = []) /\
      (* the random oracles *)
      Forall2 (@Permutation idx) order (levels sizes) /\
      (forall a b, (a <= b)%nat -> (b < length samples)%nat -> nth a samples 0 <= nth b samples 0) /\
      length samples = length (concat order) /\
      (forall x, In x samples -> imin <= x /\ x <= imax)
  | UseKeras => True
  end ->
  0 <= eps ->
  assert_lattice c W eps = true.
Proof. intros c id monos unis juni override order samples W eps sizes rank zm zu em ch.
  intros HW Hok Hs Hr Hlm Hdisj Hmon Htd Hpd Hdm Hbnd Hov G He.
  assert (Hrange : fst (init_range (a_min c) (a_max c) override) <= snd (init_range (a_min c) (a_max c) override) /\
    (forall lo, a_min c = Some lo -> lo <= fst (init_range (a_min c) (a_max c) override)) /\
    (forall hi, a_max c = Some hi -> snd (init_range (a_min c) (a_max c) override) <= hi)).
  { unfold init_range. destruct override as [p|]; [exact (Hov p eq_refl)|apply default_init_params_ok; exact Hbnd]. }
  destruct Hrange as (Hb & Hlo & Hhi).
  assert (Hlin : forall imin imax, imin = fst (init_range (a_min c) (a_max c) override) ->
            imax = snd (init_range (a_min c) (a_max c) override) ->
            (forall m cd dir, In (m, cd, dir) (a_trap c) -> nz (nth cd em 0%Z) = false /\ nz (nth cd zu 0%Z) = false) /\
            (forall p q, In (p, q) (a_mdom c) -> (nth p sizes 0 <= nth q sizes 0)%nat) /\
            (forall p q, In (p, q) (a_jmono c) ->
               (nz (nth p em 0%Z) = true \/ nz (nth p zu 0%Z) = false) /\ (nz (nth q em 0%Z) = true \/ nz (nth q zu 0%Z) = false)) ->
            assert_lattice c (linear_init sizes imin imax monos (Some zu) (a_units c)) eps = true).
  { intros imin imax -> -> (Gt & Gm & Gj).
    apply passes_assert_lattice_linear; try assumption.
    - cbn [zeros_if_none]. apply merge_unimodalities_length.
    - intros d Hd E. rewrite Hmon in Hd, E. destruct monos as [l|]; cbn [monos_list] in *; [|cbn in Hd; lia].
      cbn [zeros_if_none]. rewrite E. reflexivity.
    - intros p q Hin. destruct (Hdm p q Hin) as [E1 E2]. rewrite Hmon in E1, E2.
      assert (Hz : forall d, nth d (monos_list monos) 0%Z = 1%Z -> nz (nth d zm 0%Z) = true).
      { intros d E. destruct monos as [l|]; cbn [monos_list] in E; [|destruct d; discriminate].
        unfold zm. cbn [zeros_if_none]. rewrite E. reflexivity. }
      split; apply (configured_mono_dim sizes monos (Some zu)); apply Hz; assumption. }
  unfold ch, create_kernel_initializer in HW, G. cbv zeta in HW, G.
  fold sizes rank zu in HW, G.
  destruct (init_range (a_min c) (a_max c) override) as [imin imax] eqn:Er. cbn [fst snd] in *.
  assert (Hrnd : forall W', Some (random_mono_init sizes (a_units c) order samples) = Some W' ->
     ((a_edge c = [] /\ a_trap c = [] /\ a_mdom c = [] /\ a_rdom c = []) /\
      Forall2 (@Permutation idx) order (levels sizes) /\
      (forall a b, (a <= b)%nat -> (b < length samples)%nat -> nth a samples 0 <= nth b samples 0) /\
      length samples = length (concat order) /\
      (forall x, In x samples -> imin <= x /\ x <= imax)) -> assert_lattice c W' eps = true).
  { intros W' E ((E1 & E2 & E3 & E4) & Ho & Hso & Hl & Hra). injection E as <-.
    apply (passes_assert_lattice_random_monotonic c order samples imin imax); try assumption.
    intros p q Hin. apply (Hpd p q). apply in_or_app; right. apply in_or_app; right. exact Hin. }
  destruct id.
  - cbn [lattice_init_kernel] in HW. injection HW as <-. apply Hlin; auto.
  - cbn [lattice_init_kernel] in HW. apply Hrnd; assumption.
  - destruct (juni_contains_all rank juni); cbn [lattice_init_kernel] in HW; [discriminate|].
    injection HW as <-. apply Hlin; auto.
  - discriminate. Qed.

(* ---------------- the C01 configuration record (monotonicity, trusts, bounds): assert_lattice (la_of c) ---------------- *)
Lemma passes_assert_lattice_linear_cfg : forall (c : lat_cfg) unis eps,
  let rank := length (l_sizes c) in
  let zu := zeros_if_none rank unis in
  let imin := fst (default_init_params (l_min c) (l_max c)) in
  let imax := snd (default_init_params (l_min c) (l_max c)) in
  cfg_valid c -> l_sizes c <> [] ->
  length zu = rank -> (forall d, nz (nth d (l_monos c) 0%Z) && nz (nth d zu 0%Z) = false) ->
  (* outside D6: the conditional feature of a trapezoid trust is neither monotone nor unimodal *)
  (forall m cd dir, In (m, cd, dir) (l_trap c) -> nth cd (l_monos c) 0%Z = 0%Z /\ nth cd zu 0%Z = 0%Z) ->
  0 <= eps ->
  assert_lattice (la_of c) (linear_init (l_sizes c) imin imax (Some (l_monos c)) unis (l_units c)) eps = true.
Proof. intros c unis eps rank zu imin imax Hc Hne Hlu Hdisj Gt He.
  pose proof Hc as (Hs & Hu & Hlm & Hm01 & Htok & _ & _ & Hbnd).
  assert (Hr : (1 <= rank)%nat) by (unfold rank; destruct (l_sizes c); [congruence|cbn; lia]).
  assert (Hdp : imin <= imax /\ (forall lo, l_min c = Some lo -> lo <= imin) /\ (forall hi, l_max c = Some hi -> imax <= hi)).
  { apply default_init_params_ok. intros a b Ea Eb. rewrite Ea, Eb in Hbnd. lra. }
  destruct Hdp as (Hb & Hlo & Hhi).
  apply (passes_assert_lattice_linear (la_of c) (Some (l_monos c)) unis imin imax eps);
    cbn [la_of a_sizes a_units a_monos a_edge a_trap a_mdom a_rdom a_jmono a_min a_max zeros_if_none app]; try assumption;
    try (intros ? ? Hf; destruct Hf; fail).
  - apply la_of_ok; exact Hc.
  - intros d Hd E. rewrite E. reflexivity.
  - intros m cd dir Hin. destruct (cfg_trust_dims c m cd dir Hc Hin) as (H1 & H2 & _). unfold l_ud in *. auto.
  - intros m cd dir Hin. destruct (Gt m cd dir Hin) as [G1 G2]. fold rank zu. split; [|rewrite G2; reflexivity].
    destruct (Htok (m, cd, dir) ltac:(unfold all_trusts; apply in_or_app; right; exact Hin)) as (Hm & _ & Em & _).
    rewrite eff_monos_same. rewrite G1; reflexivity.
    assert (Hnz : nz (nth m (l_monos c) 0%Z) = true) by (rewrite Em; reflexivity).
    pose proof (count_nz_pos (l_monos c) m Hnz). lia. Qed.

Lemma passes_assert_lattice_linear_mono_bounds_cfg : forall c eps, cfg_valid c -> mono_bounds_only c -> l_sizes c <> [] ->
  let imin := fst (default_init_params (l_min c) (l_max c)) in
  let imax := snd (default_init_params (l_min c) (l_max c)) in
  0 <= eps ->
  assert_lattice (la_of c) (linear_init (l_sizes c) imin imax (Some (l_monos c)) None (l_units c)) eps = true.
Proof. intros c eps Hc [_ Ht] Hne imin imax He.
  apply (passes_assert_lattice_linear_cfg c None eps); try assumption.
  - cbn [zeros_if_none]. apply repeat_length.
  - intros d. cbn [zeros_if_none]. rewrite nth_repeat. apply andb_false_r.
  - rewrite Ht. intros ? ? ? []. Qed.

Lemma passes_assert_lattice_random_monotonic_cfg : forall (c : lat_cfg) order samples eps,
  let imin := fst (default_init_params (l_min c) (l_max c)) in
  let imax := snd (default_init_params (l_min c) (l_max c)) in
  cfg_valid c -> mono_bounds_only c ->
  Forall2 (@Permutation idx) order (levels (l_sizes c)) ->
  (forall a b, (a <= b)%nat -> (b < length samples)%nat -> nth a samples 0 <= nth b samples 0) ->
  length samples = length (concat order) ->
  (forall x, In x samples -> imin <= x /\ x <= imax) ->
  0 <= eps ->
  assert_lattice (la_of c) (random_mono_init (l_sizes c) (l_units c) order samples) eps = true.
Proof. intros c order samples eps imin imax Hc Hmb Ho Hs Hl Hr He.
  apply assert_accepts_feasible; [exact Hc| |exact He]. apply random_init_feasible; assumption. Qed.

(* ====================================================================== *)
(* 2. PWLCalibration                                                        *)
(* ====================================================================== *)
From TFL Require Import Model.PWLInit Proofs.PWLInit.

Lemma cumsum_from_nth l : forall acc k, (k < length l)%nat ->
  nth k (cumsum_from acc l) 0 == acc + qsum (firstn (S k) l).
Proof. induction l as [|x l IH]; intros acc k Hk; cbn [length] in Hk. lia.
  destruct k as [|k]. cbn. lra.
  cbn [cumsum_from nth]. rewrite IH by lia. cbn [firstn qsum]. lra. Qed.

Lemma convert_init_eq omin omax cmn cmx :
  (forall a, omin = Some a -> fst (fst (fst (convert_all_constraints omin omax cmn cmx))) = a) /\
  (forall b, omax = Some b -> snd (fst (fst (convert_all_constraints omin omax cmn cmx))) = b).
Proof. unfold convert_all_constraints, convert_constraints. destruct omin as [a|], omax as [b|]; cbn;
  split; intros ? E; inversion E; reflexivity. Qed.

(* PWLCalibration.build: missing_init = (_output_init_min + _output_init_max) / 2, shape [1, units] *)
Definition pwl_missing_output_init (units : nat) (omin omax : option Q) (clamp_min clamp_max : bool) : list Q :=
  let '(imin, imax, _, _) := convert_all_constraints omin omax clamp_min clamp_max in
  repeat ((imin + imax) * (1#2)) units.

Lemma qsum_firstn1_column u (K : list (list Q)) : qsum (firstn 1 (column u K)) == nth u (nth 0 K []) 0.
Proof. unfold column. destruct K as [|r rest]; cbn; [destruct u; cbn; lra|lra]. Qed.

Lemma qsum_firstn_S (l : list Q) : forall k, (k < length l)%nat -> qsum (firstn (S k) l) == qsum (firstn k l) + nth k l 0.
Proof. induction l as [|x l IH]; intros k Hk; cbn [length] in Hk. lia.
  destruct k as [|k]. cbn. lra.
  change (firstn (S (S k)) (x :: l)) with (x :: firstn (S k) l). change (firstn (S k) (x :: l)) with (x :: firstn k l).
  cbn [qsum nth]. rewrite IH by lia. lra. Qed.

Section PwlFresh.
Variables (nk units : nat) (imin imax : Q) (mono : Z) (kps : option (list Q)) (cyclic : bool).
Hypothesis Hb : imin <= imax.
Hypothesis Hn : (2 <= nk)%nat.
Hypothesis Hk : kps_ok nk kps.
Let col := pwl_linear_init_col nk imin imax mono kps.
Let kernel := pwl_linear_init nk units imin imax mono kps.
Let outs := pwl_keypoint_outputs units cyclic kernel.

Lemma fresh_kernel_length : length kernel = nk.
Proof. unfold kernel, pwl_linear_init. rewrite map_length. apply col_length; assumption. Qed.
Lemma fresh_outs_length : length outs = (nk + (if cyclic then 1 else 0))%nat.
Proof. unfold outs, pwl_keypoint_outputs. cbv zeta. pose proof fresh_kernel_length as HL.
  destruct cyclic.
  - rewrite app_length, run_sums_length, HL. destruct kernel as [|r rest] eqn:E; [cbn in HL; lia|]. cbn [run_sums firstn length]. lia.
  - rewrite run_sums_length, HL. lia. Qed.

Lemma fresh_out_val k u : (k < nk)%nat -> (u < units)%nat ->
  out_at outs k u == nth k (pwl_keypoint_values col) 0.
Proof. intros Hkk Hu. unfold outs. rewrite keypoint_outputs_at by (rewrite ?fresh_kernel_length; assumption).
  unfold kernel. rewrite pwl_init_units by exact Hu. fold col.
  unfold pwl_keypoint_values, cumsum. rewrite cumsum_from_nth by (unfold col; rewrite col_length; assumption). lra. Qed.

Lemma fresh_vals_length : length (pwl_keypoint_values col) = nk.
Proof. unfold pwl_keypoint_values, cumsum. rewrite cumsum_from_length. apply col_length; assumption. Qed.

Lemma fresh_out_range k u : (k < length outs)%nat -> (u < units)%nat -> imin <= out_at outs k u /\ out_at outs k u <= imax.
Proof. intros Hkk Hu. rewrite fresh_outs_length in Hkk.
  destruct (Nat.ltb_spec k nk) as [Hlt|Hge].
  - rewrite (fresh_out_val k u Hlt Hu). apply (vals_range nk imin imax mono kps Hb Hn Hk).
    apply nth_In. pose proof fresh_vals_length as HV. unfold col in HV |- *. rewrite HV. exact Hlt.
  - assert (Ec : cyclic = true) by (clear - Hkk Hge; destruct cyclic; [reflexivity|lia]).
    rewrite Ec in Hkk. assert (k = length kernel) by (rewrite fresh_kernel_length; lia). subst k.
    unfold outs. rewrite Ec. rewrite keypoint_outputs_cyclic_last; [|intros E; pose proof fresh_kernel_length as HL; rewrite E in HL; cbn in HL; lia|exact Hu].
    (* the closing point repeats the first output = the bias *)
    pose proof (fresh_out_val 0 u ltac:(lia) Hu) as E0. unfold outs in E0. rewrite Ec in E0. rewrite keypoint_outputs_at in E0 by (rewrite ?fresh_kernel_length; lia || assumption).
    assert (E1 : qsum (firstn 1 (column u kernel)) == nth u (nth 0 kernel []) 0).
    { apply qsum_firstn1_column. }
    rewrite <- E1, E0. apply (vals_range nk imin imax mono kps Hb Hn Hk). apply nth_In. pose proof fresh_vals_length as HV. unfold col in HV |- *. rewrite HV. lia. Qed.

Lemma fresh_out_step k u : (S k < nk)%nat -> (u < units)%nat ->
  if (mono =? -1)%Z then out_at outs (S k) u <= out_at outs k u else out_at outs k u <= out_at outs (S k) u.
Proof. intros Hkk Hu. pose proof (fresh_out_val (S k) u Hkk Hu) as V1. pose proof (fresh_out_val k u ltac:(lia) Hu) as V2.
  pose proof (col_length nk imin imax mono kps Hn Hk) as HL. fold col in HL.
  unfold pwl_keypoint_values, cumsum in V1, V2. rewrite cumsum_from_nth in V1, V2 by lia.
  assert (E : qsum (firstn (S (S k)) col) == qsum (firstn (S k) col) + nth (S k) col 0).
  { apply qsum_firstn_S. lia. }
  pose proof (col_direction nk imin imax mono kps Hb Hn Hk (nth (S k) col 0)) as Hd. fold col in Hd.
  lapply Hd.
  - destruct (mono =? -1)%Z; intros; lra.
  - destruct col as [|x l]; [cbn in HL; lia|]. cbn [tl nth]. apply nth_In. cbn [length] in HL. lia. Qed.

Lemma fresh_first u : (u < units)%nat -> out_at outs 0 u == (if (mono =? -1)%Z then imax else imin).
Proof. intros Hu. rewrite (fresh_out_val 0 u ltac:(lia) Hu). apply vals_first. Qed.
Lemma fresh_last u : (u < units)%nat -> out_at outs (nk - 1) u == (if (mono =? -1)%Z then imin else imax).
Proof. intros Hu. rewrite (fresh_out_val (nk - 1) u ltac:(lia) Hu). apply vals_last; assumption. Qed.
End PwlFresh.

Lemma passes_assert_pwl : forall kps units omin omax clamp_min clamp_max mono (is_cyclic slopes learned_missing : bool) eps,
  let nw := (length kps - (if is_cyclic then 1 else 0))%nat in
  (* what verify_hyperparameters guarantees (is_cyclic excludes monotonicity; with
     'equal_slopes' the initialiser needs one keypoint per weight row, which rules out is_cyclic) *)
  (2 <= nw)%nat ->
  (slopes = true -> is_cyclic = false /\ forall l, In l (kp_lengths kps) -> 0 < l) ->
  (forall a b, omin = Some a -> omax = Some b -> a <= b) ->
  (mono = (-1)%Z \/ mono = 0%Z \/ mono = 1%Z) ->
  (is_cyclic = true -> mono = 0%Z) ->
  0 <= eps ->
  assert_pwl_layer
    (mkPL (mkPA units mono omin omax clamp_min clamp_max) is_cyclic
          (if learned_missing then Some (pwl_missing_output_init units omin omax clamp_min clamp_max) else None))
    (pwl_layer_init kps units omin omax clamp_min clamp_max mono is_cyclic slopes) eps = true.
Proof. intros kps units omin omax cmn cmx mono cyc slopes lm eps nw Hn Hsl Hbnd Hmono Hcyc He.
  pose proof (convert_range omin omax cmn cmx Hbnd) as Hcr.
  pose proof (convert_init_eq omin omax cmn cmx) as [Hemin Hemax].
  unfold pwl_layer_init, pwl_missing_output_init. fold nw.
  destruct (convert_all_constraints omin omax cmn cmx) as [[[imin imax] k1] k2]. cbn [fst snd] in *.
  destruct Hcr as (Hb & Hlo & Hhi).
  set (ko := if slopes then Some kps else None).
  assert (Hk : kps_ok nw ko).
  { unfold ko. destruct slopes; [|exact I]. destruct (Hsl eq_refl) as [-> Hp]. split; [unfold nw; lia|exact Hp]. }
  assert (Hne : pwl_linear_init nw units imin imax mono ko <> []).
  { intros E. pose proof (fresh_kernel_length nw units imin imax mono ko Hn Hk) as HL. rewrite E in HL. cbn in HL. lia. }
  apply pwl_layer_exact; [exact Hne|exact He|]. cbn [pl_cfg pl_cyclic pl_missing pa_units].
  pose proof (fresh_out_range nw units imin imax mono ko cyc Hb Hn Hk) as Hrange.
  pose proof (fresh_outs_length nw units imin imax mono ko cyc Hn Hk) as Hlen.
  split.
  - unfold pwl_feasible. cbn [pa_min pa_max pa_units pa_clamp_min pa_clamp_max pa_mono]. split; [|split].
    + intros lo u E Hu. rewrite (Hemin lo E) in *. split.
      * intros k Hkk. destruct (Hrange k u Hkk Hu). lra.
      * intros _. destruct (Z.eqb_spec mono (-1)) as [Em|Em].
        -- exists (nw - 1)%nat. split; [rewrite Hlen; lia|].
           rewrite (fresh_last nw units lo imax mono ko cyc Hn Hk u Hu). rewrite Em. cbn. lra.
        -- exists 0%nat. split; [rewrite Hlen; lia|].
           rewrite (fresh_first nw units lo imax mono ko cyc Hn Hk u Hu). apply Z.eqb_neq in Em. rewrite Em. lra.
    + intros hi u E Hu. rewrite (Hemax hi E) in *. split.
      * intros k Hkk. destruct (Hrange k u Hkk Hu). lra.
      * intros _. destruct (Z.eqb_spec mono (-1)) as [Em|Em].
        -- exists 0%nat. split; [rewrite Hlen; lia|].
           rewrite (fresh_first nw units imin hi mono ko cyc Hn Hk u Hu). rewrite Em. cbn. lra.
        -- exists (nw - 1)%nat. split; [rewrite Hlen; lia|].
           rewrite (fresh_last nw units imin hi mono ko cyc Hn Hk u Hu). apply Z.eqb_neq in Em. rewrite Em. lra.
    + intros Hm0 k u Hkk Hu. rewrite Hlen in Hkk.
      destruct cyc; [exfalso; apply Hm0; apply Hcyc; reflexivity|].
      pose proof (fresh_out_step nw units imin imax mono ko false Hb Hn Hk k u ltac:(lia) Hu) as Hs.
      destruct Hmono as [-> | [-> | ->]].
      * change ((-1 =? -1)%Z) with true in Hs. cbv iota in Hs. change (inject_Z (-1)) with (-1#1). lra.
      * exfalso; apply Hm0; reflexivity.
      * change ((1 =? -1)%Z) with false in Hs. cbv iota in Hs. change (inject_Z 1) with 1. lra.
  - unfold missing_feasible. cbn [pl_missing pl_cfg pa_units pa_min pa_max]. intros mo u E Hu.
    destruct lm; [|discriminate]. injection E as <-.
    assert (En : nth u (repeat ((imin + imax) * (1 # 2)) units) 0 = (imin + imax) * (1#2)).
    { rewrite nth_indep with (d' := (imin + imax) * (1#2)) by (rewrite repeat_length; exact Hu). apply nth_repeat. }
    rewrite En. split.
    + intros lo El. pose proof (Hlo lo El). lra.
    + intros hi Eh. pose proof (Hhi hi Eh). lra. Qed.

(* ====================================================================== *)
(* 3. CategoricalCalibration                                                *)
(* ====================================================================== *)
From TFL Require Import Model.LinearProject Proofs.PartialOrder Proofs.TopoSort Proofs.LinearProject Proofs.CategoricalInit.

(* CategoricalCalibration.build: the initializer value is passed through the
   constraint object whenever one exists (a bound or a non-empty monotonicity
   list); otherwise it is used as it is *)
Definition cat_build_kernel (ps : pairs) (lo hi : option Q) (units : nat) (raw : list (list Q)) : option (list (list Q)) :=
  match ps, lo, hi with
  | [], None, None => Some raw
  | _, _, _ => cat_project ps lo hi units raw
  end.

Lemma nth_column_kat u (K : list (list Q)) b : nth b (column u K) 0 = kat K b u.
Proof. unfold column, kat, krow. revert b. induction K as [|r K IH]; intros [|b]; cbn [map nth]; auto;
  destruct u; reflexivity. Qed.

Lemma cat_project_length ps lo hi units W R : cat_project ps lo hi units W = Some R -> length R = length W.
Proof. unfold cat_project. destruct (opt_map_all _ _) as [cols|]; [|discriminate]. intros E. inversion E.
  unfold transpose. rewrite map_length, seq_length. reflexivity. Qed.

Lemma passes_assert_categorical : forall ps lo hi units raw K eps,
  cat_build_kernel ps lo hi units raw = Some K ->
  (* what verify_hyperparameters guarantees: at least one bucket and one unit, pairs of existing
     buckets without a cycle, output_min <= output_max *)
  raw <> [] -> (1 <= units)%nat ->
  acyclic ps -> (forall i j, In (i, j) ps -> (i < length raw)%nat /\ (j < length raw)%nat) ->
  (forall l h, lo = Some l -> hi = Some h -> l <= h) ->
  0 <= eps ->
  assert_categorical (mkCatA units lo hi ps) K eps = true.
Proof. intros ps lo hi units raw K eps EK Hne Hu Hac Hr Hbnd He.
  assert (Hraw : ps = [] /\ lo = None /\ hi = None -> assert_categorical (mkCatA units lo hi ps) K eps = true).
  { intros (-> & -> & ->). reflexivity. }
  assert (Hproj : cat_project ps lo hi units raw = Some K -> assert_categorical (mkCatA units lo hi ps) K eps = true).
  { intros E. pose proof (cat_project_length _ _ _ _ _ _ E) as HL.
    apply cat_complete; cbn [ca_units]; [intros EK'; rewrite EK' in HL; destruct raw; [congruence|discriminate]|exact Hu|exact He|].
    assert (Hcol : forall u, (u < units)%nat -> exists r, cat_project_col ps lo hi (column u raw) = Some r /\ column u K = r).
    { intros u Hlt. apply (cat_per_unit ps lo hi units raw K u E Hlt). }
    unfold cat_feasible. cbn [ca_min ca_max ca_units ca_pairs]. split; [|split].
    - intros l b u -> Hb Hlt. destruct (Hcol u Hlt) as [r [Er Ec]].
      destruct (cat_bounds ps (Some l) hi _ r Er (kat K b u)) as [_ G].
      { rewrite <- Ec, <- nth_column_kat. apply nth_In. rewrite column_length. exact Hb. }
      pose proof (G l eq_refl (fun h Eh => Hbnd l h eq_refl Eh)). lra.
    - intros h b u -> Hb Hlt. destruct (Hcol u Hlt) as [r [Er Ec]].
      destruct (cat_bounds ps lo (Some h) _ r Er (kat K b u)) as [G _].
      { rewrite <- Ec, <- nth_column_kat. apply nth_In. rewrite column_length. exact Hb. }
      pose proof (G h eq_refl). lra.
    - intros i j u Hij Hlt. destruct (Hcol u Hlt) as [r [Er Ec]].
      assert (Hps : ps <> []) by (intros ->; destruct Hij).
      assert (Hpr : pairs_in_range ps (column u raw)) by (intros a b Hab; rewrite column_length; apply Hr; exact Hab).
      pose proof (cat_pairs ps lo hi _ r Hps Hac Hpr Er i j Hij) as G.
      rewrite <- Ec, !nth_column_kat in G. lra. }
  unfold cat_build_kernel in EK.
  destruct ps as [|p0 ps']; [destruct lo as [l|]; [|destruct hi as [h|]]|]; try (apply Hproj; exact EK).
  injection EK as <-. apply Hraw. auto. Qed.

(* ====================================================================== *)
(* 4. KroneckerFactoredLattice                                              *)
(* ====================================================================== *)
From TFL Require Import Model.KFLInit Proofs.KFLInit.

(* the two models of tf.sign agree *)
Lemma qsign_models_agree x : TFL.Model.Asserts.qsign x = TFL.Model.KFLInit.qsign x.
Proof. unfold TFL.Model.Asserts.qsign, TFL.Model.KFLInit.qsign. destruct (qlt 0 x); [reflexivity|]. destruct (qlt x 0); reflexivity. Qed.

(* utils.count_non_zeros(monotonicities) > 0 *)
Definition kfl_any_mono (monos : list Z) : bool := existsb nz monos.
(* the fresh kernel (1, L, units * dims, terms), reshaped as the assert reshapes it:
   entry [k; u; d; t] is entry k of the column the initialiser builds for
   (unit u, dimension d, term t) from its raw uniform samples and the fresh scale *)
Definition kfl_fresh_kernel (monos : list Z) (Sc : list (list Q)) (samples : nat -> nat -> nat -> list Q) : tens :=
  fun i => match i with
           | [k; u; d; t] => nth k (kfl_init_col (kfl_any_mono monos) (nz (nth d monos 0%Z)) (sc_at Sc u t) (samples u d t)) 0
           | _ => 0
           end.

Lemma qprod_ones {A} (ds : list A) : TFL.Model.Asserts.qprod (map (fun _ => 1) ds) == 1.
Proof. induction ds as [|d ds IH]; cbn [map TFL.Model.Asserts.qprod]. reflexivity. rewrite IH. lra. Qed.

Lemma passes_assert_kfl_init_range : forall L units dims terms monos omin omax samples imin imax eps,
  let Sc := kfl_scale_init units terms omin omax in
  (1 <= L)%nat ->
  (forall a b, omin = Some a -> omax = Some b -> a < b) ->
  (* the oracle: one raw column of L uniform samples from [imin, imax] per (unit, dimension, term) *)
  (forall u d t, (u < units)%nat -> (d < dims)%nat -> (t < terms)%nat ->
     length (samples u d t) = L /\ forall s, In s (samples u d t) -> imin <= s /\ s <= imax) ->
  (* with a bound configured the init range is inside [0, 1] (the default is exactly [0, 1]) *)
  (forall b, omin = Some b \/ omax = Some b -> 0 <= imin /\ imax <= 1) ->
  0 <= eps ->
  assert_kfl (mkKA L units dims terms monos omin omax) Sc (kfl_fresh_kernel monos Sc samples) eps = true.
Proof. intros L units dims terms monos omin omax samples imin imax eps Sc HL Hbnd Hor Hir He.
  apply kfl_complete; [exact HL|exact He|].
  (* facts about the fresh scale *)
  assert (Hsc : forall u t, (u < units)%nat -> (t < terms)%nat ->
            match omin, omax with
            | Some a, Some b => sc_at Sc u t == (b - a) * (1#2) \/ sc_at Sc u t == - ((b - a) * (1#2))
            | Some _, None => sc_at Sc u t = 1
            | None, Some _ => sc_at Sc u t = -1
            | None, None => sc_at Sc u t = 1 \/ sc_at Sc u t = -1
            end).
  { intros u t Hu Ht. unfold sc_at.
    assert (Hin : In (nth u Sc []) Sc) by (apply nth_In; unfold Sc, kfl_scale_init; rewrite repeat_length; exact Hu).
    destruct (kfl_scale_row units terms omin omax _ Hin) as [Hlen Hrow]. apply Hrow. apply nth_In. rewrite Hlen. exact Ht. }
  assert (Hnz : forall u t, (u < units)%nat -> (t < terms)%nat -> ~ sc_at Sc u t == 0).
  { intros u t Hu Ht. pose proof (Hsc u t Hu Ht) as H. destruct omin as [a|], omax as [b|].
    - pose proof (Hbnd a b eq_refl eq_refl). destruct H as [H|H]; rewrite H; lra.
    - rewrite H. lra.
    - rewrite H. lra.
    - destruct H as [H|H]; rewrite H; lra. }
  (* facts about the fresh kernel *)
  assert (Hent : forall k u d t, (k < L)%nat -> (u < units)%nat -> (d < dims)%nat -> (t < terms)%nat ->
            imin <= kfl_fresh_kernel monos Sc samples [k; u; d; t] /\ kfl_fresh_kernel monos Sc samples [k; u; d; t] <= imax).
  { intros k u d t Hk Hu Hd Ht. cbn [kfl_fresh_kernel]. destruct (Hor u d t Hu Hd Ht) as [Hlen Hr].
    apply (kfl_col_in_range (kfl_any_mono monos) (nz (nth d monos 0%Z)) (sc_at Sc u t) (samples u d t) imin imax (Hnz u t Hu Ht) Hr). apply nth_In. rewrite kfl_col_length, Hlen. exact Hk. }
  assert (Hpos : forall i, (exists b, omin = Some b \/ omax = Some b) -> valid [L; units; dims; terms] i -> 0 <= kfl_fresh_kernel monos Sc samples i).
  { intros i [b Hb] Hv. destruct (Hir b Hb) as [H0 _].
    inversion Hv as [|? ? k r1 Hk Hv1]; subst. inversion Hv1 as [|? ? u r2 Hu Hv2]; subst.
    inversion Hv2 as [|? ? d r3 Hd Hv3]; subst. inversion Hv3 as [|? ? t r4 Ht Hv4]; subst. inversion Hv4; subst.
    destruct (Hent k u d t Hk Hu Hd Ht). lra. }
  unfold kfl_feasible. cbn [k_monos k_dims k_L k_units k_terms k_min k_max k_shape]. split.
  - intros d j u t Hd Hm Hj Hu Ht. rewrite !qsign_models_agree. cbn [kfl_fresh_kernel].
    assert (Hnzd : nz (nth d monos 0%Z) = true) by (unfold nz; apply negb_true_iff; apply Z.eqb_neq; exact Hm).
    assert (Hany : kfl_any_mono monos = true).
    { unfold kfl_any_mono. apply existsb_exists. exists (nth d monos 0%Z). split; [apply nth_In; lia|exact Hnzd]. }
    rewrite Hany, Hnzd. destruct (Hor u d t Hu ltac:(lia) Ht) as [Hlen _].
    pose proof (kfl_col_sorted true true (sc_at Sc u t) (samples u d t) (Hnz u t Hu Ht) j eq_refl eq_refl
                  ltac:(rewrite kfl_col_length, Hlen; exact Hj)) as G. lra.
  - destruct omin as [a|] eqn:Ea, omax as [b|] eqn:Eb.
    + split.
      * intros u t v Hu Ht Hv. destruct (Hir a (or_introl eq_refl)) as [H0 H1].
        eapply Qle_trans; [apply (TFL.Proofs.Asserts.qprod_le _ (fun _ => 1))|rewrite qprod_ones; lra].
        intros d Hd. apply in_seq in Hd. destruct (Hent (v d) u d t (Hv d ltac:(lia)) Hu ltac:(lia) Ht) as [G0 G1].
        split; [apply qabs_nonneg|]. qcases; lra.
      * intros u t Hu Ht. pose proof (Hbnd a b eq_refl eq_refl) as Hab. destruct (Hsc u t Hu Ht) as [H|H]; rewrite H; lra.
    + split.
      * intros i Hv. apply Hpos; [exists a; left; reflexivity|exact Hv].
      * intros u t Hu Ht. rewrite (Hsc u t Hu Ht). lra.
    + split.
      * intros i Hv. apply Hpos; [exists b; right; reflexivity|exact Hv].
      * intros u t Hu Ht. rewrite (Hsc u t Hu Ht). lra.
    + exact I. Qed.

Lemma kfl_default_init_range_ok omin omax b : omin = Some b \/ omax = Some b ->
  0 <= fst (kfl_default_init_params omin omax) /\ snd (kfl_default_init_params omin omax) <= 1.
Proof. unfold kfl_default_init_params. intros [-> | ->]; [|destruct omin]; cbn; lra. Qed.

Lemma passes_assert_kfl : forall L units dims terms monos omin omax samples eps,
  let Sc := kfl_scale_init units terms omin omax in
  let imin := fst (kfl_default_init_params omin omax) in
  let imax := snd (kfl_default_init_params omin omax) in
  (1 <= L)%nat ->
  (forall a b, omin = Some a -> omax = Some b -> a < b) ->
  (forall u d t, (u < units)%nat -> (d < dims)%nat -> (t < terms)%nat ->
     length (samples u d t) = L /\ forall s, In s (samples u d t) -> imin <= s /\ s <= imax) ->
  0 <= eps ->
  assert_kfl (mkKA L units dims terms monos omin omax) Sc (kfl_fresh_kernel monos Sc samples) eps = true.
Proof. intros L units dims terms monos omin omax samples eps Sc imin imax HL Hbnd Hor He.
  apply (passes_assert_kfl_init_range L units dims terms monos omin omax samples imin imax eps); try assumption.
  intros b Hb. apply (kfl_default_init_range_ok omin omax b Hb). Qed.

(* ====================================================================== *)
(* Examples: the hypotheses of every implication are satisfiable           *)
(* ====================================================================== *)
Ltac in_cases' H := cbn in H; repeat (destruct H as [H|H]; [first [progress subst | inversion H; subst; clear H]|]); try (destruct H).
Ltac nat_cases d := do 4 (destruct d as [|d]; [try reflexivity|]); try (destruct d; reflexivity).

(* Lattice, linear initialiser: 4 dimensions (monotone, monotone, valley, free), 2 units, one
   constraint of every asserted family, both bounds *)
Definition ex_lin_la : la_cfg :=
  mkLA [2; 3; 3; 2]%nat 2 [1; 1; 0; 0]%Z [(0, 2, 1%Z)]%nat [(1, 3, (-1)%Z)]%nat [(0, 1)]%nat [(1, 0)]%nat [(0, 3)]%nat
       (Some (-(1))) (Some 3).
Definition ex_lin_monos : option (list Z) := Some [1; 1; 0; 0]%Z.
Definition ex_lin_unis : option (list Z) := Some [0; 0; 1; 0]%Z.
Example ex_lin_la_ok : la_ok ex_lin_la.
Proof. split; [|split; [|split]].
  - intros s Hs. in_cases' Hs; lia.
  - cbn. lia.
  - intros m cd dir Hin. in_cases' Hin; (split; [discriminate|auto]).
  - intros p q Hin. in_cases' Hin; discriminate. Qed.
Example ex_passes_assert_lattice_linear :
  assert_lattice ex_lin_la (linear_init (a_sizes ex_lin_la) (-(1)) 3 ex_lin_monos ex_lin_unis (a_units ex_lin_la)) (1#1000000) = true.
Proof. apply passes_assert_lattice_linear; try exact ex_lin_la_ok; try reflexivity; try lra; try (cbn; lia).
  - intros d. cbn. nat_cases d.
  - intros d Hd. cbn in Hd |- *. destruct d as [|[|[|[|d]]]]; intros E; first [reflexivity | discriminate | lia].
  - intros m cd dir Hin. in_cases' Hin; cbn; lia.
  - intros p q Hin. in_cases' Hin; cbn; lia.
  - intros p q Hin. in_cases' Hin; split; reflexivity.
  - intros lo E. injection E as <-. lra.
  - intros hi E. injection E as <-. lra.
  - intros m cd dir Hin. in_cases' Hin. split; reflexivity.
  - intros p q Hin. in_cases' Hin. cbn. lia.
  - intros p q Hin. in_cases' Hin. split; [left|right]; reflexivity. Qed.
(* the same by running the model of the assert on the model of the fresh kernel *)
Example ex_passes_assert_lattice_linear_computed :
  assert_lattice ex_lin_la (linear_init (a_sizes ex_lin_la) (-(1)) 3 ex_lin_monos ex_lin_unis (a_units ex_lin_la)) 0 = true.
Proof. vm_compute. reflexivity. Qed.

(* the layer: default initialiser id, the same configuration *)
Example ex_passes_assert_lattice_layer : exists W,
  lattice_init_kernel (create_kernel_initializer IdUniformOrLinear (a_sizes ex_lin_la) ex_lin_monos (a_min ex_lin_la) (a_max ex_lin_la)
                         ex_lin_unis [] None) (a_sizes ex_lin_la) (a_units ex_lin_la) [] [] = Some W /\
  assert_lattice ex_lin_la W (1#1000000) = true.
Proof. eexists. split; [reflexivity|].
  eapply (passes_assert_lattice_layer ex_lin_la IdUniformOrLinear ex_lin_monos ex_lin_unis [] None [] []);
    try exact ex_lin_la_ok; try reflexivity; try lra; try (cbn; lia).
  - intros d. cbn. nat_cases d.
  - intros m cd dir Hin. in_cases' Hin; cbn; lia.
  - intros p q Hin. in_cases' Hin; cbn; lia.
  - intros p q Hin. in_cases' Hin; split; reflexivity.
  - intros a b E1 E2. injection E1 as <-. injection E2 as <-. lra.
  - intros p E. discriminate.
  - cbn. split; [|split].
    + intros m cd dir Hin. in_cases' Hin. split; reflexivity.
    + intros p q Hin. in_cases' Hin. cbn. lia.
    + intros p q Hin. in_cases' Hin. split; [left|right]; reflexivity. Qed.

(* Lattice, random monotonic initialiser: monotonicity, a joint monotonicity, both bounds *)
Definition ex_rnd_la : la_cfg := mkLA [3; 2]%nat 2 [1; 0]%Z [] [] [] [] [(0, 1)]%nat (Some 0) (Some 5).
Example ex_rnd_la_ok : la_ok ex_rnd_la.
Proof. split; [|split; [|split]].
  - intros s Hs. in_cases' Hs; lia.
  - cbn. lia.
  - intros m cd dir Hin. in_cases' Hin.
  - intros p q Hin. in_cases' Hin; discriminate. Qed.
Example ex_passes_assert_lattice_random_monotonic :
  assert_lattice ex_rnd_la (random_mono_init (a_sizes ex_rnd_la) (a_units ex_rnd_la) (levels [3; 2]%nat) [0; 1; 2; 3; 4; 5]) (1#1000000) = true.
Proof. apply (passes_assert_lattice_random_monotonic ex_rnd_la (levels [3; 2]%nat) [0; 1; 2; 3; 4; 5] 0 5);
    try exact ex_rnd_la_ok; try reflexivity; try lra.
  - intros p q Hin. in_cases' Hin; cbn; lia.
  - cbn [ex_rnd_la a_sizes]. induction (levels [3; 2]%nat); constructor; auto.
  - intros a b Hab Hb. cbn in Hb.
    do 6 (destruct b as [|b]; [do 6 (destruct a as [|a]; [cbn; first [lra|lia]|]); lia|]). lia.
  - intros x Hx. in_cases' Hx; lra.
  - intros lo E. injection E as <-. lra.
  - intros hi E. injection E as <-. lra. Qed.
Example ex_passes_assert_lattice_random_monotonic_computed :
  assert_lattice ex_rnd_la (random_mono_init (a_sizes ex_rnd_la) (a_units ex_rnd_la) (levels [3; 2]%nat) [0; 1; 2; 3; 4; 5]) 0 = true.
Proof. vm_compute. reflexivity. Qed.

(* Lattice, C01 configuration record: monotone main feature with an Edgeworth and a trapezoid trust on free conditional features *)
Definition ex_c01_cfg : lat_cfg := mkLat [2; 2; 3]%nat 1 [1; 0; 0]%Z [(0, 1, 1%Z)]%nat [(0, 2, (-1)%Z)]%nat (Some 0) None.
Example ex_c01_cfg_valid : cfg_valid ex_c01_cfg.
Proof. unfold cfg_valid, all_trusts. cbn [ex_c01_cfg l_sizes l_units l_monos l_edge l_trap l_min l_max app].
  split. intros s Hs; in_cases' Hs; lia. split. lia. split. reflexivity. split.
  intros m [<-|[<-|[<-|[]]]]; auto. split.
  intros t Ht; in_cases' Ht; cbn; repeat split; auto; lia. split.
  intros t1 t2 H1 H2; in_cases' H1; in_cases' H2; cbn; discriminate. split.
  intros t1 t2 H1 H2; in_cases' H1; in_cases' H2; cbn; intros E; try reflexivity; discriminate. exact I. Qed.
Example ex_passes_assert_lattice_linear_cfg :
  assert_lattice (la_of ex_c01_cfg) (linear_init (l_sizes ex_c01_cfg) 0 1 (Some (l_monos ex_c01_cfg)) None (l_units ex_c01_cfg)) (1#1000000) = true.
Proof. apply (passes_assert_lattice_linear_cfg ex_c01_cfg None (1#1000000)); try exact ex_c01_cfg_valid; try reflexivity; try lra.
  - discriminate.
  - intros d. cbn. nat_cases d.
  - intros m cd dir Hin. in_cases' Hin. split; reflexivity. Qed.
Definition ex_mb_cfg : lat_cfg := mkLat [3; 2]%nat 2 [1; 0]%Z [] [] (Some (-2)) None.
Example ex_mb_cfg_valid : cfg_valid ex_mb_cfg /\ mono_bounds_only ex_mb_cfg /\ l_sizes ex_mb_cfg <> [].
Proof. unfold cfg_valid, mono_bounds_only. cbn. repeat split; try congruence; try lia; try lra. Qed.
Example ex_passes_assert_lattice_random_monotonic_cfg :
  assert_lattice (la_of ex_mb_cfg) (random_mono_init (l_sizes ex_mb_cfg) (l_units ex_mb_cfg) (levels [3; 2]%nat) [-2; -1; 0; 0; 1#2; 1]) (1#1000000) = true.
Proof. destruct ex_mb_cfg_valid as (H1 & H2 & _).
  apply (passes_assert_lattice_random_monotonic_cfg ex_mb_cfg (levels [3; 2]%nat) [-2; -1; 0; 0; 1#2; 1]); try assumption; try reflexivity; try lra.
  - cbn [ex_mb_cfg l_sizes]. induction (levels [3; 2]%nat); constructor; auto.
  - intros a b Hab Hb. cbn in Hb.
    do 6 (destruct b as [|b]; [do 6 (destruct a as [|a]; [cbn; first [lra|lia]|]); lia|]). lia.
  - intros x Hx. cbn [ex_mb_cfg l_min l_max default_init_params fst snd]. in_cases' Hx; qcases; lra. Qed.

(* PWLCalibration: decreasing, equal slopes, both bounds with a clamp, learned missing output *)
Example ex_passes_assert_pwl :
  assert_pwl_layer
    (mkPL (mkPA 2 (-1) (Some (-3)) (Some (-1)) true false) false
          (Some (pwl_missing_output_init 2 (Some (-3)) (Some (-1)) true false)))
    (pwl_layer_init [0; 1; 3; 7#2] 2 (Some (-3)) (Some (-1)) true false (-1) false true) (1#1000000) = true.
Proof. apply (passes_assert_pwl [0; 1; 3; 7#2] 2 (Some (-3)) (Some (-1)) true false (-1)%Z false true true); try lra; try (cbn; lia); auto.
  - intros _. split; [reflexivity|]. intros l Hl. in_cases' Hl; lra.
  - intros a b E1 E2. injection E1 as <-. injection E2 as <-. lra. Qed.
Example ex_passes_assert_pwl_computed :
  assert_pwl_layer
    (mkPL (mkPA 2 (-1) (Some (-3)) (Some (-1)) true false) false
          (Some (pwl_missing_output_init 2 (Some (-3)) (Some (-1)) true false)))
    (pwl_layer_init [0; 1; 3; 7#2] 2 (Some (-3)) (Some (-1)) true false (-1) false true) 0 = true /\
  (* cyclic, no monotonicity, only an upper bound *)
  assert_pwl_layer (mkPL (mkPA 1 0 None (Some 5) false true) true None)
    (pwl_layer_init [0; 1; 2; 4] 1 None (Some 5) false true 0 true false) 0 = true.
Proof. split; vm_compute; reflexivity. Qed.
Example ex_passes_assert_pwl_cyclic :
  assert_pwl_layer (mkPL (mkPA 1 0 None (Some 5) false true) true None)
    (pwl_layer_init [0; 1; 2; 4] 1 None (Some 5) false true 0 true false) (1#1000000) = true.
Proof. apply (passes_assert_pwl [0; 1; 2; 4] 1 None (Some 5) false true 0%Z true false false); try lra; try (cbn; lia); auto.
  intros a b E1. discriminate. Qed.

(* CategoricalCalibration: 3 buckets, 2 units, a chain of two pairs, both bounds, an infeasible raw value *)
Definition ex_cat_raw : list (list Q) := [[7#8; 0]; [-(1#4); 3]; [1#8; -2]].
Example ex_passes_assert_categorical : exists K,
  cat_build_kernel [(0, 1); (1, 2)]%nat (Some 0) (Some 1) 2 ex_cat_raw = Some K /\
  assert_categorical (mkCatA 2 (Some 0) (Some 1) [(0, 1); (1, 2)]%nat) K (1#1000000) = true.
Proof. destruct (cat_build_kernel [(0, 1); (1, 2)]%nat (Some 0) (Some 1) 2 ex_cat_raw) as [K|] eqn:E; [|vm_compute in E; discriminate].
  exists K. split; [reflexivity|].
  apply (passes_assert_categorical [(0, 1); (1, 2)]%nat (Some 0) (Some 1) 2 ex_cat_raw K); try exact E; try lra; try (cbn; lia).
  - discriminate.
  - apply (acyclic_rank _ (fun x => x)). intros a b H. in_cases' H; lia.
  - intros i j Hin. in_cases' Hin; cbn; lia.
  - intros l h E1 E2. injection E1 as <-. injection E2 as <-. lra. Qed.

(* KroneckerFactoredLattice: L = 3, 2 units, 2 dims (the first monotone), 2 terms, both bounds *)
Definition ex_kfl_samples (u d t : nat) : list Q := if Nat.even (u + d + t) then [1#2; 1; 1#8] else [0; 3#4; 1#4].
Example ex_passes_assert_kfl :
  assert_kfl (mkKA 3 2 2 2 [1; 0]%Z (Some (-1)) (Some 3)) (kfl_scale_init 2 2 (Some (-1)) (Some 3))
             (kfl_fresh_kernel [1; 0]%Z (kfl_scale_init 2 2 (Some (-1)) (Some 3)) ex_kfl_samples) (1#1000000) = true.
Proof. apply passes_assert_kfl; try lra; try lia.
  - intros a b E1 E2. injection E1 as <-. injection E2 as <-. lra.
  - intros u d t _ _ _. unfold ex_kfl_samples. cbn [kfl_default_init_params fst snd].
    destruct (Nat.even (u + d + t)); (split; [reflexivity|]); intros s Hs; in_cases' Hs; lra. Qed.
Example ex_passes_assert_kfl_computed :
  assert_kfl (mkKA 3 2 2 2 [1; 0]%Z (Some (-1)) (Some 3)) (kfl_scale_init 2 2 (Some (-1)) (Some 3))
             (kfl_fresh_kernel [1; 0]%Z (kfl_scale_init 2 2 (Some (-1)) (Some 3)) ex_kfl_samples) 0 = true.
Proof. vm_compute. reflexivity. Qed.

(* ---- the guards are needed: outside them the fresh kernel FAILS the layer's own assert
   (known findings D6 a/b/c and D24, here on the models, eps = 1e-6 as in Lattice.assert_constraints) ---- *)
Lemma fresh_lattice_fails_assert_outside_guards :
  (* D6a: trapezoid trust whose conditional feature is monotone *)
  assert_lattice (mkLA [2; 2]%nat 1 [1; 1]%Z [] [(0, 1, 1%Z)]%nat [] [] [] None None)
                 (linear_init [2; 2]%nat 0 1 (Some [1; 1]%Z) None 1) (1#1000000) = false /\
  (* D6b: monotonic dominance whose dominant dimension has more vertices *)
  assert_lattice (mkLA [3; 2]%nat 1 [1; 1]%Z [] [] [(0, 1)]%nat [] [] None None)
                 (linear_init [3; 2]%nat 0 1 (Some [1; 1]%Z) None 1) (1#1000000) = false /\
  (* D6c: joint monotonicity touching a unimodal dimension *)
  assert_lattice (mkLA [4; 3]%nat 1 [1; 0]%Z [] [] [] [] [(0, 1)]%nat None None)
                 (linear_init [4; 3]%nat 0 1 (Some [1; 0]%Z) (Some [0; 1]%Z) 1) (1#1000000) = false /\
  (* D24: random monotonic initialiser with a trapezoid trust *)
  assert_lattice (mkLA [2; 2]%nat 1 [1; 0]%Z [] [(0, 1, 1%Z)]%nat [] [] [] None None)
                 (random_mono_init [2; 2]%nat 1 (levels [2; 2]%nat) [0; 1#4; 1#2; 1]) (1#1000000) = false.
Proof. repeat split; vm_compute; reflexivity. Qed.
