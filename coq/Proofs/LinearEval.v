From TFL Require Import Model.LinearEval.
Open Scope Q_scope.

(* Relation between two input points for one coordinate, given its
   monotonicity flag and kernel entry. *)
Definition coord_ok (m : Z) (kq xq yq : Q) : Prop :=
  if (m =? 1)%Z then 0 <= kq /\ xq <= yq
  else if (m =? -1)%Z then kq <= 0 /\ yq <= xq
  else xq == yq.

Fixpoint coords_ok (ms : list Z) (k x y : list Q) : Prop :=
  match ms, k, x, y with
  | m :: ms', kq :: k', xq :: x', yq :: y' => coord_ok m kq xq yq /\ coords_ok ms' k' x' y'
  | _, _, _, _ => True
  end.

Lemma clip_opt_proper lo hi x y : x == y -> clip_opt lo hi x == clip_opt lo hi y.
Proof. intros H. unfold clip_opt, clip_lo, clip_hi. destruct lo, hi; rewrite ?H; reflexivity. Qed.

Lemma lin_sum_monotone : forall ms k bs x y,
  length ms = length k -> length x = length k -> length y = length k ->
  coords_ok ms k x y -> lin_sum k bs x <= lin_sum k bs y.
Proof.
  induction ms as [|m ms IH]; intros k bs x y Hm Hx Hy Hok.
  - destruct k; cbn in *; [|discriminate]. lra.
  - destruct k as [|kq k]; [discriminate|]. destruct x as [|xq x]; [discriminate|]. destruct y as [|yq y]; [discriminate|].
    destruct bs as [|[lo hi] bs]; cbn [lin_sum]. lra.
    cbn in Hok. destruct Hok as [Hc Hrest].
    assert (Hr : lin_sum k bs x <= lin_sum k bs y) by (apply (IH k bs x y); cbn in *; try lia; assumption).
    unfold coord_ok in Hc. destruct (m =? 1)%Z; [|destruct (m =? -1)%Z].
    + destruct Hc as [Hk Hle]. pose proof (qmul_le_l kq _ _ Hk (clip_opt_mono lo hi _ _ Hle)). lra.
    + destruct Hc as [Hk Hle]. pose proof (qmul_le_l_neg kq _ _ Hk (clip_opt_mono lo hi _ _ Hle)). lra.
    + rewrite (clip_opt_proper lo hi _ _ Hc). lra.
Qed.

Theorem lin_unit_monotone ms k b bs x y :
  length ms = length k -> length x = length k -> length y = length k ->
  coords_ok ms k x y -> lin_unit k b bs x <= lin_unit k b bs y.
Proof. intros H1 H2 H3 H4. unfold lin_unit. pose proof (lin_sum_monotone ms k bs x y H1 H2 H3 H4). lra. Qed.

Definition nob : bound := (None, None).
(* Effect of moving one coordinate. *)
Lemma lin_sum_set : forall k bs x i v, (i < length k)%nat -> (i < length bs)%nat -> (i < length x)%nat ->
  lin_sum k bs (set_nth i v x) - lin_sum k bs x ==
  nth i k 0 * (clip_opt (fst (nth i bs nob)) (snd (nth i bs nob)) v
               - clip_opt (fst (nth i bs nob)) (snd (nth i bs nob)) (nth i x 0)).
Proof.
  induction k as [|kq k IH]; intros bs x i v Hk Hb Hx; cbn in Hk; [lia|].
  destruct bs as [|[lo hi] bs]; cbn in Hb; [lia|]. destruct x as [|xq x]; cbn in Hx; [lia|].
  destruct i as [|i]; cbn [set_nth lin_sum nth fst snd].
  - lra.
  - rewrite <- (IH bs x i v) by lia. lra.
Qed.

(* Monotonic dominance: unclipped unit move along the dominant input changes
   the output at least as much as along the weak input. *)
Theorem lin_dominance_effect k b bs x dom weak d :
  (dom < length k)%nat -> (weak < length k)%nat -> length bs = length k -> length x = length k ->
  nth dom bs nob = (None, None) -> nth weak bs nob = (None, None) ->
  0 <= d -> nth weak k 0 <= nth dom k 0 ->
  lin_unit k b bs (set_nth weak (nth weak x 0 + d) x) - lin_unit k b bs x <=
  lin_unit k b bs (set_nth dom (nth dom x 0 + d) x) - lin_unit k b bs x.
Proof.
  intros Hd Hw Hbs Hx Ed Ew Hpos Hle. unfold lin_unit.
  pose proof (lin_sum_set k bs x dom (nth dom x 0 + d)) as H1.
  pose proof (lin_sum_set k bs x weak (nth weak x 0 + d)) as H2.
  rewrite Ed in H1. rewrite Ew in H2. unfold nob in H1, H2. cbn [fst snd clip_opt clip_lo clip_hi] in H1, H2.
  specialize (H1 ltac:(lia) ltac:(lia) ltac:(lia)). specialize (H2 ltac:(lia) ltac:(lia) ltac:(lia)). nra.
Qed.

(* Range dominance: sweeping the dominant input across its whole range changes
   the output at least as much as sweeping the weak input across its range. *)
Theorem lin_range_dominance_effect k b bs x dom weak ld hd lw hw :
  (dom < length k)%nat -> (weak < length k)%nat -> length bs = length k -> length x = length k ->
  nth dom bs nob = (Some ld, Some hd) -> nth weak bs nob = (Some lw, Some hw) ->
  ld <= hd -> lw <= hw ->
  (hw - lw) * nth weak k 0 <= (hd - ld) * nth dom k 0 ->
  lin_unit k b bs (set_nth weak hw x) - lin_unit k b bs (set_nth weak lw x) <=
  lin_unit k b bs (set_nth dom hd x) - lin_unit k b bs (set_nth dom ld x).
Proof.
  intros Hd Hw Hbs Hx Ed Ew Hdr Hwr Hle. unfold lin_unit.
  pose proof (lin_sum_set k bs x dom hd) as H1. pose proof (lin_sum_set k bs x dom ld) as H1'.
  pose proof (lin_sum_set k bs x weak hw) as H2. pose proof (lin_sum_set k bs x weak lw) as H2'.
  rewrite Ed in H1, H1'. rewrite Ew in H2, H2'. cbn [fst snd] in *.
  specialize (H1 ltac:(lia) ltac:(lia) ltac:(lia)). specialize (H2 ltac:(lia) ltac:(lia) ltac:(lia)).
  specialize (H1' ltac:(lia) ltac:(lia) ltac:(lia)). specialize (H2' ltac:(lia) ltac:(lia) ltac:(lia)).
  assert (E1 : clip_opt (Some ld) (Some hd) hd == hd) by (unfold clip_opt, clip_lo, clip_hi; qcases; lra).
  assert (E2 : clip_opt (Some ld) (Some hd) ld == ld) by (unfold clip_opt, clip_lo, clip_hi; qcases; lra).
  assert (E3 : clip_opt (Some lw) (Some hw) hw == hw) by (unfold clip_opt, clip_lo, clip_hi; qcases; lra).
  assert (E4 : clip_opt (Some lw) (Some hw) lw == lw) by (unfold clip_opt, clip_lo, clip_hi; qcases; lra).
  rewrite E1 in H1. rewrite E2 in H1'. rewrite E3 in H2. rewrite E4 in H2'. nra.
Qed.

(* Weighted average: non-negative weights summing to one, no bias. *)
Fixpoint clipped (bs : list bound) (x : list Q) : list Q :=
  match bs, x with (lo, hi) :: bs', xq :: x' => clip_opt lo hi xq :: clipped bs' x' | _, _ => [] end.

Lemma lin_sum_bounds : forall k bs x lo hi,
  length bs = length k -> length x = length k ->
  (forall q, In q k -> 0 <= q) -> (forall c, In c (clipped bs x) -> lo <= c /\ c <= hi) ->
  lo * qsum k <= lin_sum k bs x /\ lin_sum k bs x <= hi * qsum k.
Proof.
  induction k as [|kq k IH]; intros bs x lo hi Hb Hx Hk Hc; cbn [lin_sum qsum]. lra.
  destruct bs as [|[l h] bs]; [discriminate|]. destruct x as [|xq x]; [discriminate|].
  cbn [clipped] in Hc.
  destruct (IH bs x lo hi) as [A B]; cbn in *; try lia.
  - intros; apply Hk; right; assumption.
  - intros; apply Hc; right; assumption.
  - pose proof (Hk kq (or_introl eq_refl)). destruct (Hc _ (or_introl eq_refl)). cbn [lin_sum]. split; nra.
Qed.

Theorem lin_weighted_average k bs x lo hi :
  length bs = length k -> length x = length k ->
  (forall q, In q k -> 0 <= q) -> qsum k == 1 ->
  (forall c, In c (clipped bs x) -> lo <= c /\ c <= hi) ->
  lo <= lin_unit k 0 bs x /\ lin_unit k 0 bs x <= hi.
Proof. intros Hb Hx Hk Hs Hc. unfold lin_unit. destruct (lin_sum_bounds k bs x lo hi Hb Hx Hk Hc) as [A B].
  rewrite Hs in A, B. lra. Qed.

(* The layer output of unit u is the per-unit formula applied to column u. *)
Theorem linear_eval_unit units K bias bs xs u : (u < units)%nat ->
  nth u (linear_eval units K bias bs xs) 0 = lin_unit (column u K) (nth u bias 0) bs (nth u xs []).
Proof. intros Hu. unfold linear_eval. exact (nth_map_seq (fun u => lin_unit (column u K) (nth u bias 0) bs (nth u xs [])) units u 0 Hu). Qed.

(* Non-vacuity: concrete weights and points meeting the hypotheses. *)
Example coords_ok_example :
  coords_ok [1; -1; 0]%Z [2; -3; 5] [0; 1; 7] [1; 0; 7].
Proof. cbn. unfold coord_ok; cbn. repeat split; lra. Qed.
