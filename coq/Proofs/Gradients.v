(* Lemmas for C19 (gradients equal true derivatives). *)
From Coq Require Import Qround.
From TFL Require Import Model.Gradients.
Open Scope Q_scope.

(* ------------------------------------------------------------------ *)
(* products                                                            *)
(* ------------------------------------------------------------------ *)
Lemma qeqb_true a b : Qeq_bool a b = true <-> a == b.
Proof. apply Qeq_bool_iff. Qed.
Lemma qeqb_false a b : Qeq_bool a b = false <-> ~ a == b.
Proof. split. intros H E. apply Qeq_bool_iff in E. congruence.
  intros H. destruct (Qeq_bool a b) eqn:E; [|reflexivity]. apply Qeq_bool_iff in E. contradiction. Qed.

Lemma is_zero_z x : x == 0 -> is_zero x = 1.
Proof. intros H. unfold is_zero. apply qeqb_true in H. rewrite H. reflexivity. Qed.
Lemma is_zero_nz x : ~ x == 0 -> is_zero x = 0.
Proof. intros H. unfold is_zero. apply qeqb_false in H. rewrite H. reflexivity. Qed.
Lemma is_zero_cases x : (x == 0 /\ is_zero x = 1) \/ (~ x == 0 /\ is_zero x = 0).
Proof. destruct (Qeq_dec x 0) as [H|H]; [left|right]; split; auto using is_zero_z, is_zero_nz. Qed.

Lemma num_zeros_cons x t : num_zeros (x :: t) = is_zero x + num_zeros t.
Proof. reflexivity. Qed.
Lemma num_zeros_nonneg t : 0 <= num_zeros t.
Proof. induction t as [|x t IH]. unfold num_zeros; cbn; lra. rewrite num_zeros_cons.
  destruct (is_zero_cases x) as [[_ ->]|[_ ->]]; lra. Qed.
(* the count is an integer: it is 0 or at least 1 *)
Lemma num_zeros_int t : num_zeros t == 0 \/ 1 <= num_zeros t.
Proof. induction t as [|x t IH]. left; reflexivity. rewrite num_zeros_cons.
  pose proof (num_zeros_nonneg t).
  destruct (is_zero_cases x) as [[_ ->]|[_ ->]]. right; lra. destruct IH; [left|right]; lra. Qed.
Lemma num_zeros_pos_prod t : 1 <= num_zeros t -> prod t == 0.
Proof. induction t as [|x t IH]; intros H. unfold num_zeros in H; cbn in H; lra.
  rewrite num_zeros_cons in H. cbn [prod].
  destruct (is_zero_cases x) as [[Hx E]|[Hx E]]; rewrite E in H.
  - rewrite Hx. lra.
  - rewrite IH by lra. lra. Qed.
Lemma num_zeros_has_zero t i : (i < length t)%nat -> nth i t 0 == 0 -> 1 <= num_zeros t.
Proof. revert i; induction t as [|x t IH]; intros i Hi Hz; cbn in Hi. lia.
  rewrite num_zeros_cons. pose proof (num_zeros_nonneg t). destruct i as [|i]; cbn in Hz.
  - rewrite (is_zero_z x Hz). lra.
  - assert (1 <= num_zeros t) by (apply (IH i); [lia|exact Hz]).
    destruct (is_zero_cases x) as [[_ ->]|[_ ->]]; lra. Qed.
Lemma num_zeros_0_plus_mask t : num_zeros t == 0 -> prod (plus_mask t) == prod t.
Proof. induction t as [|x t IH]; intros H. reflexivity.
  rewrite num_zeros_cons in H. pose proof (num_zeros_nonneg t).
  unfold plus_mask in *. cbn [map prod].
  destruct (is_zero_cases x) as [[_ E]|[_ E]]; rewrite E in *. lra.
  rewrite IH by lra. lra. Qed.

Lemma prod_split t i : (i < length t)%nat -> prod t == nth i t 0 * prod_others i t.
Proof. unfold prod_others. revert i; induction t as [|x t IH]; intros i Hi; cbn in Hi. lia.
  destruct i as [|i]; cbn [nth remove_nth prod]. reflexivity.
  rewrite (IH i) by lia. ring. Qed.

(* the product is affine in each coordinate *)
Lemma prod_set_nth t i v : (i < length t)%nat -> prod (set_nth i v t) == v * prod_others i t.
Proof. unfold prod_others. revert i; induction t as [|x t IH]; intros i Hi; cbn in Hi. lia.
  destruct i as [|i]; cbn [set_nth remove_nth prod]. reflexivity.
  rewrite (IH i) by lia. ring. Qed.
Lemma prod_affine t i h : (i < length t)%nat ->
  prod (set_nth i (nth i t 0 + h) t) - prod t == h * prod_others i t.
Proof. intros Hi. rewrite prod_set_nth by exact Hi. rewrite (prod_split t i Hi). ring. Qed.

Lemma ind_eq1_true a : a == 1 -> (if Qeq_bool a 1 then 1 else 0) = 1.
Proof. intros H. apply qeqb_true in H. rewrite H. reflexivity. Qed.
Lemma ind_eq1_false a : ~ a == 1 -> (if Qeq_bool a 1 then 1 else 0) = 0.
Proof. intros H. apply qeqb_false in H. rewrite H. reflexivity. Qed.

(* the single-zero branch at a zero position, for every zero pattern *)
Lemma grad1_at_zero t : forall i, (i < length t)%nat -> nth i t 0 == 0 ->
  (if Qeq_bool (num_zeros t) 1 then 1 else 0) * prod (plus_mask t) == prod_others i t.
Proof. unfold prod_others. induction t as [|x t IH]; intros i Hi Hz; cbn in Hi. lia.
  rewrite num_zeros_cons. unfold plus_mask in *. cbn [map prod].
  pose proof (num_zeros_nonneg t) as Hnn.
  destruct i as [|i]; cbn [nth remove_nth prod] in *.
  - rewrite (is_zero_z x Hz). destruct (num_zeros_int t) as [H0|H1].
    + rewrite ind_eq1_true by lra. rewrite (num_zeros_0_plus_mask t H0). rewrite Hz. ring.
    + rewrite ind_eq1_false by lra. rewrite (num_zeros_pos_prod t H1). ring.
  - assert (H1 : 1 <= num_zeros t) by (apply (num_zeros_has_zero t i); [lia|exact Hz]).
    destruct (is_zero_cases x) as [[Hx E]|[Hx E]]; rewrite E.
    + rewrite ind_eq1_false by lra. rewrite Hx. ring.
    + assert (Hn : 0 + num_zeros t == num_zeros t) by ring.
      assert (Hb : Qeq_bool (0 + num_zeros t) 1 = Qeq_bool (num_zeros t) 1).
      { destruct (Qeq_bool (num_zeros t) 1) eqn:E1.
        apply qeqb_true. apply qeqb_true in E1. lra.
        apply qeqb_false. apply qeqb_false in E1. lra. }
      rewrite Hb. rewrite <- (IH i) by (try lia; exact Hz). ring. Qed.

Lemma nth_map_Q (f : Q -> Q) l i : (i < length l)%nat -> nth i (map f l) 0 = f (nth i l 0).
Proof. intros H. rewrite nth_indep with (d' := f 0) by (rewrite map_length; exact H). apply map_nth. Qed.

(* grad_fn delivers, at every position and for every zero pattern, the product
   of all the other entries *)
Lemma grad_prod_others t i : (i < length t)%nat -> nth i (grad_prod t) 0 == prod_others i t.
Proof. intros Hi. unfold grad_prod. rewrite nth_map_Q by exact Hi. rewrite Qred_correct.
  destruct (is_zero_cases (nth i t 0)) as [[Hz E]|[Hz E]]; rewrite E.
  - unfold divide_no_nan. apply qeqb_true in Hz. rewrite Hz. apply qeqb_true in Hz.
    rewrite (grad1_at_zero t i Hi Hz). ring.
  - unfold divide_no_nan. pose proof Hz as Hb. apply qeqb_false in Hb. rewrite Hb.
    rewrite (prod_split t i Hi). field. exact Hz. Qed.

Lemma grad_prod_length t : length (grad_prod t) = length t.
Proof. unfold grad_prod. apply map_length. Qed.

Lemma prod_gradient t i h : (i < length t)%nat ->
  prod (set_nth i (nth i t 0 + h) t) - prod t == h * nth i (grad_prod t) 0.
Proof. intros Hi. rewrite grad_prod_others by exact Hi. apply prod_affine. exact Hi. Qed.

Lemma grad_prod_dy_nth dy t i : (i < length t)%nat ->
  nth i (grad_prod_dy dy t) 0 == dy * nth i (grad_prod t) 0.
Proof. intros Hi. unfold grad_prod_dy. rewrite nth_map_Q by (rewrite grad_prod_length; exact Hi).
  apply Qred_correct. Qed.

Lemma prod_gradient_dy dy t i h : (i < length t)%nat ->
  dy * (prod (set_nth i (nth i t 0 + h) t) - prod t) == h * nth i (grad_prod_dy dy t) 0.
Proof. intros Hi. rewrite grad_prod_dy_nth by exact Hi. rewrite prod_gradient by exact Hi. ring. Qed.

(* the slope of an affine function is unique: whatever number g satisfies the
   difference identity for all h is the delivered gradient *)
Lemma prod_gradient_unique t i g : (i < length t)%nat ->
  (forall h, prod (set_nth i (nth i t 0 + h) t) - prod t == h * g) -> g == nth i (grad_prod t) 0.
Proof. intros Hi H. pose proof (H 1) as H1. rewrite prod_gradient in H1 by exact Hi. lra. Qed.

(* ------------------------------------------------------------------ *)
(* evaluations linear in the kernel                                    *)
(* ------------------------------------------------------------------ *)
Lemma dot_set_nth w : forall K v a, (v < length K)%nat ->
  dot w (set_nth v a K) == dot w K + (a - nth v K 0) * nth v w 0.
Proof. induction w as [|x w IH]; intros K v a Hv.
  - destruct (set_nth v a K), K; cbn [dot]; destruct v; cbn [nth]; ring.
  - destruct K as [|k K]; cbn in Hv. lia. destruct v as [|v]; cbn [set_nth dot nth].
    ring. rewrite (IH K v a) by lia. ring. Qed.

Lemma lin_eval_gradient w K v h : (v < length K)%nat ->
  lin_eval w (set_nth v (nth v K 0 + h) K) - lin_eval w K == h * nth v w 0.
Proof. intros Hv. unfold lin_eval. rewrite dot_set_nth by exact Hv. ring. Qed.

Lemma lin_eval_gradient_unique w K v g : (v < length K)%nat ->
  (forall h, lin_eval w (set_nth v (nth v K 0 + h) K) - lin_eval w K == h * g) -> g == nth v w 0.
Proof. intros Hv H. pose proof (H 1) as H1. rewrite lin_eval_gradient in H1 by exact Hv. lra. Qed.

(* 1-D hat weights: partition of unity *)
Lemma qnat_S k : qnat (S k) == qnat k + 1.
Proof. unfold qnat. rewrite Nat2Z.inj_succ. unfold Z.succ. rewrite inject_Z_plus. reflexivity. Qed.
Lemma qnat_nonneg k : 0 <= qnat k.
Proof. induction k. unfold qnat, Qle; cbn; lia. rewrite qnat_S. lra. Qed.
Lemma hat_nonneg x k : 0 <= hat x k.
Proof. unfold hat. qcases; lra. Qed.
Lemma hat_le1 x k : hat x k <= 1.
Proof. unfold hat. qcases; lra. Qed.

Lemma w1d_S n x : qsum (w1d (S n) x) == qsum (w1d n x) + hat x n.
Proof. unfold w1d. rewrite seq_S, map_app, qsum_app. cbn [Nat.add map qsum]. ring. Qed.

Lemma w1d_sum_gen n x : 0 <= x -> qsum (w1d (S n) x) == qmax 0 (qmin 1 (qnat (S n) - x)).
Proof. intros Hx. induction n as [|n IH].
  - rewrite w1d_S. unfold w1d, hat. cbn [seq map qsum].
    assert (E0 : qnat 0 == 0) by reflexivity. assert (E1 : qnat 1 == 1) by reflexivity.
    rewrite E0, E1. qcases; lra.
  - rewrite w1d_S, IH. unfold hat. rewrite (qnat_S (S n)).
    pose proof (qnat_nonneg n). pose proof (qnat_S n).
    set (a := qnat (S n)) in *. qcases; lra. Qed.

Lemma w1d_sum n x : (1 <= n)%nat -> 0 <= x -> x <= qnat n - 1 -> qsum (w1d n x) == 1.
Proof. intros Hn H0 H1. destruct n as [|n]. lia. rewrite w1d_sum_gen by exact H0. qcases; lra. Qed.
Lemma w1d_nonneg n x a : In a (w1d n x) -> 0 <= a.
Proof. unfold w1d. intros H. apply in_map_iff in H. destruct H as [k [<- _]]. apply hat_nonneg. Qed.

(* a weight vector: non-negative entries summing to one *)
Definition convex_weights (w : list Q) : Prop := (forall a, In a w -> 0 <= a) /\ qsum w == 1.

Lemma qsum_flat_map {A} (f : A -> list Q) l : qsum (flat_map f l) == qsum (map (fun a => qsum (f a)) l).
Proof. induction l as [|x l IH]; cbn [flat_map map qsum]. reflexivity. rewrite qsum_app, IH. reflexivity. Qed.
Lemma qsum_map_red (a : Q) o : qsum (map (fun b => Qred (a * b)) o) == a * qsum o.
Proof. induction o as [|b o IH]; cbn [map qsum]. ring. rewrite IH, Qred_correct. ring. Qed.

Lemma outer_sum ws : qsum (outer ws) == prod (map qsum ws).
Proof. induction ws as [|w ws IH]; cbn [outer map prod]. cbn; lra.
  rewrite qsum_flat_map.
  rewrite (qsum_map_ext _ (fun a => a * qsum (outer ws))) by (intros; apply qsum_map_red).
  assert (E : forall c, qsum (map (fun a => a * c) w) == qsum w * c).
  { intros c. induction w as [|a w IHw]; cbn [map qsum]. ring. rewrite IHw. ring. }
  rewrite E, IH. reflexivity. Qed.
Lemma outer_nonneg ws : (forall w, In w ws -> forall a, In a w -> 0 <= a) -> forall b, In b (outer ws) -> 0 <= b.
Proof. induction ws as [|w ws IH]; intros H b Hb; cbn [outer] in Hb.
  - destruct Hb as [<-|[]]. lra.
  - apply in_flat_map in Hb. destruct Hb as [a [Ha Hb]]. apply in_map_iff in Hb. destruct Hb as [c [<- Hc]].
    rewrite Qred_correct. apply qmul_nonneg. apply (H w); [left; reflexivity|exact Ha].
    apply IH; [|exact Hc]. intros w' Hw'. apply H. right; exact Hw'. Qed.
Lemma outer_convex ws : Forall convex_weights ws -> convex_weights (outer ws).
Proof. intros H. split.
  - apply outer_nonneg. intros w Hw. rewrite Forall_forall in H. apply (H w Hw).
  - rewrite outer_sum. induction H as [|w ws [_ Hw] _ IH]; cbn [map prod]. reflexivity. rewrite Hw, IH. ring. Qed.

Lemma clip_lat_range s x : (1 <= s)%nat -> 0 <= clip_lat s x /\ clip_lat s x <= qnat s - 1.
Proof. intros Hs. unfold clip_lat. apply qclip_range. destruct s as [|s]. lia. rewrite qnat_S. pose proof (qnat_nonneg s). lra. Qed.

Lemma w1d_two_convex clip x : clip = true \/ (0 <= x /\ x <= 1) -> convex_weights (w1d_two clip x).
Proof. intros H. unfold w1d_two, convex_weights. destruct clip.
  - split. intros a [<-|[<-|[]]]; unfold qclip; qcases; lra. cbn [qsum]. unfold qclip. qcases; lra.
  - destruct H as [H|[H0 H1]]. discriminate. split. intros a [<-|[<-|[]]]; lra. cbn [qsum]. ring. Qed.
Lemma w1d_convex clip s x : (1 <= s)%nat -> clip = true \/ (0 <= x /\ x <= qnat s - 1) ->
  convex_weights (w1d s (if clip then clip_lat s x else x)).
Proof. intros Hs H. split. intros a; apply w1d_nonneg.
  destruct clip. destruct (clip_lat_range s x Hs). apply w1d_sum; assumption.
  destruct H as [H|[H0 H1]]. discriminate. apply w1d_sum; assumption. Qed.

(* the hypothesis under which the lattice is evaluated inside its domain:
   either inputs are clipped (the layer's default) or the point is in range *)
Definition lattice_point_ok (clip : bool) (sizes : list nat) (x : list Q) : Prop :=
  Forall2 (fun s xi => (2 <= s)%nat /\ (clip = true \/ (0 <= xi /\ xi <= qnat s - 1))) sizes x.

Lemma hyper_weights_convex clip as_list sizes x : lattice_point_ok clip sizes x ->
  convex_weights (hyper_weights clip as_list sizes x).
Proof. intros H. unfold hyper_weights. destruct (all_two sizes && negb as_list) eqn:E.
  - apply andb_true_iff in E. destruct E as [E _]. unfold all_two in E. apply outer_convex.
    induction H as [|s xi sizes x [Hs Hx] _ IH]; cbn [map]. constructor.
    cbn [forallb] in E. apply andb_true_iff in E. destruct E as [E1 E2]. apply Nat.eqb_eq in E1. subst s.
    constructor; [|apply IH; exact E2]. apply w1d_two_convex.
    assert (E1 : qnat 2 - 1 == 1) by reflexivity. rewrite E1 in Hx. exact Hx.
  - apply outer_convex. clear E. induction H as [|s xi sizes x [Hs Hx] _ IH]; cbn [map2]; constructor.
    apply w1d_convex; [lia|exact Hx]. exact IH. Qed.

(* ------------------------------------------------------------------ *)
(* Lattice, simplex interpolation                                      *)
(* ------------------------------------------------------------------ *)
(* gather + weighted sum is linear in the gathered kernel: the derivative
   w.r.t. kernel entry v is the total weight of the terms that gather v *)
Lemma sp_eval_gradient ts K v h :
  sp_eval ts (fun u => K u + (if Z.eqb u v then h else 0)) - sp_eval ts K == h * sp_weight ts v.
Proof. unfold sp_eval, sp_weight. induction ts as [|[i a] ts IH]; cbn [map qsum fst snd]. ring.
  destruct (Z.eqb i v); lra. Qed.

Lemma simplex_terms_sum l : forall prev idx, qsum (map snd (simplex_terms prev idx l)) == prev.
Proof. induction l as [|[r s] l IH]; intros prev idx; cbn [simplex_terms map qsum snd]. ring.
  rewrite IH. ring. Qed.

(* descending chain below [prev], ending above 0 *)
Fixpoint chain (prev : Q) (l : list (Q * Z)) : Prop :=
  match l with [] => 0 <= prev | p :: l' => fst p <= prev /\ chain (fst p) l' end.
Lemma simplex_terms_nonneg l : forall prev idx, chain prev l ->
  forall p, In p (simplex_terms prev idx l) -> 0 <= snd p.
Proof. induction l as [|[r s] l IH]; intros prev idx H p Hp; cbn [simplex_terms chain fst] in *.
  - destruct Hp as [<-|[]]. exact H.
  - destruct H as [H1 H2]. destruct Hp as [<-|Hp]. cbn [snd]. lra. exact (IH r _ H2 p Hp). Qed.
Lemma ins_chain p l : forall prev, chain prev l -> 0 <= fst p -> fst p <= prev -> chain prev (ins_desc p l).
Proof. induction l as [|q l IH]; intros prev H H0 H1; cbn [ins_desc chain] in *. split; assumption.
  destruct H as [Hq Hl]. destruct (Qle_bool (fst q) (fst p)) eqn:E; cbn [chain].
  - apply Qle_bool_iff in E. repeat split; assumption.
  - apply (qle_false (fst q) (fst p)) in E. split. exact Hq. apply IH; [exact Hl|exact H0|lra]. Qed.
Lemma sort_chain l : (forall p, In p l -> 0 <= fst p /\ fst p <= 1) -> chain 1 (sort_desc l).
Proof. induction l as [|p l IH]; intros H; cbn [sort_desc fold_right]. cbn; lra.
  destruct (H p (or_introl eq_refl)). apply ins_chain; try assumption.
  apply IH. intros q Hq. apply H. right; exact Hq. Qed.

(* truncation toward zero is the floor for non-negative rationals *)
Lemma trunc_floor x : 0 <= x -> trunc x = Qfloor x.
Proof. intros H. unfold trunc. destruct x as [n d]. cbn [Qnum Qden Qfloor]. apply Z.quot_div_nonneg.
  unfold Qle in H; cbn in H. lia. reflexivity. Qed.
Lemma qnat_inject s : inject_Z (Z.of_nat s - 2) == qnat s - 2.
Proof. unfold qnat, Z.sub. rewrite inject_Z_plus, inject_Z_opp. reflexivity. Qed.

Definition in01 (r : Q) : Prop := 0 <= r /\ r <= 1.
Lemma residual_ok all2 s xi : (2 <= s)%nat -> (all2 = true -> s = 2%nat) ->
  0 <= xi -> xi <= qnat s - 1 -> in01 (xi - inject_Z (corner all2 s xi)).
Proof. intros Hs H2 H0 H1. unfold corner, in01. destruct all2.
  - rewrite (H2 eq_refl) in H1. assert (E : qnat 2 - 1 == 1) by reflexivity. rewrite E in H1.
    assert (E0 : inject_Z 0 == 0) by reflexivity. rewrite E0. lra.
  - rewrite trunc_floor by exact H0. pose proof (Qfloor_le xi) as Hf. pose proof (Qlt_floor xi) as Hg.
    rewrite inject_Z_plus in Hg. assert (E1 : inject_Z 1 == 1) by reflexivity. rewrite E1 in Hg.
    destruct (Z.min_spec (Qfloor xi) (Z.of_nat s - 2)) as [[Hlt ->]|[Hge ->]].
    + lra.
    + rewrite Zle_Qle in Hge. rewrite qnat_inject in *. lra. Qed.

Definition simplex_ok_dim (clip all2 : bool) (s : nat) (xi : Q) : Prop :=
  (2 <= s)%nat /\ (all2 = true -> s = 2%nat) /\ (clip = true \/ (0 <= xi /\ xi <= qnat s - 1)).

Lemma residuals_ok clip all2 sizes x : Forall2 (simplex_ok_dim clip all2) sizes x ->
  Forall in01 (map2 (fun xi c => xi - inject_Z c) (if clip then map2 clip_lat sizes x else x)
                    (map2 (corner all2) sizes (if clip then map2 clip_lat sizes x else x))).
Proof. intros H. destruct clip.
  - induction H as [|s xi sizes x [Hs [H2 _]] _ IH]; cbn [map2]; constructor; [|exact IH].
    destruct (clip_lat_range s xi); [lia|]. apply residual_ok; assumption.
  - induction H as [|s xi sizes x [Hs [H2 Hx]] _ IH]; cbn [map2]; constructor; [|exact IH].
    destruct Hx as [Hx|[H0 H1]]; [discriminate|]. apply residual_ok; assumption. Qed.

Lemma Forall2_impl_In {A B} (P R : A -> B -> Prop) l l' :
  Forall2 P l l' -> (forall a b, In a l -> P a b -> R a b) -> Forall2 R l l'.
Proof. induction 1 as [|a b l l' Hab _ IH]; intros H; constructor.
  apply H; [left; reflexivity|exact Hab]. apply IH. intros; apply H; [right|]; assumption. Qed.

Lemma lattice_point_simplex_ok clip sizes x : lattice_point_ok clip sizes x ->
  Forall2 (simplex_ok_dim clip (all_two sizes)) sizes x.
Proof. intros H. apply (Forall2_impl_In _ _ _ _ H). intros s xi Hin [Hs Hx]. repeat split; try assumption.
  intros E. unfold all_two in E. rewrite forallb_forall in E. specialize (E s Hin). apply Nat.eqb_eq in E. congruence. Qed.

Lemma simplex_sparse_convex clip sizes x : lattice_point_ok clip sizes x ->
  (forall p, In p (simplex_sparse clip sizes x) -> 0 <= snd p) /\
  qsum (map snd (simplex_sparse clip sizes x)) == 1.
Proof. intros H. unfold simplex_sparse. split; [|apply simplex_terms_sum].
  apply simplex_terms_nonneg. apply sort_chain. intros [r s] Hp. apply in_combine_l in Hp. cbn [fst].
  pose proof (residuals_ok clip (all_two sizes) sizes x (lattice_point_simplex_ok _ _ _ H)) as HF.
  rewrite Forall_forall in HF. exact (HF r Hp). Qed.

(* ------------------------------------------------------------------ *)
(* PWLCalibration                                                      *)
(* ------------------------------------------------------------------ *)
Lemma dot_app a : forall b c d, length a = length b -> dot (a ++ c) (b ++ d) == dot a b + dot c d.
Proof. induction a as [|x a IH]; intros [|y b] c d H; cbn in H; try discriminate; cbn [app dot]. ring.
  rewrite IH by congruence. ring. Qed.
Lemma dot_map_sub wl ws : forall hs, length ws = length hs ->
  dot (map (fun a => a - wl) ws) hs == dot ws hs - wl * qsum hs.
Proof. induction ws as [|a ws IH]; intros [|k hs] H; cbn in H; try discriminate; cbn [map dot qsum]. ring.
  rewrite IH by congruence. ring. Qed.
Lemma cyclic_fold_snoc wb whs wl : cyclic_fold (wb :: whs ++ [wl]) = wb :: map (fun a => a - wl) whs.
Proof. unfold cyclic_fold. rewrite removelast_last. rewrite app_length. cbn [length].
  replace (length whs + 1 - 1)%nat with (length whs) by lia.
  rewrite app_nth2 by lia. rewrite Nat.sub_diag. reflexivity. Qed.
Lemma snoc_decomp {A} (l : list A) n : length l = S n -> exists l' a, l = l' ++ [a] /\ length l' = n.
Proof. intros H. destruct (exists_last (l := l)) as [l' [a E]]. intros ->; discriminate.
  exists l', a. split. exact E. subst l. rewrite app_length in H. cbn in H. lia. Qed.

(* the cyclic calibrator, whose last height is minus the sum of the others, is
   again a weighted sum of the free kernel entries, with the folded weights *)
Lemma cyclic_dot w K : K <> [] -> length w = S (length K) ->
  dot w (K ++ [- qsum (tl K)]) == dot (cyclic_fold w) K.
Proof. intros HK Hl. destruct K as [|b hs]; [congruence|]. destruct w as [|wb w']; [discriminate|].
  cbn [length] in Hl. injection Hl as Hl. destruct (snoc_decomp w' (length hs) Hl) as [whs [wl [-> Hw]]].
  rewrite cyclic_fold_snoc. cbn [tl app dot]. rewrite dot_app by exact Hw. rewrite dot_map_sub by exact Hw.
  cbn [dot]. ring. Qed.

Lemma pwl_weights_length kps lens x : length kps = length lens -> length (pwl_weights kps lens x) = S (length kps).
Proof. intros H. unfold pwl_weights. cbn [length]. rewrite map2_length, <- H, Nat.min_id. reflexivity. Qed.
Lemma cyclic_fold_length w n : length w = S (S n) -> length (cyclic_fold w) = S n.
Proof. destruct w as [|b [|h hs]]; try discriminate. intros H. cbn [length] in H.
  unfold cyclic_fold. cbn [length]. rewrite map_length, removelast_firstn_len, firstn_length. cbn [length]. lia. Qed.

Lemma pwl_kernel_gradient (cyclic : bool) m mo kps lens (K : list Q) x v h :
  length kps = length lens -> K <> [] ->
  length K = (if cyclic then length kps else S (length kps)) -> (v < length K)%nat ->
  pwl_eval cyclic m mo kps lens (set_nth v (nth v K 0 + h) K) x - pwl_eval cyclic m mo kps lens K x
  == h * nth v (pwl_kernel_weights cyclic m kps lens x) 0.
Proof. intros Hl HK HlK Hv. unfold pwl_eval, pwl_kernel_weights.
  pose proof (pwl_weights_length kps lens x Hl) as Hw. set (w := pwl_weights kps lens x) in *.
  destruct cyclic.
  - assert (HK' : set_nth v (nth v K 0 + h) K <> []).
    { intros E. apply (f_equal (@length Q)) in E. rewrite set_nth_length in E. destruct K; [congruence|discriminate]. }
    rewrite (cyclic_dot w (set_nth v (nth v K 0 + h) K)) by (try rewrite set_nth_length; congruence).
    rewrite (cyclic_dot w K) by congruence.
    rewrite nth_map_Q.
    2:{ destruct K as [|k0 K0]; [congruence|]. cbn [length] in *.
        rewrite (cyclic_fold_length w (length K0)) by lia. lia. }
    rewrite Qred_correct, dot_set_nth by exact Hv. ring.
  - rewrite nth_map_Q by lia. rewrite Qred_correct, dot_set_nth by exact Hv. ring. Qed.

(* ------------------------------------------------------------------ *)
(* CategoricalCalibration                                              *)
(* ------------------------------------------------------------------ *)
Lemma cat_weights_nth nb default i b : (b < nb)%nat ->
  nth b (cat_weights nb default i) 0 = if Z.eqb (Z.of_nat b) (cat_index nb default i) then 1 else 0.
Proof. intros H. unfold cat_weights. apply nth_map_seq. exact H. Qed.
Lemma cat_kernel_gradient nb default i K b h : (b < nb)%nat -> (b < length K)%nat ->
  lin_eval (cat_weights nb default i) (set_nth b (nth b K 0 + h) K) - lin_eval (cat_weights nb default i) K
  == h * (if Z.eqb (Z.of_nat b) (cat_index nb default i) then 1 else 0).
Proof. intros Hb HK. rewrite lin_eval_gradient by exact HK. rewrite cat_weights_nth by exact Hb. reflexivity. Qed.

(* ------------------------------------------------------------------ *)
(* Kronecker-factored lattice: chain rule through grad_fn              *)
(* ------------------------------------------------------------------ *)
Lemma kfl_dots_set_K ws : forall K d row, (d < length K)%nat -> (d < length ws)%nat ->
  kfl_dots ws (set_nth_g d row K) = set_nth d (dot (nth d ws []) row) (kfl_dots ws K).
Proof. unfold kfl_dots. induction ws as [|w ws IH]; intros [|Kd K] [|d] row HK Hw; cbn in HK, Hw; try lia;
  cbn [set_nth_g map2 set_nth nth]. reflexivity. rewrite IH by lia. reflexivity. Qed.
Lemma kfl_dots_set_ws ws : forall K d w', (d < length K)%nat -> (d < length ws)%nat ->
  kfl_dots (set_nth_g d w' ws) K = set_nth d (dot w' (nth d K [])) (kfl_dots ws K).
Proof. unfold kfl_dots. induction ws as [|w ws IH]; intros [|Kd K] [|d] w' HK Hw; cbn in HK, Hw; try lia;
  cbn [set_nth_g map2 set_nth nth]. reflexivity. rewrite IH by lia. reflexivity. Qed.
Lemma kfl_dots_length ws K : length (kfl_dots ws K) = Nat.min (length ws) (length K).
Proof. apply map2_length. Qed.
Lemma kfl_dots_nth ws K d : (d < length ws)%nat -> (d < length K)%nat ->
  nth d (kfl_dots ws K) 0 = dot (nth d ws []) (nth d K []).
Proof. intros. unfold kfl_dots. apply nth_map2; assumption. Qed.

(* replacing factor d of the product by v *)
Lemma prod_replace t d v : (d < length t)%nat ->
  prod (set_nth d v t) - prod t == (v - nth d t 0) * nth d (grad_prod t) 0.
Proof. intros H. rewrite prod_set_nth by exact H. rewrite (prod_split t d H) at 1.
  rewrite grad_prod_others by exact H. ring. Qed.

Lemma kfl_term_kernel_gradient ws scale K d k h :
  (d < length K)%nat -> (d < length ws)%nat -> (k < length (nth d K []))%nat ->
  kfl_term ws scale (set_nth_g d (set_nth k (nth k (nth d K []) 0 + h) (nth d K [])) K) - kfl_term ws scale K
  == h * (scale * nth d (grad_prod (kfl_dots ws K)) 0 * nth k (nth d ws []) 0).
Proof. intros HK Hw Hk. unfold kfl_term. rewrite kfl_dots_set_K by assumption.
  assert (Hd : (d < length (kfl_dots ws K))%nat) by (rewrite kfl_dots_length; lia).
  assert (E : scale * prod (set_nth d (dot (nth d ws []) (set_nth k (nth k (nth d K []) 0 + h) (nth d K []))) (kfl_dots ws K))
              - scale * prod (kfl_dots ws K)
              == scale * (prod (set_nth d (dot (nth d ws []) (set_nth k (nth k (nth d K []) 0 + h) (nth d K []))) (kfl_dots ws K))
                          - prod (kfl_dots ws K))) by ring.
  rewrite E, prod_replace by exact Hd. rewrite kfl_dots_nth by assumption.
  rewrite dot_set_nth by exact Hk. ring. Qed.

Lemma kfl_term_scale_gradient ws scale K h :
  kfl_term ws (scale + h) K - kfl_term ws scale K == h * prod (kfl_dots ws K).
Proof. unfold kfl_term. ring. Qed.

(* inputs: wherever the 1-D interpolation weights of dimension d move affinely
   with the input, w_d(x + h) = w_d(x) + h * dw *)
Lemma dot_axpy h w : forall dw K, length w = length dw ->
  dot (map2 (fun a s => a + h * s) w dw) K == dot w K + h * dot dw K.
Proof. induction w as [|a w IH]; intros [|s dw] K H; cbn in H; try discriminate; cbn [map2 dot]. ring.
  destruct K as [|k K]; cbn [dot]. ring. rewrite IH by congruence. ring. Qed.
Lemma kfl_term_input_gradient ws scale K d dw h :
  (d < length K)%nat -> (d < length ws)%nat -> length (nth d ws []) = length dw ->
  kfl_term (set_nth_g d (map2 (fun a s => a + h * s) (nth d ws []) dw) ws) scale K - kfl_term ws scale K
  == h * (scale * nth d (grad_prod (kfl_dots ws K)) 0 * dot dw (nth d K [])).
Proof. intros HK Hw Hl. unfold kfl_term. rewrite kfl_dots_set_ws by assumption.
  assert (Hd : (d < length (kfl_dots ws K))%nat) by (rewrite kfl_dots_length; lia).
  set (v := dot (map2 (fun a s => a + h * s) (nth d ws []) dw) (nth d K [])).
  assert (E : scale * prod (set_nth d v (kfl_dots ws K)) - scale * prod (kfl_dots ws K)
              == scale * (prod (set_nth d v (kfl_dots ws K)) - prod (kfl_dots ws K))) by ring.
  rewrite E, prod_replace by exact Hd. rewrite kfl_dots_nth by assumption. unfold v.
  rewrite dot_axpy by exact Hl. ring. Qed.

(* slope of the hat weights inside a cell [j, j+1] *)
Lemma qnat_lt k j : (k < j)%nat -> qnat k + 1 <= qnat j.
Proof. intros H. unfold qnat. assert (E : 1 == inject_Z 1) by reflexivity. rewrite E, <- inject_Z_plus, <- Zle_Qle. lia. Qed.
Definition hat_slope (j k : nat) : Q := if Nat.eqb k j then -(1) else if Nat.eqb k (S j) then 1 else 0.
Lemma hat_affine_in_cell j x h k : qnat j <= x -> x <= qnat j + 1 -> qnat j <= x + h -> x + h <= qnat j + 1 ->
  hat (x + h) k - hat x k == h * hat_slope j k.
Proof. intros H1 H2 H3 H4. unfold hat, hat_slope.
  destruct (Nat.eqb k j) eqn:E1. apply Nat.eqb_eq in E1. subst k. qcases; lra.
  destruct (Nat.eqb k (S j)) eqn:E2. apply Nat.eqb_eq in E2. subst k. rewrite qnat_S. qcases; lra.
  apply Nat.eqb_neq in E1. apply Nat.eqb_neq in E2.
  destruct (Nat.lt_ge_cases k j) as [Hlt|Hge].
  - pose proof (qnat_lt k j Hlt). qcases; lra.
  - assert (Hgt : (S j < k)%nat) by lia. pose proof (qnat_lt (S j) k Hgt) as Hq. rewrite qnat_S in Hq. qcases; lra. Qed.

(* the whole output: bias + mean over terms *)
Lemma qsum_map2_set_g {B} (f : Q -> B -> Q) (db : B) a : forall b t v, (t < length a)%nat -> (t < length b)%nat ->
  qsum (map2 f a (set_nth_g t v b)) == qsum (map2 f a b) + (f (nth t a 0) v - f (nth t a 0) (nth t b db)).
Proof. induction a as [|x a IH]; intros [|y b] [|t] v Ha Hb; cbn in Ha, Hb; try lia; cbn [set_nth_g map2 qsum nth].
  ring. rewrite IH by lia. ring. Qed.
Lemma qsum_map2_set_l {B} (f : Q -> B -> Q) (db : B) a : forall b t v, (t < length a)%nat -> (t < length b)%nat ->
  qsum (map2 f (set_nth t v a) b) == qsum (map2 f a b) + (f v (nth t b db) - f (nth t a 0) (nth t b db)).
Proof. induction a as [|x a IH]; intros [|y b] [|t] v Ha Hb; cbn in Ha, Hb; try lia; cbn [set_nth map2 qsum nth].
  ring. rewrite IH by lia. ring. Qed.

Lemma kfl_out_kernel_gradient ws bias scales Ks t d k h :
  (t < length scales)%nat -> (t < length Ks)%nat -> (d < length (nth t Ks []))%nat -> (d < length ws)%nat ->
  (k < length (nth d (nth t Ks []) []))%nat -> (k < length (nth d ws []))%nat ->
  kfl_out ws bias scales
    (set_nth_g t (set_nth_g d (set_nth k (nth k (nth d (nth t Ks []) []) 0 + h) (nth d (nth t Ks []) [])) (nth t Ks [])) Ks)
  - kfl_out ws bias scales Ks
  == h * nth k (nth d (kfl_grad_kernel ws (length scales) (nth t scales 0) (nth t Ks [])) []) 0.
Proof. intros Ht HtK Hd Hdw Hk Hkw. unfold kfl_out.
  rewrite (qsum_map2_set_g (kfl_term ws) []) by assumption.
  unfold kfl_grad_kernel.
  rewrite (nth_map2 _ _ _ _ 0 [] []).
  2:{ rewrite grad_prod_length, kfl_dots_length. lia. } 2:{ exact Hdw. }
  rewrite nth_map_Q by exact Hkw. rewrite Qred_correct.
  set (D := kfl_term ws (nth t scales 0) _ - kfl_term ws (nth t scales 0) _).
  assert (ED : D == h * (nth t scales 0 * nth d (grad_prod (kfl_dots ws (nth t Ks []))) 0 * nth k (nth d ws []) 0))
    by (apply kfl_term_kernel_gradient; assumption).
  unfold Qdiv. rewrite ED. ring. Qed.

Lemma kfl_out_scale_gradient ws bias scales Ks t h : (t < length scales)%nat -> (t < length Ks)%nat ->
  kfl_out ws bias (set_nth t (nth t scales 0 + h) scales) Ks - kfl_out ws bias scales Ks
  == h * kfl_grad_scale ws (length scales) (nth t Ks []).
Proof. intros Ht HtK. unfold kfl_out, kfl_grad_scale. rewrite set_nth_length.
  rewrite (qsum_map2_set_l (kfl_term ws) []) by assumption.
  set (D := kfl_term ws (nth t scales 0 + h) _ - kfl_term ws (nth t scales 0) _).
  assert (ED : D == h * prod (kfl_dots ws (nth t Ks []))) by apply kfl_term_scale_gradient.
  unfold Qdiv. rewrite ED. ring. Qed.

(* satisfiability of the hypotheses used above *)
Example lattice_point_ok_sat : lattice_point_ok false [2%nat; 3%nat] [1#2; 3#2].
Proof. unfold lattice_point_ok. constructor; [|constructor; [|constructor]];
  (split; [lia|right; split; unfold qnat, Qle; cbn; lia]). Qed.
Example hat_cell_sat : qnat 1 <= (5#4) /\ (5#4) <= qnat 1 + 1 /\ qnat 1 <= (5#4) + (1#4) /\ (5#4) + (1#4) <= qnat 1 + 1.
Proof. unfold qnat, Qle; cbn; lia. Qed.

Lemma simplex_weights_nth clip sizes x v : (v < num_vertices sizes)%nat ->
  nth v (simplex_weights clip sizes x) 0 == sp_weight (simplex_sparse clip sizes x) (Z.of_nat v).
Proof. intros H. unfold simplex_weights. rewrite nth_map_seq by exact H. apply Qred_correct. Qed.

(* The guard lattice_point_ok is needed: with clip_inputs = False and a point
   outside the lattice range, the 2^d shortcut extrapolates ([1 - x, x], a
   negative weight) and the general path loses mass (weights sum to < 1). *)
Lemma unclipped_outside_negative :
  exists sizes x, ~ lattice_point_ok false sizes x /\
    exists a, In a (hyper_weights false false sizes x) /\ a < 0.
Proof. exists [2%nat], [3#2]. split.
  - intros H. inversion H as [|s xi ss xx [_ [Hc|[_ Hr]]] Ht]; subst. discriminate.
    vm_compute in Hr. apply Hr. reflexivity.
  - exists (-1#2). split. vm_compute. left; reflexivity. reflexivity. Qed.
Lemma unclipped_outside_mass_lost :
  exists sizes x, ~ lattice_point_ok false sizes x /\
    forall as_list, qsum (hyper_weights false as_list sizes x) == 1#2.
Proof. exists [3%nat], [5#2]. split.
  - intros H. inversion H as [|s xi ss xx [_ [Hc|[_ Hr]]] Ht]; subst. discriminate.
    vm_compute in Hr. apply Hr. reflexivity.
  - intros [|]; vm_compute; reflexivity. Qed.
