(* Lemmas for C19 (gradients equal true derivatives). *)
From TFL Require Import Model.Gradients.
Open Scope Q_scope.

(* ------------------------------------------------------------------ *)
(* products                                                            *)
(* ------------------------------------------------------------------ *)
Lemma qeqb_true a b : Qeq_bool a b = true <-> a == b.
Proof. apply Qeq_bool_iff. Qed.
Lemma qeqb_false a b : Qeq_bool a b = false <-> ~ a == b.
Proof. split. intros H E. apply Qeq_bool_iff in E. congruence.
  intros H. destruct (Qeq_bool a b) eqn:E; [|reflexivity]. apply Qeq_bool_iff in E. contradiction. Qed.

Lemma is_zero_z x : x == 0 -> is_zero x = 1.
Proof. intros H. unfold is_zero. apply qeqb_true in H. rewrite H. reflexivity. Qed.
Lemma is_zero_nz x : ~ x == 0 -> is_zero x = 0.
Proof. intros H. unfold is_zero. apply qeqb_false in H. rewrite H. reflexivity. Qed.
Lemma is_zero_cases x : (x == 0 /\ is_zero x = 1) \/ (~ x == 0 /\ is_zero x = 0).
Proof. destruct (Qeq_dec x 0) as [H|H]; [left|right]; split; auto using is_zero_z, is_zero_nz. Qed.

Lemma num_zeros_cons x t : num_zeros (x :: t) = is_zero x + num_zeros t.
Proof. reflexivity. Qed.
Lemma num_zeros_nonneg t : 0 <= num_zeros t.
Proof. induction t as [|x t IH]. unfold num_zeros; cbn; lra. rewrite num_zeros_cons.
  destruct (is_zero_cases x) as [[_ ->]|[_ ->]]; lra. Qed.
(* the count is an integer: it is 0 or at least 1 *)
Lemma num_zeros_int t : num_zeros t == 0 \/ 1 <= num_zeros t.
Proof. induction t as [|x t IH]. left; reflexivity. rewrite num_zeros_cons.
  pose proof (num_zeros_nonneg t).
  destruct (is_zero_cases x) as [[_ ->]|[_ ->]]. right; lra. destruct IH; [left|right]; lra. Qed.
Lemma num_zeros_pos_prod t : 1 <= num_zeros t -> prod t == 0.
Proof. induction t as [|x t IH]; intros H. unfold num_zeros in H; cbn in H; lra.
  rewrite num_zeros_cons in H. cbn [prod].
  destruct (is_zero_cases x) as [[Hx E]|[Hx E]]; rewrite E in H.
  - rewrite Hx. lra.
  - rewrite IH by lra. lra. Qed.
Lemma num_zeros_has_zero t i : (i < length t)%nat -> nth i t 0 == 0 -> 1 <= num_zeros t.
Proof. revert i; induction t as [|x t IH]; intros i Hi Hz; cbn in Hi. lia.
  rewrite num_zeros_cons. pose proof (num_zeros_nonneg t). destruct i as [|i]; cbn in Hz.
  - rewrite (is_zero_z x Hz). lra.
  - assert (1 <= num_zeros t) by (apply (IH i); [lia|exact Hz]).
    destruct (is_zero_cases x) as [[_ ->]|[_ ->]]; lra. Qed.
Lemma num_zeros_0_plus_mask t : num_zeros t == 0 -> prod (plus_mask t) == prod t.
Proof. induction t as [|x t IH]; intros H. reflexivity.
  rewrite num_zeros_cons in H. pose proof (num_zeros_nonneg t).
  unfold plus_mask in *. cbn [map prod].
  destruct (is_zero_cases x) as [[_ E]|[_ E]]; rewrite E in *. lra.
  rewrite IH by lra. lra. Qed.

Lemma prod_split t i : (i < length t)%nat -> prod t == nth i t 0 * prod_others i t.
Proof. unfold prod_others. revert i; induction t as [|x t IH]; intros i Hi; cbn in Hi. lia.
  destruct i as [|i]; cbn [nth remove_nth prod]. reflexivity.
  rewrite (IH i) by lia. ring. Qed.

(* the product is affine in each coordinate *)
Lemma prod_set_nth t i v : (i < length t)%nat -> prod (set_nth i v t) == v * prod_others i t.
Proof. unfold prod_others. revert i; induction t as [|x t IH]; intros i Hi; cbn in Hi. lia.
  destruct i as [|i]; cbn [set_nth remove_nth prod]. reflexivity.
  rewrite (IH i) by lia. ring. Qed.
Lemma prod_affine t i h : (i < length t)%nat ->
  prod (set_nth i (nth i t 0 + h) t) - prod t == h * prod_others i t.
Proof. intros Hi. rewrite prod_set_nth by exact Hi. rewrite (prod_split t i Hi). ring. Qed.

Lemma ind_eq1_true a : a == 1 -> (if Qeq_bool a 1 then 1 else 0) = 1.
Proof. intros H. apply qeqb_true in H. rewrite H. reflexivity. Qed.
Lemma ind_eq1_false a : ~ a == 1 -> (if Qeq_bool a 1 then 1 else 0) = 0.
Proof. intros H. apply qeqb_false in H. rewrite H. reflexivity. Qed.

(* the single-zero branch at a zero position, for every zero pattern *)
Lemma grad1_at_zero t : forall i, (i < length t)%nat -> nth i t 0 == 0 ->
  (if Qeq_bool (num_zeros t) 1 then 1 else 0) * prod (plus_mask t) == prod_others i t.
Proof. unfold prod_others. induction t as [|x t IH]; intros i Hi Hz; cbn in Hi. lia.
  rewrite num_zeros_cons. unfold plus_mask in *. cbn [map prod].
  pose proof (num_zeros_nonneg t) as Hnn.
  destruct i as [|i]; cbn [nth remove_nth prod] in *.
  - rewrite (is_zero_z x Hz). destruct (num_zeros_int t) as [H0|H1].
    + rewrite ind_eq1_true by lra. rewrite (num_zeros_0_plus_mask t H0). rewrite Hz. ring.
    + rewrite ind_eq1_false by lra. rewrite (num_zeros_pos_prod t H1). ring.
  - assert (H1 : 1 <= num_zeros t) by (apply (num_zeros_has_zero t i); [lia|exact Hz]).
    destruct (is_zero_cases x) as [[Hx E]|[Hx E]]; rewrite E.
    + rewrite ind_eq1_false by lra. rewrite Hx. ring.
    + assert (Hn : 0 + num_zeros t == num_zeros t) by ring.
      assert (Hb : Qeq_bool (0 + num_zeros t) 1 = Qeq_bool (num_zeros t) 1).
      { destruct (Qeq_bool (num_zeros t) 1) eqn:E1.
        apply qeqb_true. apply qeqb_true in E1. lra.
        apply qeqb_false. apply qeqb_false in E1. lra. }
      rewrite Hb. rewrite <- (IH i) by (try lia; exact Hz). ring. Qed.

Lemma nth_map_Q (f : Q -> Q) l i : (i < length l)%nat -> nth i (map f l) 0 = f (nth i l 0).
Proof. intros H. rewrite nth_indep with (d' := f 0) by (rewrite map_length; exact H). apply map_nth. Qed.

(* grad_fn delivers, at every position and for every zero pattern, the product
   of all the other entries *)
Lemma grad_prod_others t i : (i < length t)%nat -> nth i (grad_prod t) 0 == prod_others i t.
Proof. intros Hi. unfold grad_prod. rewrite nth_map_Q by exact Hi. rewrite Qred_correct.
  destruct (is_zero_cases (nth i t 0)) as [[Hz E]|[Hz E]]; rewrite E.
  - unfold divide_no_nan. apply qeqb_true in Hz. rewrite Hz. apply qeqb_true in Hz.
    rewrite (grad1_at_zero t i Hi Hz). ring.
  - unfold divide_no_nan. pose proof Hz as Hb. apply qeqb_false in Hb. rewrite Hb.
    rewrite (prod_split t i Hi). field. exact Hz. Qed.

Lemma grad_prod_length t : length (grad_prod t) = length t.
Proof. unfold grad_prod. apply map_length. Qed.

Lemma prod_gradient t i h : (i < length t)%nat ->
  prod (set_nth i (nth i t 0 + h) t) - prod t == h * nth i (grad_prod t) 0.
Proof. intros Hi. rewrite grad_prod_others by exact Hi. apply prod_affine. exact Hi. Qed.

Lemma grad_prod_dy_nth dy t i : (i < length t)%nat ->
  nth i (grad_prod_dy dy t) 0 == dy * nth i (grad_prod t) 0.
Proof. intros Hi. unfold grad_prod_dy. rewrite nth_map_Q by (rewrite grad_prod_length; exact Hi).
  apply Qred_correct. Qed.

Lemma prod_gradient_dy dy t i h : (i < length t)%nat ->
  dy * (prod (set_nth i (nth i t 0 + h) t) - prod t) == h * nth i (grad_prod_dy dy t) 0.
Proof. intros Hi. rewrite grad_prod_dy_nth by exact Hi. rewrite prod_gradient by exact Hi. ring. Qed.

(* the slope of an affine function is unique: whatever number g satisfies the
   difference identity for all h is the delivered gradient *)
Lemma prod_gradient_unique t i g : (i < length t)%nat ->
  (forall h, prod (set_nth i (nth i t 0 + h) t) - prod t == h * g) -> g == nth i (grad_prod t) 0.
Proof. intros Hi H. pose proof (H 1) as H1. rewrite prod_gradient in H1 by exact Hi. lra. Qed.

(* ------------------------------------------------------------------ *)
(* evaluations linear in the kernel                                    *)
(* ------------------------------------------------------------------ *)
Lemma dot_set_nth w : forall K v a, (v < length K)%nat ->
  dot w (set_nth v a K) == dot w K + (a - nth v K 0) * nth v w 0.
Proof. induction w as [|x w IH]; intros K v a Hv.
  - destruct (set_nth v a K), K; cbn [dot]; destruct v; cbn [nth]; ring.
  - destruct K as [|k K]; cbn in Hv. lia. destruct v as [|v]; cbn [set_nth dot nth].
    ring. rewrite (IH K v a) by lia. ring. Qed.

Lemma lin_eval_gradient w K v h : (v < length K)%nat ->
  lin_eval w (set_nth v (nth v K 0 + h) K) - lin_eval w K == h * nth v w 0.
Proof. intros Hv. unfold lin_eval. rewrite dot_set_nth by exact Hv. ring. Qed.

Lemma lin_eval_gradient_unique w K v g : (v < length K)%nat ->
  (forall h, lin_eval w (set_nth v (nth v K 0 + h) K) - lin_eval w K == h * g) -> g == nth v w 0.
Proof. intros Hv H. pose proof (H 1) as H1. rewrite lin_eval_gradient in H1 by exact Hv. lra. Qed.

(* 1-D hat weights: partition of unity *)
Lemma qnat_S k : qnat (S k) == qnat k + 1.
Proof. unfold qnat. rewrite Nat2Z.inj_succ. unfold Z.succ. rewrite inject_Z_plus. reflexivity. Qed.
Lemma qnat_nonneg k : 0 <= qnat k.
Proof. induction k. unfold qnat, Qle; cbn; lia. rewrite qnat_S. lra. Qed.
Lemma hat_nonneg x k : 0 <= hat x k.
Proof. unfold hat. qcases; lra. Qed.
Lemma hat_le1 x k : hat x k <= 1.
Proof. unfold hat. qcases; lra. Qed.

Lemma w1d_S n x : qsum (w1d (S n) x) == qsum (w1d n x) + hat x n.
Proof. unfold w1d. rewrite seq_S, map_app, qsum_app. cbn [Nat.add map qsum]. ring. Qed.

Lemma w1d_sum_gen n x : 0 <= x -> qsum (w1d (S n) x) == qmax 0 (qmin 1 (qnat (S n) - x)).
Proof. intros Hx. induction n as [|n IH].
  - rewrite w1d_S. unfold w1d, hat. cbn [seq map qsum].
    assert (E0 : qnat 0 == 0) by reflexivity. assert (E1 : qnat 1 == 1) by reflexivity.
    rewrite E0, E1. qcases; lra.
  - rewrite w1d_S, IH. unfold hat. rewrite (qnat_S (S n)).
    pose proof (qnat_nonneg n). pose proof (qnat_S n).
    set (a := qnat (S n)) in *. qcases; lra. Qed.

Lemma w1d_sum n x : (1 <= n)%nat -> 0 <= x -> x <= qnat n - 1 -> qsum (w1d n x) == 1.
Proof. intros Hn H0 H1. destruct n as [|n]. lia. rewrite w1d_sum_gen by exact H0. qcases; lra. Qed.
Lemma w1d_nonneg n x a : In a (w1d n x) -> 0 <= a.
Proof. unfold w1d. intros H. apply in_map_iff in H. destruct H as [k [<- _]]. apply hat_nonneg. Qed.

(* a weight vector: non-negative entries summing to one *)
Definition convex_weights (w : list Q) : Prop := (forall a, In a w -> 0 <= a) /\ qsum w == 1.

Lemma qsum_flat_map {A} (f : A -> list Q) l : qsum (flat_map f l) == qsum (map (fun a => qsum (f a)) l).
Proof. induction l as [|x l IH]; cbn [flat_map map qsum]. reflexivity. rewrite qsum_app, IH. reflexivity. Qed.
Lemma qsum_map_red (a : Q) o : qsum (map (fun b => Qred (a * b)) o) == a * qsum o.
Proof. induction o as [|b o IH]; cbn [map qsum]. ring. rewrite IH, Qred_correct. ring. Qed.

Lemma outer_sum ws : qsum (outer ws) == prod (map qsum ws).
Proof. induction ws as [|w ws IH]; cbn [outer map prod]. cbn; lra.
  rewrite qsum_flat_map.
  rewrite (qsum_map_ext _ (fun a => a * qsum (outer ws))) by (intros; apply qsum_map_red).
  assert (E : forall c, qsum (map (fun a => a * c) w) == qsum w * c).
  { intros c. induction w as [|a w IHw]; cbn [map qsum]. ring. rewrite IHw. ring. }
  rewrite E, IH. reflexivity. Qed.
Lemma outer_nonneg ws : (forall w, In w ws -> forall a, In a w -> 0 <= a) -> forall b, In b (outer ws) -> 0 <= b.
Proof. induction ws as [|w ws IH]; intros H b Hb; cbn [outer] in Hb.
  - destruct Hb as [<-|[]]. lra.
  - apply in_flat_map in Hb. destruct Hb as [a [Ha Hb]]. apply in_map_iff in Hb. destruct Hb as [c [<- Hc]].
    rewrite Qred_correct. apply qmul_nonneg. apply (H w); [left; reflexivity|exact Ha].
    apply IH; [|exact Hc]. intros w' Hw'. apply H. right; exact Hw'. Qed.
Lemma outer_convex ws : Forall convex_weights ws -> convex_weights (outer ws).
Proof. intros H. split.
  - apply outer_nonneg. intros w Hw. rewrite Forall_forall in H. apply (H w Hw).
  - rewrite outer_sum. induction H as [|w ws [_ Hw] _ IH]; cbn [map prod]. reflexivity. rewrite Hw, IH. ring. Qed.

Lemma clip_lat_range s x : (1 <= s)%nat -> 0 <= clip_lat s x /\ clip_lat s x <= qnat s - 1.
Proof. intros Hs. unfold clip_lat. apply qclip_range. destruct s as [|s]. lia. rewrite qnat_S. pose proof (qnat_nonneg s). lra. Qed.

Lemma w1d_two_convex clip x : clip = true \/ (0 <= x /\ x <= 1) -> convex_weights (w1d_two clip x).
Proof. intros H. unfold w1d_two, convex_weights. destruct clip.
  - split. intros a [<-|[<-|[]]]; unfold qclip; qcases; lra. cbn [qsum]. unfold qclip. qcases; lra.
  - destruct H as [H|[H0 H1]]. discriminate. split. intros a [<-|[<-|[]]]; lra. cbn [qsum]. ring. Qed.
Lemma w1d_convex clip s x : (1 <= s)%nat -> clip = true \/ (0 <= x /\ x <= qnat s - 1) ->
  convex_weights (w1d s (if clip then clip_lat s x else x)).
Proof. intros Hs H. split. intros a; apply w1d_nonneg.
  destruct clip. destruct (clip_lat_range s x Hs). apply w1d_sum; assumption.
  destruct H as [H|[H0 H1]]. discriminate. apply w1d_sum; assumption. Qed.

(* the hypothesis under which the lattice is evaluated inside its domain:
   either inputs are clipped (the layer's default) or the point is in range *)
Definition lattice_point_ok (clip : bool) (sizes : list nat) (x : list Q) : Prop :=
  Forall2 (fun s xi => (2 <= s)%nat /\ (clip = true \/ (0 <= xi /\ xi <= qnat s - 1))) sizes x.

Lemma hyper_weights_convex clip as_list sizes x : lattice_point_ok clip sizes x ->
  convex_weights (hyper_weights clip as_list sizes x).
Proof. intros H. unfold hyper_weights. destruct (all_two sizes && negb as_list) eqn:E.
  - apply andb_true_iff in E. destruct E as [E _]. unfold all_two in E. apply outer_convex.
    induction H as [|s xi sizes x [Hs Hx] _ IH]; cbn [map]. constructor.
    cbn [forallb] in E. apply andb_true_iff in E. destruct E as [E1 E2]. apply Nat.eqb_eq in E1. subst s.
    constructor; [|apply IH; exact E2]. apply w1d_two_convex.
    assert (E1 : qnat 2 - 1 == 1) by reflexivity. rewrite E1 in Hx. exact Hx.
  - apply outer_convex. clear E. induction H as [|s xi sizes x [Hs Hx] _ IH]; cbn [map2]; constructor.
    apply w1d_convex; [lia|exact Hx]. exact IH. Qed.
