(* Hypercube (multilinear) interpolation: theory of Model/LatticeInterp.v's
   interp_w / hyper_unit.  Everything is by induction over the list of lattice
   sizes, so it holds for every rank and every size. *)
From TFL Require Export Model.LatticeInterp Proofs.Interp1D.
Open Scope Q_scope.

(* G sizes K z: interpolation with the plain hat weights of the point z *)
Definition G (sizes : list nat) (K : tens) (z : list Q) : Q := interp_w sizes (map hat z) K.

(* z lies in the lattice range: 0 <= z_d <= size_d - 1 *)
Definition inr (sizes : list nat) (z : list Q) : Prop :=
  Forall2 (fun s zd => 0 <= zd /\ zd <= qn s - 1) sizes z.

Lemma interp_w_cons s ss w ws K :
  interp_w (s :: ss) (w :: ws) K == wsum s w (fun k => interp_w ss ws (fun i => K (k :: i))).
Proof. cbn [interp_w]. rewrite rsum_qsum. reflexivity. Qed.

Lemma G_cons s ss K zd zs : G (s :: ss) K (zd :: zs) == interp1 s (fun k => G ss (fun i => K (k :: i)) zs) zd.
Proof. unfold G. cbn [map]. rewrite interp_w_cons. reflexivity. Qed.

Lemma inr_length sizes z : inr sizes z -> length z = length sizes.
Proof. induction 1; cbn; congruence. Qed.

(* ---------- dependence on the kernel ---------- *)
Lemma interp_w_ext_K : forall sizes ws K K', length ws = length sizes ->
  (forall i, valid sizes i -> K i == K' i) -> interp_w sizes ws K == interp_w sizes ws K'.
Proof. induction sizes as [|s ss IH]; intros ws K K' Hl HK; destruct ws as [|w ws]; try discriminate.
  - cbn. apply HK. constructor.
  - rewrite !interp_w_cons. apply wsum_ext. reflexivity. intros k Hk. apply IH. cbn in Hl; lia.
    intros i Hi. apply HK. constructor; assumption. Qed.

Lemma interp_w_ext_w : forall sizes ws ws' K, length ws = length sizes -> length ws' = length sizes ->
  (forall d k, (d < length sizes)%nat -> (k < nth d sizes 0%nat)%nat -> nth d ws (fun _ => 0) k == nth d ws' (fun _ => 0) k) ->
  interp_w sizes ws K == interp_w sizes ws' K.
Proof. induction sizes as [|s ss IH]; intros ws ws' K Hl Hl' Hw; destruct ws as [|w ws]; destruct ws' as [|w' ws']; try discriminate.
  - reflexivity.
  - rewrite !interp_w_cons. apply wsum_ext.
    + intros k Hk. apply (Hw 0%nat k); cbn; lia.
    + intros k Hk. apply IH; cbn in *; try lia. intros d k' Hd Hk'. apply (Hw (S d) k'); cbn; lia. Qed.

Lemma interp_w_minus_K : forall sizes ws K1 K2,
  interp_w sizes ws (fun i => K1 i - K2 i) == interp_w sizes ws K1 - interp_w sizes ws K2.
Proof. induction sizes as [|s ss IH]; intros ws K1 K2; destruct ws as [|w ws]; try reflexivity.
  rewrite !interp_w_cons, <- wsum_minus_a. apply wsum_ext. reflexivity.
  intros k _. apply (IH ws (fun i => K1 (k :: i)) (fun i => K2 (k :: i))). Qed.

Lemma G_minus_K sizes K1 K2 z : G sizes (fun i => K1 i - K2 i) z == G sizes K1 z - G sizes K2 z.
Proof. apply interp_w_minus_K. Qed.

Lemma G_ext_K sizes K K' z : length z = length sizes -> (forall i, valid sizes i -> K i == K' i) ->
  G sizes K z == G sizes K' z.
Proof. intros Hl H. apply interp_w_ext_K. rewrite map_length; exact Hl. exact H. Qed.

(* ---------- non-negativity, bounds ---------- *)
Lemma G_nonneg : forall sizes K z, length z = length sizes -> (forall i, valid sizes i -> 0 <= K i) -> 0 <= G sizes K z.
Proof. induction sizes as [|s ss IH]; intros K z Hl HK; destruct z as [|zd zs]; try discriminate.
  - unfold G; cbn. apply HK. constructor.
  - rewrite G_cons. unfold interp1. apply wsum_nonneg. intros; apply hat_nonneg.
    intros k Hk. apply IH. cbn in Hl; lia. intros i Hi. apply HK. constructor; assumption. Qed.

(* output within any interval that contains the kernel values *)
Lemma G_bounds : forall sizes K z lo hi, inr sizes z -> (forall i, valid sizes i -> lo <= K i /\ K i <= hi) ->
  lo <= G sizes K z /\ G sizes K z <= hi.
Proof. induction sizes as [|s ss IH]; intros K z lo hi Hr HK; inversion Hr; subst.
  - unfold G; cbn. apply HK. constructor.
  - rewrite G_cons. apply interp1_bounds; try tauto. intros k Hk. apply IH. assumption.
    intros i Hi. apply HK. constructor; assumption. Qed.

(* ---------- vertices ---------- *)
Lemma G_vertex : forall sizes K v, valid sizes v -> G sizes K (map qn v) == K v.
Proof. intros sizes K v Hv. revert K. induction Hv as [|s sh k r Hk Hr IH]; intros K.
  - reflexivity.
  - cbn [map]. rewrite G_cons, interp1_at_int by exact Hk. apply IH. Qed.

(* ---------- multilinear on the containing cell ---------- *)
(* the 2^d-corner formula of the cell with lower corner c *)
Fixpoint multilin (K : tens) (c : list nat) (z : list Q) : Q :=
  match c, z with
  | cd :: cs, zd :: zs =>
      (1 - (zd - qn cd)) * multilin (fun i => K (cd :: i)) cs zs + (zd - qn cd) * multilin (fun i => K (S cd :: i)) cs zs
  | _, _ => K []
  end.

(* z lies in the (closed) cell with lower corner c *)
Inductive in_cell : list nat -> list nat -> list Q -> Prop :=
| ic_nil : in_cell [] [] []
| ic_cons s ss cd cs zd zs : (S cd < s)%nat -> qn cd <= zd -> zd <= qn cd + 1 -> in_cell ss cs zs ->
    in_cell (s :: ss) (cd :: cs) (zd :: zs).

Lemma G_multilin : forall sizes c z K, in_cell sizes c z -> G sizes K z == multilin K c z.
Proof. intros sizes c z K H. revert K. induction H as [|s ss cd cs zd zs Hc H1 H2 H IH]; intros K.
  - reflexivity.
  - rewrite G_cons, interp1_cell by eassumption. cbn [multilin]. rewrite !IH. reflexivity. Qed.

(* corners of the cell *)
Inductive corner_of : list nat -> list nat -> Prop :=
| co_nil : corner_of [] []
| co_lo cd cs i : corner_of cs i -> corner_of (cd :: cs) (cd :: i)
| co_hi cd cs i : corner_of cs i -> corner_of (cd :: cs) (S cd :: i).

Lemma convex2 lo hi t a b : 0 <= t -> t <= 1 -> lo <= a -> a <= hi -> lo <= b -> b <= hi ->
  lo <= (1 - t) * a + t * b /\ (1 - t) * a + t * b <= hi.
Proof. intros.
  pose proof (qmul_nonneg t (b - lo) ltac:(lra) ltac:(lra)). pose proof (qmul_nonneg (1 - t) (a - lo) ltac:(lra) ltac:(lra)).
  pose proof (qmul_nonneg t (hi - b) ltac:(lra) ltac:(lra)). pose proof (qmul_nonneg (1 - t) (hi - a) ltac:(lra) ltac:(lra)).
  split; lra. Qed.

Lemma multilin_bounds : forall sizes c z K lo hi, in_cell sizes c z ->
  (forall i, corner_of c i -> lo <= K i /\ K i <= hi) -> lo <= multilin K c z /\ multilin K c z <= hi.
Proof. intros sizes c z K lo hi H. revert K. induction H as [|s ss cd cs zd zs Hc H1 H2 H IH]; intros K HK.
  - cbn. apply HK. constructor.
  - cbn [multilin].
    destruct (IH (fun i => K (cd :: i))) as [A B]. intros i Hi; apply HK; constructor; assumption.
    destruct (IH (fun i => K (S cd :: i))) as [C D]. intros i Hi; apply HK; constructor; assumption.
    apply convex2; [lra|lra|exact A|exact B|exact C|exact D]. Qed.

(* ---------- monotonicity ---------- *)
(* the kernel is non-decreasing along dimension d *)
Definition knondecr (sizes : list nat) (K : tens) (d : nat) : Prop :=
  forall i, valid sizes i -> (S (nth d i 0%nat) < nth d sizes 0%nat)%nat -> K i <= K (upd i d (S (nth d i 0%nat))).

Lemma knondecr_tail s ss K d k : (k < s)%nat -> knondecr (s :: ss) K (S d) -> knondecr ss (fun i => K (k :: i)) d.
Proof. intros Hk H i Hi Hd. exact (H (k :: i) (v_cons s ss k i Hk Hi) Hd). Qed.

Lemma G_monotone : forall sizes K z d zd', inr sizes z -> (d < length sizes)%nat ->
  nth d z 0 <= zd' -> zd' <= qn (nth d sizes 0%nat) - 1 -> knondecr sizes K d ->
  G sizes K z <= G sizes K (set_nth d zd' z).
Proof. induction sizes as [|s ss IH]; intros K z d zd' Hr Hd Hle Hhi HK; inversion Hr; subst. cbn in Hd; lia.
  destruct d as [|d]; cbn [set_nth nth] in *.
  - rewrite !G_cons. apply interp1_monotone; try tauto.
    intros k Hk.
    assert (P : 0 <= G ss (fun i => K (S k :: i) - K (k :: i)) l').
    { apply G_nonneg. eapply inr_length; eassumption. intros i Hi.
      pose proof (HK (k :: i) (v_cons s ss k i ltac:(lia) Hi) Hk) as HQ. cbn in HQ. lra. }
    rewrite (G_minus_K ss (fun i => K (S k :: i)) (fun i => K (k :: i))) in P. lra.
  - rewrite !G_cons. unfold interp1. apply wsum_le_a. intros; apply hat_nonneg.
    intros k Hk. apply IH; [exact H3|cbn in Hd; lia|exact Hle|exact Hhi|eapply knondecr_tail; eassumption]. Qed.

(* ---------- Edgeworth trust ---------- *)
(* the increase of K along [m] does not shrink as the index along [c] grows *)
Definition kedge (sizes : list nat) (K : tens) (m c : nat) : Prop :=
  forall i, valid sizes i -> (S (nth m i 0%nat) < nth m sizes 0%nat)%nat -> (S (nth c i 0%nat) < nth c sizes 0%nat)%nat ->
    K (upd i m (S (nth m i 0%nat))) - K i <=
    K (upd (upd i c (S (nth c i 0%nat))) m (S (nth m i 0%nat))) - K (upd i c (S (nth c i 0%nat))).

Lemma set_nth_comm : forall (l : list Q) i j a b, i <> j -> set_nth i a (set_nth j b l) = set_nth j b (set_nth i a l).
Proof. induction l as [|x l IH]; intros [|i] [|j] a b H; cbn; try reflexivity; try lia. f_equal. apply IH. lia. Qed.

Lemma inr_set_nth : forall sizes z d v, inr sizes z -> 0 <= v -> v <= qn (nth d sizes 0%nat) - 1 -> inr sizes (set_nth d v z).
Proof. intros sizes z d v H. revert d. induction H as [|s zd ss zs Hs H IH]; intros d H0 H1. destruct d; constructor.
  destruct d; cbn [set_nth nth] in *; constructor; auto. apply IH; assumption. Qed.

Lemma nth_inr sizes z d : inr sizes z -> (d < length sizes)%nat -> 0 <= nth d z 0 /\ nth d z 0 <= qn (nth d sizes 0%nat) - 1.
Proof. intros H. revert d. induction H as [|s zd ss zs Hs H IH]; intros d Hd; cbn in Hd. lia.
  destruct d; cbn [nth]. exact Hs. apply IH. lia. Qed.

(* second mixed difference of the output in (x_m, x_c) is non-negative *)
Lemma G_edgeworth : forall sizes K z m c zm' zc', inr sizes z -> (m < length sizes)%nat -> (c < length sizes)%nat -> m <> c ->
  nth m z 0 <= zm' -> zm' <= qn (nth m sizes 0%nat) - 1 ->
  nth c z 0 <= zc' -> zc' <= qn (nth c sizes 0%nat) - 1 -> kedge sizes K m c ->
  G sizes K (set_nth m zm' z) - G sizes K z <=
  G sizes K (set_nth m zm' (set_nth c zc' z)) - G sizes K (set_nth c zc' z).
Proof. induction sizes as [|s ss IH]; intros K z m c zm' zc' Hr Hm Hc Hmc Lm Um Lc Uc HK; inversion Hr; subst. cbn in Hm; lia.
  rename l' into zs. rename y into zd. cbn [length] in Hm, Hc.
  assert (Hl : length zs = length ss) by (eapply inr_length; eassumption).
  destruct m as [|m]; destruct c as [|c]; try lia; cbn [set_nth nth] in *.
  - (* main dimension first *)
    rewrite !G_cons.
    set (A := fun k => G ss (fun i => K (k :: i)) zs). set (A' := fun k => G ss (fun i => K (k :: i)) (set_nth c zc' zs)).
    assert (P : 0 <= wsum s (fun k => hat zm' k - hat zd k) (fun k => A' k - A k)).
    { apply hat_diff_mp; try tauto. intros k Hk. unfold A', A.
      pose proof (IHmono := G_monotone ss (fun i => K (S k :: i) - K (k :: i)) zs c zc' H3 ltac:(lia) Lc Uc).
      rewrite !(G_minus_K ss (fun i => K (S k :: i)) (fun i => K (k :: i))) in IHmono.
      enough (G ss (fun i => K (S k :: i)) zs - G ss (fun i => K (k :: i)) zs <=
              G ss (fun i => K (S k :: i)) (set_nth c zc' zs) - G ss (fun i => K (k :: i)) (set_nth c zc' zs)) by lra.
      apply IHmono. intros i Hi Hd.
      pose proof (HK (k :: i) (v_cons s ss k i ltac:(lia) Hi) Hk Hd) as HQ. cbn in HQ. lra. }
    rewrite wsum_minus_w, !wsum_minus_a in P. unfold interp1. lra.
  - (* conditional dimension first *)
    rewrite !G_cons.
    set (A := fun k => G ss (fun i => K (k :: i)) zs). set (A' := fun k => G ss (fun i => K (k :: i)) (set_nth m zm' zs)).
    assert (P : 0 <= wsum s (fun k => hat zc' k - hat zd k) (fun k => A' k - A k)).
    { apply hat_diff_mp; try tauto. intros k Hk. unfold A', A.
      pose proof (IHmono := G_monotone ss (fun i => K (S k :: i) - K (k :: i)) zs m zm' H3 ltac:(lia) Lm Um).
      rewrite !(G_minus_K ss (fun i => K (S k :: i)) (fun i => K (k :: i))) in IHmono.
      enough (G ss (fun i => K (S k :: i)) zs - G ss (fun i => K (k :: i)) zs <=
              G ss (fun i => K (S k :: i)) (set_nth m zm' zs) - G ss (fun i => K (k :: i)) (set_nth m zm' zs)) by lra.
      apply IHmono. intros i Hi Hd.
      pose proof (HK (k :: i) (v_cons s ss k i ltac:(lia) Hi) Hd Hk) as HQ. cbn in HQ. lra. }
    rewrite wsum_minus_w, !wsum_minus_a in P. unfold interp1. lra.
  - rewrite !G_cons. unfold interp1.
    assert (P : 0 <= wsum s (hat zd) (fun k =>
       (G ss (fun i => K (k :: i)) (set_nth m zm' (set_nth c zc' zs)) - G ss (fun i => K (k :: i)) (set_nth c zc' zs)) -
       (G ss (fun i => K (k :: i)) (set_nth m zm' zs) - G ss (fun i => K (k :: i)) zs))).
    { apply wsum_nonneg. intros; apply hat_nonneg. intros k Hk.
      enough (G ss (fun i => K (k :: i)) (set_nth m zm' zs) - G ss (fun i => K (k :: i)) zs <=
              G ss (fun i => K (k :: i)) (set_nth m zm' (set_nth c zc' zs)) - G ss (fun i => K (k :: i)) (set_nth c zc' zs)) by lra.
      apply IH; try assumption; try lia.
      intros i Hi Hdm Hdc. exact (HK (k :: i) (v_cons s ss k i Hk Hi) Hdm Hdc). }
    rewrite !wsum_minus_a in P. lra. Qed.

(* ================= lift to the model's entry point hyper_unit ================= *)
(* the point actually interpolated: clipped onto the lattice range if requested *)
Definition eff (clip : bool) (sizes : list nat) (x : list Q) : list Q := if clip then clip_onto sizes x else x.
(* verify_hyperparameters: every lattice size is at least 2 *)
Definition sizes_ok (sizes : list nat) : Prop := Forall (fun s => (2 <= s)%nat) sizes.
(* inputs the property speaks about: right length, clipped or in range *)
Definition ok_input (clip : bool) (sizes : list nat) (x : list Q) : Prop :=
  length x = length sizes /\ (clip = true \/ inr sizes x).

Lemma G_ext_z : forall sizes K z z', Forall2 Qeq z z' -> G sizes K z == G sizes K z'.
Proof. induction sizes as [|s ss IH]; intros K z z' H.
  - unfold G. destruct H; reflexivity.
  - destruct H as [|zd zd' zs zs' Hd H]. reflexivity. rewrite !G_cons. unfold interp1. apply wsum_ext.
    intros k _. rewrite Hd. reflexivity. intros k _. apply IH. exact H. Qed.

Lemma clip_onto_inr : forall sizes x, sizes_ok sizes -> length x = length sizes -> inr sizes (clip_onto sizes x).
Proof. induction sizes as [|s ss IH]; intros x Hs Hl; destruct x as [|xd xs]; try discriminate; cbn [clip_onto map2].
  constructor. inversion Hs; subst. constructor. apply clip_range_in. lia. apply IH. assumption. cbn in Hl; lia. Qed.

Lemma eff_inr clip sizes x : sizes_ok sizes -> ok_input clip sizes x -> inr sizes (eff clip sizes x).
Proof. intros Hs [Hl [->|Hr]]. apply clip_onto_inr; assumption. destruct clip; [apply clip_onto_inr; assumption|exact Hr]. Qed.

Lemma clip_onto_length sizes x : length x = length sizes -> length (clip_onto sizes x) = length sizes.
Proof. intros H. unfold clip_onto. rewrite map2_length. lia. Qed.

Lemma nth_clip_onto sizes x d : (d < length sizes)%nat -> length x = length sizes ->
  nth d (clip_onto sizes x) 0 = qclip 0 (qn (nth d sizes 0%nat) - 1) (nth d x 0).
Proof. intros Hd Hl. unfold clip_onto.
  exact (nth_map2 (fun s xd => qclip 0 (qn s - 1) xd) sizes x d 0%nat 0 0 Hd ltac:(lia)). Qed.

Lemma clip_onto_set_nth : forall sizes x d v,
  clip_onto sizes (set_nth d v x) = set_nth d (qclip 0 (qn (nth d sizes 0%nat) - 1) v) (clip_onto sizes x).
Proof. induction sizes as [|s ss IH]; intros x d v; destruct x as [|xd xs]; destruct d; try reflexivity.
  cbn [set_nth clip_onto map2 nth]. f_equal. apply IH. Qed.

Lemma clip_onto_id : forall sizes x, inr sizes x -> Forall2 Qeq (clip_onto sizes x) x.
Proof. intros sizes x H. induction H as [|s xd ss xs Hs H IH]; cbn [clip_onto map2]; constructor.
  apply qclip_id; tauto. exact IH. Qed.

(* the 2^d special case computes the same weights as the general path *)
Lemma fast_weights_eq clip xd k : (k < 2)%nat -> clip = true \/ (0 <= xd /\ xd <= qn 2 - 1) ->
  w_fast clip xd k == hat (if clip then qclip 0 (qn 2 - 1) xd else xd) k.
Proof. intros Hk H. assert (E2 : qn 2 == 2) by reflexivity. assert (E1 : qn 1 == 1) by reflexivity.
  destruct k as [|[|k]]; try lia; unfold w_fast, hat, qclip; destruct clip.
  - rewrite E2, qn_0. qcases; lra.
  - destruct H as [H|H]; [discriminate|]. rewrite E2 in H. rewrite qn_0. qcases; lra.
  - rewrite E2, E1. qcases; lra.
  - destruct H as [H|H]; [discriminate|]. rewrite E2 in H. rewrite E1. qcases; lra. Qed.

Lemma fast_path_eq clip : forall sizes x K, all2 sizes = true -> ok_input clip sizes x ->
  interp_w sizes (map (w_fast clip) x) K == interp_w sizes (map hat (eff clip sizes x)) K.
Proof. induction sizes as [|s ss IH]; intros x K Ha [Hl Hr]; destruct x as [|xd xs]; try discriminate.
  - destruct clip; reflexivity.
  - cbn [all2 forallb] in Ha. apply andb_true_iff in Ha. destruct Ha as [Hs Ha]. apply Nat.eqb_eq in Hs. subst s.
    assert (E : eff clip (2%nat :: ss) (xd :: xs) = (if clip then qclip 0 (qn 2 - 1) xd else xd) :: eff clip ss xs)
      by (destruct clip; reflexivity).
    rewrite E. cbn [map]. rewrite !interp_w_cons. apply wsum_ext.
    + intros k Hk. apply fast_weights_eq. exact Hk. destruct Hr as [Hr|Hr]; [left; exact Hr|right]. inversion Hr; subst; assumption.
    + intros k Hk. apply IH. exact Ha. split. cbn in Hl; lia.
      destruct Hr as [Hr|Hr]; [left; exact Hr|right]. inversion Hr; subst; assumption. Qed.

Lemma hyper_unit_G tensor clip sizes K x : ok_input clip sizes x ->
  hyper_unit tensor clip sizes K x == G sizes K (eff clip sizes x).
Proof. intros Hok. unfold hyper_unit, hyper_weights, G.
  destruct (all2 sizes && tensor) eqn:E.
  - apply andb_true_iff in E. destruct E as [Ha _]. apply fast_path_eq; assumption.
  - reflexivity. Qed.

(* --- vertices --- *)
Lemma vertex_inr : forall sizes v, valid sizes v -> inr sizes (map qn v).
Proof. induction 1 as [|s sh k r Hk Hr IH]; cbn [map]; constructor; auto.
  split. apply qn_nonneg. pose proof (qn_lt k s Hk). lra. Qed.

Lemma eff_proper_in clip sizes x : inr sizes x -> Forall2 Qeq (eff clip sizes x) x.
Proof. intros H. destruct clip; cbn [eff]. apply clip_onto_id; exact H.
  clear H. induction x; constructor; [reflexivity|assumption]. Qed.

Theorem hyper_vertex tensor clip sizes K v : valid sizes v -> hyper_unit tensor clip sizes K (map qn v) == K v.
Proof. intros Hv. pose proof (vertex_inr sizes v Hv) as Hr.
  rewrite hyper_unit_G by (split; [rewrite map_length; apply valid_length; exact Hv|right; exact Hr]).
  rewrite (G_ext_z sizes K _ _ (eff_proper_in clip sizes _ Hr)). apply G_vertex; exact Hv. Qed.

(* --- convex combination: output inside every interval containing the kernel --- *)
Theorem hyper_bounds tensor clip sizes K x lo hi : sizes_ok sizes -> ok_input clip sizes x ->
  (forall i, valid sizes i -> lo <= K i /\ K i <= hi) ->
  lo <= hyper_unit tensor clip sizes K x /\ hyper_unit tensor clip sizes K x <= hi.
Proof. intros Hs Hok HK. rewrite hyper_unit_G by exact Hok. apply G_bounds. apply eff_inr; assumption. exact HK. Qed.

(* --- monotone for every pair of points --- *)
Theorem hyper_monotone tensor clip sizes K x d yd : sizes_ok sizes -> (d < length sizes)%nat ->
  ok_input clip sizes x -> ok_input clip sizes (set_nth d yd x) -> nth d x 0 <= yd -> knondecr sizes K d ->
  hyper_unit tensor clip sizes K x <= hyper_unit tensor clip sizes K (set_nth d yd x).
Proof. intros Hs Hd Hx Hy Hle HK. rewrite !hyper_unit_G by assumption.
  pose proof (eff_inr clip sizes x Hs Hx) as Rx. pose proof (eff_inr clip sizes _ Hs Hy) as Ry.
  destruct Hx as [Lx _]. destruct clip; cbn [eff] in *.
  - rewrite clip_onto_set_nth. apply G_monotone; try assumption.
    + rewrite nth_clip_onto by assumption. apply qclip_mono. exact Hle.
    + apply qclip_range. rewrite qn_pred. apply qn_nonneg.
      pose proof (proj1 (Forall_forall _ sizes) Hs (nth d sizes 0%nat) (nth_In _ _ Hd)). cbn in H. lia.
  - apply G_monotone; try assumption.
    pose proof (nth_inr sizes _ d Ry Hd) as H. rewrite nth_set_nth_same in H by lia. tauto. Qed.

(* --- multilinear on the containing cell, continuous across cells --- *)
Theorem hyper_multilinear tensor clip sizes K x c : ok_input clip sizes x -> in_cell sizes c (eff clip sizes x) ->
  hyper_unit tensor clip sizes K x == multilin K c (eff clip sizes x).
Proof. intros Hok Hc. rewrite hyper_unit_G by exact Hok. apply G_multilin; exact Hc. Qed.

(* a point on a face shared by two cells gets the same value from both cells' formulas *)
Theorem hyper_continuous sizes K z c c' : in_cell sizes c z -> in_cell sizes c' z -> multilin K c z == multilin K c' z.
Proof. intros H H'. rewrite <- (G_multilin sizes c z K H), <- (G_multilin sizes c' z K H'). reflexivity. Qed.

(* --- Edgeworth trust: the effect of the main input grows with the conditional input --- *)
Theorem hyper_edgeworth tensor clip sizes K x m c ym yc : sizes_ok sizes ->
  (m < length sizes)%nat -> (c < length sizes)%nat -> m <> c ->
  ok_input clip sizes x -> ok_input clip sizes (set_nth m ym x) ->
  ok_input clip sizes (set_nth c yc x) -> ok_input clip sizes (set_nth m ym (set_nth c yc x)) ->
  nth m x 0 <= ym -> nth c x 0 <= yc -> kedge sizes K m c ->
  hyper_unit tensor clip sizes K (set_nth m ym x) - hyper_unit tensor clip sizes K x <=
  hyper_unit tensor clip sizes K (set_nth m ym (set_nth c yc x)) - hyper_unit tensor clip sizes K (set_nth c yc x).
Proof. intros Hs Hm Hc Hmc Hx Hxm Hxc Hxmc Lm Lc HK. rewrite !hyper_unit_G by assumption.
  pose proof (eff_inr clip sizes x Hs Hx) as Rx.
  pose proof (eff_inr clip sizes _ Hs Hxm) as Rm. pose proof (eff_inr clip sizes _ Hs Hxc) as Rc.
  assert (Sm : (2 <= nth m sizes 0)%nat) by exact (proj1 (Forall_forall _ sizes) Hs _ (nth_In _ _ Hm)).
  assert (Sc : (2 <= nth c sizes 0)%nat) by exact (proj1 (Forall_forall _ sizes) Hs _ (nth_In _ _ Hc)).
  destruct Hx as [Lx _]. destruct clip; cbn [eff] in *.
  - rewrite !clip_onto_set_nth. apply G_edgeworth; try assumption.
    + rewrite nth_clip_onto by assumption. apply qclip_mono. exact Lm.
    + apply qclip_range. rewrite qn_pred by lia. apply qn_nonneg.
    + rewrite nth_clip_onto by assumption. apply qclip_mono. exact Lc.
    + apply qclip_range. rewrite qn_pred by lia. apply qn_nonneg.
  - apply G_edgeworth; try assumption.
    + pose proof (nth_inr sizes _ m Rm Hm) as H. rewrite nth_set_nth_same in H by lia. tauto.
    + pose proof (nth_inr sizes _ c Rc Hc) as H. rewrite nth_set_nth_same in H by lia. tauto. Qed.
