(* Per-dimension refinement of the monotonicity theorems of C01 (finding D1).

   finalize_monotone / constraint_monotone exclude the whole configuration
   class [trap_mono_cond_with_edgeworth].  Here the guard is narrowed to the
   single dimensions the scalar-mode trapezoid pass can disturb: with Edgeworth
   trusts configured, _approximately_project_trapezoid shifts whole slices
   {main = 0 / last, conditional = j} by a per-unit amount; such a shift is
   constant along every dimension other than the main and the conditional one,
   keeps the order along the main dimension (lower slice only goes down, upper
   slice only goes up) and can only break the order along the CONDITIONAL
   dimension of that trust.  Hence, for every valid configuration (D1 class
   included), the result is monotone along every monotone dimension that is not
   the conditional feature of a trapezoid trust (or along every monotone
   dimension when no Edgeworth trust is configured). *)
From TFL Require Import Proofs.LatticeSpecFacts Proofs.LatticeMono Proofs.LatticeBounds
                        Proofs.LatticeEdgeworth Proofs.LatticeTrapezoid Proofs.LatticeFinalize.
Open Scope Q_scope.

(* the per-dimension condition: d is not disturbed by the trapezoid pass *)
Definition outside_trapezoid_conditionals (c : lat_cfg) (d : nat) : Prop :=
  l_edge c = [] \/ forall t, In t (l_trap c) -> snd (fst t) <> d.

Section Dims.
Variable c : lat_cfg.
Hypothesis Hc : cfg_valid c.
Local Notation sh := (l_shape c).
Local Notation ud := (l_ud c).
Local Notation units := (l_units c).
Local Notation md := (mono_dims (l_monos c)).
Local Notation TT := (trapezoid_one (l_shape c) (l_ud c) (l_units c) (l_edge c)).

(* one trapezoid pass keeps the order along d unless (scalar mode and) d is its
   conditional dimension *)
Lemma D_pass_mono_dim t W d : In t (l_trap c) -> In d md ->
  (l_edge c = [] \/ snd (fst t) <> d) ->
  mono_along sh d W -> mono_along sh d (TT W t).
Proof.
  intros Hin Hd Hg HW. destruct t as [[m cd] dir]. cbn [fst snd] in Hg.
  destruct (T_cfg_trust c Hc m cd dir (T_in_trap c _ Hin)) as (Hctx & Hdir & Hmu & Hcu & _).
  destruct Hc as (_ & _ & Hl & Hmon & _).
  apply T_mono_dims_spec in Hd as Hd'. destruct Hd' as [Hdl Hdn]. rewrite Hl in Hdl.
  destruct (T_ud_sh c) as [_ Hlen]. unfold l_ud in *.
  destruct (Nat.eq_dec d m) as [->|Hdm]. { apply trapezoid_one_mono_main; auto. }
  destruct (Nat.eq_dec d cd) as [->|Hdc].
  - destruct Hg as [He|Hne]; [|congruence].
    apply trapezoid_one_mono_cond_elementwise; auto.
  - apply trapezoid_one_mono_other; auto; lia.
Qed.

Lemma approx_trapezoid_mono_dim W d : In d md -> outside_trapezoid_conditionals c d ->
  mono_along sh d W -> mono_along sh d (approx_trapezoid sh ud units (l_trap c) (l_edge c) W).
Proof.
  intros Hd Hg HW. unfold approx_trapezoid.
  apply (T_fold_preserve TT (fun W' => mono_along sh d W')); [|exact HW].
  intros t W' Hin H. apply D_pass_mono_dim; try assumption.
  destruct Hg as [He|Hg]; [left; exact He|right; apply Hg; exact Hin].
Qed.

Lemma approx_bounds_cfg_mono_dim W d : In d md ->
  mono_along sh d W -> mono_along sh d (AB c W).
Proof.
  intros Hd HW. unfold AB. apply approx_bounds_mono. apply l_ud_lt. apply l_ud_units.
  apply cfg_valid_bounds_ordered; exact Hc. pose proof (cfg_mono_dims_lt c d Hc Hd). lia. exact HW.
Qed.

Theorem finalize_monotone_dim W d : In d md -> outside_trapezoid_conditionals c d ->
  mono_along sh d (finalize c W).
Proof.
  intros Hd Hg. destruct (finalize_cases c W) as [[Hmd E]|[(Hmd & He & Ht & E)|(Hmd & Htr & E)]]; rewrite E.
  - rewrite Hmd in Hd. destruct Hd.
  - apply approx_mono_monotone_kernel; [exact Hc|exact Hd].
  - apply approx_bounds_cfg_mono_dim; [exact Hd|].
    apply approx_trapezoid_mono_dim; [exact Hd|exact Hg|].
    apply approx_edgeworth_mono; [exact Hc| |exact Hd].
    apply approx_mono_monotone_kernel; exact Hc.
Qed.

Theorem constraint_monotone_dim ran Wd d : block_ok c ran -> In d md -> outside_trapezoid_conditionals c d ->
  mono_along sh d (LC c ran Wd).
Proof.
  intros Hb Hd Hg. rewrite LC_unfold. unfold CB. apply clip_bounds_mono.
  destruct ran.
  - apply finalize_monotone_dim; assumption.
  - destruct Hb as [H|H]; [discriminate|]. rewrite H in Hd. destruct Hd.
Qed.

(* outside the D1 class every monotone dimension satisfies the per-dimension
   condition: the new theorems imply the guarded ones *)
Lemma not_d1_outside d : ~ trap_mono_cond_with_edgeworth c -> In d md -> outside_trapezoid_conditionals c d.
Proof.
  intros Hg Hd. destruct (l_edge c) as [|e er] eqn:Ee; [left; exact Ee|right].
  intros t Hin E. apply Hg. split; [rewrite Ee; discriminate|]. exists t. split; [exact Hin|]. rewrite E.
  destruct Hc as (_ & _ & Hl & Hmon & _).
  apply T_mono_dims_spec in Hd. destruct Hd as [Hdl Hdn].
  destruct (Hmon (nth d (l_monos c) 0%Z)) as [E0|E1]; [apply nth_In; exact Hdl|congruence|exact E1].
Qed.

(* conversely, inside the D1 class some monotone dimension is excluded *)
Lemma d1_excludes_some_dim : trap_mono_cond_with_edgeworth c ->
  exists d, In d md /\ ~ outside_trapezoid_conditionals c d.
Proof.
  intros [He (t & Hin & Hm)]. exists (snd (fst t)). split.
  - apply T_mono_dims_spec. destruct t as [[m cd] dir]. cbn [fst snd] in *.
    destruct (T_cfg_trust c Hc m cd dir (T_in_trap c _ Hin)) as (_ & _ & _ & Hcu & _).
    destruct Hc as (_ & _ & Hl & _). split; [|rewrite Hm; discriminate].
    rewrite Hl. exact Hcu.
  - intros [E|H]; [exact (He E)|]. exact (H t Hin eq_refl).
Qed.

Corollary finalize_monotone_from_dims W : ~ trap_mono_cond_with_edgeworth c -> monotone_kernel c (finalize c W).
Proof. intros Hg d Hd. apply finalize_monotone_dim; [exact Hd|apply not_d1_outside; assumption]. Qed.
(* contrapositive form: a monotonicity failure of the result can only occur along
   the conditional dimension of a trapezoid trust, with Edgeworth trusts present *)
Lemma D_cond_dec (ts : list trust) d :
  (forall t, In t ts -> snd (fst t) <> d) \/ (exists t, In t ts /\ snd (fst t) = d).
Proof.
  induction ts as [|t ts IH]. left; intros t [].
  destruct (Nat.eq_dec (snd (fst t)) d) as [E|E].
  - right. exists t. split; [left; reflexivity|exact E].
  - destruct IH as [H|(t' & Hin & E')].
    + left. intros t' [<-|Hin]; [exact E|apply H; exact Hin].
    + right. exists t'. split; [right; exact Hin|exact E'].
Qed.

Theorem constraint_monotone_failure_dim ran Wd d : block_ok c ran -> In d md ->
  ~ mono_along sh d (LC c ran Wd) ->
  l_edge c <> [] /\ exists t, In t (l_trap c) /\ snd (fst t) = d.
Proof.
  intros Hb Hd Hn. destruct (D_cond_dec (l_trap c) d) as [H|H].
  - exfalso. apply Hn. apply constraint_monotone_dim; [exact Hb|exact Hd|right; exact H].
  - split; [|exact H]. intros E. apply Hn. apply constraint_monotone_dim; [exact Hb|exact Hd|left; exact E].
Qed.
End Dims.

Print Assumptions finalize_monotone_dim.
Print Assumptions constraint_monotone_dim.
Print Assumptions constraint_monotone_failure_dim.
