(* Lemmas about Model/CondPWL.v *)
From TFL Require Import Model.CondPWL.
Open Scope Q_scope.

(* ---- oracle hypotheses -------------------------------------------------- *)
(* What float softmax guarantees up to rounding: same length, entries >= 0
   (exact zeros allowed: underflow), sum 1 on non-empty input. *)
Definition softmax_ok (sm : list Q -> list Q) : Prop :=
  forall l, length (sm l) = length l /\ (forall v, In v (sm l) -> 0 <= v) /\ (l <> [] -> qsum (sm l) == 1).
(* mathematical softmax: strictly positive entries *)
Definition softmax_pos (sm : list Q -> list Q) : Prop := forall l v, In v (sm l) -> 0 < v.
(* sigmoid takes values in [0, 1] (closed: float saturation allowed) *)
Definition sigmoid_ok (sg : Q -> Q) : Prop := forall z, 0 <= sg z /\ sg z <= 1.

(* ---- wclip -------------------------------------------------------------- *)
Lemma Qeq_bool_false_neq a b : Qeq_bool a b = false -> ~ a == b.
Proof. intros H E. apply Qeq_bool_iff in E. congruence. Qed.

Lemma wclip_range x kp len : 0 <= wclip x kp len /\ wclip x kp len <= 1.
Proof. unfold wclip. destruct (Qeq_bool len 0).
  - destruct (qlt kp x); lra.
  - apply qclip_range; lra. Qed.

Lemma div_le_0 a l : 0 < l -> a <= 0 -> a / l <= 0.
Proof. intros Hl Ha. apply Qle_shift_div_r; lra. Qed.
Lemma div_ge_1 a l : 0 < l -> l <= a -> 1 <= a / l.
Proof. intros Hl Ha. apply Qle_shift_div_l; lra. Qed.
Lemma div_mono a b l : 0 < l -> a <= b -> a / l <= b / l.
Proof. intros Hl H. unfold Qdiv. apply Qmult_le_compat_r. exact H.
  apply Qlt_le_weak. apply Qinv_lt_0_compat. exact Hl. Qed.

Lemma len_cases len : 0 <= len -> (Qeq_bool len 0 = true /\ len == 0) \/ (Qeq_bool len 0 = false /\ 0 < len).
Proof. intros H. destruct (Qeq_bool len 0) eqn:E.
  - left. split; [reflexivity|]. apply Qeq_bool_iff; exact E.
  - right. split; [reflexivity|]. apply Qeq_bool_false_neq in E. lra. Qed.

Lemma wclip_mono x y kp len : 0 <= len -> x <= y -> wclip x kp len <= wclip y kp len.
Proof. intros Hl Hxy. unfold wclip. destruct (len_cases len Hl) as [[-> E]|[-> E]].
  - destruct (qlt kp x) eqn:E1, (qlt kp y) eqn:E2; try lra.
    apply qlt_true in E1. apply qlt_false in E2. lra.
  - apply qclip_mono. apply div_mono. exact E. lra. Qed.

(* on or left of the left keypoint of the piece: weight 0 *)
Lemma wclip_left x kp len : 0 <= len -> x <= kp -> wclip x kp len == 0.
Proof. intros Hl H. unfold wclip. destruct (len_cases len Hl) as [[-> E]|[-> E]].
  - destruct (qlt kp x) eqn:E1; [apply qlt_true in E1; lra|reflexivity].
  - pose proof (div_le_0 (x - kp) len E ltac:(lra)). unfold qclip. qcases; lra. Qed.
(* right of the piece: weight 1 *)
Lemma wclip_right x kp len : 0 <= len -> kp + len < x -> wclip x kp len == 1.
Proof. intros Hl H. unfold wclip. destruct (len_cases len Hl) as [[-> E]|[-> E]].
  - destruct (qlt kp x) eqn:E1; [reflexivity|apply qlt_false in E1; lra].
  - pose proof (div_ge_1 (x - kp) len E ltac:(lra)). unfold qclip. qcases; lra. Qed.
(* on the right keypoint of a piece of positive length: weight 1 *)
Lemma wclip_right_pos x kp len : 0 < len -> kp + len <= x -> wclip x kp len == 1.
Proof. intros Hl H. unfold wclip. destruct (len_cases len ltac:(lra)) as [[-> E]|[-> E]]; [lra|].
  pose proof (div_ge_1 (x - kp) len E ltac:(lra)). unfold qclip. qcases; lra. Qed.

Lemma qlt_proper_l a b x : a == b -> qlt a x = qlt b x.
Proof. intros H. destruct (qlt a x) eqn:E1, (qlt b x) eqn:E2; try reflexivity.
  - apply qlt_true in E1. apply qlt_false in E2. lra.
  - apply qlt_false in E1. apply qlt_true in E2. lra. Qed.
Lemma wclip_kp_eq x kp kp' len : kp == kp' -> wclip x kp len == wclip x kp' len.
Proof. intros H. unfold wclip. rewrite (qlt_proper_l kp kp' x H).
  destruct (Qeq_bool len 0); [reflexivity|]. rewrite H. reflexivity. Qed.

(* ---- segment sums --------------------------------------------------------- *)
(* sum_i wclip(x, kp_i, len_i) * d_i with kp_{i+1} = kp_i + len_i *)
Fixpoint seg_sum (x kp : Q) (lens ds : list Q) : Q :=
  match lens, ds with
  | len :: lens', d :: ds' => wclip x kp len * d + seg_sum x (kp + len) lens' ds'
  | _, _ => 0
  end.

Lemma seg_sum_kp_eq x lens : forall kp kp' ds, kp == kp' -> seg_sum x kp lens ds == seg_sum x kp' lens ds.
Proof. induction lens as [|len lens IH]; intros kp kp' [|d ds] H; cbn [seg_sum]; try reflexivity.
  rewrite (wclip_kp_eq x kp kp' len H). rewrite (IH (kp + len) (kp' + len) ds) by (rewrite H; reflexivity). reflexivity. Qed.

Lemma interp_tail x imin lens : forall acc ds,
  qsum (map2 Qmult (map2 (wclip x) (map (fun s => s + imin) (cumsum_excl acc lens)) lens) ds)
  == seg_sum x (acc + imin) lens ds.
Proof. induction lens as [|len lens IH]; intros acc ds.
  - destruct ds; reflexivity.
  - destruct ds as [|d ds]; cbn [cumsum_excl map map2 qsum seg_sum]. reflexivity.
    rewrite IH. rewrite (seg_sum_kp_eq x lens (acc + len + imin) (acc + imin + len) ds) by lra. reflexivity. Qed.

Lemma interp_seg x c lens y0 ds :
  interp x (keypoints c lens) lens (y0 :: ds) == y0 + seg_sum x (p_imin c) lens ds.
Proof. unfold interp, interp_weights, keypoints. cbn [map2 qsum]. rewrite interp_tail.
  rewrite (seg_sum_kp_eq x lens (0 + p_imin c) (p_imin c) ds) by lra. lra. Qed.
Lemma interp_nil x kps lens : interp x kps lens [] = 0.
Proof. reflexivity. Qed.

Definition all_nonneg (l : list Q) : Prop := forall v, In v l -> 0 <= v.

Lemma qsum_nonneg l : all_nonneg l -> 0 <= qsum l.
Proof. induction l as [|a l IH]; intros H; cbn [qsum]. lra.
  pose proof (H a (or_introl eq_refl)). assert (0 <= qsum l) by (apply IH; intros v Hv; apply H; right; exact Hv). lra. Qed.
Lemma all_nonneg_tl a l : all_nonneg (a :: l) -> all_nonneg l.
Proof. intros H v Hv. apply H. right. exact Hv. Qed.

Lemma seg_sum_inc_bounds x lens : forall kp ds, all_nonneg ds ->
  0 <= seg_sum x kp lens ds /\ seg_sum x kp lens ds <= qsum ds.
Proof. induction lens as [|len lens IH]; intros kp ds H.
  - pose proof (qsum_nonneg ds H). destruct ds; cbn [seg_sum]; lra.
  - destruct ds as [|d ds]; cbn [seg_sum qsum]. lra.
    assert (Hd : 0 <= d) by (apply H; left; reflexivity).
    destruct (IH (kp + len) ds (all_nonneg_tl _ _ H)) as [H1 H2].
    destruct (wclip_range x kp len) as [W0 W1].
    pose proof (qmul_nonneg _ _ W0 Hd). pose proof (qmul_nonneg (1 - wclip x kp len) d ltac:(lra) Hd). lra. Qed.

Lemma seg_sum_mono x y lens : forall kp ds, all_nonneg lens -> all_nonneg ds -> x <= y ->
  seg_sum x kp lens ds <= seg_sum y kp lens ds.
Proof. induction lens as [|len lens IH]; intros kp [|d ds] Hl Hd Hxy; cbn [seg_sum]; try lra.
  assert (0 <= d) by (apply Hd; left; reflexivity). assert (0 <= len) by (apply Hl; left; reflexivity).
  pose proof (wclip_mono x y kp len H0 Hxy).
  pose proof (qmul_nonneg (wclip y kp len - wclip x kp len) d ltac:(lra) H).
  assert (seg_sum x (kp + len) lens ds <= seg_sum y (kp + len) lens ds).
  { apply IH; try assumption; intros v Hv; [apply Hl|apply Hd]; right; exact Hv. }
  lra. Qed.

(* on or left of the first remaining keypoint: all weights 0 *)
Lemma seg_sum_left x lens : forall kp ds, all_nonneg lens -> x <= kp -> seg_sum x kp lens ds == 0.
Proof. induction lens as [|len lens IH]; intros kp [|d ds] Hl H; cbn [seg_sum]; try reflexivity.
  assert (0 <= len) by (apply Hl; left; reflexivity).
  rewrite (wclip_left x kp len H0 H). rewrite IH. lra. intros v Hv; apply Hl; right; exact Hv. lra. Qed.
(* right of every piece: all weights 1 *)
Lemma seg_sum_right x lens : forall kp ds, all_nonneg lens -> length lens = length ds -> kp + qsum lens < x ->
  seg_sum x kp lens ds == qsum ds.
Proof. induction lens as [|len lens IH]; intros kp [|d ds] Hl Hlen H; cbn [seg_sum qsum] in *; try reflexivity; try discriminate.
  assert (0 <= len) by (apply Hl; left; reflexivity).
  assert (Hr : all_nonneg lens) by (intros v Hv; apply Hl; right; exact Hv).
  pose proof (qsum_nonneg lens Hr).
  assert (Hlen' : length lens = length ds) by (cbn [length] in Hlen; lia).
  rewrite (wclip_right x kp len H0) by lra. rewrite (IH (kp + len) ds Hr Hlen') by lra. lra. Qed.
(* strictly positive lengths: also ON the last keypoint *)
Lemma seg_sum_right_pos x lens : forall kp ds, (forall v, In v lens -> 0 < v) -> length lens = length ds ->
  kp + qsum lens <= x -> seg_sum x kp lens ds == qsum ds.
Proof. induction lens as [|len lens IH]; intros kp [|d ds] Hl Hlen H; cbn [seg_sum qsum] in *; try reflexivity; try discriminate.
  assert (0 < len) by (apply Hl; left; reflexivity).
  assert (Hr : forall v, In v lens -> 0 < v) by (intros v Hv; apply Hl; right; exact Hv).
  assert (0 <= qsum lens) by (apply qsum_nonneg; intros v Hv; apply Qlt_le_weak, Hr, Hv).
  assert (Hlen' : length lens = length ds) by (cbn [length] in Hlen; lia).
  rewrite (wclip_right_pos x kp len H0) by lra. rewrite (IH (kp + len) ds Hr Hlen') by lra. lra. Qed.

(* successive differences, recursively *)
Fixpoint diffs (y0 : Q) (rest : list Q) : list Q :=
  match rest with [] => [] | y1 :: r => (y1 - y0) :: diffs y1 r end.
Lemma map2_removelast_diffs rest : forall y0, map2 Qminus rest (removelast (y0 :: rest)) = diffs y0 rest.
Proof. induction rest as [|y1 r IH]; intros y0. reflexivity.
  change (removelast (y0 :: y1 :: r)) with (y0 :: removelast (y1 :: r)). cbn [map2 diffs]. rewrite IH. reflexivity. Qed.

(* staircase: with ordered (possibly collapsed) keypoints the interpolated
   value stays between the smallest and the largest keypoint output *)
Lemma seg_sum_none_bounds x lo hi lens : forall kp y0 rest, all_nonneg lens ->
  lo <= y0 <= hi -> (forall y, In y rest -> lo <= y <= hi) ->
  lo <= y0 + seg_sum x kp lens (diffs y0 rest) <= hi.
Proof. induction lens as [|len lens IH]; intros kp y0 [|y1 r] Hl H0 Hr; cbn [seg_sum diffs]; try lra.
  assert (Hlen : 0 <= len) by (apply Hl; left; reflexivity).
  assert (Hl' : all_nonneg lens) by (intros v Hv; apply Hl; right; exact Hv).
  assert (H1 : lo <= y1 <= hi) by (apply Hr; left; reflexivity).
  destruct (Qlt_le_dec (kp + len) x) as [Hx|Hx].
  2: { rewrite (seg_sum_left x lens (kp + len) _ Hl' Hx).
    destruct (wclip_range x kp len) as [W0 W1]. set (w := wclip x kp len) in *.
    destruct (Qlt_le_dec y1 y0).
    + pose proof (qmul_nonneg w (y0 - y1) W0 ltac:(lra)). pose proof (qmul_nonneg (1 - w) (y0 - y1) ltac:(lra) ltac:(lra)). lra.
    + pose proof (qmul_nonneg w (y1 - y0) W0 ltac:(lra)). pose proof (qmul_nonneg (1 - w) (y1 - y0) ltac:(lra) ltac:(lra)). lra. }
  - rewrite (wclip_right x kp len Hlen Hx).
    destruct (IH (kp + len) y1 r Hl' H1) as [A B]. intros y Hy; apply Hr; right; exact Hy. lra. Qed.

(* ---- list helpers -------------------------------------------------------- *)
Lemma qsum_map_mul_r (r : Q) l : qsum (map (fun v => v * r) l) == qsum l * r.
Proof. induction l as [|a l IH]; cbn [map qsum]. lra. rewrite IH. lra. Qed.
Lemma all_nonneg_map_mul (r : Q) l : 0 <= r -> all_nonneg l -> all_nonneg (map (fun v => v * r) l).
Proof. intros Hr H v Hv. apply in_map_iff in Hv. destruct Hv as [a [<- Ha]]. apply qmul_nonneg. apply H; exact Ha. exact Hr. Qed.
Lemma removelast_nonneg l : all_nonneg l -> all_nonneg (removelast l) /\ qsum (removelast l) <= qsum l.
Proof. induction l as [|a l IH]; intros H. split; [exact H|cbn; lra].
  destruct l as [|b l]. split; [intros v []|]. cbn. pose proof (H a (or_introl eq_refl)). lra.
  change (removelast (a :: b :: l)) with (a :: removelast (b :: l)).
  destruct (IH (all_nonneg_tl _ _ H)) as [A B]. split.
  - intros v [<-|Hv]. apply H; left; reflexivity. apply A; exact Hv.
  - cbn [qsum] in *. lra. Qed.
Lemma removelast_cons_ne (a : Q) l : l <> [] -> removelast (a :: l) = a :: removelast l.
Proof. destruct l; [congruence|reflexivity]. Qed.
Lemma removelast_length {A} (l : list A) : length (removelast l) = pred (length l).
Proof. induction l as [|a l IH]. reflexivity. destruct l. reflexivity.
  change (removelast (a :: a0 :: l)) with (a :: removelast (a0 :: l)). cbn [length] in *. rewrite IH. reflexivity. Qed.
Lemma diffs_sum rest : forall y0, y0 + qsum (diffs y0 rest) == last rest y0.
Proof. induction rest as [|y1 r IH]; intros y0; cbn [diffs qsum]. cbn. lra.
  specialize (IH y1). destruct r as [|y2 r]. cbn in *. lra.
  change (last (y1 :: y2 :: r) y0) with (last (y2 :: r) y0).
  assert (E : last (y2 :: r) y0 = last (y2 :: r) y1).
  { clear. revert y2. induction r as [|a r IH]; intros y2. reflexivity.
    change (last (y2 :: a :: r) y0) with (last (a :: r) y0). change (last (y2 :: a :: r) y1) with (last (a :: r) y1). apply IH. }
  rewrite E. lra. Qed.
Lemma diffs_length rest : forall y0, length (diffs y0 rest) = length rest.
Proof. induction rest as [|y1 r IH]; intros y0; cbn [diffs length]. reflexivity. rewrite IH. reflexivity. Qed.

(* ---- one slice ------------------------------------------------------------ *)
Section Row.
Variable sm : list Q -> list Q.
Variable sg : Q -> Q.
Hypothesis Hsm : softmax_ok sm.
Hypothesis Hsg : sigmoid_ok sg.
Variable c : pcfg.
Hypothesis Hin : p_imin c <= p_imax c.
Hypothesis Hout : p_omin c <= p_omax c.

Definition kip_list (kip : option (list Q)) : list Q := match kip with None => [0] | Some p => 0 :: p end.
Lemma kip_list_ne kip : kip_list kip <> [].
Proof. destruct kip; discriminate. Qed.

Lemma key_deltas_nonneg kip : all_nonneg (key_deltas sm c kip).
Proof. unfold key_deltas. apply all_nonneg_map_mul. unfold rng_in; lra. destruct (Hsm (kip_list kip)) as [_ [H _]]. exact H. Qed.
Lemma key_deltas_sum kip : qsum (key_deltas sm c kip) == rng_in c.
Proof. unfold key_deltas. rewrite qsum_map_mul_r. destruct (Hsm (kip_list kip)) as [_ [_ H]].
  fold (kip_list kip). rewrite (H (kip_list_ne kip)). lra. Qed.
Lemma key_deltas_length kip : length (key_deltas sm c kip) = length (kip_list kip).
Proof. unfold key_deltas. rewrite map_length. destruct (Hsm (kip_list kip)) as [H _]. exact H. Qed.
Lemma key_deltas_pos kip : softmax_pos sm -> p_imin c < p_imax c -> forall v, In v (key_deltas sm c kip) -> 0 < v.
Proof. intros Hp Hlt v Hv. unfold key_deltas in Hv. apply in_map_iff in Hv. destruct Hv as [a [<- Ha]].
  apply Hp in Ha. unfold rng_in. apply Qmult_lt_0_compat; lra. Qed.

(* shape of the derived [y0, delta_1, ...] in 'increasing' mode *)
Definition inc_shape (kos : list Q) : Prop :=
  kos = [] \/ exists y0 ds, kos = y0 :: ds /\ p_omin c <= y0 /\ all_nonneg ds /\ y0 + qsum ds <= p_omax c
    /\ (p_cmin c = true -> y0 == p_omin c) /\ (p_cmax c = true -> y0 + qsum ds == p_omax c).

Lemma ko_inc_shape ko : inc_shape (ko_inc sm c ko).
Proof. unfold inc_shape, ko_inc. destruct (Hsm (0 :: ko)) as [Hlen [Hnn Hs]].
  assert (Hsum : qsum (map (fun v => v * rng_out c) (sm (0 :: ko))) == rng_out c).
  { rewrite qsum_map_mul_r. rewrite Hs by discriminate. lra. }
  assert (Hd : all_nonneg (map (fun v => v * rng_out c) (sm (0 :: ko)))).
  { apply all_nonneg_map_mul. unfold rng_out; lra. exact Hnn. }
  destruct (map (fun v => v * rng_out c) (sm (0 :: ko))) as [|d0 dr] eqn:E.
  { apply (f_equal (@length Q)) in E. rewrite map_length, Hlen in E. discriminate. }
  cbn [qsum] in Hsum. unfold rng_out in Hsum.
  assert (H0 : 0 <= d0) by (apply Hd; left; reflexivity). pose proof (all_nonneg_tl _ _ Hd) as Hr.
  destruct (p_cmin c) eqn:Ecmin, (p_cmax c) eqn:Ecmax; cbn [firstn skipn map app].
  - right. exists (p_omin c), (d0 :: dr). cbn [qsum].
    split; [reflexivity|]. split; [lra|]. split; [exact Hd|]. split; [lra|]. split; intros; lra.
  - right. rewrite removelast_cons_ne by discriminate. exists (p_omin c), (removelast (d0 :: dr)).
    destruct (removelast_nonneg _ Hd) as [A B]. cbn [qsum] in B.
    split; [reflexivity|]. split; [lra|]. split; [exact A|]. split; [lra|]. split; intros; [lra|discriminate].
  - right. exists (d0 + p_omin c), dr.
    split; [reflexivity|]. split; [lra|]. split; [exact Hr|]. split; [lra|]. split; intros; [discriminate|lra].
  - destruct dr as [|d1 dr]. left; reflexivity.
    right. rewrite removelast_cons_ne by discriminate. exists (d0 + p_omin c), (removelast (d1 :: dr)).
    destruct (removelast_nonneg _ Hr) as [A B].
    split; [reflexivity|]. split; [lra|]. split; [exact A|]. split; [lra|]. split; intros; discriminate. Qed.

Lemma ko_inc_length ko : length (ko_inc sm c ko) =
  (S (length ko) + (if p_cmin c then 1 else 0) - (if p_cmax c then 0 else 1))%nat.
Proof. unfold ko_inc. destruct (Hsm (0 :: ko)) as [Hlen _].
  assert (L : length (map (fun v => v * rng_out c) (sm (0 :: ko))) = S (length ko)) by (rewrite map_length, Hlen; reflexivity).
  destruct (map (fun v => v * rng_out c) (sm (0 :: ko))) as [|d0 dr]; [discriminate|].
  cbn [length] in L. destruct (p_cmin c), (p_cmax c); cbn [firstn skipn map app]; rewrite ?removelast_length; cbn [length]; lia. Qed.

(* shape in 'none' mode: keypoint outputs ys in range, stored as y0 :: diffs *)
Definition none_shape (kos : list Q) : Prop :=
  kos = [] \/ exists y0 rest, kos = y0 :: diffs y0 rest /\ p_omin c <= y0 <= p_omax c
    /\ (forall y, In y rest -> p_omin c <= y <= p_omax c) /\ (p_cyc c = true -> last rest y0 = y0).

Lemma sg_scaled_range z : p_omin c <= sg z * rng_out c + p_omin c <= p_omax c.
Proof. destruct (Hsg z) as [A B]. unfold rng_out.
  pose proof (qmul_nonneg _ _ A (ltac:(lra) : 0 <= p_omax c - p_omin c)).
  pose proof (qmul_nonneg (1 - sg z) (p_omax c - p_omin c) ltac:(lra) ltac:(lra)). lra. Qed.

Lemma ko_none_shape ko : none_shape (ko_none sg c ko).
Proof. unfold none_shape, ko_none. set (ys := map (fun p => sg p * rng_out c + p_omin c) ko).
  assert (Hys : forall y, In y ys -> p_omin c <= y <= p_omax c).
  { intros y Hy. apply in_map_iff in Hy. destruct Hy as [z [<- _]]. apply sg_scaled_range. }
  destruct ys as [|y0 r]. { left. destruct (p_cyc c); reflexivity. }
  assert (H0 : p_omin c <= y0 <= p_omax c) by (apply Hys; left; reflexivity).
  right. destruct (p_cyc c).
  - exists y0, (r ++ [y0]). cbn [firstn app skipn]. rewrite map2_removelast_diffs.
    split; [reflexivity|]. split; [exact H0|]. split.
    + intros y Hy. apply in_app_iff in Hy. destruct Hy as [Hy|[<-|[]]]; [apply Hys; right; exact Hy|exact H0].
    + intros _. apply last_last.
  - exists y0, r. cbn [firstn app skipn]. rewrite map2_removelast_diffs.
    split; [reflexivity|]. split; [exact H0|]. split.
    + intros y Hy; apply Hys; right; exact Hy.
    + discriminate. Qed.

Lemma ko_none_length ko : ko <> [] -> length (ko_none sg c ko) = (length ko + (if p_cyc c then 1 else 0))%nat.
Proof. intros Hne. unfold ko_none. set (ys := map (fun p => sg p * rng_out c + p_omin c) ko).
  assert (L : length ys = length ko) by apply map_length.
  destruct ys as [|y0 r]. { destruct ko; [congruence|discriminate]. }
  destruct (p_cyc c); cbn [firstn app skipn]; rewrite map2_removelast_diffs; cbn [length]; rewrite diffs_length, ?app_length; cbn [length] in *; lia. Qed.

End Row.

Section RowThm.
Variable sm : list Q -> list Q.
Variable sg : Q -> Q.
Hypothesis Hsm : softmax_ok sm.
Hypothesis Hsg : sigmoid_ok sg.
Variable c : pcfg.
Hypothesis Hin : p_imin c <= p_imax c.
Hypothesis Hout : p_omin c <= p_omax c.

(* derived [y0, delta_1, ...] of a slice *)
Definition kos_of (kop : list Q) : list Q := kernel_outputs sm sg c (snd (split_missing sg c kop)).
(* the slice has as many derived outputs as keypoints (what the size check ensures) *)
Definition row_sized (kip : option (list Q)) (kop : list Q) : Prop :=
  length (kos_of kop) = S (length (key_deltas sm c kip)).
Definition not_missing (x : Q) : Prop := match p_min c with Some m => ~ x == m | None => True end.
Definition row_interp (kip : option (list Q)) (kop : list Q) (x : Q) : Q :=
  interp x (keypoints c (key_deltas sm c kip)) (key_deltas sm c kip) (kos_of kop).

Lemma pwl_row_not_missing kip kop x : not_missing x -> pwl_row sm sg c kip kop x = row_interp kip kop x.
Proof. unfold not_missing, pwl_row, row_interp, kos_of. destruct (p_min c) as [m|]; [|reflexivity].
  intros H. destruct (fst (split_missing sg c kop)); [|reflexivity].
  destruct (Qeq_bool x m) eqn:E; [|reflexivity]. apply Qeq_bool_iff in E. contradiction. Qed.

Lemma pwl_row_missing kip kop x m : p_min c = Some m -> x == m ->
  pwl_row sm sg c kip kop x =
  match p_mout c with Some v => v | None => p_omin c + sg (last kop 0) * rng_out c end.
Proof. intros Hm Hx. unfold pwl_row, split_missing. rewrite Hm.
  apply Qeq_bool_iff in Hx. destruct (p_mout c); cbn [fst snd]; rewrite Hx; reflexivity. Qed.

Lemma kos_cases kop :
  (is_none c = true /\ none_shape c (kos_of kop)) \/ (is_none c = false /\ inc_shape c (kos_of kop)).
Proof. unfold kos_of, kernel_outputs. destruct (is_none c).
  - left. split; [reflexivity|]. apply ko_none_shape; assumption.
  - right. split; [reflexivity|]. apply ko_inc_shape; assumption. Qed.

Lemma row_interp_bounds kip kop x : kos_of kop <> [] ->
  p_omin c <= row_interp kip kop x <= p_omax c.
Proof. intros Hne. unfold row_interp. pose proof (key_deltas_nonneg sm Hsm c Hin kip) as Hl.
  destruct (kos_cases kop) as [[_ [E|[y0 [rest [E [H0 [Hr _]]]]]]]|[_ [E|[y0 [ds [E [H0 [Hd [Hs _]]]]]]]]]; try contradiction; rewrite E.
  - rewrite interp_seg. apply seg_sum_none_bounds; assumption.
  - rewrite interp_seg. destruct (seg_sum_inc_bounds x (key_deltas sm c kip) (p_imin c) ds Hd). lra. Qed.

Lemma pwl_row_bounds kip kop x : kos_of kop <> [] -> (p_mout c = None \/ not_missing x) ->
  p_omin c <= pwl_row sm sg c kip kop x <= p_omax c.
Proof. intros Hne Hm. pose proof (row_interp_bounds kip kop x Hne) as HB.
  unfold pwl_row. fold (kos_of kop). fold (row_interp kip kop x).
  destruct (p_min c) as [m|] eqn:Em; [|exact HB].
  unfold split_missing. rewrite Em. destruct (p_mout c) as [v|] eqn:Ev; cbn [fst].
  - destruct Hm as [Hm|Hm]; [discriminate|]. unfold not_missing in Hm. rewrite Em in Hm.
    destruct (Qeq_bool x m) eqn:E; [apply Qeq_bool_iff in E; contradiction|exact HB].
  - destruct (Qeq_bool x m); [|exact HB]. pose proof (sg_scaled_range sg Hsg c Hout (last kop 0)). lra. Qed.

Lemma row_interp_monotone kip kop x y : is_none c = false -> x <= y ->
  row_interp kip kop x <= row_interp kip kop y.
Proof. intros Hi Hxy. unfold row_interp. pose proof (key_deltas_nonneg sm Hsm c Hin kip) as Hl.
  destruct (kos_cases kop) as [[E _]|[_ [E|[y0 [ds [E [H0 [Hd _]]]]]]]]; [congruence| |]; rewrite E.
  - rewrite !interp_nil. lra.
  - rewrite !interp_seg. pose proof (seg_sum_mono x y _ (p_imin c) ds Hl Hd Hxy). lra. Qed.

Lemma pwl_row_monotone kip kop x y : is_none c = false -> not_missing x -> not_missing y -> x <= y ->
  pwl_row sm sg c kip kop x <= pwl_row sm sg c kip kop y.
Proof. intros Hi Hx Hy Hxy. rewrite !pwl_row_not_missing by assumption. apply row_interp_monotone; assumption. Qed.

(* values left of / right of all keypoints *)
Definition right_of (x : Q) : Prop :=
  p_imax c < x \/ (softmax_pos sm /\ p_imin c < p_imax c /\ p_imax c <= x).
Lemma row_interp_right kip kop x : row_sized kip kop -> right_of x ->
  row_interp kip kop x == qsum (kos_of kop).
Proof. intros Hs Hx. unfold row_interp. unfold row_sized in Hs.
  destruct (kos_of kop) as [|y0 ds]; [discriminate|]. rewrite interp_seg. cbn [qsum].
  assert (L : length (key_deltas sm c kip) = length ds) by (cbn [length] in Hs; lia).
  pose proof (key_deltas_sum sm Hsm c kip) as S. unfold rng_in in S.
  destruct Hx as [Hx|[Hp [Hlt Hx]]].
  - rewrite seg_sum_right. reflexivity. apply key_deltas_nonneg; assumption. exact L. lra.
  - rewrite seg_sum_right_pos. reflexivity. apply key_deltas_pos; assumption. exact L. lra. Qed.
Lemma row_interp_left kip kop x : x <= p_imin c -> row_interp kip kop x == hd 0 (kos_of kop).
Proof. intros Hx. unfold row_interp. destruct (kos_of kop) as [|y0 ds]. reflexivity.
  rewrite interp_seg. rewrite seg_sum_left. cbn; lra. apply key_deltas_nonneg; assumption. exact Hx. Qed.

(* clamps, parameter level: cumulative sum of the derived outputs *)
Lemma kos_clamp_max kop : is_none c = false -> p_cmax c = true -> kos_of kop <> [] -> qsum (kos_of kop) == p_omax c.
Proof. intros Hi Hc Hne. destruct (kos_cases kop) as [[E _]|[_ [E|[y0 [ds [E [_ [_ [_ [_ H]]]]]]]]]]; [congruence|contradiction|].
  rewrite E. cbn [qsum]. apply H. exact Hc. Qed.
Lemma kos_clamp_min kop : is_none c = false -> p_cmin c = true -> kos_of kop <> [] -> hd 0 (kos_of kop) == p_omin c.
Proof. intros Hi Hc Hne. destruct (kos_cases kop) as [[E _]|[_ [E|[y0 [ds [E [_ [_ [_ [H _]]]]]]]]]]; [congruence|contradiction|].
  rewrite E. cbn [hd]. apply H. exact Hc. Qed.
(* cyclic, parameter level: the last keypoint output (cumulative sum) equals the first *)
Lemma kos_cyclic kop : is_none c = true -> p_cyc c = true -> qsum (kos_of kop) == hd 0 (kos_of kop).
Proof. intros Hi Hc. destruct (kos_cases kop) as [[_ [E|[y0 [rest [E [_ [_ H]]]]]]]|[E _]]; [| |congruence]; rewrite E.
  reflexivity. cbn [qsum hd]. rewrite diffs_sum. rewrite (H Hc). reflexivity. Qed.

Lemma row_sized_ne kip kop : row_sized kip kop -> kos_of kop <> [].
Proof. unfold row_sized. destruct (kos_of kop); [discriminate|discriminate]. Qed.

(* function level *)
Lemma pwl_row_clamp_max kip kop x : is_none c = false -> p_cmax c = true -> row_sized kip kop ->
  not_missing x -> right_of x -> pwl_row sm sg c kip kop x == p_omax c.
Proof. intros Hi Hc Hs Hm Hx. rewrite pwl_row_not_missing by assumption. rewrite row_interp_right by assumption.
  apply kos_clamp_max; try assumption. apply (row_sized_ne kip); assumption. Qed.
Lemma pwl_row_clamp_min kip kop x : is_none c = false -> p_cmin c = true -> row_sized kip kop ->
  not_missing x -> x <= p_imin c -> pwl_row sm sg c kip kop x == p_omin c.
Proof. intros Hi Hc Hs Hm Hx. rewrite pwl_row_not_missing by assumption.
  rewrite row_interp_left by assumption. apply kos_clamp_min; try assumption. apply (row_sized_ne kip); assumption. Qed.
Lemma pwl_row_cyclic kip kop x y : is_none c = true -> p_cyc c = true -> row_sized kip kop ->
  not_missing x -> not_missing y -> x <= p_imin c -> right_of y ->
  pwl_row sm sg c kip kop x == pwl_row sm sg c kip kop y.
Proof. intros Hi Hc Hs Hmx Hmy Hx Hy. rewrite !pwl_row_not_missing by assumption.
  rewrite (row_interp_right kip kop y Hs Hy). rewrite row_interp_left by assumption.
  symmetry. apply kos_cyclic; assumption. Qed.

(* the size check, per slice: lengths of the derived lists *)
Lemma kos_length kop : snd (split_missing sg c kop) <> [] \/ is_none c = false ->
  length (kos_of kop) =
  if is_none c then (length (snd (split_missing sg c kop)) + (if p_cyc c then 1 else 0))%nat
  else (S (length (snd (split_missing sg c kop))) + (if p_cmin c then 1 else 0) - (if p_cmax c then 0 else 1))%nat.
Proof. intros H. unfold kos_of, kernel_outputs. destruct (is_none c).
  - apply ko_none_length. destruct H; [assumption|discriminate].
  - apply ko_inc_length. assumption. Qed.
Lemma split_missing_length kop : length (snd (split_missing sg c kop)) =
  (length kop - (if opt_some (p_min c) && negb (opt_some (p_mout c)) then 1 else 0))%nat.
Proof. unfold split_missing. destruct (p_min c), (p_mout c); cbn [snd opt_some andb negb]; rewrite ?removelast_length; lia. Qed.

End RowThm.

(* ---- the size check ------------------------------------------------------- *)
(* flag combinations that _verify_pwl_calibration lets through *)
Definition cfg_valid (c : pcfg) : Prop :=
  p_imin c <= p_imax c /\ p_omin c <= p_omax c
  /\ (is_none c = true \/ is_inc c = true)
  /\ (is_none c = true -> p_cmin c = false /\ p_cmax c = false)
  /\ (is_inc c = true -> p_cyc c = false)
  /\ (opt_some (p_mout c) = true -> opt_some (p_min c) = true).
(* module docstring: # keypoints, -1 cyclic, -1 clamp_min, -1 clamp_max,
   +1 "if need to learn how to impute missing" *)
Definition doc_output_size (c : pcfg) (num_kp : Z) : Z :=
  (num_kp - b2z (p_cyc c) - b2z (p_cmin c) - b2z (p_cmax c)
   + b2z (opt_some (p_min c) && negb (opt_some (p_mout c))))%Z.
(* shape forms of keypoint_output_parameters that the check lets through *)
Definition kop_form_ok (c : pcfg) (kop : ptens) : Prop :=
  match kop with
  | P2 _ => (p_units c <= 1)%nat
  | P3 t => length (hd [] t) = p_units c
  end.
Definition inputs_form_ok (c : pcfg) (inputs : list (list Q)) : Prop :=
  (width inputs <= 1)%nat \/ width inputs = p_units c.

Lemma qlt_false_of_le a b : a <= b -> qlt b a = false.
Proof. intros H. apply qlt_false. exact H. Qed.

Lemma verify_sizes c inputs kip kop :
  cfg_valid c -> kop_form_ok c kop -> inputs_form_ok c inputs ->
  (verify c inputs kip kop = true <->
   (Z.of_nat (plast kop) = doc_output_size c (num_keypoints kip) /\ (0 < doc_output_size c (num_keypoints kip))%Z)).
Proof. intros [Hi [Ho [Hm [Hn [Hc Hs]]]]] Hk Hx. unfold verify.
  rewrite (qlt_false_of_le _ _ Hi), (qlt_false_of_le _ _ Ho).
  assert (E : output_param_size c kip = doc_output_size c (num_keypoints kip)).
  { unfold output_param_size, doc_output_size. destruct (p_min c), (p_mout c); cbn [opt_some andb negb b2z] in *; try lia.
    all: try (specialize (Hs eq_refl); discriminate). }
  rewrite E. set (D := doc_output_size c (num_keypoints kip)).
  assert (F1 : (1 <? p_units c)%nat && negb (prank kop =? 3)%nat = false).
  { destruct kop; cbn [prank kop_form_ok] in *. destruct (Nat.ltb_spec 1 (p_units c)); [lia|reflexivity].
    rewrite Nat.eqb_refl. cbn. apply andb_false_r. }
  assert (F2 : (prank kop =? 3)%nat && negb (pdim1 kop =? p_units c)%nat = false).
  { destruct kop; cbn [prank pdim1 kop_form_ok] in *. reflexivity. rewrite Hk, !Nat.eqb_refl. reflexivity. }
  assert (F3 : (1 <? width inputs)%nat && negb (width inputs =? p_units c)%nat = false).
  { destruct Hx as [Hx|Hx]. destruct (Nat.ltb_spec 1 (width inputs)); [lia|reflexivity].
    rewrite Hx, Nat.eqb_refl. apply andb_false_r. }
  rewrite F1, F2, F3. cbn [negb].
  assert (G1 : is_none c || is_inc c = true) by (destruct Hm as [-> | ->]; [reflexivity|apply orb_true_r]).
  assert (G2 : is_none c && (p_cmin c || p_cmax c) = false).
  { destruct (is_none c); [|reflexivity]. destruct (Hn eq_refl) as [-> ->]. reflexivity. }
  assert (G3 : is_inc c && p_cyc c = false).
  { destruct (is_inc c); [|reflexivity]. rewrite (Hc eq_refl). reflexivity. }
  assert (G4 : opt_some (p_mout c) && negb (opt_some (p_min c)) = false).
  { destruct (opt_some (p_mout c)); [|reflexivity]. rewrite (Hs eq_refl). reflexivity. }
  rewrite G1, G2, G3, G4. cbn [negb andb].
  rewrite !andb_true_r. rewrite andb_true_iff, Z.ltb_lt, Z.eqb_eq. tauto. Qed.

(* the checks on the flags are necessary: an accepted call has a valid configuration *)
Lemma verify_cfg_valid c inputs kip kop : verify c inputs kip kop = true -> cfg_valid c.
Proof. unfold verify, cfg_valid. intros H.
  destruct (qlt (p_imax c) (p_imin c)) eqn:E1; cbn [negb andb] in H; [discriminate|].
  destruct (is_none c || is_inc c) eqn:E2; cbn [negb andb] in H; [|discriminate].
  destruct (is_none c && (p_cmin c || p_cmax c)) eqn:E3; cbn [negb andb] in H; [discriminate|].
  destruct (qlt (p_omax c) (p_omin c)) eqn:E4; cbn [negb andb] in H; [discriminate|].
  destruct (is_inc c && p_cyc c) eqn:E5; cbn [negb andb] in H; [discriminate|].
  destruct (opt_some (p_mout c) && negb (opt_some (p_min c))) eqn:E6; cbn [negb andb] in H; [discriminate|].
  clear H. apply qlt_false in E1. apply qlt_false in E4.
  split; [exact E1|]. split; [exact E4|].
  split. { apply orb_true_iff in E2. exact E2. }
  split. { intros E. rewrite E in E3. cbn in E3. apply orb_false_iff in E3. exact E3. }
  split. { intros E. rewrite E in E5. exact E5. }
  intros E. rewrite E in E6. cbn in E6. apply negb_false_iff in E6. exact E6. Qed.

(* ---- the whole function: slices ---------------------------------------------- *)
Definition slice_kip (c : pcfg) (kip : option ptens) (b u : nat) : option (list Q) :=
  match kip with None => None | Some t => Some (bsel [] u (bsel [] b (tile1 (p_units c) (to3 t)))) end.
Definition slice_kop (c : pcfg) (kop : ptens) (b u : nat) : list Q :=
  bsel [] u (bsel [] b (tile1 (p_units c) (to3 kop))).
Definition slice_x (c : pcfg) (inputs : list (list Q)) (b u : nat) : Q :=
  bsel 0 u (bsel [] b (tile1 (p_units c) inputs)).

(* batch size of the result *)
Definition out_batch (c : pcfg) (inputs : list (list Q)) (kip : option ptens) (kop : ptens) : nat :=
  Nat.max (length (tile1 (p_units c) inputs))
    (Nat.max (match kip with None => 1%nat | Some t => length (tile1 (p_units c) (to3 t)) end)
             (length (tile1 (p_units c) (to3 kop)))).

Lemma pwl_fn_some sm sg c inputs kip kop out : pwl_fn sm sg c inputs kip kop = Some out ->
  verify c inputs kip kop = true
  /\ bcompat (out_batch c inputs kip kop) (length (tile1 (p_units c) (to3 kop))) = true
  /\ out = map (fun b => map (fun u => pwl_row sm sg c (slice_kip c kip b u) (slice_kop c kop b u) (slice_x c inputs b u))
                 (seq 0 (p_units c))) (seq 0 (out_batch c inputs kip kop)).
Proof. unfold pwl_fn. destruct (verify c inputs kip kop); cbn [negb]; [|discriminate].
  unfold out_batch, slice_kip, slice_kop, slice_x. destruct kip as [t|].
  - match goal with |- (if ?cond then _ else _) = _ -> _ => destruct cond eqn:E end; [|discriminate].
    intros H. injection H as <-. repeat (apply andb_true_iff in E; destruct E as [E ?]).
    split; [reflexivity|]. split; [assumption|reflexivity].
  - match goal with |- (if ?cond then _ else _) = _ -> _ => destruct cond eqn:E end; [|discriminate].
    intros H. injection H as <-. repeat (apply andb_true_iff in E; destruct E as [E ?]).
    split; [reflexivity|]. split; [assumption|reflexivity]. Qed.

Lemma pwl_fn_entry sm sg c inputs kip kop out b u :
  pwl_fn sm sg c inputs kip kop = Some out -> (b < length out)%nat -> (u < p_units c)%nat ->
  nth u (nth b out []) 0 =
  pwl_row sm sg c (slice_kip c kip b u) (slice_kop c kop b u) (slice_x c inputs b u).
Proof. intros H Hb Hu. destruct (pwl_fn_some _ _ _ _ _ _ _ H) as [_ [_ ->]].
  rewrite map_length, seq_length in Hb.
  rewrite (nth_map_seq _ _ _ _ Hb). rewrite (nth_map_seq _ _ _ _ Hu). reflexivity. Qed.

(* a tensor is rectangular *)
Definition rect_kop (kop : ptens) : Prop :=
  match kop with
  | P2 t => forall r, In r t -> length r = plast kop
  | P3 t => forall m, In m t -> length m = length (hd [] t) /\ forall r, In r m -> length r = plast kop
  end.

Lemma verify_parts c inputs kip kop : verify c inputs kip kop = true ->
  (0 < output_param_size c kip)%Z /\ Z.of_nat (plast kop) = output_param_size c kip
  /\ match kop with P2 _ => (p_units c <= 1)%nat | P3 t => length (hd [] t) = p_units c end.
Proof. unfold verify. intros H. repeat (apply andb_true_iff in H; destruct H as [H ?]).
  apply Z.ltb_lt in H4. apply Z.eqb_eq in H1. split; [exact H4|]. split; [exact H1|].
  apply negb_true_iff in H3, H2. destruct kop; cbn [prank pdim1] in *.
  - change (2 =? 3)%nat with false in H3. cbn [negb] in H3. rewrite andb_true_r in H3. apply Nat.ltb_ge in H3. exact H3.
  - change (3 =? 3)%nat with true in H2. cbn [andb] in H2. apply negb_false_iff in H2. apply Nat.eqb_eq in H2. exact H2. Qed.

Lemma tile1_noop {A} units (t : list (list A)) : (length (hd [] t) = units \/ (units <= 1)%nat) -> tile1 units t = t.
Proof. intros H. unfold tile1. destruct (length (hd [] t) =? 1)%nat eqn:E1, (1 <? units)%nat eqn:E2; try reflexivity.
  apply Nat.eqb_eq in E1. apply Nat.ltb_lt in E2. lia. Qed.

Lemma bsel_in_range {A} (d : A) n i (l : list A) : bcompat n (length l) = true -> (i < n)%nat -> In (bsel d i l) l.
Proof. unfold bcompat, bsel. intros H Hi. destruct (length l =? 1)%nat eqn:E.
  - apply Nat.eqb_eq in E. apply nth_In. lia.
  - cbn [orb] in H. apply Nat.eqb_eq in H. apply nth_In. lia. Qed.

Lemma slice_kop_length sm sg c inputs kip kop out b u : rect_kop kop ->
  pwl_fn sm sg c inputs kip kop = Some out -> (b < length out)%nat -> (u < p_units c)%nat ->
  length (slice_kop c kop b u) = plast kop.
Proof. intros Hr H Hb Hu. destruct (pwl_fn_some _ _ _ _ _ _ _ H) as [V [Bc ->]].
  rewrite map_length, seq_length in Hb. destruct (verify_parts _ _ _ _ V) as [_ [_ F]].
  unfold slice_kop. destruct kop as [t|t]; cbn [to3 rect_kop] in *.
  - rewrite tile1_noop in * by (right; exact F).
    pose proof (bsel_in_range [] _ b _ Bc Hb) as Hin. apply in_map_iff in Hin. destruct Hin as [r [<- Hr']].
    unfold bsel at 1. cbn [length Nat.eqb nth]. apply Hr. exact Hr'.
  - rewrite tile1_noop in * by (left; exact F).
    pose proof (bsel_in_range [] _ b _ Bc Hb) as Hin. destruct (Hr _ Hin) as [L R].
    apply R. apply (bsel_in_range [] (p_units c)). unfold bcompat. rewrite L, F, Nat.eqb_refl. apply orb_true_r. exact Hu. Qed.

Lemma num_keypoints_ge2 kip : (2 <= num_keypoints kip)%Z.
Proof. destruct kip; cbn; lia. Qed.

(* length of the derived outputs of a slice of an accepted call = number of keypoints *)
Lemma kos_length_accepted sm sg c inputs kip kop slice : softmax_ok sm ->
  verify c inputs kip kop = true -> length slice = plast kop ->
  Z.of_nat (length (kos_of sm sg c slice)) = num_keypoints kip.
Proof. intros Hsm V L. pose proof (verify_cfg_valid _ _ _ _ V) as [_ [_ [Hm [Hn [Hc Hs]]]]].
  destruct (verify_parts _ _ _ _ V) as [P [S _]]. pose proof (num_keypoints_ge2 kip) as K2.
  pose proof (split_missing_length sg c slice) as SL. rewrite L in SL.
  unfold output_param_size in *.
  assert (Hne : snd (split_missing sg c slice) <> [] \/ is_none c = false).
  { destruct (is_none c) eqn:E; [left|right; reflexivity]. destruct (Hn eq_refl) as [A B]. rewrite A, B in *.
    intros E0. rewrite E0 in SL. cbn [length] in SL.
    destruct (p_min c), (p_mout c), (p_cyc c); cbn [opt_some andb negb b2z] in *; try lia; specialize (Hs eq_refl); discriminate. }
  rewrite (kos_length sm sg Hsm c slice Hne). rewrite SL.
  destruct (is_none c) eqn:E.
  - destruct (Hn eq_refl) as [A B]. rewrite A, B in *.
    destruct (p_min c), (p_mout c), (p_cyc c); cbn [opt_some andb negb b2z] in *; try lia; specialize (Hs eq_refl); discriminate.
  - assert (Hi : is_inc c = true) by (destruct Hm; [congruence|assumption]). rewrite (Hc Hi) in *.
    destruct (p_min c), (p_mout c), (p_cmin c), (p_cmax c); cbn [opt_some andb negb b2z] in *; try lia; specialize (Hs eq_refl); discriminate. Qed.

Lemma pwl_fn_bounds sm sg c inputs kip kop out b u :
  softmax_ok sm -> sigmoid_ok sg -> rect_kop kop ->
  pwl_fn sm sg c inputs kip kop = Some out -> (b < length out)%nat -> (u < p_units c)%nat ->
  (p_mout c = None \/ not_missing c (slice_x c inputs b u)) ->
  p_omin c <= nth u (nth b out []) 0 <= p_omax c.
Proof. intros Hsm Hsg Hr H Hb Hu Hm. rewrite (pwl_fn_entry _ _ _ _ _ _ _ _ _ H Hb Hu).
  destruct (pwl_fn_some _ _ _ _ _ _ _ H) as [V _]. pose proof (verify_cfg_valid _ _ _ _ V) as [Hi [Ho _]].
  apply pwl_row_bounds; try assumption.
  pose proof (kos_length_accepted sm sg c inputs kip kop _ Hsm V (slice_kop_length _ _ _ _ _ _ _ _ _ Hr H Hb Hu)) as L.
  pose proof (num_keypoints_ge2 kip). intros E. rewrite E in L. cbn [length] in L. lia. Qed.

(* keypoint_input_parameters slices *)
Definition rect_kip (kip : option ptens) : Prop := match kip with None => True | Some t => rect_kop t end.

Lemma pwl_fn_some_kip sm sg c inputs t kop out : pwl_fn sm sg c inputs (Some t) kop = Some out ->
  bcompat (out_batch c inputs (Some t) kop) (length (tile1 (p_units c) (to3 t))) = true
  /\ bcompat (p_units c) (length (hd [] (tile1 (p_units c) (to3 t)))) = true.
Proof. unfold pwl_fn. destruct (verify c inputs (Some t) kop); cbn [negb]; [|discriminate].
  unfold out_batch. match goal with |- (if ?cond then _ else _) = _ -> _ => destruct cond eqn:E end; [|discriminate].
  intros _. repeat (apply andb_true_iff in E; destruct E as [E ?]). split; assumption. Qed.

Lemma length_concat_repeat {A} (m : list A) n : length (concat (repeat m n)) = (n * length m)%nat.
Proof. induction n as [|n IH]; cbn [repeat concat]. reflexivity. rewrite app_length, IH. lia. Qed.
Lemma tile1_spec {A} units (t3 : list (list A)) m' : In m' (tile1 units t3) ->
  exists m, In m t3 /\ (forall r, In r m' -> In r m).
Proof. unfold tile1. destruct ((length (hd [] t3) =? 1)%nat && (1 <? units)%nat).
  - intros H. apply in_map_iff in H. destruct H as [m [<- Hm]]. exists m. split; [exact Hm|].
    intros r Hr. apply in_concat in Hr. destruct Hr as [l [Hl Hr]]. apply repeat_spec in Hl. subst l. exact Hr.
  - intros H. exists m'. split; [exact H|auto]. Qed.
Lemma tile1_uniform {A} units (t3 : list (list A)) n0 : (forall m, In m t3 -> length m = n0) ->
  exists n1, forall m', In m' (tile1 units t3) -> length m' = n1.
Proof. intros H. unfold tile1. destruct ((length (hd [] t3) =? 1)%nat && (1 <? units)%nat).
  - exists (units * n0)%nat. intros m' Hm. apply in_map_iff in Hm. destruct Hm as [m [<- Hm]].
    rewrite length_concat_repeat, (H m Hm). reflexivity.
  - exists n0. exact H. Qed.
Lemma hd_In {A} (d : A) l : l <> [] -> In (hd d l) l.
Proof. destruct l; [congruence|left; reflexivity]. Qed.

Lemma slice_kip_length sm sg c inputs t kop out b u : rect_kop t ->
  pwl_fn sm sg c inputs (Some t) kop = Some out -> (b < length out)%nat -> (u < p_units c)%nat ->
  exists p, slice_kip c (Some t) b u = Some p /\ length p = plast t.
Proof. intros Hr H Hb Hu. destruct (pwl_fn_some_kip _ _ _ _ _ _ _ H) as [Bc Uc].
  destruct (pwl_fn_some _ _ _ _ _ _ _ H) as [_ [_ E]]. rewrite E, map_length, seq_length in Hb. clear E.
  unfold slice_kip. eexists. split; [reflexivity|].
  set (k3 := tile1 (p_units c) (to3 t)) in *.
  pose proof (bsel_in_range [] _ b k3 Bc Hb) as Hin.
  assert (Hu3 : exists n0, forall m, In m (to3 t) -> length m = n0).
  { destruct t as [t|t]; cbn [to3 rect_kop] in *.
    - exists 1%nat. intros m Hm. apply in_map_iff in Hm. destruct Hm as [r [<- _]]. reflexivity.
    - exists (length (hd [] t)). intros m Hm. apply (Hr m Hm). }
  destruct Hu3 as [n0 Hn0]. destruct (tile1_uniform (p_units c) (to3 t) n0 Hn0) as [n1 Hn1]. fold k3 in Hn1.
  assert (Hne : k3 <> []) by (intros E; rewrite E in Hin; destruct Hin).
  rewrite (Hn1 _ (hd_In [] k3 Hne)) in Uc. rewrite <- (Hn1 _ Hin) in Uc.
  pose proof (bsel_in_range [] _ u _ Uc Hu) as Hp.
  destruct (tile1_spec _ _ _ Hin) as [m [Hm Hrows]]. apply Hrows in Hp.
  destruct t as [t|t]; cbn [to3 rect_kop] in *.
  - apply in_map_iff in Hm. destruct Hm as [r [<- Hr']]. destruct Hp as [<-|[]]. apply Hr; exact Hr'.
  - apply (Hr m Hm). exact Hp. Qed.

Lemma pwl_fn_row_sized sm sg c inputs kip kop out b u :
  softmax_ok sm -> rect_kip kip -> rect_kop kop ->
  pwl_fn sm sg c inputs kip kop = Some out -> (b < length out)%nat -> (u < p_units c)%nat ->
  row_sized sm sg c (slice_kip c kip b u) (slice_kop c kop b u).
Proof. intros Hsm Hrk Hro H Hb Hu. unfold row_sized.
  destruct (pwl_fn_some _ _ _ _ _ _ _ H) as [V _].
  pose proof (kos_length_accepted sm sg c inputs kip kop _ Hsm V (slice_kop_length _ _ _ _ _ _ _ _ _ Hro H Hb Hu)) as L.
  rewrite (key_deltas_length sm Hsm c). destruct kip as [t|]; cbn [rect_kip] in Hrk.
  - destruct (slice_kip_length _ _ _ _ _ _ _ _ _ Hrk H Hb Hu) as [p [-> Lp]]. cbn [kip_list length num_keypoints] in *. lia.
  - cbn [slice_kip kip_list length num_keypoints] in *. lia. Qed.

(* ---- example oracles ------------------------------------------------------------ *)
(* uniform distribution: same length, strictly positive, sums to 1 *)
Definition ex_softmax (l : list Q) : list Q := map (fun _ => / inject_Z (Z.of_nat (length l))) l.
Lemma qsum_const (cst : Q) (l : list Q) : qsum (map (fun _ => cst) l) == inject_Z (Z.of_nat (length l)) * cst.
Proof. induction l as [|a l IH]; cbn [map qsum length]. change (inject_Z (Z.of_nat 0)) with 0. lra.
  rewrite IH, Nat2Z.inj_succ. unfold Z.succ. rewrite inject_Z_plus. change (inject_Z 1) with 1. lra. Qed.
Lemma ex_softmax_ok : softmax_ok ex_softmax /\ softmax_pos ex_softmax.
Proof. assert (P : forall l v, In v (ex_softmax l) -> 0 < v).
  { intros l v Hv. unfold ex_softmax in Hv. apply in_map_iff in Hv. destruct Hv as [a [<- Ha]].
    apply Qinv_lt_0_compat. change 0 with (inject_Z 0). rewrite <- Zlt_Qlt. destruct l; [destruct Ha|cbn [length]; lia]. }
  split; [|exact P]. intros l. split; [apply map_length|]. split.
  - intros v Hv. apply Qlt_le_weak, (P l v Hv).
  - intros Hne. unfold ex_softmax. rewrite qsum_const. apply Qmult_inv_r.
    intros E. assert (0 < inject_Z (Z.of_nat (length l))).
    { change 0 with (inject_Z 0). rewrite <- Zlt_Qlt. destruct l; [congruence|cbn [length]; lia]. } lra. Qed.

(* ---- statements in the form used by Props/C15.v ---------------------------------- *)
Lemma T_pwl_bounds : forall sm sg c kip kop x,
  softmax_ok sm -> sigmoid_ok sg -> p_imin c <= p_imax c -> p_omin c <= p_omax c ->
  kos_of sm sg c kop <> [] -> (p_mout c = None \/ not_missing c x) ->
  p_omin c <= pwl_row sm sg c kip kop x <= p_omax c.
Proof. intros. apply pwl_row_bounds; assumption. Qed.
Lemma T_pwl_monotone : forall sm sg c kip kop x y,
  softmax_ok sm -> sigmoid_ok sg -> p_imin c <= p_imax c -> p_omin c <= p_omax c ->
  is_none c = false -> not_missing c x -> not_missing c y -> x <= y ->
  pwl_row sm sg c kip kop x <= pwl_row sm sg c kip kop y.
Proof. intros. apply pwl_row_monotone; assumption. Qed.
Lemma T_pwl_clamps_params : forall sm sg c kop,
  softmax_ok sm -> sigmoid_ok sg -> p_omin c <= p_omax c -> is_none c = false -> kos_of sm sg c kop <> [] ->
  (p_cmin c = true -> hd 0 (kos_of sm sg c kop) == p_omin c) /\
  (p_cmax c = true -> qsum (kos_of sm sg c kop) == p_omax c).
Proof. intros sm sg c kop Hsm Hsg Ho Hi Hne. split; intros Hc.
  apply kos_clamp_min; assumption. apply kos_clamp_max; assumption. Qed.
Lemma T_pwl_clamps : forall sm sg c kip kop x,
  softmax_ok sm -> sigmoid_ok sg -> p_imin c <= p_imax c -> p_omin c <= p_omax c ->
  is_none c = false -> row_sized sm sg c kip kop -> not_missing c x ->
  (p_cmin c = true -> x <= p_imin c -> pwl_row sm sg c kip kop x == p_omin c) /\
  (p_cmax c = true -> right_of sm c x -> pwl_row sm sg c kip kop x == p_omax c).
Proof. intros sm sg c kip kop x Hsm Hsg Hi Ho Hn Hs Hm. split; intros Hc Hx.
  apply pwl_row_clamp_min; assumption. apply pwl_row_clamp_max; assumption. Qed.
Lemma T_pwl_cyclic : forall sm sg c kip kop x y,
  softmax_ok sm -> sigmoid_ok sg -> p_imin c <= p_imax c -> p_omin c <= p_omax c ->
  is_none c = true -> p_cyc c = true ->
  qsum (kos_of sm sg c kop) == hd 0 (kos_of sm sg c kop) /\
  (row_sized sm sg c kip kop -> not_missing c x -> not_missing c y -> x <= p_imin c -> right_of sm c y ->
   pwl_row sm sg c kip kop x == pwl_row sm sg c kip kop y).
Proof. intros sm sg c kip kop x y Hsm Hsg Hi Ho Hn Hc. split.
  apply kos_cyclic; assumption. intros. apply pwl_row_cyclic; assumption. Qed.
Lemma T_param_forms_refuted : exists c inputs kip kop,
  cfg_valid c /\ p_units c = 2%nat /\ kop = P3 [[[0; 0]]] /\ kip = None
  /\ Z.of_nat (plast kop) = doc_output_size c (num_keypoints kip)
  /\ verify c inputs kip kop = false.
Proof. exists (mkP 0 1 0 1 2 MonoNone false false false None None), [[0]], None, (P3 [[[0; 0]]]).
  split. { unfold cfg_valid; cbn. repeat split; try lra; auto; discriminate. }
  repeat split; reflexivity. Qed.
Lemma T_ex_call :
  let c := mkP 0 1 0 1 1 MonoInc true true false None None in
  cfg_valid c /\ verify c [[1 # 2]] (Some (P2 [[0]])) (P2 [[0]]) = true /\
  row_sized ex_softmax (fun _ => 1 # 2) c (Some [0]) [0] /\
  pwl_fn ex_softmax (fun _ => 1 # 2) c [[1 # 2]; [1]; [-1 # 1]] (Some (P2 [[0]])) (P2 [[0]])
    = Some [[4 # 8]; [8 # 8]; [0 # 4]].
Proof. cbv zeta. split; [|split; [|split]]; try (vm_compute; reflexivity).
  unfold cfg_valid; cbn; repeat split; try lra; auto; discriminate. Qed.
