(* Lemmas about the KroneckerFactoredLattice initialisers (Model/KFLInit.v), for C10. *)
From TFL Require Export Model.KFLInit.
Open Scope Q_scope.

(* ---- tf.sort ---- *)
Fixpoint qsorted (l : list Q) : Prop :=
  match l with x :: ((y :: _) as r) => x <= y /\ qsorted r | _ => True end.
Lemma qinsert_in x l z : In z (qinsert x l) <-> z = x \/ In z l.
Proof. induction l as [|y l IH]; cbn [qinsert]. cbn. intuition congruence.
  destruct (Qle_bool x y); cbn [In]. intuition congruence. rewrite IH. intuition congruence. Qed.
Lemma qinsert_length x l : length (qinsert x l) = S (length l).
Proof. induction l as [|y l IH]; cbn [qinsert]. reflexivity. destruct (Qle_bool x y); cbn [length]; auto. Qed.
Lemma qinsert_sorted x l : qsorted l -> qsorted (qinsert x l).
Proof. induction l as [|y l IH]; intros H; cbn [qinsert]. exact I.
  destruct (Qle_bool x y) eqn:E.
  - apply Qle_bool_iff in E. split; assumption.
  - assert (Hyx : y <= x) by (apply Qlt_le_weak, (qle_false x y); exact E).
    destruct l as [|z r]. cbn. split; [exact Hyx|exact I].
    destruct H as [Hyz Hs]. specialize (IH Hs). cbn [qinsert] in *.
    destruct (Qle_bool x z) eqn:E2; cbn [qsorted]; (split; [|exact IH]).
    exact Hyx. exact Hyz. Qed.
Lemma qsort_in l z : In z (qsort l) <-> In z l.
Proof. induction l as [|x l IH]; cbn [qsort fold_right]. tauto.
  change (fold_right qinsert [] l) with (qsort l). rewrite qinsert_in, IH. cbn. intuition. Qed.
Lemma qsort_length l : length (qsort l) = length l.
Proof. induction l as [|x l IH]; cbn [qsort fold_right]. reflexivity.
  change (fold_right qinsert [] l) with (qsort l). rewrite qinsert_length, IH. reflexivity. Qed.
Lemma qsort_sorted l : qsorted (qsort l).
Proof. induction l as [|x l IH]; cbn [qsort fold_right]. exact I. apply qinsert_sorted. exact IH. Qed.
Lemma qsorted_nth l : qsorted l -> forall i, (S i < length l)%nat -> nth i l 0 <= nth (S i) l 0.
Proof. induction l as [|x l IH]; intros H i Hi. cbn in Hi; lia.
  destruct l as [|y r]. cbn in Hi; lia. destruct H as [Hxy Hs].
  destruct i. exact Hxy. apply (IH Hs i). cbn [length] in *. lia. Qed.

(* ---- tf.sign ---- *)
Lemma qsign_cases x : (0 < x /\ qsign x = 1) \/ (x < 0 /\ qsign x = -1) \/ (x == 0 /\ qsign x = 0).
Proof. unfold qsign. destruct (qlt 0 x) eqn:E1. left. split. apply qlt_true; exact E1. reflexivity.
  apply qlt_false in E1. destruct (qlt x 0) eqn:E2. right; left. split. apply qlt_true; exact E2. reflexivity.
  apply qlt_false in E2. right; right. split; [lra|reflexivity]. Qed.
Lemma qsign_sq x : ~ x == 0 -> qsign x * qsign x == 1.
Proof. intros H. destruct (qsign_cases x) as [[_ ->]|[[_ ->]|[E _]]]; lra. Qed.

Lemma nth_map_lt' {A B} (f : A -> B) l i d d' : (i < length l)%nat -> nth i (map f l) d = f (nth i l d').
Proof. revert i; induction l as [|x l IH]; intros [|i] H; cbn in *; try lia; auto. apply IH; lia. Qed.

(* ---- one kernel column ---- *)
Section Col.
Variables (any_mono mono : bool) (scale : Q) (samples : list Q) (lo hi : Q).
Hypothesis Hscale : ~ scale == 0.
Hypothesis Hrange : forall s, In s samples -> lo <= s /\ s <= hi.
Let c := kfl_init_col any_mono mono scale samples.
Let dir := qsign scale.

Lemma kfl_col_length : length c = length samples.
Proof. unfold c, kfl_init_col. destruct any_mono; [|reflexivity]. destruct mono; rewrite !map_length, ?qsort_length, ?map_length; reflexivity. Qed.

(* every entry is (Qeq to) one of the samples *)
Lemma kfl_col_entries x : In x c -> exists s, In s samples /\ x == s.
Proof. unfold c, kfl_init_col. destruct any_mono; [|intros H; exists x; split; [exact H|reflexivity]].
  intros H. apply in_map_iff in H. destruct H as [y [<- Hy]].
  assert (Hy' : In y (map (fun x => qsign scale * x) samples)) by (destruct mono; [rewrite qsort_in in Hy|]; exact Hy).
  apply in_map_iff in Hy'. destruct Hy' as [s [<- Hs]]. exists s. split. exact Hs.
  rewrite Qred_correct. pose proof (qsign_sq scale Hscale). 
  transitivity ((qsign scale * qsign scale) * s). ring. rewrite H. ring. Qed.
Lemma kfl_col_in_range x : In x c -> lo <= x /\ x <= hi.
Proof. intros H. destruct (kfl_col_entries x H) as [s [Hs E]]. rewrite E. apply Hrange. exact Hs. Qed.

(* monotone dimensions: sorted in the direction of sign(scale) *)
Lemma kfl_col_sorted i : any_mono = true -> mono = true -> (S i < length c)%nat ->
  dir * nth i c 0 <= dir * nth (S i) c 0.
Proof. intros Ha Hm Hi. pose proof kfl_col_length as HL. unfold c, kfl_init_col in *. rewrite Ha, Hm in *.
  set (w := qsort (map (fun x => qsign scale * x) samples)) in *.
  assert (Hw : length w = length samples) by (unfold w; rewrite qsort_length, map_length; reflexivity).
  rewrite (nth_map_lt' _ w i 0 0) by lia. rewrite (nth_map_lt' _ w (S i) 0 0) by lia.
  rewrite !Qred_correct. fold dir.
  pose proof (qsign_sq scale Hscale) as Hs. fold dir in Hs.
  pose proof (qsorted_nth w (qsort_sorted _) i ltac:(lia)) as Hle.
  setoid_replace (dir * (dir * nth i w 0)) with ((dir * dir) * nth i w 0) by ring.
  setoid_replace (dir * (dir * nth (S i) w 0)) with ((dir * dir) * nth (S i) w 0) by ring.
  rewrite Hs. lra. Qed.
End Col.

(* ---- products and the unit output ---- *)
Lemma qprod_nonneg l : (forall x, In x l -> 0 <= x) -> 0 <= qprod l.
Proof. induction l as [|x l IH]; intros H; cbn [qprod fold_right]. lra.
  apply qmul_nonneg. apply H; left; reflexivity. apply IH. intros; apply H; right; assumption. Qed.
Lemma qprod_le1 l : (forall x, In x l -> 0 <= x /\ x <= 1) -> 0 <= qprod l /\ qprod l <= 1.
Proof. induction l as [|x l IH]; intros H; cbn [qprod fold_right]. lra.
  destruct (H x (or_introl eq_refl)) as [H0 H1]. destruct (IH (fun z Hz => H z (or_intror Hz))) as [I0 I1].
  change (fold_right Qmult 1 l) with (qprod l). split. apply qmul_nonneg; assumption.
  pose proof (qmul_le_l x (qprod l) 1 H0 I1). lra. Qed.
Lemma qprod_set_nth d v : forall l, (d < length l)%nat ->
  qprod (set_nth d v l) == v * (qprod (firstn d l) * qprod (skipn (S d) l)) /\
  qprod l == nth d l 0 * (qprod (firstn d l) * qprod (skipn (S d) l)).
Proof. induction d as [|d IH]; intros [|x l] H; cbn [length] in H; try lia.
  - cbn. split; ring.
  - destruct (IH l ltac:(lia)) as [E1 E2]. change (skipn (S (S d)) (x :: l)) with (skipn (S d) l).
    cbn [set_nth firstn nth qprod fold_right]. change (fold_right Qmult 1) with qprod. rewrite E1. split. ring. rewrite E2 at 1. ring. Qed.

Lemma in_firstn' {A} n : forall (l : list A) x, In x (firstn n l) -> In x l.
Proof. induction n as [|n IH]; intros [|y l] x H; cbn in *; try tauto. destruct H; auto. Qed.
Lemma in_skipn' {A} n : forall (l : list A) x, In x (skipn n l) -> In x l.
Proof. induction n as [|n IH]; intros [|y l] x H; cbn in *; try tauto. right. apply IH. exact H. Qed.

(* moving one dimension's interpolated value in the direction of sign(scale)
   moves the term's contribution up *)
Lemma kfl_term_mono s vs d v' : (forall x, In x vs -> 0 <= x) -> (d < length vs)%nat ->
  qsign s * nth d vs 0 <= qsign s * v' -> s * qprod vs <= s * qprod (set_nth d v' vs).
Proof. intros Hpos Hd Hdir. destruct (qprod_set_nth d v' vs Hd) as [E1 E2]. rewrite E1, E2.
  set (o := qprod (firstn d vs) * qprod (skipn (S d) vs)).
  assert (Ho : 0 <= o).
  { apply qmul_nonneg; apply qprod_nonneg; intros x Hx; apply Hpos.
    apply (in_firstn' d vs); exact Hx. apply (in_skipn' (S d) vs); exact Hx. }
  assert (Hs : 0 <= s * (v' - nth d vs 0)).
  { destruct (qsign_cases s) as [[H1 E]|[[H1 E]|[H1 E]]]; rewrite E in Hdir.
    - apply qmul_nonneg; lra.
    - setoid_replace (s * (v' - nth d vs 0)) with ((- s) * (nth d vs 0 - v')) by ring. apply qmul_nonneg; lra.
    - rewrite H1. lra. }
  pose proof (qmul_nonneg _ _ Hs Ho). 
  setoid_replace (s * (v' * o)) with (s * (nth d vs 0 * o) + s * (v' - nth d vs 0) * o) by ring. lra. Qed.

Lemma qsum_map2_le {A B} (f g : A -> B -> Q) : forall a b,
  (forall x y, In x a -> In y b -> f x y <= g x y) -> qsum (map2 f a b) <= qsum (map2 g a b).
Proof. induction a as [|x a IH]; intros [|y b] H; cbn [map2 qsum]; try lra.
  pose proof (H x y (or_introl eq_refl) (or_introl eq_refl)).
  assert (qsum (map2 f a b) <= qsum (map2 g a b)) by (apply IH; intros; apply H; right; assumption). lra. Qed.

Lemma qcount_pos {A} (l : list A) : l <> [] -> 0 < inject_Z (Z.of_nat (length l)).
Proof. destruct l; [congruence|]. intros _. cbn [length]. rewrite Nat2Z.inj_succ. unfold Z.succ. rewrite inject_Z_plus.
  assert (0 <= inject_Z (Z.of_nat (length l))) by (unfold Qle; cbn; lia). change (inject_Z 1) with 1. lra. Qed.

(* the unit output is monotone when every term's contribution is *)
Lemma kfl_out_mono scales bias (tv tv' : list (list Q)) :
  qsum (map2 (fun s vs => s * qprod vs) scales tv) <= qsum (map2 (fun s vs => s * qprod vs) scales tv') ->
  kfl_unit_out scales bias tv <= kfl_unit_out scales bias tv'.
Proof. intros H. unfold kfl_unit_out. destruct scales as [|s0 sc].
  - cbn. lra.
  - pose proof (qcount_pos (s0 :: sc) ltac:(congruence)) as Hn.
    set (n := inject_Z (Z.of_nat (length (s0 :: sc)))) in *.
    assert (qsum (map2 (fun s vs => s * qprod vs) (s0 :: sc) tv) / n <= qsum (map2 (fun s vs => s * qprod vs) (s0 :: sc) tv') / n).
    { apply Qle_shift_div_l. exact Hn. unfold Qdiv. rewrite <- Qmult_assoc, (Qmult_comm (/ n)), Qmult_inv_r by lra. lra. }
    lra. Qed.

(* bounds *)
Lemma mean_bounds (l : list Q) lo hi : l <> [] -> (forall x, In x l -> lo <= x /\ x <= hi) ->
  lo <= qsum l / inject_Z (Z.of_nat (length l)) /\ qsum l / inject_Z (Z.of_nat (length l)) <= hi.
Proof. intros Hne H. pose proof (qcount_pos l Hne) as Hn.
  assert (Hs : inject_Z (Z.of_nat (length l)) * lo <= qsum l /\ qsum l <= inject_Z (Z.of_nat (length l)) * hi).
  { clear Hne Hn. induction l as [|x l IH]. cbn [length qsum]. change (inject_Z (Z.of_nat 0)) with 0. lra.
    cbn [length qsum]. rewrite Nat2Z.inj_succ. unfold Z.succ. rewrite inject_Z_plus. change (inject_Z 1) with 1.
    destruct (H x (or_introl eq_refl)). destruct (IH (fun z Hz => H z (or_intror Hz))). lra. }
  split. apply Qle_shift_div_l. exact Hn. lra. apply Qle_shift_div_r. exact Hn. lra. Qed.

Lemma in_map2 {A B C} (f : A -> B -> C) : forall a b z, In z (map2 f a b) -> exists x y, In x a /\ In y b /\ z = f x y.
Proof. induction a as [|x a IH]; intros [|y b] z H; cbn [map2] in H; try (destruct H; fail).
  destruct H as [<-|H].
  - exists x, y. cbn. auto.
  - destruct (IH b z H) as [x' [y' [H1 [H2 H3]]]]. exists x', y'. cbn. auto. Qed.

(* scale / bias initialisers *)
Lemma kfl_scale_row units terms omin omax row : In row (kfl_scale_init units terms omin omax) ->
  length row = terms /\
  forall s, In s row ->
    match omin, omax with
    | Some a, Some b => s == (b - a) * (1#2) \/ s == - ((b - a) * (1#2))
    | Some _, None => s = 1
    | None, Some _ => s = -1
    | None, None => s = 1 \/ s = -1
    end.
Proof. unfold kfl_scale_init. intros H. apply repeat_spec in H. subst row.
  destruct omin as [a|], omax as [b|]; rewrite ?map_length, ?seq_length, ?repeat_length; (split; [reflexivity|]); intros s Hs.
  - apply in_map_iff in Hs. destruct Hs as [t [<- _]]. rewrite Qred_correct. unfold kfl_term_sign. destruct (Nat.even t); [left|right]; ring.
  - apply repeat_spec in Hs. exact Hs.
  - apply repeat_spec in Hs. exact Hs.
  - apply in_map_iff in Hs. destruct Hs as [t [<- _]]. unfold kfl_term_sign. destruct (Nat.even t); auto. Qed.
Lemma kfl_bias_entry units omin omax b0 : In b0 (kfl_bias_init units omin omax) ->
  b0 == match omin, omax with
        | Some a, Some b => (a + b) * (1#2) | Some a, None => a | None, Some b => b | None, None => 0 end.
Proof. unfold kfl_bias_init. intros H. apply repeat_spec in H. subst b0.
  destruct omin, omax; rewrite ?Qred_correct; reflexivity. Qed.

(* the function of the fresh layer stays inside the output bounds: kernel
   values (hence their interpolations) lie in [0,1] when a bound is set *)
Lemma kfl_out_bounded units terms omin omax scales bias (tv : list (list Q)) :
  (1 <= terms)%nat -> In scales (kfl_scale_init units terms omin omax) -> In bias (kfl_bias_init units omin omax) ->
  length tv = terms -> (forall vs x, In vs tv -> In x vs -> 0 <= x /\ x <= 1) ->
  (forall a b, omin = Some a -> omax = Some b -> a <= b) ->
  (forall a, omin = Some a -> a <= kfl_unit_out scales bias tv) /\
  (forall b, omax = Some b -> kfl_unit_out scales bias tv <= b).
Proof. intros Ht Hsc Hbi Hl Hv Hab.
  destruct (kfl_scale_row _ _ _ _ _ Hsc) as [Hlen Hrow]. pose proof (kfl_bias_entry _ _ _ _ Hbi) as Hb0.
  unfold kfl_unit_out.
  set (l := map2 (fun s vs => s * qprod vs) scales tv).
  assert (Hll : length l = length scales) by (unfold l; rewrite map2_length; lia).
  assert (Hne : l <> []) by (intros E; rewrite E in Hll; cbn in Hll; lia).
  rewrite <- Hll.
  assert (Hp : forall z, In z l -> exists s p, In s scales /\ 0 <= p /\ p <= 1 /\ z = s * p).
  { intros z Hz. destruct (in_map2 _ _ _ _ Hz) as [s [vs [H1 [H2 ->]]]]. exists s, (qprod vs).
    destruct (qprod_le1 vs (fun x Hx => Hv vs x H2 Hx)). auto. }
  destruct omin as [a|], omax as [b|].
  - specialize (Hab a b eq_refl eq_refl).
    destruct (mean_bounds l (- ((b - a) * (1#2))) ((b - a) * (1#2)) Hne) as [M1 M2].
    { intros z Hz. destruct (Hp z Hz) as [s [p [Hs [P0 [P1 ->]]]]].
      pose proof (qmul_nonneg ((b - a) * (1#2)) p ltac:(lra) P0).
      pose proof (qmul_le_l ((b - a) * (1#2)) p 1 ltac:(lra) P1).
      destruct (Hrow s Hs) as [E|E]; rewrite E; lra. }
    split; intros x Hx; inversion Hx; subst; lra.
  - destruct (mean_bounds l 0 1 Hne) as [M1 M2].
    { intros z Hz. destruct (Hp z Hz) as [s [p [Hs [P0 [P1 ->]]]]]. rewrite (Hrow s Hs). lra. }
    split; intros x Hx; inversion Hx; subst; lra.
  - destruct (mean_bounds l (-1) 0 Hne) as [M1 M2].
    { intros z Hz. destruct (Hp z Hz) as [s [p [Hs [P0 [P1 ->]]]]]. rewrite (Hrow s Hs). lra. }
    split; intros x Hx; inversion Hx; subst; lra.
  - split; intros x Hx; discriminate. Qed.

(* ---- the hypotheses are satisfiable; concrete values ---- *)
Example kfl_col_ex : kfl_init_col true true (-2) [1#2; 3#2; 1] = [3#2; 1; 1#2].
Proof. vm_compute. reflexivity. Qed.
Example kfl_col_free_dim_ex : kfl_init_col true false (-2) [1#2; 3#2; 1] = [1#2; 3#2; 1].
Proof. vm_compute. reflexivity. Qed.
Example kfl_scale_bias_ex :
  kfl_scale_init 2 3 (Some (-1)) (Some 3) = [[2; -2; 2]; [2; -2; 2]] /\ kfl_bias_init 2 (Some (-1)) (Some 3) = [1; 1] /\
  kfl_scale_init 1 2 None (Some 3) = [[-1; -1]] /\ kfl_scale_init 1 2 None None = [[1; -1]].
Proof. vm_compute. repeat split; reflexivity. Qed.
Example kfl_out_bounded_ex :
  let scales := [2; -2] in let tv := [[1#2; 1]; [1; 1#4]] in
  In scales (kfl_scale_init 1 2 (Some (-1)) (Some 3)) /\ In 1 (kfl_bias_init 1 (Some (-1)) (Some 3)) /\
  (forall vs x, In vs tv -> In x vs -> 0 <= x /\ x <= 1) /\ kfl_unit_out scales 1 tv == 5#4.
Proof. cbv zeta. split; [|split; [|split]].
  - vm_compute. left. reflexivity.
  - vm_compute. left. reflexivity.
  - intros vs x Hvs Hx. cbn in Hvs. destruct Hvs as [<-|[<-|[]]]; cbn in Hx; repeat (destruct Hx as [<-|Hx]; [lra|]); destruct Hx.
  - vm_compute. reflexivity. Qed.
