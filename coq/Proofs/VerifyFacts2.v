(* Facts about the second part of Model/Verify.v (property C16): the decision
   functions accepts_rtl, accepts_cdf, accepts_lattice_regularizer,
   accepts_pwl_regularizer, accepts_verify_config.
   1. "accepted => user-level condition" records and one rejection lemma per
      conjunct;
   2. "as is" witnesses (what the code lets through: findings D48 / D49 / D50
      and the negative num_lattices x lattice_rank product);
   3. bridges: an accepted RTL configuration has an RTL structure
      (Model/RTLStructure.v, premise of the C17 theorems) and its sub-lattices
      pass accepts_lattice / accepts_kfl; an accepted CDF has consistent
      reshape arithmetic.
   Property theorems are restated in Props/C16.v. *)
From Coq Require Import ZArith QArith List Bool Lia Lqa.
From TFL Require Import Model.Verify Proofs.VerifyFacts.
From TFL Require Model.RTLStructure Proofs.RTLStructure.
Import ListNotations.
Open Scope Z_scope.

Lemma all_id_spec (l : list bool) : all_b (fun b => b) l = true <-> forall b, In b l -> b = true.
Proof. apply all_b_spec. Qed.

Lemma bounds_strict_spec lo hi : bounds_strict_ok lo hi = true <->
  forall a b, lo = Some a -> hi = Some b -> (a < b)%Q.
Proof.
  unfold bounds_strict_ok. destruct lo as [a|], hi as [b|]; split; intros H; try reflexivity; try (intros ? ? E1 E2; discriminate).
  - intros a' b' E1 E2. injection E1 as <-. injection E2 as <-. apply qlt_b_spec, H.
  - apply qlt_b_spec, H; reflexivity.
Qed.

(* ------------------------------------------------------------------------- *)
(* 1. Regularisation amounts, regulariser objects                              *)
(* ------------------------------------------------------------------------- *)
Lemma amt_len_ok_spec rank a : amt_len_ok rank a = true <-> forall n, a = AmtSeq n -> n = 0 \/ n = rank.
Proof.
  destruct a; cbn; split; intros H; try reflexivity; try (intros ? E; discriminate).
  - intros m E. injection E as <-. apply orb_true_iff in H. rewrite !Z.eqb_eq in H. exact H.
  - apply orb_true_iff. rewrite !Z.eqb_eq. apply H. reflexivity.
Qed.

Record latreg_accepted (c : latreg_cfg) : Prop := {
  lg_sizes : forall s, In s (g_sizes c) -> 2 <= s;
  lg_l1 : forall n, g_l1 c = AmtSeq n -> n = 0 \/ n = zlen (g_sizes c);
  lg_l2 : forall n, g_l2 c = AmtSeq n -> n = 0 \/ n = zlen (g_sizes c) }.

Lemma accepts_lattice_regularizer_sound c : accepts_lattice_regularizer c = true -> latreg_accepted c.
Proof.
  unfold accepts_lattice_regularizer. rewrite !andb_true_iff. intros [[H1 H2] H3]. split.
  - intros s Hs. unfold sizes_ok in H1. rewrite all_b_spec in H1. apply Z.leb_le, H1, Hs.
  - apply amt_len_ok_spec, H2.
  - apply amt_len_ok_spec, H3.
Qed.
Lemma accepts_lattice_regularizer_complete c : latreg_accepted c -> accepts_lattice_regularizer c = true.
Proof.
  intros [H1 H2 H3]. unfold accepts_lattice_regularizer. rewrite !andb_true_iff. repeat split.
  - unfold sizes_ok. apply all_b_spec. intros s Hs. apply Z.leb_le, H1, Hs.
  - apply amt_len_ok_spec, H2.
  - apply amt_len_ok_spec, H3.
Qed.

Lemma reject_latreg_size c s : In s (g_sizes c) -> s < 2 -> accepts_lattice_regularizer c = false.
Proof. intros Hin Hs. reject_with accepts_lattice_regularizer_sound. pose proof (lg_sizes c Hacc s Hin). lia. Qed.
Lemma reject_latreg_l1_length c n :
  g_l1 c = AmtSeq n -> n <> 0 -> n <> zlen (g_sizes c) -> accepts_lattice_regularizer c = false.
Proof. intros E H0 H. reject_with accepts_lattice_regularizer_sound. destruct (lg_l1 c Hacc n E); contradiction. Qed.
Lemma reject_latreg_l2_length c n :
  g_l2 c = AmtSeq n -> n <> 0 -> n <> zlen (g_sizes c) -> accepts_lattice_regularizer c = false.
Proof. intros E H0 H. reject_with accepts_lattice_regularizer_sound. destruct (lg_l2 c Hacc n E); contradiction. Qed.
(* as is: an empty per-dimension list is falsy and is not compared with the rank *)
Lemma latreg_empty_list_accepted : exists c, g_l1 c = AmtSeq 0 /\ zlen (g_sizes c) <> 0 /\ accepts_lattice_regularizer c = true.
Proof. exists (mkLRg [2; 3] (AmtSeq 0) AmtFloat). split; [reflexivity|split; [discriminate|reflexivity]]. Qed.
Example latreg_example : accepts_lattice_regularizer (mkLRg [2; 3] (AmtSeq 2) AmtFloat) = true /\
                         accepts_lattice_regularizer (mkLRg [2; 3] (AmtSeq 3) AmtFloat) = false.
Proof. split; reflexivity. Qed.

Lemma pwl_regularizer_always_accepted l1 l2 cyc : accepts_pwl_regularizer l1 l2 cyc = true.
Proof. reflexivity. Qed.

(* ------------------------------------------------------------------------- *)
(* 2. RTL                                                                      *)
(* ------------------------------------------------------------------------- *)
Definition init_ranged (i : init_id) : Prop := i = InitLinearExact \/ i = InitLatticeRanged.

Record reg_entry_lattice_ok (rank : Z) (e : reg_entry) : Prop := {
  rl_len : re_len e = 3;
  rl_name : re_name_known e = true;
  rl_l1 : forall n, re_l1 e = AmtSeq n -> n = 0 \/ n = rank;
  rl_l2 : forall n, re_l2 e = AmtSeq n -> n = 0 \/ n = rank }.

Lemma lattice_reg_ok_spec rank e : lattice_reg_ok rank e = true <-> reg_entry_lattice_ok rank e.
Proof.
  unfold lattice_reg_ok. rewrite !andb_true_iff, Z.eqb_eq, !amt_len_ok_spec. split.
  - intros [[[H1 H2] H3] H4]. split; assumption.
  - intros [H1 H2 H3 H4]. auto.
Qed.

Lemma amt_is_float_spec a : amt_is_float a = true <-> a = AmtFloat.
Proof. destruct a; cbn; split; intros H; try reflexivity; discriminate. Qed.

Lemma rtl_lib_reg_ok_spec e : rtl_lib_reg_ok e = true <-> re_len e = 3 /\ re_l1 e = AmtFloat /\ re_l2 e = AmtFloat.
Proof. unfold rtl_lib_reg_ok. rewrite !andb_true_iff, Z.eqb_eq, !amt_is_float_spec. tauto. Qed.

(* what the checks of RTL.build on the groups of lattices say (there is a group
   iff num_lattices >= 1) *)
Record rtl_sublayers_accepted (c : rtl_cfg) : Prop := {
  rs_param : t_param c <> ParamOther;
  rs_init_pair : t_init_min c = None <-> t_init_max c = None;
  rs_init_known : t_init c <> InitUnknown;
  rs_init_matches :
    (t_param c = ParamAll -> t_init c <> InitKfl) /\
    (t_param c = ParamKfl -> t_init c = InitKfl \/ t_init c = InitKeras);
  rs_init_range : t_param c = ParamAll -> init_ranged (t_init c) ->
                  (fst (rtl_init_range c) < snd (rtl_init_range c))%Q;
  rs_regs : t_param c = ParamAll -> forall e, In e (regs_entries (t_regs c)) -> reg_entry_lattice_ok (t_rank c) e;
  rs_terms : t_param c = ParamKfl -> t_terms c = 0 \/ 1 <= t_terms c }.

Lemma init_pair_ok_spec c : init_pair_ok c = true <-> (t_init_min c = None <-> t_init_max c = None).
Proof.
  unfold init_pair_ok. destruct (t_init_min c), (t_init_max c); split; intros H; try reflexivity;
    try discriminate; try (split; intros; reflexivity); try (split; discriminate).
  - destruct H as [_ H]. specialize (H eq_refl). discriminate.
  - destruct H as [H _]. specialize (H eq_refl). discriminate.
Qed.

Lemma rtl_sublayers_ok_sound c : rtl_sublayers_ok c = true -> rtl_sublayers_accepted c.
Proof.
  unfold rtl_sublayers_ok, rtl_initializer_ok. intros H.
  destruct (t_param c) eqn:Ep.
  - (* all_vertices *)
    rewrite !andb_true_iff in H. destruct H as [[Hp Hi] Hr]. apply init_pair_ok_spec in Hp.
    split.
    + congruence.
    + exact Hp.
    + intros E. rewrite E in Hi. discriminate.
    + split; [intros _ E; rewrite E in Hi; discriminate|congruence].
    + intros _ Hrg. destruct (rtl_init_range c) as [a b] eqn:Er. cbn [fst snd].
      destruct Hrg as [E|E]; rewrite E in Hi; apply qlt_b_spec, Hi.
    + intros _ e He. rewrite all_b_spec in Hr. apply lattice_reg_ok_spec, Hr, He.
    + congruence.
  - (* kronecker_factored *)
    rewrite !andb_true_iff in H. destruct H as [[Hp Hi] Ht]. apply init_pair_ok_spec in Hp.
    split.
    + congruence.
    + exact Hp.
    + intros E. rewrite E in Hi. discriminate.
    + split; [congruence|]. intros _. destruct (t_init c); try discriminate; auto.
    + congruence.
    + congruence.
    + intros _. apply orb_true_iff in Ht. rewrite Z.eqb_eq, Z.leb_le in Ht. exact Ht.
  - discriminate.
Qed.

Record rtl_accepted (c : rtl_cfg) : Prop := {
  ra_size : 2 <= t_size c;
  ra_bounds : forall lo hi, t_omin c = Some lo -> t_omax c = Some hi -> (lo < hi)%Q;
  ra_interp : t_interp_ok c = true;
  ra_kfl_not_linear : t_param c = ParamKfl -> t_init c <> InitLinearExact;
  ra_kfl_no_regs : t_param c = ParamKfl -> t_regs c = RegNone;
  ra_list_regs : forall es e, t_regs c = RegList es -> In e es ->
                 re_len e = 3 /\ re_l1 e = AmtFloat /\ re_l2 e = AmtFloat;
  ra_keys : t_keys_ok c = true;
  ra_regs_nonempty : t_regs c <> RegList [];
  ra_enough : 0 < rtl_n_inputs c <= t_num c * t_rank c;
  ra_sublayers : 1 <= t_num c -> rtl_sublayers_accepted c }.

Lemma accepts_rtl_sound c : accepts_rtl c = true -> rtl_accepted c.
Proof.
  unfold accepts_rtl, rtl_construct_ok, rtl_build_ok. rewrite !andb_true_iff, !negb_true_iff.
  intros [[[[[[C1 C2] C3] C4] C5] C6] [[[[B1 B2] B3] B4] B5]].
  split.
  - apply Z.leb_le, C1.
  - apply bounds_strict_spec, C2.
  - exact C3.
  - intros Ep Ei. rewrite Ep, Ei in C4. discriminate.
  - intros Ep. rewrite Ep in C5. destruct (t_regs c); [reflexivity|discriminate|discriminate|discriminate].
  - intros es e Er Hin. rewrite Er in C6. cbn in C6. rewrite all_b_spec in C6. apply rtl_lib_reg_ok_spec, C6, Hin.
  - exact B1.
  - intros E. rewrite E in B2. discriminate.
  - apply Z.leb_le in B3. apply Z.ltb_lt in B4. lia.
  - intros Hn. apply orb_true_iff in B5. destruct B5 as [B5|B5]; [apply Z.ltb_lt in B5; lia|].
    apply rtl_sublayers_ok_sound, B5.
Qed.

Lemma reject_rtl_size c : t_size c < 2 -> accepts_rtl c = false.
Proof. intros H. reject_with accepts_rtl_sound. pose proof (ra_size c Hacc). lia. Qed.
Lemma reject_rtl_output_min_ge_max c lo hi :
  t_omin c = Some lo -> t_omax c = Some hi -> (hi <= lo)%Q -> accepts_rtl c = false.
Proof. intros E1 E2 H. reject_with accepts_rtl_sound. pose proof (ra_bounds c Hacc lo hi E1 E2). lra. Qed.
Lemma reject_rtl_interpolation c : t_interp_ok c = false -> accepts_rtl c = false.
Proof. intros H. reject_with accepts_rtl_sound. pose proof (ra_interp c Hacc). congruence. Qed.
Lemma reject_rtl_kfl_linear_initializer c :
  t_param c = ParamKfl -> t_init c = InitLinearExact -> accepts_rtl c = false.
Proof. intros E1 E2. reject_with accepts_rtl_sound. exact (ra_kfl_not_linear c Hacc E1 E2). Qed.
Lemma reject_rtl_kfl_regularizer c : t_param c = ParamKfl -> t_regs c <> RegNone -> accepts_rtl c = false.
Proof. intros E1 E2. reject_with accepts_rtl_sound. exact (E2 (ra_kfl_no_regs c Hacc E1)). Qed.
Lemma reject_rtl_regularizer_list_entry c es e :
  t_regs c = RegList es -> In e es -> (re_len e <> 3 \/ re_l1 e <> AmtFloat \/ re_l2 e <> AmtFloat) ->
  accepts_rtl c = false.
Proof.
  intros E Hin H. reject_with accepts_rtl_sound. destruct (ra_list_regs c Hacc es e E Hin) as (H1 & H2 & H3).
  destruct H as [H|[H|H]]; contradiction.
Qed.
Lemma reject_rtl_input_key c : t_keys_ok c = false -> accepts_rtl c = false.
Proof. intros H. reject_with accepts_rtl_sound. pose proof (ra_keys c Hacc). congruence. Qed.
Lemma reject_rtl_empty_regularizer_list c : t_regs c = RegList [] -> accepts_rtl c = false.
Proof. intros H. reject_with accepts_rtl_sound. exact (ra_regs_nonempty c Hacc H). Qed.
Lemma reject_rtl_too_small c : t_num c * t_rank c < rtl_n_inputs c -> accepts_rtl c = false.
Proof. intros H. reject_with accepts_rtl_sound. pose proof (ra_enough c Hacc). lia. Qed.
Lemma reject_rtl_no_inputs c : rtl_n_inputs c <= 0 -> accepts_rtl c = false.
Proof. intros H. reject_with accepts_rtl_sound. pose proof (ra_enough c Hacc). lia. Qed.
Lemma reject_rtl_parameterization c : 1 <= t_num c -> t_param c = ParamOther -> accepts_rtl c = false.
Proof. intros Hn E. reject_with accepts_rtl_sound. exact (rs_param c (ra_sublayers c Hacc Hn) E). Qed.
Lemma reject_rtl_init_min_without_max c : 1 <= t_num c ->
  (t_init_min c = None /\ t_init_max c <> None) \/ (t_init_min c <> None /\ t_init_max c = None) ->
  accepts_rtl c = false.
Proof.
  intros Hn H. reject_with accepts_rtl_sound. pose proof (rs_init_pair c (ra_sublayers c Hacc Hn)) as [X Y].
  destruct H as [[H1 H2]|[H1 H2]]; auto.
Qed.
Lemma reject_rtl_unknown_initializer c : 1 <= t_num c -> t_init c = InitUnknown -> accepts_rtl c = false.
Proof. intros Hn E. reject_with accepts_rtl_sound. exact (rs_init_known c (ra_sublayers c Hacc Hn) E). Qed.
Lemma reject_rtl_initializer_of_other_parameterization c : 1 <= t_num c ->
  (t_param c = ParamAll /\ t_init c = InitKfl) \/
  (t_param c = ParamKfl /\ (t_init c = InitLatticeRanged \/ t_init c = InitLinearExact)) ->
  accepts_rtl c = false.
Proof.
  intros Hn H. reject_with accepts_rtl_sound. destruct (rs_init_matches c (ra_sublayers c Hacc Hn)) as [X Y].
  destruct H as [[E1 E2]|[E1 E2]].
  - exact (X E1 E2).
  - destruct (Y E1) as [E|E]; destruct E2 as [E2|E2]; congruence.
Qed.
Lemma reject_rtl_empty_init_range c : 1 <= t_num c -> t_param c = ParamAll -> init_ranged (t_init c) ->
  (snd (rtl_init_range c) <= fst (rtl_init_range c))%Q -> accepts_rtl c = false.
Proof.
  intros Hn Ep Hi H. reject_with accepts_rtl_sound. pose proof (rs_init_range c (ra_sublayers c Hacc Hn) Ep Hi). lra.
Qed.
Lemma reject_rtl_lattice_regularizer c e : 1 <= t_num c -> t_param c = ParamAll -> In e (regs_entries (t_regs c)) ->
  (re_len e <> 3 \/ re_name_known e = false \/
   (exists n, re_l1 e = AmtSeq n /\ n <> 0 /\ n <> t_rank c) \/
   (exists n, re_l2 e = AmtSeq n /\ n <> 0 /\ n <> t_rank c)) ->
  accepts_rtl c = false.
Proof.
  intros Hn Ep Hin H. reject_with accepts_rtl_sound.
  destruct (rs_regs c (ra_sublayers c Hacc Hn) Ep e Hin) as [H1 H2 H3 H4].
  destruct H as [H|[H|[(n & E & A & B)|(n & E & A & B)]]].
  - contradiction.
  - congruence.
  - destruct (H3 n E); contradiction.
  - destruct (H4 n E); contradiction.
Qed.
Lemma reject_rtl_kfl_num_terms c : 1 <= t_num c -> t_param c = ParamKfl -> t_terms c < 0 -> accepts_rtl c = false.
Proof. intros Hn Ep H. reject_with accepts_rtl_sound. destruct (rs_terms c (ra_sublayers c Hacc Hn) Ep); lia. Qed.

(* kernel_regularizer given as a TUPLE of regulariser tuples: rtl_lib inspects
   lists only, the Lattice sub-layers iterate the tuple: every entry must be a
   3-tuple with a known name (and per-dimension amounts of the lattice rank) *)
Lemma reject_rtl_tuple_of_tuples_entry c es e : 1 <= t_num c -> t_param c = ParamAll ->
  t_regs c = RegTuples es -> In e es -> (re_len e <> 3 \/ re_name_known e = false) -> accepts_rtl c = false.
Proof.
  intros Hn Ep Er Hin H. apply (reject_rtl_lattice_regularizer c e Hn Ep).
  - rewrite Er. exact Hin.
  - destruct H as [H|H]; auto.
Qed.
(* as is: an int amount is a ValueError in the list form (rtl_lib: "l1 must be
   a single float") but passes in the tuple-of-tuples form, which rtl_lib does
   not inspect *)
Lemma rtl_tuple_of_tuples_not_inspected : exists c e,
  t_regs c = RegTuples [e] /\ re_l1 e = AmtInt /\ 1 <= t_num c /\ accepts_rtl c = true /\
  accepts_rtl (mkRTL (t_num c) (t_rank c) (t_size c) (t_omin c) (t_omax c) (t_interp_ok c) (t_param c) (t_init c)
                     (RegList [e]) (t_init_min c) (t_init_max c) (t_terms c) (t_keys_ok c) (t_inc c) (t_unc c)) = false.
Proof.
  exists (mkRTL 2 2 2 None None true ParamAll InitLatticeRanged (RegTuples [mkReg 3 true AmtInt AmtFloat])
                None None 2 true None (Some 3)), (mkReg 3 true AmtInt AmtFloat).
  repeat split; try reflexivity. cbn. lia.
Qed.
(* as is: the empty tuple is falsy for rtl_lib and for the Lattice sub-layers
   (no regulariser) - but it "is not None", so 'kronecker_factored' rejects it *)
Lemma rtl_empty_tuple_regularizer :
  accepts_rtl (mkRTL 2 2 2 None None true ParamAll InitLatticeRanged (RegTuples []) None None 2 true None (Some 3)) = true /\
  accepts_rtl (mkRTL 2 2 2 None None true ParamKfl InitKfl (RegTuples []) None None 2 true None (Some 3)) = false.
Proof. split; reflexivity. Qed.

(* as is: a negative num_lattices times a negative lattice_rank passes the
   "too small" test, no lattice is created, nothing else is checked (even an
   unknown parameterization); the first call then fails *)
Lemma rtl_negative_counts_accepted :
  exists c, t_num c < 0 /\ t_rank c < 0 /\ t_param c = ParamOther /\ accepts_rtl c = true.
Proof.
  exists (mkRTL (-1) (-2) 2 None None true ParamOther InitUnknown RegNone None None 2 true None (Some 2)).
  repeat split; reflexivity.
Qed.
(* as is (finding D48): num_terms = 0 passes `if num_terms and num_terms < 1` *)
Lemma rtl_zero_terms_accepted : exists c, t_param c = ParamKfl /\ t_terms c = 0 /\ 1 <= t_num c /\ accepts_rtl c = true.
Proof.
  exists (mkRTL 2 2 2 None None true ParamKfl InitKfl RegNone None None 0 true None (Some 3)).
  split; [reflexivity|split; [reflexivity|split; [cbn; lia|reflexivity]]].
Qed.
Example rtl_accepted_example :
  accepts_rtl (mkRTL 2 2 2 (Some (0#1)) (Some (1#1))%Q true ParamAll InitLatticeRanged
                     (RegList [mkReg 3 true AmtFloat AmtFloat]) None None 2 true (Some 1) (Some 2)) = true.
Proof. reflexivity. Qed.

(* ---- bridge: the RTL structure of Model/RTLStructure.v exists ---------------- *)
Definition conv_shapes (o : option Z) : option RTLStructure.shapes :=
  option_map (fun z => RTLStructure.Single (Z.to_nat z)) o.
Definition conv_rtl (c : rtl_cfg) (avoid : bool) (max_swaps : nat) : RTLStructure.rtl_cfg :=
  RTLStructure.mkcfg (Z.to_nat (t_num c)) (Z.to_nat (t_rank c)) avoid max_swaps
                     (RTLStructure.mkin (conv_shapes (t_inc c)) (conv_shapes (t_unc c))).

Lemma list_sum_repeat1 d : list_sum (repeat 1%nat d) = d.
Proof.
  induction d as [|d IH]; [reflexivity|].
  change (list_sum (repeat 1%nat (S d))) with (1 + list_sum (repeat 1%nat d))%nat. rewrite IH. reflexivity.
Qed.

Lemma sizes_sum o : (forall z, o = Some z -> 0 <= z) ->
  Z.of_nat (list_sum (RTLStructure.sizes_of (conv_shapes o))) = oz0 o.
Proof.
  intros H. destruct o as [z|]; [|reflexivity]. unfold conv_shapes, option_map, RTLStructure.sizes_of, RTLStructure.group_sizes, oz0.
  rewrite list_sum_repeat1. specialize (H z eq_refl). lia.
Qed.

Lemma conv_rtl_n_inputs c avoid ms :
  (forall z, t_inc c = Some z -> 0 <= z) -> (forall z, t_unc c = Some z -> 0 <= z) ->
  Z.of_nat (length (RTLStructure.flatten (RTLStructure.c_input (conv_rtl c avoid ms)))) = rtl_n_inputs c.
Proof.
  intros H1 H2. rewrite Proofs.RTLStructure.flatten_length. unfold Proofs.RTLStructure.n_inputs, rtl_n_inputs.
  cbn [conv_rtl RTLStructure.c_input RTLStructure.in_inc RTLStructure.in_unc].
  rewrite Nat2Z.inj_add, (sizes_sum _ H1), (sizes_sum _ H2). reflexivity.
Qed.

(* an accepted configuration with a non-negative num_lattices has at least
   one lattice of rank >= 1 and enough slots *)
Lemma accepted_rtl_counts c : accepts_rtl c = true -> 0 <= t_num c ->
  1 <= t_num c /\ 1 <= t_rank c /\ 0 < rtl_n_inputs c <= t_num c * t_rank c.
Proof.
  intros Hacc Hn. pose proof (ra_enough c (accepts_rtl_sound c Hacc)) as H.
  assert (t_num c <> 0) by (intros E; rewrite E in H; lia).
  assert (0 < t_rank c).
  { destruct (Z_le_gt_dec (t_rank c) 0) as [Hr|Hr]; [|lia].
    assert (t_num c * t_rank c <= 0) by (apply Z.mul_nonneg_nonpos; lia). lia. }
  lia.
Qed.

Lemma accepted_rtl_structure_exists c avoid ms sh1 sh2 :
  accepts_rtl c = true -> 0 <= t_num c ->
  (forall z, t_inc c = Some z -> 0 <= z) -> (forall z, t_unc c = Some z -> 0 <= z) ->
  exists s, RTLStructure.rtl_structure (conv_rtl c avoid ms) sh1 sh2 = Some s.
Proof.
  intros Hacc Hn H1 H2. destruct (accepted_rtl_counts c Hacc Hn) as (A & B & C).
  pose proof (conv_rtl_n_inputs c avoid ms H1 H2) as Hlen.
  unfold RTLStructure.rtl_structure.
  set (n := length (RTLStructure.flatten (RTLStructure.c_input (conv_rtl c avoid ms)))) in *.
  assert (Hnum : RTLStructure.c_num (conv_rtl c avoid ms) = Z.to_nat (t_num c)) by reflexivity.
  assert (Hrank : RTLStructure.c_rank (conv_rtl c avoid ms) = Z.to_nat (t_rank c)) by reflexivity.
  rewrite Hnum, Hrank.
  destruct (Nat.ltb_spec (Z.to_nat (t_num c) * Z.to_nat (t_rank c)) n) as [Hlt|Hge].
  - exfalso. assert (Z.of_nat (Z.to_nat (t_num c) * Z.to_nat (t_rank c)) = t_num c * t_rank c) by (rewrite Nat2Z.inj_mul; lia). lia.
  - destruct (Nat.eqb_spec n 0) as [E|E]; [exfalso; lia|]. eexists. reflexivity.
Qed.

(* ---- bridge: every group's sub-layer passes the corresponding verify --------- *)
Lemma zlen_repeat {A} (x : A) n : zlen (repeat x n) = Z.of_nat n.
Proof. unfold zlen. rewrite repeat_length. reflexivity. Qed.

Definition sub_lattice_cfg (c : rtl_cfg) (ms : list Z) : lattice_cfg :=
  mkL (repeat (t_size c) (Z.to_nat (t_rank c))) (Some ms) None [] [] None None None None
      (t_omin c) (t_omax c) (t_interp_ok c).

Lemma accepted_rtl_sublattice_accepted c ms : accepts_rtl c = true -> 0 <= t_rank c -> zlen ms = t_rank c ->
  accepts_lattice (sub_lattice_cfg c ms) = true.
Proof.
  intros Hacc Hr Hlen. pose proof (accepts_rtl_sound c Hacc) as [S B I _ _ _ _ _ _ _].
  unfold accepts_lattice, accepts_lattice_constraints, sub_lattice_cfg. cbn.
  rewrite !andb_true_iff. repeat split; try reflexivity.
  - unfold sizes_ok. apply all_b_spec. intros s Hs. apply repeat_spec in Hs. subst s. apply Z.leb_le, S.
  - apply Z.eqb_eq. rewrite zlen_repeat. lia.
  - apply bounds_strict_spec, B.
  - exact I.
Qed.

Definition sub_kfl_cfg (c : rtl_cfg) (units : Z) (ms : list Z) : kfl_cfg :=
  mkK (t_size c) units (t_terms c) (Some ms) (t_rank c) (t_omin c) (t_omax c).

Lemma accepted_rtl_subkfl_accepted c units ms : accepts_rtl c = true -> 1 <= t_num c -> t_param c = ParamKfl ->
  1 <= units -> zlen ms = t_rank c -> accepts_kfl (sub_kfl_cfg c units ms) = true.
Proof.
  intros Hacc Hn Ep Hu Hlen. pose proof (accepts_rtl_sound c Hacc) as [S B _ _ _ _ _ _ _ Sub].
  pose proof (rs_terms c (Sub Hn) Ep) as Ht.
  unfold accepts_kfl, sub_kfl_cfg. cbn. rewrite !andb_true_iff, !orb_true_iff, !Z.eqb_eq, !Z.leb_le.
  repeat split; try lia; try assumption.
  apply bounds_strict_spec, B.
Qed.

(* ------------------------------------------------------------------------- *)
(* 3. CDF                                                                      *)
(* ------------------------------------------------------------------------- *)
Record cdf_accepted (c : cdf_cfg) : Prop := {
  da_mono : d_mono_ok c = true;
  da_init : d_init_ok c = true;
  da_sparsity : d_sparsity c <> 0;
  da_dims : d_dims c mod d_sparsity c = 0;
  da_units : d_units c mod d_sparsity c = 0;
  da_keypoints : 0 <= d_keypoints c;
  da_units_nonneg : 0 <= d_units c / d_sparsity c;
  da_scaling : d_scaling_ok c = true }.

Lemma accepts_cdf_sound c : accepts_cdf c = true -> cdf_accepted c.
Proof.
  unfold accepts_cdf, cdf_construct_ok, cdf_build_ok. rewrite !andb_true_iff, negb_true_iff, !Z.eqb_eq, !Z.leb_le, Z.eqb_neq.
  intros [[H1 H2] [[[[[H3 H4] H5] H6] H7] H8]]. split; assumption.
Qed.
Lemma accepts_cdf_complete c : cdf_accepted c -> accepts_cdf c = true.
Proof.
  intros [H1 H2 H3 H4 H5 H6 H7 H8].
  unfold accepts_cdf, cdf_construct_ok, cdf_build_ok. rewrite !andb_true_iff, negb_true_iff, !Z.eqb_eq, !Z.leb_le, Z.eqb_neq.
  auto 10.
Qed.

Lemma reject_cdf_monotonicity c : d_mono_ok c = false -> accepts_cdf c = false.
Proof. intros H. reject_with accepts_cdf_sound. pose proof (da_mono c Hacc). congruence. Qed.
Lemma reject_cdf_initializer c : d_init_ok c = false -> accepts_cdf c = false.
Proof. intros H. reject_with accepts_cdf_sound. pose proof (da_init c Hacc). congruence. Qed.
Lemma reject_cdf_sparsity_zero c : d_sparsity c = 0 -> accepts_cdf c = false.
Proof. intros H. reject_with accepts_cdf_sound. exact (da_sparsity c Hacc H). Qed.
Lemma reject_cdf_input_dim_not_multiple c : d_dims c mod d_sparsity c <> 0 -> accepts_cdf c = false.
Proof. intros H. reject_with accepts_cdf_sound. exact (H (da_dims c Hacc)). Qed.
Lemma reject_cdf_units_not_multiple c : d_units c mod d_sparsity c <> 0 -> accepts_cdf c = false.
Proof. intros H. reject_with accepts_cdf_sound. exact (H (da_units c Hacc)). Qed.
Lemma reject_cdf_negative_keypoints c : d_keypoints c < 0 -> accepts_cdf c = false.
Proof. intros H. reject_with accepts_cdf_sound. pose proof (da_keypoints c Hacc). lia. Qed.
Lemma reject_cdf_negative_units c : d_units c / d_sparsity c < 0 -> accepts_cdf c = false.
Proof. intros H. reject_with accepts_cdf_sound. pose proof (da_units_nonneg c Hacc). lia. Qed.
(* the user-level reading for a positive sparsity factor *)
Lemma reject_cdf_negative_units_pos c : 0 < d_sparsity c -> d_units c < 0 -> accepts_cdf c = false.
Proof. intros Hs H. apply reject_cdf_negative_units. apply Z.div_lt_upper_bound; lia. Qed.
Lemma reject_cdf_scaling_type c : d_scaling_ok c = false -> accepts_cdf c = false.
Proof. intros H. reject_with accepts_cdf_sound. pose proof (da_scaling c Hacc). congruence. Qed.

(* as is (finding D49): an unknown activation / reduction is accepted by the
   constructor and by build; only call() raises *)
Lemma cdf_unknown_activation_accepted :
  exists c, d_activation_ok c = false /\ accepts_cdf c = true /\ cdf_call_ok c = false.
Proof. exists (mkCDF 2 2 1 2 true true true false true). repeat split; reflexivity. Qed.
Lemma cdf_unknown_reduction_accepted :
  exists c, d_reduction_ok c = false /\ accepts_cdf c = true /\ cdf_call_ok c = false.
Proof. exists (mkCDF 2 2 1 2 true true true true false). repeat split; reflexivity. Qed.
(* as is (finding D48): no keypoints / no units is accepted *)
Lemma cdf_zero_keypoints_accepted : exists c, d_keypoints c = 0 /\ accepts_cdf c = true.
Proof. exists (mkCDF 0 2 1 2 true true true true true). split; reflexivity. Qed.
Example cdf_accepted_example : accepts_cdf (mkCDF 5 4 2 6 true true true true true) = true.
Proof. reflexivity. Qed.

(* call() reshapes (batch, input_dim, units / factor) into
   (batch, input_dim / factor, units): the element counts agree *)
Lemma accepted_cdf_reshape_consistent c : accepts_cdf c = true ->
  d_dims c * (d_units c / d_sparsity c) = (d_dims c / d_sparsity c) * d_units c /\
  d_dims c = d_sparsity c * (d_dims c / d_sparsity c) /\
  d_units c = d_sparsity c * (d_units c / d_sparsity c).
Proof.
  intros Hacc. destruct (accepts_cdf_sound c Hacc) as [_ _ Hs Hd Hu _ _ _].
  pose proof (Z.div_mod (d_dims c) (d_sparsity c) Hs) as E1.
  pose proof (Z.div_mod (d_units c) (d_sparsity c) Hs) as E2.
  rewrite Hd in E1. rewrite Hu in E2. rewrite Z.add_0_r in E1, E2.
  split; [|split; assumption].
  set (q1 := d_dims c / d_sparsity c) in *. set (q2 := d_units c / d_sparsity c) in *.
  rewrite E1 at 1. rewrite E2 at 1. ring.
Qed.

(* ------------------------------------------------------------------------- *)
(* 4. premade_lib.verify_config                                                *)
(* ------------------------------------------------------------------------- *)
Definition shape_constrained (f : feature_cfg) : Prop :=
  f_unimodal f = true \/ f_trust f = true \/ f_dominates f = true.

Lemma same_lattice_size_spec fs : same_lattice_size fs = true <->
  forall f g, In f fs -> In g fs -> f_lattice_size f = f_lattice_size g.
Proof.
  destruct fs as [|f0 r]; cbn [same_lattice_size].
  - split; [intros _ f g []|reflexivity].
  - rewrite all_b_spec. split.
    + intros H f g Hf Hg. pose proof (H f Hf) as A. pose proof (H g Hg) as B.
      apply Z.eqb_eq in A, B. congruence.
    + intros H f Hf. apply Z.eqb_eq. apply H; [exact Hf|left; reflexivity].
Qed.

Lemma feature_regs_calib_spec fs : feature_regs_calib fs = true <->
  forall f b, In f fs -> In b (f_regs_calib f) -> b = true.
Proof.
  unfold feature_regs_calib. rewrite all_b_spec. split.
  - intros H f b Hf Hb. specialize (H f Hf). rewrite all_id_spec in H. apply H, Hb.
  - intros H f Hf. apply all_id_spec. intros b Hb. apply (H f b Hf Hb).
Qed.

Lemma no_shape_constraints_spec fs : no_shape_constraints fs = true <-> forall f, In f fs -> ~ shape_constrained f.
Proof.
  unfold no_shape_constraints, shape_constrained. rewrite !andb_true_iff, !all_b_spec. split.
  - intros [[H1 H2] H3] f Hf [E|[E|E]].
    + specialize (H1 f Hf). rewrite E in H1. discriminate.
    + specialize (H2 f Hf). rewrite E in H2. discriminate.
    + specialize (H3 f Hf). rewrite E in H3. discriminate.
  - intros H. repeat split; intros f Hf; apply negb_true_iff; specialize (H f Hf);
      match goal with |- ?x = false => destruct x eqn:E; [exfalso; apply H; auto|reflexivity] end.
Qed.

Record ensemble_accepted (c : premade_cfg) (fs : list feature_cfg) : Prop := {
  en_specified : m_lattices c <> LatOther;
  en_rtl_num : m_lattices c = LatRtl -> exists n, m_num_lattices c = Some n /\ 2 <= n;
  en_rtl_sizes : m_lattices c = LatRtl -> forall f g, In f fs -> In g fs -> f_lattice_size f = f_lattice_size g;
  en_rtl_shape : m_lattices c = LatRtl -> forall f, In f fs -> ~ shape_constrained f;
  en_rtl_regs : m_lattices c = LatRtl -> forall f b, In f fs -> In b (f_regs_calib f) -> b = true;
  en_list : forall oks, m_lattices c = LatList oks -> 2 <= zlen oks /\ forall b, In b oks -> b = true }.

Lemma ensemble_ok_sound c fs : ensemble_ok c fs = true -> ensemble_accepted c fs.
Proof.
  unfold ensemble_ok. intros H. destruct (m_lattices c) as [|oks|] eqn:El.
  - rewrite !andb_true_iff in H. destruct H as [[[H1 H2] H3] H4]. split; try (intros; congruence).
    + intros _. destruct (m_num_lattices c) as [n|]; [|discriminate]. exists n. split; [reflexivity|apply Z.leb_le, H1].
    + intros _. apply same_lattice_size_spec, H2.
    + intros _. apply no_shape_constraints_spec, H3.
    + intros _. apply feature_regs_calib_spec, H4.
  - rewrite andb_true_iff in H. destruct H as [H1 H2]. split; try (intros; congruence).
    intros oks' E. rewrite El in E. injection E as <-. split; [apply Z.leb_le, H1|apply all_id_spec, H2].
  - discriminate.
Qed.

Record kfl_config_accepted (c : premade_cfg) (fs : list feature_cfg) : Prop := {
  kc_model_regs : forall b, In b (m_regs_calib c) -> b = true;
  kc_feature_regs : forall f b, In f fs -> In b (f_regs_calib f) -> b = true;
  kc_sizes : forall f g, In f fs -> In g fs -> f_lattice_size f = f_lattice_size g;
  kc_shape : forall f, In f fs -> ~ shape_constrained f }.

Lemma kfl_config_ok_sound c fs : kfl_config_ok c fs = true -> kfl_config_accepted c fs.
Proof.
  unfold kfl_config_ok. rewrite !andb_true_iff. intros [[[H1 H2] H3] H4]. split.
  - apply all_id_spec, H1.
  - apply feature_regs_calib_spec, H2.
  - apply same_lattice_size_spec, H3.
  - apply no_shape_constraints_spec, H4.
Qed.

(* a feature as _verify_feature_config reads it *)
Record feature_accepted (f : feature_cfg) : Prop := {
  fa_numeric : f_buckets f = 0 -> f_keypoints_ok f = true;
  fa_iterable : f_buckets f <> 0 -> f_cat_mono f <> CmNotIterable;
  fa_elems : f_buckets f <> 0 -> forall es e, f_cat_mono f = CmElems es -> In e es ->
             exists vs, e = ElemVals vs /\ forall v, In v vs -> exists z, v = Some z /\ 0 <= z < f_buckets f }.

Lemma cat_elem_ok_spec n e : cat_elem_ok n e = true <->
  exists vs, e = ElemVals vs /\ forall v, In v vs -> exists z, v = Some z /\ 0 <= z < n.
Proof.
  destruct e as [|vs]; cbn.
  - split; [discriminate|intros (vs & E & _); discriminate].
  - rewrite all_b_spec. split.
    + intros H. exists vs. split; [reflexivity|]. intros v Hv. specialize (H v Hv).
      destruct v as [z|]; [|discriminate]. exists z. split; [reflexivity|].
      apply andb_true_iff in H. rewrite Z.leb_le, Z.ltb_lt in H. exact H.
    + intros (vs' & E & H) v Hv. injection E as <-. destruct (H v Hv) as (z & -> & Hz).
      apply andb_true_iff. rewrite Z.leb_le, Z.ltb_lt. exact Hz.
Qed.

Lemma feature_ok_sound f : feature_ok f = true -> feature_accepted f.
Proof.
  unfold feature_ok. intros H. destruct (Z.eqb_spec (f_buckets f) 0) as [E|E].
  - split; [intros _; exact H|intros X; contradiction|intros X; contradiction].
  - split.
    + intros X. contradiction.
    + intros _ Em. rewrite Em in H. discriminate.
    + intros _ es e Em Hin. rewrite Em in H. rewrite all_b_spec in H. apply cat_elem_ok_spec, H, Hin.
Qed.

Record config_accepted (c : premade_cfg) : Prop := {
  ca_features : exists fs, m_features c = Some fs /\
    (m_kind c = MEnsemble -> ensemble_accepted c fs) /\
    ((m_kind c = MLattice \/ m_kind c = MEnsemble) -> m_kfl c = true -> kfl_config_accepted c fs) /\
    (forall f, In f fs -> feature_accepted f);
  ca_aggregate : m_kind c = MAggregate -> 1 <= m_middle_dim c /\ (m_middle_mono c = true -> m_middle_calib c = true);
  ca_output_init : m_output_init_ok c = true }.

Lemma accepts_verify_config_sound c : accepts_verify_config c = true -> config_accepted c.
Proof.
  unfold accepts_verify_config. destruct (m_features c) as [fs|] eqn:Ef; [|discriminate].
  rewrite !andb_true_iff. intros [[[[H1 H2] H3] H4] H5]. split.
  - exists fs. split; [exact Ef|]. split; [|split].
    + intros Ek. rewrite Ek in H1. cbn in H1. apply ensemble_ok_sound, H1.
    + intros Ek Hk. unfold kfl_applies in H2.
      assert (X : kfl_config_ok c fs = true).
      { destruct Ek as [Ek|Ek]; rewrite Ek, Hk in H2; exact H2. }
      apply kfl_config_ok_sound, X.
    + intros f Hf. rewrite all_b_spec in H4. apply feature_ok_sound, H4, Hf.
  - intros Ek. rewrite Ek in H3. cbn in H3. unfold aggregate_ok in H3.
    apply andb_true_iff in H3. destruct H3 as [A B]. split; [apply Z.leb_le, A|].
    intros Hm. rewrite Hm in B. cbn in B. apply negb_true_iff, negb_false_iff in B. exact B.
  - exact H5.
Qed.

Ltac config_reject c Hacc fs Ef Hens Hkfl Hfeat :=
  reject_with accepts_verify_config_sound;
  destruct (ca_features c Hacc) as (fs & Ef & Hens & Hkfl & Hfeat).

Lemma reject_config_features_none c : m_features c = None -> accepts_verify_config c = false.
Proof. intros E. unfold accepts_verify_config. rewrite E. reflexivity. Qed.
Lemma reject_config_output_initialization c : m_output_init_ok c = false -> accepts_verify_config c = false.
Proof. intros H. reject_with accepts_verify_config_sound. pose proof (ca_output_init c Hacc). congruence. Qed.

Lemma reject_config_ensemble_lattices_unspecified c :
  m_kind c = MEnsemble -> m_lattices c = LatOther -> accepts_verify_config c = false.
Proof. intros Ek El. config_reject c Hacc fs Ef Hens Hkfl Hfeat. exact (en_specified c fs (Hens Ek) El). Qed.
Lemma reject_config_rtl_num_lattices c : m_kind c = MEnsemble -> m_lattices c = LatRtl ->
  (m_num_lattices c = None \/ exists n, m_num_lattices c = Some n /\ n < 2) -> accepts_verify_config c = false.
Proof.
  intros Ek El H. config_reject c Hacc fs Ef Hens Hkfl Hfeat.
  destruct (en_rtl_num c fs (Hens Ek) El) as (n & En & Hn).
  destruct H as [H|(n' & H & Hlt)]; rewrite En in H; [discriminate|]. injection H as <-. lia.
Qed.
Lemma reject_config_rtl_lattice_sizes_differ c fs f g : m_kind c = MEnsemble -> m_lattices c = LatRtl ->
  m_features c = Some fs -> In f fs -> In g fs -> f_lattice_size f <> f_lattice_size g ->
  accepts_verify_config c = false.
Proof.
  intros Ek El E Hf Hg Hne. config_reject c Hacc fs' Ef Hens Hkfl Hfeat.
  rewrite E in Ef. injection Ef as <-. exact (Hne (en_rtl_sizes c fs (Hens Ek) El f g Hf Hg)).
Qed.
Lemma reject_config_rtl_shape_constraint c fs f : m_kind c = MEnsemble -> m_lattices c = LatRtl ->
  m_features c = Some fs -> In f fs -> shape_constrained f -> accepts_verify_config c = false.
Proof.
  intros Ek El E Hf Hs. config_reject c Hacc fs' Ef Hens Hkfl Hfeat.
  rewrite E in Ef. injection Ef as <-. exact (en_rtl_shape c fs (Hens Ek) El f Hf Hs).
Qed.
Lemma reject_config_rtl_feature_regularizer c fs f : m_kind c = MEnsemble -> m_lattices c = LatRtl ->
  m_features c = Some fs -> In f fs -> In false (f_regs_calib f) -> accepts_verify_config c = false.
Proof.
  intros Ek El E Hf Hb. config_reject c Hacc fs' Ef Hens Hkfl Hfeat.
  rewrite E in Ef. injection Ef as <-. pose proof (en_rtl_regs c fs (Hens Ek) El f false Hf Hb). discriminate.
Qed.
Lemma reject_config_ensemble_fewer_than_2_lattices c oks : m_kind c = MEnsemble -> m_lattices c = LatList oks ->
  zlen oks < 2 -> accepts_verify_config c = false.
Proof.
  intros Ek El H. config_reject c Hacc fs Ef Hens Hkfl Hfeat. destruct (en_list c fs (Hens Ek) oks El). lia.
Qed.
Lemma reject_config_ensemble_lattice_not_names c oks : m_kind c = MEnsemble -> m_lattices c = LatList oks ->
  In false oks -> accepts_verify_config c = false.
Proof.
  intros Ek El H. config_reject c Hacc fs Ef Hens Hkfl Hfeat. destruct (en_list c fs (Hens Ek) oks El) as [_ X].
  specialize (X false H). discriminate.
Qed.

Lemma reject_config_kfl_model_regularizer c : (m_kind c = MLattice \/ m_kind c = MEnsemble) -> m_kfl c = true ->
  In false (m_regs_calib c) -> accepts_verify_config c = false.
Proof.
  intros Ek Hk H. config_reject c Hacc fs Ef Hens Hkfl Hfeat.
  pose proof (kc_model_regs c fs (Hkfl Ek Hk) false H). discriminate.
Qed.
Lemma reject_config_kfl_feature_regularizer c fs f : (m_kind c = MLattice \/ m_kind c = MEnsemble) -> m_kfl c = true ->
  m_features c = Some fs -> In f fs -> In false (f_regs_calib f) -> accepts_verify_config c = false.
Proof.
  intros Ek Hk E Hf Hb. config_reject c Hacc fs' Ef Hens Hkfl Hfeat.
  rewrite E in Ef. injection Ef as <-. pose proof (kc_feature_regs c fs (Hkfl Ek Hk) f false Hf Hb). discriminate.
Qed.
Lemma reject_config_kfl_lattice_sizes_differ c fs f g : (m_kind c = MLattice \/ m_kind c = MEnsemble) -> m_kfl c = true ->
  m_features c = Some fs -> In f fs -> In g fs -> f_lattice_size f <> f_lattice_size g ->
  accepts_verify_config c = false.
Proof.
  intros Ek Hk E Hf Hg Hne. config_reject c Hacc fs' Ef Hens Hkfl Hfeat.
  rewrite E in Ef. injection Ef as <-. exact (Hne (kc_sizes c fs (Hkfl Ek Hk) f g Hf Hg)).
Qed.
Lemma reject_config_kfl_shape_constraint c fs f : (m_kind c = MLattice \/ m_kind c = MEnsemble) -> m_kfl c = true ->
  m_features c = Some fs -> In f fs -> shape_constrained f -> accepts_verify_config c = false.
Proof.
  intros Ek Hk E Hf Hs. config_reject c Hacc fs' Ef Hens Hkfl Hfeat.
  rewrite E in Ef. injection Ef as <-. exact (kc_shape c fs (Hkfl Ek Hk) f Hf Hs).
Qed.

Lemma reject_config_aggregate_middle_dimension c : m_kind c = MAggregate -> m_middle_dim c < 1 ->
  accepts_verify_config c = false.
Proof. intros Ek H. reject_with accepts_verify_config_sound. destruct (ca_aggregate c Hacc Ek). lia. Qed.
Lemma reject_config_aggregate_middle_monotonicity c : m_kind c = MAggregate ->
  m_middle_mono c = true -> m_middle_calib c = false -> accepts_verify_config c = false.
Proof.
  intros Ek H1 H2. reject_with accepts_verify_config_sound. destruct (ca_aggregate c Hacc Ek) as [_ X].
  specialize (X H1). congruence.
Qed.

Lemma reject_config_feature_keypoints c fs f : m_features c = Some fs -> In f fs ->
  f_buckets f = 0 -> f_keypoints_ok f = false -> accepts_verify_config c = false.
Proof.
  intros E Hf Hb Hk. config_reject c Hacc fs' Ef Hens Hkfl Hfeat.
  rewrite E in Ef. injection Ef as <-. pose proof (fa_numeric f (Hfeat f Hf) Hb). congruence.
Qed.
Lemma reject_config_categorical_monotonicity_not_iterable c fs f : m_features c = Some fs -> In f fs ->
  f_buckets f <> 0 -> f_cat_mono f = CmNotIterable -> accepts_verify_config c = false.
Proof.
  intros E Hf Hb Hm. config_reject c Hacc fs' Ef Hens Hkfl Hfeat.
  rewrite E in Ef. injection Ef as <-. exact (fa_iterable f (Hfeat f Hf) Hb Hm).
Qed.
Lemma reject_config_categorical_element_not_iterable c fs f es : m_features c = Some fs -> In f fs ->
  f_buckets f <> 0 -> f_cat_mono f = CmElems es -> In ElemNotIterable es -> accepts_verify_config c = false.
Proof.
  intros E Hf Hb Hm Hin. config_reject c Hacc fs' Ef Hens Hkfl Hfeat.
  rewrite E in Ef. injection Ef as <-. destruct (fa_elems f (Hfeat f Hf) Hb es _ Hm Hin) as (vs & X & _). discriminate.
Qed.
Lemma reject_config_categorical_value_not_int c fs f es vs : m_features c = Some fs -> In f fs ->
  f_buckets f <> 0 -> f_cat_mono f = CmElems es -> In (ElemVals vs) es -> In None vs ->
  accepts_verify_config c = false.
Proof.
  intros E Hf Hb Hm Hin Hv. config_reject c Hacc fs' Ef Hens Hkfl Hfeat.
  rewrite E in Ef. injection Ef as <-. destruct (fa_elems f (Hfeat f Hf) Hb es _ Hm Hin) as (vs' & X & Y).
  injection X as <-. destruct (Y None Hv) as (z & Ez & _). discriminate.
Qed.
Lemma reject_config_categorical_value_out_of_range c fs f es vs z : m_features c = Some fs -> In f fs ->
  f_buckets f <> 0 -> f_cat_mono f = CmElems es -> In (ElemVals vs) es -> In (Some z) vs ->
  (z < 0 \/ f_buckets f <= z) -> accepts_verify_config c = false.
Proof.
  intros E Hf Hb Hm Hin Hv Hz. config_reject c Hacc fs' Ef Hens Hkfl Hfeat.
  rewrite E in Ef. injection Ef as <-. destruct (fa_elems f (Hfeat f Hf) Hb es _ Hm Hin) as (vs' & X & Y).
  injection X as <-. destruct (Y (Some z) Hv) as (z' & Ez & Hr). injection Ez as <-. lia.
Qed.

(* as is (finding D50): an empty feature list passes verify_config *)
Lemma config_empty_features_accepted : exists c, m_features c = Some [] /\ accepts_verify_config c = true.
Proof. exists (mkPM MLattice (Some []) LatOther None false [] 1 false false true). split; reflexivity. Qed.
Example config_accepted_example :
  accepts_verify_config
    (mkPM MEnsemble (Some [mkF 0 true CmFalsyOrNone 2 false false false [true];
                           mkF 3 false (CmElems [ElemVals [Some 0; Some 2]]) 2 false false false []])
          LatRtl (Some 2) true [true] 1 false false true) = true.
Proof. reflexivity. Qed.
