(* C14 - alternative representations agree: lemmas.
   (a) KroneckerFactoredLattice == Lattice on dense_of_kfl
   (b) pwl_calibration_fn / cdf_fn == PWLCalibration / CDF layers
   (c) ParallelCombination  (d) Aggregation  (e) RTL call *)
From TFL Require Export Model.Representations.
From TFL Require Import Proofs.LatticeInterp.
Open Scope Q_scope.

(* ====================================================================== *)
(* (a) KFL == dense Lattice                                                *)
(* ====================================================================== *)

(* ---------- row-major layout: entry (flat sh i) of a table over all_idx ---------- *)
Lemma all_idx_length : forall sh, length (all_idx sh) = prodn sh.
Proof. induction sh as [|s sh IH]; cbn [all_idx prodn fold_right]. reflexivity.
  fold (prodn sh). generalize 0%nat. induction s as [|s IHs]; intros a; cbn [seq flat_map]. reflexivity.
  rewrite app_length, map_length, IHs. cbn [Nat.mul]. f_equal. exact IH. Qed.

Lemma nth_flat_map_blocks {A B} (g : nat -> list B) (m : nat) (d : B) (_ : A) :
  forall s a k j, (forall k', length (g k') = m) -> (k < s)%nat -> (j < m)%nat ->
  nth (k * m + j) (flat_map g (seq a s)) d = nth j (g (a + k)%nat) d.
Proof. induction s as [|s IH]; intros a k j Hg Hk Hj. lia.
  cbn [seq flat_map]. destruct k as [|k].
  - cbn [Nat.mul Nat.add]. rewrite app_nth1 by (rewrite Hg; exact Hj). rewrite Nat.add_0_r. reflexivity.
  - rewrite app_nth2 by (rewrite Hg; lia). rewrite Hg.
    replace (S k * m + j - m)%nat with (k * m + j)%nat by lia.
    rewrite IH by (auto; lia). f_equal. f_equal. lia. Qed.

Lemma nth_flat_all_idx {B} (f : idx -> B) (d : B) : forall sh i, valid sh i ->
  nth (flat sh i) (map f (all_idx sh)) d = f i.
Proof. intros sh i Hv. revert f. induction Hv as [|s sh k r Hk Hr IH]; intros f.
  - reflexivity.
  - cbn [all_idx flat]. fold (prodn sh).
    assert (E : map f (flat_map (fun k0 => map (cons k0) (all_idx sh)) (seq 0 s)) =
                flat_map (fun k0 => map (fun r0 => f (k0 :: r0)) (all_idx sh)) (seq 0 s)).
    { clear Hk. generalize 0%nat. induction s as [|s' IHs]; intros a; cbn [seq flat_map]. reflexivity.
      rewrite map_app, map_map, IHs. reflexivity. }
    rewrite E.
    rewrite (nth_flat_map_blocks (A := unit) (fun k0 => map (fun r0 => f (k0 :: r0)) (all_idx sh)) (prodn sh) d tt s 0 k (flat sh r)).
    + cbn [Nat.add]. apply (IH (fun r0 => f (k :: r0))).
    + intros k'. rewrite map_length. apply all_idx_length.
    + exact Hk.
    + apply flat_lt. exact Hr. Qed.

(* ---------- linearity of the interpolation in the kernel ---------- *)
Lemma wsum_plus_a n w a a' : wsum n w (fun k => a k + a' k) == wsum n w a + wsum n w a'.
Proof. unfold wsum. rewrite <- qsum_map_plus. apply qsum_seq_ext. intros; ring. Qed.
Lemma wsum_scale_a n w c a : wsum n w (fun k => c * a k) == c * wsum n w a.
Proof. unfold wsum. rewrite <- qsum_map_scale. apply qsum_seq_ext. intros; ring. Qed.

Lemma interp_w_plus_K : forall sizes ws K1 K2,
  interp_w sizes ws (fun i => K1 i + K2 i) == interp_w sizes ws K1 + interp_w sizes ws K2.
Proof. induction sizes as [|s ss IH]; intros ws K1 K2; destruct ws as [|w ws]; try reflexivity.
  rewrite !interp_w_cons, <- wsum_plus_a. apply wsum_ext. reflexivity.
  intros k _. apply (IH ws (fun i => K1 (k :: i)) (fun i => K2 (k :: i))). Qed.
Lemma interp_w_scale_K : forall sizes ws c K,
  interp_w sizes ws (fun i => c * K i) == c * interp_w sizes ws K.
Proof. induction sizes as [|s ss IH]; intros ws c K; destruct ws as [|w ws]; try reflexivity.
  rewrite !interp_w_cons, <- wsum_scale_a. apply wsum_ext. reflexivity.
  intros k _. apply (IH ws c (fun i => K (k :: i))). Qed.

Lemma G_plus_K sizes K1 K2 z : G sizes (fun i => K1 i + K2 i) z == G sizes K1 z + G sizes K2 z.
Proof. apply interp_w_plus_K. Qed.
Lemma G_scale_K sizes c K z : G sizes (fun i => c * K i) z == c * G sizes K z.
Proof. apply interp_w_scale_K. Qed.
(* partition of unity: a constant kernel interpolates to the constant *)
Lemma G_const sizes b z : inr sizes z -> G sizes (fun _ => b) z == b.
Proof. intros Hr. destruct (G_bounds sizes (fun _ => b) z b b Hr) as [H1 H2]. intros; lra. lra. Qed.
Lemma G_zero sizes z : G sizes (fun _ => 0) z == 0.
Proof. pose proof (G_scale_K sizes 0 (fun _ => 0) z) as H.
  assert (E : G sizes (fun _ => 0) z == G sizes (fun i => 0 * 0) z).
  { unfold G. clear H. revert z. induction sizes as [|s ss IH]; intros z; destruct z as [|zd zs]; reflexivity. }
  rewrite E, H. ring. Qed.

(* sum over the terms *)
Lemma G_qsum_map2 {A B} sizes z (F : A -> B -> idx -> Q) : length z = length sizes -> forall su ku,
  G sizes (fun i => qsum (map2 (fun s vs => F s vs i) su ku)) z ==
  qsum (map2 (fun s vs => G sizes (F s vs) z) su ku).
Proof. intros Hl. induction su as [|s su IH]; intros ku.
  - cbn [map2 qsum]. apply G_zero.
  - destruct ku as [|vs ku]; cbn [map2 qsum]. apply G_zero.
    rewrite <- IH. apply (G_plus_K sizes (F s vs) (fun i => qsum (map2 (fun s0 vs0 => F s0 vs0 i) su ku))). Qed.

(* ---------- one dimension: depthwise_conv2d column == interp1 ---------- *)
(* sum_k w_k * v[k] with zip truncation == the weighted sum against v padded with zeros *)
Lemma conv_wsum (w : nat -> Q) : forall n off (v : list Q),
  qsum (map2 Qmult (map w (seq off n)) v) == qsum (map (fun k => w k * nth (k - off) v 0) (seq off n)).
Proof. induction n as [|n IH]; intros off v; cbn [seq map map2 qsum]. reflexivity.
  destruct v as [|a v]; cbn [map2 qsum].
  - symmetry. rewrite (qsum_map_ext (fun k => w k * nth (k - off) [] 0) (fun _ => 0 * 0)).
    + assert (Z : forall l : list nat, qsum (map (fun _ => 0 * 0) l) == 0) by (induction l; cbn [map qsum]; [reflexivity|rewrite IHl; ring]).
      rewrite Z. destruct (off - off)%nat; cbn [nth]; ring.
    + intros k _. destruct (k - off)%nat; cbn [nth]; ring.
  - rewrite IH. rewrite Nat.sub_diag. cbn [nth].
    rewrite (qsum_map_ext (fun k => w k * nth (k - S off) v 0) (fun k => w k * nth (k - off) (a :: v) 0)). reflexivity.
    intros k Hk. apply in_seq in Hk. replace (k - off)%nat with (S (k - S off)) by lia. reflexivity. Qed.

(* the coordinate the interpolation sees *)
Definition effc (clip : bool) (L : nat) (x : Q) : Q := if clip then qclip 0 (qn L - 1) x else x.

Lemma kfl_weights_hat L x k : (2 <= L)%nat -> 0 <= x -> x <= qn L - 1 -> (k < L)%nat ->
  nth k (KFL.interp_weights L x) 0 == hat x k.
Proof. intros HL H0 H1 Hk. unfold KFL.interp_weights. destruct (Nat.eqb_spec L 2) as [->|Hne].
  - assert (E2 : qn 2 == 2) by reflexivity. rewrite E2 in H1.
    destruct k as [|[|k]]; try lia; cbn [nth]; unfold hat.
    + rewrite qn_0. qcases; lra.
    + assert (E1 : qn 1 == 1) by reflexivity. rewrite E1. qcases; lra.
  - rewrite (nth_map_seq (fun i => KFL.hat (KFL.qn i - x)) L k 0 Hk). unfold KFL.hat, hat.
    change (KFL.qn k) with (qn k). qcases; lra. Qed.

Lemma pwl1d_interp1 clip L v x : (2 <= L)%nat -> clip = true \/ (0 <= x /\ x <= qn L - 1) ->
  KFL.pwl1d L v (KFL.clip_in clip L x) == interp1 L (fun k => nth k v 0) (effc clip L x).
Proof. intros HL Hx. unfold KFL.pwl1d.
  assert (Ez : KFL.clip_in clip L x = effc clip L x) by reflexivity. rewrite Ez.
  set (z := effc clip L x).
  assert (Hz : 0 <= z /\ z <= qn L - 1).
  { unfold z, effc. destruct clip. apply clip_range_in; lia. destruct Hx as [Hx|Hx]; [discriminate|exact Hx]. }
  assert (Ew : KFL.interp_weights L z = map (fun k => nth k (KFL.interp_weights L z) 0) (seq 0 L)).
  { unfold KFL.interp_weights. destruct (Nat.eqb_spec L 2) as [->|Hne]. reflexivity.
    apply map_ext_in. intros k Hk. apply in_seq in Hk.
    rewrite (nth_map_seq (fun i => KFL.hat (KFL.qn i - z)) L k 0) by lia. reflexivity. }
  rewrite Ew, conv_wsum. unfold interp1, wsum. apply qsum_seq_ext. intros k Hk.
  rewrite Nat.sub_0_r. rewrite kfl_weights_hat by (try lia; tauto). reflexivity. Qed.

(* ---------- the recursion over the dimensions ---------- *)
Lemma inr_repeat_cons L dims xd xs : inr (repeat L (S dims)) (xd :: xs) ->
  (0 <= xd /\ xd <= qn L - 1) /\ inr (repeat L dims) xs.
Proof. cbn [repeat]. intros H. inversion H; subst. split; assumption. Qed.

Lemma eff_repeat_cons clip L dims xd xs :
  eff clip (repeat L (S dims)) (xd :: xs) = effc clip L xd :: eff clip (repeat L dims) xs.
Proof. destruct clip; reflexivity. Qed.

Lemma qprod_proper_cons a a' r r' : a == a' -> KFL.qprod r == KFL.qprod r' -> KFL.qprod (a :: r) == KFL.qprod (a' :: r').
Proof. intros Ha Hr. cbn [KFL.qprod]. rewrite Ha, Hr. reflexivity. Qed.

(* hypercube interpolation of an outer product is the product of the 1-D interpolants *)
Lemma G_outer_product clip L : (2 <= L)%nat -> forall dims (vs : KFL.term) xs,
  length vs = dims -> length xs = dims -> clip = true \/ inr (repeat L dims) xs ->
  G (repeat L dims) (fun i => KFL.qprod (map2 (fun (v : list Q) (k : nat) => nth k v 0) vs i))
    (eff clip (repeat L dims) xs) ==
  KFL.qprod (map2 (KFL.pwl1d L) vs (map (KFL.clip_in clip L) xs)).
Proof. intros HL. induction dims as [|dims IH]; intros vs xs Hv Hx Hr.
  - destruct vs; [|discriminate]. destruct xs; [|discriminate]. destruct clip; reflexivity.
  - destruct vs as [|v vs]; [discriminate|]. destruct xs as [|xd xs]; [discriminate|].
    rewrite eff_repeat_cons. cbn [repeat]. rewrite G_cons. cbn [map map2 KFL.qprod].
    assert (Hd : clip = true \/ (0 <= xd /\ xd <= qn L - 1)).
    { destruct Hr as [Hr|Hr]; [left; exact Hr|right]. apply (inr_repeat_cons L dims xd xs Hr). }
    assert (Hr' : clip = true \/ inr (repeat L dims) xs).
    { destruct Hr as [Hr|Hr]; [left; exact Hr|right]. apply (inr_repeat_cons L dims xd xs Hr). }
    rewrite (pwl1d_interp1 clip L v xd HL Hd).
    rewrite <- (IH vs xs ltac:(cbn in Hv; lia) ltac:(cbn in Hx; lia) Hr').
    set (R := G (repeat L dims) (fun i => KFL.qprod (map2 (fun (v0 : list Q) (k : nat) => nth k v0 0) vs i))
                (eff clip (repeat L dims) xs)).
    unfold interp1.
    rewrite (wsum_ext L (hat (effc clip L xd)) (hat (effc clip L xd))
               (fun k => G (repeat L dims) (fun i => nth k v 0 * KFL.qprod (map2 (fun (v0 : list Q) (k0 : nat) => nth k0 v0 0) vs i))
                           (eff clip (repeat L dims) xs))
               (fun k => R * nth k v 0)).
    + rewrite wsum_scale_a. ring.
    + reflexivity.
    + intros k _. unfold R. rewrite G_scale_K. ring. Qed.

(* ---------- one unit ---------- *)
Lemma qmean_G {A B} sizes z (F : A -> B -> idx -> Q) su ku : length z = length sizes ->
  G sizes (fun i => KFL.qmean (map2 (fun s vs => F s vs i) su ku)) z ==
  KFL.qmean (map2 (fun s vs => G sizes (F s vs) z) su ku).
Proof. intros Hl. unfold KFL.qmean.
  set (c := / KFL.qn (Nat.min (length su) (length ku))).
  transitivity (G sizes (fun i => c * qsum (map2 (fun s vs => F s vs i) su ku)) z).
  - apply G_ext_K. exact Hl. intros i _. rewrite map2_length. unfold Qdiv, c. ring.
  - rewrite G_scale_K, (G_qsum_map2 sizes z F Hl su ku), map2_length. unfold Qdiv, c. ring. Qed.

Definition terms_wf (dims : nat) (ku : list KFL.term) : Prop := Forall (fun vs : KFL.term => length vs = dims) ku.

Lemma qsum_map2_ext_in {A B} (f g : A -> B -> Q) : forall a b, (forall x y, In y b -> f x y == g x y) ->
  qsum (map2 f a b) == qsum (map2 g a b).
Proof. induction a as [|x a IH]; intros b H; destruct b as [|y b]; cbn [map2 qsum]; try reflexivity.
  rewrite (H x y (or_introl eq_refl)), IH. reflexivity. intros; apply H; right; assumption. Qed.

Lemma kfl_unit_dense clip L dims su ku b xs : (2 <= L)%nat -> terms_wf dims ku -> length xs = dims ->
  clip = true \/ inr (repeat L dims) xs ->
  KFL.unit_eval clip L su ku b xs ==
  G (repeat L dims) (dense_vertex su ku b) (eff clip (repeat L dims) xs).
Proof. intros HL Hwf Hx Hr. unfold KFL.unit_eval, dense_vertex.
  assert (Hl : length (eff clip (repeat L dims) xs) = length (repeat L dims)).
  { unfold eff. destruct clip; [apply clip_onto_length|]; rewrite repeat_length; exact Hx. }
  assert (Hin : inr (repeat L dims) (eff clip (repeat L dims) xs)).
  { apply eff_inr. unfold sizes_ok. apply Forall_forall. intros s Hs. apply repeat_spec in Hs. lia.
    split. rewrite repeat_length; exact Hx. exact Hr. }
  rewrite (G_plus_K (repeat L dims) (fun i => KFL.qmean (map2 (fun s vs => term_vertex s vs i) su ku)) (fun _ => b)).
  rewrite G_const by exact Hin. rewrite (qmean_G (repeat L dims) _ term_vertex su ku Hl).
  unfold KFL.qmean. rewrite !map2_length.
  assert (E : qsum (map2 (KFL.term_out L (map (KFL.clip_in clip L) xs)) su ku) ==
              qsum (map2 (fun s vs => G (repeat L dims) (term_vertex s vs) (eff clip (repeat L dims) xs)) su ku)).
  { apply qsum_map2_ext_in. intros s vs Hvs. unfold KFL.term_out, term_vertex.
    rewrite G_scale_K. rewrite (G_outer_product clip L HL dims vs xs). reflexivity.
    unfold terms_wf in Hwf. rewrite Forall_forall in Hwf. apply Hwf; exact Hvs. exact Hx. exact Hr. }
  rewrite E. reflexivity. Qed.

(* ---------- the layer-level statement ---------- *)
Lemma kern_dense L dims units p u i : (u < units)%nat -> valid (kfl_sizes L dims) i ->
  kern (kfl_sizes L dims) (dense_of_kfl L dims units p) u i ==
  dense_vertex (nth u (KFL.p_scale p) []) (nth u (KFL.p_kern p) []) (nth u (KFL.p_bias p) 0) i.
Proof. intros Hu Hi. unfold kern, of_list. rewrite memo_ok by exact Hi. rewrite nth_column.
  unfold dense_of_kfl. rewrite (nth_flat_all_idx _ [] (kfl_sizes L dims) i Hi).
  rewrite (nth_map_seq _ units u 0 Hu). apply Qred_correct. Qed.

Theorem kfl_equals_dense tensor c p u xs dims units :
  (2 <= KFL.c_size c)%nat -> (1 <= dims)%nat -> (u < units)%nat ->
  terms_wf dims (nth u (KFL.p_kern p) []) -> length xs = dims ->
  KFL.c_clip c = true \/ inr (kfl_sizes (KFL.c_size c) dims) xs ->
  KFL.unit_out c p u xs ==
  unit_fn Hypercube tensor (KFL.c_clip c) units (kfl_sizes (KFL.c_size c) dims)
          (dense_of_kfl (KFL.c_size c) dims units p) u xs.
Proof. intros HL Hd Hu Hwf Hx Hr. unfold kfl_sizes in *.
  rewrite unit_fn_hyper.
  2:{ rewrite repeat_length; exact Hx. }
  2:{ destruct dims; [lia|discriminate]. }
  rewrite hyper_unit_G by (split; [rewrite repeat_length; exact Hx|exact Hr]).
  unfold KFL.unit_out. rewrite (kfl_unit_dense _ _ dims _ _ _ _ HL Hwf Hx Hr).
  apply G_ext_K.
  - unfold eff. destruct (KFL.c_clip c); [apply clip_onto_length|]; rewrite repeat_length; exact Hx.
  - intros i Hi. symmetry. apply (kern_dense (KFL.c_size c) dims units p u i Hu Hi). Qed.

(* ====================================================================== *)
(* (c) ParallelCombination                                                 *)
(* ====================================================================== *)
Lemma map_seq_nth {A B} (F : A -> B) (d : A) : forall m : list A,
  map (fun b => F (nth b m d)) (seq 0 (length m)) = map F m.
Proof. induction m as [|a m IH]; cbn [length seq map]. reflexivity.
  rewrite <- seq_shift, map_map. cbn [nth]. rewrite IH. reflexivity. Qed.

Lemma skipn_nth_cons {A} (d : A) : forall (r : list A) off, (off < length r)%nat ->
  skipn off r = nth off r d :: skipn (S off) r.
Proof. induction r as [|a r IH]; intros off H; cbn in H. lia.
  destruct off as [|off]. reflexivity. cbn [skipn nth]. rewrite (IH off) by lia. reflexivity. Qed.

Definition app1 (g : Q -> Q) (x : Q) : Q := g x.

(* row b of the concatenated outputs of pointwise calibrators *)
Lemma pc_row (m : mat) b : (b < length m)%nat -> forall (gs : list (Q -> Q)) off,
  length (nth b m []) = (off + length gs)%nat ->
  concat (map (fun o : mat => nth b o [])
              (map2 (fun (f : layer_fn) c => f c) (map pointwise gs)
                    (map (fun j => map (fun r : list Q => [nth j r 0]) m) (seq off (length gs))))) =
  map2 app1 gs (skipn off (nth b m [])).
Proof. intros Hb. induction gs as [|g gs IH]; intros off Hl. reflexivity.
  cbn [length seq map map2 concat]. rewrite (skipn_nth_cons 0 (nth b m []) off) by (cbn in Hl; lia).
  cbn [map2]. rewrite IH by (cbn in Hl; lia). unfold pointwise at 1. rewrite map_map. cbn [nth].
  rewrite (nth_map_lt (fun r : list Q => [g (nth off r 0)]) m b [] []) by exact Hb. reflexivity. Qed.

Theorem pc_pointwise (gs : list (Q -> Q)) (m : mat) : gs <> [] -> m <> [] ->
  (forall r, In r m -> length r = length gs) ->
  pc_call (map pointwise gs) true (PCTensor m) = Some (PCSingle (map (fun r => map2 app1 gs r) m)).
Proof. intros Hg Hm Hr. unfold pc_call.
  assert (Hw : width m = length gs).
  { unfold width. destruct m as [|r0 m]; [congruence|]. apply Hr. left; reflexivity. }
  unfold split_cols. rewrite !map_length, seq_length, Hw, Nat.eqb_refl. cbn [negb].
  set (outs := map2 _ _ _).
  assert (Hb : length (hd [] outs) = length m).
  { unfold outs. destruct gs as [|g gs]; [congruence|]. cbn [length seq map map2 hd]. unfold pointwise.
    rewrite !map_length. reflexivity. }
  rewrite Hb. unfold concat_cols. f_equal. f_equal.
  rewrite <- (map_seq_nth (fun r => map2 app1 gs r) [] m). apply map_ext_in. intros b Hbb. apply in_seq in Hbb.
  unfold outs. apply (pc_row m b ltac:(lia) gs 0%nat).
  cbn [Nat.add]. apply Hr. apply nth_In. lia. Qed.

(* for ARBITRARY layer functions: tensor input == list input of its columns;
   single_output == concat of the list output; the list output is the list of
   the layers applied to their own column *)
Lemma pc_forms (layers : list layer_fn) (m : mat) (cols : list mat) :
  (forall single, pc_call layers single (PCTensor m) = pc_call layers single (PCList (split_cols m))) /\
  (length cols = length layers ->
   pc_call layers false (PCList cols) = Some (PCMulti (map2 (fun (f : layer_fn) c => f c) layers cols)) /\
   pc_call layers true (PCList cols) =
     Some (PCSingle (concat_cols (length (hd [] (map2 (fun (f : layer_fn) c => f c) layers cols)))
                                 (map2 (fun (f : layer_fn) c => f c) layers cols)))) /\
  (length cols <> length layers -> forall single, pc_call layers single (PCList cols) = None).
Proof. split; [|split].
  - reflexivity.
  - intros H. unfold pc_call. rewrite H, Nat.eqb_refl. split; reflexivity.
  - intros H single. unfold pc_call. apply Nat.eqb_neq in H. rewrite H. reflexivity. Qed.

(* ====================================================================== *)
(* (d) Aggregation                                                         *)
(* ====================================================================== *)
Lemma firstn_skipn_app {A} : forall (a b : list A), firstn (length a) (a ++ b) = a /\ skipn (length a) (a ++ b) = b.
Proof. induction a as [|x a IH]; intros b; cbn [length app firstn skipn]. split; reflexivity.
  destruct (IH b) as [H1 H2]. rewrite H1, H2. split; reflexivity. Qed.

Lemma unflatten_concat {A B} (g : A -> B) : forall x : list (list A),
  unflatten (map (@length _) x) (map g (concat x)) = map (map g) x.
Proof. induction x as [|r x IH]; cbn [map concat unflatten]. reflexivity.
  rewrite map_app. rewrite <- (map_length g r).
  destruct (firstn_skipn_app (map g r) (map g (concat x))) as [H1 H2]. rewrite H1, H2, IH. reflexivity. Qed.

(* for every row-wise model and ragged rows of any lengths *)
Theorem aggregation_mean (g : list Q -> Q) (x : list (list (list Q))) :
  aggregation (rowwise g) x = map (fun row => KFL.qmean (map g row)) x.
Proof. unfold aggregation, rowwise. rewrite unflatten_concat, map_map. reflexivity. Qed.

(* ====================================================================== *)
(* (e) RTL call                                                            *)
(* ====================================================================== *)
Lemma entry_out_unitwise ufn flat e :
  entry_out (unitwise ufn) flat e =
  map (slot_out ufn flat) (map (fun u => (fst e, u, nth u (snd e) [])) (seq 0 (length (snd e)))).
Proof. unfold entry_out, unitwise. rewrite map_length, map_map. apply map_ext. intros u.
  unfold slot_out. cbn [fst snd]. f_equal.
  change (@nil Q) with (gather flat []) at 1. apply map_nth. Qed.

Lemma bucket_slots ufn flat s label :
  concat (bucket (unitwise ufn) flat s label) = map (slot_out ufn flat) (lattice_slots s label).
Proof. unfold bucket, lattice_slots. induction (entries s label) as [|e l IH]; cbn [map concat flat_map]. reflexivity.
  rewrite map_app, IH, entry_out_unitwise. reflexivity. Qed.

(* the slots are exactly the lattices RTLStructure.rtl_outputs attributes to the label *)
Lemma slots_are_rtl_outputs s :
  map snd (lattice_slots s 0) = fst (RTLStructure.rtl_outputs s) /\
  map snd (lattice_slots s 1) = snd (RTLStructure.rtl_outputs s).
Proof. unfold lattice_slots, RTLStructure.rtl_outputs. cbn [fst snd].
  assert (H : forall l : RTLStructure.structure,
    map snd (flat_map (fun e => map (fun u => (fst e, u, nth u (snd e) [])) (seq 0 (length (snd e)))) l) =
    concat (map snd l)).
  { induction l as [|e l IH]; cbn [flat_map map concat]. reflexivity.
    rewrite map_app, IH, map_map. cbn [snd]. rewrite (map_seq_nth (fun i : list nat => i) [] (snd e)), map_id. reflexivity. }
  split; apply H. Qed.

Theorem rtl_is_gather ufn s inc unc :
  let flat := rtl_flat inc unc in
  let o0 := map (slot_out ufn flat) (lattice_slots s 0) in
  let o1 := map (slot_out ufn flat) (lattice_slots s 1) in
  rtl_call (unitwise ufn) s false false inc unc = RJoint (o0 ++ o1) /\
  rtl_call (unitwise ufn) s false true inc unc = RJoint [KFL.qmean (o0 ++ o1)] /\
  (forall average, rtl_call (unitwise ufn) s true average inc unc = RSep (if_entries s 0 o0) (if_entries s 1 o1)).
Proof. intros flat o0 o1. unfold rtl_call. fold flat. rewrite concat_app, !bucket_slots. fold o0 o1.
  split; [reflexivity|split; [reflexivity|]]. intros _.
  assert (H : forall label, opt_concat (bucket (unitwise ufn) flat s label) =
                            if_entries s label (map (slot_out ufn flat) (lattice_slots s label))).
  { intros label. rewrite <- bucket_slots. unfold bucket, if_entries. destruct (entries s label); reflexivity. }
  rewrite !H. reflexivity. Qed.

(* ====================================================================== *)
(* (b1) pwl_calibration_fn == PWLCalibration on the derived parameters     *)
(* ====================================================================== *)
Definition nonzero (l : list Q) : Prop := Forall (fun d => ~ d == 0) l.

Lemma wclip_nonzero x kp len : ~ len == 0 -> CondPWL.wclip x kp len = qmax (qmin ((x - kp) / len) 1) 0.
Proof. intros H. unfold CondPWL.wclip. destruct (Qeq_bool len 0) eqn:E.
  apply Qeq_bool_iff in E. contradiction. reflexivity. Qed.

(* the interpolation stage, segment by segment: keypoint a == acc + imin *)
Lemma pwl_segments x imin : forall ds a acc kos, a == acc + imin -> nonzero ds ->
  qsum (map2 Qmult (map2 (CondPWL.wclip x) (map (fun s => s + imin) (CondPWL.cumsum_excl acc ds)) ds) kos) ==
  PWLEval.dot (PWLEval.interp_w x (PWLEval.kp_lefts (a :: PWLEval.cumsum_incl a ds))
                                  (PWLEval.kp_diffs (a :: PWLEval.cumsum_incl a ds))) kos.
Proof. induction ds as [|d ds IH]; intros a acc kos Ha Hnz. reflexivity.
  inversion Hnz as [|d' ds' Hd Hds]; subst.
  cbn [PWLEval.cumsum_incl CondPWL.cumsum_excl map map2].
  change (PWLEval.kp_lefts (a :: (a + d) :: PWLEval.cumsum_incl (a + d) ds)) with
         (a :: PWLEval.kp_lefts ((a + d) :: PWLEval.cumsum_incl (a + d) ds)).
  change (PWLEval.kp_diffs (a :: (a + d) :: PWLEval.cumsum_incl (a + d) ds)) with
         ((a + d - a) :: PWLEval.kp_diffs ((a + d) :: PWLEval.cumsum_incl (a + d) ds)).
  cbn [PWLEval.interp_w]. destruct kos as [|k kos]; cbn [map2 qsum PWLEval.dot]. reflexivity.
  rewrite (IH (a + d) (acc + d) kos) by (try assumption; rewrite Ha; ring).
  rewrite wclip_nonzero by exact Hd.
  assert (E : (x - (acc + imin)) / d == (x - a) / (a + d - a)).
  { assert (E1 : a + d - a == d) by ring. rewrite E1, Ha. reflexivity. }
  rewrite E. reflexivity. Qed.

Theorem pwl_interp_equals_layer x imin deltas kos : nonzero deltas ->
  CondPWL.interp x (map (fun s => s + imin) (CondPWL.cumsum_excl 0 deltas)) deltas kos ==
  PWLEval.pwl_fn (PWLEval.kp_lefts (layer_keypoints imin deltas)) (PWLEval.kp_diffs (layer_keypoints imin deltas)) kos x.
Proof. intros Hnz. unfold CondPWL.interp, CondPWL.interp_weights, PWLEval.pwl_fn, PWLEval.interpolation_weights, layer_keypoints.
  destruct kos as [|k kos]; cbn [map2 qsum PWLEval.dot]. reflexivity.
  rewrite (pwl_segments x imin deltas imin 0 kos) by (try assumption; ring). reflexivity. Qed.

(* the whole per-(row, unit) function of pwl_calibration_fn, for ANY softmax /
   sigmoid whose derived keypoint deltas are non-zero, when no missing value
   is configured: the PWLCalibration calibration function on the derived
   keypoints and the derived kernel column [y0, dy1, dy2, ...] *)
Theorem pwl_fn_equals_layer sm sg c kip kop x :
  CondPWL.p_min c = None -> nonzero (CondPWL.key_deltas sm c kip) ->
  let ks := layer_keypoints (CondPWL.p_imin c) (CondPWL.key_deltas sm c kip) in
  CondPWL.pwl_row sm sg c kip kop x ==
  PWLEval.pwl_fn (PWLEval.kp_lefts ks) (PWLEval.kp_diffs ks) (CondPWL.derived_outputs sm sg c kop) x.
Proof. intros Hm Hnz ks. unfold CondPWL.pwl_row. rewrite Hm. unfold CondPWL.keypoints, CondPWL.derived_outputs.
  apply pwl_interp_equals_layer. exact Hnz. Qed.

(* ... and that calibration function is what the built single-unit layer's call() returns *)
Lemma column0_singletons (kos : list Q) : column 0 (map (fun v => [v]) kos) = kos.
Proof. unfold column. rewrite map_map. cbn [nth]. apply map_id. Qed.

Theorem pwl_layer_call ks kos x :
  PWLEval.pwl_call (PWLEval.build_fixed 1 ks false (map (fun v => [v]) kos) false None None [] false)
                   false [[x]] None =
  Some [[[PWLEval.pwl_fn (PWLEval.kp_lefts ks) (PWLEval.kp_diffs ks) kos x]]].
Proof. unfold PWLEval.pwl_call, PWLEval.build_fixed. cbn -[PWLEval.pwl_fn PWLEval.kp_lefts PWLEval.kp_diffs column].
  unfold PWLEval.call_row, PWLEval.calib_row, PWLEval.expands, PWLEval.bias_and_heights.
  cbn -[PWLEval.pwl_fn PWLEval.kp_lefts PWLEval.kp_diffs column PWLEval.interpolation_weights PWLEval.dot].
  rewrite column0_singletons. reflexivity. Qed.

(* missing value with a given missing_output_value: tf.where(equal(x, m), v, out)
   on the functional side, is_missing * v + (1 - is_missing) * out in the layer *)
Theorem pwl_fn_equals_layer_missing sm sg c kip kop x m v :
  CondPWL.p_min c = Some m -> CondPWL.p_mout c = Some v -> nonzero (CondPWL.key_deltas sm c kip) ->
  let ks := layer_keypoints (CondPWL.p_imin c) (CondPWL.key_deltas sm c kip) in
  let f := PWLEval.pwl_fn (PWLEval.kp_lefts ks) (PWLEval.kp_diffs ks) (CondPWL.derived_outputs sm sg c kop) x in
  let mu := if Qeq_bool x m then 1 else 0 in
  CondPWL.pwl_row sm sg c kip kop x == mu * v + (1 - mu) * f.
Proof. intros Hm Hv Hnz ks f mu. unfold CondPWL.pwl_row, CondPWL.split_missing. rewrite Hm, Hv. cbn [fst snd].
  unfold mu. destruct (Qeq_bool x m). ring.
  unfold f, ks, CondPWL.keypoints, CondPWL.derived_outputs, CondPWL.split_missing. rewrite Hm, Hv. cbn [snd].
  rewrite pwl_interp_equals_layer by exact Hnz. ring. Qed.

Theorem pwl_layer_call_missing ks kos x m v :
  PWLEval.pwl_call (PWLEval.build_fixed 1 ks false (map (fun v => [v]) kos) true (Some m) (Some v) [] false)
                   false [[x]] None =
  Some [[[(if Qeq_bool x m then 1 else 0) * v +
          (1 - (if Qeq_bool x m then 1 else 0)) * PWLEval.pwl_fn (PWLEval.kp_lefts ks) (PWLEval.kp_diffs ks) kos x]]].
Proof. unfold PWLEval.pwl_call, PWLEval.build_fixed. cbn -[PWLEval.pwl_fn PWLEval.kp_lefts PWLEval.kp_diffs column].
  unfold PWLEval.call_row, PWLEval.mix_row, PWLEval.calib_row, PWLEval.expands, PWLEval.bias_and_heights, PWLEval.equal_flags.
  cbn -[PWLEval.pwl_fn PWLEval.kp_lefts PWLEval.kp_diffs column PWLEval.interpolation_weights PWLEval.dot Qeq_bool Qmult Qplus Qminus].
  rewrite column0_singletons. reflexivity. Qed.

(* ====================================================================== *)
(* (b2) cdf_fn == CDF layer (mean / none reductions)                       *)
(* ====================================================================== *)
Definition leq (a b : list Q) : Prop := Forall2 Qeq a b.
Definition meq (a b : mat) : Prop := Forall2 leq a b.
Definition opt_meq (a b : option mat) : Prop :=
  match a, b with Some x, Some y => meq x y | None, None => True | _, _ => False end.

Lemma leq_nth a b : leq a b -> forall j, nth j a 0 == nth j b 0.
Proof. induction 1 as [|x y a b H _ IH]; intros [|j]; cbn [nth]; try reflexivity. exact H. apply IH. Qed.
Lemma leq_qsum a b : leq a b -> qsum a == qsum b.
Proof. induction 1 as [|x y a b H _ IH]; cbn [qsum]. reflexivity. rewrite H, IH. reflexivity. Qed.
Lemma leq_length a b : leq a b -> length a = length b.
Proof. induction 1; cbn; congruence. Qed.
Lemma leq_app a b c d : leq a b -> leq c d -> leq (a ++ c) (b ++ d).
Proof. intros H1 H2. apply Forall2_app; assumption. Qed.
Lemma leq_map_seq (f g : nat -> Q) n : (forall k, (k < n)%nat -> f k == g k) -> leq (map f (seq 0 n)) (map g (seq 0 n)).
Proof. intros H. assert (G : forall a m, (forall k, (a <= k < a + m)%nat -> f k == g k) -> leq (map f (seq a m)) (map g (seq a m))).
  { intros a m; revert a. induction m as [|m IH]; intros a Hk; cbn [seq map]; constructor. apply Hk; lia. apply IH. intros; apply Hk; lia. }
  apply G. intros k Hk. apply H. lia. Qed.
Lemma meq_map_seq (f g : nat -> list Q) n : (forall k, (k < n)%nat -> leq (f k) (g k)) -> meq (map f (seq 0 n)) (map g (seq 0 n)).
Proof. intros H. assert (G : forall a m, (forall k, (a <= k < a + m)%nat -> leq (f k) (g k)) -> meq (map f (seq a m)) (map g (seq a m))).
  { intros a m; revert a. induction m as [|m IH]; intros a Hk; cbn [seq map]; constructor. apply Hk; lia. apply IH. intros; apply Hk; lia. }
  apply G. intros k Hk. apply H. lia. Qed.
Lemma meq_column u a b : meq a b -> leq (column u a) (column u b).
Proof. unfold column. induction 1 as [|x y a b H _ IH]; cbn [map]; constructor. apply leq_nth; exact H. exact IH. Qed.
Lemma meq_concat a b : meq a b -> leq (concat a) (concat b).
Proof. induction 1 as [|x y a b H _ IH]; cbn [concat]. constructor. apply leq_app; assumption. Qed.
Lemma cdf_qmean_proper a b : leq a b -> CDF.qmean a == CDF.qmean b.
Proof. intros H. unfold CDF.qmean. rewrite (leq_qsum a b H), (leq_length a b H). reflexivity. Qed.

Lemma reshape2_proper rows cols a b : meq a b -> meq (CDF.reshape2 rows cols a) (CDF.reshape2 rows cols b).
Proof. intros H. unfold CDF.reshape2. apply meq_map_seq. intros i _. apply leq_map_seq. intros u _.
  apply leq_nth. apply meq_concat. exact H. Qed.

Lemma reduce_proper ex lg r eps eps' n n' units a b : r = CDF.RMean \/ r = CDF.RNone -> meq a b ->
  meq (CDF.reduce ex lg r eps n units a) (CDF.reduce ex lg r eps' n' units b).
Proof. intros [->| ->] H; cbn [CDF.reduce]. 2: exact H.
  constructor; [|constructor]. apply leq_map_seq. intros u _. apply cdf_qmean_proper. apply meq_column. exact H. Qed.

Lemma basis_proper sg a zs zs' : (forall p q, p == q -> sg p == sg q) -> leq zs zs' -> CDF.basis sg a zs == CDF.basis sg a zs'.
Proof. intros Hsg H. assert (M : forall f : Q -> Q, (forall p q, p == q -> f p == f q) -> leq (map f zs) (map f zs')).
  { intros f Hf. induction H as [|x y zs zs' E _ IH]; cbn [map]; constructor. apply Hf; exact E. exact IH. }
  assert (R : leq (map CDF.relu6 zs) (map CDF.relu6 zs')).
  { apply M. intros p q E. unfold CDF.relu6. rewrite E. reflexivity. }
  assert (S : leq (map sg zs) (map sg zs')) by (apply M; exact Hsg).
  unfold CDF.basis. destruct a; try rewrite (cdf_qmean_proper _ _ R); try rewrite (cdf_qmean_proper _ _ S); reflexivity. Qed.

(* the scaling_parameters tensor built from the layer's input_scaling reads back that scaling *)
Lemma cdf_scaling_read D scaling i k v : (i < D)%nat ->
  CondPWL.bsel 0 v (CondPWL.bsel [] k (CondPWL.bsel [] i (cdf_scaling_param D scaling))) = CondPWL.bsel 0 i scaling.
Proof. intros Hi. unfold cdf_scaling_param.
  assert (E : CondPWL.bsel [] i (map (fun i0 => [[CondPWL.bsel 0 i0 scaling]]) (seq 0 D)) = [[CondPWL.bsel 0 i scaling]]).
  { unfold CondPWL.bsel at 1. rewrite map_length, seq_length. destruct (Nat.eqb_spec D 1) as [->|Hne].
    - assert (i = 0%nat) by lia. subst i. reflexivity.
    - rewrite (nth_map_seq (fun i0 => [[CondPWL.bsel 0 i0 scaling]]) D i [] Hi). reflexivity. }
  rewrite E. reflexivity. Qed.

Lemma cdf_cells_eq sg ex a kernel scaling x uf : (forall p q, p == q -> sg p == sg q) -> length x = length kernel ->
  meq (CDF.cdf_cells sg ex a None x kernel (Some (cdf_scaling_param (length x) scaling)) uf)
      (CDF.layer_cells sg a kernel scaling x uf).
Proof. intros Hsg Hl. unfold CDF.cdf_cells, CDF.layer_cells. rewrite <- Hl. apply meq_map_seq. intros i Hi.
  apply leq_map_seq. intros v _. apply basis_proper. exact Hsg. apply leq_map_seq. intros k _.
  rewrite cdf_scaling_read by exact Hi. cbn [CDF.scale_of].
  assert (E : CondPWL.bsel 0 i x = nth i x 0).
  { unfold CondPWL.bsel. destruct (Nat.eqb_spec (length x) 1) as [E1|_]; [|reflexivity].
    assert (i = 0%nat) by lia. subst i. reflexivity. }
  rewrite E. ring. Qed.

Theorem cdf_fn_equals_layer sg ex lg a r units sf kernel scaling x :
  (forall p q, p == q -> sg p == sg q) -> r = CDF.RMean \/ r = CDF.RNone ->
  length x = length kernel -> CDF.verify_cdf a r (length x) units sf kernel = true ->
  opt_meq (CDF.cdf_fn sg ex lg a r units sf None x kernel (Some (cdf_scaling_param (length x) scaling)))
          (CDF.cdf_layer sg ex lg a r units sf kernel scaling x).
Proof. intros Hsg Hr Hl Hv. unfold CDF.cdf_fn, CDF.cdf_layer. rewrite Hv. cbn [negb].
  pose proof Hv as Hv'. unfold CDF.verify_cdf in Hv'. repeat rewrite andb_true_iff in Hv'.
  destruct Hv' as [[[[[[Ha Hrd] Hsf] Hu] Hd] _] _].
  rewrite <- Hl. rewrite Ha, Hrd, Hsf, Hu, Hd, Nat.eqb_refl. cbn [andb orb negb].
  pose proof (cdf_cells_eq sg ex a kernel scaling x (units / sf) Hsg Hl) as C.
  destruct (sf =? 1)%nat; cbn [opt_meq].
  - apply reduce_proper; assumption.
  - apply reduce_proper. assumption. apply reshape2_proper. exact C. Qed.

(* ====================================================================== *)
(* Examples: the hypotheses of every implication are satisfiable           *)
(* ====================================================================== *)
Definition ex_cfg (clip : bool) : KFL.config := KFL.mkCfg 3 None None None clip.
(* 2 units, 2 terms, 2 dims, 3 vertices *)
Definition ex_par : KFL.params :=
  KFL.mkPar [ [ [[1; 2; 4]; [0; 1; -1]]; [[1#2; 0; 3]; [2; 2; 1]] ];
              [ [[-1; 0; 1]; [1; 3; 2]];  [[0; 1; 0]; [1; -2; 5]] ] ]
            [[1; -2]; [3#2; 1#4]] [1#2; -3].
Example ex_kfl_hyps_in_range :
  (2 <= KFL.c_size (ex_cfg false))%nat /\ (1 <= 2)%nat /\ (1 < 2)%nat /\
  terms_wf 2 (nth 1 (KFL.p_kern ex_par) []) /\ length [1#2; 3#2] = 2%nat /\
  (KFL.c_clip (ex_cfg false) = true \/ inr (kfl_sizes 3 2) [1#2; 3#2]) /\
  Qeq_bool (KFL.unit_out (ex_cfg false) ex_par 1 [1#2; 3#2])
           (unit_fn Hypercube true false 2 (kfl_sizes 3 2) (dense_of_kfl 3 2 2 ex_par) 1 [1#2; 3#2]) = true.
Proof. repeat split; try (cbn; lia); try reflexivity.
  - repeat constructor.
  - right. unfold inr, kfl_sizes. cbn [repeat].
    assert (E : qn 3 - 1 == 2) by reflexivity.
    repeat (constructor; [rewrite E; split; lra|]). constructor.
Qed.
Example ex_kfl_hyps_clipped :
  KFL.c_clip (ex_cfg true) = true /\
  Qeq_bool (KFL.unit_out (ex_cfg true) ex_par 0 [-(1#2); 7#2])
           (unit_fn Hypercube true true 2 (kfl_sizes 3 2) (dense_of_kfl 3 2 2 ex_par) 0 [-(1#2); 7#2]) = true.
Proof. split; reflexivity. Qed.

(* a stand-in softmax (uniform) and sigmoid for the satisfiability examples *)
Definition ex_sm (l : list Q) : list Q := map (fun _ => 1 / inject_Z (Z.of_nat (length l))) l.
Definition ex_sg (z : Q) : Q := 1 # 2.
Definition ex_pcfg (mi mo : option Q) : CondPWL.pcfg :=
  CondPWL.mkP (-1) 3 0 2 1 CondPWL.MonoInc false true false mi mo.
Ltac nonzero_tac := unfold nonzero; vm_compute; repeat (constructor; [discriminate|]); constructor.
Example ex_pwl_hyps :
  CondPWL.p_min (ex_pcfg None None) = None /\
  nonzero (CondPWL.key_deltas ex_sm (ex_pcfg None None) (Some [1; 2; 3])).
Proof. split. reflexivity. nonzero_tac. Qed.
Example ex_pwl_missing_hyps :
  CondPWL.p_min (ex_pcfg (Some 7) (Some 5)) = Some 7 /\ CondPWL.p_mout (ex_pcfg (Some 7) (Some 5)) = Some 5 /\
  nonzero (CondPWL.key_deltas ex_sm (ex_pcfg (Some 7) (Some 5)) None).
Proof. split; [reflexivity|split; [reflexivity|nonzero_tac]]. Qed.

(* input_dim 2, 3 keypoints, units 2, sparsity 2 -> last kernel axis 1 *)
Definition ex_cdf_kernel : list (list (list Q)) := [[[0]; [1#2]; [1]]; [[1#4]; [1#2]; [3#4]]].
Example ex_cdf_hyps :
  (forall p q, p == q -> CDF.relu6 p == CDF.relu6 q) /\ length [1#3; 2] = length ex_cdf_kernel /\
  CDF.verify_cdf CDF.Relu6 CDF.RNone (length [1#3; 2]) 2 2 ex_cdf_kernel = true /\
  CDF.verify_cdf CDF.Sigmoid CDF.RMean (length [1#3; 2]) 2 2 ex_cdf_kernel = true.
Proof. split. intros p q E. unfold CDF.relu6. rewrite E. reflexivity. repeat split; reflexivity. Qed.

Example ex_pc_hyps : [CDF.relu6; Qplus 1] <> [] /\ [[1; 2]; [3; 4]] <> [] /\
  (forall r, In r [[1; 2]; [3; 4]] -> length r = length [CDF.relu6; Qplus 1]).
Proof. split; [discriminate|split; [discriminate|]]. intros r [<-|[<-|[]]]; reflexivity. Qed.

(* ====================================================================== *)
(* (a) at the level of the whole layers: all units of one batch point      *)
(* ====================================================================== *)
Lemma map2_seq_nth {B} (F : nat -> list Q -> B) : forall (pt : list (list Q)) off,
  map2 (fun (f : list Q -> B) x => f x) (map F (seq off (length pt))) pt =
  map (fun u => F u (nth (u - off) pt [])) (seq off (length pt)).
Proof. induction pt as [|r pt IH]; intros off; cbn [length seq map map2]. reflexivity.
  rewrite Nat.sub_diag. cbn [nth]. f_equal. rewrite IH. apply map_ext_in. intros u Hu. apply in_seq in Hu.
  replace (u - off)%nat with (S (u - S off)) by lia. reflexivity. Qed.

Theorem kfl_layer_equals_dense tensor c p pt dims :
  let units := length (KFL.p_scale p) in
  let sizes := kfl_sizes (KFL.c_size c) dims in
  (2 <= KFL.c_size c)%nat -> (1 <= dims)%nat -> length pt = units ->
  (forall u, (u < units)%nat -> terms_wf dims (nth u (KFL.p_kern p) []) /\ length (nth u pt []) = dims /\
                                (KFL.c_clip c = true \/ inr sizes (nth u pt []))) ->
  leq (KFL.layer_out c p pt)
      (nth 0 (lattice_eval Hypercube tensor (KFL.c_clip c) units sizes
                           (dense_of_kfl (KFL.c_size c) dims units p) [pt]) []).
Proof. intros units sizes HL Hd Hl H. unfold lattice_eval, KFL.layer_out. cbn [map nth]. fold units.
  rewrite <- Hl. rewrite (map2_seq_nth (unit_fn Hypercube tensor (KFL.c_clip c) (length pt) sizes
                                                (dense_of_kfl (KFL.c_size c) dims (length pt) p)) pt 0).
  apply leq_map_seq. intros u Hu. rewrite Nat.sub_0_r. rewrite Hl in *.
  destruct (H u Hu) as [Hwf [Hx Hr]]. apply kfl_equals_dense; assumption. Qed.
