(* C06: "weights that already satisfy the constraints are returned unchanged" for a
   feasible column whose norm is numerically zero (< 1e-8) under normalization
   order 1 or 2: tf.where(norm < eps, 1.0, norm) divides by 1, so the column is
   returned as it is (not scaled up to unit norm). *)
From TFL Require Import Model.LinearProject Proofs.PartialOrder Proofs.TopoSort Proofs.LinearProject.
Open Scope Q_scope.

Lemma lin_fixed_small_l1 rt c n w r : lin_valid c n -> length w = n -> lc_norm c = 1%nat ->
  lin_feasible c w -> qsum (map qabs w) < norm_eps -> lin_project_col rt c w = Some r -> peq r w.
Proof. intros V L N F U E. destruct (lin_spec rt c n w r V L E) as [w3 [e [_ [Er [_ [_ [_ [_ [Fx _]]]]]]]]].
  specialize (Fx F). rewrite N in Er. subst r. eapply peq_trans; [|exact Fx]. apply normalize_small.
  cbn [col_norm].
  assert (E1 : qsum (map qabs w3) == qsum (map qabs w)).
  { apply qsum_map_peq; [|exact Fx]. intros x y Hxy. rewrite Hxy. reflexivity. }
  rewrite E1. exact U. Qed.

Lemma lin_fixed_small_l2 rt c n w r : (forall x y, x == y -> rt x == rt y) ->
  lin_valid c n -> length w = n -> lc_norm c = 2%nat ->
  lin_feasible c w -> rt (qsum (map (fun x => x * x) w)) < norm_eps -> lin_project_col rt c w = Some r -> peq r w.
Proof. intros Hrt V L N F U E. destruct (lin_spec rt c n w r V L E) as [w3 [e [_ [Er [_ [_ [_ [_ [Fx _]]]]]]]]].
  specialize (Fx F). rewrite N in Er. subst r. eapply peq_trans; [|exact Fx]. apply normalize_small.
  cbn [col_norm].
  assert (E1 : qsum (map (fun x => x * x) w3) == qsum (map (fun x => x * x) w)).
  { apply qsum_map_peq; [|exact Fx]. intros x y Hxy. rewrite Hxy. reflexivity. }
  rewrite (Hrt _ _ E1). exact U. Qed.

(* satisfiable: the all-zero column is feasible for the example configuration
   (7 inputs, monotonic and range dominances, L1 norm) and has norm 0 < 1e-8 *)
Example small_norm_example :
  lin_valid ex_cfg 7 /\ lc_norm ex_cfg = 1%nat /\ lin_feasible ex_cfg (repeat 0 7) /\
  qsum (map qabs (repeat 0 7)) < norm_eps /\ lin_project_col qsqrt ex_cfg (repeat 0 7) = Some (repeat 0 7).
Proof. split; [exact ex_cfg_valid|split; [reflexivity|split; [|split]]].
  - split; [|split].
    + intros i. unfold mono. cbn. do 7 (destruct i as [|i]; [split; intros; try discriminate; lra|]). destruct i; split; intros; discriminate.
    + intros d k H. in_cases H; cbn; lra.
    + intros d k H. in_cases H. vm_compute. discriminate.
  - vm_compute. reflexivity.
  - vm_compute. reflexivity. Qed.
