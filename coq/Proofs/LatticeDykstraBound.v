(* The Boyle-Dykstra bound (Proofs/DykstraBound.v) for the MODEL of
   lattice_lib.project_by_dykstra (Model/LatticeDykstra.v): dyk_step / dyk_sweep
   / dyk_loop with the keyed last_change dictionary.

   The model's sweep is not literally an [asweep] (dictionary with shared keys,
   memo / Qred around every tensor), so the one-step lemma [bd_step] is iterated
   directly over dyk_step, with a ghost function  lp : key -> tens  (the point
   produced by the last projection stored under a key) that exists only in the
   proof.  The potential sums over the DISTINCT keys of the maps, so no
   hypothesis "no constraint listed twice" is needed here.

   dist2 sh f g = sum over all valid indices of (f - g)^2.

   [dyk_loop_bound]        generic keyed nearest-point maps, common point Y:
                           dist2 (W_n, Y) + (squared movement of sweeps 1..n) <= dist2 (W_0, Y)
   [dyk_loop_stalls]       n >= 1: some sweep k < n moves by at most dist2 (W_0, Y) / n
   [dyk_moves_zero_fixpoint] a sweep that does not move reproduces every stored change
   [dykstra_never_farther], [dykstra_moves_summable], [dykstra_stalls],
   [project_by_dykstra_never_farther], [dykstra_stalled_nearest]
                           the same for group_ops c of a configuration of the six
                           exact families and a feasible kernel Y. *)
From TFL Require Export Proofs.LatticeDykstra Proofs.DykstraBound.
Open Scope Q_scope.

Definition dist2 (sh : list nat) (f g : tens) : Q := d2 (all_idx sh) f g.

Definition key_dec : forall a b : key, {a = b} + {a <> b} := list_eq_dec Z.eq_dec.

(* squared movement of one sweep: sum over its group steps of dist2 (W_after, W_before) *)
Fixpoint dyk_moves (sh : list nat) (ops : list (key * (tens -> tens))) (st : tens * list (key * tens)) : Q :=
  match ops with
  | [] => 0
  | kop :: r => let st' := dyk_step sh st kop in dist2 sh (fst st') (fst st) + dyk_moves sh r st'
  end.
(* ... of each of the first n sweeps *)
Fixpoint dyk_loop_moves (sh : list nat) (ops : list (key * (tens -> tens))) (n : nat) (st : tens * list (key * tens)) : list Q :=
  match n with
  | O => []
  | S n' => dyk_moves sh ops st :: dyk_loop_moves sh ops n' (dyk_sweep sh ops st)
  end.

Lemma dyk_moves_nonneg sh ops : forall st, 0 <= dyk_moves sh ops st.
Proof. induction ops as [|kop r IH]; intros st; cbn [dyk_moves]. lra.
  pose proof (d2_nonneg (all_idx sh) (fst (dyk_step sh st kop)) (fst st)). specialize (IH (dyk_step sh st kop)).
  unfold dist2. lra. Qed.
Lemma dyk_loop_moves_length sh ops n : forall st, length (dyk_loop_moves sh ops n st) = n.
Proof. induction n as [|n IH]; intros st; cbn [dyk_loop_moves length]. reflexivity. rewrite IH. reflexivity. Qed.
Lemma dyk_loop_moves_nth sh ops n : forall st k, (k < n)%nat ->
  nth k (dyk_loop_moves sh ops n st) 0 = dyk_moves sh ops (dyk_loop sh ops k st).
Proof. induction n as [|n IH]; intros st k Hk. lia. destruct k as [|k]; cbn [dyk_loop_moves nth dyk_loop]. reflexivity.
  apply IH. lia. Qed.
Lemma dyk_loop_moves_nonneg sh ops n : forall st m, In m (dyk_loop_moves sh ops n st) -> 0 <= m.
Proof. induction n as [|n IH]; intros st m; cbn [dyk_loop_moves]. intros []. intros [<-|H]. apply dyk_moves_nonneg. exact (IH _ _ H). Qed.

(* changing one summand of a sum over a duplicate-free list *)
Lemma qsum_update {B} (K : list B) (G G' : B -> Q) (k : B) : NoDup K -> In k K ->
  (forall k', In k' K -> k' <> k -> G' k' == G k') ->
  qsum (map G' K) == qsum (map G K) - G k + G' k.
Proof. induction K as [|a r IH]; intros Hnd Hin Hoth. destruct Hin.
  inversion Hnd as [|? ? Hnotin Hnd']; subst. cbn [map qsum]. destruct Hin as [->|Hin].
  - assert (E : qsum (map G' r) == qsum (map G r)).
    { apply qsum_map_ext. intros k' Hk'. apply Hoth. right; exact Hk'. intros ->. contradiction. }
    rewrite E. lra.
  - rewrite (IH Hnd' Hin) by (intros k' Hk' Hne; apply Hoth; [right; exact Hk'|exact Hne]).
    rewrite (Hoth a (or_introl eq_refl)) by (intros ->; contradiction). lra. Qed.

Section ModelBound.
Variables (sh : list nat) (Cof : key -> tens -> Prop) (Y : tens) (K : list key).
Hypothesis K_nodup : NoDup K.
Notation II := (all_idx sh).
Notation state := (tens * list (key * tens))%type.

(* dual part of the potential, with the ghost last points lp *)
Definition mdual (lc : list (key * tens)) (lp : key -> tens) : Q :=
  qsum (map (fun k => ip II (lc_get lc k) (vsub Y (lp k))) K).
Definition mphi (st : state) (lp : key -> tens) : Q := dist2 sh (fst st) Y + 2 * mdual (snd st) lp.
Definition minv (lc : list (key * tens)) (lp : key -> tens) : Prop :=
  forall k, In k K -> forall c, Cof k c -> 0 <= ip II (lc_get lc k) (vsub c (lp k)).
(* key among K, the map is a nearest-point map onto the set of its key, which contains Y *)
Definition op_good (kop : key * (tens -> tens)) : Prop :=
  In (fst kop) K /\ is_proj II (Cof (fst kop)) (snd kop) /\ Cof (fst kop) Y.

Lemma m_step (st : state) kop lp : op_good kop -> minv (snd st) lp ->
  exists lp', minv (snd (dyk_step sh st kop)) lp' /\
    mphi (dyk_step sh st kop) lp' + dist2 sh (fst (dyk_step sh st kop)) (fst st) <= mphi st lp.
Proof. destruct st as [W lc], kop as [k op]. intros (HK & HP & HY) Hinv. cbn [fst snd] in *.
  unfold dyk_step. cbv zeta.
  set (rolled := memo sh (fun x => Qred (W x - lc_get lc k x))).
  set (W1 := op rolled).
  set (new := memo sh (fun x => Qred (W1 x - rolled x))).
  cbn [fst snd].
  assert (Hz : veq II rolled (vsub W (lc_get lc k))).
  { apply teq_veq. apply memo_teq_l. intros x _. rewrite Qred_correct. reflexivity. }
  assert (He : veq II new (vsub W1 rolled)).
  { apply teq_veq. apply memo_teq_l. intros x _. rewrite Qred_correct. reflexivity. }
  destruct (bd_step II (Cof k) op Y W (lc_get lc k) (lp k) rolled new HP HY (Hinv k HK) Hz He) as (Hnew & Hsl & Hid).
  fold W1 in Hnew, Hsl, Hid.
  set (lp' := fun k' : key => if key_eqb k' k then W1 else lp k').
  assert (Hsame : lp' k = W1) by (unfold lp'; rewrite key_eqb_refl; reflexivity).
  assert (Hoth : forall k', k' <> k -> lp' k' = lp k') by (intros k' Hne; unfold lp'; rewrite key_eqb_neq by exact Hne; reflexivity).
  exists lp'. split.
  - intros k' Hk' c Hc. destruct (key_dec k' k) as [->|Hne].
    + rewrite lc_get_set_same, Hsame. apply Hnew. exact Hc.
    + rewrite lc_get_set_other by exact Hne. rewrite Hoth by exact Hne. apply Hinv; assumption.
  - unfold mphi, mdual. cbn [fst snd].
    rewrite (qsum_update K (fun k' => ip II (lc_get lc k') (vsub Y (lp k')))
               (fun k' => ip II (lc_get (lc_set lc k new) k') (vsub Y (lp' k'))) k K_nodup HK).
    + cbv beta. rewrite lc_get_set_same, Hsame. unfold dist2 in *. lra.
    + intros k' _ Hne. cbv beta. rewrite lc_get_set_other by exact Hne. rewrite Hoth by exact Hne. reflexivity. Qed.

Lemma m_sweep ops : forall (st : state) lp, (forall kop, In kop ops -> op_good kop) -> minv (snd st) lp ->
  exists lp', minv (snd (dyk_sweep sh ops st)) lp' /\
    mphi (dyk_sweep sh ops st) lp' + dyk_moves sh ops st <= mphi st lp.
Proof. induction ops as [|kop r IH]; intros st lp Hg Hi.
  - exists lp. split. exact Hi. cbn [dyk_moves]. unfold dyk_sweep. cbn [fold_left]. lra.
  - rewrite dyk_sweep_cons. cbn [dyk_moves].
    destruct (m_step st kop lp (Hg kop (or_introl eq_refl)) Hi) as [lp1 [Hi1 H1]].
    destruct (IH (dyk_step sh st kop) lp1 (fun k H => Hg k (or_intror H)) Hi1) as [lp2 [Hi2 H2]].
    exists lp2. split. exact Hi2. lra. Qed.

Lemma m_loop ops n : forall (st : state) lp, (forall kop, In kop ops -> op_good kop) -> minv (snd st) lp ->
  exists lp', minv (snd (dyk_loop sh ops n st)) lp' /\
    mphi (dyk_loop sh ops n st) lp' + qsum (dyk_loop_moves sh ops n st) <= mphi st lp.
Proof. induction n as [|n IH]; intros st lp Hg Hi; cbn [dyk_loop dyk_loop_moves qsum].
  - exists lp. split. exact Hi. lra.
  - destruct (m_sweep ops st lp Hg Hi) as [lp1 [Hi1 H1]].
    destruct (IH (dyk_sweep sh ops st) lp1 Hg Hi1) as [lp2 [Hi2 H2]].
    exists lp2. split. exact Hi2. lra. Qed.

Lemma mdual_nonneg lc lp : (forall k, In k K -> Cof k Y) -> minv lc lp -> 0 <= mdual lc lp.
Proof. intros HY Hi. unfold mdual. apply qsum_map_nonneg. intros k Hk. apply Hi. exact Hk. apply HY. exact Hk. Qed.

Lemma m_init (W0 : tens) : minv [] (fun _ => W0) /\ mphi (W0, []) (fun _ => W0) == dist2 sh W0 Y.
Proof. split.
  - intros k _ c _. change (lc_get [] k) with (@vzero idx). rewrite ip_zero_l. lra.
  - unfold mphi, mdual. cbn [fst snd].
    assert (Z : qsum (map (fun k : key => ip II (lc_get [] k) (vsub Y W0)) K) == 0).
    { clear K_nodup. induction K as [|k r IH]; cbn [map qsum]. reflexivity.
      rewrite IH. change (lc_get [] k) with (@vzero idx). rewrite ip_zero_l. lra. }
    rewrite Z. lra. Qed.
End ModelBound.

(* ---- generic keyed nearest-point maps ---- *)
(* (b), which contains (a): no hypothesis on the keys (duplicates allowed), no
   properness, only: every map is a nearest-point map onto the set named by its
   key, and Y lies in all these sets. *)
Theorem dyk_loop_bound sh (ops : list (key * (tens -> tens))) (Cof : key -> tens -> Prop) (Y W0 : tens) (n : nat) :
  (forall kop, In kop ops -> is_proj (all_idx sh) (Cof (fst kop)) (snd kop) /\ Cof (fst kop) Y) ->
  dist2 sh (fst (dyk_loop sh ops n (W0, []))) Y + qsum (dyk_loop_moves sh ops n (W0, [])) <= dist2 sh W0 Y.
Proof. intros Hops.
  set (K := nodup key_dec (map fst ops)).
  assert (Hnd : NoDup K) by apply NoDup_nodup.
  assert (Hg : forall kop, In kop ops -> op_good sh Cof Y K kop).
  { intros kop Hin. destruct (Hops kop Hin) as [HP HY]. split; [|split; assumption].
    apply nodup_In. apply in_map. exact Hin. }
  assert (HYK : forall k, In k K -> Cof k Y).
  { intros k Hk. apply nodup_In in Hk. apply in_map_iff in Hk. destruct Hk as [kop [<- Hin]]. apply (Hops kop Hin). }
  destruct (m_init sh Cof Y K W0) as [Hi0 Hphi0].
  destruct (m_loop sh Cof Y K Hnd ops n (W0, []) (fun _ => W0) Hg Hi0) as [lp [Hi H]].
  pose proof (mdual_nonneg sh Cof Y K _ lp HYK Hi) as Hd.
  unfold mphi in H at 1. rewrite Hphi0 in H. lra. Qed.

Lemma qsum_nonneg_list (l : list Q) : (forall m, In m l -> 0 <= m) -> 0 <= qsum l.
Proof. intros H. rewrite <- (map_id l). apply qsum_map_nonneg. exact H. Qed.

Theorem dyk_loop_never_farther sh (ops : list (key * (tens -> tens))) (Cof : key -> tens -> Prop) (Y W0 : tens) (n : nat) :
  (forall kop, In kop ops -> is_proj (all_idx sh) (Cof (fst kop)) (snd kop) /\ Cof (fst kop) Y) ->
  dist2 sh (fst (dyk_loop sh ops n (W0, []))) Y <= dist2 sh W0 Y.
Proof. intros Hops. pose proof (dyk_loop_bound sh ops Cof Y W0 n Hops).
  pose proof (qsum_nonneg_list _ (dyk_loop_moves_nonneg sh ops n (W0, []))). lra. Qed.

Theorem dyk_loop_stalls sh (ops : list (key * (tens -> tens))) (Cof : key -> tens -> Prop) (Y W0 : tens) (n : nat) :
  (forall kop, In kop ops -> is_proj (all_idx sh) (Cof (fst kop)) (snd kop) /\ Cof (fst kop) Y) ->
  (1 <= n)%nat ->
  exists k, (k < n)%nat /\ dyk_moves sh ops (dyk_loop sh ops k (W0, [])) * qnat n <= dist2 sh W0 Y.
Proof. intros Hops Hn.
  destruct (qsum_pigeonhole (dyk_loop_moves sh ops n (W0, [])) (dist2 sh W0 Y)) as [k [Hk Hle]].
  - intros E. apply (f_equal (@length Q)) in E. rewrite dyk_loop_moves_length in E. cbn in E. lia.
  - pose proof (dyk_loop_bound sh ops Cof Y W0 n Hops).
    pose proof (d2_nonneg (all_idx sh) (fst (dyk_loop sh ops n (W0, []))) Y). unfold dist2 in *. lra.
  - rewrite dyk_loop_moves_length in Hk, Hle. exists k. split. exact Hk.
    rewrite <- (dyk_loop_moves_nth sh ops n (W0, []) k Hk). exact Hle. Qed.

(* a sweep that does not move reproduces every stored change (distinct keys) *)
Lemma dyk_moves_zero_fixpoint sh ops : forall st, NoDup (map fst ops) -> dyk_moves sh ops st <= 0 ->
  teq sh (fst (dyk_sweep sh ops st)) (fst st) /\
  forall kop, In kop ops -> teq sh (lc_get (snd (dyk_sweep sh ops st)) (fst kop)) (lc_get (snd st) (fst kop)).
Proof. induction ops as [|[k op] r IH]; intros [W lc] Hnd H.
  - split. apply teq_refl. intros kop [].
  - cbn [map fst] in Hnd. inversion Hnd as [|? ? Hnotin Hnd']; subst.
    rewrite dyk_sweep_cons. cbn [dyk_moves] in H.
    set (rolled := memo sh (fun x => Qred (W x - lc_get lc k x))) in *.
    set (W1 := op rolled) in *.
    set (new := memo sh (fun x => Qred (W1 x - rolled x))) in *.
    assert (Est : dyk_step sh (W, lc) (k, op) = (W1, lc_set lc k new)) by reflexivity.
    rewrite Est in H |- *. cbn [fst snd] in *.
    pose proof (d2_nonneg (all_idx sh) W1 W) as Hd. pose proof (dyk_moves_nonneg sh r (W1, lc_set lc k new)) as Hm.
    unfold dist2 in H.
    assert (HW1 : teq sh W1 W) by (apply teq_veq; apply d2_zero; lra).
    destruct (IH (W1, lc_set lc k new) Hnd' ltac:(lra)) as [IH1 IH2]. cbn [fst snd] in *. split.
    + eapply teq_trans. exact IH1. exact HW1.
    + intros kop [<-|Hin]; cbn [fst].
      * rewrite sweep_get_other by exact Hnotin. cbn [snd]. rewrite lc_get_set_same.
        unfold new. apply memo_teq_l. intros x Hx. rewrite Qred_correct. rewrite (HW1 x Hx).
        unfold rolled. rewrite memo_ok by exact Hx. rewrite Qred_correct. ring.
      * eapply teq_trans. apply IH2. exact Hin. rewrite lc_get_set_other. apply teq_refl.
        intros E. apply Hnotin. rewrite <- E. apply in_map. exact Hin. Qed.

(* ---- the configured group maps of the six exact families ---- *)
Lemma group_ops_bound_hyps c Y : dyk_cfg_ok c -> exact_families c -> dyk_feasible c Y ->
  forall kop, In kop (group_ops c) ->
    is_proj (all_idx (k_shape c)) (key_set c (fst kop)) (snd kop) /\ key_set c (fst kop) Y.
Proof. intros Hok Hex HY kop Hin. split. apply (group_ops_exact c Hok Hex kop Hin).
  apply feasible_key_sets; assumption. Qed.

Theorem dykstra_moves_summable (c : dyk_cfg) (W0 Y : tens) (n : nat) :
  dyk_cfg_ok c -> exact_families c -> dyk_feasible c Y ->
  let sh := k_shape c in
  dist2 sh (fst (dyk_loop sh (group_ops c) n (W0, []))) Y + qsum (dyk_loop_moves sh (group_ops c) n (W0, []))
    <= dist2 sh W0 Y.
Proof. intros Hok Hex HY. apply (dyk_loop_bound (k_shape c) (group_ops c) (key_set c)).
  apply group_ops_bound_hyps; assumption. Qed.

Theorem dykstra_never_farther (c : dyk_cfg) (W0 Y : tens) (n : nat) :
  dyk_cfg_ok c -> exact_families c -> dyk_feasible c Y ->
  let sh := k_shape c in
  dist2 sh (fst (dyk_loop sh (group_ops c) n (W0, []))) Y <= dist2 sh W0 Y.
Proof. intros Hok Hex HY. apply (dyk_loop_never_farther (k_shape c) (group_ops c) (key_set c)).
  apply group_ops_bound_hyps; assumption. Qed.

Theorem project_by_dykstra_never_farther (c : dyk_cfg) (W0 Y : tens) :
  dyk_cfg_ok c -> exact_families c -> dyk_feasible c Y ->
  dist2 (k_shape c) (project_by_dykstra c W0) Y <= dist2 (k_shape c) W0 Y.
Proof. intros Hok Hex HY. unfold project_by_dykstra.
  destruct (k_iters c =? 0)%nat. apply Qle_refl.
  match goal with |- context [if ?b then _ else _] => destruct b end. apply Qle_refl.
  apply dykstra_never_farther; assumption. Qed.

Theorem dykstra_stalls (c : dyk_cfg) (W0 Y : tens) (n : nat) :
  dyk_cfg_ok c -> exact_families c -> dyk_feasible c Y -> (1 <= n)%nat ->
  let sh := k_shape c in
  exists k, (k < n)%nat /\
    dyk_moves sh (group_ops c) (dyk_loop sh (group_ops c) k (W0, [])) * qnat n <= dist2 sh W0 Y.
Proof. intros Hok Hex HY Hn. apply (dyk_loop_stalls (k_shape c) (group_ops c) (key_set c)).
  apply group_ops_bound_hyps; assumption. exact Hn. Qed.

(* a sweep with zero movement has reached the nearest feasible kernel *)
Theorem dykstra_stalled_nearest (c : dyk_cfg) (W0 : tens) (n : nat) :
  dyk_cfg_ok c -> exact_families c -> trap_sizes_ok c ->
  NoDup (k_edge c) -> NoDup (k_trap c) -> NoDup (k_mdom c) -> NoDup (k_jmono c) ->
  let sh := k_shape c in
  let st := dyk_loop sh (group_ops c) n (W0, []) in
  dyk_moves sh (group_ops c) st <= 0 ->
  dyk_feasible c (fst st) /\
  forall z, dyk_feasible c z -> dist2 sh W0 (fst st) <= dist2 sh W0 z.
Proof. intros Hok Hex Hts He Ht Hm Hj sh st H0.
  pose proof (group_ops_keys_nodup c Hex He Ht Hm Hj) as Hnd.
  destruct (dyk_moves_zero_fixpoint sh (group_ops c) st Hnd H0) as [_ Hfix].
  destruct (dykstra_fixpoint_nearest c W0 n Hok Hex Hts Hnd Hfix) as (_ & Hfeas & Hnear).
  split. exact Hfeas. intros z Hz. apply (Hnear z Hz). Qed.

(* ---- the hypotheses are satisfiable; tight and strict instances ----
   exC_cfg: one monotone dimension of size 2, one unit, W0 = (1, 0).  One sweep
   gives (1/2, 1/2) with squared movement 1/2.
   Y  = (1/2, 1/2) (the nearest feasible kernel): 0 + 1/2 = dist2 (W0, Y)   (tight);
   Y' = (0, 1):                                   1/2 + 1/2 < 2 = dist2 (W0, Y') (strict). *)
Definition exD_Y : tens := of_list [2; 1]%nat [1#2; 1#2].
Definition exD_Y' : tens := of_list [2; 1]%nat [0; 1].
Lemma exD_feasible Y : mono_alongb (k_shape exC_cfg) 0 Y = true -> dyk_feasible exC_cfg Y.
Proof. intros H. unfold dyk_feasible. cbv zeta. split; [|split; [|split; [|split; [|split; [|split; [|split]]]]]];
    try (intros t []; fail).
  - intros d Hd Hm. unfold k_rank in Hd. cbn in Hd. destruct d as [|d]; try lia. apply mono_alongb_ok. exact H.
  - intros d Hd Hu. unfold k_rank in Hd. cbn in Hd. destruct d as [|d]; try lia. exfalso; apply Hu; reflexivity. Qed.
Example never_farther_hyps_D :
  let sh := k_shape exC_cfg in let ops := group_ops exC_cfg in
  dyk_cfg_ok exC_cfg /\ exact_families exC_cfg /\ dyk_feasible exC_cfg exD_Y /\ dyk_feasible exC_cfg exD_Y' /\
  dist2 sh (fst (dyk_loop sh ops 1 (exC_W0, []))) exD_Y + qsum (dyk_loop_moves sh ops 1 (exC_W0, [])) == dist2 sh exC_W0 exD_Y /\
  dist2 sh (fst (dyk_loop sh ops 1 (exC_W0, []))) exD_Y' + qsum (dyk_loop_moves sh ops 1 (exC_W0, [])) < dist2 sh exC_W0 exD_Y' /\
  0 < dyk_moves sh ops (exC_W0, []).
Proof. cbv zeta. destruct exC_ok as (H1 & H2 & _ & _).
  split; [exact H1|]. split; [exact H2|]. split; [|split; [|split; [|split]]].
  - apply exD_feasible. vm_compute. reflexivity.
  - apply exD_feasible. vm_compute. reflexivity.
  - apply Qeq_bool_eq. vm_compute. reflexivity.
  - vm_compute. reflexivity.
  - vm_compute. reflexivity. Qed.

(* both forms of (a) in one statement: after any number n of sweeps, and for the
   function project_by_dykstra itself (with its early returns and k_iters c sweeps) *)
Theorem dykstra_never_farther_from_feasible (c : dyk_cfg) (W0 Y : tens) :
  dyk_cfg_ok c -> exact_families c -> dyk_feasible c Y ->
  (forall n, dist2 (k_shape c) (fst (dyk_loop (k_shape c) (group_ops c) n (W0, []))) Y <= dist2 (k_shape c) W0 Y) /\
  dist2 (k_shape c) (project_by_dykstra c W0) Y <= dist2 (k_shape c) W0 Y.
Proof. intros Hok Hex HY. split. intros n. apply dykstra_never_farther; assumption.
  apply project_by_dykstra_never_farther; assumption. Qed.
