(* More lemmas about Model/Keypoints.v (property C18):
   - exactly when the model of compute_keypoints raises (weights of any sign);
   - the tail of _weighted_quantile (rint, pinning, repair, sort, take) gives
     valid keypoints for EVERY in-range index vector, i.e. whatever np.interp
     returned (negative example weights make its xp non-monotone, where the
     search NumPy performs is not the model's linear scan);
   - set_feature_keypoints over a whole dict, set_label_keypoints. *)
From TFL Require Import Model.Keypoints Proofs.Keypoints.
Open Scope Q_scope.

(* ------------------------------------------------------------------ *)
(* when does the model raise                                            *)
(* ------------------------------------------------------------------ *)
Definition ck_groups (vs : list Q) (ws : option (list Q)) (cmin cmax dv : option Q) : list grp :=
  sort_unique (prep vs ws cmin cmax dv).

Definition ck_raises (vs : list Q) (k : nat) (mode : kmode) (cmin cmax dv : option Q)
           (ws : option (list Q)) (red : reduction) : Prop :=
  let gs := ck_groups vs ws cmin cmax dv in
  mode = MOther \/ (ws <> None /\ red = ROther) \/ (mode = Uniform /\ gs = []) \/
  (mode = Quantiles /\ ws <> None /\ (2 < k)%nat /\ (k <= length gs)%nat /\ qsum (map (reduce red) gs) == 0).

Theorem ck_error_iff rnd strict vs k mode cmin cmax dv ws red :
  compute_keypoints rnd strict vs k mode cmin cmax dv ws red = None <-> ck_raises vs k mode cmin cmax dv ws red.
Proof.
  unfold ck_raises, compute_keypoints, ck_groups, finish. cbv zeta.
  set (gs := sort_unique (prep vs ws cmin cmax dv)).
  assert (Lgs : length (map gv gs) = length gs) by apply map_length.
  assert (Hw : is_some ws = true <-> ws <> None) by (destruct ws; cbn; split; congruence).
  destruct (is_some ws) eqn:Ew.
  - assert (Hws : ws <> None) by (apply Hw; reflexivity).
    destruct red.
    + (* mean *)
      destruct mode.
      * rewrite Lgs. destruct (length gs <? k)%nat eqn:Ek.
        { apply Nat.ltb_lt in Ek. split; [discriminate|].
          intros [H|[[_ H]|[[H _]|[_ [_ [_ [H _]]]]]]]; try discriminate; lia. }
        apply Nat.ltb_ge in Ek.
        destruct (Qeq_bool (qsum (map (reduce RMean) gs)) 0) eqn:Es; cbn [andb].
        { apply Qeq_bool_iff in Es. destruct (2 <? k)%nat eqn:E2.
          - apply Nat.ltb_lt in E2. split; [intros _|reflexivity].
            right; right; right. repeat split; try assumption; reflexivity.
          - apply Nat.ltb_ge in E2. unfold weighted_quantile. rewrite Lgs.
            destruct (length gs <? k)%nat eqn:Ek'; [apply Nat.ltb_lt in Ek'; lia|].
            split; [discriminate|].
            intros [H|[[_ H]|[[H _]|[_ [_ [H _]]]]]]; try discriminate; lia. }
        { apply Qeq_bool_neq in Es. unfold weighted_quantile. rewrite Lgs.
          destruct (length gs <? k)%nat eqn:Ek'; [apply Nat.ltb_lt in Ek'; lia|].
          split; [discriminate|].
          intros [H|[[_ H]|[[H _]|[_ [_ [_ [_ H]]]]]]]; try discriminate. contradiction. }
      * destruct gs as [|g gs'] eqn:Eg; cbn [map].
        { split; [intros _|reflexivity]. right; right; left. split; reflexivity. }
        split; [discriminate|].
        intros [H|[[_ H]|[[_ H]|[H _]]]]; discriminate.
      * split; [intros _; left; reflexivity|reflexivity].
    + (* sum *)
      destruct mode.
      * rewrite Lgs. destruct (length gs <? k)%nat eqn:Ek.
        { apply Nat.ltb_lt in Ek. split; [discriminate|].
          intros [H|[[_ H]|[[H _]|[_ [_ [_ [H _]]]]]]]; try discriminate; lia. }
        apply Nat.ltb_ge in Ek.
        destruct (Qeq_bool (qsum (map (reduce RSum) gs)) 0) eqn:Es; cbn [andb].
        { apply Qeq_bool_iff in Es. destruct (2 <? k)%nat eqn:E2.
          - apply Nat.ltb_lt in E2. split; [intros _|reflexivity].
            right; right; right. repeat split; try assumption; reflexivity.
          - apply Nat.ltb_ge in E2. unfold weighted_quantile. rewrite Lgs.
            destruct (length gs <? k)%nat eqn:Ek'; [apply Nat.ltb_lt in Ek'; lia|].
            split; [discriminate|].
            intros [H|[[_ H]|[[H _]|[_ [_ [H _]]]]]]; try discriminate; lia. }
        { apply Qeq_bool_neq in Es. unfold weighted_quantile. rewrite Lgs.
          destruct (length gs <? k)%nat eqn:Ek'; [apply Nat.ltb_lt in Ek'; lia|].
          split; [discriminate|].
          intros [H|[[_ H]|[[H _]|[_ [_ [_ [_ H]]]]]]]; try discriminate. contradiction. }
      * destruct gs as [|g gs'] eqn:Eg; cbn [map].
        { split; [intros _|reflexivity]. right; right; left. split; reflexivity. }
        split; [discriminate|].
        intros [H|[[_ H]|[[_ H]|[H _]]]]; discriminate.
      * split; [intros _; left; reflexivity|reflexivity].
    + (* invalid reduction *)
      split; [intros _|reflexivity]. right; left. split; [exact Hws|reflexivity].
  - assert (Hws : ws = None) by (destruct ws; [discriminate|reflexivity]).
    assert (Hmain :
      match mode with
      | Quantiles => if (length (map gv gs) <? k)%nat then Some (map gv gs) else Some (nearest_quantile rnd (map gv gs) k)
      | Uniform => match map gv gs with [] => None | a :: _ => Some (linspace a (last (map gv gs) a) k) end
      | MOther => None
      end = None <->
      mode = MOther \/ (ws <> None /\ red = ROther) \/ (mode = Uniform /\ gs = []) \/
      (mode = Quantiles /\ ws <> None /\ (2 < k)%nat /\ (k <= length gs)%nat /\ qsum (map (reduce red) gs) == 0)).
    { destruct mode.
      - destruct (length (map gv gs) <? k)%nat; (split; [discriminate|]);
          intros [H|[[H _]|[[H _]|[_ [H _]]]]]; try discriminate; contradiction.
      - destruct gs as [|g gs'] eqn:Eg; cbn [map].
        { split; [intros _|reflexivity]. right; right; left. split; reflexivity. }
        split; [discriminate|].
        intros [H|[[H _]|[[_ H]|[H _]]]]; try discriminate. contradiction.
      - split; [intros _; left; reflexivity|reflexivity]. }
    destruct red; exact Hmain.
Qed.

(* all example weights zero, k = 3: the model raises (the code: IndexError on int(nan)) *)
Lemma zero_weights_raise :
  compute_keypoints rnd_he false [1; 2; 3; 4; 5; 6] 3 Quantiles None None None (Some [0; 0; 0; 0; 0; 0]) RMean = None /\
  compute_keypoints rnd_he false [1; 2; 3; 4; 5; 6] 2 Quantiles None None None (Some [0; 0; 0; 0; 0; 0]) RMean = Some [1; 6] /\
  (* negative weights whose group means cancel: values 1 (mean 1) and 2 (mean -1), 3 (0) *)
  compute_keypoints rnd_he false [1; 2; 3; 2] 3 Quantiles None None None (Some [1; -3; 0; 1]) RMean = None.
Proof. split; [|split]; vm_compute; reflexivity. Qed.

(* ------------------------------------------------------------------ *)
(* any in-range index vector gives valid keypoints                     *)
(* ------------------------------------------------------------------ *)
Definition idx_of_raws (rnd : nat -> Q -> Z) (n k : nat) (raws : list Q) : list Z :=
  zsort (repair n (pin_all n k (round_all rnd raws))).

Lemma weighted_idx_of_raws rnd strict n ws k :
  weighted_idx rnd strict n ws k = idx_of_raws rnd n k (wq_raw strict ws k).
Proof. reflexivity. Qed.

Lemma idx_of_raws_props rnd n k raws :
  nearest rnd -> (1 <= n)%nat -> (k <= n)%nat -> length raws = k ->
  (forall x, In x raws -> 0 <= x /\ x <= nq (n - 1)) ->
  let idx := idx_of_raws rnd n k raws in
  zincreasing idx /\ length idx = k /\ (forall i, In i idx -> in_range n i) /\
  ((1 <= k)%nat -> hd 0%Z idx = 0%Z) /\ ((2 <= k)%nat -> last idx 0%Z = (Z.of_nat n - 1)%Z).
Proof.
  intros Hn Hn1 Hkn Lraws Rraws idx. subst idx. unfold idx_of_raws.
  set (r := round_all rnd raws). set (p := pin_all n k r).
  assert (Lr : length r = k) by (subst r; rewrite round_all_length; exact Lraws).
  assert (Rr : forall x, In x r -> in_range n x).
  { intros x Hx. destruct (round_all_in _ _ _ Hx) as [j [q [Hq ->]]].
    destruct (Rraws q Hq) as [Q0 Q1].
    assert (R : (0 <= rnd j q <= Z.of_nat (n - 1))%Z).
    { apply nearest_bounds; [exact Hn| |]; fold (nq (n - 1)); change (inject_Z 0) with 0; lra. }
    unfold in_range. lia. }
  assert (Lp : length p = k) by (subst p; apply pin_all_length; exact Lr).
  assert (Rp : forall x, In x p -> in_range n x).
  { intros x Hx. subst p. apply (pin_all_range n k r x); [lia|exact Rr|exact Hx]. }
  destruct (repair_distinct n p) as [D1 [D2 [D3 D4]]]; [lia|exact Rp|].
  split; [apply zsort_increasing; exact D1|].
  split; [rewrite zsort_length, D2; exact Lp|].
  split; [intros i Hi; apply D3; apply (proj1 (zsort_in _ _)); exact Hi|].
  split.
  - intros Hk. apply zincreasing_hd.
    + apply zsort_increasing; exact D1.
    + apply (proj2 (zsort_in _ _)), D4. rewrite <- (pin_all_first n k r Lr Hk). apply nth_In. lia.
    + intros x Hx. apply (proj1 (zsort_in _ _)) in Hx. destruct (D3 x Hx). lia.
  - intros Hk. apply zincreasing_last.
    + apply zsort_increasing; exact D1.
    + apply (proj2 (zsort_in _ _)), D4. rewrite <- (pin_all_last n k r Lr Hk). apply nth_In. lia.
    + intros x Hx. apply (proj1 (zsort_in _ _)) in Hx. destruct (D3 x Hx). lia.
Qed.

Theorem any_indices_valid rnd sv k raws :
  nearest rnd -> increasing sv -> (2 <= k)%nat -> (k <= length sv)%nat -> length raws = k ->
  (forall x, In x raws -> 0 <= x /\ x <= nq (length sv - 1)) ->
  let kps := take sv (idx_of_raws rnd (length sv) k raws) in
  increasing kps /\ length kps = k /\ pwl_keypoints_ok kps = true /\
  hd 0 kps == hd 0 sv /\ last kps 0 == last sv 0 /\ (forall x, In x kps -> In x sv).
Proof.
  intros Hn Hsv Hk2 Hkn Lraws Rraws kps. subst kps.
  destruct (idx_of_raws_props rnd (length sv) k raws Hn ltac:(lia) Hkn Lraws Rraws) as [W1 [W2 [W3 [W4 W5]]]].
  pose proof (take_valid sv k Quantiles _ Hsv ltac:(lia) Hkn eq_refl W1 W2 W3 W4 W5) as V.
  assert (Hinc : increasing (take sv (idx_of_raws rnd (length sv) k raws))) by (apply (kv_increasing _ _ _ _ V); lia).
  assert (Hlen : length (take sv (idx_of_raws rnd (length sv) k raws)) = k) by (apply (kv_count_enough _ _ _ _ V); exact Hkn).
  split; [exact Hinc|]. split; [exact Hlen|]. split.
  { unfold pwl_keypoints_ok. apply andb_true_iff. split; [apply Nat.leb_le; lia|apply strictly_inc_b_true; exact Hinc]. }
  split; [rewrite (kv_first _ _ _ _ V Hk2), hd_nth0; reflexivity|].
  split; [rewrite (kv_last _ _ _ _ V Hk2), last_nth; reflexivity|].
  intros x Hx. unfold take in Hx. apply in_map_iff in Hx. destruct Hx as [i [<- Hi]].
  destruct (W3 i Hi). apply nth_In. lia.
Qed.

(* ------------------------------------------------------------------ *)
(* set_feature_keypoints over the whole dict                            *)
(* ------------------------------------------------------------------ *)
Lemma has_fc_set_first fcs name kps name' : has_fc (set_first fcs name kps) name' = has_fc fcs name'.
Proof.
  induction fcs as [|fc r IH]; cbn; [reflexivity|].
  destruct (fc_name fc =? name)%nat; cbn; [reflexivity|]. rewrite IH. reflexivity.
Qed.

Lemma has_fc_app fcs fc' name' : has_fc (fcs ++ [fc']) name' = has_fc fcs name' || (fc_name fc' =? name')%nat.
Proof.
  induction fcs as [|fc r IH]; cbn; [apply orb_false_r|]. rewrite IH. apply orb_assoc.
Qed.

Lemma has_fc_one_mono add fcs name kps name' :
  has_fc fcs name' = true -> has_fc (set_feature_keypoints_one add fcs name kps) name' = true.
Proof.
  intros H. unfold set_feature_keypoints_one. destruct (has_fc fcs name).
  - rewrite has_fc_set_first. exact H.
  - destruct add; [|exact H]. rewrite has_fc_app, H. reflexivity.
Qed.

Lemma set_fold_other add fk : forall fcs name',
  ~ In name' (map fst fk) -> fc_by_name (set_feature_keypoints add fcs fk) name' = fc_by_name fcs name'.
Proof.
  unfold set_feature_keypoints. induction fk as [|[n kps] fk IH]; intros fcs name' Hn; cbn [fold_left]; [reflexivity|].
  cbn [map fst In] in Hn. rewrite IH by tauto. cbn [fst snd].
  apply set_feature_keypoints_one_other. intro E. apply Hn. left. congruence.
Qed.

(* dict keys are distinct: NoDup (map fst fk) *)
Theorem set_feature_keypoints_spec add fk : forall fcs, NoDup (map fst fk) ->
  (forall name kps, In (name, kps) fk -> has_fc fcs name = true \/ add = true ->
     fc_spec (fc_by_name (set_feature_keypoints add fcs fk) name) = KGiven kps) /\
  (forall name, ~ In name (map fst fk) -> fc_by_name (set_feature_keypoints add fcs fk) name = fc_by_name fcs name).
Proof.
  intros fcs Hnd. split; [|intros name Hn; apply set_fold_other; exact Hn].
  revert fcs Hnd. induction fk as [|[n0 k0] fk IH]; intros fcs Hnd name kps Hin Hhas; [destruct Hin|].
  cbn [map fst] in Hnd. inversion Hnd as [|? ? Hnot Hnd']; subst.
  unfold set_feature_keypoints. cbn [fold_left fst snd]. fold (set_feature_keypoints add (set_feature_keypoints_one add fcs n0 k0) fk).
  destruct Hin as [E|Hin].
  - inversion E; subst. rewrite set_fold_other by exact Hnot.
    apply set_feature_keypoints_one_spec. exact Hhas.
  - apply IH; [exact Hnd'|exact Hin|]. destruct Hhas as [H|H]; [left; apply has_fc_one_mono; exact H|right; exact H].
Qed.

(* without add_missing_feature_configs no config is added, with it every named one exists *)
Theorem set_feature_keypoints_length fk : forall fcs,
  length (set_feature_keypoints false fcs fk) = length fcs.
Proof.
  unfold set_feature_keypoints. induction fk as [|[n k] fk IH]; intros fcs; cbn [fold_left]; [reflexivity|].
  rewrite IH. cbn [fst snd]. unfold set_feature_keypoints_one. destruct (has_fc fcs n); [|reflexivity].
  clear. induction fcs as [|fc r IH]; cbn; [reflexivity|]. destruct (fc_name fc =? n)%nat; cbn; [reflexivity|]. rewrite IH. reflexivity.
Qed.

(* the numeric results of compute_feature_keypoints, as the dict handed to set_feature_keypoints *)
Fixpoint fk_dict (res : list (nat * fk_result)) : list (nat * list Q) :=
  match res with
  | [] => []
  | (n, FKeypoints kps) :: r => (n, kps) :: fk_dict r
  | _ :: r => fk_dict r
  end.

Lemma fk_dict_in res n kps : In (n, kps) (fk_dict res) <-> In (n, FKeypoints kps) res.
Proof.
  induction res as [|[m r] res IH]; cbn; [tauto|].
  destruct r; cbn; rewrite IH; split; intros H; try (right; exact H);
    try (destruct H as [H|H]; [discriminate|exact H]).
  - destruct H as [H|H]; [left; inversion H; reflexivity|right; exact H].
  - destruct H as [H|H]; [left; inversion H; reflexivity|right; exact H].
Qed.

Lemma fk_dict_names res : forall n, In n (map fst (fk_dict res)) -> In n (map fst res).
Proof.
  induction res as [|[m r] res IH]; cbn; [tauto|]. intros n. destruct r; cbn; intros H; try (right; apply IH; exact H).
  destruct H as [H|H]; [left; exact H|right; apply IH; exact H].
Qed.

Lemma fk_dict_nodup res : NoDup (map fst res) -> NoDup (map fst (fk_dict res)).
Proof.
  induction res as [|[m r] res IH]; cbn; [constructor|]. intros H. inversion H as [|? ? Hn Hd]; subst.
  destruct r; cbn; try (apply IH; exact Hd). constructor; [|apply IH; exact Hd].
  intro Hin. apply Hn. apply fk_dict_names. exact Hin.
Qed.

(* compute_feature_keypoints followed by set_feature_keypoints(add_missing=True):
   every numeric feature's config then carries compute_keypoints of its data
   with the fields of the ORIGINAL config *)
Theorem compute_then_set rnd strict fcs features ws red name m :
  NoDup (map fst features) -> In name (map fst features) ->
  let fc := fc_by_name fcs name in
  fc_num_buckets fc = 0%nat -> fc_spec fc = KMode m ->
  let res := compute_feature_keypoints rnd strict fcs features ws red in
  (forall n r, In (n, r) res -> r <> FError) ->
  exists vs kps, In (name, vs) features /\
    compute_keypoints rnd strict vs (fc_num_keypoints fc) m (fc_clip_min fc) (fc_clip_max fc) (fc_default fc) ws red = Some kps /\
    fc_spec (fc_by_name (set_feature_keypoints true fcs (fk_dict res)) name) = KGiven kps.
Proof.
  intros Hnd Hin fc Hb Hs res Hok.
  apply in_map_iff in Hin. destruct Hin as [[nm vs] [E Hin]]. cbn in E. subst nm.
  assert (Hres : In (name, feature_keypoints_one rnd strict fc vs ws red) res).
  { subst res. unfold compute_feature_keypoints. apply in_map_iff. exists (name, vs). split; [reflexivity|exact Hin]. }
  destruct (fk_one_cases rnd strict fc vs ws red) as [_ [_ C3]]. specialize (C3 Hb m Hs).
  destruct (compute_keypoints rnd strict vs (fc_num_keypoints fc) m (fc_clip_min fc) (fc_clip_max fc) (fc_default fc) ws red)
    as [kps|] eqn:Eck.
  2:{ exfalso. rewrite C3 in Hres. exact (Hok _ _ Hres eq_refl). }
  exists vs, kps. split; [exact Hin|]. split; [exact Eck|].
  rewrite C3 in Hres.
  assert (Hnd' : NoDup (map fst (fk_dict res))).
  { apply fk_dict_nodup. subst res. unfold compute_feature_keypoints. rewrite map_map. cbn [fst]. exact Hnd. }
  destruct (set_feature_keypoints_spec true (fk_dict res) fcs Hnd') as [S _].
  apply S; [apply fk_dict_in; exact Hres|right; reflexivity].
Qed.

(* ------------------------------------------------------------------ *)
(* set_label_keypoints                                                  *)
(* ------------------------------------------------------------------ *)
(* model_config.output_initialization = label_keypoints *)
Definition set_label_keypoints (lc : label_config) (kps : list Q) : label_config :=
  mklc (KGiven kps) (lc_num_keypoints lc) (lc_output_min lc) (lc_output_max lc).

Theorem set_label_keypoints_spec rnd strict lc kps labels logits ws red :
  let lc' := set_label_keypoints lc kps in
  lc_spec lc' = KGiven kps /\ lc_num_keypoints lc' = lc_num_keypoints lc /\
  lc_output_min lc' = lc_output_min lc /\ lc_output_max lc' = lc_output_max lc /\
  compute_label_keypoints rnd strict lc' labels logits ws red = FKeypoints kps.
Proof. cbv zeta. repeat split. Qed.

(* compute_label_keypoints then set_label_keypoints: the stored keypoints are
   compute_keypoints of the labels (mode given, no logits) *)
Theorem label_compute_then_set rnd strict lc labels ws red m kps :
  lc_spec lc = KMode m ->
  compute_label_keypoints rnd strict lc labels false ws red = FKeypoints kps ->
  compute_keypoints rnd strict (label_values labels) (lc_num_keypoints lc) m (lc_output_min lc) (lc_output_max lc)
                    None (label_weights labels ws) red = Some kps /\
  lc_spec (set_label_keypoints lc kps) = KGiven kps.
Proof.
  intros Hm H. split; [|reflexivity].
  destruct (label_keypoints_cases rnd strict lc labels false ws red) as [_ [_ C]].
  rewrite (C m Hm eq_refl) in H.
  destruct (compute_keypoints rnd strict (label_values labels) (lc_num_keypoints lc) m (lc_output_min lc)
                              (lc_output_max lc) None (label_weights labels ws) red); [inversion H; reflexivity|discriminate].
Qed.
