(* C13: the cyclic (is_cyclic=True) PWL Hessian / wrinkle regularizers on keypoint
   outputs that are linear / quadratic in the keypoint index.

   The clauses "Hessian vanishes on outputs linear in the index" and "wrinkle
   vanishes on outputs quadratic in the index" hold for NON-cyclic calibrators
   only (Proofs/Regularizers.v: pwl_hessian_zero_linear, pwl_wrinkle_zero_quadratic,
   both stated with cyclic = false).  With is_cyclic the documented sums have one
   difference per keypoint, the indices wrapping around; on a linear / quadratic
   ramp the interior differences vanish and exactly the wrap-around differences
   remain.  Here their closed form is proved for every number of rows:

     Hessian, y_i = a + b i, k >= 2 rows:   the two terms  k b, -(k b)
     wrinkle, y_i = a + b i + c i^2, k >= 3 rows: the three terms
        -(k b + k^2 c),  2 k b + (2 k^2 - 2 k) c,  -(k b) + (2 k - k^2) c

   so the cyclic regularizer equals the l1/l2 norm of these terms alone, summed
   over the units (and is non-zero unless the ramp is flat). *)
From TFL Require Import Model.Regularizers Proofs.Regularizers.
Open Scope Q_scope.

Lemma wrap_mod k j : (j < k)%nat -> ((j + k) mod k = j)%nat.
Proof. intros H. replace (j + k)%nat with (j + 1 * k)%nat by lia. rewrite Nat.mod_add by lia. apply Nat.mod_small, H. Qed.

Lemma idxQ_S n : idxQ (S n) == idxQ n + 1.
Proof. replace (S n) with (n + 1)%nat by lia. rewrite idxQ_plus. reflexivity. Qed.
Lemma idxQ_0 : idxQ 0 == 0. Proof. reflexivity. Qed.

(* norms of a list of differences whose first m entries vanish *)
Section Tail.
Variable g : Q -> Q.
Hypothesis g_proper : forall x y, x == y -> g x == g y.
Hypothesis g_zero : g 0 == 0.

Lemma head_zero (d : nat -> Q) m : (forall i, (i < m)%nat -> d i == 0) -> qsum (map (fun i => g (d i)) (seq 0 m)) == 0.
Proof. intros H. apply qsum_map_zero_ext. intros i Hi. apply in_seq in Hi. rewrite (g_proper _ 0). exact g_zero. apply H. lia. Qed.

Lemma tail2 (d : nat -> Q) m t1 t2 : (forall i, (i < m)%nat -> d i == 0) -> d m == t1 -> d (S m) == t2 ->
  qsum (map g (map d (seq 0 (S (S m))))) == qsum (map g [t1; t2]).
Proof. intros H0 H1 H2. rewrite map_map, !qsum_seq_S, (head_zero d m H0). cbn [map qsum].
  rewrite (g_proper _ _ H1), (g_proper _ _ H2). lra. Qed.

Lemma tail3 (d : nat -> Q) m t1 t2 t3 : (forall i, (i < m)%nat -> d i == 0) ->
  d m == t1 -> d (S m) == t2 -> d (S (S m)) == t3 ->
  qsum (map g (map d (seq 0 (S (S (S m)))))) == qsum (map g [t1; t2; t3]).
Proof. intros H0 H1 H2 H3. rewrite map_map, !qsum_seq_S, (head_zero d m H0). cbn [map qsum].
  rewrite (g_proper _ _ H1), (g_proper _ _ H2), (g_proper _ _ H3). lra. Qed.
End Tail.

Lemma qabs_proper x y : x == y -> qabs x == qabs y.
Proof. intros H. qcases; lra. Qed.
Lemma sq_proper x y : x == y -> sq x == sq y.
Proof. intros H. unfold sq. rewrite H. reflexivity. Qed.

(* ------------------------------------------------------------------ *)
(* one unit                                                            *)
Section OneUnit.
Variable y : list Q.

(* second differences of a cyclic linear ramp of k = m + 2 keypoints *)
Lemma second_diff_cyclic_linear a b m : length y = S (S m) ->
  (forall i, (i < S (S m))%nat -> nth i y 0 == a + b * idxQ i) ->
  (forall i, (i < m)%nat -> second_diff true y i == 0) /\
  second_diff true y m == idxQ (S (S m)) * b /\
  second_diff true y (S m) == - (idxQ (S (S m)) * b).
Proof.
  intros Hl H. unfold second_diff, out_at. rewrite Hl. split; [|split].
  - intros i Hi. rewrite !Nat.mod_small by lia. rewrite !H by lia. rewrite !idxQ_plus, idxQ_1, idxQ_2. ring.
  - replace (m + 2)%nat with (0 + S (S m))%nat by lia. rewrite wrap_mod by lia. rewrite !Nat.mod_small by lia.
    rewrite !H by lia. replace (m + 1)%nat with (S m) by lia. rewrite !idxQ_S, idxQ_0. ring.
  - replace (S m + 1)%nat with (0 + S (S m))%nat by lia. replace (S m + 2)%nat with (1 + S (S m))%nat by lia.
    rewrite !wrap_mod by lia. rewrite !Nat.mod_small by lia. rewrite !H by lia. rewrite !idxQ_S, idxQ_0. ring.
Qed.

(* third differences of a cyclic quadratic ramp of k = m + 3 keypoints *)
Lemma third_diff_cyclic_quadratic a b c m : length y = S (S (S m)) ->
  (forall i, (i < S (S (S m)))%nat -> nth i y 0 == a + b * idxQ i + c * (idxQ i * idxQ i)) ->
  let K := idxQ (S (S (S m))) in
  (forall i, (i < m)%nat -> third_diff true y i == 0) /\
  third_diff true y m == - (K * b + K * K * c) /\
  third_diff true y (S m) == 2 * K * b + (2 * K * K - 2 * K) * c /\
  third_diff true y (S (S m)) == - (K * b) + (2 * K - K * K) * c.
Proof.
  intros Hl H K. unfold K, third_diff, out_at. rewrite Hl. split; [|split; [|split]].
  - intros i Hi. rewrite !Nat.mod_small by lia. rewrite !H by lia. rewrite !idxQ_plus, idxQ_1, idxQ_2, idxQ_3. ring.
  - replace (m + 3)%nat with (0 + S (S (S m)))%nat by lia. rewrite wrap_mod by lia. rewrite !Nat.mod_small by lia.
    rewrite !H by lia. replace (m + 1)%nat with (S m) by lia. replace (m + 2)%nat with (S (S m)) by lia.
    rewrite !idxQ_S, idxQ_0. ring.
  - replace (S m + 2)%nat with (0 + S (S (S m)))%nat by lia. replace (S m + 3)%nat with (1 + S (S (S m)))%nat by lia.
    rewrite !wrap_mod by lia. rewrite !Nat.mod_small by lia. rewrite !H by lia.
    replace (S m + 1)%nat with (S (S m)) by lia. rewrite !idxQ_S, idxQ_0. ring.
  - replace (S (S m) + 1)%nat with (0 + S (S (S m)))%nat by lia. replace (S (S m) + 2)%nat with (1 + S (S (S m)))%nat by lia.
    replace (S (S m) + 3)%nat with (2 + S (S (S m)))%nat by lia.
    rewrite !wrap_mod by lia. rewrite !Nat.mod_small by lia. rewrite !H by lia. rewrite !idxQ_S, idxQ_0. ring.
Qed.
End OneUnit.

(* the wrap-around terms *)
Definition hessian_wrap_terms (k : nat) (b : Q) : list Q := [idxQ k * b; - (idxQ k * b)].
Definition wrinkle_wrap_terms (k : nat) (b c : Q) : list Q :=
  let K := idxQ k in [- (K * b + K * K * c); 2 * K * b + (2 * K * K - 2 * K) * c; - (K * b) + (2 * K - K * K) * c].

Section Cyclic.
Variables (l1 l2 : Q) (units : nat) (x : list row).
Hypothesis Hwf : wf units x.

Lemma col_len u : length (keypoint_outputs (column u x)) = length x.
Proof. rewrite kp_length. unfold column. apply map_length. Qed.

Theorem pwl_hessian_cyclic_linear (a b : nat -> Q) : (2 <= length x)%nat ->
  (forall u i, (u < units)%nat -> (i < length x)%nat -> nth i (outputs x u) 0 == a u + b u * idxQ i) ->
  pwl_hessian l1 l2 true units x ==
  qsum (map (fun u => doc_norms l1 l2 (hessian_wrap_terms (length x) (b u))) (seq 0 units)).
Proof.
  intros Hk Hl. rewrite pwl_hessian_doc by (try assumption; intros; assumption).
  unfold doc_pwl_hessian, doc_pwl. apply qsum_map_ext. intros u Hu. apply in_seq in Hu.
  unfold doc_pwl_unit, n_terms. rewrite col_len. set (y := keypoint_outputs (column u x)).
  destruct (length x) as [|[|m]] eqn:Ek; try lia.
  destruct (second_diff_cyclic_linear y (a u) (b u) m) as (D0 & D1 & D2).
  { unfold y. rewrite col_len. exact Ek. }
  { intros i Hi. apply Hl; lia. }
  unfold doc_norms, hessian_wrap_terms.
  rewrite (tail2 qabs qabs_proper qabs_0 _ m _ _ D0 D1 D2), (tail2 sq sq_proper sq_0 _ m _ _ D0 D1 D2). reflexivity.
Qed.

Theorem pwl_wrinkle_cyclic_quadratic (a b c : nat -> Q) : (3 <= length x)%nat ->
  (forall u i, (u < units)%nat -> (i < length x)%nat ->
     nth i (outputs x u) 0 == a u + b u * idxQ i + c u * (idxQ i * idxQ i)) ->
  pwl_wrinkle l1 l2 true units x ==
  qsum (map (fun u => doc_norms l1 l2 (wrinkle_wrap_terms (length x) (b u) (c u))) (seq 0 units)).
Proof.
  intros Hk Hq. rewrite pwl_wrinkle_doc by assumption.
  unfold doc_pwl_wrinkle, doc_pwl. apply qsum_map_ext. intros u Hu. apply in_seq in Hu.
  unfold doc_pwl_unit, n_terms. rewrite col_len. set (y := keypoint_outputs (column u x)).
  destruct (length x) as [|[|[|m]]] eqn:Ek; try lia.
  destruct (third_diff_cyclic_quadratic y (a u) (b u) (c u) m) as (D0 & D1 & D2 & D3).
  { unfold y. rewrite col_len. exact Ek. }
  { intros i Hi. apply Hq; lia. }
  unfold doc_norms, wrinkle_wrap_terms. cbv zeta.
  rewrite (tail3 qabs qabs_proper qabs_0 _ m _ _ _ D0 D1 D2 D3), (tail3 sq sq_proper sq_0 _ m _ _ _ D0 D1 D2 D3). reflexivity.
Qed.
End Cyclic.

(* ------------------------------------------------------------------ *)
(* the zero clauses are false for cyclic calibrators: concrete witnesses *)

(* heights 2, 2, 2 (outputs 1, 3, 5, 7: linear), 1 unit, l1 = l2 = 1: non-cyclic
   Hessian 0; cyclic Hessian = |4*2| + |-(4*2)| + 2 * 64 = 144 *)
Lemma cyclic_hessian_linear_witness :
  let x := [[1]; [2]; [2]; [2]] in
  wf 1 x /\
  (forall u i, (u < 1)%nat -> (i < length x)%nat -> nth i (outputs x u) 0 == 1 + 2 * idxQ i) /\
  pwl_hessian 1 1 false 1 x == 0 /\ pwl_hessian 1 1 true 1 x == 144 /\
  qsum (map (fun u => doc_norms 1 1 (hessian_wrap_terms (length x) 2)) (seq 0 1)) == 144.
Proof. cbv zeta. split; [|split; [|split; [|split]]].
  - intros r [<-|[<-|[<-|[<-|[]]]]]; reflexivity.
  - intros u i Hu Hi. cbn [length] in Hi. assert (u = 0%nat) by lia. subst u.
    destruct i as [|[|[|[|i]]]]; try lia; vm_compute; reflexivity.
  - vm_compute. reflexivity.
  - vm_compute. reflexivity.
  - vm_compute. reflexivity. Qed.

(* outputs 1, 2, 5, 10, 17 (y_i = 1 + i^2: quadratic), 1 unit, l1 = 1, l2 = 0:
   non-cyclic wrinkle 0; cyclic wrinkle = |-25| + |40| + |-15| = 80 *)
Lemma cyclic_wrinkle_quadratic_witness :
  let x := [[1]; [1]; [3]; [5]; [7]] in
  wf 1 x /\
  (forall u i, (u < 1)%nat -> (i < length x)%nat -> nth i (outputs x u) 0 == 1 + 0 * idxQ i + 1 * (idxQ i * idxQ i)) /\
  pwl_wrinkle 1 0 false 1 x == 0 /\ pwl_wrinkle 1 0 true 1 x == 80 /\
  qsum (map (fun u => doc_norms 1 0 (wrinkle_wrap_terms (length x) 0 1)) (seq 0 1)) == 80.
Proof. cbv zeta. split; [|split; [|split; [|split]]].
  - intros r [<-|[<-|[<-|[<-|[<-|[]]]]]]; reflexivity.
  - intros u i Hu Hi. cbn [length] in Hi. assert (u = 0%nat) by lia. subst u.
    destruct i as [|[|[|[|[|i]]]]]; try lia; vm_compute; reflexivity.
  - vm_compute. reflexivity.
  - vm_compute. reflexivity.
  - vm_compute. reflexivity. Qed.
