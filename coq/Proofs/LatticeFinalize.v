(* Assembly of the C01 theorems about finalize / the strict Lattice constraint
   from the per-pass lemmas (LatticeMono, LatticeEdgeworth, LatticeTrapezoid,
   LatticeBounds). *)
From TFL Require Import Proofs.LatticeSpecFacts Proofs.LatticeMono Proofs.LatticeBounds
                        Proofs.LatticeEdgeworth Proofs.LatticeTrapezoid.
Open Scope Q_scope.

Section Assembly.
Variable c : lat_cfg.
Hypothesis Hc : cfg_valid c.
Let sh := l_shape c.
Let ud := l_ud c.
Let units := l_units c.
Let md := mono_dims (l_monos c).

Definition AM (W : tens) := approx_mono sh md W.
Definition AE (W : tens) := approx_edgeworth sh ud units (l_edge c) W.
Definition AT (W : tens) := approx_trapezoid sh ud units (l_trap c) (l_edge c) W.
Definition AB (W : tens) := approx_bounds sh ud units (l_min c) (l_max c) W.
Definition CB (W : tens) := clip_bounds sh (l_min c) (l_max c) W.

(* the three shapes finalize can take *)
Lemma finalize_cases W :
  (md = [] /\ finalize c W = W) \/
  (md <> [] /\ l_edge c = [] /\ l_trap c = [] /\ finalize c W = AM W) \/
  (md <> [] /\ (l_edge c <> [] \/ l_trap c <> []) /\ finalize c W = AB (AT (AE (AM W)))).
Proof.
  unfold finalize, AM, AE, AT, AB, md, sh, ud, units.
  destruct (mono_dims (l_monos c)) as [|d ds] eqn:E.
  - left. split; reflexivity.
  - right. destruct (l_edge c) as [|e es] eqn:Ee; destruct (l_trap c) as [|t ts] eqn:Et.
    + left. repeat split; congruence.
    + right. split; [congruence|]. split; [right; congruence|reflexivity].
    + right. split; [congruence|]. split; [left; congruence|reflexivity].
    + right. split; [congruence|]. split; [left; congruence|reflexivity].
Qed.

(* a configured trust forces a monotone dimension *)
Lemma trust_gives_mono t : In t (all_trusts c) -> md <> [].
Proof.
  intros Ht Hmd. destruct Hc as (_ & _ & Hlen & _ & Htr & _).
  destruct t as [[m cd] dir]. destruct (Htr _ Ht) as (Hm & _ & Hmono & _).
  assert (In m (mono_dims (l_monos c))).
  { apply mono_dims_spec. split. rewrite Hlen; exact Hm. rewrite Hmono. discriminate. }
  fold md in H. rewrite Hmd in H. destruct H.
Qed.

Lemma edge_in_all t : In t (l_edge c) -> In t (all_trusts c).
Proof. intros H. unfold all_trusts. apply in_or_app. left; exact H. Qed.
Lemma trap_in_all t : In t (l_trap c) -> In t (all_trusts c).
Proof. intros H. unfold all_trusts. apply in_or_app. right; exact H. Qed.

(* ---------------- finalize, applied to ANY kernel ---------------- *)
Theorem finalize_monotone W : ~ trap_mono_cond_with_edgeworth c -> monotone_kernel c (finalize c W).
Proof.
  intros Hg. destruct (finalize_cases W) as [[Hmd E]|[(Hmd & He & Ht & E)|(Hmd & Htr & E)]]; rewrite E.
  - intros d Hd. fold md in Hd. rewrite Hmd in Hd. destruct Hd.
  - apply approx_mono_monotone_kernel; exact Hc.
  - apply approx_bounds_cfg_monotone; [exact Hc|].
    apply approx_trapezoid_mono; [exact Hc|exact Hg|].
    apply approx_edgeworth_mono; [exact Hc|].
    apply approx_mono_monotone_kernel; exact Hc.
Qed.

Theorem finalize_edgeworth W t : In t (l_edge c) -> edgeworth_holds sh t (finalize c W).
Proof.
  intros Ht. destruct (finalize_cases W) as [[Hmd E]|[(Hmd & He & _ & E)|(Hmd & Htr & E)]]; rewrite E.
  - exfalso. exact (trust_gives_mono t (edge_in_all t Ht) Hmd).
  - rewrite He in Ht. destruct Ht.
  - apply approx_bounds_cfg_edgeworth; [exact Hc|apply edge_in_all; exact Ht|].
    apply approx_trapezoid_keeps_edgeworth; [exact Hc| |exact Ht].
    intros te Hte. apply approx_edgeworth_established; [exact Hc|exact Hte].
Qed.

Theorem finalize_trapezoid W t : ~ documented_exception c -> In t (l_trap c) -> trapezoid_holds sh t (finalize c W).
Proof.
  intros Hg Ht. destruct (finalize_cases W) as [[Hmd E]|[(Hmd & _ & He & E)|(Hmd & Htr & E)]]; rewrite E.
  - exfalso. exact (trust_gives_mono t (trap_in_all t Ht) Hmd).
  - rewrite He in Ht. destruct Ht.
  - apply approx_bounds_cfg_trapezoid; [exact Hc|apply trap_in_all; exact Ht|].
    apply approx_trapezoid_established; [exact Hc|exact Hg|exact Ht].
Qed.

(* when a trust is configured finalize itself lands inside the bounds *)
Theorem finalize_bounds_with_trust W : (l_edge c <> [] \/ l_trap c <> []) ->
  lower_ok sh (l_min c) (finalize c W) /\ upper_ok sh (l_max c) (finalize c W).
Proof.
  intros Htr. destruct (finalize_cases W) as [[Hmd E]|[(Hmd & He & Ht & E)|(Hmd & _ & E)]]; rewrite E.
  - exfalso. destruct Htr as [H|H].
    + destruct (l_edge c) as [|t ts] eqn:Ee; [congruence|]. apply (trust_gives_mono t); [|exact Hmd].
      apply edge_in_all. rewrite Ee. left; reflexivity.
    + destruct (l_trap c) as [|t ts] eqn:Ee; [congruence|]. apply (trust_gives_mono t); [|exact Hmd].
      apply trap_in_all. rewrite Ee. left; reflexivity.
  - destruct Htr; congruence.
  - split; [apply approx_bounds_cfg_lower|apply approx_bounds_cfg_upper]; exact Hc.
Qed.

Theorem finalize_fixed W : monotone_kernel c W ->
  (forall t, In t (l_edge c) -> edgeworth_holds sh t W) ->
  (forall t, In t (l_trap c) -> trapezoid_holds sh t W) ->
  lower_ok sh (l_min c) W -> upper_ok sh (l_max c) W ->
  teq sh (finalize c W) W.
Proof.
  intros Hm He Ht Hlo Hhi.
  destruct (finalize_cases W) as [[Hmd E]|[(Hmd & _ & _ & E)|(Hmd & _ & E)]]; rewrite E.
  - apply teq_refl.
  - apply approx_mono_kernel_fixed; assumption.
  - pose proof (approx_mono_kernel_fixed c W Hc Hm) as E1. fold sh md in E1. fold (AM W) in E1.
    pose proof (approx_edgeworth_fixed_gen c Hc W (AM W) He E1) as E2. fold sh ud units in E2. fold (AE (AM W)) in E2.
    assert (Ht2 : forall t, In t (l_trap c) -> trapezoid_holds sh t (AE (AM W))).
    { intros t Hin. apply (trapezoid_holds_teq sh t W). apply teq_sym; exact E2. apply Ht; exact Hin. }
    pose proof (approx_trapezoid_fixed c Hc (AE (AM W)) Ht2) as E3. fold sh ud units in E3. fold (AT (AE (AM W))) in E3.
    assert (E3' : teq sh (AT (AE (AM W))) W) by (eapply teq_trans; [exact E3|exact E2]).
    pose proof (approx_bounds_cfg_fixed c Hc (AT (AE (AM W)))
                  (lower_ok_teq sh _ W _ (teq_sym _ _ _ E3') Hlo) (upper_ok_teq sh _ W _ (teq_sym _ _ _ E3') Hhi)) as E4.
    fold sh ud units in E4. fold (AB (AT (AE (AM W)))) in E4.
    eapply teq_trans; [exact E4|exact E3'].
Qed.

(* ------- the strict layer constraint after the Dykstra stage ------- *)
(* [ran] = the projection block of LatticeConstraints.__call__ was entered; it
   is skipped only when no dimension is monotone or unimodal and no joint
   constraint is configured - in particular then no dimension is monotone. *)
Definition block_ok (ran : bool) : Prop := ran = true \/ md = [].

Definition LC (ran : bool) (Wd : tens) := lattice_constraint_after_dykstra c ran Wd.

Lemma LC_unfold ran Wd : LC ran Wd = CB (if ran then finalize c Wd else Wd).
Proof. reflexivity. Qed.

Theorem constraint_monotone ran Wd : block_ok ran -> ~ trap_mono_cond_with_edgeworth c -> monotone_kernel c (LC ran Wd).
Proof.
  intros Hb Hg. rewrite LC_unfold. unfold CB. apply clip_bounds_cfg_monotone.
  destruct ran.
  - apply finalize_monotone; exact Hg.
  - destruct Hb as [H|H]; [discriminate|]. intros d Hd. fold md in Hd. rewrite H in Hd. destruct Hd.
Qed.

Lemma block_ok_trust ran t : block_ok ran -> In t (all_trusts c) -> ran = true.
Proof. intros [H|H] Ht; [exact H|]. exfalso. exact (trust_gives_mono t Ht H). Qed.

Lemma clip_of_finalize_with_trust Wd : (l_edge c <> [] \/ l_trap c <> []) -> teq sh (CB (finalize c Wd)) (finalize c Wd).
Proof. intros Htr. destruct (finalize_bounds_with_trust Wd Htr) as [Hl Hu]. apply clip_bounds_id; assumption. Qed.

Theorem constraint_edgeworth ran Wd t : block_ok ran -> In t (l_edge c) -> edgeworth_holds sh t (LC ran Wd).
Proof.
  intros Hb Ht. rewrite LC_unfold. rewrite (block_ok_trust ran t Hb (edge_in_all t Ht)).
  apply (edgeworth_holds_teq sh t (finalize c Wd)).
  - apply teq_sym. apply clip_of_finalize_with_trust. left. intro E. rewrite E in Ht. destruct Ht.
  - apply finalize_edgeworth; exact Ht.
Qed.

Theorem constraint_trapezoid ran Wd t : block_ok ran -> ~ documented_exception c -> In t (l_trap c) ->
  trapezoid_holds sh t (LC ran Wd).
Proof.
  intros Hb Hg Ht. rewrite LC_unfold. rewrite (block_ok_trust ran t Hb (trap_in_all t Ht)).
  apply (trapezoid_holds_teq sh t (finalize c Wd)).
  - apply teq_sym. apply clip_of_finalize_with_trust. right. intro E. rewrite E in Ht. destruct Ht.
  - apply finalize_trapezoid; assumption.
Qed.

Theorem constraint_bounds ran Wd : lower_ok sh (l_min c) (LC ran Wd) /\ upper_ok sh (l_max c) (LC ran Wd).
Proof. rewrite LC_unfold. unfold CB. apply (clip_bounds_cfg_in c Hc). Qed.

Theorem constraint_feasible_fixed ran W : feasible_kernel c W -> teq sh (LC ran W) W.
Proof.
  intros (Hm & He & Ht & Hlo & Hhi). rewrite LC_unfold. destruct ran.
  - pose proof (finalize_fixed W Hm He Ht Hlo Hhi) as E.
    eapply teq_trans; [|exact E].
    eapply teq_trans; [apply clip_bounds_teq; exact E|]. 
    eapply teq_trans; [apply clip_bounds_id; assumption|]. apply teq_sym; exact E.
  - apply clip_bounds_id; assumption.
Qed.
End Assembly.
