(* batch_outer_operation followed by the product with the kernel column is
   the recursion over dimensions interp_w on the row-major kernel tensor. *)
From TFL Require Export Proofs.LatticeHyper.
Open Scope Q_scope.

(* indexed sum: sum_idx f (off + idx) l[idx] *)
Fixpoint isum (f : nat -> Q -> Q) (off : nat) (l : list Q) : Q :=
  match l with [] => 0 | a :: r => f off a + isum f (S off) r end.

Lemma isum_app f : forall l1 l2 off, isum f off (l1 ++ l2) == isum f off l1 + isum f (off + length l1) l2.
Proof. induction l1 as [|a l1 IH]; intros l2 off; cbn [app isum length].
  rewrite Nat.add_0_r. ring. rewrite IH. replace (S off + length l1)%nat with (off + S (length l1))%nat by lia. ring. Qed.

Lemma isum_map f (h : Q -> Q) : forall l off, isum f off (map h l) = isum (fun j b => f j (h b)) off l.
Proof. induction l as [|a l IH]; intros off; cbn [map isum]. reflexivity. rewrite IH. reflexivity. Qed.

Lemma isum_ext f g : forall l off, (forall j a, f j a == g j a) -> isum f off l == isum g off l.
Proof. induction l as [|a l IH]; intros off H; cbn [isum]. reflexivity. rewrite H, IH by exact H. reflexivity. Qed.

Lemma isum_scale f c : forall l off, isum (fun j b => c * f j b) off l == c * isum f off l.
Proof. induction l as [|a l IH]; intros off; cbn [isum]. ring. rewrite IH. ring. Qed.

(* over the tabulated weights of one dimension *)
Lemma isum_tab (f : nat -> Q -> Q) (w : nat -> Q) : forall s k0 off,
  isum f (off + k0) (map w (seq k0 s)) == qsum (map (fun k => f (off + k)%nat (w k)) (seq k0 s)).
Proof. induction s as [|s IH]; intros k0 off; cbn [seq map isum qsum]. reflexivity.
  replace (S (off + k0))%nat with (off + S k0)%nat by lia. rewrite IH. reflexivity. Qed.

Lemma isum_flat_map f W s : length W = s -> forall acc o,
  isum f (o * s) (flat_map (fun a => map (Qmult a) W) acc) ==
  isum (fun j a => isum (fun k' b => f k' (a * b)) (j * s) W) o acc.
Proof. intros HW. induction acc as [|a acc IH]; intros o; cbn [flat_map isum]. reflexivity.
  rewrite isum_app, map_length, HW. rewrite isum_map. replace (o * s + s)%nat with (S o * s)%nat by lia.
  rewrite IH. reflexivity. Qed.

Lemma isum_beyond (M : list Q) : forall a off, (length M <= off)%nat -> isum (fun j x => x * nth j M 0) off a == 0.
Proof. induction a as [|x a IH]; intros off H; cbn [isum]. reflexivity.
  rewrite nth_overflow by exact H. rewrite IH by lia. ring. Qed.

Lemma dot_isum_gen : forall a L pre,
  qsum (map2 Qmult a L) == isum (fun j x => x * nth j (pre ++ L) 0) (length pre) a.
Proof. induction a as [|x a IH]; intros L pre; cbn [isum map2 qsum]. reflexivity.
  destruct L as [|y r]; cbn [map2 qsum].
  - rewrite app_nil_r. rewrite nth_overflow by lia. rewrite isum_beyond by lia. ring.
  - rewrite nth_middle. rewrite (IH r (pre ++ [y])). rewrite app_length. cbn [length]. rewrite Nat.add_1_r.
    rewrite <- app_assoc. cbn [app]. reflexivity. Qed.

Lemma dot_isum a L : qsum (map2 Qmult a L) == isum (fun j x => x * nth j L 0) 0 a.
Proof. exact (dot_isum_gen a L []). Qed.

(* the general step: [acc] holds the merged weights of the leading dimensions *)
Lemma outer_fold L : forall ss ws acc, length ws = length ss ->
  qsum (map2 Qmult (fold_left outer_step (weight_lists ss ws) acc) L) ==
  isum (fun j a => a * interp_w ss ws (fun i => nth (j * prodn ss + flat ss i) L 0)) 0 acc.
Proof. induction ss as [|s ss IH]; intros ws acc Hl; destruct ws as [|w ws]; try discriminate.
  - cbn [weight_lists map2 fold_left interp_w prodn fold_right flat].
    rewrite (dot_isum acc L). apply isum_ext. intros j a. rewrite Nat.mul_1_r, Nat.add_0_r. reflexivity.
  - cbn [weight_lists map2 fold_left]. fold (weight_lists ss ws). rewrite IH by (cbn in Hl; lia).
    unfold outer_step. pose proof (isum_flat_map
      (fun j a => a * interp_w ss ws (fun i => nth (j * prodn ss + flat ss i) L 0)) (map w (seq 0 s)) s
      ltac:(rewrite map_length, seq_length; reflexivity) acc 0%nat) as FM. cbn [Nat.mul] in FM. rewrite FM.
    apply isum_ext. intros j a.
    pose proof (isum_tab (fun k' b => a * b * interp_w ss ws (fun i => nth (k' * prodn ss + flat ss i) L 0)) w s 0 (j * s)) as T.
    rewrite Nat.add_0_r in T. rewrite T. rewrite interp_w_cons. unfold wsum. rewrite <- qsum_map_scale.
    apply qsum_seq_ext. intros k Hk.
    assert (E : interp_w ss ws (fun i => nth ((j * s + k) * prodn ss + flat ss i) L 0) ==
                interp_w ss ws (fun i => nth (j * prodn (s :: ss) + flat (s :: ss) (k :: i)) L 0)).
    { apply interp_w_ext_K. cbn in Hl; lia. intros i _. cbn [prodn fold_right flat]. fold (prodn ss).
      replace ((j * s + k) * prodn ss + flat ss i)%nat with (j * (s * prodn ss) + (k * prodn ss + flat ss i))%nat by nia.
      reflexivity. }
    rewrite E. ring. Qed.

Theorem hyper_lit_eq tensor clip sizes Kcol x : length x = length sizes -> sizes <> [] ->
  hyper_unit_lit tensor clip sizes Kcol x == hyper_unit tensor clip sizes (of_list sizes Kcol) x.
Proof. intros Hl Hne. unfold hyper_unit_lit, hyper_unit, dot. rewrite rsum_qsum.
  set (ws := hyper_weights tensor clip sizes x).
  assert (Lw : length ws = length sizes).
  { unfold ws, hyper_weights. destruct (all2 sizes && tensor). rewrite map_length; exact Hl.
    rewrite map_length. destruct clip. unfold clip_onto. rewrite map2_length. lia. exact Hl. }
  rewrite (interp_w_ext_K sizes ws (of_list sizes Kcol) (fun i => nth (flat sizes i) Kcol 0) Lw)
    by (intros i Hi; unfold of_list; rewrite memo_ok by exact Hi; reflexivity).
  destruct sizes as [|s ss]; [congruence|]. destruct ws as [|w ws']; [discriminate|].
  cbn [weight_lists map2 batch_outer]. fold (weight_lists ss ws').
  rewrite outer_fold by (cbn in Lw; lia).
  pose proof (isum_tab (fun j a => a * interp_w ss ws' (fun i => nth (j * prodn ss + flat ss i) Kcol 0)) w s 0 0) as T.
  cbn [Nat.add] in T. rewrite T. rewrite interp_w_cons. unfold wsum. apply qsum_seq_ext. intros k Hk. reflexivity. Qed.
