(* Lemmas about the model of pwl_calibration_lib.project_all_constraints
   (Model/PWLProject.v).  Property theorems are restated in Props/C04.v. *)
From TFL Require Import Model.PWLProject.
Open Scope Q_scope.

(* ------------------------------------------------------------------ *)
(* 0. Generic helpers                                                   *)
(* ------------------------------------------------------------------ *)

Lemma qn_nonneg n : 0 <= qn n.
Proof. unfold qn. change 0 with (inject_Z 0). rewrite <- Zle_Qle. lia. Qed.
Lemma qn_pos n : (1 <= n)%nat -> 0 < qn n.
Proof. intros H. unfold qn. change 0 with (inject_Z 0). rewrite <- Zlt_Qlt. lia. Qed.
Lemma qn_S n : qn (S n) == qn n + 1.
Proof. unfold qn. rewrite Nat2Z.inj_succ. unfold Z.succ. rewrite inject_Z_plus. reflexivity. Qed.

Lemma qdiv_mul N X : 0 < N -> N * (X / N) == X.
Proof. intros. field. lra. Qed.
Lemma qdiv_nonneg N X : 0 < N -> 0 <= X -> 0 <= X / N.
Proof. intros HN HX. pose proof (qdiv_mul N X HN). nra. Qed.
Lemma qdiv_pos_pos a b : 0 < a -> 0 < b -> 0 < a / b.
Proof. intros Ha Hb. pose proof (qdiv_mul b a Hb). nra. Qed.
Lemma qmul_cancel_le N x y : 0 < N -> N * x <= N * y -> x <= y.
Proof. intros. nra. Qed.
Lemma qmul_cancel_eq N x y : 0 < N -> N * x == N * y -> x == y.
Proof. intros. assert (x <= y) by nra. assert (y <= x) by nra. lra. Qed.

(* pointwise Qeq on lists *)
Lemma qleq_refl l : qleq l l.
Proof. induction l; constructor; [reflexivity|assumption]. Qed.
Lemma qleq_sym a b : qleq a b -> qleq b a.
Proof. induction 1; constructor; [symmetry|]; assumption. Qed.
Lemma qleq_trans a b c : qleq a b -> qleq b c -> qleq a c.
Proof. intros H; revert c; induction H; intros c' H'; inversion H'; subst; constructor.
  etransitivity; eassumption. apply IHForall2; assumption. Qed.
Lemma qleq_length a b : qleq a b -> length a = length b.
Proof. induction 1; cbn; congruence. Qed.
Lemma qleq_qsum a b : qleq a b -> qsum a == qsum b.
Proof. induction 1; cbn [qsum]. reflexivity. rewrite H, IHForall2. reflexivity. Qed.
Lemma qleq_Forall (P : Q -> Prop) a b : (forall x y, x == y -> P x -> P y) -> qleq a b -> Forall P a -> Forall P b.
Proof. intros HP H; induction H; intros HF; inversion HF; subst; constructor; eauto. Qed.
Lemma qleq_nth a b i : qleq a b -> nth i a 0 == nth i b 0.
Proof. intros H; revert i; induction H; intros [|i]; cbn; try reflexivity; auto. Qed.
Lemma qleq_last a b : qleq a b -> last a 0 == last b 0.
Proof. induction 1; cbn. reflexivity. destruct H0; [assumption|]. exact IHForall2. Qed.
Lemma qleq_map_id (f : Q -> Q) l : (forall x, In x l -> f x == x) -> qleq (map f l) l.
Proof. induction l as [|x l IH]; intros H; cbn; constructor. apply H; left; reflexivity.
  apply IH; intros; apply H; right; assumption. Qed.
Lemma qleq_map {A} (f g : A -> Q) (l : list A) : (forall x, In x l -> f x == g x) -> qleq (map f l) (map g l).
Proof. induction l as [|x l IH]; intros H; cbn; constructor. apply H; left; reflexivity.
  apply IH; intros; apply H; right; assumption. Qed.
Lemma qleq_tl a b : qleq a b -> qleq (tl a) (tl b).
Proof. destruct 1; cbn. constructor. assumption. Qed.

Lemma nth_map0 (f : Q -> Q) l i : (i < length l)%nat -> nth i (map f l) 0 = f (nth i l 0).
Proof. revert i; induction l as [|x l IH]; intros [|i] H; cbn in *; try lia; auto. apply IH; lia. Qed.

Lemma Forall_nth0 (P : Q -> Prop) l : Forall P l <-> forall i, (i < length l)%nat -> P (nth i l 0).
Proof. split.
  - intros H; induction H; intros [|i] Hi; cbn in *; try lia; auto. apply IHForall; lia.
  - induction l as [|x l IH]; intros H; constructor. apply (H 0%nat); cbn; lia.
    apply IH; intros i Hi; apply (H (S i)); cbn; lia. Qed.

Lemma qsum_le_pointwise a b : length a = length b ->
  (forall i, (i < length a)%nat -> nth i a 0 <= nth i b 0) -> qsum a <= qsum b.
Proof. revert b; induction a as [|x a IH]; intros [|y b] HL H; cbn in *; try lia. lra.
  pose proof (H 0%nat ltac:(lia)) as H0; cbn in H0.
  assert (qsum a <= qsum b) by (apply IH; [lia|intros i Hi; apply (H (S i)); lia]). lra. Qed.
Lemma qsum_eq_pointwise a b : length a = length b ->
  (forall i, (i < length a)%nat -> nth i a 0 == nth i b 0) -> qsum a == qsum b.
Proof. intros HL H. assert (qsum a <= qsum b) by (apply qsum_le_pointwise; [assumption|intros i Hi; rewrite (H i Hi); lra]).
  assert (qsum b <= qsum a) by (apply qsum_le_pointwise; [lia|intros i Hi; rewrite (H i) by lia; lra]). lra. Qed.
Lemma qleq_of_nth a b : length a = length b ->
  (forall i, (i < length a)%nat -> nth i a 0 == nth i b 0) -> qleq a b.
Proof. revert b; induction a as [|x a IH]; intros [|y b] HL H; cbn in *; try lia; constructor.
  apply (H 0%nat); lia. apply IH; [lia|intros i Hi; apply (H (S i)); lia]. Qed.

Lemma qsum_map_shift (hd : Q) l : qsum (map (fun h => Qred (h + hd)) l) == qsum l + qn (length l) * hd.
Proof. induction l as [|x l IH]. cbn [map qsum length]. change (qn 0) with (0#1). lra.
  cbn [map qsum length]. rewrite IH, Qred_correct, qn_S. lra. Qed.

(* ------------------------------------------------------------------ *)
(* 1. Validity of a configuration (what verify_hyperparameters,        *)
(*    canonicalize_* and convert_all_constraints guarantee)            *)
(* ------------------------------------------------------------------ *)

Definition pwl_valid (c : pwl_cfg) (n : nat) : Prop :=
  (1 <= n)%nat /\ length (p_lengths c) = n /\ Forall (fun l => 0 < l) (p_lengths c) /\
  (p_mono c = (-1)%Z \/ p_mono c = 0%Z \/ p_mono c = 1%Z) /\
  (p_conv c = (-1)%Z \/ p_conv c = 0%Z \/ p_conv c = 1%Z) /\
  (p_cmin c <> BNone -> p_cmax c <> BNone -> p_min c <= p_max c) /\
  (p_cmin c = BClamped \/ p_cmax c = BClamped -> p_mono c <> 0%Z).

Example pwl_valid_example :
  pwl_valid (mkPwl 1 0 (-1) 2 BClamped BBound [1; 1#2; 3] 8) 3.
Proof. unfold pwl_valid; cbn. repeat split; try lia; try (intros; discriminate); auto.
  repeat constructor. Qed.

Lemma valid_len_pos c n i : pwl_valid c n -> (i < n)%nat -> 0 < nth i (p_lengths c) 0.
Proof. intros (_ & HL & HP & _) Hi. rewrite Forall_nth0 in HP. apply HP. lia. Qed.

(* ------------------------------------------------------------------ *)
(* 2. Lengths                                                          *)
(* ------------------------------------------------------------------ *)

Lemma cumsum_from_length acc l : length (cumsum_from acc l) = length l.
Proof. revert acc; induction l; intros; cbn; auto. Qed.
Lemma diffs_from_length p l : length (diffs_from p l) = length l.
Proof. revert p; induction l; intros; cbn; auto. Qed.
Lemma lsub_length a b : length b = length a -> length (lsub a b) = length a.
Proof. intros H. unfold lsub. rewrite map2_length. lia. Qed.
Lemma nth_lsub a b i : length b = length a -> (i < length a)%nat ->
  nth i (lsub a b) 0 = Qred (nth i a 0 - nth i b 0).
Proof. intros HL Hi. unfold lsub. rewrite (nth_map2 _ a b i 0 0) by lia. reflexivity. Qed.
Lemma qneg_list_length l : length (qneg_list l) = length l.
Proof. apply map_length. Qed.

(* closed form of _approximately_project_bounds_only *)
Definition clipf (omin omax : Q) (cmin cmax : bct) (s : Q) : Q :=
  let s := match cmin with BBound => qmax s omin | _ => s end in
  match cmax with BBound => qmin s omax | _ => s end.

Lemma bounds_only_eq b h omin omax cmin cmax : (cmin <> BNone \/ cmax <> BNone) ->
  bounds_only b h omin omax cmin cmax =
  (clipf omin omax cmin cmax (0 + b),
   diffs_from (clipf omin omax cmin cmax (0 + b)) (map (clipf omin omax cmin cmax) (cumsum_from (0 + b) h))).
Proof. intros H. unfold bounds_only, cumsum, clipf.
  destruct cmin, cmax; try (exfalso; destruct H as [H|H]; apply H; reflexivity); cbn [cumsum_from map]; rewrite ?map_map, ?map_id; reflexivity. Qed.

Lemma bounds_only_length b h omin omax cmin cmax : length (snd (bounds_only b h omin omax cmin cmax)) = length h.
Proof. destruct (bct_eqb cmin BNone && bct_eqb cmax BNone)%bool eqn:E.
  - destruct cmin, cmax; try discriminate. reflexivity.
  - rewrite bounds_only_eq by (destruct cmin, cmax; try discriminate E; ((left; discriminate) || (right; discriminate))).
    cbn [snd]. rewrite diffs_from_length, map_length, cumsum_from_length. reflexivity. Qed.

Lemma bounds_mono_inc_length b h omin omax cmin cmax : length (snd (bounds_mono_inc b h omin omax cmin cmax)) = length h.
Proof. unfold bounds_mono_inc. destruct cmax, cmin; cbn [snd bct_eqb]; rewrite ?map_length; reflexivity. Qed.
Lemma bounds_mono_length m b h omin omax cmin cmax : length (snd (bounds_mono m b h omin omax cmin cmax)) = length h.
Proof. unfold bounds_mono. destruct (m =? -1)%Z.
  - pose proof (bounds_mono_inc_length (- b) (qneg_list h) (- omax) (- omin) cmax cmin) as H.
    destruct (bounds_mono_inc _ _ _ _ _ _) as [b' h']. cbn [snd] in *. rewrite qneg_list_length, H. apply qneg_list_length.
  - apply bounds_mono_inc_length. Qed.
Lemma project_monotonicity_length m h : length (project_monotonicity m h) = length h.
Proof. unfold project_monotonicity. destruct (m =? 0)%Z; [reflexivity|]. destruct (m =? 1)%Z; apply map_length. Qed.
Lemma convex_pairs_length conv : forall k hs ls, (length hs <= k)%nat -> length (convex_pairs conv hs ls) = length hs.
Proof. induction k as [|k IH]; intros hs ls H.
  - destruct hs; [|cbn in H; lia]. reflexivity.
  - destruct hs as [|h0 [|h1 hr]]; try reflexivity. destruct ls as [|l0 [|l1 lr]]; try reflexivity.
    cbn [convex_pairs length]. rewrite IH. reflexivity. cbn in H. lia. Qed.
Lemma project_convexity_length conv g hs ls : length (project_convexity conv g hs ls) = length hs.
Proof. unfold project_convexity. destruct (conv =? 0)%Z; [reflexivity|].
  destruct hs as [|h [|h' hr]]; [destruct g; reflexivity|reflexivity|].
  cbn [length]. destruct g.
  - rewrite (convex_pairs_length conv (S (S (length hr)))); cbn; lia.
  - destruct ls; [reflexivity|]. cbn [length]. rewrite (convex_pairs_length conv (S (length hr))); cbn; lia. Qed.
Lemma approx_convexity_from_length conv : forall hs ls hp lp, length (approx_convexity_from conv hp lp hs ls) = length hs.
Proof. induction hs as [|h hs IH]; intros [|l ls] hp lp; cbn; auto. Qed.
Lemma approx_convexity_length conv hs ls : length (approx_convexity conv hs ls) = length hs.
Proof. unfold approx_convexity. destruct (conv =? 0)%Z; [reflexivity|]. destruct hs, ls; cbn; auto using approx_convexity_from_length. Qed.
Lemma squeeze_inc_length b h omax cmax : length (snd (squeeze_inc b h omax cmax)) = length h.
Proof. unfold squeeze_inc. destruct cmax; cbn [snd]; rewrite ?map_length; reflexivity. Qed.
Lemma squeeze_length m b h omin omax cmin cmax : length (snd (squeeze m b h omin omax cmin cmax)) = length h.
Proof. unfold squeeze. destruct (m =? -1)%Z; [|apply squeeze_inc_length]. destruct cmin; try reflexivity.
  all: pose proof (squeeze_inc_length (- b) (qneg_list h) (- omin)) as H.
  all: match goal with |- context [squeeze_inc ?a ?b ?c ?d] => specialize (H d); destruct (squeeze_inc a b c d) end.
  all: cbn [snd] in *; rewrite qneg_list_length, H; apply qneg_list_length. Qed.
Lemma pwl_finalize_length c b h : length (snd (pwl_finalize c b h)) = length h.
Proof. unfold pwl_finalize.
  set (h1 := if (p_mono c =? 0)%Z then h else project_monotonicity (p_mono c) h).
  assert (H1 : length h1 = length h) by (subst h1; destruct (p_mono c =? 0)%Z; auto using project_monotonicity_length).
  set (h2 := if (p_conv c =? 0)%Z then h1 else approx_convexity (p_conv c) h1 (p_lengths c)).
  assert (H2 : length h2 = length h) by (subst h2; destruct (p_conv c =? 0)%Z; rewrite ?approx_convexity_length; auto).
  destruct (has_bounds c); [|exact H2].
  destruct (negb (p_mono c =? 0)%Z && negb (p_conv c =? 0)%Z)%bool.
  rewrite squeeze_length; exact H2. rewrite bounds_only_length; exact H2. Qed.

(* ------------------------------------------------------------------ *)
(* 3. The Dykstra body, stage by stage                                 *)
(* ------------------------------------------------------------------ *)

Definition bnd_rb (st : dyk) : Q := Qred (d_bias st - d_lb_bounds st).
Definition bnd_rh (st : dyk) : list Q := lsub (d_h st) (d_lh_bounds st).
Definition bnd_res (c : pwl_cfg) (st : dyk) : Q * list Q :=
  if (p_mono c =? 0)%Z
  then bounds_only (bnd_rb st) (bnd_rh st) (p_min c) (p_max c) (p_cmin c) (p_cmax c)
  else bounds_mono (p_mono c) (bnd_rb st) (bnd_rh st) (p_min c) (p_max c) (p_cmin c) (p_cmax c).
Definition s1_bias c st : Q := if has_bounds c then fst (bnd_res c st) else d_bias st.
Definition s1_h c st : list Q := if has_bounds c then snd (bnd_res c st) else d_h st.
Definition s1_lbb c st : Q := if has_bounds c then Qred (fst (bnd_res c st) - bnd_rb st) else d_lb_bounds st.
Definition s1_lhb c st : list Q := if has_bounds c then lsub (snd (bnd_res c st)) (bnd_rh st) else d_lh_bounds st.
Definition s1_np c : nat := if has_bounds c then 1%nat else 0%nat.
Definition mono_rh c st : list Q := lsub (s1_h c st) (d_lh_mono st).
Definition s2_h c st : list Q :=
  if (p_mono c =? 0)%Z then s1_h c st else project_monotonicity (p_mono c) (mono_rh c st).
Definition s2_lhm c st : list Q :=
  if (p_mono c =? 0)%Z then d_lh_mono st else lsub (s2_h c st) (mono_rh c st).
Definition s2_np c : nat := if (p_mono c =? 0)%Z then s1_np c else S (s1_np c).
Definition c0_on c st : bool := negb (p_conv c =? 0)%Z && (2 <=? length (s2_h c st))%nat.
Definition c0_rh c st : list Q := lsub (s2_h c st) (d_lh_c0 st).
Definition s3_h c st : list Q :=
  if c0_on c st then project_convexity (p_conv c) 0 (c0_rh c st) (p_lengths c) else s2_h c st.
Definition s3_lc0 c st : list Q := if c0_on c st then lsub (s3_h c st) (c0_rh c st) else d_lh_c0 st.
Definition s3_np c st : nat := if c0_on c st then S (s2_np c) else s2_np c.
Definition c1_on c st : bool := negb (p_conv c =? 0)%Z && (3 <=? length (s3_h c st))%nat.
Definition c1_rh c st : list Q := lsub (s3_h c st) (d_lh_c1 st).
Definition s4_h c st : list Q :=
  if c1_on c st then project_convexity (p_conv c) 1 (c1_rh c st) (p_lengths c) else s3_h c st.
Definition s4_lc1 c st : list Q := if c1_on c st then lsub (s4_h c st) (c1_rh c st) else d_lh_c1 st.
Definition s4_np c st : nat := if c1_on c st then S (s3_np c st) else s3_np c st.

Lemma dyk_body_eq c st :
  dyk_body c st = (mkDyk (s1_bias c st) (s4_h c st) (s1_lbb c st) (s1_lhb c st) (s2_lhm c st) (s3_lc0 c st) (s4_lc1 c st),
                   s4_np c st).
Proof.
  unfold s4_np, s4_lc1, s4_h, c1_rh, c1_on, s3_np, s3_lc0, s3_h, c0_rh, c0_on, s2_np, s2_lhm, s2_h, mono_rh,
    s1_np, s1_lhb, s1_lbb, s1_h, s1_bias, bnd_res, dyk_body.
  fold (bnd_rb st). fold (bnd_rh st).
  destruct (has_bounds c).
  - destruct (p_mono c =? 0)%Z.
    + destruct (bounds_only _ _ _ _ _ _) as [b' h']. cbn [fst snd].
      destruct (negb (p_conv c =? 0)%Z && (2 <=? length h')%nat)%bool;
      match goal with |- context [(3 <=? length ?x)%nat] => destruct (negb (p_conv c =? 0)%Z && (3 <=? length x)%nat)%bool end;
      reflexivity.
    + destruct (bounds_mono _ _ _ _ _ _ _) as [b' h']. cbn [fst snd].
      match goal with |- context [(2 <=? length ?x)%nat] => destruct (negb (p_conv c =? 0)%Z && (2 <=? length x)%nat)%bool end;
      match goal with |- context [(3 <=? length ?x)%nat] => destruct (negb (p_conv c =? 0)%Z && (3 <=? length x)%nat)%bool end;
      reflexivity.
  - destruct (p_mono c =? 0)%Z.
    + destruct (negb (p_conv c =? 0)%Z && (2 <=? length (d_h st))%nat)%bool;
      match goal with |- context [(3 <=? length ?x)%nat] => destruct (negb (p_conv c =? 0)%Z && (3 <=? length x)%nat)%bool end;
      reflexivity.
    + match goal with |- context [(2 <=? length ?x)%nat] => destruct (negb (p_conv c =? 0)%Z && (2 <=? length x)%nat)%bool end;
      match goal with |- context [(3 <=? length ?x)%nat] => destruct (negb (p_conv c =? 0)%Z && (3 <=? length x)%nat)%bool end;
      reflexivity.
Qed.

Lemma dyk_iter_S_last c n : forall st, dyk_iter c (S n) st = fst (dyk_body c (dyk_iter c n st)).
Proof. induction n as [|n IH]; intros st. reflexivity.
  change (dyk_iter c (S (S n)) st) with (dyk_iter c (S n) (fst (dyk_body c st))). rewrite IH. reflexivity. Qed.

Lemma dyk_iter_inv (P : dyk -> Prop) c : (forall st, P st -> P (fst (dyk_body c st))) ->
  forall n st, P st -> P (dyk_iter c n st).
Proof. intros HP. induction n as [|n IH]; intros st H; cbn [dyk_iter]. exact H. apply IH, HP, H. Qed.

(* all lists of the state have the length of the heights *)
Definition dyk_wf (n : nat) (st : dyk) : Prop :=
  length (d_h st) = n /\ length (d_lh_bounds st) = n /\ length (d_lh_mono st) = n /\
  length (d_lh_c0 st) = n /\ length (d_lh_c1 st) = n.

Lemma dyk_init_wf b h : dyk_wf (length h) (dyk_init b h).
Proof. unfold dyk_wf, dyk_init; cbn. rewrite map_length. auto. Qed.

Section Stages.
  Variables (c : pwl_cfg) (n : nat) (st : dyk).
  Hypothesis WF : dyk_wf n st.
  Lemma bnd_rh_length : length (bnd_rh st) = n.
  Proof. destruct WF as (H1 & H2 & _). unfold bnd_rh. rewrite lsub_length; congruence. Qed.
  Lemma bnd_res_length : length (snd (bnd_res c st)) = n.
  Proof. unfold bnd_res. destruct (p_mono c =? 0)%Z; rewrite ?bounds_only_length, ?bounds_mono_length; apply bnd_rh_length. Qed.
  Lemma s1_h_length : length (s1_h c st) = n.
  Proof. unfold s1_h. destruct (has_bounds c). apply bnd_res_length. apply WF. Qed.
  Lemma s1_lhb_length : length (s1_lhb c st) = n.
  Proof. unfold s1_lhb. destruct (has_bounds c). rewrite lsub_length; rewrite ?bnd_rh_length, bnd_res_length; reflexivity. apply WF. Qed.
  Lemma mono_rh_length : length (mono_rh c st) = n.
  Proof. unfold mono_rh. rewrite lsub_length; rewrite s1_h_length; [reflexivity|apply WF]. Qed.
  Lemma s2_h_length : length (s2_h c st) = n.
  Proof. unfold s2_h. destruct (p_mono c =? 0)%Z. apply s1_h_length. rewrite project_monotonicity_length. apply mono_rh_length. Qed.
  Lemma s2_lhm_length : length (s2_lhm c st) = n.
  Proof. unfold s2_lhm. destruct (p_mono c =? 0)%Z. apply WF. rewrite lsub_length; rewrite ?mono_rh_length, s2_h_length; reflexivity. Qed.
  Lemma c0_rh_length : length (c0_rh c st) = n.
  Proof. unfold c0_rh. rewrite lsub_length; rewrite s2_h_length; [reflexivity|apply WF]. Qed.
  Lemma s3_h_length : length (s3_h c st) = n.
  Proof. unfold s3_h. destruct (c0_on c st). rewrite project_convexity_length. apply c0_rh_length. apply s2_h_length. Qed.
  Lemma s3_lc0_length : length (s3_lc0 c st) = n.
  Proof. unfold s3_lc0. destruct (c0_on c st). rewrite lsub_length; rewrite ?c0_rh_length, s3_h_length; reflexivity. apply WF. Qed.
  Lemma c1_rh_length : length (c1_rh c st) = n.
  Proof. unfold c1_rh. rewrite lsub_length; rewrite s3_h_length; [reflexivity|apply WF]. Qed.
  Lemma s4_h_length : length (s4_h c st) = n.
  Proof. unfold s4_h. destruct (c1_on c st). rewrite project_convexity_length. apply c1_rh_length. apply s3_h_length. Qed.
  Lemma s4_lc1_length : length (s4_lc1 c st) = n.
  Proof. unfold s4_lc1. destruct (c1_on c st). rewrite lsub_length; rewrite ?c1_rh_length, s4_h_length; reflexivity. apply WF. Qed.
  Lemma c0_on_eq : c0_on c st = (negb (p_conv c =? 0)%Z && (2 <=? n)%nat)%bool.
  Proof. unfold c0_on. rewrite s2_h_length. reflexivity. Qed.
  Lemma c1_on_eq : c1_on c st = (negb (p_conv c =? 0)%Z && (3 <=? n)%nat)%bool.
  Proof. unfold c1_on. rewrite s3_h_length. reflexivity. Qed.
  Lemma dyk_body_wf : dyk_wf n (fst (dyk_body c st)).
  Proof. rewrite dyk_body_eq. unfold dyk_wf; cbn.
    auto using s4_h_length, s1_lhb_length, s2_lhm_length, s3_lc0_length, s4_lc1_length. Qed.
End Stages.

Lemma dyk_iter_wf c n k st : dyk_wf n st -> dyk_wf n (dyk_iter c k st).
Proof. apply dyk_iter_inv. intros; apply dyk_body_wf; assumption. Qed.

(* the two exits of project_all_constraints *)
Lemma pwl_project_col_cases c b h :
  let st1 := fst (dyk_body c (dyk_init b h)) in
  let stN := dyk_iter c (p_iters c) (dyk_init b h) in
  ((s4_np c (dyk_init b h) <= 1)%nat /\ pwl_project_col c (b :: h) = d_bias st1 :: d_h st1) \/
  ((2 <= s4_np c (dyk_init b h))%nat /\
   pwl_project_col c (b :: h) = fst (pwl_finalize c (d_bias stN) (d_h stN)) :: snd (pwl_finalize c (d_bias stN) (d_h stN))).
Proof. cbn zeta. unfold pwl_project_col. rewrite dyk_body_eq. cbn [fst].
  destruct (s4_np c (dyk_init b h) <=? 1)%nat eqn:E.
  - left. apply Nat.leb_le in E. split; [exact E|reflexivity].
  - right. apply Nat.leb_gt in E. split; [lia|]. destruct (pwl_finalize _ _ _); reflexivity. Qed.

Lemma pwl_project_col_length c w : length (pwl_project_col c w) = length w.
Proof. destruct w as [|b h]; [reflexivity|].
  destruct (pwl_project_col_cases c b h) as [[_ ->]|[_ ->]]; cbn [length]; f_equal.
  - apply (dyk_body_wf c (length h)), dyk_init_wf.
  - rewrite pwl_finalize_length. apply (dyk_iter_wf c (length h)), dyk_init_wf. Qed.

(* ------------------------------------------------------------------ *)
(* 4. C04_per_unit, C04_missing_bounded                                *)
(* ------------------------------------------------------------------ *)

Lemma nth_map_gen {A B} (f : A -> B) l i d d' : (i < length l)%nat -> nth i (map f l) d' = f (nth i l d).
Proof. revert i; induction l as [|x l IH]; intros [|i] H; cbn in *; try lia; auto. apply IH; lia. Qed.

Lemma column_transpose (cols : list (list Q)) nrows u :
  (u < length cols)%nat -> length (nth u cols []) = nrows ->
  column u (transpose nrows cols) = nth u cols [].
Proof. intros Hu HL. unfold transpose, column at 1. rewrite map_map.
  apply nth_ext with (d := 0) (d' := 0). rewrite map_length, seq_length; auto.
  intros i Hi. rewrite map_length, seq_length in Hi.
  rewrite (nth_map_seq (fun r => nth u (column r cols) 0) nrows i 0 Hi).
  unfold column. rewrite (nth_map_gen _ cols u [] 0 Hu). reflexivity. Qed.

Lemma pwl_project_per_unit c units W u : (u < units)%nat ->
  column u (pwl_project c units W) = pwl_project_col c (column u W).
Proof. intros Hu. unfold pwl_project.
  rewrite column_transpose.
  - exact (nth_map_seq (fun u => pwl_project_col c (column u W)) units u [] Hu).
  - rewrite map_length, seq_length; exact Hu.
  - rewrite (nth_map_seq (fun u => pwl_project_col c (column u W)) units u [] Hu).
    rewrite pwl_project_col_length. unfold column. apply map_length. Qed.

Lemma naive_bounds_both lo hi w : lo <= hi -> lo <= naive_bounds (Some lo) (Some hi) w /\ naive_bounds (Some lo) (Some hi) w <= hi.
Proof. intros. unfold naive_bounds, clip_hi, clip_lo. qcases; lra. Qed.
Lemma naive_bounds_lo lo hi w : (match hi with Some h => lo <= h | None => True end) -> lo <= naive_bounds (Some lo) hi w.
Proof. intros. unfold naive_bounds, clip_hi, clip_lo. destruct hi; qcases; lra. Qed.
Lemma naive_bounds_hi lo hi w : naive_bounds lo (Some hi) w <= hi.
Proof. unfold naive_bounds, clip_hi, clip_lo. destruct lo; qcases; lra. Qed.
Lemma naive_bounds_none w : naive_bounds None None w = w.
Proof. reflexivity. Qed.

(* ------------------------------------------------------------------ *)
(* 5. C04_monotone_exact                                               *)
(* ------------------------------------------------------------------ *)

Lemma project_monotonicity_inc h : Forall (fun x => 0 <= x) (project_monotonicity 1 h).
Proof. unfold project_monotonicity. cbn. apply Forall_forall. intros x Hx. apply in_map_iff in Hx.
  destruct Hx as [y [<- _]]. apply qmax_r. Qed.
Lemma project_monotonicity_dec h : Forall (fun x => x <= 0) (project_monotonicity (-1) h).
Proof. unfold project_monotonicity. cbn. apply Forall_forall. intros x Hx. apply in_map_iff in Hx.
  destruct Hx as [y [<- _]]. apply qmin_r. Qed.

Lemma acf_nonneg conv : forall hs ls hp lp, 0 <= hp -> 0 < lp -> Forall (fun l => 0 < l) ls ->
  Forall (fun x => 0 <= x) hs -> Forall (fun x => 0 <= x) (approx_convexity_from conv hp lp hs ls).
Proof. induction hs as [|h hs IH]; intros [|l ls] hp lp Hp Hl HL HH; cbn [approx_convexity_from]; auto.
  inversion HL; subst. inversion HH; subst.
  assert (Ht : 0 <= hp * (l / lp)) by (apply qmul_nonneg; [assumption|apply Qlt_le_weak, qdiv_pos_pos; assumption]).
  assert (H' : 0 <= (if (conv =? 1)%Z then Qred (qmax h (hp * (l / lp))) else Qred (qmin h (hp * (l / lp))))).
  { destruct (conv =? 1)%Z; rewrite Qred_correct; qcases; lra. }
  constructor. exact H'. apply IH; assumption. Qed.
Lemma acf_nonpos conv : forall hs ls hp lp, hp <= 0 -> 0 < lp -> Forall (fun l => 0 < l) ls ->
  Forall (fun x => x <= 0) hs -> Forall (fun x => x <= 0) (approx_convexity_from conv hp lp hs ls).
Proof. induction hs as [|h hs IH]; intros [|l ls] hp lp Hp Hl HL HH; cbn [approx_convexity_from]; auto.
  inversion HL; subst. inversion HH; subst.
  assert (Ht : hp * (l / lp) <= 0).
  { pose proof (qmul_nonneg (- hp) (l / lp) ltac:(lra) (Qlt_le_weak _ _ (qdiv_pos_pos l lp H1 Hl))). lra. }
  assert (H' : (if (conv =? 1)%Z then Qred (qmax h (hp * (l / lp))) else Qred (qmin h (hp * (l / lp)))) <= 0).
  { destruct (conv =? 1)%Z; rewrite Qred_correct; qcases; lra. }
  constructor. exact H'. apply IH; assumption. Qed.
Lemma approx_convexity_nonneg conv hs ls : Forall (fun l => 0 < l) ls ->
  Forall (fun x => 0 <= x) hs -> Forall (fun x => 0 <= x) (approx_convexity conv hs ls).
Proof. intros HL HH. unfold approx_convexity. destruct (conv =? 0)%Z; [assumption|].
  destruct hs as [|h hs], ls as [|l ls]; auto. inversion HL; inversion HH; subst. constructor; [assumption|].
  apply acf_nonneg; assumption. Qed.
Lemma approx_convexity_nonpos conv hs ls : Forall (fun l => 0 < l) ls ->
  Forall (fun x => x <= 0) hs -> Forall (fun x => x <= 0) (approx_convexity conv hs ls).
Proof. intros HL HH. unfold approx_convexity. destruct (conv =? 0)%Z; [assumption|].
  destruct hs as [|h hs], ls as [|l ls]; auto. inversion HL; inversion HH; subst. constructor; [assumption|].
  apply acf_nonpos; assumption. Qed.

Lemma squeeze_d_pos sf : 0 < qmax sf 1.
Proof. pose proof (qmax_r sf 1). lra. Qed.
Lemma squeeze_inc_nonneg b h omax cmax : Forall (fun x => 0 <= x) h -> Forall (fun x => 0 <= x) (snd (squeeze_inc b h omax cmax)).
Proof. intros H. unfold squeeze_inc. destruct cmax; cbn [snd]; auto.
  all: apply Forall_forall; intros x Hx; apply in_map_iff in Hx; destruct Hx as [y [<- Hy]];
    rewrite Forall_forall in H; rewrite Qred_correct; apply qdiv_nonneg; [apply squeeze_d_pos|auto]. Qed.
Lemma qneg_list_nonneg h : Forall (fun x => x <= 0) h -> Forall (fun x => 0 <= x) (qneg_list h).
Proof. intros H. apply Forall_forall; intros x Hx; apply in_map_iff in Hx; destruct Hx as [y [<- Hy]].
  rewrite Forall_forall in H. specialize (H y Hy). lra. Qed.
Lemma qneg_list_nonpos h : Forall (fun x => 0 <= x) h -> Forall (fun x => x <= 0) (qneg_list h).
Proof. intros H. apply Forall_forall; intros x Hx; apply in_map_iff in Hx; destruct Hx as [y [<- Hy]].
  rewrite Forall_forall in H. specialize (H y Hy). lra. Qed.
Lemma squeeze_nonneg b h omin omax cmin cmax : Forall (fun x => 0 <= x) h ->
  Forall (fun x => 0 <= x) (snd (squeeze 1 b h omin omax cmin cmax)).
Proof. intros H. unfold squeeze. cbn. apply squeeze_inc_nonneg; assumption. Qed.
Lemma squeeze_nonpos b h omin omax cmin cmax : Forall (fun x => x <= 0) h ->
  Forall (fun x => x <= 0) (snd (squeeze (-1) b h omin omax cmin cmax)).
Proof. intros H. unfold squeeze. cbn [Z.eqb Z.opp Pos.eqb].
  destruct cmin; [assumption| |].
  all: match goal with |- context [squeeze_inc ?a ?b ?c ?d] =>
         pose proof (squeeze_inc_nonneg a b c d (qneg_list_nonneg h H)) as H'; destruct (squeeze_inc a b c d) end.
  all: cbn [snd] in *; apply qneg_list_nonpos; assumption. Qed.

Lemma clipf_mono omin omax cmin cmax x y : x <= y -> clipf omin omax cmin cmax x <= clipf omin omax cmin cmax y.
Proof. intros. unfold clipf. destruct cmin, cmax; qcases; lra. Qed.

Lemma diffs_clip_nonneg (F : Q -> Q) : (forall x y, x <= y -> F x <= F y) ->
  forall h acc, Forall (fun x => 0 <= x) h -> Forall (fun x => 0 <= x) (diffs_from (F acc) (map F (cumsum_from acc h))).
Proof. intros HF. induction h as [|x h IH]; intros acc H; cbn [cumsum_from map diffs_from]; constructor; inversion H; subst.
  - rewrite Qred_correct. pose proof (HF acc (acc + x) ltac:(lra)). lra.
  - apply IH; assumption. Qed.
Lemma diffs_clip_nonpos (F : Q -> Q) : (forall x y, x <= y -> F x <= F y) ->
  forall h acc, Forall (fun x => x <= 0) h -> Forall (fun x => x <= 0) (diffs_from (F acc) (map F (cumsum_from acc h))).
Proof. intros HF. induction h as [|x h IH]; intros acc H; cbn [cumsum_from map diffs_from]; constructor; inversion H; subst.
  - rewrite Qred_correct. pose proof (HF (acc + x) acc ltac:(lra)). lra.
  - apply IH; assumption. Qed.

Lemma bounds_only_nonneg b h omin omax cmin cmax : Forall (fun x => 0 <= x) h ->
  Forall (fun x => 0 <= x) (snd (bounds_only b h omin omax cmin cmax)).
Proof. intros H. destruct (bct_eqb cmin BNone && bct_eqb cmax BNone)%bool eqn:E.
  - destruct cmin, cmax; try discriminate. exact H.
  - rewrite bounds_only_eq by (destruct cmin, cmax; try discriminate E; ((left; discriminate) || (right; discriminate))).
    cbn [snd]. apply diffs_clip_nonneg; [apply clipf_mono|exact H]. Qed.
Lemma bounds_only_nonpos b h omin omax cmin cmax : Forall (fun x => x <= 0) h ->
  Forall (fun x => x <= 0) (snd (bounds_only b h omin omax cmin cmax)).
Proof. intros H. destruct (bct_eqb cmin BNone && bct_eqb cmax BNone)%bool eqn:E.
  - destruct cmin, cmax; try discriminate. exact H.
  - rewrite bounds_only_eq by (destruct cmin, cmax; try discriminate E; ((left; discriminate) || (right; discriminate))).
    cbn [snd]. apply diffs_clip_nonpos; [apply clipf_mono|exact H]. Qed.

Definition down (b : bct) : bct := match b with BClamped => BBound | x => x end.

(* pwl_finalize, unfolded once and for all *)
Definition fin_h1 c (h : list Q) := if (p_mono c =? 0)%Z then h else project_monotonicity (p_mono c) h.
Definition fin_h2 c (h : list Q) := if (p_conv c =? 0)%Z then fin_h1 c h else approx_convexity (p_conv c) (fin_h1 c h) (p_lengths c).
Lemma pwl_finalize_eq c b h : pwl_finalize c b h =
  if has_bounds c then
    if (negb (p_mono c =? 0)%Z && negb (p_conv c =? 0)%Z)%bool
    then squeeze (p_mono c) b (fin_h2 c h) (p_min c) (p_max c) (p_cmin c) (p_cmax c)
    else bounds_only b (fin_h2 c h) (p_min c) (p_max c) (down (p_cmin c)) (down (p_cmax c))
  else (b, fin_h2 c h).
Proof. reflexivity. Qed.

Lemma finalize_nonneg c n b h : pwl_valid c n -> p_mono c = 1%Z -> Forall (fun x => 0 <= x) (snd (pwl_finalize c b h)).
Proof. intros (_ & _ & HL & _) Hm. rewrite pwl_finalize_eq.
  assert (H2 : Forall (fun x => 0 <= x) (fin_h2 c h)).
  { unfold fin_h2, fin_h1. rewrite Hm. cbn [Z.eqb]. pose proof (project_monotonicity_inc h).
    destruct (p_conv c =? 0)%Z; [assumption|]. apply approx_convexity_nonneg; assumption. }
  destruct (has_bounds c); [|exact H2]. rewrite Hm.
  destruct (negb (1 =? 0)%Z && negb (p_conv c =? 0)%Z)%bool.
  apply squeeze_nonneg; assumption. apply bounds_only_nonneg; assumption. Qed.
Lemma finalize_nonpos c n b h : pwl_valid c n -> p_mono c = (-1)%Z -> Forall (fun x => x <= 0) (snd (pwl_finalize c b h)).
Proof. intros (_ & _ & HL & _) Hm. rewrite pwl_finalize_eq.
  assert (H2 : Forall (fun x => x <= 0) (fin_h2 c h)).
  { unfold fin_h2, fin_h1. rewrite Hm. cbn [Z.eqb]. pose proof (project_monotonicity_dec h).
    destruct (p_conv c =? 0)%Z; [assumption|]. apply approx_convexity_nonpos; assumption. }
  destruct (has_bounds c); [|exact H2]. rewrite Hm.
  destruct (negb (-1 =? 0)%Z && negb (p_conv c =? 0)%Z)%bool.
  apply squeeze_nonpos; assumption. apply bounds_only_nonpos; assumption. Qed.

(* what the single-step exit means *)
Lemma shortcut_mono c st : p_mono c <> 0%Z -> (s4_np c st <= 1)%nat ->
  has_bounds c = false /\ c0_on c st = false /\ c1_on c st = false.
Proof. intros Hm. unfold s4_np, s3_np, s2_np, s1_np.
  destruct (p_mono c =? 0)%Z eqn:E; [apply Z.eqb_eq in E; contradiction|].
  destruct (has_bounds c), (c0_on c st), (c1_on c st); intros; try lia; auto. Qed.
Lemma shortcut_bounds c st : has_bounds c = true -> (s4_np c st <= 1)%nat ->
  p_mono c = 0%Z /\ c0_on c st = false /\ c1_on c st = false.
Proof. intros Hb. unfold s4_np, s3_np, s2_np, s1_np. rewrite Hb.
  destruct (p_mono c =? 0)%Z eqn:E; [apply Z.eqb_eq in E|];
  destruct (c0_on c st), (c1_on c st); intros; try lia; auto. Qed.
Lemma body_state c st : fst (dyk_body c st) =
  mkDyk (s1_bias c st) (s4_h c st) (s1_lbb c st) (s1_lhb c st) (s2_lhm c st) (s3_lc0 c st) (s4_lc1 c st).
Proof. rewrite dyk_body_eq. reflexivity. Qed.

Lemma pwl_monotone_exact c n bias hs : pwl_valid c n -> length hs = n ->
  (p_mono c = 1%Z -> Forall (fun h => 0 <= h) (tl (pwl_project_col c (bias :: hs)))) /\
  (p_mono c = (-1)%Z -> Forall (fun h => h <= 0) (tl (pwl_project_col c (bias :: hs)))).
Proof. intros V HL. split; intros Hm.
  - destruct (pwl_project_col_cases c bias hs) as [[Hnp ->]|[_ ->]]; cbn [tl].
    + destruct (shortcut_mono c _ ltac:(lia) Hnp) as (_ & H0 & H1).
      rewrite body_state; cbn [d_h]. unfold s4_h, s3_h, s2_h. rewrite H0, H1, Hm. cbn [Z.eqb].
      apply project_monotonicity_inc.
    + eapply finalize_nonneg; eassumption.
  - destruct (pwl_project_col_cases c bias hs) as [[Hnp ->]|[_ ->]]; cbn [tl].
    + destruct (shortcut_mono c _ ltac:(lia) Hnp) as (_ & H0 & H1).
      rewrite body_state; cbn [d_h]. unfold s4_h, s3_h, s2_h. rewrite H0, H1, Hm. cbn [Z.eqb].
      apply project_monotonicity_dec.
    + eapply finalize_nonpos; eassumption. Qed.

(* ------------------------------------------------------------------ *)
(* 6. C04_bounds                                                       *)
(* ------------------------------------------------------------------ *)

Lemma cumsum_diffs : forall rest acc prev, acc == prev -> qleq (cumsum_from acc (diffs_from prev rest)) rest.
Proof. induction rest as [|x r IH]; intros acc prev H; cbn [diffs_from cumsum_from]; constructor.
  - rewrite Qred_correct, H. lra.
  - apply IH. rewrite Qred_correct, H. lra. Qed.

Lemma bounds_only_cumsum b h omin omax cmin cmax : (cmin <> BNone \/ cmax <> BNone) ->
  qleq (cumsum (fst (bounds_only b h omin omax cmin cmax) :: snd (bounds_only b h omin omax cmin cmax)))
       (map (clipf omin omax cmin cmax) (cumsum (b :: h))).
Proof. intros H. rewrite bounds_only_eq by exact H. cbn [fst snd]. unfold cumsum. cbn [cumsum_from map].
  constructor. lra. apply cumsum_diffs. lra. Qed.

Lemma bounds_only_in_bounds b h omin omax cmin cmax :
  cmin <> BClamped -> cmax <> BClamped -> (cmin <> BNone -> cmax <> BNone -> omin <= omax) ->
  let r := bounds_only b h omin omax cmin cmax in
  (cmin <> BNone -> Forall (fun s => omin <= s) (cumsum (fst r :: snd r))) /\
  (cmax <> BNone -> Forall (fun s => s <= omax) (cumsum (fst r :: snd r))).
Proof. intros Hc1 Hc2 Hle r. split; intros Hc.
  - eapply qleq_Forall; [|apply qleq_sym, bounds_only_cumsum; left; exact Hc|].
    { intros x y E Hx. rewrite <- E. exact Hx. }
    apply Forall_forall. intros x Hx. apply in_map_iff in Hx. destruct Hx as [y [<- _]].
    unfold clipf. destruct cmin, cmax; try congruence; try (qcases; lra).
    assert (omin <= omax) by (apply Hle; discriminate). qcases; lra.
  - eapply qleq_Forall; [|apply qleq_sym, bounds_only_cumsum; right; exact Hc|].
    { intros x y E Hx. rewrite <- E. exact Hx. }
    apply Forall_forall. intros x Hx. apply in_map_iff in Hx. destruct Hx as [y [<- _]].
    unfold clipf. destruct cmin, cmax; try congruence; qcases; lra. Qed.

Lemma has_bounds_true c : (p_cmin c <> BNone \/ p_cmax c <> BNone) -> has_bounds c = true.
Proof. unfold has_bounds. destruct (p_cmin c), (p_cmax c); intros [H|H]; try congruence; reflexivity. Qed.
Lemma has_bounds_false c : has_bounds c = false -> p_cmin c = BNone /\ p_cmax c = BNone.
Proof. unfold has_bounds. destruct (p_cmin c), (p_cmax c); cbn; intros; try discriminate; auto. Qed.
Lemma down_not_clamped b : down b <> BClamped. Proof. destruct b; discriminate. Qed.
Lemma down_none b : down b <> BNone <-> b <> BNone. Proof. destruct b; cbn; split; congruence. Qed.

Lemma pwl_bounds c n bias hs : pwl_valid c n -> length hs = n ->
  ~ (p_mono c <> 0%Z /\ p_conv c <> 0%Z) ->
  (p_cmin c <> BNone -> Forall (fun s => p_min c <= s) (keypoint_outputs (pwl_project_col c (bias :: hs)))) /\
  (p_cmax c <> BNone -> Forall (fun s => s <= p_max c) (keypoint_outputs (pwl_project_col c (bias :: hs)))).
Proof. intros V HL Hnot. unfold keypoint_outputs.
  assert (Hgoal : has_bounds c = true ->
    (p_cmin c <> BNone -> Forall (fun s => p_min c <= s) (cumsum (pwl_project_col c (bias :: hs)))) /\
    (p_cmax c <> BNone -> Forall (fun s => s <= p_max c) (cumsum (pwl_project_col c (bias :: hs))))).
  2:{ split; intros H; apply Hgoal; auto using has_bounds_true. }
  intros Hb. destruct V as (_ & _ & _ & _ & _ & Hle & Hcl).
  destruct (pwl_project_col_cases c bias hs) as [[Hnp ->]|[_ ->]].
  - destruct (shortcut_bounds c _ Hb Hnp) as (Hm & H0 & H1).
    rewrite body_state; cbn [d_h d_bias]. unfold s4_h, s3_h, s2_h, s1_h, s1_bias, bnd_res. rewrite H0, H1, Hm, Hb. cbn [Z.eqb].
    apply bounds_only_in_bounds; auto.
    + intros E. apply Hcl; auto.
    + intros E. apply Hcl; auto.
  - rewrite pwl_finalize_eq, Hb.
    replace (negb (p_mono c =? 0)%Z && negb (p_conv c =? 0)%Z)%bool with false.
    2:{ destruct (p_mono c =? 0)%Z eqn:E1; [reflexivity|]. destruct (p_conv c =? 0)%Z eqn:E2; [reflexivity|].
        exfalso. apply Hnot. split; intros E; rewrite E in *; discriminate. }
    pose proof (bounds_only_in_bounds (d_bias (dyk_iter c (p_iters c) (dyk_init bias hs))) (fin_h2 c (d_h (dyk_iter c (p_iters c) (dyk_init bias hs))))
      (p_min c) (p_max c) (down (p_cmin c)) (down (p_cmax c)) (down_not_clamped _) (down_not_clamped _)) as H.
    cbn zeta in H. rewrite !down_none in H. apply H. exact Hle. Qed.

(* known finding D2: monotone + convex + bounds is not repaired by _squeeze_by_scaling *)
Lemma pwl_bounds_refuted_monotone_convex :
  exists c w, pwl_valid c (length w - 1) /\ p_mono c <> 0%Z /\ p_conv c <> 0%Z /\ p_cmin c <> BNone /\
    exists s, In s (keypoint_outputs (pwl_project_col c w)) /\ s < p_min c.
Proof. exists (mkPwl (-1) 1 (-3) (-3) BBound BNone [1; 1] 1), [-129#4; -10; 55#4].
  split. { unfold pwl_valid; cbn. split; [lia|]. split; [reflexivity|]. split; [repeat constructor|].
           split; [auto|]. split; [auto|]. split. intros _ H; exfalso; apply H; reflexivity. intros [H|H]; discriminate. }
  split. discriminate. split. discriminate. split. discriminate.
  exists (-95#4). split. vm_compute. left; reflexivity. reflexivity. Qed.

(* ------------------------------------------------------------------ *)
(* 7. C04_convex                                                       *)
(* ------------------------------------------------------------------ *)

(* slope h0/l0 versus slope h1/l1, division-free (lengths are positive) *)
Definition slope_le (conv : Z) (h0 l0 h1 l1 : Q) : Prop :=
  if (conv =? 1)%Z then h0 * l1 <= h1 * l0 else h1 * l0 <= h0 * l1.
Fixpoint chain_from (conv : Z) (hp lp : Q) (hs ls : list Q) : Prop :=
  match hs, ls with
  | h :: hr, l :: lr => slope_le conv hp lp h l /\ chain_from conv h l hr lr
  | _, _ => True
  end.
Definition chain (conv : Z) (hs ls : list Q) : Prop :=
  match hs, ls with h :: hr, l :: lr => chain_from conv h l hr lr | _, _ => True end.

Lemma chain_from_nth conv : forall hs ls hp lp i, chain_from conv hp lp hs ls ->
  (i < length hs)%nat -> (i < length ls)%nat ->
  slope_le conv (nth i (hp :: hs) 0) (nth i (lp :: ls) 0) (nth i hs 0) (nth i ls 0).
Proof. induction hs as [|h hs IH]; intros [|l ls] hp lp i H Hi Hl; cbn [length] in *; try lia.
  destruct H as [H1 H2]. destruct i as [|i]. exact H1.
  change (nth (S i) (hp :: h :: hs) 0) with (nth i (h :: hs) 0). change (nth (S i) (lp :: l :: ls) 0) with (nth i (l :: ls) 0).
  change (nth (S i) (h :: hs) 0) with (nth i hs 0). change (nth (S i) (l :: ls) 0) with (nth i ls 0).
  apply IH; [assumption|lia|lia]. Qed.
Lemma chain_nth conv hs ls i : chain conv hs ls -> (S i < length hs)%nat -> (S i < length ls)%nat ->
  slope_le conv (nth i hs 0) (nth i ls 0) (nth (S i) hs 0) (nth (S i) ls 0).
Proof. destruct hs as [|h hs], ls as [|l ls]; cbn [length chain]; intros H Hi Hl; try lia.
  apply (chain_from_nth conv hs ls h l i H); lia. Qed.

Lemma acf_chain conv : forall hs ls hp lp, 0 < lp -> Forall (fun l => 0 < l) ls ->
  chain_from conv hp lp (approx_convexity_from conv hp lp hs ls) ls.
Proof. induction hs as [|h hs IH]; intros [|l ls] hp lp Hlp HL; cbn [approx_convexity_from chain_from]; auto.
  inversion HL; subst. split; [|apply IH; assumption].
  assert (E : hp * (l / lp) * lp == hp * l) by (field; lra).
  unfold slope_le. destruct (conv =? 1)%Z; rewrite Qred_correct.
  - assert (hp * (l / lp) * lp <= qmax h (hp * (l / lp)) * lp) by (apply Qmult_le_compat_r; [apply qmax_r|lra]). lra.
  - assert (qmin h (hp * (l / lp)) * lp <= hp * (l / lp) * lp) by (apply Qmult_le_compat_r; [apply qmin_r|lra]). lra. Qed.
Lemma approx_convexity_chain conv hs ls : conv <> 0%Z -> Forall (fun l => 0 < l) ls ->
  chain conv (approx_convexity conv hs ls) ls.
Proof. intros Hc HL. unfold approx_convexity. destruct (conv =? 0)%Z eqn:E; [apply Z.eqb_eq in E; contradiction|].
  destruct hs as [|h hs], ls as [|l ls]; cbn [chain]; auto. inversion HL; subst. apply acf_chain; assumption. Qed.

Lemma slope_le_scale conv k h0 l0 h1 l1 x0 x1 : 0 <= k -> x0 == h0 * k -> x1 == h1 * k ->
  slope_le conv h0 l0 h1 l1 -> slope_le conv x0 l0 x1 l1.
Proof. unfold slope_le. intros Hk E0 E1. destruct (conv =? 1)%Z; intros H; rewrite E0, E1.
  - pose proof (qmul_le_l k _ _ Hk H). lra.
  - pose proof (qmul_le_l k _ _ Hk H). lra. Qed.
Lemma chain_from_scale conv k (f : Q -> Q) : 0 <= k -> (forall x, f x == x * k) ->
  forall hs ls hp lp, chain_from conv hp lp hs ls -> chain_from conv (f hp) lp (map f hs) ls.
Proof. intros Hk Hf. induction hs as [|h hs IH]; intros [|l ls] hp lp H; cbn [map chain_from] in *; auto.
  destruct H as [H1 H2]. split; [|apply IH; assumption].
  eapply slope_le_scale; [exact Hk|apply Hf|apply Hf|exact H1]. Qed.
Lemma chain_scale conv k (f : Q -> Q) hs ls : 0 <= k -> (forall x, f x == x * k) ->
  chain conv hs ls -> chain conv (map f hs) ls.
Proof. intros Hk Hf. destruct hs as [|h hs], ls as [|l ls]; cbn [map chain]; auto. apply chain_from_scale with (k := k); assumption. Qed.

Lemma squeeze_inc_eq b h omax cmax : exists k, 0 <= k /\ exists f : Q -> Q, (forall x, f x == x * k) /\
  snd (squeeze_inc b h omax cmax) = map f h.
Proof. unfold squeeze_inc. destruct cmax; cbn [snd].
  - exists 1. split; [lra|]. exists (fun x => x). split; [intros; lra|]. symmetry; apply map_id.
  - match goal with |- context [Qred (_ / ?d)] => exists (/ d); split;
      [apply Qinv_le_0_compat, Qlt_le_weak, squeeze_d_pos|exists (fun x => Qred (x / d)); split; [|reflexivity]] end.
    intros x. rewrite Qred_correct. reflexivity.
  - match goal with |- context [Qred (_ / ?d)] => exists (/ d); split;
      [apply Qinv_le_0_compat, Qlt_le_weak, squeeze_d_pos|exists (fun x => Qred (x / d)); split; [|reflexivity]] end.
    intros x. rewrite Qred_correct. reflexivity. Qed.
Lemma squeeze_eq m b h omin omax cmin cmax : exists k, 0 <= k /\ exists f : Q -> Q, (forall x, f x == x * k) /\
  snd (squeeze m b h omin omax cmin cmax) = map f h.
Proof. unfold squeeze. destruct (m =? -1)%Z; [|apply squeeze_inc_eq].
  assert (Hid : exists k, 0 <= k /\ exists f : Q -> Q, (forall x, f x == x * k) /\ h = map f h).
  { exists 1. split; [lra|]. exists (fun x => x). split; [intros; lra|]. symmetry; apply map_id. }
  destruct cmin; [exact Hid| |].
  all: match goal with |- context [squeeze_inc ?a ?b ?c ?d] =>
         destruct (squeeze_inc_eq a b c d) as (k & Hk & f & Hf & E); destruct (squeeze_inc a b c d) as [b' h'] end.
  all: cbn [snd] in *; subst h'; exists k; split; [exact Hk|]; exists (fun x => - f (- x)); split;
       [intros x; rewrite Hf; lra|unfold qneg_list; rewrite !map_map; reflexivity]. Qed.

Lemma convex_pair_slope conv a b l0 l1 : 0 < l0 -> 0 < l1 ->
  let base := (a + b) / (l0 + l1) in
  slope_le conv (if (conv =? 1)%Z then Qred (qmin a (l0 * base)) else Qred (qmax a (l0 * base))) l0
                (if (conv =? 1)%Z then Qred (qmax b (l1 * base)) else Qred (qmin b (l1 * base))) l1.
Proof. intros H0 H1 base. unfold slope_le. destruct (conv =? 1)%Z; rewrite !Qred_correct.
  - assert (qmin a (l0 * base) * l1 <= l0 * base * l1) by (apply Qmult_le_compat_r; [apply qmin_r|lra]).
    assert (l1 * base * l0 <= qmax b (l1 * base) * l0) by (apply Qmult_le_compat_r; [apply qmax_r|lra]). lra.
  - assert (l0 * base * l1 <= qmax a (l0 * base) * l1) by (apply Qmult_le_compat_r; [apply qmax_r|lra]).
    assert (qmin b (l1 * base) * l0 <= l1 * base * l0) by (apply Qmult_le_compat_r; [apply qmin_r|lra]). lra. Qed.

Lemma project_convexity_two conv hs ls : conv <> 0%Z -> length hs = 2%nat -> (2 <= length ls)%nat ->
  Forall (fun l => 0 < l) ls -> chain conv (project_convexity conv 0 hs ls) ls.
Proof. intros Hc HL HLs HP. destruct hs as [|a [|b [|x hs]]]; try discriminate. destruct ls as [|l0 [|l1 lr]]; cbn in HLs; try lia.
  unfold project_convexity. destruct (conv =? 0)%Z eqn:E; [apply Z.eqb_eq in E; contradiction|].
  cbn [length convex_pairs chain chain_from]. inversion HP as [|? ? P0 HP']; subst. inversion HP' as [|? ? P1 _]; subst.
  split; [|destruct lr; exact I]. apply convex_pair_slope; assumption. Qed.

Lemma finalize_chain c n b h : pwl_valid c n -> p_conv c <> 0%Z -> (p_mono c <> 0%Z \/ has_bounds c = false) ->
  chain (p_conv c) (snd (pwl_finalize c b h)) (p_lengths c).
Proof. intros (_ & _ & HL & _) Hc Hor. rewrite pwl_finalize_eq.
  assert (H2 : chain (p_conv c) (fin_h2 c h) (p_lengths c)).
  { unfold fin_h2. destruct (p_conv c =? 0)%Z eqn:E; [apply Z.eqb_eq in E; contradiction|].
    apply approx_convexity_chain; assumption. }
  destruct (has_bounds c); [|exact H2]. destruct Hor as [Hm|?]; [|discriminate].
  destruct (p_mono c =? 0)%Z eqn:E1; [apply Z.eqb_eq in E1; contradiction|].
  destruct (p_conv c =? 0)%Z eqn:E2; [apply Z.eqb_eq in E2; contradiction|]. cbn [negb andb].
  destruct (squeeze_eq (p_mono c) b (fin_h2 c h) (p_min c) (p_max c) (p_cmin c) (p_cmax c)) as (k & Hk & f & Hf & ->).
  apply chain_scale with (k := k); assumption. Qed.

Lemma pwl_convex c n bias hs : pwl_valid c n -> length hs = n ->
  p_conv c <> 0%Z -> (p_mono c <> 0%Z \/ has_bounds c = false) ->
  forall i, (S i < n)%nat ->
  slope_le (p_conv c) (nth i (tl (pwl_project_col c (bias :: hs))) 0) (nth i (p_lengths c) 0)
                      (nth (S i) (tl (pwl_project_col c (bias :: hs))) 0) (nth (S i) (p_lengths c) 0).
Proof. intros V HL Hc Hor i Hi.
  assert (Hlen : length (tl (pwl_project_col c (bias :: hs))) = n).
  { pose proof (pwl_project_col_length c (bias :: hs)) as H. destruct (pwl_project_col c (bias :: hs)); cbn in *; lia. }
  assert (HLs : length (p_lengths c) = n) by apply V.
  apply chain_nth; try lia. clear Hlen.
  pose proof (dyk_init_wf bias hs) as WF. rewrite HL in WF.
  destruct (pwl_project_col_cases c bias hs) as [[Hnp ->]|[_ ->]]; cbn [tl].
  - assert (E0 : c0_on c (dyk_init bias hs) = true).
    { rewrite (c0_on_eq c n) by exact WF. destruct (p_conv c =? 0)%Z eqn:E; [apply Z.eqb_eq in E; contradiction|].
      cbn [negb andb]. apply Nat.leb_le. lia. }
    assert (Hm : p_mono c = 0%Z).
    { destruct (Z.eq_dec (p_mono c) 0) as [|Hm]; [assumption|]. destruct (shortcut_mono c _ Hm Hnp) as (_ & H0 & _). congruence. }
    assert (E1 : c1_on c (dyk_init bias hs) = false).
    { revert Hnp. unfold s4_np, s3_np. rewrite E0. destruct (c1_on c (dyk_init bias hs)); [lia|reflexivity]. }
    assert (Hn : n = 2%nat).
    { rewrite (c1_on_eq c n) in E1 by exact WF. destruct (p_conv c =? 0)%Z eqn:E; [apply Z.eqb_eq in E; contradiction|].
      cbn [negb andb] in E1. apply Nat.leb_gt in E1. lia. }
    rewrite body_state; cbn [d_h]. unfold s4_h, s3_h. rewrite E0, E1.
    apply project_convexity_two; [assumption| |lia|apply V].
    rewrite (c0_rh_length c n) by exact WF. exact Hn.
  - eapply finalize_chain; eassumption. Qed.

(* the same with real slopes *)
Lemma slope_le_div h0 l0 h1 l1 : 0 < l0 -> 0 < l1 -> (h0 * l1 <= h1 * l0 <-> h0 / l0 <= h1 / l1).
Proof. intros H0 H1. pose proof (qdiv_mul l0 h0 H0) as E0. pose proof (qdiv_mul l1 h1 H1) as E1.
  split; intros H.
  - apply (qmul_cancel_le (l0 * l1)). nra. nra.
  - assert (l0 * l1 * (h0 / l0) <= l0 * l1 * (h1 / l1)) by (apply qmul_le_l; [nra|assumption]). nra. Qed.

Lemma pwl_convex_nth c n bias hs : pwl_valid c n -> length hs = n ->
  p_conv c <> 0%Z -> (p_mono c <> 0%Z \/ has_bounds c = false) ->
  forall i, (S i < n)%nat ->
  let h := tl (pwl_project_col c (bias :: hs)) in let l := p_lengths c in
  (p_conv c = 1%Z -> nth i h 0 * nth (S i) l 0 <= nth (S i) h 0 * nth i l 0) /\
  (p_conv c = (-1)%Z -> nth (S i) h 0 * nth i l 0 <= nth i h 0 * nth (S i) l 0).
Proof. intros V HL Hc Hor i Hi h l. pose proof (pwl_convex c n bias hs V HL Hc Hor i Hi) as H.
  unfold slope_le in H. split; intros E; rewrite E in H; exact H. Qed.

Lemma naive_bounds_one_sided lo hi w :
  lo <= naive_bounds (Some lo) None w /\ naive_bounds None (Some hi) w <= hi.
Proof. split. apply naive_bounds_lo; exact I. apply naive_bounds_hi. Qed.

(* ------------------------------------------------------------------ *)
(* 8. Clamps.  The bias end is immediate; the far end needs the         *)
(*    Dykstra invariant: after every MONOTONICITY step                 *)
(*    bias + sum heights >= output_max  (increasing, normalised).       *)
(* ------------------------------------------------------------------ *)

Lemma qsum_shift_pointwise a b d : length a = length b ->
  (forall i, (i < length a)%nat -> nth i a 0 == nth i b 0 + d) -> qsum a == qsum b + qn (length a) * d.
Proof. revert b; induction a as [|x a IH]; intros [|y b] HL H; cbn [length] in *; try lia.
  - cbn [qsum]. change (qn 0) with (0#1). lra.
  - cbn [qsum]. rewrite qn_S. pose proof (H 0%nat ltac:(lia)) as H0; cbn [nth] in H0.
    rewrite (IH b) by (try lia; intros i Hi; apply (H (S i)); lia). rewrite H0. lra. Qed.

(* what _project_bounds_considering_monotonicity (increasing, CLAMPED max) returns *)
Definition bmi_facts (omin omax : Q) (cmin : bct) (N rb s bq hd bd : Q) : Prop :=
  bq + s + N * hd == omax /\
  match cmin with
  | BClamped => bq == omin
  | BBound => (N + 1) * bd == omax - (rb + s) /\ bq == qmax (rb + bd) omin
  | BNone => bq == rb + hd /\ (N + 1) * hd == omax - (rb + s)
  end.

Lemma bmi_clamped_max rb rh omin omax cmin : (1 <= length rh)%nat ->
  exists bq hd bd, bounds_mono_inc rb rh omin omax cmin BClamped = (Qred bq, map (fun h => Qred (h + hd)) rh) /\
    bmi_facts omin omax cmin (qn (length rh)) rb (qsum rh) bq hd bd.
Proof. intros Hn. pose proof (qn_pos _ Hn) as HN. unfold bounds_mono_inc, bmi_facts.
  set (N := qn (length rh)) in *. set (s := qsum rh).
  destruct cmin; cbn [bct_eqb]; cbv beta iota zeta.
  - exists (rb + (omax - (rb + s)) / (N + 1)), ((omax - (rb + s)) / (N + 1)), 0. split; [reflexivity|].
    pose proof (qdiv_mul (N + 1) (omax - (rb + s)) ltac:(lra)). split; [lra|]. split; [reflexivity|lra].
  - exists (qmax (rb + (omax - (rb + s)) / (N + 1)) omin),
           ((omax - (qmax (rb + (omax - (rb + s)) / (N + 1)) omin + s)) / N), ((omax - (rb + s)) / (N + 1)).
    split; [reflexivity|].
    pose proof (qdiv_mul (N + 1) (omax - (rb + s)) ltac:(lra)).
    pose proof (qdiv_mul N (omax - (qmax (rb + (omax - (rb + s)) / (N + 1)) omin + s)) HN).
    split; [lra|]. split; [lra|reflexivity].
  - exists omin, ((omax - (omin + s)) / N), 0. split; [reflexivity|].
    pose proof (qdiv_mul N (omax - (omin + s)) HN). split; [lra|reflexivity]. Qed.

Section ClampFarEnd.
  (* normalised (increasing) coordinates: bounds omin/omax, min constraint cmin,
     max constraint CLAMPED, n heights *)
  Variables (omin omax : Q) (cmin : bct) (n : nat).
  Hypothesis Hn : (1 <= n)%nat.
  Let N := qn n.

  Definition cm_B (b : Q) (h : list Q) (lbb k : Q) : Prop :=
    omax <= b + qsum h /\
    match cmin with
    | BClamped => b == omin
    | BBound => omin <= b /\ (b == omin \/ lbb == k)
    | BNone => lbb == k
    end.
  Definition cm_shape (h lhb m : list Q) (k : Q) : Prop :=
    length h = n /\ length lhb = n /\ length m = n /\
    (forall i, (i < n)%nat -> nth i lhb 0 == k) /\
    (forall i, (i < n)%nat -> 0 <= nth i m 0 /\ (0 < nth i m 0 -> nth i h 0 == 0)).
  (* before an iteration / after at least one iteration *)
  Definition cm_pre (b : Q) (h : list Q) (lbb : Q) (lhb m : list Q) : Prop :=
    exists k, cm_shape h lhb m k /\ ((forall i, (i < n)%nat -> nth i m 0 == 0) \/ cm_B b h lbb k).
  Definition cm_post (b : Q) (h : list Q) (lbb : Q) (lhb m : list Q) : Prop :=
    exists k, cm_shape h lhb m k /\ cm_B b h lbb k.

  Lemma cm_post_pre b h lbb lhb m : cm_post b h lbb lhb m -> cm_pre b h lbb lhb m.
  Proof. intros (k & H1 & H2). exists k. auto. Qed.

  Lemma cm_step b h lbb lhb m rb rh bq hd bd b1 h1 lbb1 lhb1 h2 m1 :
    cm_pre b h lbb lhb m ->
    rb == b - lbb -> length rh = n -> (forall i, (i < n)%nat -> nth i rh 0 == nth i h 0 - nth i lhb 0) ->
    bmi_facts omin omax cmin N rb (qsum rh) bq hd bd ->
    b1 == bq -> lbb1 == b1 - rb ->
    length h1 = n -> (forall i, (i < n)%nat -> nth i h1 0 == nth i rh 0 + hd) ->
    length lhb1 = n -> (forall i, (i < n)%nat -> nth i lhb1 0 == nth i h1 0 - nth i rh 0) ->
    length h2 = n -> (forall i, (i < n)%nat -> nth i h2 0 == qmax (nth i h1 0 - nth i m 0) 0) ->
    length m1 = n -> (forall i, (i < n)%nat -> nth i m1 0 == nth i h2 0 - (nth i h1 0 - nth i m 0)) ->
    cm_post b1 h2 lbb1 lhb1 m1.
  Proof.
    intros (k & (Lh & Llhb & Lm & Hk & Hm) & Hor) Erb Lrh Hrh (Hsum & Hc) Eb1 Elbb1 Lh1 Hh1 Llhb1 Hlhb1 Lh2 Hh2 Lm1 Hm1.
    pose proof (qn_pos n Hn) as HN. fold N in HN.
    assert (Es : qsum rh == qsum h + N * (- k)).
    { unfold N. rewrite <- Lrh. apply qsum_shift_pointwise; [lia|]. rewrite Lrh. intros i Hi. rewrite Hrh, Hk by assumption. lra. }
    assert (Es1 : qsum h1 == qsum rh + N * hd).
    { unfold N. rewrite <- Lh1. apply qsum_shift_pointwise; [lia|]. rewrite Lh1. exact Hh1. }
    (* the new bounds shift is not larger than the stored one *)
    assert (Heps : cm_B b h lbb k -> hd <= k).
    { intros (HB & HC). apply (qmul_cancel_le N); [exact HN|]. destruct cmin.
      - destruct Hc as (Hbq & Hhd). apply (qmul_cancel_le (N + 1)); [lra|].
        assert (E : (N + 1) * (N * hd) == N * ((N + 1) * hd)) by ring. rewrite E, Hhd.
        assert (E' : (N + 1) * (N * k) == N * ((N + 1) * k)) by ring. rewrite E'.
        apply qmul_le_l; lra.
      - destruct Hc as (Hbd & Hbq). destruct HC as (Hge & [Heq|Heq]).
        + assert (omin <= bq) by (rewrite Hbq; apply qmax_r). lra.
        + assert (Hbdk : bd <= k). { apply (qmul_cancel_le (N + 1)); lra. }
          pose proof (qmul_le_l N bd k ltac:(lra) Hbdk).
          revert Hbq. qcases; intros Hbq; lra.
      - lra. }
    exists hd. split; [split; [exact Lh2|split; [exact Llhb1|split; [exact Lm1|split]]]|].
    - intros i Hi. rewrite Hlhb1, Hh1 by assumption. lra.
    - intros i Hi. rewrite Hm1, Hh2 by assumption. split; [|intros H0; revert H0]; qcases; lra.
    - assert (Hle : qsum h1 <= qsum h2).
      { apply qsum_le_pointwise; [lia|]. rewrite Lh1. intros i Hi. rewrite Hh2 by assumption.
        destruct (Hm i Hi) as (Hm0 & Hm0').
        destruct Hor as [Hz|HB].
        - rewrite (Hz i Hi). qcases; lra.
        - pose proof (Heps HB) as He. destruct (Qlt_le_dec 0 (nth i m 0)) as [Hpos|Hnp].
          + assert (nth i h1 0 <= 0). { rewrite Hh1, Hrh, (Hm0' Hpos), Hk by assumption. lra. }
            qcases; lra.
          + assert (nth i m 0 == 0) by lra. qcases; lra. }
      split; [lra|]. destruct cmin.
      + destruct Hc as (Hbq & _). lra.
      + destruct Hc as (Hbd & Hbq). split. { rewrite Eb1, Hbq. apply qmax_r. }
        revert Hbq. qcases; intros Hbq; [left; lra|right].
        rewrite Elbb1, Eb1, Hbq. assert (N * hd == N * bd) by lra.
        pose proof (qmul_cancel_eq N hd bd HN H). lra.
      + lra.
  Qed.
End ClampFarEnd.

Lemma nth_qneg l i : (i < length l)%nat -> nth i (qneg_list l) 0 = - nth i l 0.
Proof. intros H. unfold qneg_list. apply (nth_map0 Qopp l i H). Qed.

Ltac len :=
  repeat match goal with
  | |- context [length (map _ _)] => rewrite map_length
  | |- context [length (qneg_list _)] => rewrite qneg_list_length
  | |- context [length (lsub ?a ?b)] => rewrite (lsub_length a b) by len
  end; try assumption; try lia.
Ltac nthsimp :=
  repeat match goal with
  | |- context [nth ?i (map ?f ?l) 0] => rewrite (nth_map0 f l i) by len
  | |- context [nth ?i (qneg_list ?l) 0] => rewrite (nth_qneg l i) by len
  | |- context [nth ?i (lsub ?a ?b) 0] => rewrite (nth_lsub a b i) by len
  end; rewrite ?Qred_correct.

Definition cm_inc_pre c n st := cm_pre (p_min c) (p_max c) (p_cmin c) n
  (d_bias st) (d_h st) (d_lb_bounds st) (d_lh_bounds st) (d_lh_mono st).
Definition cm_inc_post c n st := cm_post (p_min c) (p_max c) (p_cmin c) n
  (d_bias st) (d_h st) (d_lb_bounds st) (d_lh_bounds st) (d_lh_mono st).
Definition cm_dec_pre c n st := cm_pre (- p_max c) (- p_min c) (p_cmax c) n
  (- d_bias st) (qneg_list (d_h st)) (- d_lb_bounds st) (qneg_list (d_lh_bounds st)) (qneg_list (d_lh_mono st)).
Definition cm_dec_post c n st := cm_post (- p_max c) (- p_min c) (p_cmax c) n
  (- d_bias st) (qneg_list (d_h st)) (- d_lb_bounds st) (qneg_list (d_lh_bounds st)) (qneg_list (d_lh_mono st)).

Lemma body_mono_noconv c st : p_conv c = 0%Z -> s4_h c st = s2_h c st.
Proof. intros Hc. unfold s4_h, c1_on, s3_h, c0_on. rewrite Hc. reflexivity. Qed.

Lemma body_cm_inc c n st : (1 <= n)%nat -> p_mono c = 1%Z -> p_conv c = 0%Z -> p_cmax c = BClamped ->
  dyk_wf n st -> cm_inc_pre c n st -> cm_inc_post c n (fst (dyk_body c st)).
Proof. intros Hn Hm Hc Hcl WF Hpre. unfold cm_inc_post. rewrite body_state. cbn [d_bias d_h d_lb_bounds d_lh_bounds d_lh_mono].
  rewrite body_mono_noconv by exact Hc.
  assert (Hb : has_bounds c = true) by (apply has_bounds_true; right; congruence).
  pose proof (bnd_rh_length n st WF) as Lrh. destruct WF as (Lh & Llhb & Lm & _).
  destruct (bmi_clamped_max (bnd_rb st) (bnd_rh st) (p_min c) (p_max c) (p_cmin c) ltac:(lia)) as (bq & hd & bd & E & F).
  rewrite Lrh in F.
  assert (Eres : bnd_res c st = (Qred bq, map (fun h => Qred (h + hd)) (bnd_rh st))).
  { unfold bnd_res, bounds_mono. rewrite Hm, Hcl. cbn [Z.eqb]. exact E. }
  unfold s2_lhm, s2_h, mono_rh, s1_lhb, s1_lbb, s1_h, s1_bias. rewrite Hb, Eres, Hm. cbn [Z.eqb fst snd].
  unfold project_monotonicity. cbn [Z.eqb Pos.eqb].
  eapply (cm_step (p_min c) (p_max c) (p_cmin c) n Hn (d_bias st) (d_h st) (d_lb_bounds st) (d_lh_bounds st) (d_lh_mono st)
           (bnd_rb st) (bnd_rh st) bq hd bd) with (h1 := map (fun h => Qred (h + hd)) (bnd_rh st)).
  - exact Hpre.
  - unfold bnd_rb. rewrite Qred_correct. reflexivity.
  - exact Lrh.
  - intros i Hi. unfold bnd_rh. nthsimp. reflexivity.
  - exact F.
  - apply Qred_correct.
  - rewrite Qred_correct. reflexivity.
  - len.
  - intros i Hi. nthsimp. reflexivity.
  - len.
  - intros i Hi. nthsimp. reflexivity.
  - len.
  - intros i Hi. nthsimp. reflexivity.
  - len.
  - intros i Hi. nthsimp. reflexivity.
Qed.

Lemma body_cm_dec c n st : (1 <= n)%nat -> p_mono c = (-1)%Z -> p_conv c = 0%Z -> p_cmin c = BClamped ->
  dyk_wf n st -> cm_dec_pre c n st -> cm_dec_post c n (fst (dyk_body c st)).
Proof. intros Hn Hm Hc Hcl WF Hpre. unfold cm_dec_post. rewrite body_state. cbn [d_bias d_h d_lb_bounds d_lh_bounds d_lh_mono].
  rewrite body_mono_noconv by exact Hc.
  assert (Hb : has_bounds c = true) by (apply has_bounds_true; left; congruence).
  pose proof (bnd_rh_length n st WF) as Lrh. destruct WF as (Lh & Llhb & Lm & _).
  destruct (bmi_clamped_max (- bnd_rb st) (qneg_list (bnd_rh st)) (- p_max c) (- p_min c) (p_cmax c)
              ltac:(rewrite qneg_list_length; lia)) as (bq & hd & bd & E & F).
  rewrite qneg_list_length, Lrh in F.
  assert (Eres : bnd_res c st = (- Qred bq, qneg_list (map (fun h => Qred (h + hd)) (qneg_list (bnd_rh st))))).
  { unfold bnd_res, bounds_mono. rewrite Hm, Hcl. cbn [Z.eqb Pos.eqb]. rewrite E. reflexivity. }
  unfold s2_lhm, s2_h, mono_rh, s1_lhb, s1_lbb, s1_h, s1_bias. rewrite Hb, Eres, Hm. cbn [Z.eqb fst snd].
  unfold project_monotonicity. cbn [Z.eqb Pos.eqb].
  eapply (cm_step (- p_max c) (- p_min c) (p_cmax c) n Hn (- d_bias st) (qneg_list (d_h st)) (- d_lb_bounds st)
           (qneg_list (d_lh_bounds st)) (qneg_list (d_lh_mono st))
           (- bnd_rb st) (qneg_list (bnd_rh st)) bq hd bd)
    with (h1 := qneg_list (qneg_list (map (fun h => Qred (h + hd)) (qneg_list (bnd_rh st))))).
  - exact Hpre.
  - unfold bnd_rb. rewrite Qred_correct. lra.
  - len.
  - intros i Hi. unfold bnd_rh. nthsimp. lra.
  - exact F.
  - rewrite Qred_correct. lra.
  - rewrite !Qred_correct. lra.
  - len.
  - intros i Hi. nthsimp. lra.
  - len.
  - intros i Hi. nthsimp. lra.
  - len.
  - intros i Hi. nthsimp. qcases; lra.
  - len.
  - intros i Hi. nthsimp. lra.
Qed.

Lemma cm_inc_init c n b h : length h = n -> cm_inc_pre c n (dyk_init b h).
Proof. intros HL. exists 0. unfold dyk_init; cbn [d_bias d_h d_lb_bounds d_lh_bounds d_lh_mono].
  split; [|left; intros i Hi; nthsimp; reflexivity].
  unfold cm_shape. split; [len|]. split; [len|]. split; [len|].
  split; intros i Hi; nthsimp; [reflexivity|split; [lra|intros H; lra]]. Qed.
Lemma cm_dec_init c n b h : length h = n -> cm_dec_pre c n (dyk_init b h).
Proof. intros HL. exists 0. unfold dyk_init; cbn [d_bias d_h d_lb_bounds d_lh_bounds d_lh_mono].
  split; [|left; intros i Hi; nthsimp; lra].
  unfold cm_shape. split; [len|]. split; [len|]. split; [len|].
  split; intros i Hi; nthsimp; [lra|split; [lra|intros H; lra]]. Qed.

Lemma cm_inc_final c n b h k : (1 <= n)%nat -> length h = n -> p_mono c = 1%Z -> p_conv c = 0%Z -> p_cmax c = BClamped ->
  cm_inc_post c n (dyk_iter c (S k) (dyk_init b h)).
Proof. intros Hn HL Hm Hc Hcl. rewrite dyk_iter_S_last.
  assert (H : dyk_wf n (dyk_iter c k (dyk_init b h)) /\ cm_inc_pre c n (dyk_iter c k (dyk_init b h))).
  { apply (dyk_iter_inv (fun st => dyk_wf n st /\ cm_inc_pre c n st)).
    - intros st (WF & Hp). split. apply dyk_body_wf; exact WF.
      apply cm_post_pre. apply body_cm_inc; assumption.
    - split. rewrite <- HL; apply dyk_init_wf. apply cm_inc_init; exact HL. }
  destruct H. apply body_cm_inc; assumption. Qed.
Lemma cm_dec_final c n b h k : (1 <= n)%nat -> length h = n -> p_mono c = (-1)%Z -> p_conv c = 0%Z -> p_cmin c = BClamped ->
  cm_dec_post c n (dyk_iter c (S k) (dyk_init b h)).
Proof. intros Hn HL Hm Hc Hcl. rewrite dyk_iter_S_last.
  assert (H : dyk_wf n (dyk_iter c k (dyk_init b h)) /\ cm_dec_pre c n (dyk_iter c k (dyk_init b h))).
  { apply (dyk_iter_inv (fun st => dyk_wf n st /\ cm_dec_pre c n st)).
    - intros st (WF & Hp). split. apply dyk_body_wf; exact WF.
      apply cm_post_pre. apply body_cm_dec; assumption.
    - split. rewrite <- HL; apply dyk_init_wf. apply cm_dec_init; exact HL. }
  destruct H. apply body_cm_dec; assumption. Qed.

Lemma np_ge_2 c st : has_bounds c = true -> p_mono c <> 0%Z -> (2 <= s4_np c st)%nat.
Proof. intros Hb Hm. unfold s4_np, s3_np, s2_np, s1_np. rewrite Hb.
  destruct (p_mono c =? 0)%Z eqn:E; [apply Z.eqb_eq in E; contradiction|].
  destruct (c0_on c st), (c1_on c st); lia. Qed.
Lemma pwl_project_col_loop c b h : has_bounds c = true -> p_mono c <> 0%Z ->
  let stN := dyk_iter c (p_iters c) (dyk_init b h) in
  pwl_project_col c (b :: h) = fst (pwl_finalize c (d_bias stN) (d_h stN)) :: snd (pwl_finalize c (d_bias stN) (d_h stN)).
Proof. intros Hb Hm. destruct (pwl_project_col_cases c b h) as [[Hnp _]|[_ E]]; [|exact E].
  pose proof (np_ge_2 c (dyk_init b h) Hb Hm). lia. Qed.

Lemma clipf_proper omin omax cmin cmax x y : x == y -> clipf omin omax cmin cmax x == clipf omin omax cmin cmax y.
Proof. intros E. pose proof (clipf_mono omin omax cmin cmax x y ltac:(lra)).
  pose proof (clipf_mono omin omax cmin cmax y x ltac:(lra)). lra. Qed.

Lemma finalize_noconv_cumsum c b h : has_bounds c = true -> p_conv c = 0%Z ->
  qleq (cumsum (fst (pwl_finalize c b h) :: snd (pwl_finalize c b h)))
       (map (clipf (p_min c) (p_max c) (down (p_cmin c)) (down (p_cmax c))) (cumsum (b :: fin_h1 c h))).
Proof. intros Hb Hc. rewrite pwl_finalize_eq, Hb. unfold fin_h2. rewrite Hc. cbn [Z.eqb negb andb].
  rewrite Bool.andb_false_r. apply bounds_only_cumsum.
  rewrite !down_none. unfold has_bounds in Hb. destruct (p_cmin c), (p_cmax c); try discriminate; ((left; discriminate) || (right; discriminate)). Qed.

Lemma last_cumsum_from : forall l acc, last (acc :: cumsum_from acc l) 0 == acc + qsum l.
Proof. induction l as [|x l IH]; intros acc. cbn. lra.
  change (last (acc :: cumsum_from acc (x :: l)) 0) with (last ((acc + x) :: cumsum_from (acc + x) l) 0).
  rewrite IH. cbn [qsum]. lra. Qed.
Lemma last_map_cons (f : Q -> Q) : forall l a, last (map f (a :: l)) 0 = f (last (a :: l) 0).
Proof. induction l as [|x l IH]; intros a. reflexivity.
  change (last (map f (a :: x :: l)) 0) with (last (map f (x :: l)) 0). rewrite IH. reflexivity. Qed.
Lemma qsum_qneg l : qsum (qneg_list l) == - qsum l.
Proof. induction l as [|x l IH]; cbn [qneg_list map qsum]. lra. fold (qneg_list l). rewrite IH. lra. Qed.

Lemma last_finalize_noconv c b h : has_bounds c = true -> p_conv c = 0%Z ->
  last (cumsum (fst (pwl_finalize c b h) :: snd (pwl_finalize c b h))) 0 ==
  clipf (p_min c) (p_max c) (down (p_cmin c)) (down (p_cmax c)) (b + qsum (fin_h1 c h)).
Proof. intros Hb Hc. rewrite (qleq_last _ _ (finalize_noconv_cumsum c b h Hb Hc)).
  unfold cumsum. cbn [cumsum_from]. rewrite last_map_cons. apply clipf_proper. rewrite last_cumsum_from. lra. Qed.
Lemma first_finalize_noconv c b h : has_bounds c = true -> p_conv c = 0%Z ->
  nth 0 (cumsum (fst (pwl_finalize c b h) :: snd (pwl_finalize c b h))) 0 ==
  clipf (p_min c) (p_max c) (down (p_cmin c)) (down (p_cmax c)) b.
Proof. intros Hb Hc. rewrite (qleq_nth _ _ 0 (finalize_noconv_cumsum c b h Hb Hc)).
  unfold cumsum. cbn [cumsum_from map nth]. apply clipf_proper. lra. Qed.

Lemma bmi_clamped_min_bias b h omin omax cmax : fst (bounds_mono_inc b h omin omax BClamped cmax) == omin.
Proof. unfold bounds_mono_inc. destruct cmax; cbn [fst bct_eqb]; rewrite ?Qred_correct; reflexivity. Qed.

Lemma pwl_clamp_min_exact c n bias hs : pwl_valid c n -> length hs = n ->
  p_conv c = 0%Z -> (1 <= p_iters c)%nat -> p_cmin c = BClamped ->
  (p_mono c = 1%Z -> nth 0 (keypoint_outputs (pwl_project_col c (bias :: hs))) 0 == p_min c) /\
  (p_mono c = (-1)%Z -> last (keypoint_outputs (pwl_project_col c (bias :: hs))) 0 == p_min c).
Proof. intros V HL Hc Hit Hcl. destruct V as (Hn & _ & _ & _ & _ & Hle & _).
  assert (Hb : has_bounds c = true) by (apply has_bounds_true; left; congruence).
  destruct (p_iters c) as [|k] eqn:Ek; [lia|]. unfold keypoint_outputs.
  split; intros Hm; rewrite pwl_project_col_loop by (try assumption; lia); cbn zeta; rewrite Ek.
  - rewrite first_finalize_noconv by assumption.
    rewrite dyk_iter_S_last, body_state. cbn [d_bias]. unfold s1_bias, bnd_res, bounds_mono. rewrite Hb, Hm, Hcl. cbn [Z.eqb].
    match goal with |- context [bounds_mono_inc ?a ?b ?c ?d BClamped ?e] => pose proof (bmi_clamped_min_bias a b c d e) as E end.
    revert E. match goal with |- context [fst ?x] => generalize (fst x) end. intros q E.
    unfold clipf, down. destruct (p_cmax c) eqn:Ecm; try (qcases; lra).
    all: assert (p_min c <= p_max c) by (apply Hle; congruence); qcases; lra.
  - rewrite last_finalize_noconv by assumption.
    pose proof (cm_dec_final c n bias hs k Hn HL Hm Hc Hcl) as (kk & _ & (HB & _)).
    rewrite qsum_qneg in HB.
    assert (Hs : qsum (fin_h1 c (d_h (dyk_iter c (S k) (dyk_init bias hs)))) <= qsum (d_h (dyk_iter c (S k) (dyk_init bias hs)))).
    { unfold fin_h1, project_monotonicity. rewrite Hm. cbn [Z.eqb Pos.eqb]. apply qsum_le_pointwise. len.
      rewrite map_length. intros i Hi. nthsimp. apply qmin_l. }
    unfold clipf, down. rewrite Hcl. destruct (p_cmax c) eqn:Ecm; try (qcases; lra).
    all: assert (p_min c <= p_max c) by (apply Hle; congruence); qcases; lra. Qed.

Lemma pwl_clamp_max_exact c n bias hs : pwl_valid c n -> length hs = n ->
  p_conv c = 0%Z -> (1 <= p_iters c)%nat -> p_cmax c = BClamped ->
  (p_mono c = 1%Z -> last (keypoint_outputs (pwl_project_col c (bias :: hs))) 0 == p_max c) /\
  (p_mono c = (-1)%Z -> nth 0 (keypoint_outputs (pwl_project_col c (bias :: hs))) 0 == p_max c).
Proof. intros V HL Hc Hit Hcl. destruct V as (Hn & _ & _ & _ & _ & Hle & _).
  assert (Hb : has_bounds c = true) by (apply has_bounds_true; right; congruence).
  destruct (p_iters c) as [|k] eqn:Ek; [lia|]. unfold keypoint_outputs.
  split; intros Hm; rewrite pwl_project_col_loop by (try assumption; lia); cbn zeta; rewrite Ek.
  - rewrite last_finalize_noconv by assumption.
    pose proof (cm_inc_final c n bias hs k Hn HL Hm Hc Hcl) as (kk & _ & (HB & _)).
    assert (Hs : qsum (d_h (dyk_iter c (S k) (dyk_init bias hs))) <= qsum (fin_h1 c (d_h (dyk_iter c (S k) (dyk_init bias hs))))).
    { unfold fin_h1, project_monotonicity. rewrite Hm. cbn [Z.eqb Pos.eqb]. apply qsum_le_pointwise. len.
      intros i Hi. nthsimp. apply qmax_l. }
    unfold clipf, down. rewrite Hcl. destruct (p_cmin c) eqn:Ecm; try (qcases; lra).
    all: assert (p_min c <= p_max c) by (apply Hle; congruence); qcases; lra.
  - rewrite first_finalize_noconv by assumption.
    rewrite dyk_iter_S_last, body_state. cbn [d_bias]. unfold s1_bias, bnd_res, bounds_mono. rewrite Hb, Hm, Hcl. cbn [Z.eqb Pos.eqb].
    match goal with |- context [bounds_mono_inc ?a ?b ?c ?d BClamped ?e] => pose proof (bmi_clamped_min_bias a b c d e) as E;
      destruct (bounds_mono_inc a b c d BClamped e) as [q qh] end.
    cbn [fst] in *.
    unfold clipf, down. destruct (p_cmin c) eqn:Ecm; try (qcases; lra).
    all: assert (p_min c <= p_max c) by (apply Hle; congruence); qcases; lra. Qed.

(* known finding D3: with num_projection_iterations = 0 the clamp is not met *)
Lemma pwl_clamp_refuted_zero_iterations :
  exists c w, pwl_valid c (length w - 1) /\ p_conv c = 0%Z /\ p_mono c = 1%Z /\ p_cmax c = BClamped /\ p_iters c = 0%nat /\
    ~ last (keypoint_outputs (pwl_project_col c w)) 0 == p_max c.
Proof. exists (mkPwl 1 0 0 4 BBound BClamped [1; 1] 0), [0; 1; 1].
  split. { unfold pwl_valid; cbn. split; [lia|]. split; [reflexivity|]. split; [repeat constructor|].
           split; [auto|]. split; [auto|]. split. intros _ _; discriminate. intros _; discriminate. }
  repeat (split; [reflexivity|]). vm_compute. discriminate. Qed.

(* ------------------------------------------------------------------ *)
(* 9. C04_feasible_fixed: a kernel column that meets every configured  *)
(*    constraint is returned unchanged (up to Qeq)                     *)
(* ------------------------------------------------------------------ *)

Definition feasible (c : pwl_cfg) (bias : Q) (h : list Q) : Prop :=
  (p_mono c = 1%Z -> Forall (fun x => 0 <= x) h) /\
  (p_mono c = (-1)%Z -> Forall (fun x => x <= 0) h) /\
  (p_cmin c <> BNone -> Forall (fun s => p_min c <= s) (keypoint_outputs (bias :: h))) /\
  (p_cmax c <> BNone -> Forall (fun s => s <= p_max c) (keypoint_outputs (bias :: h))) /\
  (p_conv c <> 0%Z -> chain (p_conv c) h (p_lengths c)) /\
  (p_cmin c = BClamped -> (p_mono c = 1%Z -> bias == p_min c) /\ (p_mono c = (-1)%Z -> bias + qsum h == p_min c)) /\
  (p_cmax c = BClamped -> (p_mono c = 1%Z -> bias + qsum h == p_max c) /\ (p_mono c = (-1)%Z -> bias == p_max c)).

Ltac qdisc := vm_compute; let HH := fresh in intro HH; discriminate HH.
Ltac qforall := repeat (apply Forall_cons; [qdisc|]); apply Forall_nil.
Example feasible_example :
  feasible (mkPwl 1 1 0 4 BClamped BClamped [1; 1; 2] 8) 0 [1#2; 1; 5#2].
Proof. unfold feasible, keypoint_outputs; cbn [p_mono p_conv p_min p_max p_cmin p_cmax p_lengths].
  split. { intros _. qforall. }
  split. { discriminate. }
  split. { intros _. vm_compute cumsum. qforall. }
  split. { intros _. vm_compute cumsum. qforall. }
  split. { intros _. cbn [chain chain_from]. unfold slope_le; cbn [Z.eqb Pos.eqb]. repeat split; qdisc. }
  split; intros _; (split; [intros _; reflexivity|discriminate]). Qed.

(* Qeq-invariance of feasibility *)
Lemma cumsum_from_qleq : forall a b acc acc', acc == acc' -> qleq a b -> qleq (cumsum_from acc a) (cumsum_from acc' b).
Proof. intros a b acc acc' E H; revert acc acc' E; induction H; intros acc acc' E; cbn [cumsum_from]; constructor.
  rewrite E, H; reflexivity. apply IHForall2. rewrite E, H; reflexivity. Qed.
Lemma slope_le_proper conv a b c d a' b' c' d' : a == a' -> b == b' -> c == c' -> d == d' ->
  slope_le conv a b c d -> slope_le conv a' b' c' d'.
Proof. unfold slope_le. intros Ea Eb Ec Ed. destruct (conv =? 1)%Z; rewrite Ea, Eb, Ec, Ed; auto. Qed.
Lemma chain_from_qleq conv : forall hs hs' ls hp hp' lp, hp == hp' -> qleq hs hs' ->
  chain_from conv hp lp hs ls -> chain_from conv hp' lp hs' ls.
Proof. intros hs hs' ls hp hp' lp E H; revert ls hp hp' lp E; induction H; intros [|l0 ls] hp hp' lp E; cbn [chain_from]; auto.
  intros [H1 H2]. split. eapply slope_le_proper; [exact E|reflexivity|exact H|reflexivity|exact H1].
  eapply IHForall2; [exact H|exact H2]. Qed.
Lemma chain_qleq conv hs hs' ls : qleq hs hs' -> chain conv hs ls -> chain conv hs' ls.
Proof. intros H. destruct H; destruct ls; cbn [chain]; auto. apply chain_from_qleq; assumption. Qed.

Lemma feasible_proper c b b' h h' : b == b' -> qleq h h' -> feasible c b h -> feasible c b' h'.
Proof. intros Eb Eh (F1 & F2 & F3 & F4 & F5 & F6 & F7).
  assert (Ecs : qleq (keypoint_outputs (b :: h)) (keypoint_outputs (b' :: h'))).
  { unfold keypoint_outputs, cumsum. apply cumsum_from_qleq; [reflexivity|]. constructor; assumption. }
  pose proof (qleq_qsum _ _ Eh) as Es.
  assert (T1 : forall (P : Q -> Prop) a a', (forall x y, x == y -> P x -> P y) -> qleq a a' -> Forall P a -> Forall P a')
    by (intros; eapply qleq_Forall; eauto).
  split; [|split; [|split; [|split; [|split; [|split]]]]].
  - intros G. apply (T1 _ h h'); auto. intros x y E Hx; rewrite <- E; exact Hx.
  - intros G. apply (T1 _ h h'); auto. intros x y E Hx; rewrite <- E; exact Hx.
  - intros G. apply (T1 _ (keypoint_outputs (b :: h)) (keypoint_outputs (b' :: h'))); auto. intros x y E Hx; rewrite <- E; exact Hx.
  - intros G. apply (T1 _ (keypoint_outputs (b :: h)) (keypoint_outputs (b' :: h'))); auto. intros x y E Hx; rewrite <- E; exact Hx.
  - intros G. eapply chain_qleq; [exact Eh|auto].
  - intros G. destruct (F6 G) as [G1 G2]. split; intros G'; rewrite <- Eb, <- ?Es; auto.
  - intros G. destruct (F7 G) as [G1 G2]. split; intros G'; rewrite <- Eb, <- ?Es; auto. Qed.

(* ends of the cumulative sums *)
Lemma cumsum_ends_lo lo : forall x acc, Forall (fun s => lo <= s) (acc :: cumsum_from acc x) -> lo <= acc + qsum x.
Proof. induction x as [|x0 r IH]; intros acc H; cbn [qsum]. inversion H; subst; lra.
  inversion H; subst. cbn [cumsum_from] in *. specialize (IH _ H3). lra. Qed.
Lemma cumsum_ends_hi hi : forall x acc, Forall (fun s => s <= hi) (acc :: cumsum_from acc x) -> acc + qsum x <= hi.
Proof. induction x as [|x0 r IH]; intros acc H; cbn [qsum]. inversion H; subst; lra.
  inversion H; subst. cbn [cumsum_from] in *. specialize (IH _ H3). lra. Qed.
Lemma feasible_lo c b h : feasible c b h -> p_cmin c <> BNone -> p_min c <= b /\ p_min c <= b + qsum h.
Proof. intros (_ & _ & F3 & _) H. specialize (F3 H). unfold keypoint_outputs, cumsum in F3. cbn [cumsum_from] in F3.
  pose proof (cumsum_ends_lo _ _ _ F3). inversion F3; subst. lra. Qed.
Lemma feasible_hi c b h : feasible c b h -> p_cmax c <> BNone -> b <= p_max c /\ b + qsum h <= p_max c.
Proof. intros (_ & _ & _ & F4 & _) H. specialize (F4 H). unfold keypoint_outputs, cumsum in F4. cbn [cumsum_from] in F4.
  pose proof (cumsum_ends_hi _ _ _ F4). inversion F4; subst. lra. Qed.

(* list algebra up to Qeq *)
Definition Z0 (h : list Q) : list Q := map (fun _ => 0) h.
Lemma nth_Z0 h i : nth i (Z0 h) 0 = 0.
Proof. unfold Z0. revert i; induction h; intros [|i]; cbn; auto. Qed.
Lemma Z0_length h : length (Z0 h) = length h. Proof. apply map_length. Qed.
Lemma lsub_zero a z h : qleq a h -> qleq z (Z0 h) -> qleq (lsub a z) h.
Proof. intros Ha Hz. pose proof (qleq_length _ _ Ha). pose proof (qleq_length _ _ Hz) as Lz. rewrite Z0_length in Lz.
  apply qleq_of_nth. rewrite lsub_length; lia. rewrite lsub_length by lia. intros i Hi.
  rewrite nth_lsub by lia. rewrite Qred_correct, (qleq_nth _ _ i Ha), (qleq_nth _ _ i Hz), nth_Z0. lra. Qed.
Lemma lsub_self a b h : qleq a h -> qleq b h -> qleq (lsub a b) (Z0 h).
Proof. intros Ha Hb. pose proof (qleq_length _ _ Ha). pose proof (qleq_length _ _ Hb).
  apply qleq_of_nth. rewrite lsub_length, Z0_length; lia. rewrite lsub_length by lia. intros i Hi.
  rewrite nth_lsub by lia. rewrite Qred_correct, (qleq_nth _ _ i Ha), (qleq_nth _ _ i Hb), nth_Z0. lra. Qed.
Lemma qneg_qleq a b : qleq a b -> qleq (qneg_list a) (qneg_list b).
Proof. induction 1; cbn; constructor; [rewrite H; reflexivity|assumption]. Qed.
Lemma qneg_invol a : qleq (qneg_list (qneg_list a)) a.
Proof. induction a; cbn; constructor; [lra|assumption]. Qed.

(* each projection is the identity (up to Qeq) on a feasible point *)
Lemma diffs_cumsum : forall x acc p l', p == acc -> qleq l' (cumsum_from acc x) -> qleq (diffs_from p l') x.
Proof. induction x as [|x0 r IH]; intros acc p l' E H; cbn [cumsum_from] in H; inversion H as [|y ? l ? Hy Hl]; subst; cbn [diffs_from]; constructor.
  - rewrite Qred_correct, Hy, E. lra.
  - eapply IH; [|exact Hl]. exact Hy. Qed.

Lemma bounds_only_fixed b x omin omax cmin cmax :
  (cmin = BBound -> Forall (fun s => omin <= s) (cumsum (b :: x))) ->
  (cmax = BBound -> Forall (fun s => s <= omax) (cumsum (b :: x))) ->
  fst (bounds_only b x omin omax cmin cmax) == b /\ qleq (snd (bounds_only b x omin omax cmin cmax)) x.
Proof. intros Hlo Hhi. destruct (bct_eqb cmin BNone && bct_eqb cmax BNone)%bool eqn:E.
  { destruct cmin, cmax; try discriminate. cbn. split; [reflexivity|apply qleq_refl]. }
  rewrite bounds_only_eq by (destruct cmin, cmax; try discriminate E; ((left; discriminate) || (right; discriminate))).
  cbn [fst snd]. unfold cumsum in *. cbn [cumsum_from] in *.
  assert (Hid : forall s, In s ((0 + b) :: cumsum_from (0 + b) x) -> clipf omin omax cmin cmax s == s).
  { intros s Hs. unfold clipf.
    assert (cmin = BBound -> omin <= s) by (intros G; specialize (Hlo G); rewrite Forall_forall in Hlo; auto).
    assert (cmax = BBound -> s <= omax) by (intros G; specialize (Hhi G); rewrite Forall_forall in Hhi; auto).
    destruct cmin, cmax; try reflexivity; try (specialize (H eq_refl)); try (specialize (H0 eq_refl)); qcases; lra. }
  split. { rewrite Hid by (left; reflexivity). lra. }
  apply diffs_cumsum with (acc := 0 + b). { apply Hid. left; reflexivity. }
  apply qleq_map_id. intros s Hs. apply Hid. right; exact Hs. Qed.

Lemma qdiv_zero X N : X == 0 -> X / N == 0.
Proof. intros E. rewrite E. unfold Qdiv. ring. Qed.

Lemma bmi_fixed b x omin omax cmin cmax : (1 <= length x)%nat ->
  (cmin <> BNone -> omin <= b) -> (cmax <> BNone -> b + qsum x <= omax) ->
  (cmin = BClamped -> b == omin) -> (cmax = BClamped -> b + qsum x == omax) ->
  fst (bounds_mono_inc b x omin omax cmin cmax) == b /\ qleq (snd (bounds_mono_inc b x omin omax cmin cmax)) x.
Proof. intros Hn Hlo Hhi Hcl Hch. pose proof (qn_pos _ Hn) as HN. unfold bounds_mono_inc.
  set (N := qn (length x)) in *. set (s := qsum x) in *.
  assert (Hshift : forall hd, hd == 0 -> qleq (map (fun h => Qred (h + hd)) x) x).
  { intros hd E. apply qleq_map_id. intros y _. rewrite Qred_correct, E. lra. }
  destruct cmax.
  - (* no max *) destruct cmin; cbn [fst snd]; split; try apply qleq_refl; try reflexivity.
    + specialize (Hlo ltac:(discriminate)). qcases; lra.
    + symmetry; apply Hcl; reflexivity.
  - (* BOUND max *) specialize (Hhi ltac:(discriminate)). cbn [bct_eqb]. destruct cmin; cbv beta iota zeta; cbn [fst snd].
    + pose proof (qdiv_nonneg (N + 1) (omax - (b + s)) ltac:(lra) ltac:(lra)) as Hd.
      split. { rewrite Qred_correct. qcases; lra. } apply Hshift. qcases; lra.
    + specialize (Hlo ltac:(discriminate)).
      pose proof (qdiv_nonneg (N + 1) (omax - (b + s)) ltac:(lra) ltac:(lra)) as Hd.
      assert (Eb : qmax (b + qmin ((omax - (b + s)) / (N + 1)) 0) omin == b) by (qcases; lra).
      split. { rewrite Qred_correct. exact Eb. }
      apply Hshift. rewrite Eb.
      pose proof (qdiv_nonneg N (omax - (b + s)) HN ltac:(lra)). qcases; lra.
    + specialize (Hcl eq_refl). split. { rewrite Qred_correct. symmetry; exact Hcl. }
      apply Hshift. pose proof (qdiv_nonneg N (omax - (omin + s)) HN ltac:(lra)). qcases; lra.
  - (* CLAMPED max *) specialize (Hch eq_refl). cbn [bct_eqb]. destruct cmin; cbv beta iota zeta; cbn [fst snd].
    + pose proof (qdiv_zero (omax - (b + s)) (N + 1) ltac:(lra)) as Hd.
      split. { rewrite Qred_correct, Hd. lra. } apply Hshift. exact Hd.
    + specialize (Hlo ltac:(discriminate)).
      pose proof (qdiv_zero (omax - (b + s)) (N + 1) ltac:(lra)) as Hd.
      assert (Eb : qmax (b + (omax - (b + s)) / (N + 1)) omin == b) by (rewrite Hd; qcases; lra).
      split. { rewrite Qred_correct. exact Eb. }
      apply Hshift. rewrite Eb. apply qdiv_zero. lra.
    + specialize (Hcl eq_refl). split. { rewrite Qred_correct. symmetry; exact Hcl. }
      apply Hshift. apply qdiv_zero. lra. Qed.

Definition bnd_step (c : pwl_cfg) (b : Q) (x : list Q) : Q * list Q :=
  if (p_mono c =? 0)%Z
  then bounds_only b x (p_min c) (p_max c) (p_cmin c) (p_cmax c)
  else bounds_mono (p_mono c) b x (p_min c) (p_max c) (p_cmin c) (p_cmax c).

Lemma bnd_fixed c n b x : pwl_valid c n -> length x = n -> feasible c b x ->
  fst (bnd_step c b x) == b /\ qleq (snd (bnd_step c b x)) x.
Proof. intros V HL F. pose proof (feasible_lo c b x F) as Flo. pose proof (feasible_hi c b x F) as Fhi.
  destruct V as (Hn & _ & _ & Hm & _). destruct F as (F1 & F2 & F3 & F4 & F5 & F6 & F7).
  unfold bnd_step. destruct Hm as [Hm|[Hm|Hm]]; rewrite Hm; cbn [Z.eqb Pos.eqb].
  - (* decreasing *) unfold bounds_mono. cbn [Z.eqb Pos.eqb].
    destruct (bmi_fixed (- b) (qneg_list x) (- p_max c) (- p_min c) (p_cmax c) (p_cmin c)) as [E1 E2].
    + rewrite qneg_list_length; lia.
    + intros G. specialize (Fhi G). lra.
    + intros G. specialize (Flo G). rewrite qsum_qneg. lra.
    + intros G. destruct (F7 G) as [_ G2]. rewrite (G2 Hm). reflexivity.
    + intros G. destruct (F6 G) as [_ G2]. rewrite qsum_qneg, <- (G2 Hm). lra.
    + destruct (bounds_mono_inc _ _ _ _ _ _) as [b' h']. cbn [fst snd] in *. split. lra.
      eapply qleq_trans; [apply qneg_qleq; exact E2|apply qneg_invol].
  - (* no monotonicity *) apply bounds_only_fixed.
    + intros G. apply F3. congruence.
    + intros G. apply F4. congruence.
  - (* increasing *) unfold bounds_mono. cbn [Z.eqb Pos.eqb]. apply bmi_fixed.
    + lia.
    + intros G. apply Flo; exact G.
    + intros G. apply Fhi; exact G.
    + intros G. destruct (F6 G) as [G1 _]. exact (G1 Hm).
    + intros G. destruct (F7 G) as [G1 _]. exact (G1 Hm). Qed.

Lemma mono_fixed c n b x : pwl_valid c n -> feasible c b x -> qleq (project_monotonicity (p_mono c) x) x.
Proof. intros (_ & _ & _ & Hm & _) (F1 & F2 & _). unfold project_monotonicity.
  destruct Hm as [Hm|[Hm|Hm]]; rewrite Hm; cbn [Z.eqb Pos.eqb].
  - specialize (F2 Hm). rewrite Forall_forall in F2. apply qleq_map_id. intros y Hy. specialize (F2 y Hy). qcases; lra.
  - apply qleq_refl.
  - specialize (F1 Hm). rewrite Forall_forall in F1. apply qleq_map_id. intros y Hy. specialize (F1 y Hy). qcases; lra. Qed.

(* convexity *)
Lemma chain_from_tail conv hp lp hs ls : chain_from conv hp lp hs ls -> chain conv hs ls.
Proof. destruct hs, ls; cbn [chain chain_from]; auto. intros [_ H]; exact H. Qed.

Lemma convex_pair_fixed conv h0 l0 h1 l1 : 0 < l0 -> 0 < l1 -> slope_le conv h0 l0 h1 l1 ->
  let base := (h0 + h1) / (l0 + l1) in
  (if (conv =? 1)%Z then Qred (qmin h0 (l0 * base)) else Qred (qmax h0 (l0 * base))) == h0 /\
  (if (conv =? 1)%Z then Qred (qmax h1 (l1 * base)) else Qred (qmin h1 (l1 * base))) == h1.
Proof. intros H0 H1 HS base. pose proof (qdiv_mul (l0 + l1) (h0 + h1) ltac:(lra)) as E. fold base in E.
  assert (E0 : (l0 + l1) * (l0 * base) == l0 * (h0 + h1)) by (rewrite <- E; ring).
  assert (E1 : (l0 + l1) * (l1 * base) == l1 * (h0 + h1)) by (rewrite <- E; ring).
  unfold slope_le in HS. destruct (conv =? 1)%Z; rewrite !Qred_correct.
  - assert (h0 <= l0 * base) by (apply (qmul_cancel_le (l0 + l1)); lra).
    assert (l1 * base <= h1) by (apply (qmul_cancel_le (l0 + l1)); lra). split; qcases; lra.
  - assert (l0 * base <= h0) by (apply (qmul_cancel_le (l0 + l1)); lra).
    assert (h1 <= l1 * base) by (apply (qmul_cancel_le (l0 + l1)); lra). split; qcases; lra. Qed.

Lemma convex_pairs_fixed conv : forall k hs ls, (length hs <= k)%nat -> Forall (fun l => 0 < l) ls ->
  chain conv hs ls -> qleq (convex_pairs conv hs ls) hs.
Proof. induction k as [|k IH]; intros hs ls Hk HP HC.
  - destruct hs; [|cbn in Hk; lia]. destruct ls; constructor.
  - destruct hs as [|h0 [|h1 hr]]; try (destruct ls; apply qleq_refl).
    destruct ls as [|l0 [|l1 lr]]; try apply qleq_refl.
    cbn [convex_pairs]. cbn [chain chain_from] in HC. destruct HC as [HS HT].
    inversion HP as [|? ? P0 HP']; subst. inversion HP' as [|? ? P1 HP'']; subst.
    destruct (convex_pair_fixed conv h0 l0 h1 l1 P0 P1 HS) as [E0 E1]. cbv zeta in E0, E1.
    constructor; [exact E0|]. constructor; [exact E1|].
    apply IH; [cbn in Hk; lia|exact HP''|]. eapply chain_from_tail; exact HT. Qed.

Lemma project_convexity_fixed conv g hs ls : Forall (fun l => 0 < l) ls -> chain conv hs ls ->
  qleq (project_convexity conv g hs ls) hs.
Proof. intros HP HC. unfold project_convexity. destruct (conv =? 0)%Z; [apply qleq_refl|].
  destruct hs as [|h [|h' hr]]; [destruct g; constructor|apply qleq_refl|].
  cbn [length]. destruct g.
  - apply (convex_pairs_fixed conv (S (S (length hr)))); [cbn; lia|exact HP|exact HC].
  - destruct ls as [|l lr]; [apply qleq_refl|]. constructor; [reflexivity|].
    inversion HP; subst. apply (convex_pairs_fixed conv (S (length hr))); [cbn; lia|assumption|].
    cbn [chain] in HC. eapply chain_from_tail; exact HC. Qed.

Lemma acf_fixed conv : forall hs ls hp hp' lp, 0 < lp -> Forall (fun l => 0 < l) ls -> hp' == hp ->
  chain_from conv hp lp hs ls -> qleq (approx_convexity_from conv hp' lp hs ls) hs.
Proof. induction hs as [|h hs IH]; intros [|l ls] hp hp' lp Hlp HP E HC; cbn [approx_convexity_from]; try apply qleq_refl.
  cbn [chain_from] in HC. destruct HC as [HS HT]. inversion HP; subst.
  assert (Et : lp * (hp' * (l / lp)) == hp * l) by (rewrite E; field; lra).
  assert (Eh : (if (conv =? 1)%Z then Qred (qmax h (hp' * (l / lp))) else Qred (qmin h (hp' * (l / lp)))) == h).
  { unfold slope_le in HS. destruct (conv =? 1)%Z; rewrite Qred_correct.
    - assert (hp' * (l / lp) <= h) by (apply (qmul_cancel_le lp); lra). qcases; lra.
    - assert (h <= hp' * (l / lp)) by (apply (qmul_cancel_le lp); lra). qcases; lra. }
  constructor; [exact Eh|]. eapply IH; [assumption|assumption|exact Eh|exact HT]. Qed.
Lemma approx_convexity_fixed conv hs ls : Forall (fun l => 0 < l) ls -> chain conv hs ls ->
  qleq (approx_convexity conv hs ls) hs.
Proof. intros HP HC. unfold approx_convexity. destruct (conv =? 0)%Z; [apply qleq_refl|].
  destruct hs as [|h hs], ls as [|l ls]; try apply qleq_refl. constructor; [reflexivity|].
  inversion HP; subst. eapply acf_fixed; [assumption|assumption|reflexivity|exact HC]. Qed.

Lemma squeeze_inc_fixed b y omax cmax : (cmax <> BNone -> b + qsum y <= omax) ->
  fst (squeeze_inc b y omax cmax) = b /\ qleq (snd (squeeze_inc b y omax cmax)) y.
Proof. intros H. unfold squeeze_inc.
  assert (Hd : cmax <> BNone -> qmax (if qlt (1 # 1000) (omax - b) then qsum y / (omax - b) else 1) 1 == 1).
  { intros G. specialize (H G). destruct (qlt (1 # 1000) (omax - b)) eqn:E; [|qcases; lra].
    apply qlt_true in E. pose proof (qdiv_mul (omax - b) (qsum y) ltac:(lra)).
    assert (qsum y / (omax - b) <= 1) by (apply (qmul_cancel_le (omax - b)); lra). qcases; lra. }
  assert (Hm : forall d, d == 1 -> qleq (map (fun h => Qred (h / d)) y) y).
  { intros d E. apply qleq_map_id. intros h _. rewrite Qred_correct, E. field. }
  destruct cmax; cbn [fst snd]; split; try reflexivity; try apply qleq_refl; apply Hm, Hd; discriminate. Qed.

Lemma squeeze_fixed c n b y : pwl_valid c n -> feasible c b y -> p_mono c <> 0%Z ->
  fst (squeeze (p_mono c) b y (p_min c) (p_max c) (p_cmin c) (p_cmax c)) == b /\
  qleq (snd (squeeze (p_mono c) b y (p_min c) (p_max c) (p_cmin c) (p_cmax c))) y.
Proof. intros (_ & _ & _ & Hm & _) F Hm0. pose proof (feasible_lo c b y F) as Flo. pose proof (feasible_hi c b y F) as Fhi.
  unfold squeeze. destruct Hm as [Hm|[Hm|Hm]]; [| contradiction |]; rewrite Hm; cbn [Z.eqb Pos.eqb].
  - assert (Hid : fst (b, y) == b /\ qleq (snd (b, y)) y) by (split; [reflexivity|apply qleq_refl]).
    destruct (p_cmin c) eqn:Ec; [exact Hid| |].
    all: match goal with |- context [squeeze_inc ?a ?b ?c ?d] =>
           destruct (squeeze_inc_fixed a b c d) as [E1 E2];
           [intros _; rewrite qsum_qneg; specialize (Flo ltac:(discriminate)); lra|
            destruct (squeeze_inc a b c d) as [b' h']] end.
    all: cbn [fst snd] in *; subst b'; split; [lra|].
    all: eapply qleq_trans; [apply qneg_qleq; exact E2|apply qneg_invol].
  - destruct (squeeze_inc_fixed b y (p_max c) (p_cmax c)) as [E1 E2].
    + intros G. apply Fhi; exact G.
    + rewrite E1. split; [reflexivity|exact E2]. Qed.

Lemma finalize_fixed c n b x : pwl_valid c n -> length x = n -> feasible c b x ->
  fst (pwl_finalize c b x) == b /\ qleq (snd (pwl_finalize c b x)) x.
Proof. intros V HL F. rewrite pwl_finalize_eq.
  assert (E1 : qleq (fin_h1 c x) x).
  { unfold fin_h1. destruct (p_mono c =? 0)%Z; [apply qleq_refl|]. eapply mono_fixed; eassumption. }
  assert (F1 : feasible c b (fin_h1 c x)) by (eapply feasible_proper; [reflexivity|apply qleq_sym; exact E1|exact F]).
  assert (E2 : qleq (fin_h2 c x) (fin_h1 c x)).
  { unfold fin_h2. destruct (p_conv c =? 0)%Z eqn:Ec; [apply qleq_refl|].
    apply approx_convexity_fixed. apply V. apply F1. intros G; rewrite G in Ec; discriminate. }
  assert (F2 : feasible c b (fin_h2 c x)) by (eapply feasible_proper; [reflexivity|apply qleq_sym; exact E2|exact F1]).
  pose proof (qleq_trans _ _ _ E2 E1) as E.
  destruct (has_bounds c); [|split; [reflexivity|exact E]].
  destruct (p_mono c =? 0)%Z eqn:Em; cbn [negb andb].
  2: destruct (p_conv c =? 0)%Z eqn:Ec; cbn [negb andb].
  - destruct (bounds_only_fixed b (fin_h2 c x) (p_min c) (p_max c) (down (p_cmin c)) (down (p_cmax c))) as [G1 G2].
    + intros G. apply F2. apply down_none. congruence.
    + intros G. apply F2. apply down_none. congruence.
    + split; [exact G1|eapply qleq_trans; eassumption].
  - destruct (bounds_only_fixed b (fin_h2 c x) (p_min c) (p_max c) (down (p_cmin c)) (down (p_cmax c))) as [G1 G2].
    + intros G. apply F2. apply down_none. congruence.
    + intros G. apply F2. apply down_none. congruence.
    + split; [exact G1|eapply qleq_trans; eassumption].
  - destruct (squeeze_fixed c n b (fin_h2 c x) V F2) as [G1 G2].
    + intros G; rewrite G in Em; discriminate.
    + split; [exact G1|eapply qleq_trans; eassumption]. Qed.

(* Dykstra: the state stays at the feasible point and every stored change stays 0 *)
Definition fixed_inv (bias : Q) (h : list Q) (st : dyk) : Prop :=
  d_bias st == bias /\ qleq (d_h st) h /\ d_lb_bounds st == 0 /\
  qleq (d_lh_bounds st) (Z0 h) /\ qleq (d_lh_mono st) (Z0 h) /\ qleq (d_lh_c0 st) (Z0 h) /\ qleq (d_lh_c1 st) (Z0 h).

Lemma fixed_inv_init bias h : fixed_inv bias h (dyk_init bias h).
Proof. unfold fixed_inv, dyk_init; cbn. repeat split; try reflexivity; apply qleq_refl. Qed.

(* one rolled-back projection step *)
Lemma step_pattern (f : list Q -> list Q) h cur lh :
  (forall x, qleq x h -> qleq (f x) x) -> qleq cur h -> qleq lh (Z0 h) ->
  qleq (f (lsub cur lh)) h /\ qleq (lsub (f (lsub cur lh)) (lsub cur lh)) (Z0 h).
Proof. intros Hf Hc Hl. pose proof (lsub_zero _ _ _ Hc Hl) as Hr. pose proof (qleq_trans _ _ _ (Hf _ Hr) Hr) as Hfr.
  split; [exact Hfr|]. apply lsub_self; assumption. Qed.

Lemma body_fixed c n bias h st : pwl_valid c n -> length h = n -> feasible c bias h ->
  fixed_inv bias h st -> fixed_inv bias h (fst (dyk_body c st)).
Proof. intros V HL F (I1 & I2 & I3 & I4 & I5 & I6 & I7). rewrite body_state. unfold fixed_inv.
  cbn [d_bias d_h d_lb_bounds d_lh_bounds d_lh_mono d_lh_c0 d_lh_c1].
  assert (Ffeas : forall b' x, b' == bias -> qleq x h -> feasible c b' x).
  { intros b' x Eb Ex. eapply feasible_proper; [symmetry; exact Eb|apply qleq_sym; exact Ex|exact F]. }
  (* bounds *)
  assert (Erb : bnd_rb st == bias) by (unfold bnd_rb; rewrite Qred_correct, I1, I3; lra).
  assert (Erh : qleq (bnd_rh st) h) by (apply lsub_zero; assumption).
  assert (Lrh : length (bnd_rh st) = n) by (rewrite (qleq_length _ _ Erh); exact HL).
  destruct (bnd_fixed c n (bnd_rb st) (bnd_rh st) V Lrh (Ffeas _ _ Erb Erh)) as [B1 B2].
  change (bnd_step c (bnd_rb st) (bnd_rh st)) with (bnd_res c st) in B1, B2.
  assert (S1b : s1_bias c st == bias) by (unfold s1_bias; destruct (has_bounds c); [rewrite B1; exact Erb|exact I1]).
  assert (S1h : qleq (s1_h c st) h) by (unfold s1_h; destruct (has_bounds c); [eapply qleq_trans; eassumption|exact I2]).
  assert (S1lbb : s1_lbb c st == 0) by (unfold s1_lbb; destruct (has_bounds c); [rewrite Qred_correct, B1; lra|exact I3]).
  assert (S1lhb : qleq (s1_lhb c st) (Z0 h)).
  { unfold s1_lhb; destruct (has_bounds c); [|exact I4]. apply lsub_self; [eapply qleq_trans; eassumption|exact Erh]. }
  (* monotonicity *)
  destruct (step_pattern (project_monotonicity (p_mono c)) h (s1_h c st) (d_lh_mono st)) as [M1 M2]; [|exact S1h|exact I5|].
  { intros x Ex. eapply mono_fixed; [exact V|apply (Ffeas bias x); [reflexivity|exact Ex]]. }
  fold (mono_rh c st) in M1, M2.
  assert (S2h : qleq (s2_h c st) h) by (unfold s2_h; destruct (p_mono c =? 0)%Z; assumption).
  assert (S2m : qleq (s2_lhm c st) (Z0 h)) by (unfold s2_lhm; fold (s2_h c st); unfold s2_h; destruct (p_mono c =? 0)%Z; assumption).
  (* convexity *)
  assert (Hconv : forall g x, negb (p_conv c =? 0)%Z = true -> qleq x h -> qleq (project_convexity (p_conv c) g x (p_lengths c)) x).
  { intros g x Ec Ex. apply project_convexity_fixed. apply V. apply (Ffeas bias x); [reflexivity|exact Ex|].
    intros G; rewrite G in Ec; discriminate. }
  assert (S3 : qleq (s3_h c st) h /\ qleq (s3_lc0 c st) (Z0 h)).
  { unfold s3_lc0, s3_h, c0_on. destruct (negb (p_conv c =? 0)%Z) eqn:Ec; cbn [andb]; [|split; assumption].
    destruct (2 <=? length (s2_h c st))%nat; [|split; assumption].
    apply (step_pattern (fun x => project_convexity (p_conv c) 0 x (p_lengths c)) h (s2_h c st) (d_lh_c0 st)); auto. }
  destruct S3 as [S3h S3c].
  assert (S4 : qleq (s4_h c st) h /\ qleq (s4_lc1 c st) (Z0 h)).
  { unfold s4_lc1, s4_h, c1_on. destruct (negb (p_conv c =? 0)%Z) eqn:Ec; cbn [andb]; [|split; assumption].
    destruct (3 <=? length (s3_h c st))%nat; [|split; assumption].
    apply (step_pattern (fun x => project_convexity (p_conv c) 1 x (p_lengths c)) h (s3_h c st) (d_lh_c1 st)); auto. }
  destruct S4 as [S4h S4c].
  repeat split; assumption. Qed.

Lemma pwl_feasible_fixed c n bias h : pwl_valid c n -> length h = n -> feasible c bias h ->
  qleq (pwl_project_col c (bias :: h)) (bias :: h).
Proof. intros V HL F.
  destruct (pwl_project_col_cases c bias h) as [[_ ->]|[_ ->]].
  - destruct (body_fixed c n bias h (dyk_init bias h) V HL F (fixed_inv_init bias h)) as (I1 & I2 & _).
    constructor; assumption.
  - assert (I : fixed_inv bias h (dyk_iter c (p_iters c) (dyk_init bias h))).
    { apply dyk_iter_inv; [|apply fixed_inv_init]. intros st. apply (body_fixed c n); assumption. }
    destruct I as (I1 & I2 & _).
    set (st := dyk_iter c (p_iters c) (dyk_init bias h)) in *.
    destruct (finalize_fixed c n (d_bias st) (d_h st) V) as [G1 G2].
    + rewrite (qleq_length _ _ I2). exact HL.
    + eapply feasible_proper; [symmetry; exact I1|apply qleq_sym; exact I2|exact F].
    + constructor. rewrite G1; exact I1. eapply qleq_trans; eassumption. Qed.

(* C04_convex with real slopes *)
Lemma pwl_convex_slopes c n bias hs : pwl_valid c n -> length hs = n ->
  p_conv c <> 0%Z -> (p_mono c <> 0%Z \/ has_bounds c = false) ->
  forall i, (S i < n)%nat ->
  let h := tl (pwl_project_col c (bias :: hs)) in let l := p_lengths c in
  (p_conv c = 1%Z -> nth i h 0 / nth i l 0 <= nth (S i) h 0 / nth (S i) l 0) /\
  (p_conv c = (-1)%Z -> nth (S i) h 0 / nth (S i) l 0 <= nth i h 0 / nth i l 0).
Proof. intros V HL Hc Hor i Hi h l.
  destruct (pwl_convex_nth c n bias hs V HL Hc Hor i Hi) as [H1 H2]. fold h l in H1, H2.
  pose proof (valid_len_pos c n i V ltac:(lia)) as P0. pose proof (valid_len_pos c n (S i) V Hi) as P1. fold l in P0, P1.
  split; intros E.
  - apply (proj1 (slope_le_div _ _ _ _ P0 P1)). exact (H1 E).
  - apply (proj1 (slope_le_div _ _ _ _ P1 P0)). exact (H2 E). Qed.

(* ------------------------------------------------------------------ *)
(* 10. The hypotheses of the property theorems are satisfiable          *)
(* ------------------------------------------------------------------ *)
Ltac valid_tac :=
  unfold pwl_valid; cbn [p_mono p_conv p_min p_max p_cmin p_cmax p_lengths length];
  split; [lia|]; split; [reflexivity|]; split; [repeat (apply Forall_cons; [reflexivity|]); apply Forall_nil|];
  split; [auto|]; split; [auto|]; split;
  [intros; try discriminate; (try (exfalso; congruence)); unfold Qle; cbn; lia
  |intros [HH|HH]; try discriminate HH; discriminate].

(* monotone (both directions), bounds, clamps, no convexity, >= 1 iteration *)
Example ex_hyp_clamp_inc : let c := mkPwl 1 0 (-1) 2 BClamped BClamped [1; 1#2; 3] 3 in
  pwl_valid c 3 /\ p_conv c = 0%Z /\ (1 <= p_iters c)%nat /\ p_cmin c = BClamped /\ p_cmax c = BClamped /\ p_mono c = 1%Z /\
  ~ (p_mono c <> 0%Z /\ p_conv c <> 0%Z) /\
  keypoint_outputs (pwl_project_col c [7; -3; 5; 1#3]) = [-1; -1; 2; 2].
Proof. cbv zeta. cbn [p_mono p_conv p_min p_max p_cmin p_cmax p_lengths p_iters]. split; [valid_tac|]. repeat (split; [first [reflexivity|lia]|]).
  vm_compute. reflexivity. Qed.
Example ex_hyp_clamp_dec : let c := mkPwl (-1) 0 (-1) 2 BClamped BClamped [1; 1#2; 3] 2 in
  pwl_valid c 3 /\ p_conv c = 0%Z /\ (1 <= p_iters c)%nat /\ p_cmin c = BClamped /\ p_cmax c = BClamped /\ p_mono c = (-1)%Z /\
  keypoint_outputs (pwl_project_col c [7; -3; 5; 1#3]) = [2; -1; -1; -1].
Proof. cbv zeta. cbn [p_mono p_conv p_min p_max p_cmin p_cmax p_lengths p_iters]. split; [valid_tac|]. repeat (split; [first [reflexivity|lia]|]). vm_compute. reflexivity. Qed.
(* convexity: with monotonicity and bounds / without bounds *)
Example ex_hyp_convex_mono : let c := mkPwl 1 1 0 4 BClamped BClamped [1; 1; 2] 8 in
  pwl_valid c 3 /\ p_conv c <> 0%Z /\ p_mono c <> 0%Z /\ feasible c 0 [1#2; 1; 5#2].
Proof. cbv zeta. cbn [p_mono p_conv p_min p_max p_cmin p_cmax p_lengths p_iters]. split; [valid_tac|]. split; [discriminate|]. split; [discriminate|]. exact feasible_example. Qed.
Example ex_hyp_convex_unbounded : let c := mkPwl 0 (-1) 0 0 BNone BNone [1; 2] 4 in
  pwl_valid c 2 /\ p_conv c <> 0%Z /\ has_bounds c = false.
Proof. cbv zeta. cbn [p_mono p_conv p_min p_max p_cmin p_cmax p_lengths p_iters]. split; [valid_tac|]. split; [discriminate|reflexivity]. Qed.
(* bounds without monotonicity, with convexity *)
Example ex_hyp_bounds_convex : let c := mkPwl 0 1 0 1 BBound BBound [1; 1] 2 in
  pwl_valid c 2 /\ ~ (p_mono c <> 0%Z /\ p_conv c <> 0%Z) /\ p_cmin c <> BNone /\ p_cmax c <> BNone.
Proof. cbv zeta. cbn [p_mono p_conv p_min p_max p_cmin p_cmax p_lengths p_iters]. split; [valid_tac|]. split; [intros [H _]; apply H; reflexivity|]. split; discriminate. Qed.
