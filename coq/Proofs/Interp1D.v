(* Theory of one-dimensional linear interpolation on the integer grid
   (hat-function weights).  General and reusable: nothing here knows about
   lattices.  Main results, for a sequence a_0 .. a_(n-1) and 0 <= x <= n-1:
     hat_nonneg, hat_sum_one (partition of unity), hat_linear_precision,
     interp1_ramps      interp1 = a_0 + sum_k (a_(k+1) - a_k) * clip(x - k, 0, 1)
     interp1_at_int     value a_j at the integer j
     interp1_cell       (1-t) a_j + t a_(j+1) on the cell [j, j+1], t = x - j
     interp1_bounds     stays within any [lo, hi] containing the a_k
     interp1_monotone   non-decreasing in x when a is non-decreasing
     hat_diff_mp        the weight difference hat y - hat x (x <= y) is
                        non-negative against every non-decreasing sequence. *)
From TFL Require Export Model.Interp1D.
Open Scope Q_scope.

(* ---------- sums ---------- *)
Lemma rsum_qsum l : rsum l == qsum l.
Proof. induction l as [|a l IH]; cbn [rsum qsum]. reflexivity. rewrite Qred_correct, IH. reflexivity. Qed.

Lemma qsum_seq_S (f : nat -> Q) n : qsum (map f (seq 0 (S n))) == qsum (map f (seq 0 n)) + f n.
Proof. rewrite seq_S, map_app, qsum_app. cbn [map qsum Nat.add]. lra. Qed.

Lemma qsum_seq_ext (f g : nat -> Q) n : (forall k, (k < n)%nat -> f k == g k) ->
  qsum (map f (seq 0 n)) == qsum (map g (seq 0 n)).
Proof. intros H. apply qsum_map_ext. intros k Hk. apply in_seq in Hk. apply H. lia. Qed.

Lemma qsum_seq_le (f g : nat -> Q) n : (forall k, (k < n)%nat -> f k <= g k) ->
  qsum (map f (seq 0 n)) <= qsum (map g (seq 0 n)).
Proof. intros H. apply qsum_map_le. intros k Hk. apply in_seq in Hk. apply H. lia. Qed.

Lemma qsum_seq_nonneg (f : nat -> Q) n : (forall k, (k < n)%nat -> 0 <= f k) -> 0 <= qsum (map f (seq 0 n)).
Proof. intros H. apply qsum_map_nonneg. intros k Hk. apply in_seq in Hk. apply H. lia. Qed.

Lemma qsum_seq_zero (f : nat -> Q) n : (forall k, (k < n)%nat -> f k == 0) -> qsum (map f (seq 0 n)) == 0.
Proof. induction n as [|n IH]; intros H. reflexivity.
  rewrite qsum_seq_S, IH by (intros; apply H; lia). rewrite (H n) by lia. lra. Qed.

Lemma qsum_seq_minus (f g : nat -> Q) n :
  qsum (map (fun k => f k - g k) (seq 0 n)) == qsum (map f (seq 0 n)) - qsum (map g (seq 0 n)).
Proof. induction n as [|n IH]. cbn; lra. rewrite !qsum_seq_S, IH. lra. Qed.

(* a sum against an indicator picks one term *)
Lemma qsum_seq_pick (f : nat -> Q) n j : (j < n)%nat ->
  qsum (map (fun k => (if Nat.eqb j k then 1 else 0) * f k) (seq 0 n)) == f j.
Proof. induction n as [|n IH]; intros H. lia. rewrite qsum_seq_S.
  destruct (Nat.eq_dec j n) as [->|Hne].
  - rewrite Nat.eqb_refl. rewrite qsum_seq_zero. lra.
    intros k Hk. destruct (Nat.eqb_spec n k). lia. lra.
  - rewrite IH by lia. destruct (Nat.eqb_spec j n). lia. lra. Qed.

(* ---------- integer keypoints ---------- *)
Lemma qn_0 : qn 0 == 0. Proof. reflexivity. Qed.
Lemma qn_S k : qn (S k) == qn k + 1.
Proof. unfold qn. rewrite Nat2Z.inj_succ. unfold Z.succ. rewrite inject_Z_plus. reflexivity. Qed.
Lemma qn_le j k : (j <= k)%nat -> qn j <= qn k.
Proof. intros H. unfold qn. rewrite <- Zle_Qle. lia. Qed.
Lemma qn_lt j k : (j < k)%nat -> qn j + 1 <= qn k.
Proof. intros H. rewrite <- qn_S. apply qn_le. lia. Qed.
Lemma qn_nonneg k : 0 <= qn k.
Proof. rewrite <- qn_0. apply qn_le. lia. Qed.

(* ---------- hat weights ---------- *)
Global Instance hat_proper : Proper (Qeq ==> eq ==> Qeq) hat.
Proof. intros x y H k k' <-. unfold hat. rewrite H. reflexivity. Qed.
Global Instance ramp_proper : Proper (Qeq ==> Qeq) ramp.
Proof. intros x y H. unfold ramp. rewrite H. reflexivity. Qed.

Lemma hat_max_form x k : hat x k == qmax 0 (1 - qabs (x - qn k)).
Proof. unfold hat. qcases; lra. Qed.
Lemma hat_nonneg x k : 0 <= hat x k.
Proof. unfold hat. qcases; lra. Qed.
Lemma hat_le_1 x k : hat x k <= 1.
Proof. unfold hat. qcases; lra. Qed.
Lemma hat_far x k : 1 <= qabs (x - qn k) -> hat x k == 0.
Proof. unfold hat. intros H. qcases; lra. Qed.
(* hat = difference of two unit ramps *)
Lemma hat_ramp x k : hat x k == ramp (x - qn k + 1) - ramp (x - qn k).
Proof. unfold hat, ramp, qclip. qcases; lra. Qed.

Lemma ramp_mono s t : s <= t -> ramp s <= ramp t.
Proof. apply qclip_mono. Qed.
Lemma ramp_range t : 0 <= ramp t /\ ramp t <= 1.
Proof. unfold ramp. apply qclip_range. lra. Qed.
Lemma ramp_hi t : 1 <= t -> ramp t == 1.
Proof. unfold ramp, qclip. intros; qcases; lra. Qed.
Lemma ramp_lo t : t <= 0 -> ramp t == 0.
Proof. unfold ramp, qclip. intros; qcases; lra. Qed.
Lemma ramp_mid t : 0 <= t -> t <= 1 -> ramp t == t.
Proof. unfold ramp. apply qclip_id. Qed.

(* value of the weights at an integer point *)
Lemma hat_int j k : hat (qn j) k == if Nat.eqb j k then 1 else 0.
Proof. destruct (Nat.eqb_spec j k) as [->|Hne].
  - unfold hat. qcases; lra.
  - apply hat_far. destruct (Nat.lt_ge_cases j k) as [H|H].
    + pose proof (qn_lt j k H). qcases; lra.
    + assert (H' : (k < j)%nat) by lia. pose proof (qn_lt k j H'). qcases; lra. Qed.

(* weights inside the cell [j, j+1] *)
Lemma hat_cell x j k : qn j <= x -> x <= qn j + 1 ->
  hat x k == if Nat.eqb j k then 1 - (x - qn j) else if Nat.eqb (S j) k then x - qn j else 0.
Proof. intros H1 H2. destruct (Nat.eqb_spec j k) as [->|Hne]; [|destruct (Nat.eqb_spec (S j) k) as [<-|Hne']].
  - unfold hat. qcases; lra.
  - unfold hat. rewrite qn_S. qcases; lra.
  - apply hat_far. destruct (Nat.lt_ge_cases k j) as [H|H].
    + pose proof (qn_lt k j H). qcases; lra.
    + assert (H' : (S j < k)%nat) by lia. pose proof (qn_lt (S j) k H'). rewrite qn_S in *. qcases; lra. Qed.

(* ---------- weighted sums ---------- *)
Lemma wsum_S n w a : wsum (S n) w a == wsum n w a + w n * a n.
Proof. unfold wsum. apply qsum_seq_S. Qed.
Lemma wsum_ext n w w' a a' : (forall k, (k < n)%nat -> w k == w' k) -> (forall k, (k < n)%nat -> a k == a' k) ->
  wsum n w a == wsum n w' a'.
Proof. intros Hw Ha. unfold wsum. apply qsum_seq_ext. intros k Hk. rewrite (Hw k Hk), (Ha k Hk). reflexivity. Qed.
Lemma wsum_minus_w n w w' a : wsum n (fun k => w k - w' k) a == wsum n w a - wsum n w' a.
Proof. unfold wsum. rewrite <- qsum_seq_minus. apply qsum_seq_ext. intros; ring. Qed.
Lemma wsum_minus_a n w a a' : wsum n w (fun k => a k - a' k) == wsum n w a - wsum n w a'.
Proof. unfold wsum. rewrite <- qsum_seq_minus. apply qsum_seq_ext. intros; ring. Qed.
Lemma wsum_nonneg n w a : (forall k, (k < n)%nat -> 0 <= w k) -> (forall k, (k < n)%nat -> 0 <= a k) -> 0 <= wsum n w a.
Proof. intros Hw Ha. unfold wsum. apply qsum_seq_nonneg. intros k Hk. apply qmul_nonneg; auto. Qed.
Lemma wsum_le_a n w a a' : (forall k, (k < n)%nat -> 0 <= w k) -> (forall k, (k < n)%nat -> a k <= a' k) ->
  wsum n w a <= wsum n w a'.
Proof. intros Hw Ha. unfold wsum. apply qsum_seq_le. intros k Hk. apply qmul_le_l; auto. Qed.
Lemma wsum_pick n j a : (j < n)%nat -> wsum n (fun k => if Nat.eqb j k then 1 else 0) a == a j.
Proof. intros H. unfold wsum. apply qsum_seq_pick; exact H. Qed.
Lemma wsum_const n w c : wsum n w (fun _ => c) == c * qsum (map w (seq 0 n)).
Proof. unfold wsum. rewrite <- qsum_map_scale. apply qsum_seq_ext. intros; ring. Qed.

(* convex combination: non-negative weights with sum one *)
Lemma wsum_convex n w a lo hi : (forall k, (k < n)%nat -> 0 <= w k) -> qsum (map w (seq 0 n)) == 1 ->
  (forall k, (k < n)%nat -> lo <= a k /\ a k <= hi) -> lo <= wsum n w a /\ wsum n w a <= hi.
Proof. intros Hw Hs Ha.
  assert (L : wsum n w (fun _ => lo) <= wsum n w a) by (apply wsum_le_a; [exact Hw|intros k Hk; apply Ha; exact Hk]).
  assert (U : wsum n w a <= wsum n w (fun _ => hi)) by (apply wsum_le_a; [exact Hw|intros k Hk; apply Ha; exact Hk]).
  rewrite wsum_const, Hs in L, U. lra. Qed.

(* ---------- the interpolant as a sum of ramps ---------- *)
(* valid for EVERY x; the first and last term describe the decay outside the grid *)
Lemma interp1_ramps_all n a x :
  interp1 (S n) a x ==
  a 0%nat * ramp (x + 1) + qsum (map (fun k => (a (S k) - a k) * ramp (x - qn k)) (seq 0 n)) - a n * ramp (x - qn n).
Proof. unfold interp1. induction n as [|n IH].
  - rewrite wsum_S. unfold wsum. cbn [seq map qsum]. rewrite hat_ramp.
    assert (E : ramp (x - qn 0 + 1) == ramp (x + 1)) by (apply ramp_proper; rewrite qn_0; ring).
    rewrite E. ring.
  - rewrite wsum_S, IH, qsum_seq_S, hat_ramp.
    assert (E : ramp (x - qn (S n) + 1) == ramp (x - qn n)) by (apply ramp_proper; rewrite qn_S; ring).
    rewrite E. ring. Qed.

(* inside the grid *)
Lemma interp1_ramps n a x : 0 <= x -> x <= qn n ->
  interp1 (S n) a x == a 0%nat + qsum (map (fun k => (a (S k) - a k) * ramp (x - qn k)) (seq 0 n)).
Proof. intros H0 Hn. rewrite interp1_ramps_all, (ramp_hi (x + 1)), (ramp_lo (x - qn n)) by lra. ring. Qed.

Definition nondecr (n : nat) (a : nat -> Q) : Prop := forall k, (S k < n)%nat -> a k <= a (S k).

Lemma nondecr_le n a j k : nondecr n a -> (j <= k)%nat -> (k < n)%nat -> a j <= a k.
Proof. intros H Hjk Hk. induction k as [|k IH]. replace j with 0%nat by lia. lra.
  destruct (Nat.eq_dec j (S k)) as [->|Hne]. lra.
  pose proof (H k Hk). assert (a j <= a k) by (apply IH; lia). lra. Qed.

(* non-decreasing values give a non-decreasing interpolant, for every pair of points of the grid range *)
Lemma interp1_monotone_S n a x y : nondecr (S n) a -> 0 <= x -> x <= y -> y <= qn n ->
  interp1 (S n) a x <= interp1 (S n) a y.
Proof. intros Ha H0 Hxy Hn. rewrite !interp1_ramps by lra.
  assert (qsum (map (fun k => (a (S k) - a k) * ramp (x - qn k)) (seq 0 n)) <=
          qsum (map (fun k => (a (S k) - a k) * ramp (y - qn k)) (seq 0 n))).
  { apply qsum_seq_le. intros k Hk. apply qmul_le_l. pose proof (Ha k ltac:(lia)). lra. apply ramp_mono. lra. }
  lra. Qed.

Lemma qn_pred n : (1 <= n)%nat -> qn n - 1 == qn (pred n).
Proof. intros H. destruct n as [|n]. lia. rewrite qn_S. cbn [pred]. ring. Qed.

Theorem interp1_monotone n a x y : nondecr n a -> 0 <= x -> x <= y -> y <= qn n - 1 ->
  interp1 n a x <= interp1 n a y.
Proof. intros Ha H0 Hxy Hn. destruct n as [|n]. unfold interp1, wsum; cbn; lra.
  rewrite qn_S in Hn. apply interp1_monotone_S; auto. lra. Qed.

(* partition of unity and linear precision *)
Theorem hat_sum_one n x : 0 <= x -> x <= qn n - 1 -> qsum (map (hat x) (seq 0 n)) == 1.
Proof. intros H0 Hn. destruct n as [|n]. { rewrite qn_0 in Hn. lra. } rewrite qn_S in Hn.
  assert (E : qsum (map (hat x) (seq 0 (S n))) == interp1 (S n) (fun _ => 1) x).
  { unfold interp1, wsum. apply qsum_seq_ext. intros; ring. }
  rewrite E, interp1_ramps by lra. rewrite qsum_seq_zero. lra. intros; ring. Qed.

Lemma ramp_sum n x : 0 <= x -> qsum (map (fun k => ramp (x - qn k)) (seq 0 n)) == qmin x (qn n).
Proof. intros H0. induction n as [|n IH]. cbn [seq map qsum]. rewrite qn_0. qcases; lra.
  rewrite qsum_seq_S, IH, qn_S. unfold ramp, qclip. qcases; lra. Qed.

Theorem hat_linear_precision n x : 0 <= x -> x <= qn n - 1 -> wsum n (hat x) qn == x.
Proof. intros H0 Hn. destruct n as [|n]. { rewrite qn_0 in Hn. lra. } rewrite qn_S in Hn.
  change (interp1 (S n) qn x == x). rewrite interp1_ramps by lra.
  assert (E : qsum (map (fun k => (qn (S k) - qn k) * ramp (x - qn k)) (seq 0 n)) ==
              qsum (map (fun k => ramp (x - qn k)) (seq 0 n))).
  { apply qsum_seq_ext. intros k _. rewrite qn_S. ring. }
  rewrite E, ramp_sum, qn_0 by lra. qcases; lra. Qed.

(* exact value at a grid point *)
Theorem interp1_at_int n a j : (j < n)%nat -> interp1 n a (qn j) == a j.
Proof. intros H. unfold interp1. rewrite <- (wsum_pick n j a H). apply wsum_ext; intros; [apply hat_int|reflexivity]. Qed.

(* linear on each cell: only the two end points of the cell have weight *)
Theorem interp1_cell n a j x : (S j < n)%nat -> qn j <= x -> x <= qn j + 1 ->
  interp1 n a x == (1 - (x - qn j)) * a j + (x - qn j) * a (S j).
Proof. intros H H1 H2. unfold interp1.
  rewrite (wsum_ext n (hat x) (fun k => (1 - (x - qn j)) * (if Nat.eqb j k then 1 else 0) +
                                         (x - qn j) * (if Nat.eqb (S j) k then 1 else 0)) a a).
  - unfold wsum.
    rewrite (qsum_seq_ext _ (fun k => (1 - (x - qn j)) * ((if Nat.eqb j k then 1 else 0) * a k) +
                                      (x - qn j) * ((if Nat.eqb (S j) k then 1 else 0) * a k))) by (intros; ring).
    rewrite qsum_map_plus, !qsum_map_scale, !qsum_seq_pick by lia. reflexivity.
  - intros k _. rewrite (hat_cell x j k H1 H2).
    destruct (Nat.eqb_spec j k), (Nat.eqb_spec (S j) k); try lia; ring.
  - reflexivity. Qed.

Theorem interp1_bounds n a x lo hi : 0 <= x -> x <= qn n - 1 ->
  (forall k, (k < n)%nat -> lo <= a k /\ a k <= hi) -> lo <= interp1 n a x /\ interp1 n a x <= hi.
Proof. intros H0 Hn Ha. unfold interp1. apply wsum_convex; auto. intros; apply hat_nonneg. apply hat_sum_one; auto. Qed.

(* A weight function is "monotone-positive" on n keypoints when its weighted
   sum with every non-decreasing sequence is >= 0.  The difference of the hat
   weights at two ordered points of the grid range is monotone-positive: this
   is the form in which monotonicity is used by the N-dimensional recursion. *)
Definition mpos (n : nat) (w : nat -> Q) : Prop := forall a, nondecr n a -> 0 <= wsum n w a.

Theorem hat_diff_mp n x y : 0 <= x -> x <= y -> y <= qn n - 1 -> mpos n (fun k => hat y k - hat x k).
Proof. intros H0 Hxy Hn a Ha. rewrite wsum_minus_w.
  pose proof (interp1_monotone n a x y Ha H0 Hxy Hn) as H. unfold interp1 in H. lra. Qed.

(* clipping onto the grid range first makes all of the above hold for every x *)
Lemma clip_range_in n x : (1 <= n)%nat -> 0 <= qclip 0 (qn n - 1) x /\ qclip 0 (qn n - 1) x <= qn n - 1.
Proof. intros H. apply qclip_range. rewrite qn_pred by exact H. apply qn_nonneg. Qed.
