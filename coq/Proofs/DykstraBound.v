(* The quantitative core of the Boyle-Dykstra convergence argument (Boyle &
   Dykstra 1986, Lemma 1; Bauschke & Combettes, proof of Thm 30.7), in the
   abstract setting of Proofs/DykstraTheory.v.  Pure algebra and induction over
   the steps; no limits.

   Sign convention of the code: a slot stores the CHANGE  e = P z - z  made by
   its last projection (z = the rolled-back point), i.e. minus the "increment"
   of the literature.  For a slot we also track (ghost state, not stored by the
   algorithm) the point  p = P z  produced by its last projection.

   For a point y of every set C_i the potential is
       phi(x, slots) = |x - y|^2 + 2 * sum_i <e_i, y - p_i>
   where every term <e_i, y - p_i> is >= 0 (variational inequality of P_i at
   z_i, y in C_i; trivially when e_i = 0).

   One step at slot i,  x' = P_i (x - e_i),  e_i' = x' - (x - e_i):
       phi(x, slots) = phi(x', slots') + |x' - x|^2 + 2 * <e_i, x' - p_i>   ([bd_step])
   with the last term >= 0 as well (x' in C_i).  Summed over the steps:

     [tloop_identity]    |x_0 - y|^2 = |x_n - y|^2 + (sum of |x_k - x_(k-1)|^2 over
                         all steps) + 2 (sum of the step slacks) + 2 sum_i <e_i, y - p_i>
     [aloop_never_farther]  |x_n - y|^2 <= |x_0 - y|^2                    (Fejer-type bound)
     [aloop_moves_summable] |x_n - y|^2 + sum of squared movements of the first n sweeps <= |x_0 - y|^2
     [aloop_stalls]         n >= 1: some sweep k < n has squared movement * n <= |x_0 - y|^2
     [amoves_zero_fixpoint] a sweep with zero movement reproduces every stored
                         change (the hypothesis of asweep_fixpoint_nearest).

   NOT proved: existence of the limit of x_n (needs completeness of the reals;
   the iterates here are rational) and that the limit is the nearest point. *)
From TFL Require Export Proofs.DykstraTheory.
Open Scope Q_scope.

(* ---- pigeonhole for finite lists of rationals ---- *)
Definition qnat (n : nat) : Q := inject_Z (Z.of_nat n).
Lemma qnat_S n : qnat (S n) == qnat n + 1.
Proof. unfold qnat. rewrite Nat2Z.inj_succ. unfold Z.succ. rewrite inject_Z_plus. reflexivity. Qed.
Lemma qnat_nonneg n : 0 <= qnat n.
Proof. unfold qnat. change 0 with (inject_Z 0). rewrite <- Zle_Qle. lia. Qed.

(* the smallest element is at most the average *)
Lemma qsum_min_avg (l : list Q) : l <> [] -> exists m, In m l /\ m * qnat (length l) <= qsum l.
Proof. induction l as [|a r IH]. congruence. intros _. destruct r as [|b r'].
  - exists a. split. left; reflexivity. cbn [length qsum]. rewrite qnat_S. change (qnat 0) with 0. lra.
  - destruct IH as [m [Hm Hle]]. discriminate.
    remember (b :: r') as r eqn:Er. clear Er.
    pose proof (qnat_nonneg (length r)) as Hn. pose proof (qnat_S (length r)) as En.
    destruct (Qlt_le_dec m a) as [Hlt|Hge].
    + exists m. split. right; exact Hm. cbn [length qsum]. rewrite En. lra.
    + exists a. split. left; reflexivity. cbn [length qsum]. rewrite En.
      assert (qnat (length r) * a <= qnat (length r) * m) by (apply qmul_le_l; assumption). lra. Qed.
Lemma qsum_pigeonhole (l : list Q) (D : Q) : l <> [] -> qsum l <= D ->
  exists k, (k < length l)%nat /\ nth k l 0 * qnat (length l) <= D.
Proof. intros Hne HD. destruct (qsum_min_avg l Hne) as [m [Hin Hle]].
  destruct (In_nth l m 0 Hin) as [k [Hk E]]. exists k. split. exact Hk. rewrite E. lra. Qed.

Section Bound.
Context {A : Type}.
Variable I : list A.
Notation vec := (A -> Q).

(* squared Euclidean distance over I *)
Definition d2 (f g : vec) : Q := ip I (vsub f g) (vsub f g).
Lemma d2_nonneg f g : 0 <= d2 f g.
Proof. apply ip_nonneg. Qed.
Lemma d2_ext f f' g g' : veq I f f' -> veq I g g' -> d2 f g == d2 f' g'.
Proof. intros Hf Hg. unfold d2. apply ip_ext; apply vsub_veq; assumption. Qed.
Lemma d2_zero f g : d2 f g <= 0 -> veq I f g.
Proof. intros H i Hi. pose proof (ip_self_zero I (vsub f g) H i Hi) as Z. unfold vsub, vzero in Z. lra. Qed.

Lemma ip_veq_zero_l e h : veq I e vzero -> ip I e h == 0.
Proof. intros H. rewrite (ip_ext I e vzero h h H (veq_refl I h)). apply ip_zero_l. Qed.
Lemma ip_neg_l f g h : ip I (vsub f g) h == - ip I (vsub g f) h.
Proof. rewrite !ip_sub_l. ring. Qed.

(* ---- one step: the algebraic identity ---- *)
(* x: current point, e: stored change of the slot, p: any point, x': new point,
   e' = x' - (x - e) the new stored change.  No hypothesis on x'. *)
Lemma bd_step_identity (y x e p x' e' : vec) :
  veq I e' (vsub x' (vsub x e)) ->
  d2 x y + 2 * ip I e (vsub y p) ==
  d2 x' y + 2 * ip I e' (vsub y x') + d2 x' x + 2 * ip I e (vsub x' p).
Proof. intros He.
  rewrite (ip_ext I e' (vsub x' (vsub x e)) (vsub y x') (vsub y x') He (veq_refl I _)).
  unfold d2, ip. rewrite <- !qsum_map_scale, <- !qsum_map_plus. apply qsum_map_ext.
  intros i _. unfold vsub. ring. Qed.

(* ---- one step with a nearest-point map ---- *)
(* z: the rolled-back point (== x - e), the new point is P z, e' == P z - z.
   Invariant of a slot w.r.t. its last point p:  <e, c - p> >= 0 for c in C. *)
Lemma bd_step (C : vec -> Prop) (P : vec -> vec) (y x e p z e' : vec) :
  is_proj I C P -> C y ->
  (forall c, C c -> 0 <= ip I e (vsub c p)) ->
  veq I z (vsub x e) -> veq I e' (vsub (P z) z) ->
  (forall c, C c -> 0 <= ip I e' (vsub c (P z))) /\
  0 <= ip I e (vsub (P z) p) /\
  d2 x y + 2 * ip I e (vsub y p) ==
  d2 (P z) y + 2 * ip I e' (vsub y (P z)) + d2 (P z) x + 2 * ip I e (vsub (P z) p).
Proof. intros HP Hy Hinv Hz He'. destruct (HP z) as [HPz Hvi]. split; [|split].
  - intros c Hc. specialize (Hvi c Hc).
    rewrite (ip_ext I e' (vsub (P z) z) (vsub c (P z)) (vsub c (P z)) He' (veq_refl I _)).
    rewrite ip_neg_l. lra.
  - apply Hinv. exact HPz.
  - apply bd_step_identity. intros i Hi. rewrite (He' i Hi). unfold vsub. rewrite (Hz i Hi). unfold vsub. ring. Qed.

(* ---- the tracked sweep: asweep with the last point of every slot ---- *)
Notation tslot := (slot (A:=A) * vec)%type.

Fixpoint tsweep (tl : list tslot) (x : vec) : vec * list tslot :=
  match tl with
  | [] => (x, [])
  | t :: r =>
      let s := fst t in
      let rolled := vsub x (s_e s) in
      let x' := s_P s rolled in
      let '(xf, r') := tsweep r x' in
      (xf, (mkSlot (s_C s) (s_P s) (vsub x' rolled), x') :: r')
  end.

Lemma tsweep_asweep tl : forall x,
  fst (tsweep tl x) = fst (asweep (map fst tl) x) /\ map fst (snd (tsweep tl x)) = snd (asweep (map fst tl) x).
Proof. induction tl as [|t r IH]; intros x; cbn [tsweep asweep map]. split; reflexivity.
  specialize (IH (s_P (fst t) (vsub x (s_e (fst t))))).
  destruct (tsweep r (s_P (fst t) (vsub x (s_e (fst t))))) as [xf r'].
  destruct (asweep (map fst r) (s_P (fst t) (vsub x (s_e (fst t))))) as [xf2 r2].
  cbn [fst snd map] in *. destruct IH as [-> ->]. split; reflexivity. Qed.

(* total squared movement of one sweep:  sum over its steps of |x_k - x_(k-1)|^2 *)
Fixpoint amoves (sl : list (slot (A:=A))) (x : vec) : Q :=
  match sl with
  | [] => 0
  | s :: r => let x' := s_P s (vsub x (s_e s)) in d2 x' x + amoves r x'
  end.
(* total slack of one sweep:  sum over its steps of <e_old, x_k - p_old> *)
Fixpoint tslack (tl : list tslot) (x : vec) : Q :=
  match tl with
  | [] => 0
  | t :: r => let x' := s_P (fst t) (vsub x (s_e (fst t))) in ip I (s_e (fst t)) (vsub x' (snd t)) + tslack r x'
  end.
Lemma amoves_nonneg sl : forall x, 0 <= amoves sl x.
Proof. induction sl as [|s r IH]; intros x; cbn [amoves]. lra.
  pose proof (d2_nonneg (s_P s (vsub x (s_e s))) x). specialize (IH (s_P s (vsub x (s_e s)))). lra. Qed.

(* the dual part of the potential *)
Definition tsum (y : vec) (tl : list tslot) : Q :=
  qsum (map (fun t : tslot => ip I (s_e (fst t)) (vsub y (snd t))) tl).
Definition phi (y x : vec) (tl : list tslot) : Q := d2 x y + 2 * tsum y tl.

(* every map is a nearest-point map onto its set, which contains y *)
Definition sgood (y : vec) (s : slot (A:=A)) : Prop := is_proj I (s_C s) (s_P s) /\ s_C s y.
(* the stored change of every slot satisfies the variational inequality at its last point *)
Definition tinv (tl : list tslot) : Prop :=
  forall t, In t tl -> forall c, s_C (fst t) c -> 0 <= ip I (s_e (fst t)) (vsub c (snd t)).

Lemma tsum_nonneg y tl : (forall t, In t tl -> sgood y (fst t)) -> tinv tl -> 0 <= tsum y tl.
Proof. intros Hg Hi. unfold tsum. apply qsum_map_nonneg. intros t Ht. apply (Hi t Ht). apply (Hg t Ht). Qed.

Lemma tsweep_step y tl : forall x,
  (forall t, In t tl -> sgood y (fst t)) -> tinv tl ->
  (forall t, In t (snd (tsweep tl x)) -> sgood y (fst t)) /\ tinv (snd (tsweep tl x)) /\
  0 <= tslack tl x /\
  phi y x tl == phi y (fst (tsweep tl x)) (snd (tsweep tl x)) + amoves (map fst tl) x + 2 * tslack tl x.
Proof. induction tl as [|t r IH]; intros x Hg Hi.
  - cbn [tsweep tslack amoves map fst snd]. split; [|split; [|split]]. intros t []. intros t []. lra. unfold phi, tsum. cbn [map qsum]. lra.
  - cbn [tsweep tslack amoves map].
    set (s := fst t). set (z := vsub x (s_e s)). set (x' := s_P s z).
    destruct (Hg t (or_introl eq_refl)) as [HP Hy]. fold s in HP, Hy.
    destruct (bd_step (s_C s) (s_P s) y x (s_e s) (snd t) z (vsub x' z) HP Hy (Hi t (or_introl eq_refl))
                (veq_refl I _) (veq_refl I _)) as (Hnew & Hsl & Hid). fold x' in Hnew, Hsl, Hid.
    specialize (IH x' (fun t0 H0 => Hg t0 (or_intror H0)) (fun t0 H0 => Hi t0 (or_intror H0))).
    destruct (tsweep r x') as [xf r'] eqn:E. cbn [fst snd] in *.
    destruct IH as (IHg & IHi & IHs & IHid). split; [|split; [|split]].
    + intros t0 [<-|H0]; [|apply IHg; exact H0]. cbn [fst]. split; cbn [s_C s_P]; assumption.
    + intros t0 [<-|H0]; [|apply IHi; exact H0]. cbn [fst snd s_C s_e]. exact Hnew.
    + lra.
    + unfold phi, tsum in *. cbn [map qsum fst snd s_e]. fold s. lra. Qed.

(* ---- iterated sweeps ---- *)
Fixpoint aloop (n : nat) (st : vec * list (slot (A:=A))) : vec * list (slot (A:=A)) :=
  match n with O => st | S n' => aloop n' (asweep (snd st) (fst st)) end.
Fixpoint tloop (n : nat) (st : vec * list tslot) : vec * list tslot :=
  match n with O => st | S n' => tloop n' (tsweep (snd st) (fst st)) end.
(* squared movement of each of the first n sweeps *)
Fixpoint aloop_moves (n : nat) (st : vec * list (slot (A:=A))) : list Q :=
  match n with O => [] | S n' => amoves (snd st) (fst st) :: aloop_moves n' (asweep (snd st) (fst st)) end.
Fixpoint tloop_slacks (n : nat) (st : vec * list tslot) : list Q :=
  match n with O => [] | S n' => tslack (snd st) (fst st) :: tloop_slacks n' (tsweep (snd st) (fst st)) end.

Definition untrack (st : vec * list tslot) : vec * list (slot (A:=A)) := (fst st, map fst (snd st)).
Lemma tsweep_untrack st : untrack (tsweep (snd st) (fst st)) = asweep (snd (untrack st)) (fst (untrack st)).
Proof. unfold untrack. cbn [fst snd]. destruct (tsweep_asweep (snd st) (fst st)) as [E1 E2].
  rewrite E1, E2. destruct (asweep (map fst (snd st)) (fst st)); reflexivity. Qed.
Lemma tloop_aloop n : forall st, untrack (tloop n st) = aloop n (untrack st).
Proof. induction n as [|n IH]; intros st; cbn [tloop aloop]. reflexivity. rewrite IH, tsweep_untrack. reflexivity. Qed.

Lemma aloop_moves_length n : forall st, length (aloop_moves n st) = n.
Proof. induction n as [|n IH]; intros st; cbn [aloop_moves length]. reflexivity. rewrite IH. reflexivity. Qed.
Lemma aloop_moves_nth n : forall st k, (k < n)%nat ->
  nth k (aloop_moves n st) 0 = amoves (snd (aloop k st)) (fst (aloop k st)).
Proof. induction n as [|n IH]; intros st k Hk. lia. destruct k as [|k]; cbn [aloop_moves nth aloop]. reflexivity.
  apply IH. lia. Qed.
Lemma aloop_moves_nonneg n : forall st m, In m (aloop_moves n st) -> 0 <= m.
Proof. induction n as [|n IH]; intros st m; cbn [aloop_moves]. intros []. intros [<-|H]. apply amoves_nonneg. exact (IH _ _ H). Qed.

(* The Boyle-Dykstra identity over n sweeps. *)
Theorem tloop_identity (y : vec) (n : nat) : forall st,
  (forall t, In t (snd st) -> sgood y (fst t)) -> tinv (snd st) ->
  let st' := tloop n st in
  (forall t, In t (snd st') -> sgood y (fst t)) /\ tinv (snd st') /\
  (forall m, In m (tloop_slacks n st) -> 0 <= m) /\
  phi y (fst st) (snd st) ==
    d2 (fst st') y + qsum (aloop_moves n (untrack st)) + 2 * qsum (tloop_slacks n st) + 2 * tsum y (snd st').
Proof. induction n as [|n IH]; intros st Hg Hi; cbv zeta.
  - cbn [tloop aloop_moves tloop_slacks qsum]. split; [exact Hg|]. split; [exact Hi|]. split. intros m [].
    unfold phi. lra.
  - cbn [tloop aloop_moves tloop_slacks qsum]. destruct (tsweep_step y (snd st) (fst st) Hg Hi) as (Hg' & Hi' & Hs & Hid).
    destruct (IH (tsweep (snd st) (fst st)) Hg' Hi') as (IHg & IHi & IHs & IHid).
    split; [exact IHg|]. split; [exact IHi|]. split.
    + intros m [<-|Hm]. exact Hs. apply IHs. exact Hm.
    + rewrite <- tsweep_untrack. change (snd (untrack st)) with (map fst (snd st)). change (fst (untrack st)) with (fst st).
      lra. Qed.

(* ---- statements about asweep / aloop only: start with zero stored changes ---- *)
Section FromZero.
Variables (y x0 : vec) (sl : list (slot (A:=A))).
Hypothesis Hgood : forall s, In s sl -> sgood y s.
Hypothesis Hzero : forall s, In s sl -> veq I (s_e s) vzero.

Definition track0 : vec * list tslot := (x0, map (fun s => (s, x0)) sl).
Lemma track0_untrack : untrack track0 = (x0, sl).
Proof. unfold untrack, track0. cbn [fst snd]. rewrite map_map. cbn [fst]. rewrite map_id. reflexivity. Qed.
Lemma track0_good : forall t, In t (snd track0) -> sgood y (fst t).
Proof. intros t Ht. cbn [track0 snd] in Ht. apply in_map_iff in Ht. destruct Ht as [s [<- Hs]]. apply Hgood. exact Hs. Qed.
Lemma track0_inv : tinv (snd track0).
Proof. intros t Ht c _. cbn [track0 snd] in Ht. apply in_map_iff in Ht. destruct Ht as [s [<- Hs]]. cbn [fst snd].
  rewrite ip_veq_zero_l by (apply Hzero; exact Hs). lra. Qed.
Lemma track0_phi : phi y x0 (snd track0) == d2 x0 y.
Proof. unfold phi, tsum. cbn [track0 snd]. rewrite map_map. cbn [fst snd].
  assert (Z : qsum (map (fun s : slot => ip I (s_e s) (vsub y x0)) sl) == 0).
  { clear Hgood. induction sl as [|s r IH]; cbn [map qsum]. reflexivity.
    rewrite IH by (intros s0 H0; apply Hzero; right; exact H0).
    rewrite ip_veq_zero_l by (apply Hzero; left; reflexivity). lra. }
  rewrite Z. lra. Qed.

(* identity, tracked form *)
Theorem dykstra_identity (n : nat) :
  let st := tloop n track0 in
  untrack st = aloop n (x0, sl) /\
  (forall m, In m (tloop_slacks n track0) -> 0 <= m) /\
  (forall t, In t (snd st) -> 0 <= ip I (s_e (fst t)) (vsub y (snd t))) /\
  d2 x0 y == d2 (fst st) y + qsum (aloop_moves n (x0, sl)) + 2 * qsum (tloop_slacks n track0) + 2 * tsum y (snd st).
Proof. cbv zeta. destruct (tloop_identity y n track0 track0_good track0_inv) as (Hg & Hi & Hs & Hid).
  split. rewrite tloop_aloop, track0_untrack. reflexivity. split. exact Hs. split.
  - intros t Ht. apply (Hi t Ht). apply (Hg t Ht).
  - rewrite <- track0_untrack, <- track0_phi. exact Hid. Qed.

(* (b) summable movement, which contains (a) *)
Theorem aloop_moves_summable (n : nat) :
  d2 (fst (aloop n (x0, sl))) y + qsum (aloop_moves n (x0, sl)) <= d2 x0 y.
Proof. destruct (tloop_identity y n track0 track0_good track0_inv) as (Hg & Hi & Hs & Hid).
  rewrite track0_phi, track0_untrack in Hid.
  assert (E : fst (aloop n (x0, sl)) = fst (tloop n track0)).
  { rewrite <- track0_untrack, <- tloop_aloop. reflexivity. }
  rewrite E.
  assert (0 <= qsum (tloop_slacks n track0)).
  { rewrite <- (map_id (tloop_slacks n track0)). apply qsum_map_nonneg. exact Hs. }
  pose proof (tsum_nonneg y _ Hg Hi). lra. Qed.

(* (a) the iterate is never farther from a common point of the sets than the start *)
Theorem aloop_never_farther (n : nat) : d2 (fst (aloop n (x0, sl))) y <= d2 x0 y.
Proof. pose proof (aloop_moves_summable n).
  assert (0 <= qsum (aloop_moves n (x0, sl))).
  { rewrite <- (map_id (aloop_moves n (x0, sl))). apply qsum_map_nonneg. apply aloop_moves_nonneg. }
  lra. Qed.

Theorem aloop_moves_bounded (n : nat) : qsum (aloop_moves n (x0, sl)) <= d2 x0 y.
Proof. pose proof (aloop_moves_summable n). pose proof (d2_nonneg (fst (aloop n (x0, sl))) y). lra. Qed.

(* among the first n sweeps one moves by at most |x0 - y|^2 / n (squared) *)
Theorem aloop_stalls (n : nat) : (1 <= n)%nat ->
  exists k, (k < n)%nat /\
    amoves (snd (aloop k (x0, sl))) (fst (aloop k (x0, sl))) * qnat n <= d2 x0 y.
Proof. intros Hn.
  destruct (qsum_pigeonhole (aloop_moves n (x0, sl)) (d2 x0 y)) as [k [Hk Hle]].
  - intros E. apply (f_equal (@length Q)) in E. rewrite aloop_moves_length in E. cbn in E. lia.
  - apply aloop_moves_bounded.
  - rewrite aloop_moves_length in Hk, Hle. exists k. split. exact Hk.
    rewrite <- (aloop_moves_nth n (x0, sl) k Hk). exact Hle. Qed.
End FromZero.

(* ---- a sweep that does not move reproduces every stored change ---- *)
Lemma amoves_zero_fixpoint sl : forall x, amoves sl x <= 0 ->
  veq I (fst (asweep sl x)) x /\ Forall2 (fun s s' => veq I (s_e s') (s_e s)) sl (snd (asweep sl x)).
Proof. induction sl as [|s r IH]; intros x H; cbn [asweep amoves] in *.
  - split. apply veq_refl. constructor.
  - set (x' := s_P s (vsub x (s_e s))) in *.
    pose proof (d2_nonneg x' x). pose proof (amoves_nonneg r x').
    assert (Hx : veq I x' x) by (apply d2_zero; lra).
    destruct (IH x' ltac:(lra)) as [IH1 IH2].
    destruct (asweep r x') as [xf r'] eqn:E. cbn [fst snd] in *. split.
    + eapply veq_trans. exact IH1. exact Hx.
    + constructor; [|exact IH2]. cbn [s_e]. intros i Hi. unfold vsub. rewrite (Hx i Hi). ring. Qed.

End Bound.

(* ---- the hypotheses are satisfiable; the bound can be strict and can be tight ----
   Q^2, two half-spaces  C1 = { w | w 1 >= w 0 },  C2 = { w | w 1 <= 0 }.
   (i)  x0 = (2, 1), y = (-1, -1), two sweeps: x2 = (3/4, 0), the squared
        movements are 11/4 and 27/16, and 65/16 + 71/16 < 13 (strict).
   (ii) x0 = (1, -1), y = (0, 0) (the nearest common point), two sweeps:
        x2 = y, the squared movements are 2 and 0, and 0 + 2 = 2 (tight). *)
Definition bd_I : list nat := [0%nat; 1%nat].
Definition bd_v (a b : Q) : nat -> Q := fun i => if (i =? 0)%nat then a else b.
Definition bd_c1 := bd_v (-1) 1.
Definition bd_c2 := bd_v 0 (-1).
Definition bd_sl : list (slot (A:=nat)) :=
  [mkSlot (fun w => 0 <= ip bd_I bd_c1 w) (hs_proj bd_I bd_c1) vzero;
   mkSlot (fun w => 0 <= ip bd_I bd_c2 w) (hs_proj bd_I bd_c2) vzero].
Example dykstra_bound_hyps :
  let x0 := bd_v 2 1 in let y := bd_v (-1) (-1) in
  let x0' := bd_v 1 (-1) in let y' := bd_v 0 0 in
  (forall s, In s bd_sl -> sgood bd_I y s) /\ (forall s, In s bd_sl -> sgood bd_I y' s) /\
  (forall s, In s bd_sl -> veq bd_I (s_e s) vzero) /\
  d2 bd_I (fst (aloop 2 (x0, bd_sl))) y + qsum (aloop_moves bd_I 2 (x0, bd_sl)) < d2 bd_I x0 y /\
  0 < nth 1 (aloop_moves bd_I 2 (x0, bd_sl)) 0 /\
  d2 bd_I (fst (aloop 2 (x0', bd_sl))) y' + qsum (aloop_moves bd_I 2 (x0', bd_sl)) == d2 bd_I x0' y'.
Proof. cbv zeta.
  assert (G : forall y, 0 <= ip bd_I bd_c1 y -> 0 <= ip bd_I bd_c2 y -> forall s, In s bd_sl -> sgood bd_I y s).
  { intros y H1 H2 s [<-|[<-|[]]]; (split; [cbn [s_C s_P]; apply halfspace_is_proj; vm_compute; reflexivity|cbn [s_C]; assumption]). }
  split; [|split; [|split; [|split; [|split]]]].
  - apply G; apply Qle_bool_iff; vm_compute; reflexivity.
  - apply G; apply Qle_bool_iff; vm_compute; reflexivity.
  - intros s [<-|[<-|[]]]; apply veq_refl.
  - vm_compute. reflexivity.
  - vm_compute. reflexivity.
  - apply Qeq_bool_eq. vm_compute. reflexivity. Qed.
