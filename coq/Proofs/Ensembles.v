(* Lemmas about Model/Ensembles.v. *)
From Coq Require Import Permutation.
From TFL Require Import Model.Ensembles Proofs.RTLStructure.
Open Scope nat_scope.

Lemma memb_true x l : memb x l = true <-> In x l.
Proof. unfold memb. rewrite existsb_exists. split. intros [y [H E]]. apply Nat.eqb_eq in E; subst; exact H.
  intros H; exists x; split; [exact H|apply Nat.eqb_refl]. Qed.
Lemma memb_false x l : memb x l = false <-> ~ In x l.
Proof. rewrite <- memb_true. destruct (memb x l); split; congruence. Qed.

Lemma nodup_app {A} (a b : list A) : NoDup a -> NoDup b -> (forall x, In x a -> In x b -> False) -> NoDup (a ++ b).
Proof. induction a as [|y a IH]; intros Na Nb H; cbn. exact Nb. inversion Na; subst. constructor.
  rewrite in_app_iff. intros [Hy|Hy]; [contradiction|]. apply (H y); [left; reflexivity|exact Hy].
  apply IH; auto. intros x Hx. apply H. right; exact Hx. Qed.
Lemma nodup_snoc {A} (l : list A) x : NoDup l -> ~ In x l -> NoDup (l ++ [x]).
Proof. intros N H. apply nodup_app. exact N. constructor; [intros []|constructor].
  intros y Hy [<-|[]]. contradiction. Qed.

(* every row of [ls] is contained in some row of [ls'] *)
Definition grows (ls ls' : list (list nat)) : Prop := forall l, In l ls -> exists l', In l' ls' /\ incl l l'.
Lemma grows_refl ls : grows ls ls.
Proof. intros l H; exists l; split; [exact H|apply incl_refl]. Qed.
Lemma grows_trans a b c : grows a b -> grows b c -> grows a c.
Proof. intros H1 H2 l Hl. destruct (H1 l Hl) as [l1 [I1 S1]]. destruct (H2 l1 I1) as [l2 [I2 S2]].
  exists l2; split; [exact I2|]. eapply incl_tran; eassumption. Qed.
Lemma grows_cons l l' r r' : incl l l' -> grows r r' -> grows (l :: r) (l' :: r').
Proof. intros H1 H2 y [<-|Hy]. exists l'; split; [left; reflexivity|exact H1].
  destruct (H2 y Hy) as [y' [I S]]. exists y'; split; [right; exact I|exact S]. Qed.

Lemma set_at_grows (lats : list (list nat)) c ext : grows lats (set_at c (nth c lats [] ++ ext) lats).
Proof. revert c; induction lats as [|l r IH]; intros [|c]; cbn [set_at nth]; try apply grows_refl.
  - apply grows_cons; [apply incl_appl, incl_refl|apply grows_refl].
  - apply grows_cons; [apply incl_refl|apply IH]. Qed.

(* ================================================================== *)
(* random ensemble                                                     *)
(* ================================================================== *)
Section RandomProofs.
Variable ch1 : nat -> list nat -> nat.
Variable ch2 : nat -> list nat -> nat -> list nat.
Hypothesis ch1_in : forall f nf, nf <> [] -> In (ch1 f nf) nf.
Hypothesis ch2_ok : forall k av sz, NoDup av -> sz <= length av ->
  length (ch2 k av sz) = sz /\ NoDup (ch2 k av sz) /\ incl (ch2 k av sz) av.
Variable rank : nat.

Definition row1 (done : list nat) (l : list nat) : Prop := length l <= rank /\ NoDup l /\ incl l done.

Lemma non_full_in c lats : In c (non_full rank lats) -> c < length lats /\ length (nth c lats []) < rank.
Proof. unfold non_full. rewrite filter_In, in_seq. intros [H1 H2]. apply Nat.ltb_lt in H2. split; [lia|exact H2]. Qed.

Lemma rows_sum_set_at (lats : list (list nat)) c v : c < length lats ->
  list_sum (map (@length nat) (set_at c v lats)) + length (nth c lats []) = list_sum (map (@length nat) lats) + length v.
Proof. unfold list_sum. revert c; induction lats as [|l r IH]; intros [|c] H; cbn in *; try lia. specialize (IH c ltac:(lia)). lia. Qed.

Lemma phase1_inv feats : forall done lats lats',
  NoDup (done ++ feats) ->
  Forall (row1 done) lats -> (forall f, In f done -> exists l, In l lats /\ In f l) ->
  rnd_phase1 ch1 rank feats lats = Some lats' ->
  length lats' = length lats /\ Forall (row1 (done ++ feats)) lats' /\
  (forall f, In f (done ++ feats) -> exists l, In l lats' /\ In f l).
Proof.
  induction feats as [|f r IH]; intros done lats lats' ND HR HC E; cbn in E.
  - inversion E; subst. rewrite app_nil_r. auto.
  - destruct (non_full rank lats) as [|c0 nf0] eqn:Enf; [discriminate|].
    assert (Hc : In (ch1 f (c0 :: nf0)) (non_full rank lats)) by (rewrite Enf; apply ch1_in; discriminate).
    set (c := ch1 f (c0 :: nf0)) in *. apply non_full_in in Hc. destruct Hc as [Hc1 Hc2].
    set (lats1 := set_at c (nth c lats [] ++ [f]) lats) in *.
    assert (Hf : ~ In f done).
    { intros Hf. apply NoDup_remove_2 in ND. apply ND. apply in_app_iff. auto. }
    assert (Hold : row1 done (nth c lats [])) by (rewrite Forall_forall in HR; apply HR, nth_In; exact Hc1).
    replace (done ++ f :: r) with ((done ++ [f]) ++ r) in * by (rewrite <- app_assoc; reflexivity).
    destruct (IH (done ++ [f]) lats1 lats' ND) as [L [R C]].
    + apply Forall_forall. intros l Hl. apply in_set_at in Hl. destruct Hl as [->|Hl].
      * destruct Hold as [O1 [O2 O3]]. split; [|split].
        rewrite app_length; cbn; lia.
        apply nodup_snoc; [exact O2|]. intros Hin; apply Hf, O3, Hin.
        apply incl_app; [apply incl_appl; exact O3|apply incl_appr, incl_refl].
      * rewrite Forall_forall in HR. destruct (HR l Hl) as [O1 [O2 O3]]. split; [|split]; auto. apply incl_appl; exact O3.
    + intros g Hg. apply in_app_iff in Hg. destruct Hg as [Hg|[<-|[]]].
      * destruct (HC g Hg) as [l [Hl Hgl]]. destruct (set_at_grows lats c [f] l Hl) as [l' [I S]]. eauto.
      * exists (nth c lats [] ++ [f]). split. 2: apply in_app_iff; right; left; reflexivity.
        unfold lats1. rewrite <- (nth_set_at_same c (nth c lats [] ++ [f]) [] lats Hc1) at 1.
        apply nth_In. rewrite set_at_length. exact Hc1.
    + exact E.
    + unfold lats1 in L. rewrite set_at_length in L. auto.
Qed.

Definition row2 (feats : list nat) (l : list nat) : Prop := length l = rank /\ NoDup l /\ incl l feats.

Lemma phase2_inv feats : NoDup feats -> forall lats k lats',
  Forall (row1 feats) lats -> rnd_phase2 ch2 rank feats k lats = Some lats' ->
  length lats' = length lats /\ Forall (row2 feats) lats' /\ grows lats lats'.
Proof.
  intros Nf. induction lats as [|l r IH]; intros k lats' HR E; cbn [rnd_phase2] in E.
  - inversion E; subst. split; [reflexivity|]. split; [constructor|apply grows_refl].
  - destruct (Nat.ltb_spec (length (filter (fun f => negb (memb f l)) feats)) (rank - length l)); [discriminate|].
    destruct (rnd_phase2 ch2 rank feats (S k) r) as [r'|] eqn:Er; [|discriminate]. inversion E; subst; clear E.
    inversion HR as [|? ? [O1 [O2 O3]] HR']; subst.
    destruct (IH (S k) r' HR' Er) as [L [R G]].
    destruct (ch2_ok k (filter (fun f => negb (memb f l)) feats) (rank - length l) (NoDup_filter _ Nf) H) as [C1 [C2 C3]].
    split; [cbn; lia|]. split.
    + constructor; [|exact R]. split; [|split].
      * rewrite app_length, C1. lia.
      * apply nodup_app; auto. intros x Hx Hx'. apply C3 in Hx'. apply filter_In in Hx'.
        destruct Hx' as [_ Hm]. apply negb_true_iff, memb_false in Hm. auto.
      * apply incl_app; [exact O3|]. intros x Hx. apply C3, filter_In in Hx. tauto.
    + apply grows_cons; [apply incl_appl, incl_refl|exact G].
Qed.

Lemma random_ensemble_ok n num lats : random_ensemble ch1 ch2 n num rank = Some lats ->
  length lats = num /\ Forall (row2 (seq 0 n)) lats /\
  forall f, f < n -> exists l, In l lats /\ In f l.
Proof.
  unfold random_ensemble. destruct (rnd_phase1 ch1 rank (seq 0 n) (repeat [] num)) as [l1|] eqn:E1; [|discriminate].
  intros E2.
  destruct (phase1_inv (seq 0 n) [] (repeat [] num) l1) as [L1 [R1 C1]]; cbn [app].
  - apply seq_NoDup.
  - apply Forall_forall. intros l Hl. apply repeat_spec in Hl; subst. split; [cbn; lia|]. split; [constructor|intros ? []].
  - intros f [].
  - exact E1.
  - destruct (phase2_inv (seq 0 n) (seq_NoDup n 0) l1 0 lats R1 E2) as [L2 [R2 G]].
    split; [rewrite L2, L1, repeat_length; reflexivity|]. split; [exact R2|].
    intros f Hf. destruct (C1 f) as [l [Hl Hfl]]. apply in_seq; lia.
    destruct (G l Hl) as [l' [I S]]. eauto.
Qed.

(* progress: with enough slots and rank <= n nothing raises *)
Lemma phase1_total feats : forall done lats,
  NoDup (done ++ feats) -> Forall (row1 done) lats ->
  list_sum (map (@length nat) lats) = length done ->
  length done + length feats <= length lats * rank ->
  exists lats', rnd_phase1 ch1 rank feats lats = Some lats'.
Proof.
  induction feats as [|f r IH]; intros done lats ND HR HS HB; cbn. eauto.
  destruct (non_full rank lats) as [|c0 nf0] eqn:Enf.
  - exfalso. (* every lattice full: sum of lengths = length lats * rank *)
    assert (HF : Forall (fun l => length l = rank) lats).
    { apply Forall_forall. intros l Hl. destruct (In_nth lats l [] Hl) as [i [Hi Ei]].
      rewrite Forall_forall in HR. destruct (HR l Hl) as [O1 _].
      destruct (Nat.eq_dec (length l) rank) as [|N]; [assumption|exfalso].
      assert (In i (non_full rank lats)).
      { unfold non_full. rewrite filter_In, in_seq, Nat.ltb_lt, Ei. lia. }
      rewrite Enf in H. destruct H. }
    assert (list_sum (map (@length nat) lats) = length lats * rank).
    { clear -HF. induction HF; cbn [map length Nat.mul list_sum fold_right]; [reflexivity|]. unfold list_sum in IHHF. lia. }
    cbn [length] in HB. lia.
  - assert (Hc : In (ch1 f (c0 :: nf0)) (non_full rank lats)) by (rewrite Enf; apply ch1_in; discriminate).
    set (c := ch1 f (c0 :: nf0)) in *. apply non_full_in in Hc. destruct Hc as [Hc1 Hc2].
    assert (Hf : ~ In f done).
    { intros Hf. apply NoDup_remove_2 in ND. apply ND. apply in_app_iff. auto. }
    assert (Hold : row1 done (nth c lats [])) by (rewrite Forall_forall in HR; apply HR, nth_In; exact Hc1).
    replace (done ++ f :: r) with ((done ++ [f]) ++ r) in * by (rewrite <- app_assoc; reflexivity).
    apply (IH (done ++ [f])); [exact ND| | |].
    + apply Forall_forall. intros l Hl. apply in_set_at in Hl. destruct Hl as [->|Hl].
      * destruct Hold as [O1 [O2 O3]]. split; [|split].
        rewrite app_length; cbn; lia.
        apply nodup_snoc; [exact O2|]. intros Hin; apply Hf, O3, Hin.
        apply incl_app; [apply incl_appl; exact O3|apply incl_appr, incl_refl].
      * rewrite Forall_forall in HR. destruct (HR l Hl) as [O1 [O2 O3]]. split; [|split]; auto. apply incl_appl; exact O3.
    + pose proof (rows_sum_set_at lats c (nth c lats [] ++ [f]) Hc1) as E. rewrite !app_length in *. cbn in *. lia.
    + rewrite set_at_length, app_length in *. cbn in *. lia.
Qed.

Lemma filter_not_in_length (feats l : list nat) : NoDup l -> NoDup feats -> incl l feats ->
  length (filter (fun f => negb (memb f l)) feats) + length l = length feats.
Proof.
  revert l; induction feats as [|x feats IH]; intros l Nl Nf Hi; cbn.
  - destruct l as [|y l]; [reflexivity|]. destruct (Hi y (or_introl eq_refl)).
  - inversion Nf as [|? ? Hx Nf']; subst. destruct (memb x l) eqn:M; cbn.
    + apply memb_true in M. destruct (in_split _ _ M) as [l1 [l2 ->]].
      assert (Nl' : NoDup (l1 ++ l2)) by (eapply NoDup_remove_1; exact Nl).
      assert (Hx' : ~ In x (l1 ++ l2)) by (eapply NoDup_remove_2; exact Nl).
      specialize (IH (l1 ++ l2) Nl' Nf').
      rewrite app_length in *. cbn. rewrite <- Nat.add_succ_comm.
      rewrite <- IH.
      * rewrite <- Nat.add_succ_r. f_equal. apply (f_equal (@length nat)). apply filter_ext_in.
        intros a Ha. f_equal. destruct (memb a (l1 ++ x :: l2)) eqn:M1, (memb a (l1 ++ l2)) eqn:M2; try reflexivity.
        -- apply memb_true in M1. apply memb_false in M2. exfalso. apply M2.
           apply in_app_iff in M1. apply in_app_iff. destruct M1 as [|[<-|]]; auto. contradiction.
        -- apply memb_false in M1. apply memb_true in M2. exfalso. apply M1.
           apply in_app_iff in M2. apply in_app_iff. destruct M2; cbn; auto.
      * intros a Ha. assert (In a (l1 ++ x :: l2)) by (apply in_app_iff in Ha; apply in_app_iff; cbn; tauto).
        destruct (Hi a H) as [<-|]; [contradiction|assumption].
    + apply memb_false in M. rewrite <- (IH l Nl Nf'). reflexivity.
      intros a Ha. destruct (Hi a Ha) as [<-|]; [contradiction|assumption].
Qed.

Lemma phase2_total feats : forall lats k, NoDup feats -> rank <= length feats ->
  Forall (row1 feats) lats -> exists lats', rnd_phase2 ch2 rank feats k lats = Some lats'.
Proof.
  induction lats as [|l r IH]; intros k Nf Hr HR; cbn [rnd_phase2]. eauto.
  inversion HR as [|? ? [O1 [O2 O3]] HR']; subst.
  pose proof (filter_not_in_length feats l O2 Nf O3).
  destruct (Nat.ltb_spec (length (filter (fun f => negb (memb f l)) feats)) (rank - length l)); [lia|].
  destruct (IH (S k) Nf Hr HR') as [r' ->]. eauto.
Qed.

Lemma random_ensemble_total n num : n <= num * rank -> rank <= n ->
  exists lats, random_ensemble ch1 ch2 n num rank = Some lats.
Proof.
  intros H1 H2. unfold random_ensemble.
  destruct (phase1_total (seq 0 n) [] (repeat [] num)) as [l1 E1]; cbn [app length].
  - apply seq_NoDup.
  - apply Forall_forall. intros l Hl. apply repeat_spec in Hl; subst. split; [cbn; lia|]. split; [constructor|intros ? []].
  - clear. induction num; cbn; auto.
  - rewrite seq_length, repeat_length. lia.
  - rewrite E1.
    destruct (phase1_inv (seq 0 n) [] (repeat [] num) l1) as [L1 [R1 C1]]; cbn [app].
    + apply seq_NoDup.
    + apply Forall_forall. intros l Hl. apply repeat_spec in Hl; subst. split; [cbn; lia|]. split; [constructor|intros ? []].
    + intros f [].
    + exact E1.
    + apply phase2_total. apply seq_NoDup. rewrite seq_length; exact H2. exact R1.
Qed.
End RandomProofs.

(* ================================================================== *)
(* all-pairs cover                                                     *)
(* ================================================================== *)
Definition covered (ls : list (list nat)) (i j : nat) : Prop := exists l, In l ls /\ In i l /\ In j l.

Lemma covered_grows ls ls' i j : grows ls ls' -> covered ls i j -> covered ls' i j.
Proof. intros G [l [Hl [Hi Hj]]]. destruct (G l Hl) as [l' [I S]]. exists l'. auto. Qed.

Lemma set_add_in x l : In x (set_add x l).
Proof. unfold set_add. destruct (memb x l) eqn:M. apply memb_true; exact M. apply in_app_iff; right; left; reflexivity. Qed.
Lemma set_add_incl x l : incl l (set_add x l).
Proof. unfold set_add. destruct (memb x l). apply incl_refl. apply incl_appl, incl_refl. Qed.
Lemma set_add_length x l : length (set_add x l) <= S (length l).
Proof. unfold set_add. destruct (memb x l). lia. rewrite app_length; cbn; lia. Qed.
Lemma set_add_nodup x l : NoDup l -> NoDup (set_add x l).
Proof. unfold set_add. destruct (memb x l) eqn:M; intros H. exact H.
  apply memb_false in M. apply nodup_snoc; assumption. Qed.
Lemma set_add_bound x l n : x < n -> (forall y, In y l -> y < n) -> forall y, In y (set_add x l) -> y < n.
Proof. unfold set_add. destruct (memb x l); intros Hx H y Hy; auto. apply in_app_iff in Hy.
  destruct Hy as [Hy|[<-|[]]]; auto. Qed.

Section CoverProofs.
Variable rank : nat.

Lemma cover_second_ok i j ls ls' : cover_second rank i j ls = Some ls' -> covered ls' i j /\ grows ls ls'.
Proof. revert ls'; induction ls as [|l r IH]; intros ls' E; cbn [cover_second cover_third] in E; [discriminate|].
  destruct ((length l <? rank) && memb i l) eqn:C1.
  - inversion E; subst. apply andb_true_iff in C1. destruct C1 as [_ M]. apply memb_true in M. split.
    exists (set_add j l). split; [left; reflexivity|]. split; [apply set_add_incl; exact M|apply set_add_in].
    apply grows_cons; [apply set_add_incl|apply grows_refl].
  - destruct ((length l <? rank) && memb j l) eqn:C2.
    + inversion E; subst. apply andb_true_iff in C2. destruct C2 as [_ M]. apply memb_true in M. split.
      exists (set_add i l). split; [left; reflexivity|]. split; [apply set_add_in|apply set_add_incl; exact M].
      apply grows_cons; [apply set_add_incl|apply grows_refl].
    + destruct (cover_second rank i j r) as [r'|]; [|discriminate]. inversion E; subst.
      destruct (IH r' eq_refl) as [[l' [I S]] G]. split. exists l'; split; [right; exact I|exact S].
      apply grows_cons; [apply incl_refl|exact G]. Qed.

Lemma cover_third_ok i j ls ls' : cover_third rank i j ls = Some ls' -> covered ls' i j /\ grows ls ls'.
Proof. revert ls'; induction ls as [|l r IH]; intros ls' E; cbn [cover_second cover_third] in E; [discriminate|].
  destruct (length l <? rank - 1).
  - inversion E; subst. split.
    exists (set_add j (set_add i l)). split; [left; reflexivity|]. split; [apply set_add_incl, set_add_in|apply set_add_in].
    apply grows_cons; [eapply incl_tran; apply set_add_incl|apply grows_refl].
  - destruct (cover_third rank i j r) as [r'|]; [|discriminate]. inversion E; subst.
    destruct (IH r' eq_refl) as [[l' [I S]] G]. split. exists l'; split; [right; exact I|exact S].
    apply grows_cons; [apply incl_refl|exact G]. Qed.

Lemma add_pair_ok ls i j : covered (add_pair rank ls (i, j)) i j /\ grows ls (add_pair rank ls (i, j)).
Proof. unfold add_pair.
  destruct (existsb (fun l => memb i l && memb j l) ls) eqn:E.
  - split; [|apply grows_refl]. apply existsb_exists in E. destruct E as [l [Hl M]].
    apply andb_true_iff in M. destruct M as [M1 M2]. apply memb_true in M1, M2. exists l; auto.
  - destruct (cover_second rank i j ls) as [ls'|] eqn:E2. apply cover_second_ok; exact E2.
    destruct (cover_third rank i j ls) as [ls'|] eqn:E3. apply cover_third_ok; exact E3.
    split. exists (set_add j (set_add i [])). split. apply in_app_iff; right; left; reflexivity.
    split; [apply set_add_incl, set_add_in|apply set_add_in].
    intros l Hl. exists l. split; [apply in_app_iff; left; exact Hl|apply incl_refl]. Qed.

Lemma fold_cover ps : forall ls, grows ls (fold_left (add_pair rank) ps ls) /\
  forall i j, In (i, j) ps -> covered (fold_left (add_pair rank) ps ls) i j.
Proof. induction ps as [|[a b] ps IH]; intros ls; cbn [fold_left]. split; [apply grows_refl|intros ? ? []].
  destruct (IH (add_pair rank ls (a, b))) as [G C]. destruct (add_pair_ok ls a b) as [Cab Gab]. split.
  eapply grows_trans; eassumption.
  intros i j [E|H]. inversion E; subst. eapply covered_grows; eassumption. apply C; exact H. Qed.

(* size and distinctness of the cover lattices *)
Definition crow (n : nat) (l : list nat) : Prop := length l <= rank /\ NoDup l /\ forall y, In y l -> y < n.

Lemma cover_second_rows n i j ls ls' : i < n -> j < n -> Forall (crow n) ls ->
  cover_second rank i j ls = Some ls' -> Forall (crow n) ls'.
Proof. intros Hi Hj. revert ls'; induction ls as [|l r IH]; intros ls' HF E; cbn [cover_second cover_third] in E; [discriminate|].
  inversion HF as [|? ? [O1 [O2 O3]] HF']; subst.
  destruct ((length l <? rank) && memb i l) eqn:C1.
  - inversion E; subst. apply andb_true_iff in C1. destruct C1 as [L _]. apply Nat.ltb_lt in L.
    constructor; [|exact HF']. pose proof (set_add_length j l). split; [lia|]. split; [apply set_add_nodup; exact O2|].
    apply set_add_bound; assumption.
  - destruct ((length l <? rank) && memb j l) eqn:C2.
    + inversion E; subst. apply andb_true_iff in C2. destruct C2 as [L _]. apply Nat.ltb_lt in L.
      constructor; [|exact HF']. pose proof (set_add_length i l). split; [lia|]. split; [apply set_add_nodup; exact O2|].
      apply set_add_bound; assumption.
    + destruct (cover_second rank i j r) as [r'|]; [|discriminate]. inversion E; subst.
      constructor; [split; auto|]. apply IH; auto. Qed.

Lemma cover_third_rows n i j ls ls' : i < n -> j < n -> Forall (crow n) ls ->
  cover_third rank i j ls = Some ls' -> Forall (crow n) ls'.
Proof. intros Hi Hj. revert ls'; induction ls as [|l r IH]; intros ls' HF E; cbn [cover_second cover_third] in E; [discriminate|].
  inversion HF as [|? ? [O1 [O2 O3]] HF']; subst.
  destruct (Nat.ltb_spec (length l) (rank - 1)).
  - inversion E; subst. constructor; [|exact HF'].
    pose proof (set_add_length j (set_add i l)). pose proof (set_add_length i l).
    split; [lia|]. split; [apply set_add_nodup, set_add_nodup; exact O2|].
    apply set_add_bound; [assumption|]. apply set_add_bound; assumption.
  - destruct (cover_third rank i j r) as [r'|]; [|discriminate]. inversion E; subst.
    constructor; [split; auto|]. apply IH; auto. Qed.

Lemma add_pair_rows n ls i j : 2 <= rank -> i < n -> j < n -> Forall (crow n) ls -> Forall (crow n) (add_pair rank ls (i, j)).
Proof. intros Hr Hi Hj HF. unfold add_pair.
  destruct (existsb _ ls); [exact HF|].
  destruct (cover_second rank i j ls) as [ls'|] eqn:E2. exact (cover_second_rows n i j ls ls' Hi Hj HF E2).
  destruct (cover_third rank i j ls) as [ls'|] eqn:E3. exact (cover_third_rows n i j ls ls' Hi Hj HF E3).
  apply Forall_app. split; [exact HF|]. constructor; [|constructor].
  pose proof (set_add_length j (set_add i [])). pose proof (set_add_length i []). cbn [length] in *.
  split; [lia|]. split; [apply set_add_nodup, set_add_nodup; constructor|].
  apply set_add_bound; [assumption|]. apply set_add_bound; [assumption|intros ? []]. Qed.

Lemma fold_rows n ps : 2 <= rank -> (forall i j, In (i, j) ps -> i < n /\ j < n) ->
  forall ls, Forall (crow n) ls -> Forall (crow n) (fold_left (add_pair rank) ps ls).
Proof. intros Hr. induction ps as [|[a b] ps IH]; intros Hp ls HF; cbn [fold_left]. exact HF.
  apply IH. intros; apply Hp; right; assumption.
  destruct (Hp a b (or_introl eq_refl)). apply add_pair_rows; assumption. Qed.
End CoverProofs.

Lemma pairs_in a b n : a < b -> b < n -> In (a, b) (pairs n).
Proof. intros H1 H2. unfold pairs. apply in_flat_map. exists a. split. apply in_seq; lia.
  apply in_map. apply in_seq. lia. Qed.

Definition pair_perm_oracle (sh : list (nat * nat) -> list (nat * nat)) : Prop := forall l, Permutation l (sh l).

Lemma pairs_cover_ok sh n rank : pair_perm_oracle sh ->
  forall i j, i < j -> j < n -> covered (pairs_cover sh n rank) i j.
Proof. intros P i j H1 H2. unfold pairs_cover. apply (fold_cover rank (sh (pairs n)) []).
  apply (Permutation_in _ (P _)). apply pairs_in; assumption. Qed.

Lemma pairs_cover_rows sh n rank : pair_perm_oracle sh -> 2 <= rank ->
  forall l, In l (pairs_cover sh n rank) -> length l <= rank /\ NoDup l /\ forall y, In y l -> y < n.
Proof. intros P Hr. apply Forall_forall. unfold pairs_cover. apply fold_rows; [exact Hr| |constructor].
  intros i j H. apply (Permutation_in _ (Permutation_sym (P _))) in H. apply in_pairs in H. lia. Qed.

(* with at least two features every feature is in some cover lattice *)
Lemma pairs_cover_features sh n rank : pair_perm_oracle sh -> 2 <= n ->
  forall f, f < n -> exists l, In l (pairs_cover sh n rank) /\ In f l.
Proof. intros P Hn f Hf. destruct (Nat.eq_dec f 0) as [->|N].
  - destruct (pairs_cover_ok sh n rank P 0 1) as [l [H1 [H2 _]]]; try lia. eauto.
  - destruct (pairs_cover_ok sh n rank P 0 f) as [l [H1 [_ H2]]]; try lia. eauto. Qed.

(* ================================================================== *)
(* closed statements used by Props/C17.v                               *)
(* ================================================================== *)
Definition choice1_oracle (ch1 : nat -> list nat -> nat) : Prop :=
  forall f nf, nf <> [] -> In (ch1 f nf) nf.
(* np.random.choice(a, size, replace=False) on a list of distinct items *)
Definition choice2_oracle (ch2 : nat -> list nat -> nat -> list nat) : Prop :=
  forall k av sz, NoDup av -> sz <= length av ->
  length (ch2 k av sz) = sz /\ NoDup (ch2 k av sz) /\ incl (ch2 k av sz) av.

Lemma random_rank_closed : forall ch1 ch2, choice1_oracle ch1 -> choice2_oracle ch2 ->
  forall rank n num lats, random_ensemble ch1 ch2 n num rank = Some lats ->
  length lats = num /\ forall l, In l lats -> length l = rank.
Proof. intros ch1 ch2 H1 H2 rank n num lats E.
  destruct (random_ensemble_ok ch1 ch2 H1 H2 rank n num lats E) as [L [R _]]. split; [exact L|].
  intros l Hl. rewrite Forall_forall in R. apply (R l Hl). Qed.

Lemma random_no_repeat_closed : forall ch1 ch2, choice1_oracle ch1 -> choice2_oracle ch2 ->
  forall rank n num lats, random_ensemble ch1 ch2 n num rank = Some lats ->
  forall l, In l lats -> NoDup l /\ forall f, In f l -> f < n.
Proof. intros ch1 ch2 H1 H2 rank n num lats E l Hl.
  destruct (random_ensemble_ok ch1 ch2 H1 H2 rank n num lats E) as [_ [R _]].
  rewrite Forall_forall in R. destruct (R l Hl) as [_ [N I]]. split; [exact N|].
  intros f Hf. apply I, in_seq in Hf. lia. Qed.

Lemma random_coverage_closed : forall ch1 ch2, choice1_oracle ch1 -> choice2_oracle ch2 ->
  forall rank n num lats, random_ensemble ch1 ch2 n num rank = Some lats ->
  forall f, f < n -> exists l, In l lats /\ In f l.
Proof. intros ch1 ch2 H1 H2 rank n num lats E.
  exact (proj2 (proj2 (random_ensemble_ok ch1 ch2 H1 H2 rank n num lats E))). Qed.

Lemma random_total_closed : forall ch1 ch2, choice1_oracle ch1 -> choice2_oracle ch2 ->
  forall rank n num, n <= num * rank -> rank <= n ->
  exists lats, random_ensemble ch1 ch2 n num rank = Some lats.
Proof. intros ch1 ch2 H1 _. exact (random_ensemble_total ch1 ch2 H1). Qed.

Lemma nodup_firstn {A} k (l : list A) : NoDup l -> NoDup (firstn k l).
Proof. revert k; induction l as [|x l IH]; intros [|k] H; cbn; try constructor.
  inversion H; subst. intros Hx. apply in_firstn in Hx. contradiction. inversion H; auto. Qed.
Lemma choice_oracles_example :
  choice1_oracle (fun _ nf => hd 0 nf) /\ choice2_oracle (fun _ av sz => firstn sz av).
Proof. split.
  - intros f [|x nf] H; [congruence|left; reflexivity].
  - intros k av sz N H. split; [apply firstn_length_le; exact H|]. split.
    apply nodup_firstn; exact N. intros x Hx. eapply in_firstn; exact Hx. Qed.

Lemma cover_all_pairs_closed : forall sh, pair_perm_oracle sh ->
  forall n rank i j, i < j -> j < n ->
  exists l, In l (pairs_cover sh n rank) /\ In i l /\ In j l.
Proof. intros sh P n rank i j H1 H2. exact (pairs_cover_ok sh n rank P i j H1 H2). Qed.

Lemma cover_rows_closed : forall sh, pair_perm_oracle sh ->
  forall n rank, 2 <= rank ->
  (forall l, In l (pairs_cover sh n rank) -> length l <= rank /\ NoDup l /\ forall f, In f l -> f < n) /\
  (2 <= n -> forall f, f < n -> exists l, In l (pairs_cover sh n rank) /\ In f l).
Proof. intros sh P n rank Hr. split. exact (pairs_cover_rows sh n rank P Hr).
  intros Hn. exact (pairs_cover_features sh n rank P Hn). Qed.

(* ================================================================== *)
(* Crystals                                                            *)
(* ================================================================== *)
From Coq Require Import Qround Qpower.

(* --- swapping two elements between two rows (any element type) ----- *)
Definition same_shape_g {A} (st0 st : list (list A)) : Prop :=
  map (@length A) st = map (@length A) st0 /\ forall p, countp p (concat st) = countp p (concat st0).
Lemma same_shape_g_refl {A} (st : list (list A)) : same_shape_g st st.
Proof. split; auto. Qed.
Lemma same_shape_g_trans {A} (a b c : list (list A)) : same_shape_g a b -> same_shape_g b c -> same_shape_g a c.
Proof. intros [H1 H2] [H3 H4]. split. congruence. intros p. rewrite H4, H2. reflexivity. Qed.
Lemma same_shape_g_length {A} (st0 st : list (list A)) : same_shape_g st0 st -> length st = length st0.
Proof. intros [H _]. rewrite <- (map_length (@length A) st), H, map_length. reflexivity. Qed.
Lemma same_shape_g_nth_length {A} (st0 st : list (list A)) a : same_shape_g st0 st -> length (nth a st []) = length (nth a st0 []).
Proof. intros [H _]. change (length (nth a st [])) with ((fun l => @length A l) (nth a st [])).
  rewrite <- (map_nth (@length A)), H, map_nth. reflexivity. Qed.

Lemma swap_rows_shape {A} (d : A) (st : list (list A)) a b i0 i1 :
  a < length st -> b < length st -> a <> b -> i0 < length (nth a st []) -> i1 < length (nth b st []) ->
  same_shape_g st (set_at a (set_at i0 (nth i1 (nth b st []) d) (nth a st []))
                          (set_at b (set_at i1 (nth i0 (nth a st []) d) (nth b st [])) st)).
Proof.
  intros Ha Hb Hab H0 H1.
  set (la := nth a st []) in *. set (lb := nth b st []) in *.
  set (f0 := nth i0 la d). set (f1 := nth i1 lb d).
  set (st1 := set_at b (set_at i1 f0 lb) st).
  assert (Hl1 : length st1 = length st) by apply set_at_length.
  assert (Hna : nth a st1 [] = la) by (unfold st1; rewrite nth_set_at_other by congruence; reflexivity).
  split.
  - rewrite map_length_set_at by (rewrite Hna, set_at_length; reflexivity).
    unfold st1. rewrite map_length_set_at by (rewrite set_at_length; reflexivity). reflexivity.
  - intros p.
    pose proof (csum_set_at p a (set_at i0 f1 la) st1 ltac:(lia)) as E1. rewrite Hna in E1.
    pose proof (csum_set_at p b (set_at i1 f0 lb) st Hb) as E2. fold lb st1 in E2.
    pose proof (countp_set_at p i0 f1 d la H0) as E3. fold f0 in E3.
    pose proof (countp_set_at p i1 f0 d lb H1) as E4. fold f1 in E4.
    lia.
Qed.

Lemma countp_true {A} (l : list A) : countp (fun _ => true) l = length l.
Proof. induction l as [|x l IH]; [reflexivity|]. rewrite countp_cons, IH. reflexivity. Qed.

Lemma concat_repeat_nil {A} n : concat (repeat (@nil A) n) = [].
Proof. induction n; cbn; auto. Qed.

(* rows of length <= rank: a short total forces a non-full row; a full total
   forces every row to be full *)
Lemma concat_length_le {A} rank (ls : list (list A)) : Forall (fun l => length l <= rank) ls ->
  length (concat ls) <= length ls * rank.
Proof. induction 1; cbn [concat length Nat.mul]. lia. rewrite app_length. lia. Qed.
Lemma pigeonhole {A} rank (ls : list (list A)) : Forall (fun l => length l <= rank) ls ->
  length (concat ls) < length ls * rank -> exists c, c < length ls /\ length (nth c ls []) < rank.
Proof. induction 1 as [|l ls Hl HF IH]; cbn [concat length Nat.mul]. lia. rewrite app_length. intros H.
  destruct (Nat.lt_ge_cases (length l) rank) as [Hlt|Hge].
  - exists 0. cbn. split; [lia|exact Hlt].
  - destruct IH as [c [Hc1 Hc2]]. lia. exists (S c). cbn. split; [lia|exact Hc2]. Qed.
Lemma all_full {A} rank (ls : list (list A)) : Forall (fun l => length l <= rank) ls ->
  length (concat ls) = length ls * rank -> Forall (fun l => length l = rank) ls.
Proof. induction 1 as [|l ls Hl HF IH]; cbn [concat length Nat.mul]. constructor. rewrite app_length. intros H.
  pose proof (concat_length_le rank ls HF). constructor. lia. apply IH. lia. Qed.

Lemma nth_map_seq_gen {A} (f : nat -> A) a m j d : j < m -> nth j (map f (seq a m)) d = f (a + j).
Proof. intros H. rewrite nth_indep with (d' := f 0) by (rewrite map_length, seq_length; exact H).
  rewrite map_nth, seq_nth by exact H. reflexivity. Qed.

Open Scope Q_scope.
Lemma argmax_scan_spec r : forall k best,
  (argmax_scan r k best = best \/ exists j, (j < length r)%nat /\ argmax_scan r k best = (nth j r 0, (k + j)%nat)) /\
  fst best <= fst (argmax_scan r k best) /\
  (forall j, (j < length r)%nat -> nth j r 0 <= fst (argmax_scan r k best)).
Proof.
  induction r as [|s r IH]; intros k best; cbn [argmax_scan].
  - split; [left; reflexivity|]. split; [lra|]. intros j Hj; cbn in Hj; lia.
  - destruct (Qle_bool (fst best) s) eqn:E.
    + apply (qle_true (fst best) s) in E. destruct (IH (S k) (s, k)) as [H1 [H2 H3]]. cbn [fst] in H2.
      split; [|split].
      * right. destruct H1 as [H1|[j [Hj H1]]].
        exists 0%nat. split; [cbn; lia|]. rewrite H1. cbn. rewrite Nat.add_0_r. reflexivity.
        exists (S j). split; [cbn; lia|]. rewrite H1. cbn [nth]. f_equal. lia.
      * lra.
      * intros [|j] Hj; cbn [nth]. exact H2. apply H3. cbn in Hj; lia.
    + apply (qle_false (fst best) s) in E. destruct (IH (S k) best) as [H1 [H2 H3]].
      split; [|split].
      * destruct H1 as [H1|[j [Hj H1]]]. left; exact H1.
        right. exists (S j). split; [cbn; lia|]. rewrite H1. cbn [nth]. f_equal. lia.
      * exact H2.
      * intros [|j] Hj; cbn [nth]. lra. apply H3. cbn in Hj; lia.
Qed.

Lemma best_candidate_spec (S : nat -> Q) num b : best_candidate (map S (seq 0 num)) = Some b ->
  (b < num)%nat /\ forall cand, (cand < num)%nat -> S cand <= S b.
Proof.
  destruct num as [|m]; cbn [seq map best_candidate]; [discriminate|]. intros E. inversion E as [Eb]; clear E. rewrite ?Eb.
  destruct (argmax_scan_spec (map S (seq 1 m)) 1 (S 0%nat, 0%nat)) as [H1 [H2 H3]].
  rewrite map_length, seq_length in *.
  assert (Hres : (b < Datatypes.S m)%nat /\ fst (argmax_scan (map S (seq 1 m)) 1 (S 0%nat, 0%nat)) = S b).
  { destruct H1 as [H1|[j [Hj H1]]]; rewrite H1 in *; cbn [fst snd] in *; subst b.
    split; [lia|reflexivity]. split; [lia|]. rewrite nth_map_seq_gen by exact Hj. reflexivity. }
  destruct Hres as [Hb Hf]. split; [exact Hb|]. rewrite Hf in *. intros [|cand] Hc. exact H2.
  specialize (H3 cand ltac:(lia)). rewrite nth_map_seq_gen in H3 by lia. exact H3.
Qed.

Lemma qdiv_nonneg a b : 0 <= a -> 0 <= b -> 0 <= a / b.
Proof. intros Ha Hb. unfold Qdiv. apply Qmult_le_0_compat; [exact Ha|apply Qinv_le_0_compat; exact Hb]. Qed.
Lemma half_pow_nonneg z : 0 <= half_pow z.
Proof. unfold half_pow. rewrite Qred_correct. apply Qpower_0_le. lra. Qed.
Lemma inject_nat_nonneg n : 0 <= inject_Z (Z.of_nat n).
Proof. change 0 with (inject_Z 0). rewrite <- Zle_Qle. lia. Qed.

Lemma zmax_fold_ge l : forall acc x, (In x l \/ x = acc) -> (x <= fold_left Z.max l acc)%Z.
Proof. induction l as [|y l IH]; intros acc x H; cbn [fold_left].
  - destruct H as [[]|H]; lia.
  - assert (Hm : (Z.max acc y <= fold_left Z.max l (Z.max acc y))%Z) by (apply IH; right; reflexivity).
    destruct H as [[H|H]|H]. subst; lia. apply IH; left; exact H. subst; lia. Qed.
Lemma zmax_list_ge l x : In x l -> (x <= zmax_list l)%Z.
Proof. destruct l as [|y l]; cbn; [tauto|]. intros [->|H]; apply zmax_fold_ge; auto. Qed.

Lemma add_list_in n uses f : (f < n)%nat -> (1 <= nth f uses 0%Z)%Z -> In f (add_list n uses).
Proof. intros Hf Hu. unfold add_list. apply in_flat_map. exists 1%nat.
  assert (Hlen : (f < length uses)%nat).
  { destruct (Nat.lt_ge_cases f (length uses)); [assumption|]. rewrite nth_overflow in Hu by assumption. lia. }
  pose proof (zmax_list_ge uses (nth f uses 0%Z) (nth_In _ _ Hlen)).
  split. apply in_seq. lia. apply filter_In. split. apply in_seq; lia. apply Z.leb_le. exact Hu. Qed.

Lemma qsum_nonneg l : Forall (fun x => 0 <= x) l -> 0 <= qsum l.
Proof. induction l as [|x l IH]; intros H; cbn [qsum]. lra. inversion H; subst. specialize (IH H3). lra. Qed.

Section CrystalProofs.
Variable c : crystal_cfg.
Hypothesis T_nonneg : Forall (Forall (fun x => 0 <= x)) (k_T c).
Let rank := k_rank c.
Let num := k_num c.

Lemma tget_nonneg i j : 0 <= tget (k_T c) i j.
Proof. unfold tget. destruct (Nat.lt_ge_cases i (length (k_T c))) as [Hi|Hi].
  - assert (HR : Forall (fun x => 0 <= x) (nth i (k_T c) [])) by (rewrite Forall_forall in T_nonneg; apply T_nonneg, nth_In, Hi).
    destruct (Nat.lt_ge_cases j (length (nth i (k_T c) []))) as [Hj|Hj].
    rewrite Forall_forall in HR. apply HR, nth_In, Hj. rewrite nth_overflow by exact Hj. lra.
  - rewrite (nth_overflow (k_T c)) by exact Hi. destruct j; cbn; lra. Qed.

Lemma mean_T_nonneg : 0 <= mean_T (k_n c) (k_T c).
Proof. unfold mean_T. apply qdiv_nonneg; [|apply inject_nat_nonneg].
  apply qsum_map_nonneg. intros row Hrow. apply qsum_nonneg.
  pose proof T_nonneg as HT. rewrite Forall_forall in HT. exact (HT row Hrow). Qed.

Lemma addition_score_full lats C f cand : (rank <= length (nth cand lats []))%nat ->
  addition_score c lats C f cand = -(2).
Proof. intros H. unfold addition_score. fold rank. apply Nat.leb_le in H. rewrite H. reflexivity. Qed.
Lemma addition_score_open lats C f cand : (length (nth cand lats []) < rank)%nat ->
  -(1) <= addition_score c lats C f cand.
Proof. intros H. unfold addition_score. fold rank. apply Nat.leb_gt in H. rewrite H.
  destruct (memb f (nth cand lats [])). lra.
  destruct (nth cand lats []) as [|o l].
  - rewrite Qred_correct. apply (Qle_trans _ 0); [lra|]. apply qdiv_nonneg; [|lra].
    apply Qmult_le_0_compat; [apply mean_T_nonneg|apply inject_nat_nonneg].
  - rewrite Qred_correct. apply (Qle_trans _ 0); [lra|]. apply qsum_map_nonneg. intros o' _.
    apply Qmult_le_0_compat; [apply tget_nonneg|apply half_pow_nonneg]. Qed.

Definition pl_inv (processed : list nat) (lats : list (list nat)) : Prop :=
  length lats = num /\ Forall (fun l => (length l <= rank)%nat) lats /\
  forall p, countp p (concat lats) = countp p processed.

Lemma pl_inv_length processed lats : pl_inv processed lats -> length (concat lats) = length processed.
Proof. intros [_ [_ H]]. rewrite <- !countp_true. apply H. Qed.

Lemma place_step processed lats C f : pl_inv processed lats -> (length processed < num * rank)%nat ->
  exists lats' C', place_one c (Some (lats, C)) f = Some (lats', C') /\ pl_inv (processed ++ [f]) lats'.
Proof.
  intros Hinv Hlt. pose proof (pl_inv_length _ _ Hinv) as Hlen. destruct Hinv as [HL [HF HC]].
  destruct (pigeonhole rank lats HF) as [c0 [Hc0 Hopen]]. rewrite Hlen, HL. exact Hlt.
  cbn [place_one]. fold num.
  destruct (best_candidate (map (addition_score c lats C f) (seq 0 num))) as [b|] eqn:Eb.
  2:{ exfalso. destruct num; [lia|]. cbn in Eb. discriminate. }
  destruct (best_candidate_spec _ _ _ Eb) as [Hb Hmax].
  assert (Hbopen : (length (nth b lats []) < rank)%nat).
  { destruct (Nat.lt_ge_cases (length (nth b lats [])) rank) as [|Hfull]; [assumption|exfalso].
    pose proof (Hmax c0 ltac:(lia)) as Hle. rewrite (addition_score_full lats C f b Hfull) in Hle.
    pose proof (addition_score_open lats C f c0 Hopen). lra. }
  eexists. eexists. split; [reflexivity|]. split; [|split].
  - rewrite set_at_length. exact HL.
  - apply Forall_forall. intros l Hl. apply in_set_at in Hl. destruct Hl as [->|Hl].
    rewrite app_length; cbn; lia. rewrite Forall_forall in HF. apply HF; exact Hl.
  - intros p. pose proof (csum_set_at p b (nth b lats [] ++ [f]) lats ltac:(lia)) as E.
    rewrite !countp_app in *. rewrite <- HC. lia.
Qed.

Lemma place_fold al : forall processed lats C, pl_inv processed lats ->
  (length processed + length al <= num * rank)%nat ->
  exists lats' C', fold_left (place_one c) al (Some (lats, C)) = Some (lats', C') /\ pl_inv (processed ++ al) lats'.
Proof.
  induction al as [|f al IH]; intros processed lats C Hinv Hb; cbn [fold_left].
  - rewrite app_nil_r. eauto.
  - cbn [length] in Hb. destruct (place_step processed lats C f Hinv ltac:(lia)) as [l1 [C1 [E1 I1]]].
    rewrite E1. destruct (IH (processed ++ [f]) l1 C1 I1) as [l2 [C2 [E2 I2]]].
    rewrite app_length; cbn; lia. rewrite <- app_assoc in I2. eauto.
Qed.

(* --- the swap optimisation preserves row lengths and the multiset --- *)
Lemma crystal_try_swap_shape lats C a b i0 i1 :
  (a < length lats)%nat -> (b < length lats)%nat -> a <> b ->
  (i0 < length (nth a lats []))%nat -> (i1 < length (nth b lats []))%nat ->
  same_shape_g lats (fst (fst (crystal_try_swap c (lats, C) a b i0 i1))).
Proof.
  intros Ha Hb Hab H0 H1. unfold crystal_try_swap. cbv zeta.
  destruct (Nat.eqb _ _). apply same_shape_g_refl.
  match goal with |- context [if ?cnd then _ else _] => destruct cnd end; cbn [fst].
  apply swap_rows_shape; assumption. apply same_shape_g_refl.
Qed.

Lemma crystal_pass_pair_shape lats0 acc a b : In (a, b) (pairs (length lats0)) ->
  same_shape_g lats0 (fst (fst acc)) -> same_shape_g lats0 (fst (fst (crystal_pass_pair c acc (a, b)))).
Proof.
  intros Hab Hacc. unfold crystal_pass_pair. apply in_pairs in Hab.
  apply fold_left_inv with (P := fun acc' => same_shape_g lats0 (fst (fst acc'))); [exact Hacc|].
  intros [[l C] ch] [i0 i1] Hq Hs. apply in_prod_iff in Hq. destruct Hq as [Hi0 Hi1]. apply in_seq in Hi0, Hi1.
  unfold crystal_swap_step. cbn [fst snd] in *.
  destruct (crystal_try_swap c (l, C) a b i0 i1) as [st' c'] eqn:E. cbn [fst].
  replace st' with (fst (crystal_try_swap c (l, C) a b i0 i1)) by (rewrite E; reflexivity).
  eapply same_shape_g_trans; [exact Hs|].
  pose proof (same_shape_g_length _ _ Hs). pose proof (same_shape_g_length _ _ Hacc).
  apply crystal_try_swap_shape; try lia.
  rewrite (same_shape_g_nth_length _ _ a Hs), <- (same_shape_g_nth_length _ _ a Hacc). lia.
  rewrite (same_shape_g_nth_length _ _ b Hs), <- (same_shape_g_nth_length _ _ b Hacc). lia.
Qed.

Lemma crystal_swap_pass_shape st : same_shape_g (fst st) (fst (fst (crystal_swap_pass c st))).
Proof. unfold crystal_swap_pass.
  apply fold_left_inv with (P := fun acc => same_shape_g (fst st) (fst (fst acc))). apply same_shape_g_refl.
  intros acc [a b] Hab Hs. apply crystal_pass_pair_shape; assumption. Qed.

Lemma crystal_swap_loop_shape fuel : forall st, same_shape_g (fst st) (fst (crystal_swap_loop c fuel st)).
Proof. induction fuel as [|f IH]; intros st; cbn [crystal_swap_loop]. apply same_shape_g_refl.
  pose proof (crystal_swap_pass_shape st) as H. destruct (crystal_swap_pass c st) as [st' ch]. cbn [fst] in H.
  destruct ch; [|exact H]. eapply same_shape_g_trans; [exact H|apply IH]. Qed.

Lemma crystals_from_uses_ok uses lats : crystals_from_uses c uses = Some lats ->
  length lats = num /\ (forall l, In l lats -> length l = rank) /\
  (forall p, countp p (concat lats) = countp p (add_list (k_n c) uses)).
Proof.
  unfold crystals_from_uses. fold rank num.
  destruct (Nat.eqb_spec (length (add_list (k_n c) uses)) (num * rank)) as [Hal|]; cbn [negb]; [|discriminate].
  destruct (place_fold (add_list (k_n c) uses) [] (repeat [] num) (repeat (repeat 0%Z (k_n c)) (k_n c)))
    as [l1 [C1 [E1 I1]]].
  { split; [apply repeat_length|]. split.
    apply Forall_forall. intros l Hl. apply repeat_spec in Hl. subst; cbn; lia.
    intros p. rewrite concat_repeat_nil. reflexivity. }
  { cbn [length]. lia. }
  rewrite E1. cbn [app] in I1. intros E.
  assert (Elats : lats = fst (crystal_swap_loop c (S (k_max_swaps c)) (l1, C1))) by congruence. clear E. subst lats.
  pose proof (pl_inv_length _ _ I1) as Hlen. destruct I1 as [HL [HF HC]].
  assert (Hfull : Forall (fun l => length l = rank) l1) by (apply all_full; [exact HF|rewrite Hlen, HL; exact Hal]).
  pose proof (crystal_swap_loop_shape (S (k_max_swaps c)) (l1, C1)) as Hsh. cbn [fst] in Hsh.
  set (fin := fst (crystal_swap_loop c (S (k_max_swaps c)) (l1, C1))) in *.
  split; [|split].
  - rewrite (same_shape_g_length _ _ Hsh). exact HL.
  - intros l Hl. destruct Hsh as [Hm _].
    assert (Hin : In (length l) (map (@length nat) fin)) by (apply in_map; exact Hl).
    rewrite Hm in Hin. apply in_map_iff in Hin. destruct Hin as [l' [<- Hl']].
    rewrite Forall_forall in Hfull. apply Hfull; exact Hl'.
  - intros p. destruct Hsh as [_ Hc]. rewrite Hc. apply HC.
Qed.
End CrystalProofs.
Open Scope nat_scope.

Lemma crystals_closed : forall c lats,
  Forall (Forall (fun x => (0 <= x)%Q)) (k_T c) ->
  crystal_lattices c = Some lats ->
  exists uses, crystal_uses c = Some uses /\ zsum uses = Z.of_nat (k_num c * k_rank c) /\
  length lats = k_num c /\ (forall l, In l lats -> length l = k_rank c) /\
  (forall f, f < k_n c -> (1 <= nth f uses 0%Z)%Z -> exists l, In l lats /\ In f l).
Proof.
  intros c lats HT E. unfold crystal_lattices in E. destruct (crystal_uses c) as [uses|] eqn:Eu; [|discriminate].
  exists uses. split; [reflexivity|]. split.
  - unfold crystal_uses in Eu. destruct (alloc_uses _ _ _ _ _ _) as [u|]; [|discriminate].
    destruct (Z.eqb_spec (zsum u) (Z.of_nat (k_num c * k_rank c))); [|discriminate]. inversion Eu; subst; assumption.
  - destruct (crystals_from_uses_ok c HT uses lats E) as [H1 [H2 H3]]. split; [exact H1|]. split; [exact H2|].
    intros f Hf Hu. pose proof (add_list_in (k_n c) uses f Hf Hu) as Hin.
    assert (Hp : 0 < countp (Nat.eqb f) (concat lats)) by (rewrite H3; eapply countp_in_pos; [exact Hin|apply Nat.eqb_refl]).
    destruct (countp_pos_in _ _ Hp) as [x [Hx Ex]]. apply Nat.eqb_eq in Ex. subst x.
    apply in_concat in Hx. destruct Hx as [l [Hl Hfl]]. eauto.
Qed.

(* ================================================================== *)
(* Crystals: the use allocation gives every feature at least one use   *)
(* when all scores are non-negative                                    *)
(* ================================================================== *)
Open Scope Q_scope.
Lemma qround_nonneg x : 0 <= x -> (0 <= qround_half_even x)%Z.
Proof. intros H. unfold qround_half_even.
  assert (Hf : (0 <= Qfloor x)%Z) by (change 0%Z with (Qfloor 0); apply Qfloor_resp_le; exact H).
  destruct (Qcompare _ _); [destruct (Z.even _)|..]; lia. Qed.
Lemma qround_le_int x k : x <= inject_Z k -> (qround_half_even x <= k)%Z.
Proof. intros H. unfold qround_half_even.
  assert (Hf : (Qfloor x <= k)%Z) by (rewrite <- (Qfloor_Z k); apply Qfloor_resp_le; exact H).
  destruct (Z.eq_dec (Qfloor x) k) as [E|N].
  - assert (Hlt : x - inject_Z (Qfloor x) < 1#2) by (rewrite E; lra).
    destruct (Qcompare (x - inject_Z (Qfloor x)) (1#2)) eqn:Ec.
    + apply Qeq_alt in Ec. lra.
    + lia.
    + apply Qgt_alt in Ec. lra.
  - destruct (Qcompare _ _); [destruct (Z.even _)|..]; lia. Qed.

Lemma zset_add_length i d l : length (zset_add i d l) = length l.
Proof. revert i; induction l as [|x l IH]; intros [|i]; cbn; auto. Qed.
Lemma zset_add_ge1 i d l : (0 <= d)%Z -> Forall (fun u => (1 <= u)%Z) l -> Forall (fun u => (1 <= u)%Z) (zset_add i d l).
Proof. intros Hd. revert i; induction l as [|x l IH]; intros [|i] H; cbn; auto; inversion H; subst; constructor; auto. lia. Qed.

Lemma alloc_uses_ge1 num imp : (1 <= num)%nat -> (forall f, 0 <= nth f imp 0) ->
  forall order uses rem_uses rem_scores uses',
  (0 <= rem_uses)%Z -> rem_scores == qsum (map (fun f => nth f imp 0) order) ->
  Forall (fun u => (1 <= u)%Z) uses ->
  alloc_uses num imp order uses rem_uses rem_scores = Some uses' ->
  Forall (fun u => (1 <= u)%Z) uses' /\ length uses' = length uses.
Proof.
  intros Hnum Himp. induction order as [|f r IH]; intros uses rem_uses rem_scores uses' HR HS HU E; cbn [alloc_uses] in E.
  - inversion E; subst; auto.
  - destruct (Qeq_bool rem_scores 0) eqn:Ez; [discriminate|]. apply Qeq_bool_neq in Ez.
    cbn [map qsum] in HS.
    assert (Hrest : 0 <= qsum (map (fun f => nth f imp 0) r)) by (apply qsum_map_nonneg; intros; apply Himp).
    pose proof (Himp f) as Hf.
    assert (Hpos : 0 < rem_scores) by (destruct (Qlt_le_dec 0 rem_scores); [assumption|exfalso; apply Ez; lra]).
    set (x := inject_Z rem_uses * nth f imp 0 / rem_scores) in *.
    assert (HRq : 0 <= inject_Z rem_uses) by (change 0 with (inject_Z 0); rewrite <- Zle_Qle; exact HR).
    assert (Hx0 : 0 <= x).
    { unfold x. apply Qle_shift_div_l; [exact Hpos|]. pose proof (qmul_nonneg _ _ HRq Hf). lra. }
    assert (Hx1 : x <= inject_Z rem_uses).
    { unfold x. apply Qle_shift_div_r; [exact Hpos|]. apply qmul_le_l; [exact HRq|lra]. }
    pose proof (qround_nonneg x Hx0). pose proof (qround_le_int x rem_uses Hx1).
    set (added := Z.min (qround_half_even x) (Z.of_nat num - 1)) in *.
    assert (Ha : (0 <= added <= rem_uses)%Z) by (unfold added; lia).
    destruct (IH (zset_add f added uses) (rem_uses - added)%Z (Qred (rem_scores - nth f imp 0)) uses') as [H1 H2].
    + lia.
    + rewrite Qred_correct. lra.
    + apply zset_add_ge1; [lia|exact HU].
    + exact E.
    + split; [exact H1|]. rewrite H2, zset_add_length. reflexivity.
Qed.

Lemma qsum_perm a b : Permutation a b -> qsum a == qsum b.
Proof. induction 1; cbn [qsum]; lra. Qed.
Lemma ins_desc_perm imp x l : Permutation (ins_desc imp x l) (x :: l).
Proof. induction l as [|y l IH]; cbn. reflexivity. destruct (Qle_bool _ _). reflexivity.
  rewrite IH. apply perm_swap. Qed.
Lemma argsort_desc_perm imp : Permutation (argsort_desc imp) (seq 0 (length imp)).
Proof. unfold argsort_desc. induction (seq 0 (length imp)) as [|x l IH]; cbn. reflexivity.
  rewrite ins_desc_perm, IH. reflexivity. Qed.
Lemma map_nth_seq (l : list Q) : map (fun i => nth i l 0) (seq 0 (length l)) = l.
Proof. induction l as [|x l IH]; cbn [length seq map nth]. reflexivity.
  f_equal. rewrite <- seq_shift, map_map. exact IH. Qed.

Lemma tget_nonneg_gen T i j : Forall (Forall (fun x => 0 <= x)) T -> 0 <= tget T i j.
Proof. intros HT. unfold tget. destruct (Nat.lt_ge_cases i (length T)) as [Hi|Hi].
  - assert (HR : Forall (fun x => 0 <= x) (nth i T [])) by (rewrite Forall_forall in HT; apply HT, nth_In, Hi).
    destruct (Nat.lt_ge_cases j (length (nth i T []))) as [Hj|Hj].
    rewrite Forall_forall in HR. apply HR, nth_In, Hj. rewrite nth_overflow by exact Hj. lra.
  - rewrite (nth_overflow T) by exact Hi. destruct j; cbn; lra. Qed.

Lemma importance_nonneg n T lap : Forall (Forall (fun x => 0 <= x)) T -> Forall (fun x => 0 <= x) lap ->
  forall f, 0 <= nth f (importance n T lap) 0.
Proof. intros HT HL f. destruct (Nat.lt_ge_cases f (length (importance n T lap))) as [Hf|Hf].
  2:{ rewrite nth_overflow by exact Hf. lra. }
  assert (Hin : In (nth f (importance n T lap) 0) (importance n T lap)) by (apply nth_In; exact Hf).
  unfold importance in Hin at 2. apply in_map_iff in Hin. destruct Hin as [g [<- _]].
  rewrite Qred_correct.
  assert (0 <= nth g lap 0).
  { destruct (Nat.lt_ge_cases g (length lap)). rewrite Forall_forall in HL. apply HL, nth_In; assumption.
    rewrite nth_overflow by assumption. lra. }
  assert (0 <= qsum (map (fun h => if (g <? h)%nat then tget T g h else if (h <? g)%nat then tget T h g else 0) (seq 0 n))).
  { apply qsum_map_nonneg. intros h _. destruct (g <? h)%nat; [apply tget_nonneg_gen; exact HT|].
    destruct (h <? g)%nat; [apply tget_nonneg_gen; exact HT|lra]. }
  lra. Qed.

Lemma crystal_uses_ge1 c uses :
  Forall (Forall (fun x => 0 <= x)) (k_T c) -> Forall (fun x => 0 <= x) (k_lap c) ->
  (1 <= k_num c)%nat -> (k_n c <= k_num c * k_rank c)%nat ->
  crystal_uses c = Some uses -> forall f, (f < k_n c)%nat -> (1 <= nth f uses 0%Z)%Z.
Proof.
  intros HT HL Hnum Hslots E f Hf. unfold crystal_uses in E.
  set (imp := importance (k_n c) (k_T c) (k_lap c)) in *.
  destruct (alloc_uses _ _ _ _ _ _) as [u|] eqn:Ea; [|discriminate].
  destruct (Z.eqb _ _); [|discriminate]. inversion E; subst u; clear E.
  destruct (alloc_uses_ge1 (k_num c) imp Hnum (importance_nonneg _ _ _ HT HL) (argsort_desc imp)
             (repeat 1%Z (k_n c)) (Z.of_nat (k_num c * k_rank c) - Z.of_nat (k_n c))%Z (Qred (qsum imp)) uses)
    as [H1 H2]; [| | |exact Ea|].
  - lia.
  - rewrite Qred_correct. rewrite (qsum_perm _ _ (Permutation_map _ (argsort_desc_perm imp))).
    rewrite map_nth_seq. reflexivity.
  - apply Forall_forall. intros u Hu. apply repeat_spec in Hu. lia.
  - rewrite repeat_length in H2. rewrite Forall_forall in H1. apply H1, nth_In. lia.
Qed.
Open Scope nat_scope.

(* allocation succeeded (D13 excluded by hypothesis) + non-negative scores +
   enough slots: exact rank and every feature used *)
Lemma crystals_full_closed : forall c lats,
  Forall (Forall (fun x => (0 <= x)%Q)) (k_T c) -> Forall (fun x => (0 <= x)%Q) (k_lap c) ->
  k_n c <= k_num c * k_rank c ->
  crystal_lattices c = Some lats ->
  length lats = k_num c /\ (forall l, In l lats -> length l = k_rank c) /\
  (forall f, f < k_n c -> exists l, In l lats /\ In f l).
Proof.
  intros c lats HT HL Hslots E. destruct (crystals_closed c lats HT E) as [uses [Eu [Hsum [H1 [H2 H3]]]]].
  split; [exact H1|]. split; [exact H2|]. intros f Hf. apply H3; [exact Hf|].
  destruct (Nat.eq_dec (k_num c) 0) as [Z0|NZ].
  - (* no lattices: then no slots, so no features *) rewrite Z0 in Hslots. cbn in Hslots. lia.
  - apply (crystal_uses_ge1 c uses HT HL); [lia|exact Hslots|exact Eu|exact Hf].
Qed.

(* D13 on the model: a valid configuration (non-negative scores, enough slots,
   rank < number of features) on which the use allocation raises
   (0 * 0 / 0 -> nan -> int(round(nan))): feature 2 has importance 0. *)
Definition d13_witness : crystal_cfg :=
  mkcr 3 2 2 1000 [[0; 1; 0]; [1; 0; 0]; [0; 0; 0]]%Q [1; 1; 0]%Q.
Lemma crystals_allocation_refuted : exists c,
  Forall (Forall (fun x => (0 <= x)%Q)) (k_T c) /\ Forall (fun x => (0 <= x)%Q) (k_lap c) /\
  k_n c <= k_num c * k_rank c /\ k_rank c < k_n c /\
  crystal_uses c = None /\ crystal_lattices c = None.
Proof. exists d13_witness. split; [|split; [|split; [|split; [|split]]]].
  - repeat constructor; discriminate.
  - repeat constructor; discriminate.
  - cbn; lia.
  - cbn; lia.
  - vm_compute. reflexivity.
  - vm_compute. reflexivity. Qed.
