(* Proofs about Model/LinearProject.v: categorical_calibration_lib.project and
   linear_lib.project, one column of weights.  The topological-sort facts come
   from Proofs/TopoSort.v, so the only assumption about the pair lists is
   acyclicity. *)
From TFL Require Import Model.LinearProject Proofs.PartialOrder Proofs.TopoSort.
Open Scope Q_scope.

(* ---------- generic helpers ---------- *)
Lemma nth_map_Q (f : Q -> Q) l i : (i < length l)%nat -> nth i (map f l) 0 = f (nth i l 0).
Proof. intros H. rewrite nth_indep with (d' := f 0) by (rewrite map_length; exact H). apply map_nth. Qed.

Lemma po_with_order_length ps s w : length (po_with_order ps s w) = length w.
Proof. unfold po_with_order. rewrite map2_length.
  repeat (rewrite ?max_proj_length, ?min_proj_length). apply Nat.min_id. Qed.

Lemma in_swap ps a b : In (a, b) (swap_pairs ps) <-> In (b, a) ps.
Proof. unfold swap_pairs. rewrite in_map_iff. split.
  - intros [[x y] [E H]]. cbn in E. inversion E; subst. exact H.
  - intros H. exists (b, a). split; [reflexivity|exact H]. Qed.
Lemma node_swap ps k : node (swap_pairs ps) k <-> node ps k.
Proof. unfold node. split; intros [x [H|H]]; exists x.
  - right. apply (proj1 (in_swap ps k x)); exact H.
  - left. apply (proj1 (in_swap ps x k)); exact H.
  - right. apply (proj2 (in_swap ps x k)); exact H.
  - left. apply (proj2 (in_swap ps k x)); exact H. Qed.
Lemma swap_nonempty ps : ps <> [] -> swap_pairs ps <> [].
Proof. destruct ps; cbn; congruence. Qed.
Lemma path_swap ps a b : path (swap_pairs ps) a b -> path ps b a.
Proof. intros H. induction H as [a b H|a b c _ IH1 _ IH2]. apply path_step. apply (proj1 (in_swap ps a b)); exact H.
  eapply path_trans; eassumption. Qed.
Lemma acyclic_swap ps : acyclic ps -> acyclic (swap_pairs ps).
Proof. intros H a Ha. apply (H a). apply path_swap. exact Ha. Qed.

(* The partial-order projection on a non-empty acyclic pair list: everything the
   later stages need to know about it. *)
Lemma po_stage ps w : ps <> [] -> acyclic ps -> pairs_in_range ps w ->
  exists w', po_project ps w = Some w' /\ length w' = length w /\ feasible ps w' /\
    (forall lo, (forall k, node ps k -> lo <= nth k w 0) -> forall k, node ps k -> lo <= nth k w' 0) /\
    (forall k, ~ node ps k -> nth k w' 0 == nth k w 0) /\
    (feasible ps w -> peq w' w).
Proof. intros Hne Hac Hr. destruct (po_project_defined ps w Hne Hac Hr) as [s [T [Hs E]]].
  exists (po_with_order ps s w). split; [exact E|]. split; [apply po_with_order_length|].
  split; [apply po_with_order_feasible; assumption|]. split; [|split].
  - intros lo H k Hk. apply po_with_order_lower; assumption.
  - intros k Hk. destruct (Nat.lt_ge_cases k (length w)) as [Hl|Hl]. apply po_with_order_nonnode; assumption.
    rewrite !nth_overflow by (rewrite ?po_with_order_length; exact Hl). reflexivity.
  - apply po_with_order_fixed. Qed.

Lemma po_project_some ps w r : po_project ps w = Some r -> exists s, r = po_with_order ps s w.
Proof. unfold po_project. destruct (toposort ps) as [s| |]; try discriminate. intros E. inversion E. exists s; reflexivity. Qed.

(* ================= categorical calibration ================= *)
Definition cclip (lo hi : option Q) (x : Q) : Q := clip_hi hi (clip_lo lo x).
Lemma cclip_mono lo hi x y : x <= y -> cclip lo hi x <= cclip lo hi y.
Proof. intros. unfold cclip, clip_lo, clip_hi. destruct lo, hi; qcases; lra. Qed.
Lemma cclip_hi lo h x : cclip lo (Some h) x <= h.
Proof. unfold cclip, clip_lo, clip_hi. destruct lo; qcases; lra. Qed.
Lemma cclip_lo l hi x : (forall h, hi = Some h -> l <= h) -> l <= cclip (Some l) hi x.
Proof. intros H. unfold cclip, clip_lo, clip_hi. destruct hi as [h|]; [specialize (H h eq_refl)|]; qcases; lra. Qed.
Lemma cclip_id lo hi x : (forall l, lo = Some l -> l <= x) -> (forall h, hi = Some h -> x <= h) -> cclip lo hi x == x.
Proof. intros Hl Hh. unfold cclip, clip_lo, clip_hi.
  destruct lo as [l|]; [specialize (Hl l eq_refl)|]; (destruct hi as [h|]; [specialize (Hh h eq_refl)|]); qcases; lra. Qed.

Lemma cat_project_col_some ps lo hi w r : cat_project_col ps lo hi w = Some r ->
  exists p, (match ps with [] => Some w | _ => po_project ps w end) = Some p /\ r = map (cclip lo hi) p.
Proof. unfold cat_project_col. destruct (match ps with [] => Some w | _ => po_project ps w end) as [p|]; [|discriminate].
  intros E. inversion E. exists p. split; reflexivity. Qed.

Lemma cat_defined ps lo hi w : acyclic ps -> pairs_in_range ps w ->
  exists r, cat_project_col ps lo hi w = Some r /\ length r = length w.
Proof. intros Hac Hr. unfold cat_project_col. destruct ps as [|p0 ps'] eqn:Eps.
  - eexists. split; [reflexivity|]. apply map_length.
  - rewrite <- Eps in *. assert (Hne : ps <> []) by (rewrite Eps; discriminate).
    destruct (po_stage ps w Hne Hac Hr) as [w' [E [L _]]]. rewrite E. eexists. split; [reflexivity|]. rewrite map_length. exact L. Qed.

Lemma cat_pairs ps lo hi w r : ps <> [] -> acyclic ps -> pairs_in_range ps w ->
  cat_project_col ps lo hi w = Some r -> feasible ps r.
Proof. intros Hne Hac Hr E. apply cat_project_col_some in E. destruct E as [p [E ->]].
  destruct ps as [|p0 ps'] eqn:Eps; [congruence|]. rewrite <- Eps in *.
  destruct (po_stage ps w Hne Hac Hr) as [w' [E' [L [F _]]]]. rewrite E' in E. inversion E; subst w'.
  intros i j Hij. destruct (Hr i j Hij) as [Hi Hj].
  rewrite !nth_map_Q by (rewrite L; assumption). apply cclip_mono. apply F. exact Hij. Qed.

Lemma cat_bounds ps lo hi w r : cat_project_col ps lo hi w = Some r -> forall x, In x r ->
  (forall h, hi = Some h -> x <= h) /\ (forall l, lo = Some l -> (forall h, hi = Some h -> l <= h) -> l <= x).
Proof. intros E x Hx. apply cat_project_col_some in E. destruct E as [p [_ ->]].
  apply in_map_iff in Hx. destruct Hx as [y [<- _]]. split.
  - intros h ->. apply cclip_hi.
  - intros l -> H. apply cclip_lo. exact H. Qed.

Definition within (lo hi : option Q) (x : Q) : Prop :=
  (forall l, lo = Some l -> l <= x) /\ (forall h, hi = Some h -> x <= h).

Lemma cat_fixed ps lo hi w r : feasible ps w -> (forall x, In x w -> within lo hi x) ->
  cat_project_col ps lo hi w = Some r -> peq r w.
Proof. intros F Hb E. apply cat_project_col_some in E. destruct E as [p [E ->]].
  assert (P : peq p w).
  { destruct ps as [|p0 ps'] eqn:Eps. inversion E; apply peq_refl. rewrite <- Eps in *.
    apply po_project_some in E. destruct E as [s ->]. apply po_with_order_fixed. exact F. }
  destruct P as [L P]. split. rewrite map_length; exact L.
  intros k. destruct (Nat.lt_ge_cases k (length w)) as [Hk|Hk].
  - rewrite nth_map_Q by (rewrite L; exact Hk).
    assert (Ec : cclip lo hi (nth k p 0) == cclip lo hi (nth k w 0)).
    { unfold cclip, clip_hi, clip_lo. destruct lo, hi; rewrite (P k); reflexivity. }
    rewrite Ec. destruct (Hb (nth k w 0) (nth_In w 0 Hk)) as [H1 H2]. apply cclip_id; assumption.
  - rewrite !nth_overflow by (rewrite ?map_length, ?L; exact Hk). reflexivity. Qed.

(* ================= linear layer ================= *)
(* ---------- arithmetic helpers ---------- *)
Lemma qinv_neg s : s < 0 -> / s < 0.
Proof. intros H. destruct (Qlt_le_dec (/ s) 0) as [Hl|Hl]; [exact Hl|exfalso].
  assert (Hs : ~ s == 0) by lra. pose proof (Qmult_inv_r s Hs) as E.
  pose proof (qmul_nonneg (- s) (/ s) ltac:(lra) Hl). lra. Qed.
Lemma qdiv_nonneg_pos x s : 0 <= x -> 0 < s -> 0 <= x / s.
Proof. intros Hx Hs. unfold Qdiv. apply qmul_nonneg. exact Hx. pose proof (Qinv_lt_0_compat s Hs). lra. Qed.
Lemma qdiv_nonneg_neg x s : 0 <= x -> s < 0 -> x / s <= 0.
Proof. intros Hx Hs. unfold Qdiv. pose proof (qinv_neg s Hs). pose proof (qmul_nonneg x (- / s) Hx ltac:(lra)). lra. Qed.
Lemma qmul_le_r a b e : 0 <= e -> a <= b -> a * e <= b * e.
Proof. intros He H. pose proof (qmul_le_l e a b He H). lra. Qed.
Lemma qabs_mul_nonneg x e : 0 <= e -> qabs (x * e) == qabs x * e.
Proof. intros He. destruct (qabs_spec x) as [[H1 E1]|[H1 E1]], (qabs_spec (x * e)) as [[H2 E2]|[H2 E2]]; rewrite E1, E2.
  - reflexivity.
  - pose proof (qmul_nonneg x e H1 He). lra.
  - pose proof (qmul_nonneg (- x) e ltac:(lra) He). lra.
  - lra. Qed.

(* ---------- stage 1: sign clip ---------- *)
Definition sclip (m : Z) (x : Q) : Q :=
  if (m =? 1)%Z then qmax x (x * 0) else if (m =? -1)%Z then qmin x (x * 0) else x.
Lemma sign_clip_length ms w : length (sign_clip ms w) = Nat.min (length ms) (length w).
Proof. unfold sign_clip. apply map2_length. Qed.
Lemma sign_clip_nth ms w i : (i < length ms)%nat -> (i < length w)%nat ->
  nth i (sign_clip ms w) 0 = sclip (nth i ms 0%Z) (nth i w 0).
Proof. intros H1 H2. unfold sign_clip. rewrite (nth_map2 _ ms w i 0%Z 0 0) by assumption. reflexivity. Qed.
Lemma sclip_spec m x :
  (m = 1%Z -> 0 <= sclip m x) /\ (m = (-1)%Z -> sclip m x <= 0) /\
  ((m = 1%Z -> 0 <= x) -> (m = (-1)%Z -> x <= 0) -> sclip m x == x).
Proof. unfold sclip. destruct (Z.eqb_spec m 1) as [->|H1]; [|destruct (Z.eqb_spec m (-1)) as [->|H2]].
  - split; [intros _; qcases; lra|split; [intros; discriminate|]]. intros H _. specialize (H eq_refl). qcases; lra.
  - split; [intros; discriminate|split; [intros _; qcases; lra|]]. intros _ H. specialize (H eq_refl). qcases; lra.
  - split; [intros; contradiction|split; [intros; contradiction|]]. intros; reflexivity. Qed.

Definition mono (c : lin_cfg) (i : nat) : Z := nth i (lc_monos c) 0%Z.
(* the sign constraints: >= 0 on increasing, <= 0 on decreasing inputs *)
Definition signs_ok (c : lin_cfg) (w : list Q) : Prop :=
  forall i, (mono c i = 1%Z -> 0 <= nth i w 0) /\ (mono c i = (-1)%Z -> nth i w 0 <= 0).

Lemma signs_ok_peq c w w' : peq w w' -> signs_ok c w -> signs_ok c w'.
Proof. intros [_ H] S i. rewrite <- (H i). apply S. Qed.

Lemma sign_clip_signs c w : length (lc_monos c) = length w -> signs_ok c (sign_clip (lc_monos c) w).
Proof. intros L i. destruct (Nat.lt_ge_cases i (length w)) as [Hi|Hi].
  - rewrite sign_clip_nth by lia. destruct (sclip_spec (nth i (lc_monos c) 0%Z) (nth i w 0)) as [A [B _]]. split; assumption.
  - rewrite nth_overflow by (rewrite sign_clip_length; lia). split; intros; lra. Qed.
Lemma sign_clip_fixed c w : length (lc_monos c) = length w -> signs_ok c w -> peq (sign_clip (lc_monos c) w) w.
Proof. intros L S. split. rewrite sign_clip_length; lia. intros i.
  destruct (Nat.lt_ge_cases i (length w)) as [Hi|Hi].
  - rewrite sign_clip_nth by lia. destruct (sclip_spec (nth i (lc_monos c) 0%Z) (nth i w 0)) as [_ [_ A]].
    apply A; apply S.
  - rewrite !nth_overflow by (rewrite ?sign_clip_length; lia). reflexivity. Qed.

(* ---------- scalings ---------- *)
Definition lin_scale (c : lin_cfg) (i : nat) : Q :=
  scaling (nth i (lc_monos c) 0%Z) (nth i (lc_min c) None) (nth i (lc_max c) None).

Lemma scaling_sign m lo hi : (m = (-1)%Z -> scaling m lo hi < 0) /\ (m <> (-1)%Z -> 0 < scaling m lo hi).
Proof. unfold scaling. destruct (Z.eqb_spec m (-1)) as [->|Hm].
  - split; [intros _|intros H; contradiction]. destruct lo as [l|], hi as [h|]; try lra.
    destruct (qlt l h) eqn:E; [apply qlt_true in E|]; lra.
  - split; [intros H; contradiction|intros _]. destruct lo as [l|], hi as [h|]; try lra.
    destruct (qlt l h) eqn:E; [apply qlt_true in E|]; lra. Qed.
(* division safety: no scaling is ever zero *)
Lemma scaling_nonzero m lo hi : ~ scaling m lo hi == 0.
Proof. destruct (scaling_sign m lo hi) as [A B]. destruct (Z.eq_dec m (-1)) as [E|E]; [specialize (A E)|specialize (B E)]; lra. Qed.
Lemma scaling_bounded m l h : l < h -> scaling m (Some l) (Some h) == (if (m =? -1)%Z then -(1) else 1) * (h - l).
Proof. intros H. unfold scaling. apply qlt_true in H. rewrite H. reflexivity. Qed.

Lemma scalings_length ms : forall los his n, length ms = n -> length los = n -> length his = n ->
  length (scalings ms los his) = n.
Proof. induction ms as [|m ms IH]; intros [|lo los] [|hi his] n H1 H2 H3; cbn in *; try lia.
  destruct n; [lia|]. f_equal. apply IH; lia. Qed.
Lemma scalings_nth ms : forall los his i, (i < length ms)%nat -> (i < length los)%nat -> (i < length his)%nat ->
  nth i (scalings ms los his) 0 = scaling (nth i ms 0%Z) (nth i los None) (nth i his None).
Proof. induction ms as [|m ms IH]; intros [|lo los] [|hi his] [|i] H1 H2 H3; cbn in *; try lia; auto.
  apply IH; lia. Qed.

(* ---------- what verify_hyperparameters guarantees ---------- *)
Definition rbounds (c : lin_cfg) (i : nat) : Prop :=
  exists l h, nth i (lc_min c) None = Some l /\ nth i (lc_max c) None = Some h /\ l < h.

Record lin_valid (c : lin_cfg) (n : nat) : Prop := {
  lv_monos_len : length (lc_monos c) = n;
  lv_monos_val : forall i, mono c i = 0%Z \/ mono c i = 1%Z \/ mono c i = (-1)%Z;
  lv_min_len : lc_rdom c <> [] -> length (lc_min c) = n;
  lv_max_len : lc_rdom c <> [] -> length (lc_max c) = n;
  lv_mdom : forall d k, In (d, k) (lc_mdom c) ->
      (d < n)%nat /\ (k < n)%nat /\ mono c d = 1%Z /\ mono c k = 1%Z;
  lv_rdom : forall d k, In (d, k) (lc_rdom c) ->
      (d < n)%nat /\ (k < n)%nat /\ mono c d = mono c k /\ mono c d <> 0%Z /\ rbounds c d /\ rbounds c k;
  lv_disjoint : forall i, node (lc_mdom c) i -> node (lc_rdom c) i -> False;
  lv_mdom_acyclic : acyclic (swap_pairs (lc_mdom c));
  lv_rdom_acyclic : acyclic (swap_pairs (lc_rdom c))
}.

Definition mdom_ok (c : lin_cfg) (w : list Q) : Prop :=
  forall d k, In (d, k) (lc_mdom c) -> nth k w 0 <= nth d w 0.
Definition rdom_ok (c : lin_cfg) (w : list Q) : Prop :=
  forall d k, In (d, k) (lc_rdom c) -> lin_scale c k * nth k w 0 <= lin_scale c d * nth d w 0.
Definition lin_feasible (c : lin_cfg) (w : list Q) : Prop := signs_ok c w /\ mdom_ok c w /\ rdom_ok c w.

Lemma mdom_ok_peq c w w' : peq w w' -> mdom_ok c w -> mdom_ok c w'.
Proof. intros [_ H] S d k Hd. rewrite <- !H. apply S; exact Hd. Qed.
Lemma rdom_ok_peq c w w' : peq w w' -> rdom_ok c w -> rdom_ok c w'.
Proof. intros [_ H] S d k Hd. rewrite <- !H. apply S; exact Hd. Qed.

(* ---------- the pipeline without the final normalization ---------- *)
Definition stage_po (ps : pairs) (w : list Q) : option (list Q) :=
  match ps with [] => Some w | _ => po_project (swap_pairs ps) w end.
Definition stage_range (c : lin_cfg) (w2 : list Q) : option (list Q) :=
  match lc_rdom c with
  | [] => Some w2
  | _ => let sc := scalings (lc_monos c) (lc_min c) (lc_max c) in
         match po_project (swap_pairs (lc_rdom c)) (map2 Qmult w2 sc) with
         | Some p => Some (map2 (fun x s => Qred (x / s)) p sc)
         | None => None
         end
  end.
Definition lin_pre (c : lin_cfg) (w : list Q) : option (list Q) :=
  match stage_po (lc_mdom c) (sign_clip (lc_monos c) w) with
  | None => None
  | Some w2 => stage_range c w2
  end.

Lemma lin_project_col_pre rt c w :
  lin_project_col rt c w = option_map (normalize rt (lc_norm c)) (lin_pre c w).
Proof. unfold lin_project_col, lin_pre, stage_po, stage_range.
  destruct (match lc_mdom c with [] => _ | _ => _ end) as [w2|]; [|reflexivity].
  destruct (lc_rdom c); [reflexivity|]. cbv zeta.
  destruct (po_project _ _); reflexivity. Qed.

(* the pre-normalization vector is what the model computes when no normalization is requested *)
Definition with_norm (c : lin_cfg) (k : nat) : lin_cfg :=
  mkLin (lc_monos c) (lc_mdom c) (lc_rdom c) (lc_min c) (lc_max c) k.
Lemma lin_pre_norm0 rt c w : lin_project_col rt (with_norm c 0) w = lin_pre c w.
Proof. rewrite lin_project_col_pre. unfold with_norm, lin_pre, stage_range; cbn [lc_norm lc_monos lc_mdom lc_rdom lc_min lc_max normalize].
  destruct (stage_po _ _) as [w2|]; [|reflexivity]. cbn [option_map].
  destruct (lc_rdom c); [reflexivity|]. cbv zeta. destruct (po_project _ _); reflexivity. Qed.

(* ---------- stage 2: a dominance projection ---------- *)
Lemma stage_po_spec ps w : acyclic (swap_pairs ps) -> (forall d k, In (d, k) ps -> (d < length w)%nat /\ (k < length w)%nat) ->
  exists w', stage_po ps w = Some w' /\ length w' = length w /\
    (forall d k, In (d, k) ps -> nth k w' 0 <= nth d w' 0) /\
    (forall lo, (forall k, node ps k -> lo <= nth k w 0) -> forall k, node ps k -> lo <= nth k w' 0) /\
    (forall k, ~ node ps k -> nth k w' 0 == nth k w 0) /\
    ((forall d k, In (d, k) ps -> nth k w 0 <= nth d w 0) -> peq w' w).
Proof. intros Hac Hr. unfold stage_po. destruct ps as [|p0 ps'] eqn:Eps.
  - exists w. split; [reflexivity|split; [reflexivity|]]. split; [intros d k []|]. split; [intros lo H; exact H|].
    split; [intros; reflexivity|intros _; apply peq_refl].
  - rewrite <- Eps in *. assert (Hne : swap_pairs ps <> []) by (apply swap_nonempty; rewrite Eps; discriminate).
    assert (Hr' : pairs_in_range (swap_pairs ps) w).
    { intros i j Hij. apply (proj1 (in_swap _ _ _)) in Hij. destruct (Hr j i Hij). split; assumption. }
    destruct (po_stage (swap_pairs ps) w Hne Hac Hr') as [w' [E [L [F [Lo [Nn Fx]]]]]].
    exists w'. split; [exact E|split; [exact L|]]. split; [|split; [|split]].
    + intros d k Hd. apply F. apply (proj2 (in_swap ps k d)). exact Hd.
    + intros lo H k Hk. apply Lo. intros k' Hk'. apply H. apply (proj1 (node_swap ps k')); exact Hk'. apply (proj2 (node_swap ps k)); exact Hk.
    + intros k Hk. apply Nn. intro H; apply Hk. apply (proj1 (node_swap ps k)); exact H.
    + intros H. apply Fx. intros i j Hij. apply (proj1 (in_swap _ _ _)) in Hij. apply H; exact Hij. Qed.

(* ---------- stage 3: range dominance (scale, project, unscale) ---------- *)
Lemma stage_range_nonempty c w2 : lc_rdom c <> [] ->
  stage_range c w2 =
    match stage_po (lc_rdom c) (map2 Qmult w2 (scalings (lc_monos c) (lc_min c) (lc_max c))) with
    | Some p => Some (map2 (fun x s => Qred (x / s)) p (scalings (lc_monos c) (lc_min c) (lc_max c)))
    | None => None
    end.
Proof. intros H. unfold stage_range, stage_po. destruct (lc_rdom c); [congruence|reflexivity]. Qed.

Lemma node_dec ps k : {node ps k} + {~ node ps k}.
Proof. destruct (in_dec Nat.eq_dec k (nodes ps)) as [H|H]; [left|right]; rewrite node_nodes; exact H. Qed.

Lemma rdom_node_mono c n i : lin_valid c n -> node (lc_rdom c) i ->
  (i < n)%nat /\ (mono c i = 1%Z \/ mono c i = (-1)%Z).
Proof. intros V [x [H|H]]; destruct (lv_rdom c n V _ _ H) as [A [B [C [D _]]]]; (split; [assumption|]);
  destruct (lv_monos_val c n V i) as [E|E]; try exact E; exfalso; congruence. Qed.

Lemma stage_range_spec c n w2 : lin_valid c n -> length w2 = n -> signs_ok c w2 ->
  exists w3, stage_range c w2 = Some w3 /\ length w3 = n /\ signs_ok c w3 /\ rdom_ok c w3 /\
    (forall i, ~ node (lc_rdom c) i -> nth i w3 0 == nth i w2 0) /\
    (rdom_ok c w2 -> peq w3 w2).
Proof. intros V L S. destruct (lc_rdom c) as [|p0 rd'] eqn:E.
  - exists w2. unfold stage_range. rewrite E. split; [reflexivity|split; [exact L|split; [exact S|]]].
    split; [unfold rdom_ok; rewrite E; intros d k []|]. split; [intros; reflexivity|intros; apply peq_refl].
  - assert (Hne : lc_rdom c <> []) by (rewrite E; discriminate). rewrite <- E in *. clear E p0 rd'.
    rewrite (stage_range_nonempty c w2 Hne).
    set (sc := scalings (lc_monos c) (lc_min c) (lc_max c)).
    assert (Lsc : length sc = n).
    { apply scalings_length. apply (lv_monos_len c n V). apply (lv_min_len c n V Hne). apply (lv_max_len c n V Hne). }
    assert (Hsc : forall i, (i < n)%nat -> nth i sc 0 = lin_scale c i).
    { intros i Hi. unfold sc, lin_scale. apply scalings_nth.
      rewrite (lv_monos_len c n V); exact Hi. rewrite (lv_min_len c n V Hne); exact Hi. rewrite (lv_max_len c n V Hne); exact Hi. }
    assert (Hs0 : forall i, ~ lin_scale c i == 0) by (intros i; apply scaling_nonzero).
    set (v := map2 Qmult w2 sc).
    assert (Lv : length v = n) by (unfold v; rewrite map2_length; lia).
    assert (Hv : forall i, (i < n)%nat -> nth i v 0 = nth i w2 0 * lin_scale c i).
    { intros i Hi. unfold v. rewrite (nth_map2 Qmult w2 sc i 0 0 0) by lia. rewrite Hsc by exact Hi. reflexivity. }
    assert (Hr : forall d k, In (d, k) (lc_rdom c) -> (d < length v)%nat /\ (k < length v)%nat).
    { intros d k H. destruct (lv_rdom c n V d k H) as [A [B _]]. rewrite Lv. split; assumption. }
    destruct (stage_po_spec (lc_rdom c) v (lv_rdom_acyclic c n V) Hr) as [p [Ep [Lp [F [Lo [Nn Fx]]]]]].
    rewrite Ep. set (w3 := map2 (fun x s => Qred (x / s)) p sc).
    assert (Lw3 : length w3 = n) by (unfold w3; rewrite map2_length; lia).
    assert (Hw3 : forall i, (i < n)%nat -> nth i w3 0 == nth i p 0 / lin_scale c i).
    { intros i Hi. unfold w3. rewrite (nth_map2 (fun x s => Qred (x / s)) p sc i 0 0 0) by lia.
      rewrite Qred_correct, Hsc by exact Hi. reflexivity. }
    assert (Hvpos : forall k, node (lc_rdom c) k -> 0 <= nth k v 0).
    { intros k Hk. destruct (rdom_node_mono c n k V Hk) as [Hkn Hm]. rewrite Hv by exact Hkn.
      destruct (scaling_sign (nth k (lc_monos c) 0%Z) (nth k (lc_min c) None) (nth k (lc_max c) None)) as [A B].
      fold (lin_scale c k) in A, B. fold (mono c k) in A, B. destruct (S k) as [S1 S2]. destruct Hm as [Hm|Hm].
      - specialize (S1 Hm). assert (0 < lin_scale c k) by (apply B; rewrite Hm; discriminate).
        apply qmul_nonneg; lra.
      - specialize (S2 Hm). specialize (A Hm).
        pose proof (qmul_nonneg (- nth k w2 0) (- lin_scale c k) ltac:(lra) ltac:(lra)). lra. }
    assert (Hnn : forall i, ~ node (lc_rdom c) i -> nth i w3 0 == nth i w2 0).
    { intros i Hi. destruct (Nat.lt_ge_cases i n) as [Hin|Hin].
      - rewrite Hw3 by exact Hin. rewrite (Nn i Hi), Hv by exact Hin. apply Qdiv_mult_l. apply Hs0.
      - rewrite !nth_overflow by lia. reflexivity. }
    exists w3. split; [reflexivity|split; [exact Lw3|]]. split; [|split; [|split; [exact Hnn|]]].
    + intros i. destruct (node_dec (lc_rdom c) i) as [Hi|Hi].
      * destruct (rdom_node_mono c n i V Hi) as [Hin Hm]. rewrite Hw3 by exact Hin.
        assert (Hp : 0 <= nth i p 0) by (apply (Lo 0 Hvpos i Hi)).
        destruct (scaling_sign (nth i (lc_monos c) 0%Z) (nth i (lc_min c) None) (nth i (lc_max c) None)) as [A B].
        fold (lin_scale c i) in A, B. fold (mono c i) in A, B. split; intros Hmi.
        -- apply qdiv_nonneg_pos. exact Hp. apply B. rewrite Hmi. discriminate.
        -- apply qdiv_nonneg_neg. exact Hp. apply A. exact Hmi.
      * rewrite (Hnn i Hi). apply S.
    + intros d k H. destruct (lv_rdom c n V d k H) as [A [B _]].
      rewrite (Hw3 d A), (Hw3 k B). rewrite !Qmult_div_r by apply Hs0. apply F. exact H.
    + intros R. assert (P : peq p v).
      { apply Fx. intros d k H. destruct (lv_rdom c n V d k H) as [A [B _]]. rewrite (Hv d A), (Hv k B).
        pose proof (R d k H). lra. }
      destruct P as [_ P]. split; [lia|]. intros i. destruct (Nat.lt_ge_cases i n) as [Hin|Hin].
      * rewrite Hw3 by exact Hin. rewrite (P i), Hv by exact Hin. apply Qdiv_mult_l. apply Hs0.
      * rewrite !nth_overflow by lia. reflexivity. Qed.

(* ---------- the pipeline up to normalization ---------- *)
Lemma lin_pre_spec c n w : lin_valid c n -> length w = n ->
  exists w3, lin_pre c w = Some w3 /\ length w3 = n /\ signs_ok c w3 /\ mdom_ok c w3 /\ rdom_ok c w3 /\
    (lin_feasible c w -> peq w3 w).
Proof. intros V L. unfold lin_pre. set (w1 := sign_clip (lc_monos c) w).
  assert (Lm : length (lc_monos c) = length w) by (rewrite L; apply (lv_monos_len c n V)).
  assert (L1 : length w1 = n) by (unfold w1; rewrite sign_clip_length; lia).
  assert (S1 : signs_ok c w1) by (apply sign_clip_signs; exact Lm).
  assert (Hr : forall d k, In (d, k) (lc_mdom c) -> (d < length w1)%nat /\ (k < length w1)%nat).
  { intros d k H. destruct (lv_mdom c n V d k H) as [A [B _]]. rewrite L1. split; assumption. }
  destruct (stage_po_spec (lc_mdom c) w1 (lv_mdom_acyclic c n V) Hr) as [w2 [E2 [L2 [F2 [Lo2 [Nn2 Fx2]]]]]].
  rewrite E2. rewrite L1 in L2.
  assert (Hm1 : forall i, node (lc_mdom c) i -> mono c i = 1%Z).
  { intros i [x [H|H]]; destruct (lv_mdom c n V _ _ H) as [_ [_ [A B]]]; assumption. }
  assert (S2 : signs_ok c w2).
  { intros i. destruct (node_dec (lc_mdom c) i) as [Hi|Hi].
    - split; intros Hm.
      + apply (Lo2 0); [|exact Hi]. intros k Hk. apply S1. apply Hm1; exact Hk.
      + rewrite (Hm1 i Hi) in Hm. discriminate.
    - rewrite (Nn2 i Hi). apply S1. }
  destruct (stage_range_spec c n w2 V L2 S2) as [w3 [E3 [L3 [S3 [R3 [Nn3 Fx3]]]]]].
  exists w3. split; [exact E3|split; [exact L3|split; [exact S3|]]]. split; [|split; [exact R3|]].
  - intros d k H.
    assert (Hd : ~ node (lc_rdom c) d) by (intro Hn; apply (lv_disjoint c n V d); [exists k; left; exact H|exact Hn]).
    assert (Hk : ~ node (lc_rdom c) k) by (intro Hn; apply (lv_disjoint c n V k); [exists d; right; exact H|exact Hn]).
    rewrite (Nn3 d Hd), (Nn3 k Hk). apply F2; exact H.
  - intros [Fs [Fm Fr]].
    assert (P1 : peq w1 w) by (apply sign_clip_fixed; assumption).
    assert (P2 : peq w2 w1). { apply Fx2. apply (mdom_ok_peq c w w1 (peq_sym _ _ P1) Fm). }
    assert (P21 : peq w2 w) by (eapply peq_trans; eassumption).
    assert (P3 : peq w3 w2). { apply Fx3. apply (rdom_ok_peq c w w2 (peq_sym _ _ P21) Fr). }
    eapply peq_trans; eassumption. Qed.

(* ---------- stage 4: normalization is multiplication by a positive number ---------- *)
Definition norm_div (rt : Q -> Q) (order : nat) (w : list Q) : Q :=
  let n := col_norm rt order w in if qlt n norm_eps then 1 else n.
Lemma norm_div_pos rt order w : 0 < norm_div rt order w.
Proof. unfold norm_div. destruct (qlt (col_norm rt order w) norm_eps) eqn:E. lra.
  apply qlt_false in E. unfold norm_eps in E. lra. Qed.
Lemma normalize_S rt k w : normalize rt (S k) w = map (fun x => Qred (x / norm_div rt (S k) w)) w.
Proof. reflexivity. Qed.
Lemma normalize_length rt order w : length (normalize rt order w) = length w.
Proof. destruct order; [reflexivity|]. rewrite normalize_S. apply map_length. Qed.
Lemma normalize_nth rt k w i : nth i (normalize rt (S k) w) 0 == nth i w 0 * / norm_div rt (S k) w.
Proof. rewrite normalize_S. destruct (Nat.lt_ge_cases i (length w)) as [H|H].
  - rewrite nth_map_Q by exact H. rewrite Qred_correct. reflexivity.
  - rewrite !nth_overflow by (rewrite ?map_length; exact H). lra. Qed.
Lemma normalize_scale rt order w : exists e, 0 < e /\ forall i, nth i (normalize rt order w) 0 == nth i w 0 * e.
Proof. destruct order as [|k].
  - exists 1. split; [lra|]. intros i. cbn [normalize]. lra.
  - exists (/ norm_div rt (S k) w). split; [apply Qinv_lt_0_compat, norm_div_pos|]. intros i. apply normalize_nth. Qed.

(* ---------- the whole column projection ---------- *)
Lemma lin_spec rt c n w r : lin_valid c n -> length w = n -> lin_project_col rt c w = Some r ->
  exists w3 e, lin_pre c w = Some w3 /\ r = normalize rt (lc_norm c) w3 /\ length w3 = n /\
    signs_ok c w3 /\ mdom_ok c w3 /\ rdom_ok c w3 /\ (lin_feasible c w -> peq w3 w) /\
    0 < e /\ length r = n /\ forall i, nth i r 0 == nth i w3 0 * e.
Proof. intros V L E. rewrite lin_project_col_pre in E.
  destruct (lin_pre_spec c n w V L) as [w3 [E3 [L3 [S3 [M3 [R3 Fx]]]]]]. rewrite E3 in E. cbn [option_map] in E.
  inversion E as [Er]. destruct (normalize_scale rt (lc_norm c) w3) as [e [He Hn]].
  exists w3, e. repeat (split; [first [reflexivity|assumption]|]).
  split; [rewrite normalize_length; exact L3|exact Hn]. Qed.

Lemma lin_defined rt c n w : lin_valid c n -> length w = n ->
  exists r, lin_project_col rt c w = Some r /\ length r = n.
Proof. intros V L. rewrite lin_project_col_pre. destruct (lin_pre_spec c n w V L) as [w3 [E3 [L3 _]]].
  rewrite E3. eexists. split; [reflexivity|]. rewrite normalize_length. exact L3. Qed.

Lemma lin_signs rt c n w r : lin_valid c n -> length w = n -> lin_project_col rt c w = Some r ->
  forall i, (nth i (lc_monos c) 0%Z = 1%Z -> 0 <= nth i r 0) /\ (nth i (lc_monos c) 0%Z = (-1)%Z -> nth i r 0 <= 0).
Proof. intros V L E. destruct (lin_spec rt c n w r V L E) as [w3 [e [_ [_ [_ [S3 [_ [_ [_ [He [_ Hn]]]]]]]]]]].
  intros i. rewrite (Hn i). destruct (S3 i) as [A B]. split; intros Hm.
  - apply qmul_nonneg; [apply A; exact Hm|lra].
  - specialize (B Hm). pose proof (qmul_nonneg (- nth i w3 0) e ltac:(lra) ltac:(lra)). lra. Qed.

Lemma lin_mdom rt c n w r : lin_valid c n -> length w = n -> lin_project_col rt c w = Some r ->
  forall d k, In (d, k) (lc_mdom c) -> nth k r 0 <= nth d r 0.
Proof. intros V L E. destruct (lin_spec rt c n w r V L E) as [w3 [e [_ [_ [_ [_ [M3 [_ [_ [He [_ Hn]]]]]]]]]]].
  intros d k H. rewrite !Hn. apply qmul_le_r; [lra|]. apply M3; exact H. Qed.

Lemma lin_rdom rt c n w r : lin_valid c n -> length w = n -> lin_project_col rt c w = Some r ->
  forall d k, In (d, k) (lc_rdom c) ->
    scaling (nth k (lc_monos c) 0%Z) (nth k (lc_min c) None) (nth k (lc_max c) None) * nth k r 0 <=
    scaling (nth d (lc_monos c) 0%Z) (nth d (lc_min c) None) (nth d (lc_max c) None) * nth d r 0.
Proof. intros V L E. destruct (lin_spec rt c n w r V L E) as [w3 [e [_ [_ [_ [_ [_ [R3 [_ [He [_ Hn]]]]]]]]]]].
  intros d k H. fold (lin_scale c k). fold (lin_scale c d). rewrite !Hn.
  pose proof (qmul_le_r _ _ e ltac:(lra) (R3 d k H)). lra. Qed.

(* the same with the scalings written out: both inputs of a range-dominance pair
   have the same direction sg = +-1 and proper ranges [l, h] *)
Lemma lin_rdom_explicit rt c n w r : lin_valid c n -> length w = n -> lin_project_col rt c w = Some r ->
  forall d k, In (d, k) (lc_rdom c) -> exists ld hd lk hk,
    nth d (lc_min c) None = Some ld /\ nth d (lc_max c) None = Some hd /\ ld < hd /\
    nth k (lc_min c) None = Some lk /\ nth k (lc_max c) None = Some hk /\ lk < hk /\
    (nth d (lc_monos c) 0%Z = 1%Z -> (hk - lk) * nth k r 0 <= (hd - ld) * nth d r 0) /\
    (nth d (lc_monos c) 0%Z = (-1)%Z -> (hk - lk) * - nth k r 0 <= (hd - ld) * - nth d r 0).
Proof. intros V L E d k H. pose proof (lin_rdom rt c n w r V L E d k H) as R.
  destruct (lv_rdom c n V d k H) as [_ [_ [Hm [_ [[ld [hd [A1 [A2 A3]]]] [lk [hk [B1 [B2 B3]]]]]]]]].
  unfold mono in Hm. exists ld, hd, lk, hk. repeat (split; [assumption|]).
  rewrite A1, A2, B1, B2, <- Hm in R. rewrite !scaling_bounded in R by assumption.
  split; intros Hd; rewrite Hd in R; cbn [Z.eqb Pos.eqb] in R; lra. Qed.

Lemma lin_fixed rt c n w r : lin_valid c n -> length w = n -> lc_norm c = 0%nat ->
  lin_feasible c w -> lin_project_col rt c w = Some r -> peq r w.
Proof. intros V L N F E. destruct (lin_spec rt c n w r V L E) as [w3 [e [_ [Er [_ [_ [_ [_ [Fx _]]]]]]]]].
  rewrite N in Er. cbn [normalize] in Er. subst r. apply Fx. exact F. Qed.

(* ---------- the norm of the result ---------- *)
Lemma qsum_map_peq (f : Q -> Q) a b : (forall x y, x == y -> f x == f y) -> peq a b -> qsum (map f a) == qsum (map f b).
Proof. intros Hf [L H]. revert b L H. induction a as [|x a IH]; intros [|y b] L H; cbn in L; try discriminate. reflexivity.
  cbn [map qsum]. rewrite (Hf x y (H 0%nat)). rewrite (IH b). reflexivity. lia. intros k. apply (H (S k)). Qed.

Lemma normalize_small rt k w : col_norm rt (S k) w < norm_eps -> peq (normalize rt (S k) w) w.
Proof. intros H. split. apply normalize_length. intros i. rewrite normalize_nth. unfold norm_div.
  apply qlt_true in H. rewrite H. field. Qed.

Lemma normalize_l1 rt w : qsum (map qabs (normalize rt 1 w)) == 1 \/
  (qsum (map qabs w) < norm_eps /\ peq (normalize rt 1 w) w).
Proof. destruct (Qlt_le_dec (col_norm rt 1 w) norm_eps) as [H|H].
  - right. split; [exact H|]. apply normalize_small. exact H.
  - left. rewrite normalize_S. unfold norm_div. apply qlt_false in H. rewrite H. apply qlt_false in H.
    cbn [col_norm] in *. set (n := qsum (map qabs w)) in *.
    assert (Hn : 0 < n) by (unfold norm_eps in H; lra).
    rewrite map_map.
    rewrite (qsum_map_ext (fun x => qabs (Qred (x / n))) (fun x => / n * qabs x)).
    + rewrite qsum_map_scale. fold n. field. lra.
    + intros x _. rewrite Qred_correct. unfold Qdiv. rewrite qabs_mul_nonneg. lra.
      pose proof (Qinv_lt_0_compat n Hn). lra. Qed.

Definition qsq (x : Q) : Q := x * x.
Lemma qsum_sq_nonneg w : 0 <= qsum (map qsq w).
Proof. apply qsum_map_nonneg. intros x _. unfold qsq.
  destruct (Qlt_le_dec x 0). pose proof (qmul_nonneg (- x) (- x) ltac:(lra) ltac:(lra)). lra. apply qmul_nonneg; assumption. Qed.

(* The square root of the order-2 norm is an oracle: the only thing needed is
   that it is exact AT the sum of squares in question (a hypothesis "for all x"
   would be unsatisfiable over the rationals). *)
Lemma normalize_l2 rt w : rt (qsum (map qsq w)) * rt (qsum (map qsq w)) == qsum (map qsq w) ->
  qsum (map qsq (normalize rt 2 w)) == 1 \/
  (rt (qsum (map qsq w)) < norm_eps /\ peq (normalize rt 2 w) w).
Proof. intros Hsq. destruct (Qlt_le_dec (col_norm rt 2 w) norm_eps) as [H|H].
  - right. split; [exact H|]. apply normalize_small. exact H.
  - left. rewrite normalize_S. unfold norm_div. apply qlt_false in H. rewrite H. apply qlt_false in H.
    cbn [col_norm] in *. change (fun x : Q => x * x) with qsq in *.
    set (S := qsum (map qsq w)) in *. set (n := rt S) in *.
    assert (Hn : 0 < n) by (unfold norm_eps in H; lra).
    rewrite map_map.
    rewrite (qsum_map_ext (fun x => qsq (Qred (x / n))) (fun x => (/ n * / n) * qsq x)).
    + rewrite qsum_map_scale. fold S. rewrite <- Hsq. field. lra.
    + intros x _. unfold qsq. rewrite Qred_correct. field. lra. Qed.

Lemma lin_norm1 rt c n w r : lin_valid c n -> length w = n -> lc_norm c = 1%nat -> lin_project_col rt c w = Some r ->
  exists w3, lin_project_col rt (with_norm c 0) w = Some w3 /\
    (qsum (map qabs r) == 1 \/ (qsum (map qabs w3) < norm_eps /\ peq r w3)).
Proof. intros V L N E. destruct (lin_spec rt c n w r V L E) as [w3 [e [E3 [Er _]]]].
  exists w3. rewrite lin_pre_norm0. split; [exact E3|]. rewrite N in Er. subst r. apply normalize_l1. Qed.

Lemma lin_norm2 rt c n w r :
  lin_valid c n -> length w = n -> lc_norm c = 2%nat -> lin_project_col rt c w = Some r ->
  exists w3, lin_project_col rt (with_norm c 0) w = Some w3 /\
    let S := qsum (map (fun x => x * x) w3) in
    (rt S * rt S == S ->
     qsum (map (fun x => x * x) r) == 1 \/ (rt S < norm_eps /\ peq r w3)).
Proof. intros V L N E. destruct (lin_spec rt c n w r V L E) as [w3 [e [E3 [Er _]]]].
  exists w3. rewrite lin_pre_norm0. split; [exact E3|]. rewrite N in Er. subst r. cbv zeta. apply (normalize_l2 rt). Qed.

(* normalization (any order) multiplies the un-normalized result by one positive
   number, hence keeps signs and all (homogeneous) dominance inequalities *)
Lemma lin_norm_scaling rt c n w r : lin_valid c n -> length w = n -> lin_project_col rt c w = Some r ->
  exists w3 e, lin_project_col rt (with_norm c 0) w = Some w3 /\ 0 < e /\ length r = length w3 /\
    forall i, nth i r 0 == nth i w3 0 * e.
Proof. intros V L E. destruct (lin_spec rt c n w r V L E) as [w3 [e [E3 [_ [L3 [_ [_ [_ [_ [He [Lr Hn]]]]]]]]]]].
  exists w3, e. rewrite lin_pre_norm0. repeat (split; [first [assumption|congruence]|]). exact Hn. Qed.

(* weights that satisfy the constraints AND already have unit norm are a fixed
   point of the projection with normalization *)
Lemma normalize_unit rt k w : col_norm rt (S k) w == 1 -> peq (normalize rt (S k) w) w.
Proof. intros H. split. apply normalize_length. intros i. rewrite normalize_nth. unfold norm_div.
  assert (E : qlt (col_norm rt (S k) w) norm_eps = false) by (apply qlt_false; unfold norm_eps; lra).
  rewrite E, H. field. Qed.

Lemma lin_fixed_norm1 rt c n w r : lin_valid c n -> length w = n -> lc_norm c = 1%nat ->
  lin_feasible c w -> qsum (map qabs w) == 1 -> lin_project_col rt c w = Some r -> peq r w.
Proof. intros V L N F U E. destruct (lin_spec rt c n w r V L E) as [w3 [e [_ [Er [_ [_ [_ [_ [Fx _]]]]]]]]].
  specialize (Fx F). rewrite N in Er. subst r. eapply peq_trans; [|exact Fx]. apply normalize_unit.
  cbn [col_norm]. rewrite <- U. apply qsum_map_peq; [|exact Fx]. intros x y Hxy. rewrite Hxy. reflexivity. Qed.

Lemma lin_fixed_norm2 rt c n w r : (forall x, x == 1 -> rt x == 1) ->
  lin_valid c n -> length w = n -> lc_norm c = 2%nat ->
  lin_feasible c w -> qsum (map (fun x => x * x) w) == 1 -> lin_project_col rt c w = Some r -> peq r w.
Proof. intros Hrt V L N F U E. destruct (lin_spec rt c n w r V L E) as [w3 [e [_ [Er [_ [_ [_ [_ [Fx _]]]]]]]]].
  specialize (Fx F). rewrite N in Er. subst r. eapply peq_trans; [|exact Fx]. apply normalize_unit.
  cbn [col_norm]. apply Hrt. rewrite <- U. apply qsum_map_peq; [|exact Fx]. intros x y Hxy. rewrite Hxy. reflexivity. Qed.

Lemma lin_valid_with_norm c n k : lin_valid c n -> lin_valid (with_norm c k) n.
Proof. intros [A B C D E F G H I]. constructor; assumption. Qed.
Lemma lin_feasible_with_norm c k w : lin_feasible c w <-> lin_feasible (with_norm c k) w.
Proof. unfold lin_feasible, signs_ok, mdom_ok, rdom_ok, lin_scale, mono, with_norm. cbn. reflexivity. Qed.

(* ---------- multi-unit lifting: the matrix projection is the column projection of every unit ---------- *)
Lemma opt_map_all_some {A B} (f : A -> option B) l : forall r, opt_map_all f l = Some r ->
  length r = length l /\ forall i d d', (i < length l)%nat -> f (nth i l d) = Some (nth i r d').
Proof. induction l as [|a l IH]; intros r E; cbn in E.
  - inversion E. split; [reflexivity|]. intros i d d' H. cbn in H. lia.
  - fold (opt_map_all f l) in E. destruct (f a) as [b|] eqn:Fa; [|discriminate].
    destruct (opt_map_all f l) as [r'|]; [|discriminate]. inversion E; subst r.
    destruct (IH r' eq_refl) as [L H]. split; [cbn; lia|]. intros [|i] d d' Hi; cbn. exact Fa. apply H. cbn in Hi. lia. Qed.
Lemma opt_map_all_total {A B} (f : A -> option B) l : (forall a, In a l -> exists b, f a = Some b) ->
  exists r, opt_map_all f l = Some r.
Proof. induction l as [|a l IH]; intros H; cbn. eexists; reflexivity. fold (opt_map_all f l).
  destruct (H a (or_introl eq_refl)) as [b Eb]. destruct IH as [r Er]. intros x Hx; apply H; right; exact Hx.
  rewrite Eb, Er. eexists; reflexivity. Qed.

Lemma map_nth_seq (r : list Q) : map (fun i => nth i r 0) (seq 0 (length r)) = r.
Proof. induction r as [|x r IH]; cbn [length seq map nth]. reflexivity. f_equal.
  rewrite <- seq_shift, map_map. exact IH. Qed.

Lemma column_transpose u m (cols : list (list Q)) : (u < length cols)%nat ->
  column u (transpose m cols) = map (fun i => nth i (nth u cols []) 0) (seq 0 m).
Proof. intros Hu. unfold transpose, column at 1. rewrite map_map. apply map_ext. intros i. unfold column.
  rewrite nth_indep with (d' := (fun r : list Q => nth i r 0) []) by (rewrite map_length; exact Hu).
  apply (map_nth (fun r : list Q => nth i r 0)). Qed.

Lemma project_per_unit (f : list Q -> option (list Q)) units (W R : list (list Q)) u :
  match opt_map_all (fun u => f (column u W)) (seq 0 units) with
  | Some cols => Some (transpose (length W) cols) | None => None end = Some R ->
  (u < units)%nat -> exists r, f (column u W) = Some r /\ (length r = length W -> column u R = r).
Proof. intros E Hu. destruct (opt_map_all _ _) as [cols|] eqn:Ec; [|discriminate]. inversion E; subst R.
  apply opt_map_all_some in Ec. destruct Ec as [Lc Hc]. rewrite seq_length in Lc, Hc.
  specialize (Hc u 0%nat [] Hu). rewrite seq_nth in Hc by exact Hu. cbn [Nat.add] in Hc.
  exists (nth u cols []). split; [exact Hc|]. intros Lr. rewrite column_transpose by lia. rewrite <- Lr. apply map_nth_seq. Qed.

Lemma column_length u (W : list (list Q)) : length (column u W) = length W.
Proof. apply map_length. Qed.

Lemma lin_per_unit rt c units W R u : lin_valid c (length W) -> lin_project rt c units W = Some R -> (u < units)%nat ->
  exists r, lin_project_col rt c (column u W) = Some r /\ column u R = r.
Proof. intros V E Hu. destruct (project_per_unit (lin_project_col rt c) units W R u E Hu) as [r [Er Hr]].
  exists r. split; [exact Er|]. apply Hr. destruct (lin_defined rt c (length W) (column u W) V (column_length u W)) as [r' [Er' Lr']].
  congruence. Qed.
Lemma lin_matrix_defined rt c units W : lin_valid c (length W) -> exists R, lin_project rt c units W = Some R.
Proof. intros V. unfold lin_project.
  destruct (opt_map_all_total (fun u => lin_project_col rt c (column u W)) (seq 0 units)) as [cols Ec].
  - intros u _. destruct (lin_defined rt c (length W) (column u W) V (column_length u W)) as [r [Er _]]. exists r; exact Er.
  - rewrite Ec. eexists; reflexivity. Qed.

Lemma cat_length ps lo hi w r : cat_project_col ps lo hi w = Some r -> length r = length w.
Proof. intros E. apply cat_project_col_some in E. destruct E as [p [E ->]]. rewrite map_length.
  destruct ps. inversion E; reflexivity. apply po_project_some in E. destruct E as [s ->]. apply po_with_order_length. Qed.
Lemma cat_per_unit ps lo hi units W R u : cat_project ps lo hi units W = Some R -> (u < units)%nat ->
  exists r, cat_project_col ps lo hi (column u W) = Some r /\ column u R = r.
Proof. intros E Hu. destruct (project_per_unit (cat_project_col ps lo hi) units W R u E Hu) as [r [Er Hr]].
  exists r. split; [exact Er|]. apply Hr. rewrite (cat_length _ _ _ _ _ Er). apply column_length. Qed.
(* ---------- examples: the hypotheses of the theorems are satisfiable ---------- *)
(* inputs 0..3 increasing with a monotonic-dominance diamond (0 dominates 1 and 2,
   which dominate 3), inputs 4, 5 decreasing with a range dominance, input 6 free *)
Example ex_cfg : lin_cfg := mkLin [1; 1; 1; 1; -1; -1; 0]%Z [(1, 3); (0, 1); (2, 3); (0, 2)]%nat [(4, 5)]%nat
  [None; None; None; None; Some 0; Some (-1); None] [None; None; None; None; Some 2; Some 0; None] 1.
Ltac in_cases H :=
  cbn in H; repeat (destruct H as [H|H]; [inversion H; subst; clear H|]); try (destruct H).
Example ex_cfg_valid : lin_valid ex_cfg 7.
Proof. constructor.
  - reflexivity.
  - intros i. unfold mono. cbn. do 7 (destruct i as [|i]; [auto|]). destruct i; auto.
  - reflexivity.
  - reflexivity.
  - intros d k H. in_cases H; cbn; repeat split; lia.
  - intros d k H. in_cases H. cbn. repeat split; try lia; try discriminate.
    + exists 0, 2. repeat split; lra.
    + exists (-1), 0. repeat split; lra.
  - intros i [x [H|H]] [y [H'|H']]; in_cases H; in_cases H'.
  - apply (acyclic_rank _ (fun x => 10 - x)%nat). intros a b H. in_cases H; lia.
  - apply (acyclic_rank _ (fun x => 10 - x)%nat). intros a b H. in_cases H; lia. Qed.
Example ex_w : list Q := [1; 3; -2; 4; 1; -3; 5].
Example ex_run : lin_project_col qsqrt ex_cfg ex_w = Some [17 # 124; 17 # 124; 4 # 31; 4 # 31; -3 # 62; -3 # 31; 10 # 31].
Proof. vm_compute. reflexivity. Qed.
Example ex_feasible_w : list Q := [4; 2; 3; 1; -1; -1; 5].
Example ex_feasible : lin_feasible (with_norm ex_cfg 0) ex_feasible_w.
Proof. split; [|split].
  - intros i. unfold mono. cbn. do 7 (destruct i as [|i]; [split; intros; try discriminate; lra|]). destruct i; split; intros; discriminate.
  - intros d k H. in_cases H; cbn; lra.
  - intros d k H. in_cases H. vm_compute. discriminate. Qed.
Example ex_cat_run : cat_project_col diamond (Some 0) (Some 2) [3; 1; 2; -1] = Some [9 # 8; 9 # 8; 9 # 8; 9 # 8].
Proof. vm_compute. reflexivity. Qed.
Example ex_cat_feasible : feasible diamond [0; 1; 2; 3] /\ (forall x, In x [0; 1; 2; 3] -> within (Some 0) (Some 3) x).
Proof. split.
  - intros i j H. in_cases H; cbn; lra.
  - intros x H. in_cases H; split; intros b E; inversion E; subst; lra. Qed.
Example ex_cat_in_range : pairs_in_range diamond [3; 1; 2; -1].
Proof. intros i j H. in_cases H; cbn; lia. Qed.

(* a feasible unit-L1-norm vector, a feasible unit-L2-norm vector, and a root
   oracle that is exact where the order-2 theorems need it *)
Example ex_unit1 : lin_feasible ex_cfg (map (fun x => x / 17) ex_feasible_w) /\ qsum (map qabs (map (fun x => x / 17) ex_feasible_w)) == 1.
Proof. split; [split; [|split]|].
  - intros i. unfold mono. cbn. do 7 (destruct i as [|i]; [split; intros; try discriminate; vm_compute; discriminate|]). destruct i; split; intros; discriminate.
  - intros d k H. in_cases H; vm_compute; discriminate.
  - intros d k H. in_cases H. vm_compute. discriminate.
  - vm_compute. reflexivity. Qed.
Example ex_rt (x : Q) : Q := if Qeq_bool x 25 then 5 else 1.
Example ex_w2 : list Q := [3; 1; 1; 0; -1; -2; 3].
Example ex_norm2_oracle : exists w3, lin_project_col ex_rt (with_norm (with_norm ex_cfg 2) 0) ex_w2 = Some w3 /\
  ex_rt (qsum (map (fun x => x * x) w3)) * ex_rt (qsum (map (fun x => x * x) w3)) == qsum (map (fun x => x * x) w3).
Proof. eexists. split; [vm_compute; reflexivity|vm_compute; reflexivity]. Qed.
Example ex_rt_one : forall x, x == 1 -> ex_rt x == 1.
Proof. intros x H. unfold ex_rt. destruct (Qeq_bool x 25) eqn:E; [|reflexivity]. apply Qeq_bool_eq in E. lra. Qed.
Example ex_unit2 : lin_feasible (with_norm ex_cfg 2) (map (fun x => x / 5) ex_w2) /\
  qsum (map (fun x => x * x) (map (fun x => x / 5) ex_w2)) == 1.
Proof. split; [split; [|split]|].
  - intros i. unfold mono. cbn. do 7 (destruct i as [|i]; [split; intros; try discriminate; vm_compute; discriminate|]). destruct i; split; intros; discriminate.
  - intros d k H. in_cases H; vm_compute; discriminate.
  - intros d k H. in_cases H. vm_compute. discriminate.
  - vm_compute. reflexivity. Qed.
(* a 2-unit matrix for the lifting lemma *)
Example ex_matrix : exists R, lin_project qsqrt ex_cfg 2 (map (fun x => [x; - x]) ex_w) = Some R.
Proof. apply lin_matrix_defined. apply ex_cfg_valid. Qed.
