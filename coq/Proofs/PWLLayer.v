(* "Hence monotone / bounded at every input" for the LAYER call forms of
   PWLCalibration (one input column or one per unit, cyclic closing height,
   missing-value imputation included) and for CategoricalCalibration, and the
   output structure of CategoricalCalibration (split_outputs). *)
From TFL Require Import Model.PWLEval Model.CategoricalEval Proofs.PWLEval.
Open Scope Q_scope.

(* ---------- PWLCalibration: the calibration part of call() per unit ---------- *)
(* row forms accepted by call(): one column, or one column per unit *)
Definition row_ok (L : pwl_layer) (row : list Q) : Prop := length row = 1%nat \/ length row = p_units L.

Lemma col_of_lt L row u : (u < p_units L)%nat -> row_ok L row -> (col_of (length row) u < length row)%nat.
Proof. intros Hu [H|H]; unfold col_of; rewrite H. cbn. lia. destruct (p_units L =? 1)%nat; lia. Qed.

(* whichever form, unit u's output is its function at the entry it reads *)
Lemma calib_row_unit L row u : (u < p_units L)%nat -> row_ok L row ->
  nth u (calib_row L row) 0 = unit_fn L u (nth (col_of (length row) u) row 0).
Proof. intros Hu [H|H].
  - destruct row as [|x [|? ?]]; cbn in H; try lia. cbn [length]. unfold col_of. cbn [Nat.eqb nth].
    apply calib_row_single. exact Hu.
  - rewrite calib_row_per_unit by assumption. unfold col_of. rewrite H.
    destruct (Nat.eqb_spec (p_units L) 1) as [E|E]; [|reflexivity]. assert (u = 0%nat) by lia. subst u. reflexivity. Qed.

(* keypoint outputs of unit u, closing height of a cyclic layer included *)
Definition unit_outs (L : pwl_layer) (u : nat) : list Q := kp_outs (column u (bias_and_heights L)).

Definition nondecr (l : list Q) : Prop := forall j, (S j < length l)%nat -> nth j l 0 <= nth (S j) l 0.
Definition nonincr (l : list Q) : Prop := forall j, (S j < length l)%nat -> nth (S j) l 0 <= nth j l 0.

Lemma kp_outs_length col : length (kp_outs col) = length col.
Proof. unfold kp_outs. apply cumsum_incl_length. Qed.

(* without cyclic closing the keypoint outputs are what keypoints_outputs() reports *)
Lemma unit_outs_reported L u : p_cyclic L = false -> unit_outs L u = keypoints_outputs_col L u.
Proof. intros Hc. unfold unit_outs, keypoints_outputs_col, kp_outs. rewrite column_bh_plain by exact Hc. rewrite Hc. reflexivity. Qed.

(* monotone keypoint outputs => the layer's calibration output of unit u is monotone in the entry unit u reads,
   for EVERY pair of rows of the same accepted form *)
Theorem layer_calib_monotone L u row row' : (u < p_units L)%nat -> row_ok L row -> length row' = length row ->
  Forall (fun l => 0 < l) (unit_lens L u) ->
  nth (col_of (length row) u) row 0 <= nth (col_of (length row) u) row' 0 ->
  (nondecr (unit_outs L u) -> nth u (calib_row L row) 0 <= nth u (calib_row L row') 0) /\
  (nonincr (unit_outs L u) -> nth u (calib_row L row') 0 <= nth u (calib_row L row) 0).
Proof. intros Hu Hr Hl Hp Hxy.
  assert (Hr' : row_ok L row') by (unfold row_ok in *; rewrite Hl; exact Hr).
  rewrite !calib_row_unit by assumption. rewrite Hl. unfold unit_fn.
  split; intros Hs.
  - apply pwl_monotone_function; try assumption. intros j Hj. apply Hs. unfold unit_outs. rewrite kp_outs_length. exact Hj.
  - apply pwl_antitone_function; try assumption. intros j Hj. apply Hs. unfold unit_outs. rewrite kp_outs_length. exact Hj. Qed.

(* ---------- call() per row: imputation ---------- *)
(* unit u's entry is not treated as missing by call_row L row given *)
Definition not_missing (L : pwl_layer) (row : list Q) (given : option (list Q)) (u : nat) : Prop :=
  if p_impute L then
    match given with
    | Some m => nth (col_of (length m) u) m 0 == 0
    | None => match p_missing_input L with
              | Some v => ~ nth (col_of (length row) u) row 0 == v
              | None => True
              end
    end
  else True.

Lemma call_row_not_missing L row given u : (u < p_units L)%nat -> row_ok L row -> not_missing L row given u ->
  nth u (call_row L row given) 0 == nth u (calib_row L row) 0.
Proof. intros Hu Hr Hn. unfold not_missing in Hn. destruct (p_impute L) eqn:Hi.
  - destruct given as [m|].
    + apply (missing_flag_given L row m u Hi Hu). exact Hn.
    + destruct (p_missing_input L) as [v|] eqn:Hv.
      * apply (missing_by_value L row v u Hi Hv Hu (col_of_lt L row u Hu Hr)). exact Hn.
      * unfold call_row. rewrite Hi, Hv. reflexivity.
  - unfold call_row. rewrite Hi. reflexivity. Qed.

(* monotone keypoint outputs => the LAYER output (call_row: imputation switched on or off, flags given or
   derived from missing_input_value) is monotone over every pair of non-missing inputs *)
Theorem layer_call_monotone L u row row' given given' : (u < p_units L)%nat -> row_ok L row -> length row' = length row ->
  Forall (fun l => 0 < l) (unit_lens L u) ->
  not_missing L row given u -> not_missing L row' given' u ->
  nth (col_of (length row) u) row 0 <= nth (col_of (length row) u) row' 0 ->
  (nondecr (unit_outs L u) -> nth u (call_row L row given) 0 <= nth u (call_row L row' given') 0) /\
  (nonincr (unit_outs L u) -> nth u (call_row L row' given') 0 <= nth u (call_row L row given) 0).
Proof. intros Hu Hr Hl Hp Hn Hn' Hxy.
  assert (Hr' : row_ok L row') by (unfold row_ok in *; rewrite Hl; exact Hr).
  rewrite (call_row_not_missing L row given u Hu Hr Hn), (call_row_not_missing L row' given' u Hu Hr' Hn').
  apply layer_calib_monotone; assumption. Qed.

(* bounded keypoint outputs => bounded calibration output, every row of an accepted form *)
Theorem layer_calib_bounded L u row e lo hi : (u < p_units L)%nat -> row_ok L row ->
  segments (unit_lefts L u) (unit_lens L u) e ->
  length (column u (bias_and_heights L)) = S (length (unit_lefts L u)) ->
  (forall y, In y (unit_outs L u) -> lo <= y <= hi) ->
  lo <= nth u (calib_row L row) 0 <= hi.
Proof. intros Hu Hr Hs Hc Hb. rewrite calib_row_unit by assumption. unfold unit_fn.
  apply (pwl_bounded_function _ _ e); assumption. Qed.

Lemma mix_bounds lo hi t a b : 0 <= t -> t <= 1 -> lo <= a -> a <= hi -> lo <= b -> b <= hi ->
  lo <= t * a + (1 - t) * b /\ t * a + (1 - t) * b <= hi.
Proof. intros.
  pose proof (qmul_nonneg t (a - lo) ltac:(lra) ltac:(lra)). pose proof (qmul_nonneg (1 - t) (b - lo) ltac:(lra) ltac:(lra)).
  pose proof (qmul_nonneg t (hi - a) ltac:(lra) ltac:(lra)). pose proof (qmul_nonneg (1 - t) (hi - b) ltac:(lra) ltac:(lra)).
  split; lra. Qed.

(* ... and, when the missing output of the unit lies in the same interval, bounded LAYER output at EVERY
   input, missing ones included (is_missing flags anywhere in [0, 1]: the code mixes linearly) *)
Theorem layer_call_bounded L u row given e lo hi : (u < p_units L)%nat -> row_ok L row ->
  segments (unit_lefts L u) (unit_lens L u) e ->
  length (column u (bias_and_heights L)) = S (length (unit_lefts L u)) ->
  (forall y, In y (unit_outs L u) -> lo <= y <= hi) ->
  (p_impute L = true -> lo <= nth u (p_missing_output L) 0 <= hi) ->
  (forall m, given = Some m -> 0 <= nth (col_of (length m) u) m 0 <= 1) ->
  lo <= nth u (call_row L row given) 0 <= hi.
Proof. intros Hu Hr Hs Hc Hb Hm Hf.
  pose proof (layer_calib_bounded L u row e lo hi Hu Hr Hs Hc Hb) as [B1 B2].
  unfold call_row. destruct (p_impute L) eqn:Hi; [|split; assumption].
  destruct (Hm eq_refl) as [M1 M2].
  destruct given as [m|].
  - rewrite nth_mix_row by assumption. cbn zeta. fold (col_of (length m) u).
    destruct (Hf m eq_refl) as [F1 F2]. apply mix_bounds; assumption.
  - destruct (p_missing_input L) as [v|]; [|split; assumption].
    rewrite nth_mix_row by assumption. cbn zeta. rewrite equal_flags_length. fold (col_of (length row) u).
    rewrite nth_equal_flags by (apply (col_of_lt L); assumption).
    destruct (Qeq_bool (nth (col_of (length row) u) row 0) v); apply mix_bounds; try assumption; lra. Qed.

(* ---------- CategoricalCalibration ---------- *)
Definition cat_row_ok (L : cat_layer) (row : list Q) : Prop :=
  (length row = 1%nat \/ length row = c_units L) .

Lemma cat_col_of_lt L row u : (u < c_units L)%nat -> cat_row_ok L row ->
  (col_of (length row) u < length row)%nat /\ (c_units L = 1%nat -> length row = 1%nat).
Proof. intros Hu [H|H]; unfold col_of; rewrite H; split; try (cbn; lia); try (intros; congruence).
  destruct (c_units L =? 1)%nat; lia. Qed.

(* the output of unit u is the bucket value of the (default-replaced) index it reads, when that is a bucket *)
Lemma cat_row_value L row u : (u < c_units L)%nat -> cat_row_ok L row ->
  (0 <= cat_index L row u < Z.of_nat (c_buckets L))%Z ->
  nth u (cat_row L row) 0 == nth (Z.to_nat (cat_index L row u)) (column u (c_kernel L)) 0.
Proof. intros Hu Hr Hi. destruct (cat_col_of_lt L row u Hu Hr) as [Hc H1].
  rewrite cat_row_unit by assumption. apply dot_one_hot_in. exact Hi. Qed.

(* the index is a bucket when the category is in range or is default_input_value *)
Lemma cat_index_in_range L row u : (0 < c_buckets L)%nat ->
  (0 <= cast_int (nth (col_of (length row) u) row 0%Q) < Z.of_nat (c_buckets L))%Z \/
  c_default L = Some (cast_int (nth (col_of (length row) u) row 0%Q)) ->
  (0 <= cat_index L row u < Z.of_nat (c_buckets L))%Z.
Proof. intros Hb H. unfold cat_index, replace_default. destruct (c_default L) as [d|].
  - destruct (Z.eqb_spec (cast_int (nth (col_of (length row) u) row 0%Q)) d) as [E|E]. lia.
    destruct H as [H|H]. exact H. congruence.
  - destruct H as [H|H]. exact H. discriminate. Qed.

(* category values ordered along a pair (a, b) => the function is ordered on every pair of inputs selecting
   a and b (default_input_value selects the last bucket) *)
Theorem categorical_monotone L u row row' a b : (u < c_units L)%nat -> cat_row_ok L row -> cat_row_ok L row' ->
  (a < c_buckets L)%nat -> (b < c_buckets L)%nat ->
  cat_index L row u = Z.of_nat a -> cat_index L row' u = Z.of_nat b ->
  nth u (nth a (c_kernel L) []) 0 <= nth u (nth b (c_kernel L) []) 0 ->
  nth u (cat_row L row) 0 <= nth u (cat_row L row') 0.
Proof. intros Hu Hr Hr' Ha Hb Ia Ib Hk.
  rewrite (cat_row_value L row u Hu Hr) by (rewrite Ia; lia). rewrite (cat_row_value L row' u Hu Hr') by (rewrite Ib; lia).
  rewrite Ia, Ib, !Nat2Z.id, !nth_column. exact Hk. Qed.

(* bucket values of unit u all in [lo, hi] => the function is in [lo, hi] on every in-range or default input *)
Theorem categorical_bounded L u row lo hi : (u < c_units L)%nat -> cat_row_ok L row -> (0 < c_buckets L)%nat ->
  (forall k, (k < c_buckets L)%nat -> lo <= nth u (nth k (c_kernel L) []) 0 <= hi) ->
  (0 <= cast_int (nth (col_of (length row) u) row 0%Q) < Z.of_nat (c_buckets L))%Z \/
  c_default L = Some (cast_int (nth (col_of (length row) u) row 0%Q)) ->
  lo <= nth u (cat_row L row) 0 <= hi.
Proof. intros Hu Hr Hb Hk Hi. pose proof (cat_index_in_range L row u Hb Hi) as Hin.
  rewrite (cat_row_value L row u Hu Hr Hin). rewrite nth_column. apply Hk. lia. Qed.

(* output structure of call(): one [batch, units] matrix, or - units > 1 and split_outputs - one [batch, 1]
   matrix per unit holding that unit's column; the units == 1 branch returns before split_outputs is read *)
Theorem cat_call_structure L inputs :
  let res := map (cat_row L) inputs in
  (c_units L = 1%nat -> cat_call L inputs = [res]) /\
  (c_units L <> 1%nat -> c_split L = false -> cat_call L inputs = [res]) /\
  (c_units L <> 1%nat -> c_split L = true ->
     length (cat_call L inputs) = c_units L /\
     forall u, (u < c_units L)%nat ->
       nth u (cat_call L inputs) [] = map (fun r => [nth u r 0]) res /\
       forall p, (p < length inputs)%nat ->
         nth p (nth u (cat_call L inputs) []) [] = [nth u (cat_row L (nth p inputs [])) 0]).
Proof. intros res. unfold cat_call. fold res. split; [|split].
  - intros E. rewrite E. reflexivity.
  - intros E Hs. apply Nat.eqb_neq in E. rewrite E, Hs. reflexivity.
  - intros E Hs. apply Nat.eqb_neq in E. rewrite E, Hs. split. rewrite map_length, seq_length. reflexivity.
    intros u Hu.
    assert (En : nth u (map (fun u0 => map (fun r => [nth u0 r 0]) res) (seq 0 (c_units L))) [] = map (fun r => [nth u r 0]) res)
      by (apply (nth_map_seq (fun u0 => map (fun r => [nth u0 r 0]) res) (c_units L) u [] Hu)).
    split. exact En. intros p Hp. rewrite En. unfold res. rewrite map_map.
    rewrite nth_indep with (d' := (fun r => [nth u (cat_row L r) 0]) []) by (rewrite map_length; exact Hp).
    rewrite (map_nth (fun r => [nth u (cat_row L r) 0]) inputs [] p). reflexivity. Qed.

(* ---------- non-vacuity ---------- *)
(* a two-unit layer with imputation whose unit-1 keypoint outputs 0, 2, 3 are non-decreasing and in [0, 6],
   missing output 6 *)
Definition mono_layer : pwl_layer :=
  build_fixed 2 [0; 1; 3] false [[1#2; 0]; [1; 2]; [-(2); 1]] true (Some (-(1))) None [5; 6] false.
Example mono_layer_hyps :
  row_ok mono_layer [1#2] /\ row_ok mono_layer [1#2; 2] /\
  Forall (fun l => 0 < l) (unit_lens mono_layer 1) /\ nondecr (unit_outs mono_layer 1) /\
  segments (unit_lefts mono_layer 1) (unit_lens mono_layer 1) 3 /\
  length (column 1 (bias_and_heights mono_layer)) = S (length (unit_lefts mono_layer 1)) /\
  (forall y, In y (unit_outs mono_layer 1) -> 0 <= y <= 6) /\
  0 <= nth 1 (p_missing_output mono_layer) 0 <= 6 /\
  not_missing mono_layer [1#2] None 1 /\ not_missing mono_layer [5; 1#2] (Some [1; 0]) 1.
Proof. unfold row_ok. cbn. repeat split; try (left; reflexivity); try (right; reflexivity); try lra.
  all: try (repeat constructor; lra).
  all: try (intros [|[|j]] H; cbn in *; try lia; lra).
  all: try (destruct H as [<-|[<-|[<-|[]]]]; lra).
  all: try (intros E; vm_compute in E; discriminate).
  all: try (vm_compute; reflexivity). Qed.
Example mono_layer_values :
  map Qred (call_row mono_layer [1#2] None) = [1; 1] /\ map Qred (call_row mono_layer [2] None) = [1#2; 5#2] /\
  map Qred (call_row mono_layer [-(1)] None) = [5; 6].
Proof. vm_compute. repeat split. Qed.

(* example_cat: buckets 3, units 2, kernel [[1;2];[3;4];[5;6]], default -1 *)
Example cat_mono_hyps :
  cat_row_ok example_cat [1] /\ cat_row_ok example_cat [0; -(1)] /\
  cat_index example_cat [1] 1 = Z.of_nat 1 /\ cat_index example_cat [0; -(1)] 1 = Z.of_nat 2 /\
  nth 1 (nth 1 (c_kernel example_cat) []) 0 <= nth 1 (nth 2 (c_kernel example_cat) []) 0 /\
  (forall k, (k < c_buckets example_cat)%nat -> 1 <= nth 1 (nth k (c_kernel example_cat) []) 0 <= 6).
Proof. unfold cat_row_ok. repeat split; try (left; reflexivity); try (right; reflexivity); try (vm_compute; congruence).
  - destruct k as [|[|[|k]]]; cbn in *; try lia; lra.
  - destruct k as [|[|[|k]]]; cbn in *; try lia; lra. Qed.
Example cat_split_example :
  map (map (map Qred)) (cat_call (mkCat 3 2 [[1; 2]; [3; 4]; [5; 6]] (Some (-1)%Z) true) [[1]; [-(1)]]) = [[[3]; [5]]; [[4]; [6]]].
Proof. vm_compute. reflexivity. Qed.
