(* C10: statements of Props/C10.v whose proofs need a few lines of glue
   (argument order, conjunction packaging). *)
From TFL Require Import Model.LatticeInit Model.PWLInit Model.KFLInit
     Proofs.LatticeInit Proofs.LatticeInitFixed Proofs.LatticeInitWitness Proofs.PWLInit Proofs.KFLInit
     Proofs.CategoricalInit.
From Coq Require Import Permutation.
Open Scope Q_scope.

Lemma pack_C10_refuted_random_ignores_other_constraints :
  exists order samples,
    Forall2 (@Permutation idx) order (levels [3; 2]%nat) /\
    (forall a b, (a <= b)%nat -> (b < length samples)%nat -> nth a samples 0 <= nth b samples 0) /\
    length samples = length (concat order) /\ (forall x, In x samples -> 0 <= x /\ x <= 5) /\
    ~ unimodal_holds [3; 2; 1]%nat 0%nat 1%Z (random_mono_init [3; 2]%nat 1 order samples) /\
    ~ trapezoid_holds [3; 2; 1]%nat (0%nat, 1%nat, 1%Z) (random_mono_init [3; 2]%nat 1 order samples).
Proof. exists d24_order, d24_samples. destruct d24_oracle_ok as (H1 & H2 & H3 & H4).
  exact (conj H1 (conj H2 (conj H3 (conj H4 (conj d24_refuted_unimodality d24_refuted_trapezoid))))). Qed.

Lemma pack_C10_pwl_init : forall nk omin omax mono kps,
  omin <= omax -> (2 <= nk)%nat -> kps_ok nk kps ->
  let col := pwl_linear_init_col nk omin omax mono kps in
  let vals := pwl_keypoint_values col in
  let dec := (mono =? -1)%Z in
  length col = nk /\
  (forall h, In h (tl col) -> if dec then h <= 0 else 0 <= h) /\
  nth 0 vals 0 == (if dec then omax else omin) /\
  nth (nk - 1) vals 0 == (if dec then omin else omax) /\
  (forall v, In v vals -> omin <= v /\ v <= omax).
Proof. intros nk omin omax mono kps Hb Hn Hk. cbv zeta. split; [|split; [|split; [|split]]].
  - eapply col_length; eassumption.
  - eapply col_direction; eassumption.
  - eapply vals_first; eassumption.
  - eapply vals_last; eassumption.
  - eapply vals_range; eassumption. Qed.

Lemma pack_C10_kfl_init_kernel : forall any_mono mono scale samples lo hi,
  ~ scale == 0 -> (forall s, In s samples -> lo <= s /\ s <= hi) ->
  let c := kfl_init_col any_mono mono scale samples in
  length c = length samples /\ (forall x, In x c -> lo <= x /\ x <= hi) /\
  (any_mono = true -> mono = true -> forall i, (S i < length c)%nat ->
     qsign scale * nth i c 0 <= qsign scale * nth (S i) c 0).
Proof. intros any_mono mono scale samples lo hi Hs Hr. cbv zeta. split; [|split].
  - eapply kfl_col_length; eassumption.
  - eapply kfl_col_in_range; eassumption.
  - intros Ha Hm i Hi. eapply kfl_col_sorted; eassumption. Qed.

Lemma pack_C10_kfl_init_monotone_bounded :
  (forall s vs d v', (forall x, In x vs -> 0 <= x) -> (d < length vs)%nat ->
     qsign s * nth d vs 0 <= qsign s * v' -> s * qprod vs <= s * qprod (set_nth d v' vs)) /\
  (forall scales bias tv tv',
     qsum (map2 (fun s vs => s * qprod vs) scales tv) <= qsum (map2 (fun s vs => s * qprod vs) scales tv') ->
     kfl_unit_out scales bias tv <= kfl_unit_out scales bias tv') /\
  (forall units terms omin omax scales bias tv,
     (1 <= terms)%nat -> In scales (kfl_scale_init units terms omin omax) -> In bias (kfl_bias_init units omin omax) ->
     length tv = terms -> (forall vs x, In vs tv -> In x vs -> 0 <= x /\ x <= 1) ->
     (forall a b, omin = Some a -> omax = Some b -> a <= b) ->
     (forall a, omin = Some a -> a <= kfl_unit_out scales bias tv) /\
     (forall b, omax = Some b -> kfl_unit_out scales bias tv <= b)).
Proof. exact (conj kfl_term_mono (conj kfl_out_mono kfl_out_bounded)). Qed.

Lemma pack_C10_linear_range_dominance_holds : forall sizes omin omax monos unis units dm wk,
  let rank := length sizes in
  let em := lin_eff_monos sizes (zeros_if_none rank monos) (zeros_if_none rank unis) in
  (forall s, In s sizes -> (2 <= s)%nat) ->
  (dm < rank)%nat -> (wk < rank)%nat -> dm <> wk -> nz (nth dm em 0%Z) = true -> nz (nth wk em 0%Z) = true ->
  range_dominance_holds (sizes ++ [units]) (dm, wk) (linear_init sizes omin omax monos unis units).
Proof. intros; eapply linear_range_dominance; eassumption. Qed.

Lemma pack_C10_linear_trapezoid_guarded : forall sizes omin omax monos unis units m c dir,
  let rank := length sizes in
  let zu := zeros_if_none rank unis in
  let em := lin_eff_monos sizes (zeros_if_none rank monos) zu in
  omin <= omax -> (forall s, In s sizes -> (2 <= s)%nat) ->
  (m < rank)%nat -> (c < rank)%nat -> m <> c -> nz (nth c em 0%Z) = false -> nz (nth c zu 0%Z) = false ->
  trapezoid_holds (sizes ++ [units]) (m, c, dir) (linear_init sizes omin omax monos unis units).
Proof. intros; eapply linear_trapezoid_free_cond; eassumption. Qed.

Lemma pack_C10_linear_monotonic_dominance_guarded : forall sizes omin omax monos unis units dm wk,
  let rank := length sizes in
  let em := lin_eff_monos sizes (zeros_if_none rank monos) (zeros_if_none rank unis) in
  omin <= omax -> (forall s, In s sizes -> (2 <= s)%nat) ->
  (dm < rank)%nat -> (wk < rank)%nat -> dm <> wk -> nz (nth dm em 0%Z) = true -> nz (nth wk em 0%Z) = true ->
  (nth dm sizes 0 <= nth wk sizes 0)%nat ->
  mono_dominance_holds (sizes ++ [units]) (dm, wk) (linear_init sizes omin omax monos unis units).
Proof. intros; eapply linear_mono_dominance; eassumption. Qed.

Lemma pack_C10_linear_joint_monotonicity_guarded : forall sizes omin omax monos unis units d1 d2,
  let rank := length sizes in
  let zu := zeros_if_none rank unis in
  let em := lin_eff_monos sizes (zeros_if_none rank monos) zu in
  omin <= omax -> (forall s, In s sizes -> (2 <= s)%nat) ->
  (d1 < rank)%nat -> (d2 < rank)%nat -> d1 <> d2 ->
  (nz (nth d1 em 0%Z) = true \/ nz (nth d1 zu 0%Z) = false) ->
  (nz (nth d2 em 0%Z) = true \/ nz (nth d2 zu 0%Z) = false) ->
  joint_mono_holds (sizes ++ [units]) (d1, d2) (linear_init sizes omin omax monos unis units).
Proof. intros; eapply linear_joint_mono; eassumption. Qed.

