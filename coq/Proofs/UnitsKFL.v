(* C09 for KroneckerFactoredLattice (Model/KFL.v): the kernel constraint, the
   scale constraint, finalize_constraints and every history of them act on
   unit u of multi-unit parameters exactly as they act on unit u's parameters
   alone; the output of unit u reads unit u's parameters and unit u's input row
   only.

   Layout.  The implementation's kernel (L, units*dims, terms) is reshaped to
   (L, units, dims, terms), unit-major on the third axis; the model's [unpack]
   does that.  kfl_unpack_unit below: unpacking the dims rows u*dims ..
   u*dims+dims-1 of the implementation kernel as a ONE-unit kernel gives unit u
   of the unpacked multi-unit kernel, so the single-unit model that the tie
   runs on that slice (Harness/H_C09.v, CKfl) is the unit_params of the
   theorems. *)
From TFL Require Import Model.KFL Model.KFLUnits Proofs.KFL.
Open Scope Q_scope.

(* ---------- restriction to one unit ---------- *)
(* unit u exists in kernel and scale *)
Definition has_unit (p : params) (u : nat) : Prop :=
  (u < length (p_kern p))%nat /\ (u < length (p_scale p))%nat.

Lemma nth_map_nil {A B} (g : list A -> list B) (l : list (list A)) u : g [] = [] -> nth u (map g l) [] = g (nth u l []).
Proof. intros H. rewrite <- H at 1. apply map_nth. Qed.

(* ---------- single constraint functions ---------- *)
Lemma finalize_weights_unit root ms omin omax scale k u : (u < length scale)%nat -> (u < length k)%nat ->
  [nth u (finalize_weights root ms omin omax scale k) []] =
  finalize_weights root ms omin omax [nth u scale []] [nth u k []].
Proof. intros Hs Hk. unfold finalize_weights. cbn [map2].
  rewrite (nth_map2 _ scale k u [] [] []) by assumption. reflexivity. Qed.

Lemma finalize_weights_length root ms omin omax scale k :
  length (finalize_weights root ms omin omax scale k) = Nat.min (length scale) (length k).
Proof. unfold finalize_weights. apply map2_length. Qed.

Lemma kfl_constraints_call_unit root c scale k u : (u < length scale)%nat -> (u < length k)%nat ->
  [nth u (kfl_constraints_call root c scale k) []] = kfl_constraints_call root c [nth u scale []] [nth u k []].
Proof. intros Hs Hk. unfold kfl_constraints_call. cbv zeta.
  destruct ((0 <? num_constraint_dims (canon_monos (c_monos c)))%nat || is_some (c_min c) || is_some (c_max c)).
  - apply finalize_weights_unit; assumption.
  - reflexivity. Qed.
Lemma kfl_constraints_call_length root c scale k : (length k <= length scale)%nat ->
  length (kfl_constraints_call root c scale k) = length k.
Proof. intros H. unfold kfl_constraints_call. cbv zeta. destruct (_ || _ || _); [|reflexivity].
  rewrite finalize_weights_length. lia. Qed.
Lemma kfl_constraints_call_has root c scale k u : (u < length scale)%nat -> (u < length k)%nat ->
  (u < length (kfl_constraints_call root c scale k))%nat.
Proof. intros Hs Hk. unfold kfl_constraints_call. cbv zeta. destruct (_ || _ || _); [|exact Hk].
  rewrite finalize_weights_length. lia. Qed.

Lemma kernel_variable_constraint_unit root c scale k u : (u < length scale)%nat -> (u < length k)%nat ->
  [nth u (kernel_variable_constraint root c scale k) []] = kernel_variable_constraint root c [nth u scale []] [nth u k []].
Proof. intros Hs Hk. unfold kernel_variable_constraint. destruct (_ || _); [apply kfl_constraints_call_unit; assumption|reflexivity]. Qed.
Lemma kernel_variable_constraint_has root c scale k u : (u < length scale)%nat -> (u < length k)%nat ->
  (u < length (kernel_variable_constraint root c scale k))%nat.
Proof. intros Hs Hk. unfold kernel_variable_constraint. destruct (_ || _); [apply kfl_constraints_call_has; assumption|exact Hk]. Qed.

Lemma scale_constraints_call_unit c scale u :
  [nth u (scale_constraints_call c scale) []] = scale_constraints_call c [nth u scale []].
Proof. unfold scale_constraints_call. destruct (has_bounds c); [|reflexivity]. cbn [map].
  rewrite (nth_map_nil (map (finalize_scale1 (c_min c) (c_max c))) scale u eq_refl). reflexivity. Qed.
Lemma scale_constraints_call_length c scale : length (scale_constraints_call c scale) = length scale.
Proof. unfold scale_constraints_call. destruct (has_bounds c); [apply map_length|reflexivity]. Qed.
Lemma scale_variable_constraint_unit c scale u :
  [nth u (scale_variable_constraint c scale) []] = scale_variable_constraint c [nth u scale []].
Proof. unfold scale_variable_constraint. destruct (has_bounds c); [apply scale_constraints_call_unit|reflexivity]. Qed.
Lemma scale_variable_constraint_length c scale : length (scale_variable_constraint c scale) = length scale.
Proof. unfold scale_variable_constraint. destruct (has_bounds c); [apply scale_constraints_call_length|reflexivity]. Qed.

Lemma scale_constraints_unit c scale u :
  [nth u (scale_variable_constraint c scale) []] = scale_variable_constraint c [nth u scale []] /\
  [nth u (scale_constraints_call c scale) []] = scale_constraints_call c [nth u scale []].
Proof. split; [apply scale_variable_constraint_unit|apply scale_constraints_call_unit]. Qed.

(* ---------- one step, a history ---------- *)
Theorem apply_step_unit root c p st u : has_unit p u ->
  unit_params (apply_step root c p st) u = apply_step root c (unit_params p u) st /\ has_unit (apply_step root c p st) u.
Proof. intros [Hk Hs]. destruct st; unfold apply_step, unit_params, has_unit; cbn [p_kern p_scale p_bias].
  - rewrite kernel_variable_constraint_unit by assumption. split; [reflexivity|].
    split; [apply kernel_variable_constraint_has; assumption|exact Hs].
  - rewrite scale_variable_constraint_unit. split; [reflexivity|].
    split; [exact Hk|rewrite scale_variable_constraint_length; exact Hs].
  - rewrite kfl_constraints_call_unit by assumption. rewrite scale_constraints_call_unit. split; [reflexivity|].
    split; [apply kfl_constraints_call_has; assumption|rewrite scale_constraints_call_length; exact Hs]. Qed.

Theorem run_unit root c steps : forall p u, has_unit p u ->
  unit_params (run root c steps p) u = run root c steps (unit_params p u).
Proof. unfold run. induction steps as [|st steps IH]; intros p u H; cbn [fold_left]. reflexivity.
  destruct (apply_step_unit root c p st u H) as [E H']. rewrite IH by exact H'. rewrite E. reflexivity. Qed.

Lemma run_has_unit root c steps : forall p u, has_unit p u -> has_unit (run root c steps p) u.
Proof. unfold run. induction steps as [|st steps IH]; intros p u H; cbn [fold_left]. exact H.
  apply IH. apply (apply_step_unit root c p st u H). Qed.

(* ---------- permuting / selecting units ---------- *)
Lemma select_units_unit s n p u : (u < n)%nat -> unit_params (select_units s n p) u = unit_params p (s u).
Proof. intros Hu. unfold unit_params, select_units. cbn [p_kern p_scale p_bias].
  rewrite (nth_map_seq (fun u => nth (s u) (p_kern p) []) n u [] Hu).
  rewrite (nth_map_seq (fun u => nth (s u) (p_scale p) []) n u [] Hu).
  rewrite (nth_map_seq (fun u => nth (s u) (p_bias p) 0) n u 0 Hu). reflexivity. Qed.
Lemma select_units_has s n p u : (u < n)%nat -> has_unit (select_units s n p) u.
Proof. intros Hu. unfold has_unit, select_units. cbn [p_kern p_scale]. rewrite !map_length, seq_length. split; exact Hu. Qed.

(* s need not be a bijection: any selection / duplication / reordering of units *)
Theorem run_select_units root c steps p s n u : (u < n)%nat -> has_unit p (s u) ->
  unit_params (run root c steps (select_units s n p)) u = unit_params (run root c steps p) (s u).
Proof. intros Hu Hs. rewrite run_unit by (apply select_units_has; exact Hu). rewrite run_unit by exact Hs.
  rewrite select_units_unit by exact Hu. reflexivity. Qed.

(* ---------- outputs ---------- *)
Theorem unit_out_local c p p' u xs :
  nth u (p_kern p) [] = nth u (p_kern p') [] -> nth u (p_scale p) [] = nth u (p_scale p') [] ->
  nth u (p_bias p) 0 = nth u (p_bias p') 0 -> unit_out c p u xs = unit_out c p' u xs.
Proof. intros Ek Es Eb. unfold unit_out. rewrite Ek, Es, Eb. reflexivity. Qed.

Theorem unit_out_unit_params c p u xs : unit_out c p u xs = unit_out c (unit_params p u) 0 xs.
Proof. reflexivity. Qed.

(* the layer's output vector: entry u is the unit function of unit u on row u of the input *)
Theorem layer_out_unit c p xss u : (u < length (p_scale p))%nat ->
  nth u (layer_out c p xss) 0 = unit_out c p u (nth u xss []).
Proof. intros Hu. unfold layer_out. exact (nth_map_seq (fun u => unit_out c p u (nth u xss [])) (length (p_scale p)) u 0 Hu). Qed.

(* constraints then output: unit u of the constrained multi-unit layer is the
   constrained single-unit layer made of unit u's parameters *)
Theorem constrained_unit_out root c steps p u xs : has_unit p u ->
  unit_out c (run root c steps p) u xs = unit_out c (run root c steps (unit_params p u)) 0 xs.
Proof. intros H. rewrite unit_out_unit_params. rewrite run_unit by exact H. reflexivity. Qed.

(* entry u of the constrained layer's output depends on unit u's initial
   parameters and on row u of the input only *)
Theorem constrained_layer_out_local root c steps p p' xss xss' u : has_unit p u -> has_unit p' u ->
  unit_params p u = unit_params p' u -> nth u xss [] = nth u xss' [] ->
  nth u (layer_out c (run root c steps p) xss) 0 = nth u (layer_out c (run root c steps p') xss') 0.
Proof. intros H H' E Ex.
  rewrite (layer_out_unit c (run root c steps p) xss u) by (apply (run_has_unit root c steps p u H)).
  rewrite (layer_out_unit c (run root c steps p') xss' u) by (apply (run_has_unit root c steps p' u H')).
  rewrite (constrained_unit_out root c steps p u _ H), (constrained_unit_out root c steps p' u _ H').
  rewrite E, Ex. reflexivity. Qed.

(* ---------- batches ---------- *)
(* the layer is applied to every batch row (one list of unit rows per example)
   on its own; there is no other place where the batch enters the model *)
Theorem batch_out_row c p X i : (i < length X)%nat ->
  nth i (batch_out c p X) [] = layer_out c p (nth i X []).
Proof. intros Hi. unfold batch_out. rewrite nth_indep with (d' := layer_out c p []) by (rewrite map_length; exact Hi).
  apply map_nth. Qed.

(* any selection / permutation / sub-batch of rows: outputs are selected the same way *)
Theorem batch_out_select c p X (sel : list nat) : (forall i, In i sel -> (i < length X)%nat) ->
  batch_out c p (map (fun i => nth i X []) sel) = map (fun i => nth i (batch_out c p X) []) sel.
Proof. intros H. unfold batch_out at 1. rewrite map_map. apply map_ext_in. intros i Hi.
  rewrite batch_out_row by (apply H; exact Hi). reflexivity. Qed.

(* ---------- implementation layout ---------- *)
Lemma nth_skipn_plus {A} (l : list A) : forall m d x, nth d (skipn m l) x = nth (m + d) l x.
Proof. induction l as [|a l IH]; intros [|m] d x; cbn [skipn Nat.add]; try reflexivity.
  - destruct d; reflexivity.
  - cbn [nth]. apply IH. Qed.
Lemma nth_firstn_lt {A} : forall n (l : list A) d x, (d < n)%nat -> nth d (firstn n l) x = nth d l x.
Proof. induction n as [|n IH]; intros [|a l] [|d] x H; cbn; try lia; try reflexivity. apply IH. lia. Qed.

Theorem unpack_unit L units dims terms k u : (u < units)%nat ->
  [nth u (unpack L units dims terms k) []] = unpack L 1 dims terms (slice_unit dims u k).
Proof. intros Hu. unfold unpack at 1.
  rewrite nth_map_seq by exact Hu.
  unfold unpack. change (seq 0 1) with [0%nat]. cbn [map].
  f_equal. apply map_ext. intros t. apply map_ext_in. intros d Hd. apply in_seq in Hd. apply map_ext. intros i.
  cbn [Nat.mul Nat.add]. unfold slice_unit.
  set (g := fun rows : list (list Q) => firstn dims (skipn (u * dims) rows)).
  assert (Eg : nth i (map g k) [] = g (nth i k [])).
  { destruct (Nat.lt_ge_cases i (length k)) as [Hi|Hi].
    - rewrite nth_indep with (d' := g []) by (rewrite map_length; exact Hi). apply map_nth.
    - rewrite (nth_overflow k) by exact Hi. rewrite nth_overflow by (rewrite map_length; exact Hi).
      unfold g. destruct (u * dims)%nat; destruct dims; reflexivity. }
  rewrite Eg. unfold g. rewrite nth_firstn_lt by lia. rewrite nth_skipn_plus. reflexivity. Qed.

(* the statement the tie executes: the single-unit model on the slice of the
   implementation kernel is unit u of the multi-unit model on the whole kernel *)
Theorem run_on_slice root c steps L units dims terms k s b u : (u < units)%nat -> (u < length s)%nat ->
  run root c steps (mkPar (unpack L 1 dims terms (slice_unit dims u k)) [nth u s []] [nth u b 0]) =
  unit_params (run root c steps (mkPar (unpack L units dims terms k) s b)) u.
Proof. intros Hu Hs. rewrite run_unit.
  - unfold unit_params at 1. cbn [p_kern p_scale p_bias]. rewrite unpack_unit by exact Hu. reflexivity.
  - split; cbn [p_kern p_scale]; [|exact Hs]. unfold unpack. rewrite map_length, seq_length. exact Hu. Qed.

(* ---------- example: three units whose results differ ---------- *)
Example exk_cfg : config := mkCfg 3 (Some [true; false]) (Some 0) (Some 2) true.
Example exk_par : params := mkPar
  [ [[[1; 3; 2]; [0; 4; 1]]; [[2; -(1); 5]; [1; 1; 1]]];
    [[[100; 300; 200]; [0; 400; 100]]; [[2; 1; 0]; [-(3); 2; 1]]];
    [[[1 # 8; 0; 1 # 4]; [1; 2; 3]]; [[0; 0; 1]; [1 # 2; 1 # 2; 1 # 2]]] ]
  [[1; -(2)]; [5; 1 # 2]; [-(1); 0]] [1; 1; 1].
Example exk_has : forall u, (u < 3)%nat -> has_unit exk_par u.
Proof. intros u Hu. split; cbn; exact Hu. Qed.
Example exk_units_differ :
  let r := run qroot exk_cfg [StepK; StepS; StepF] exk_par in
  nth 0 (p_kern r) [] <> nth 0 (p_kern exk_par) [] /\ nth 0 (p_kern r) [] <> nth 1 (p_kern r) [] /\
  unit_params r 1 = run qroot exk_cfg [StepK; StepS; StepF] (unit_params exk_par 1).
Proof. cbv zeta. split; [|split].
  - vm_compute. discriminate.
  - vm_compute. discriminate.
  - apply run_unit. apply exk_has. lia. Qed.
