(* What a passing assert_constraints MEANS for the layer FUNCTION (property C12,
   "closing the loop"): the weights accepted by the assert models of
   Model/Asserts.v, fed to the forward-pass models of the other properties
     Lattice                   Model/LatticeInterp.v  (C02: hypercube and simplex)
     KroneckerFactoredLattice  Model/KFL.v            (C07)
     Linear                    Model/LinearEval.v     (C20)
     PWLCalibration            Model/PWLEval.v        (C05)
     CategoricalCalibration    Model/CategoricalEval.v (C05)
   give a monotone / bounded / dominance-respecting function.  The other
   developments are referred to through module aliases (their vocabularies
   overlap: unit_fn, interp_w, dot, qprod, kfl_feasible ...). *)
From TFL Require Import Model.Asserts Proofs.Asserts Proofs.LatticeMono.
From TFL Require Proofs.LatticeInterp Proofs.KFL Proofs.Premade Proofs.PremadeKFL.
From TFL Require Proofs.LinearEval Proofs.PWLEval Model.CategoricalEval.
Module MLI := TFL.Model.LatticeInterp.
Module PLH := TFL.Proofs.LatticeHyper.
Module PLI := TFL.Proofs.LatticeInterp.
Module MK := TFL.Model.KFL.
Module PK := TFL.Proofs.KFL.
Module PMK := TFL.Proofs.PremadeKFL.
Module PM := TFL.Proofs.Premade.
Module MLE := TFL.Model.LinearEval.
Module PLE := TFL.Proofs.LinearEval.
Module MPE := TFL.Model.PWLEval.
Module PPE := TFL.Proofs.PWLEval.
Module MCE := TFL.Model.CategoricalEval.
Open Scope Q_scope.

(* ====================================================================== *)
(* 1. Lattice                                                               *)
(* ====================================================================== *)
(* The layer stores the kernel as a matrix Kmat[vertex][unit]; the assert
   reshapes its row-major flattening [concat Kmat] to sizes ++ [units]. *)
Lemma am_prod_snoc sh n : fold_right Nat.mul 1%nat (sh ++ [n]) = (fold_right Nat.mul 1%nat sh * n)%nat.
Proof. induction sh as [|s sh IH]; cbn [app fold_right]. lia. rewrite IH. lia. Qed.
Lemma am_flat_snoc sh i n u : valid sh i -> flat (sh ++ [n]) (i ++ [u]) = (flat sh i * n + u)%nat.
Proof. induction 1; cbn [app flat]. cbn. lia. rewrite IHvalid, am_prod_snoc. lia. Qed.

Lemma kmat_represents sizes units Kmat : Forall (fun r => length r = units) Kmat ->
  PM.represents sizes units Kmat (of_list (sizes ++ [units]) (concat Kmat)).
Proof. intros HF i u Hi Hu. unfold PLI.kern, of_list. rewrite memo_ok by exact Hi.
  rewrite memo_ok by (apply PM.valid_app_unit; assumption). rewrite am_flat_snoc by exact Hi.
  rewrite PLI.nth_column. rewrite (PLI.nth_concat units u Hu Kmat _ HF). reflexivity. Qed.

(* both interpolation schemes: bounds of the kernel column are bounds of the output *)
Lemma unit_fn_bounds sc tensor clip units sizes Kmat u x lo hi : sizes <> [] -> PLH.sizes_ok sizes ->
  PLI.wfK units Kmat u -> PLH.ok_input clip sizes x ->
  (forall i, valid sizes i -> lo <= PLI.kern sizes Kmat u i /\ PLI.kern sizes Kmat u i <= hi) ->
  lo <= MLI.unit_fn sc tensor clip units sizes Kmat u x /\ MLI.unit_fn sc tensor clip units sizes Kmat u x <= hi.
Proof. intros Hne Hs Hw Hx HK. destruct sc.
  - rewrite PLI.unit_fn_hyper by (try assumption; apply Hx). apply PLH.hyper_bounds; assumption.
  - rewrite PLI.unit_fn_simplex.
    exact (PLI.simplex_bounds clip sizes _ _ x lo hi Hs (PLI.gather_gk units sizes Kmat u Hw) Hx HK). Qed.

Lemma unit_fn_monotone sc tensor clip units sizes Kmat u x d yd : PLH.sizes_ok sizes ->
  PLI.wfK units Kmat u -> (d < length sizes)%nat ->
  PLH.ok_input clip sizes x -> PLH.ok_input clip sizes (set_nth d yd x) -> nth d x 0 <= yd ->
  PLH.knondecr sizes (PLI.kern sizes Kmat u) d ->
  MLI.unit_fn sc tensor clip units sizes Kmat u x <= MLI.unit_fn sc tensor clip units sizes Kmat u (set_nth d yd x).
Proof. intros Hs Hw Hd Hx Hy Hle HK. destruct sc.
  - apply PLI.L_hyper_monotone; assumption.
  - apply PLI.L_simplex_monotone; assumption. Qed.

Section LatticeAssert.
Variable c : la_cfg.
Variable Kmat : list (list Q).
Variable eps : Q.
Hypothesis Hok : la_ok c.
Hypothesis Hrows : Forall (fun r => length r = a_units c) Kmat.
Hypothesis He : 0 <= eps.
Hypothesis Hpass : assert_lattice_flat c (concat Kmat) eps = true.

Let W := of_list (a_shape c) (concat Kmat).
Lemma am_slack : forall q, covered c q -> - eps <= slack c W q.
Proof. apply (lattice_exact c W eps Hok He). exact Hpass. Qed.

Lemma am_kern u i : (u < a_units c)%nat -> valid (a_sizes c) i -> PLI.kern (a_sizes c) Kmat u i == W (i ++ [u]).
Proof. intros Hu Hi. exact (kmat_represents (a_sizes c) (a_units c) Kmat Hrows i u Hi Hu). Qed.

(* every kernel step along a monotone dimension is >= - eps, for every unit *)
Lemma assert_kern_step u d i : (u < a_units c)%nat -> (d < length (a_monos c))%nat -> nth d (a_monos c) 0%Z = 1%Z ->
  valid (a_sizes c) i -> (S (nth d i 0%nat) < nth d (a_sizes c) 0%nat)%nat ->
  PLI.kern (a_sizes c) Kmat u i - eps <= PLI.kern (a_sizes c) Kmat u (upd i d (S (nth d i 0%nat))).
Proof. intros Hu Hd Em Hi Hb. destruct Hok as (_ & Hlen & _).
  pose proof (valid_length _ _ Hi) as Li.
  rewrite (am_kern u i Hu Hi). rewrite (am_kern u _ Hu (upd_valid _ _ _ _ Hi Hb)).
  assert (Hcov : covered c (IMono d (i ++ [u]))).
  { cbn [covered]. split; [exact Hd|]. split; [exact Em|]. split.
    - apply PM.valid_app_unit; assumption.
    - unfold a_shape. rewrite !app_nth1 by lia. exact Hb. }
  pose proof (am_slack _ Hcov) as G. cbn [slack] in G. rewrite app_nth1 in G by lia.
  rewrite PM.upd_app_unit in G by lia. lra. Qed.

Lemma assert_kern_lower u i lo : (u < a_units c)%nat -> a_min c = Some lo -> valid (a_sizes c) i ->
  lo - eps <= PLI.kern (a_sizes c) Kmat u i.
Proof. intros Hu El Hi. rewrite (am_kern u i Hu Hi).
  assert (Hcov : covered c (ILower (i ++ [u]))).
  { cbn [covered]. split; [rewrite El; discriminate|]. apply PM.valid_app_unit; assumption. }
  pose proof (am_slack _ Hcov) as G. cbn [slack] in G. rewrite El in G. lra. Qed.
Lemma assert_kern_upper u i hi : (u < a_units c)%nat -> a_max c = Some hi -> valid (a_sizes c) i ->
  PLI.kern (a_sizes c) Kmat u i <= hi + eps.
Proof. intros Hu El Hi. rewrite (am_kern u i Hu Hi).
  assert (Hcov : covered c (IUpper (i ++ [u]))).
  { cbn [covered]. split; [rewrite El; discriminate|]. apply PM.valid_app_unit; assumption. }
  pose proof (am_slack _ Hcov) as G. cbn [slack] in G. rewrite El in G. lra. Qed.

(* the layer output stays inside [output_min - eps, output_max + eps] *)
Lemma lattice_assert_bounded sc tensor clip u x : a_sizes c <> [] -> PLH.sizes_ok (a_sizes c) ->
  length Kmat = MLI.prodn (a_sizes c) -> (u < a_units c)%nat -> PLH.ok_input clip (a_sizes c) x ->
  (forall lo, a_min c = Some lo -> lo - eps <= MLI.unit_fn sc tensor clip (a_units c) (a_sizes c) Kmat u x) /\
  (forall hi, a_max c = Some hi -> MLI.unit_fn sc tensor clip (a_units c) (a_sizes c) Kmat u x <= hi + eps).
Proof. intros Hne Hs Hl Hu Hx. assert (Hw : PLI.wfK (a_units c) Kmat u) by (split; assumption).
  pose proof (PLI.kern_minmax (a_sizes c) Kmat u Hl) as Hmm. split.
  - intros lo El.
    apply (unit_fn_bounds sc tensor clip (a_units c) (a_sizes c) Kmat u x (lo - eps) (qmaxl (column u Kmat)) Hne Hs Hw Hx).
    intros i Hi. split; [exact (assert_kern_lower u i lo Hu El Hi)|apply Hmm; exact Hi].
  - intros hi Eh.
    apply (unit_fn_bounds sc tensor clip (a_units c) (a_sizes c) Kmat u x (qminl (column u Kmat)) (hi + eps) Hne Hs Hw Hx).
    intros i Hi. split; [apply Hmm; exact Hi|exact (assert_kern_upper u i hi Hu Eh Hi)]. Qed.
(* Edgeworth trust (main m, conditional cd, direction +): the kernel's slope along
   m is non-decreasing in cd (up to eps), for every unit: PLH.kedge when eps = 0 *)
Lemma assert_kern_edge u m cd i : (u < a_units c)%nat -> In (m, cd, 1%Z) (a_edge c) -> valid (a_sizes c) i ->
  (S (nth m i 0%nat) < nth m (a_sizes c) 0%nat)%nat -> (S (nth cd i 0%nat) < nth cd (a_sizes c) 0%nat)%nat ->
  PLI.kern (a_sizes c) Kmat u (upd i m (S (nth m i 0%nat))) - PLI.kern (a_sizes c) Kmat u i - eps <=
  PLI.kern (a_sizes c) Kmat u (upd (upd i cd (S (nth cd i 0%nat))) m (S (nth m i 0%nat))) -
  PLI.kern (a_sizes c) Kmat u (upd i cd (S (nth cd i 0%nat))).
Proof. intros Hu Hin Hi Hbm Hbc. pose proof (valid_length _ _ Hi) as Li.
  assert (Hm : (m < length (a_sizes c))%nat).
  { destruct (Nat.lt_ge_cases m (length (a_sizes c))) as [H|H]; [exact H|]. rewrite (nth_overflow (a_sizes c) 0%nat H) in Hbm. lia. }
  assert (Hc : (cd < length (a_sizes c))%nat).
  { destruct (Nat.lt_ge_cases cd (length (a_sizes c))) as [H|H]; [exact H|]. rewrite (nth_overflow (a_sizes c) 0%nat H) in Hbc. lia. }
  assert (Hne : m <> cd).
  { destruct Hok as (_ & _ & Ht & _). apply (Ht m cd 1%Z). apply in_or_app. left. exact Hin. }
  set (im := nth m i 0%nat) in *. set (ic := nth cd i 0%nat) in *.
  pose proof (upd_valid _ _ m (S im) Hi Hbm) as V1. pose proof (upd_valid _ _ cd (S ic) Hi Hbc) as V2.
  assert (V3 : valid (a_sizes c) (upd (upd i cd (S ic)) m (S im))) by (apply upd_valid; assumption).
  rewrite (am_kern u i Hu Hi), (am_kern u _ Hu V1), (am_kern u _ Hu V2), (am_kern u _ Hu V3).
  assert (Hcov : covered c (IEdge (m, cd, 1%Z) (i ++ [u]) im ic)).
  { cbn [covered fst snd]. split; [exact Hin|]. split; [apply PM.valid_app_unit; assumption|].
    unfold a_shape. rewrite !app_nth1 by lia. split; assumption. }
  pose proof (am_slack _ Hcov) as G. cbn [slack] in G. unfold tsign in G. cbn in G. unfold esq, at2 in G.
  assert (E1 : upd (i ++ [u]) m im = i ++ [u]).
  { rewrite PM.upd_app_unit by lia. subst im. rewrite upd_self. reflexivity. }
  assert (E2 : upd (i ++ [u]) cd ic = i ++ [u]).
  { rewrite PM.upd_app_unit by lia. subst ic. rewrite upd_self. reflexivity. }
  assert (E3 : upd (upd (i ++ [u]) m (S im)) cd ic = upd i m (S im) ++ [u]).
  { rewrite PM.upd_app_unit by lia. rewrite PM.upd_app_unit by (rewrite upd_length; lia).
    replace ic with (nth cd (upd i m (S im)) 0%nat) by (subst ic; apply nth_upd_other; exact Hne). rewrite upd_self. reflexivity. }
  assert (E4 : upd (upd (i ++ [u]) m (S im)) cd (S ic) = upd (upd i cd (S ic)) m (S im) ++ [u]).
  { rewrite PM.upd_app_unit by lia. rewrite PM.upd_app_unit by (rewrite upd_length; lia). rewrite (upd_comm i m cd) by exact Hne. reflexivity. }
  assert (E5 : upd (upd (i ++ [u]) m im) cd (S ic) = upd i cd (S ic) ++ [u]).
  { rewrite E1. apply PM.upd_app_unit. lia. }
  rewrite E3, E4, E5, E1, E2 in G. lra. Qed.
End LatticeAssert.

(* eps = 0: monotone along every monotone input, every pair of admissible
   points, both schemes, every unit; and inside [output_min, output_max] *)
Theorem lattice_assert_meaning c Kmat sc tensor clip u :
  la_ok c -> PLH.sizes_ok (a_sizes c) -> length Kmat = MLI.prodn (a_sizes c) ->
  Forall (fun r => length r = a_units c) Kmat -> (u < a_units c)%nat ->
  assert_lattice_flat c (concat Kmat) 0 = true ->
  (forall d x yd, (d < length (a_monos c))%nat -> nth d (a_monos c) 0%Z = 1%Z ->
     PLH.ok_input clip (a_sizes c) x -> PLH.ok_input clip (a_sizes c) (set_nth d yd x) -> nth d x 0 <= yd ->
     MLI.unit_fn sc tensor clip (a_units c) (a_sizes c) Kmat u x <=
     MLI.unit_fn sc tensor clip (a_units c) (a_sizes c) Kmat u (set_nth d yd x)) /\
  (a_sizes c <> [] -> forall x, PLH.ok_input clip (a_sizes c) x ->
     (forall lo, a_min c = Some lo -> lo <= MLI.unit_fn sc tensor clip (a_units c) (a_sizes c) Kmat u x) /\
     (forall hi, a_max c = Some hi -> MLI.unit_fn sc tensor clip (a_units c) (a_sizes c) Kmat u x <= hi)).
Proof. intros Hok Hs Hl Hrows Hu Hpass. assert (He : 0 <= 0) by lra. split.
  - intros d x yd Hd Em Hx Hy Hle. pose proof Hok as (_ & Hlen & _).
    apply unit_fn_monotone; try assumption. split; assumption. lia.
    intros i Hi Hb. pose proof (assert_kern_step c Kmat 0 Hok Hrows He Hpass u d i Hu Hd Em Hi Hb). lra.
  - intros Hne x Hx.
    destruct (lattice_assert_bounded c Kmat 0 Hok Hrows He Hpass sc tensor clip u x Hne Hs Hl Hu Hx) as [A B].
    split; [intros lo El; specialize (A lo El)|intros hi Eh; specialize (B hi Eh)]; lra. Qed.

(* Edgeworth trust with direction + (eps = 0): the effect of raising the main
   input m is non-decreasing in the conditional input cd (hypercube
   interpolation; conclusion of C02_hyper_edgeworth_effect) *)
Theorem lattice_assert_edgeworth_effect c Kmat tensor clip u m cd x ym yc :
  la_ok c -> PLH.sizes_ok (a_sizes c) -> Forall (fun r => length r = a_units c) Kmat -> (u < a_units c)%nat ->
  assert_lattice_flat c (concat Kmat) 0 = true -> In (m, cd, 1%Z) (a_edge c) ->
  (m < length (a_sizes c))%nat -> (cd < length (a_sizes c))%nat ->
  PLH.ok_input clip (a_sizes c) x -> PLH.ok_input clip (a_sizes c) (set_nth m ym x) ->
  PLH.ok_input clip (a_sizes c) (set_nth cd yc x) -> PLH.ok_input clip (a_sizes c) (set_nth m ym (set_nth cd yc x)) ->
  nth m x 0 <= ym -> nth cd x 0 <= yc ->
  MLI.unit_fn MLI.Hypercube tensor clip (a_units c) (a_sizes c) Kmat u (set_nth m ym x) -
  MLI.unit_fn MLI.Hypercube tensor clip (a_units c) (a_sizes c) Kmat u x <=
  MLI.unit_fn MLI.Hypercube tensor clip (a_units c) (a_sizes c) Kmat u (set_nth m ym (set_nth cd yc x)) -
  MLI.unit_fn MLI.Hypercube tensor clip (a_units c) (a_sizes c) Kmat u (set_nth cd yc x).
Proof. intros Hok Hs Hrows Hu Hpass Hin Hm Hc Hx Hxm Hxc Hxmc Lm Lc.
  assert (Hne : m <> cd).
  { destruct Hok as (_ & _ & Ht & _). apply (Ht m cd 1%Z). apply in_or_app. left. exact Hin. }
  apply PLI.L_hyper_edgeworth; try assumption.
  intros i Hi Hbm Hbc. pose proof (assert_kern_edge c Kmat 0 Hok Hrows ltac:(lra) Hpass u m cd i Hu Hin Hi Hbm Hbc). lra. Qed.

(* any eps >= 0: the bounds hold up to eps *)
Theorem lattice_assert_eps_bounded c Kmat eps sc tensor clip u x :
  la_ok c -> PLH.sizes_ok (a_sizes c) -> a_sizes c <> [] -> length Kmat = MLI.prodn (a_sizes c) ->
  Forall (fun r => length r = a_units c) Kmat -> (u < a_units c)%nat -> 0 <= eps ->
  assert_lattice_flat c (concat Kmat) eps = true -> PLH.ok_input clip (a_sizes c) x ->
  (forall lo, a_min c = Some lo -> lo - eps <= MLI.unit_fn sc tensor clip (a_units c) (a_sizes c) Kmat u x) /\
  (forall hi, a_max c = Some hi -> MLI.unit_fn sc tensor clip (a_units c) (a_sizes c) Kmat u x <= hi + eps).
Proof. intros Hok Hs Hne Hl Hrows Hu He Hpass Hx.
  exact (lattice_assert_bounded c Kmat eps Hok Hrows He Hpass sc tensor clip u x Hne Hs Hl Hu Hx). Qed.

(* the C01 configuration record: passing = C01-feasible kernel tensor, and the
   function consequences in the C01 vocabulary (mono_dims) *)
Lemma cfg_valid_sizes_ok c : cfg_valid c -> PLH.sizes_ok (l_sizes c).
Proof. intros (Hs & _). apply Forall_forall. exact Hs. Qed.

Theorem lattice_assert_la_of_meaning c Kmat sc tensor clip u :
  cfg_valid c -> length Kmat = MLI.prodn (l_sizes c) ->
  Forall (fun r => length r = l_units c) Kmat -> (u < l_units c)%nat ->
  assert_lattice (la_of c) (of_list (l_shape c) (concat Kmat)) 0 = true ->
  feasible_kernel c (of_list (l_shape c) (concat Kmat)) /\
  (forall d x yd, In d (mono_dims (l_monos c)) ->
     PLH.ok_input clip (l_sizes c) x -> PLH.ok_input clip (l_sizes c) (set_nth d yd x) -> nth d x 0 <= yd ->
     MLI.unit_fn sc tensor clip (l_units c) (l_sizes c) Kmat u x <=
     MLI.unit_fn sc tensor clip (l_units c) (l_sizes c) Kmat u (set_nth d yd x)) /\
  (l_sizes c <> [] -> forall x, PLH.ok_input clip (l_sizes c) x ->
     (forall lo, l_min c = Some lo -> lo <= MLI.unit_fn sc tensor clip (l_units c) (l_sizes c) Kmat u x) /\
     (forall hi, l_max c = Some hi -> MLI.unit_fn sc tensor clip (l_units c) (l_sizes c) Kmat u x <= hi)).
Proof. intros Hc Hl Hrows Hu Hpass. split.
  - apply (assert_zero_iff_feasible c _ Hc). exact Hpass.
  - pose proof (lattice_assert_meaning (la_of c) Kmat sc tensor clip u (la_of_ok c Hc) (cfg_valid_sizes_ok c Hc) Hl Hrows Hu Hpass)
      as [A B]. split; [|exact B].
    intros d x yd Hd. apply mono_dims_spec in Hd. destruct Hd as [Hdl Hne]. apply A. exact Hdl.
    destruct Hc as (_ & _ & _ & Hm & _). destruct (Hm _ (nth_In (l_monos c) 0%Z Hdl)) as [E|E]; [|exact E].
    cbn [la_of a_monos]. congruence. Qed.

(* non-vacuity: 2 x 3 lattice, 2 units, both inputs monotone, bounds [0, 9] *)
Definition am_lat : lat_cfg := mkLat [2%nat; 3%nat] 2 [1%Z; 1%Z] [] [] (Some 0) (Some 9).
Definition am_K : list (list Q) := [[0; 5]; [1; 5]; [3; 6]; [1; 6]; [2; 7]; [9#2; 9]].
Example am_lat_valid : cfg_valid am_lat.
Proof. unfold cfg_valid, all_trusts. cbn [am_lat l_sizes l_units l_monos l_edge l_trap l_min l_max app].
  split. intros s [<-|[<-|[]]]; lia. split. lia. split. reflexivity. split.
  intros m [<-|[<-|[]]]; auto. split. intros t []. split. intros t1 t2 []. split. intros t1 t2 []. lra. Qed.
Example am_lat_hyps : cfg_valid am_lat /\ length am_K = MLI.prodn (l_sizes am_lat) /\
  Forall (fun r => length r = l_units am_lat) am_K /\ (1 < l_units am_lat)%nat /\
  assert_lattice (la_of am_lat) (of_list (l_shape am_lat) (concat am_K)) 0 = true /\
  In 1%nat (mono_dims (l_monos am_lat)) /\
  PLH.ok_input false (l_sizes am_lat) [1#2; 1#2] /\ PLH.ok_input false (l_sizes am_lat) (set_nth 1 (3#2) [1#2; 1#2]) /\
  PLH.ok_input true (l_sizes am_lat) [5; -(1)].
Proof. split; [exact am_lat_valid|]. split; [reflexivity|]. split; [repeat constructor|]. split; [cbn; lia|].
  split; [vm_compute; reflexivity|]. split; [cbn; auto|].
  assert (R : forall a b, 0 <= a /\ a <= 1 -> 0 <= b /\ b <= 2 -> PLH.inr (l_sizes am_lat) [a; b]).
  { intros a b Ha Hb. constructor; [unfold TFL.Model.Interp1D.qn, inject_Z; cbn; lra|]. constructor; [unfold TFL.Model.Interp1D.qn, inject_Z; cbn; lra|constructor]. }
  split; [split; [reflexivity|right; apply R; lra]|]. split; [split; [reflexivity|right; apply R; lra]|].
  split; [reflexivity|left; reflexivity]. Qed.

(* ====================================================================== *)
(* 2. KroneckerFactoredLattice                                              *)
(* ====================================================================== *)
(* The assert's view (kernel tensor K [keypoint; unit; dim; term] of shape
   k_shape, scale Sc[unit][term]) as the parameters of the C07 model
   (kernel[u][t][d][i]); [MK.unpack] is the same map from the nested list. *)
Definition kfl_mono_flags (c : kfl_acfg) : list bool := map (fun m => negb (m =? 0)%Z) (k_monos c).
Definition kfl_cfg_of (c : kfl_acfg) (clip : bool) : MK.config :=
  MK.mkCfg (k_L c) (match k_monos c with [] => None | _ => Some (kfl_mono_flags c) end) (k_min c) (k_max c) clip.
Definition kfl_term_of (c : kfl_acfg) (K : tens) (u t : nat) : MK.term :=
  map (fun d => map (fun i => K [i; u; d; t]) (seq 0 (k_L c))) (seq 0 (k_dims c)).
Definition kfl_kernel_of (c : kfl_acfg) (K : tens) : MK.kernel :=
  map (fun u => map (fun t => kfl_term_of c K u t) (seq 0 (k_terms c))) (seq 0 (k_units c)).
Definition kfl_scale_of (c : kfl_acfg) (Sc : list (list Q)) : list (list Q) :=
  map (fun u => map (fun t => sc_at Sc u t) (seq 0 (k_terms c))) (seq 0 (k_units c)).
Definition kfl_params_of (c : kfl_acfg) (Sc : list (list Q)) (K : tens) (bias : list Q) : MK.params :=
  MK.mkPar (kfl_kernel_of c K) (kfl_scale_of c Sc) bias.

Lemma kfl_kernel_of_unpack c (k : list (list (list Q))) :
  kfl_kernel_of c (fun i => match i with [i; u; d; t] => nth t (nth (u * k_dims c + d) (nth i k []) []) 0 | _ => 0 end) =
  MK.unpack (k_L c) (k_units c) (k_dims c) (k_terms c) k.
Proof. reflexivity. Qed.

(* a well-shaped scale matrix is its own image *)
Lemma map_seq_nth_id {A} (l : list A) (d : A) n : length l = n -> map (fun i => nth i l d) (seq 0 n) = l.
Proof. intros <-. induction l as [|a l IH]. reflexivity. cbn [length seq map nth]. f_equal.
  rewrite <- seq_shift, map_map. exact IH. Qed.
Lemma kfl_scale_of_id c Sc : length Sc = k_units c -> Forall (fun r => length r = k_terms c) Sc -> kfl_scale_of c Sc = Sc.
Proof. intros Hl HF. unfold kfl_scale_of, sc_at.
  transitivity (map (fun u => nth u Sc []) (seq 0 (k_units c))); [|apply map_seq_nth_id; exact Hl].
  apply map_ext_in. intros u Hu. apply in_seq in Hu. apply map_seq_nth_id.
  rewrite Forall_forall in HF. apply HF. apply nth_In. lia. Qed.

(* what verify_hyperparameters / build guarantee *)
Definition kfl_cfg_ok (c : kfl_acfg) : Prop :=
  (2 <= k_L c)%nat /\ (1 <= k_dims c)%nat /\ (k_monos c = [] \/ length (k_monos c) = k_dims c) /\
  (forall lo hi, k_min c = Some lo -> k_max c = Some hi -> lo < hi).
(* exactly one bound: the assert itself requires weights >= 0 *)
Definition kfl_one_sided (c : kfl_acfg) : Prop :=
  (k_min c <> None /\ k_max c = None) \/ (k_min c = None /\ k_max c <> None).
(* NOT checked by the assert with no bound or two bounds: the 1-D factors of
   every term with a non-zero scale are non-negative (the projection
   establishes it by clipping at 0 before sorting) *)
Definition kfl_weights_nonneg (c : kfl_acfg) (Sc : list (list Q)) (K : tens) : Prop :=
  forall u t d i, (u < k_units c)%nat -> (t < k_terms c)%nat -> (d < k_dims c)%nat -> (i < k_L c)%nat ->
    ~ sc_at Sc u t == 0 -> 0 <= K [i; u; d; t].
(* NOT checked by the assert: the bias of a bounded layer has its fixed value *)
Definition kfl_bias_fixed (c : kfl_acfg) (bias : list Q) : Prop :=
  (k_min c <> None \/ k_max c <> None) -> Forall (fun b => b == MK.bias_init1 (k_min c) (k_max c)) bias.

Lemma am_qprod_eq l : qprod l = MK.qprod l.
Proof. induction l as [|x l IH]; cbn [qprod MK.qprod]; congruence. Qed.
Lemma Forall2_map_seq {A B} (P : A -> B -> Prop) (f : nat -> A) (g : nat -> B) n :
  (forall i, (i < n)%nat -> P (f i) (g i)) -> Forall2 P (map f (seq 0 n)) (map g (seq 0 n)).
Proof. assert (G : forall n s, (forall i, (s <= i < s + n)%nat -> P (f i) (g i)) -> Forall2 P (map f (seq s n)) (map g (seq s n))).
  { clear. induction n as [|n IH]; intros s H; cbn [seq map]; constructor. apply H; lia. apply IH. intros i Hi. apply H; lia. }
  intros H. apply G. intros i Hi. apply H. lia. Qed.
Lemma Forall2_nth_intro {A B} (P : A -> B -> Prop) da db : forall a b, length a = length b ->
  (forall i, (i < length a)%nat -> P (nth i a da) (nth i b db)) -> Forall2 P a b.
Proof. induction a as [|x a IH]; intros [|y b] Hl H; cbn in Hl; try discriminate; constructor.
  exact (H 0%nat ltac:(cbn; lia)). apply IH. lia. intros i Hi. exact (H (S i) ltac:(cbn; lia)). Qed.
Lemma sorted_nth v : (forall j, (S j < length v)%nat -> nth j v 0 <= nth (S j) v 0) -> PK.sorted v.
Proof. induction v as [|a r IH]; [intros; exact I|]. destruct r as [|b r']; [intros; exact I|]. intros H.
  change (a <= b /\ PK.sorted (b :: r')). split. exact (H 0%nat ltac:(cbn; lia)).
  apply IH. intros j Hj. exact (H (S j) ltac:(cbn in *; lia)). Qed.
Lemma rsorted_nth v : (forall j, (S j < length v)%nat -> nth (S j) v 0 <= nth j v 0) -> PK.rsorted v.
Proof. induction v as [|a r IH]; [intros; exact I|]. destruct r as [|b r']; [intros; exact I|]. intros H.
  change (b <= a /\ PK.rsorted (b :: r')). split. exact (H 0%nat ltac:(cbn; lia)).
  apply IH. intros j Hj. exact (H (S j) ltac:(cbn in *; lia)). Qed.

Lemma kfl_cfg_of_ok c clip : kfl_cfg_ok c -> PK.cfg_ok (kfl_cfg_of c clip) (k_dims c).
Proof. intros (HL & Hd & Hm & Hb). split; [exact HL|]. split; [exact Hd|]. split.
  - intros lo hi. cbn [kfl_cfg_of MK.c_min MK.c_max]. apply Hb.
  - intros ms. cbn [kfl_cfg_of MK.c_monos]. unfold kfl_mono_flags. destruct (k_monos c) as [|m0 mr] eqn:E; [discriminate|].
    cbn. intros Em. injection Em as <-. destruct Hm as [Hm|Hm]; [discriminate|].
    cbn in Hm |- *. rewrite map_length. exact Hm. Qed.

Section KflAssert.
Variable c : kfl_acfg.
Variable Sc : list (list Q).
Variable K : tens.
Variable clip : bool.
Hypothesis Hcfg : kfl_cfg_ok c.
Hypothesis Hpass : assert_kfl c Sc K 0 = true.

Lemma am_kfl_L : (1 <= k_L c)%nat. Proof. destruct Hcfg as (H & _). lia. Qed.
Lemma am_kfl_F : kfl_feasible c Sc K 0.
Proof. apply (kfl_exact c Sc K 0 am_kfl_L ltac:(lra)). exact Hpass. Qed.

Lemma am_term_shape u t : PK.tshape (k_L c) (k_dims c) (kfl_term_of c K u t).
Proof. split. unfold kfl_term_of. rewrite map_length, seq_length. reflexivity.
  apply Forall_forall. intros v Hv. apply in_map_iff in Hv. destruct Hv as [d [<- _]].
  rewrite map_length, seq_length. reflexivity. Qed.

Lemma am_tnonneg u t : (forall d i, (d < k_dims c)%nat -> (i < k_L c)%nat -> 0 <= K [i; u; d; t]) ->
  PK.tnonneg (kfl_term_of c K u t).
Proof. intros H. apply Forall_forall. intros v Hv. apply in_map_iff in Hv. destruct Hv as [d [<- Hd]]. apply in_seq in Hd.
  apply Forall_forall. intros w Hw. apply in_map_iff in Hw. destruct Hw as [i [<- Hi]]. apply in_seq in Hi.
  apply H; lia. Qed.

Lemma am_sgood u t : (u < k_units c)%nat -> (t < k_terms c)%nat -> PK.sgood (kfl_cfg_of c clip) (sc_at Sc u t).
Proof. intros Hu Ht. destruct am_kfl_F as [_ FB]. unfold PK.sgood. cbn [kfl_cfg_of MK.c_min MK.c_max].
  destruct (k_min c) as [lo|], (k_max c) as [hi|]; try exact I; destruct FB as [_ Hs]; exact (Hs u t Hu Ht). Qed.

Lemma am_valid_entry i u d t : (i < k_L c)%nat -> (u < k_units c)%nat -> (d < k_dims c)%nat -> (t < k_terms c)%nat ->
  valid (k_shape c) [i; u; d; t].
Proof. intros. unfold k_shape. repeat constructor; assumption. Qed.

Lemma am_kgood u t : (u < k_units c)%nat -> (t < k_terms c)%nat ->
  (k_monos c = [] \/ kfl_one_sided c \/ kfl_weights_nonneg c Sc K) ->
  PK.kgood (kfl_cfg_of c clip) (sc_at Sc u t) (kfl_term_of c K u t).
Proof. intros Hu Ht Hgap. pose proof am_kfl_F as [FM FB]. set (s := sc_at Sc u t) in *. split; [|split].
  - intros ms Em _. cbn [kfl_cfg_of MK.c_monos] in Em.
    destruct Hgap as [Hnil|Hgap]; [rewrite Hnil in Em; discriminate|].
    assert (Ems : ms = kfl_mono_flags c /\ length (k_monos c) = k_dims c).
    { destruct Hcfg as (_ & _ & Hm & _). destruct (k_monos c) as [|m0 mr] eqn:E; [discriminate|].
      destruct Hm as [Hm|Hm]; [discriminate|]. split; [|exact Hm]. unfold kfl_mono_flags in *. rewrite E in *. cbn in Em |- *. congruence. }
    destruct Ems as [-> Hlen].
    destruct (Qlt_le_dec 0 s) as [Hp|Hp]; [|destruct (Qlt_le_dec s 0) as [Hn|Hn]; [|left; lra]].
    + right; left. split; [exact Hp|].
      assert (Hnn : PK.tnonneg (kfl_term_of c K u t)).
      { apply am_tnonneg. intros d i Hd Hi. destruct Hgap as [[[H1 H2]|[H1 H2]]|Hnn].
        - destruct (k_min c), (k_max c); try congruence. destruct FB as [Hw _]. apply Hw. apply am_valid_entry; assumption.
        - destruct (k_min c), (k_max c); try congruence. destruct FB as [Hw _]. apply Hw. apply am_valid_entry; assumption.
        - apply (Hnn u t d i); try assumption. fold s. lra. }
      split; [exact Hnn|].
      apply (Forall2_nth_intro _ false []). { unfold kfl_mono_flags, kfl_term_of. rewrite !map_length, seq_length. exact Hlen. }
      intros d Hd. unfold kfl_mono_flags in Hd |- *. rewrite map_length in Hd.
      change false with ((fun m => negb (m =? 0)%Z) 0%Z). rewrite map_nth. unfold kfl_term_of. rewrite nth_map_seq by lia.
      intros Hm. apply negb_true_iff, Z.eqb_neq in Hm. apply sorted_nth. intros j Hj. rewrite map_length, seq_length in Hj.
      rewrite !nth_map_seq by lia.
      pose proof (FM d j u t ltac:(lia) Hm Hj Hu Ht) as G. fold s in G. unfold qsign in G.
      assert (E1 : qlt 0 s = true) by (apply qlt_true; exact Hp). rewrite E1 in G. lra.
    + right; right. split; [exact Hn|].
      assert (Hnn : PK.tnonneg (kfl_term_of c K u t)).
      { apply am_tnonneg. intros d i Hd Hi. destruct Hgap as [[[H1 H2]|[H1 H2]]|Hnn].
        - destruct (k_min c), (k_max c); try congruence. destruct FB as [Hw _]. apply Hw. apply am_valid_entry; assumption.
        - destruct (k_min c), (k_max c); try congruence. destruct FB as [Hw _]. apply Hw. apply am_valid_entry; assumption.
        - apply (Hnn u t d i); try assumption. fold s. lra. }
      split; [exact Hnn|].
      apply (Forall2_nth_intro _ false []). { unfold kfl_mono_flags, kfl_term_of. rewrite !map_length, seq_length. exact Hlen. }
      intros d Hd. unfold kfl_mono_flags in Hd |- *. rewrite map_length in Hd.
      change false with ((fun m => negb (m =? 0)%Z) 0%Z). rewrite map_nth. unfold kfl_term_of. rewrite nth_map_seq by lia.
      intros Hm. apply negb_true_iff, Z.eqb_neq in Hm. apply rsorted_nth. intros j Hj. rewrite map_length, seq_length in Hj.
      rewrite !nth_map_seq by lia.
      pose proof (FM d j u t ltac:(lia) Hm Hj Hu Ht) as G. fold s in G. unfold qsign in G.
      assert (E1 : qlt 0 s = false) by (apply qlt_false; lra). assert (E2 : qlt s 0 = true) by (apply qlt_true; exact Hn).
      rewrite E1, E2 in G. lra.
  - cbn [kfl_cfg_of MK.c_min MK.c_max]. intros H1 H2. destruct (k_min c) as [lo|], (k_max c) as [hi|]; try discriminate.
    destruct FB as [Hp _].
    assert (G : kfl_max_product c K u t <= 1 + 0).
    { apply (kfl_max_product_spec c K u t 0 am_kfl_L). intros v Hv. apply Hp; assumption. }
    assert (E : PK.prodmax (kfl_term_of c K u t) = kfl_max_product c K u t).
    { unfold PK.prodmax, kfl_max_product, kfl_term_of. rewrite map_map, <- am_qprod_eq. f_equal.
      apply map_ext. intros d. unfold MK.maxabs. rewrite map_map. reflexivity. }
    rewrite E. lra.
  - cbn [kfl_cfg_of MK.c_min MK.c_max]. intros Hne. apply am_tnonneg. intros d i Hd Hi.
    destruct (k_min c) as [lo|], (k_max c) as [hi|]; cbn in Hne; try congruence;
      destruct FB as [Hw _]; apply Hw; apply am_valid_entry; assumption. Qed.

(* the per-(unit, term) invariant of Proofs/PremadeKFL.v *)
Lemma kfl_assert_core : (k_monos c = [] \/ kfl_one_sided c \/ kfl_weights_nonneg c Sc K) ->
  Forall2 (Forall2 (fun s vs => PK.tshape (k_L c) (k_dims c) vs /\ PK.kgood (kfl_cfg_of c clip) s vs /\ PK.sgood (kfl_cfg_of c clip) s))
          (kfl_scale_of c Sc) (kfl_kernel_of c K).
Proof. intros Hgap. apply Forall2_map_seq. intros u Hu. apply Forall2_map_seq. intros t Ht.
  split; [apply am_term_shape|]. split; [apply am_kgood; assumption|apply am_sgood; assumption]. Qed.
End KflAssert.

(* passing assert (+ what it does not check) = feasible in the sense of C03 *)
Theorem kfl_assert_premade_feasible c Sc K bias clip : kfl_cfg_ok c -> assert_kfl c Sc K 0 = true ->
  (k_monos c = [] \/ kfl_one_sided c \/ kfl_weights_nonneg c Sc K) -> kfl_bias_fixed c bias ->
  PMK.kfl_feasible (kfl_cfg_of c clip) (k_dims c) (kfl_params_of c Sc K bias).
Proof. intros Hcfg Hpass Hgap Hb. split.
  - exact (kfl_assert_core c Sc K clip Hcfg Hpass Hgap).
  - unfold MK.has_bounds. cbn [kfl_cfg_of MK.c_min MK.c_max kfl_params_of MK.p_bias]. intros H. apply Hb.
    destruct (k_min c), (k_max c); cbn in H; try discriminate; [left|left|right]; discriminate. Qed.

(* monotone: every pair of points ordered along the monotone inputs and equal
   elsewhere (PK.coords_le), in range or clipped; the bias plays no role *)
Theorem kfl_assert_monotone c Sc K bias clip u xs ys : kfl_cfg_ok c -> assert_kfl c Sc K 0 = true ->
  kfl_one_sided c \/ kfl_weights_nonneg c Sc K -> k_monos c <> [] ->
  PK.coords_le (kfl_mono_flags c) xs ys ->
  clip = true \/ (PK.in_range (k_L c) xs /\ PK.in_range (k_L c) ys) ->
  MK.unit_out (kfl_cfg_of c clip) (kfl_params_of c Sc K bias) u xs <=
  MK.unit_out (kfl_cfg_of c clip) (kfl_params_of c Sc K bias) u ys.
Proof. intros Hcfg Hpass Hgap Hne Hle Hr.
  pose proof (kfl_assert_core c Sc K clip Hcfg Hpass (or_intror Hgap)) as Hf.
  set (ms := kfl_mono_flags c) in *.
  assert (Em : MK.canon_monos (MK.c_monos (kfl_cfg_of c clip)) = Some ms).
  { cbn [kfl_cfg_of MK.c_monos]. subst ms. unfold kfl_mono_flags. destruct (k_monos c); [congruence|reflexivity]. }
  destruct (Nat.eq_dec (MK.count_true ms) 0) as [E0|E0].
  - rewrite (PK.coords_le_no_mono ms xs ys E0 Hle). lra.
  - unfold MK.unit_out. cbn [kfl_params_of MK.p_scale MK.p_kern MK.p_bias kfl_cfg_of MK.c_clip MK.c_size].
    destruct (Nat.lt_ge_cases u (length (kfl_scale_of c Sc))) as [Hu|Hu].
    + pose proof (PK.Forall2_nth _ _ _ u [] [] Hf Hu) as Hu'. cbn beta in Hu'.
      destruct Hcfg as (HL & _). apply (PK.unit_eval_mono _ _ (k_dims c) ms); auto.
      eapply PK.Forall2_impl. exact Hu'. cbn beta. intros s vs (H1 & H2 & _). split. exact H1.
      destruct H2 as [H3 _]. apply H3. exact Em. lia.
    + rewrite (nth_overflow (kfl_scale_of c Sc) [] Hu). unfold MK.unit_eval. cbn [map2]. lra. Qed.

(* one monotone coordinate moved, the others fixed *)
Theorem kfl_assert_monotone_coordinate c Sc K bias clip u xs d y : kfl_cfg_ok c -> assert_kfl c Sc K 0 = true ->
  kfl_one_sided c \/ kfl_weights_nonneg c Sc K ->
  (d < length (k_monos c))%nat -> nth d (k_monos c) 0%Z <> 0%Z -> length xs = k_dims c -> nth d xs 0 <= y ->
  clip = true \/ (PK.in_range (k_L c) xs /\ PK.in_range (k_L c) (set_nth d y xs)) ->
  MK.unit_out (kfl_cfg_of c clip) (kfl_params_of c Sc K bias) u xs <=
  MK.unit_out (kfl_cfg_of c clip) (kfl_params_of c Sc K bias) u (set_nth d y xs).
Proof. intros Hcfg Hpass Hgap Hd Hm Hlen Hy Hr.
  assert (Hne : k_monos c <> []) by (destruct (k_monos c); [cbn in Hd; lia|discriminate]).
  apply kfl_assert_monotone; try assumption. apply PK.coords_le_set_nth.
  - destruct Hcfg as (_ & _ & [Hn|Hn] & _); [congruence|]. unfold kfl_mono_flags. rewrite map_length. lia.
  - unfold kfl_mono_flags. change false with ((fun m => negb (m =? 0)%Z) 0%Z). rewrite map_nth.
    apply negb_true_iff, Z.eqb_neq. exact Hm.
  - exact Hy. Qed.

(* bounded: needs nothing about signs of the weights beyond the assert, but the
   fixed bias (which the assert does not look at) *)
Definition kfl_no_monos (c : kfl_acfg) : kfl_acfg := mkKA (k_L c) (k_units c) (k_dims c) (k_terms c) [] (k_min c) (k_max c).
Theorem kfl_assert_bounded c Sc K bias clip u xs : kfl_cfg_ok c -> assert_kfl c Sc K 0 = true ->
  kfl_bias_fixed c bias -> length bias = k_units c -> (u < k_units c)%nat ->
  length xs = k_dims c -> clip = true \/ PK.in_range (k_L c) xs ->
  (forall lo, k_min c = Some lo -> lo <= MK.unit_out (kfl_cfg_of c clip) (kfl_params_of c Sc K bias) u xs) /\
  (forall hi, k_max c = Some hi -> MK.unit_out (kfl_cfg_of c clip) (kfl_params_of c Sc K bias) u xs <= hi).
Proof. intros Hcfg Hpass Hb Hlb Hu Hlen Hr.
  assert (Hcfg0 : kfl_cfg_ok (kfl_no_monos c)).
  { destruct Hcfg as (H1 & H2 & _ & H4). split; [exact H1|]. split; [exact H2|]. split; [left; reflexivity|exact H4]. }
  assert (Hpass0 : assert_kfl (kfl_no_monos c) Sc K 0 = true).
  { unfold assert_kfl in *. apply andb_prop in Hpass. destruct Hpass as [_ H2]. apply andb_true_intro. split; [reflexivity|exact H2]. }
  pose proof (kfl_assert_premade_feasible (kfl_no_monos c) Sc K bias clip Hcfg0 Hpass0 (or_introl eq_refl) Hb) as Hf.
  change (MK.unit_out (kfl_cfg_of c clip) (kfl_params_of c Sc K bias) u xs)
    with (MK.unit_out (kfl_cfg_of (kfl_no_monos c) clip) (kfl_params_of (kfl_no_monos c) Sc K bias) u xs).
  apply (PMK.kfl_state_bounded (kfl_cfg_of (kfl_no_monos c) clip) (k_dims c) _ u xs (kfl_cfg_of_ok _ clip Hcfg0) Hf).
  - cbn [kfl_params_of MK.p_scale]. unfold kfl_scale_of. rewrite map_length, seq_length. exact Hu.
  - cbn [kfl_params_of MK.p_bias]. lia.
  - exact Hlen.
  - exact Hr. Qed.

(* FINDING: with no bound or two bounds the assert checks the ORDER of the
   1-D factors but not their SIGN, and a product of increasing NEGATIVE factors
   is decreasing: lattice_sizes = 2, two monotone inputs, one term with scale 1,
   factors (-1, 0) and (-1, 0): f(x0, x1) = (x0 - 1)(x1 - 1), the assert passes
   (eps = 0) and f(0, 0) = 1 > 0 = f(1, 0).  Reproduced on the implementation. *)
Lemma am_in_range2 a b : 0 <= a <= 1 -> 0 <= b <= 1 -> PK.in_range 2 [a; b].
Proof. intros Ha Hb. constructor; [change (MK.qn 2) with 2; lra|]. constructor; [change (MK.qn 2) with 2; lra|constructor]. Qed.
Definition am_kfl_bad (omin omax : option Q) : kfl_acfg := mkKA 2 1 2 1 [1%Z; 1%Z] omin omax.
Definition am_kfl_bad_K : tens := of_list [2; 1; 2; 1]%nat [-(1); -(1); 0; 0].
Theorem kfl_assert_not_monotone_refuted : forall b, b = (None, None) \/ b = (Some (-(1)), Some 1) ->
  let c := am_kfl_bad (fst b) (snd b) in
  kfl_cfg_ok c /\ assert_kfl c [[1]] am_kfl_bad_K 0 = true /\ kfl_bias_fixed c [0] /\
  PK.coords_le (kfl_mono_flags c) [0; 0] [1; 0] /\ PK.in_range (k_L c) [0; 0] /\ PK.in_range (k_L c) [1; 0] /\
  MK.unit_out (kfl_cfg_of c false) (kfl_params_of c [[1]] am_kfl_bad_K [0]) 0 [1; 0] <
  MK.unit_out (kfl_cfg_of c false) (kfl_params_of c [[1]] am_kfl_bad_K [0]) 0 [0; 0].
Proof. intros b [-> | ->]; cbv zeta; cbn [fst snd].
  - split. { split; [cbn; lia|]. split; [cbn; lia|]. split; [right; reflexivity|]. intros lo hi H; discriminate. }
    split; [vm_compute; reflexivity|]. split. { intros [H|H]; cbn in H; congruence. }
    split. { cbn. split; [lra|]. split; [lra|exact I]. }
    split. { apply am_in_range2; lra. } split. { apply am_in_range2; lra. }
    vm_compute. reflexivity.
  - split. { split; [cbn; lia|]. split; [cbn; lia|]. split; [right; reflexivity|]. intros lo hi H1 H2. cbn in H1, H2. injection H1 as <-. injection H2 as <-. lra. }
    split; [vm_compute; reflexivity|]. split. { intros _. constructor; [vm_compute; reflexivity|constructor]. }
    split. { cbn. split; [lra|]. split; [lra|exact I]. }
    split. { apply am_in_range2; lra. } split. { apply am_in_range2; lra. }
    vm_compute. reflexivity. Qed.

(* non-vacuity of the positive statements: ex_kfl of Proofs/Asserts.v (L = 2,
   two monotone inputs, terms with scales +1 / -1, bounds [0, 2]) *)
Definition am_kfl_K : tens := of_list (k_shape ex_kfl) [0; 1;  (1#2); 1;   1; 0;  1; (1#2)].
Example am_kfl_hyps : kfl_cfg_ok ex_kfl /\ assert_kfl ex_kfl [[1; - (1)]] am_kfl_K 0 = true /\
  kfl_weights_nonneg ex_kfl [[1; - (1)]] am_kfl_K /\ kfl_bias_fixed ex_kfl [1] /\
  PK.coords_le (kfl_mono_flags ex_kfl) [0; 1#2] [1#2; 1] /\ PK.in_range (k_L ex_kfl) [0; 1#2] /\ PK.in_range (k_L ex_kfl) [1#2; 1].
Proof. split. { split; [cbn; lia|]. split; [cbn; lia|]. split; [right; reflexivity|].
    intros lo hi H1 H2. cbn in H1, H2. injection H1 as <-. injection H2 as <-. lra. }
  split; [vm_compute; reflexivity|]. split.
  { intros u t d i Hu Ht Hd Hi _. cbn in Hu, Ht, Hd, Hi.
    destruct u as [|u]; [|lia]. destruct t as [|[|t]]; [| |lia]; (destruct d as [|[|d]]; [| |lia]); (destruct i as [|[|i]]; [| |lia]);
      apply Qle_bool_iff; vm_compute; reflexivity. }
  split. { intros _. constructor; [vm_compute; reflexivity|constructor]. }
  split. { cbn. split; [lra|]. split; [lra|exact I]. }
  split; apply am_in_range2; lra. Qed.

(* ====================================================================== *)
(* 3. Linear                                                                *)
(* ====================================================================== *)
(* unit u of the layer is  lin_unit (column u K) b bs  (C20_formula) *)
Lemma am_nth_column u K i : nth i (column u K) 0 = kat K i u.
Proof. unfold kat, krow. apply PLI.nth_column. Qed.
Lemma am_column_length u (K : list (list Q)) : length (column u K) = length K.
Proof. unfold column. apply map_length. Qed.

(* y is above x in every increasing input, below in every decreasing input,
   equal in the unconstrained ones (monotonicities None = [] = all unconstrained) *)
Definition lin_dir_le (ms : list Z) (n : nat) (x y : list Q) : Prop :=
  forall i, (i < n)%nat ->
    if (nth i ms 0 =? 1)%Z then nth i x 0 <= nth i y 0
    else if (nth i ms 0 =? -1)%Z then nth i y 0 <= nth i x 0 else nth i x 0 == nth i y 0.

Lemma coords_ok_of_nth : forall ms k x y, length k = length ms -> length x = length ms -> length y = length ms ->
  (forall i, (i < length ms)%nat -> PLE.coord_ok (nth i ms 0%Z) (nth i k 0) (nth i x 0) (nth i y 0)) ->
  PLE.coords_ok ms k x y.
Proof. induction ms as [|m ms IH]; intros [|kq k] [|xq x] [|yq y] Hk Hx Hy H; cbn [length] in *; try discriminate; cbn [PLE.coords_ok]; [exact I|].
  split. exact (H 0%nat ltac:(lia)). apply IH; try lia. intros i Hi. exact (H (S i) ltac:(lia)). Qed.

Section LinearAssert.
Variable c : lin_acfg.
Variable K : list (list Q).
Variable u : nat.
Hypothesis Hu : (u < li_units c)%nat.
Hypothesis Hpass : assert_linear c K 0 = true.

Lemma am_lin_F : lin_feasible c K 0.
Proof. apply (lin_exact c K 0 ltac:(lra)). exact Hpass. Qed.

(* the sign hypotheses of C20_monotone *)
Lemma lin_assert_signs i : (i < length K)%nat ->
  (nth i (li_monos c) 0%Z = 1%Z -> 0 <= kat K i u) /\ (nth i (li_monos c) 0%Z = (-1)%Z -> kat K i u <= 0).
Proof. intros Hi. destruct am_lin_F as (H & _). specialize (H i u Hi Hu). split; intros E; rewrite E in H.
  - change (inject_Z 1) with 1 in H. lra.
  - change (inject_Z (-1)) with (-(1)) in H. lra. Qed.

Theorem lin_assert_monotone b bs x y : length x = length K -> length y = length K ->
  lin_dir_le (li_monos c) (length K) x y ->
  MLE.lin_unit (column u K) b bs x <= MLE.lin_unit (column u K) b bs y.
Proof. intros Hx Hy Hd. set (ms := map (fun i => nth i (li_monos c) 0%Z) (seq 0 (length K))).
  assert (Hl : length ms = length K) by (subst ms; rewrite map_length, seq_length; reflexivity).
  apply (PLE.lin_unit_monotone ms); rewrite ?am_column_length; try congruence.
  apply coords_ok_of_nth; rewrite ?am_column_length; try congruence.
  intros i Hi. rewrite Hl in Hi. subst ms. rewrite nth_map_seq by exact Hi. rewrite am_nth_column.
  specialize (Hd i Hi). destruct (lin_assert_signs i Hi) as [S1 S2]. unfold PLE.coord_ok.
  destruct (Z.eqb_spec (nth i (li_monos c) 0%Z) 1) as [E|E]; [split; [apply S1; exact E|exact Hd]|].
  destruct (Z.eqb_spec (nth i (li_monos c) 0%Z) (-1)) as [E'|E']; [split; [apply S2; exact E'|exact Hd]|exact Hd]. Qed.

(* one constrained input moved, the others fixed: every pair v <= v' *)
Theorem lin_assert_monotone_coordinate b bs x i v v' : length x = length K -> (i < length K)%nat -> v <= v' ->
  (nth i (li_monos c) 0%Z = 1%Z ->
     MLE.lin_unit (column u K) b bs (set_nth i v x) <= MLE.lin_unit (column u K) b bs (set_nth i v' x)) /\
  (nth i (li_monos c) 0%Z = (-1)%Z ->
     MLE.lin_unit (column u K) b bs (set_nth i v' x) <= MLE.lin_unit (column u K) b bs (set_nth i v x)).
Proof. intros Hx Hi Hv. split; intros E; apply lin_assert_monotone; rewrite ?set_nth_length; try exact Hx;
  intros j Hj; (destruct (Nat.eq_dec i j) as [<-|Hne];
    [rewrite E, !nth_set_nth_same by lia; cbn; exact Hv
    |rewrite !(nth_set_nth_other i j) by exact Hne;
     destruct (nth j (li_monos c) 0 =? 1)%Z; [lra|destruct (nth j (li_monos c) 0 =? -1)%Z; [lra|reflexivity]]]). Qed.

(* monotonic dominance: the hypothesis of C20_monotonic_dominance_effect, hence its conclusion *)
Theorem lin_assert_mdom_effect b bs x dom weak d : In (dom, weak) (li_mdom c) ->
  (dom < length K)%nat -> (weak < length K)%nat -> length bs = length K -> length x = length K ->
  nth dom bs PLE.nob = (None, None) -> nth weak bs PLE.nob = (None, None) -> 0 <= d ->
  kat K weak u <= kat K dom u /\
  MLE.lin_unit (column u K) b bs (set_nth weak (nth weak x 0 + d) x) - MLE.lin_unit (column u K) b bs x <=
  MLE.lin_unit (column u K) b bs (set_nth dom (nth dom x 0 + d) x) - MLE.lin_unit (column u K) b bs x.
Proof. intros Hin Hd Hw Hb Hx Ed Ew Hpos. destruct am_lin_F as (_ & H & _). specialize (H dom weak u Hin Hu).
  assert (G : kat K weak u <= kat K dom u) by lra. split; [exact G|].
  apply PLE.lin_dominance_effect; rewrite ?am_column_length, ?am_nth_column; assumption. Qed.

(* range dominance: with the layer's own input bounds [ld, hd], [lw, hw] (the
   ones the assert scales by), sweeping the dominant input across its range
   moves the output at least as much as sweeping the weak one, signed by the
   direction of each input; for two increasing inputs this is the hypothesis
   and the conclusion of C20_range_dominance_effect *)
Definition lin_sign (c : lin_acfg) (i : nat) : Q := if (nth i (li_monos c) 0 =? -1)%Z then - (1) else 1.
Theorem lin_assert_rdom_effect b bs x dom weak ld hd lw hw : In (dom, weak) (li_rdom c) ->
  (dom < length K)%nat -> (weak < length K)%nat -> length bs = length K -> length x = length K ->
  nth dom (zip_bounds (li_min c) (li_max c)) (None, None) = (Some ld, Some hd) ->
  nth weak (zip_bounds (li_min c) (li_max c)) (None, None) = (Some lw, Some hw) ->
  nth dom bs PLE.nob = (Some ld, Some hd) -> nth weak bs PLE.nob = (Some lw, Some hw) -> ld <= hd -> lw <= hw ->
  lin_sign c weak * ((hw - lw) * kat K weak u) <= lin_sign c dom * ((hd - ld) * kat K dom u) /\
  lin_sign c weak * (MLE.lin_unit (column u K) b bs (set_nth weak hw x) - MLE.lin_unit (column u K) b bs (set_nth weak lw x)) <=
  lin_sign c dom * (MLE.lin_unit (column u K) b bs (set_nth dom hd x) - MLE.lin_unit (column u K) b bs (set_nth dom ld x)).
Proof. intros Hin Hd Hw Hb Hx Zd Zw Ed Ew Hdr Hwr. destruct am_lin_F as (_ & _ & H & _). specialize (H dom weak u Hin Hu).
  unfold lin_scaling in H. rewrite Zd, Zw in H. fold (lin_sign c dom) in H. fold (lin_sign c weak) in H.
  set (sd := lin_sign c dom) in *. set (sw := lin_sign c weak) in *.
  assert (G : sw * ((hw - lw) * kat K weak u) <= sd * ((hd - ld) * kat K dom u)) by lra.
  split; [exact G|]. unfold MLE.lin_unit. set (k := column u K).
  assert (Lk : length k = length K) by apply am_column_length.
  pose proof (PLE.lin_sum_set k bs x dom hd) as H1. pose proof (PLE.lin_sum_set k bs x dom ld) as H1'.
  pose proof (PLE.lin_sum_set k bs x weak hw) as H2. pose proof (PLE.lin_sum_set k bs x weak lw) as H2'.
  rewrite Ed in H1, H1'. rewrite Ew in H2, H2'. cbn [fst snd] in *.
  specialize (H1 ltac:(lia) ltac:(lia) ltac:(lia)). specialize (H2 ltac:(lia) ltac:(lia) ltac:(lia)).
  specialize (H1' ltac:(lia) ltac:(lia) ltac:(lia)). specialize (H2' ltac:(lia) ltac:(lia) ltac:(lia)).
  assert (E1 : clip_opt (Some ld) (Some hd) hd == hd) by (unfold clip_opt, clip_lo, clip_hi; qcases; lra).
  assert (E2 : clip_opt (Some ld) (Some hd) ld == ld) by (unfold clip_opt, clip_lo, clip_hi; qcases; lra).
  assert (E3 : clip_opt (Some lw) (Some hw) hw == hw) by (unfold clip_opt, clip_lo, clip_hi; qcases; lra).
  assert (E4 : clip_opt (Some lw) (Some hw) lw == lw) by (unfold clip_opt, clip_lo, clip_hi; qcases; lra).
  rewrite E1 in H1. rewrite E2 in H1'. rewrite E3 in H2. rewrite E4 in H2'.
  subst k. rewrite !am_nth_column in *.
  assert (Dd : (0 + MLE.lin_sum (column u K) bs (set_nth dom hd x)) - (0 + MLE.lin_sum (column u K) bs (set_nth dom ld x)) == kat K dom u * (hd - ld)) by lra.
  assert (Dw : (0 + MLE.lin_sum (column u K) bs (set_nth weak hw x)) - (0 + MLE.lin_sum (column u K) bs (set_nth weak lw x)) == kat K weak u * (hw - lw)) by lra.
  assert (Rd : b + MLE.lin_sum (column u K) bs (set_nth dom hd x) - (b + MLE.lin_sum (column u K) bs (set_nth dom ld x)) == kat K dom u * (hd - ld)) by lra.
  assert (Rw : b + MLE.lin_sum (column u K) bs (set_nth weak hw x) - (b + MLE.lin_sum (column u K) bs (set_nth weak lw x)) == kat K weak u * (hw - lw)) by lra.
  rewrite Rd, Rw. lra. Qed.

(* the norm test is STRICT (< eps): at eps = 0 a normalised layer passes only
   through the numerically-zero-column escape *)
Theorem lin_assert_zero_eps_norm_escape ord : li_norm c = Some ord ->
  (ord = 1%nat -> qsum (map qabs (unit_col K u)) < norm_eps) /\
  (ord <> 1%nat -> qsum (map (fun w => w * w) (unit_col K u)) < norm_eps * norm_eps).
Proof. intros En. destruct am_lin_F as (_ & _ & _ & H). specialize (H ord u En Hu). split.
  - intros ->. cbn [norm_spec] in H. destruct H as [H|H]; revert H; qcases; lra.
  - intros Hne. destruct ord as [|[|ord]]; [| congruence |]; cbn [norm_spec] in H; cbv zeta in H; destruct H as [[H1 [H2|H2]]|H]; lra. Qed.
End LinearAssert.

(* normalization order 1, all inputs increasing.  The sign test needs eps = 0
   to give weights >= 0 and the strict norm test needs eps > 0 to give anything
   but the zero-column escape, so: the checks other than the norm pass at 0
   ([lin_without_norm]) and the whole assert passes at eps.  Then the weights
   are >= 0, their sum s is within eps of 1 - or below 1e-8, the zero-column
   escape (known finding D32) - and output - bias lies in [lo * s, hi * s];
   with s == 1 this is C20_weighted_average. *)
Definition lin_without_norm (c : lin_acfg) : lin_acfg :=
  mkLinA (li_units c) (li_monos c) (li_mdom c) (li_rdom c) (li_min c) (li_max c) None.
Lemma lin_assert_without_norm c K eps : assert_linear c K eps = true -> assert_linear (lin_without_norm c) K eps = true.
Proof. unfold assert_linear. intros H. apply andb_prop in H. destruct H as [H _]. apply andb_true_intro. split; [exact H|reflexivity]. Qed.

Lemma qsum_abs_nonneg l : (forall q, In q l -> 0 <= q) -> qsum (map qabs l) == qsum l.
Proof. induction l as [|a l IH]; intros H; cbn [map qsum]. reflexivity.
  rewrite IH by (intros q Hq; apply H; right; exact Hq). pose proof (H a (or_introl eq_refl)). qcases; lra. Qed.

Theorem lin_assert_weighted_average c K eps u b bs x lo hi : (u < li_units c)%nat -> 0 <= eps ->
  li_norm c = Some 1%nat -> (forall i, (i < length K)%nat -> nth i (li_monos c) 0%Z = 1%Z) ->
  assert_linear (lin_without_norm c) K 0 = true -> assert_linear c K eps = true ->
  length bs = length K -> length x = length K -> (forall v, In v (PLE.clipped bs x) -> lo <= v /\ v <= hi) ->
  let k := column u K in let s := qsum k in
  (forall q, In q k -> 0 <= q) /\ (qabs (s - 1) < eps \/ s < norm_eps) /\
  lo * s <= MLE.lin_unit k b bs x - b /\ MLE.lin_unit k b bs x - b <= hi * s /\
  (s == 1 -> lo <= MLE.lin_unit k b bs x - b /\ MLE.lin_unit k b bs x - b <= hi).
Proof. intros Hu He En Hm H0 Hp Hb Hx Hc k s.
  assert (Hnn : forall q, In q k -> 0 <= q).
  { intros q Hq. destruct (In_nth k q 0 Hq) as [i [Hi <-]]. subst k. rewrite am_column_length in Hi. rewrite am_nth_column.
    apply (proj1 (lin_assert_signs (lin_without_norm c) K u Hu H0 i Hi)). cbn [lin_without_norm li_monos]. apply Hm. exact Hi. }
  split; [exact Hnn|].
  pose proof (proj1 (lin_exact c K eps He) Hp) as (_ & _ & _ & Hn). specialize (Hn 1%nat u En Hu). cbn [norm_spec] in Hn.
  change (unit_col K u) with k in Hn. pose proof (qsum_abs_nonneg k Hnn) as Ea. fold s in Ea.
  assert (Hs : qabs (s - 1) < eps \/ s < norm_eps).
  { destruct Hn as [Hn|Hn]; [left|right]; revert Hn; qcases; lra. }
  split; [exact Hs|].
  destruct (PLE.lin_sum_bounds k bs x lo hi ltac:(subst k; rewrite am_column_length; exact Hb)
              ltac:(subst k; rewrite am_column_length; exact Hx) Hnn Hc) as [A B]. fold s in A, B.
  unfold MLE.lin_unit. split; [lra|]. split; [lra|]. intros E. rewrite E in A, B. split; lra. Qed.

(* non-vacuity: 3 increasing inputs, 2 units, dominance pairs (0, 1), bounds on inputs 0 and 1, L1 norm *)
Definition am_lin : lin_acfg :=
  mkLinA 2 [1%Z; 1%Z; 1%Z] [(0%nat, 1%nat)] [(0%nat, 1%nat)] [Some 0; Some 0; None] [Some 2; Some 1; None] (Some 1%nat).
Definition am_lin_K : list (list Q) := [[(1#2); (1#2)]; [(1#4); (1#2)]; [(1#4); 0]].
Example am_lin_hyps : assert_linear (lin_without_norm am_lin) am_lin_K 0 = true /\ assert_linear am_lin am_lin_K (1#1000) = true /\
  (forall i, (i < length am_lin_K)%nat -> nth i (li_monos am_lin) 0%Z = 1%Z) /\
  lin_dir_le (li_monos am_lin) (length am_lin_K) [0; 3; 1] [1; 3; 2] /\
  nth 0 (zip_bounds (li_min am_lin) (li_max am_lin)) (None, None) = (Some 0, Some 2) /\
  nth 1 (zip_bounds (li_min am_lin) (li_max am_lin)) (None, None) = (Some 0, Some 1) /\
  qsum (column 1 am_lin_K) == 1.
Proof. split; [vm_compute; reflexivity|]. split; [vm_compute; reflexivity|]. split.
  { intros i Hi. cbn in Hi. destruct i as [|[|[|i]]]; try lia; reflexivity. }
  split. { intros i Hi. cbn in Hi. destruct i as [|[|[|i]]]; try lia; cbn; lra. }
  split; [reflexivity|]. split; [reflexivity|]. vm_compute. reflexivity. Qed.
(* at eps = 0 the same layer is rejected although its columns have L1 norm exactly 1 *)
Example am_lin_zero_eps_rejected : assert_linear am_lin am_lin_K 0 = false.
Proof. vm_compute. reflexivity. Qed.

(* ====================================================================== *)
(* 4. PWLCalibration                                                        *)
(* ====================================================================== *)
(* the column unit u evaluates: the kernel column, plus the closing height when cyclic *)
Definition pwl_layer_col (cyclic : bool) (col : list Q) : list Q := if cyclic then col ++ [- qsum (tl col)] else col.

Lemma pwl_layer_col_length cyclic col : length (pwl_layer_col cyclic col) = (length col + if cyclic then 1 else 0)%nat.
Proof. destruct cyclic; cbn [pwl_layer_col]. rewrite app_length. reflexivity. lia. Qed.
Lemma pwl_outputs_length units cyclic kernel : kernel <> [] ->
  length (pwl_keypoint_outputs units cyclic kernel) = (length kernel + if cyclic then 1 else 0)%nat.
Proof. intros Hne. unfold pwl_keypoint_outputs. cbv zeta. destruct cyclic.
  - rewrite app_length, run_sums_length. destruct kernel as [|r rest]; [congruence|]. cbn [run_sums firstn length]. lia.
  - rewrite run_sums_length. lia. Qed.

(* keypoints_outputs() of the assert model = cumulative sums of the evaluated column (C05 vocabulary) *)
Lemma am_kp_outs_layer units cyclic kernel u j : (u < units)%nat -> kernel <> [] ->
  (j < length (pwl_keypoint_outputs units cyclic kernel))%nat ->
  nth j (PPE.kp_outs (pwl_layer_col cyclic (column u kernel))) 0 == out_at (pwl_keypoint_outputs units cyclic kernel) j u.
Proof. intros Hu Hne Hj. rewrite pwl_outputs_length in Hj by exact Hne. unfold PPE.kp_outs.
  assert (Lc : length (column u kernel) = length kernel) by apply am_column_length.
  destruct (Nat.lt_ge_cases j (length kernel)) as [Hlt|Hge].
  - rewrite (keypoint_outputs_at units cyclic kernel j u Hlt Hu).
    rewrite PPE.nth_cumsum_incl by (rewrite pwl_layer_col_length; lia).
    destruct cyclic; cbn [pwl_layer_col]; [rewrite PPE.firstn_app_le by lia|]; lra.
  - destruct cyclic; [|lia]. assert (j = length kernel) by lia. subst j.
    rewrite (keypoint_outputs_cyclic_last units kernel u Hne Hu). cbn [pwl_layer_col].
    rewrite PPE.nth_cumsum_incl by (rewrite app_length; cbn; lia).
    rewrite firstn_all2 by (rewrite app_length; cbn; lia). rewrite qsum_app.
    destruct kernel as [|r rest]; [congruence|]. cbn. lra. Qed.

Section PwlAssert.
Variable c : pwl_layer_acfg.
Variable kernel : list (list Q).
Variable eps : Q.
Variable u : nat.
Variables kps lens : list Q.
Variable e : Q.
Hypothesis Hne : kernel <> [].
Hypothesis Hu : (u < pa_units (pl_cfg c))%nat.
Hypothesis He : 0 <= eps.
Hypothesis Hpass : assert_pwl_layer c kernel eps = true.
Hypothesis Hseg : PPE.segments kps lens e.
Let col := pwl_layer_col (pl_cyclic c) (column u kernel).
Hypothesis Hlen : length col = S (length kps).
Let outs := pwl_keypoint_outputs (pa_units (pl_cfg c)) (pl_cyclic c) kernel.

Lemma am_pwl_F : pwl_feasible (pl_cfg c) outs eps /\ missing_feasible c eps.
Proof. apply (pwl_layer_exact c kernel eps Hne He). exact Hpass. Qed.
Lemma am_outs_len : length outs = length col.
Proof. subst outs col. rewrite pwl_outputs_length by exact Hne. rewrite pwl_layer_col_length, am_column_length. reflexivity. Qed.
Lemma am_kp_len : length (PPE.kp_outs col) = length col.
Proof. unfold PPE.kp_outs. apply PPE.cumsum_incl_length. Qed.
Lemma am_kp_nth j : (j < length col)%nat -> nth j (PPE.kp_outs col) 0 == out_at outs j u.
Proof. intros Hj. apply am_kp_outs_layer; try assumption. fold outs. rewrite am_outs_len. exact Hj. Qed.

(* the function stays inside [output_min - eps, output_max + eps] at EVERY input *)
Lemma pwl_assert_bounded x :
  (forall lo, pa_min (pl_cfg c) = Some lo -> lo - eps <= MPE.pwl_fn kps lens col x) /\
  (forall hi, pa_max (pl_cfg c) = Some hi -> MPE.pwl_fn kps lens col x <= hi + eps).
Proof. destruct am_pwl_F as [(Fl & Fh & _) _]. split.
  - intros lo El. destruct (Fl lo u El Hu) as [G _].
    apply (PPE.pwl_bounded_function kps lens e col (lo - eps) (qmaxl (PPE.kp_outs col)) x Hseg Hlen).
    intros y Hy. split; [|apply qmaxl_ge; exact Hy]. destruct (In_nth _ _ 0 Hy) as [j [Hj <-]]. rewrite am_kp_len in Hj.
    rewrite (am_kp_nth j Hj). apply G. rewrite am_outs_len. exact Hj.
  - intros hi Eh. destruct (Fh hi u Eh Hu) as [G _].
    apply (PPE.pwl_bounded_function kps lens e col (qminl (PPE.kp_outs col)) (hi + eps) x Hseg Hlen).
    intros y Hy. split; [apply qminl_le; exact Hy|]. destruct (In_nth _ _ 0 Hy) as [j [Hj <-]]. rewrite am_kp_len in Hj.
    rewrite (am_kp_nth j Hj). apply G. rewrite am_outs_len. exact Hj. Qed.

(* a clamp: the function REACHES the bound (up to eps) at one of its keypoints *)
Lemma pwl_assert_clamps :
  (forall lo, pa_min (pl_cfg c) = Some lo -> pa_clamp_min (pl_cfg c) = true ->
     exists j, (j <= length kps)%nat /\ MPE.pwl_fn kps lens col (nth j (kps ++ [e]) 0) <= lo + eps) /\
  (forall hi, pa_max (pl_cfg c) = Some hi -> pa_clamp_max (pl_cfg c) = true ->
     exists j, (j <= length kps)%nat /\ hi - eps <= MPE.pwl_fn kps lens col (nth j (kps ++ [e]) 0)).
Proof. destruct am_pwl_F as [(Fl & Fh & _) _].
  assert (At : forall j, (j <= length kps)%nat -> MPE.pwl_fn kps lens col (nth j (kps ++ [e]) 0) == out_at outs j u).
  { intros j Hj. rewrite <- (am_kp_nth j ltac:(lia)). destruct col as [|b hs] eqn:Ec; [cbn in Hlen; lia|].
    rewrite (PPE.pwl_at_keypoints kps lens e b hs _ j Hseg ltac:(cbn in Hlen; lia) Hj ltac:(reflexivity)).
    unfold PPE.kp_outs. rewrite PPE.nth_cumsum_incl by (cbn in *; lia).
    change (firstn (S j) (b :: hs)) with (b :: firstn j hs). cbn [qsum]. lra. }
  split.
  - intros lo El Hc. destruct (Fl lo u El Hu) as [_ G]. destruct (G Hc) as [k [Hk Hle]]. rewrite am_outs_len in Hk.
    exists k. split; [lia|]. rewrite At by lia. exact Hle.
  - intros hi Eh Hc. destruct (Fh hi u Eh Hu) as [_ G]. destruct (G Hc) as [k [Hk Hle]]. rewrite am_outs_len in Hk.
    exists k. split; [lia|]. rewrite At by lia. exact Hle. Qed.

(* the learned missing output (what the layer returns for a missing input, C05_missing) is in range *)
Lemma pwl_assert_missing mo : pl_missing c = Some mo ->
  (forall lo, pa_min (pl_cfg c) = Some lo -> lo - eps <= nth u mo 0) /\
  (forall hi, pa_max (pl_cfg c) = Some hi -> nth u mo 0 <= hi + eps).
Proof. intros Em. destruct am_pwl_F as [_ Fm]. exact (Fm mo u Em Hu). Qed.

(* eps = 0 in the differences: monotone for EVERY pair of inputs *)
Lemma pwl_assert_steps : pa_mono (pl_cfg c) <> 0%Z -> forall j, (S j < length col)%nat ->
  - eps <= (nth (S j) (PPE.kp_outs col) 0 - nth j (PPE.kp_outs col) 0) * inject_Z (pa_mono (pl_cfg c)).
Proof. intros Hm j Hj. destruct am_pwl_F as [(_ & _ & Fm) _]. rewrite (am_kp_nth j ltac:(lia)), (am_kp_nth (S j) Hj).
  apply Fm; try assumption. rewrite am_outs_len. exact Hj. Qed.
End PwlAssert.

(* the layer (fixed or learned keypoints, cyclic or not): unit u's function *)
Theorem pwl_assert_meaning c L e u : MPE.p_kernel L <> [] -> MPE.p_units L = pa_units (pl_cfg c) ->
  MPE.p_cyclic L = pl_cyclic c -> (u < MPE.p_units L)%nat ->
  PPE.segments (MPE.unit_lefts L u) (MPE.unit_lens L u) e ->
  length (column u (MPE.bias_and_heights L)) = S (length (MPE.unit_lefts L u)) ->
  assert_pwl_layer c (MPE.p_kernel L) 0 = true ->
  (pa_mono (pl_cfg c) = 1%Z -> forall x y, x <= y -> PPE.unit_fn L u x <= PPE.unit_fn L u y) /\
  (pa_mono (pl_cfg c) = (-1)%Z -> forall x y, x <= y -> PPE.unit_fn L u y <= PPE.unit_fn L u x) /\
  (forall x, (forall lo, pa_min (pl_cfg c) = Some lo -> lo <= PPE.unit_fn L u x) /\
             (forall hi, pa_max (pl_cfg c) = Some hi -> PPE.unit_fn L u x <= hi)) /\
  (forall x, (x <= hd e (MPE.unit_lefts L u) -> PPE.unit_fn L u x == PPE.unit_fn L u (hd e (MPE.unit_lefts L u))) /\
             (e <= x -> PPE.unit_fn L u x == PPE.unit_fn L u e)) /\
  (forall lo, pa_min (pl_cfg c) = Some lo -> pa_clamp_min (pl_cfg c) = true -> exists x, PPE.unit_fn L u x <= lo) /\
  (forall hi, pa_max (pl_cfg c) = Some hi -> pa_clamp_max (pl_cfg c) = true -> exists x, hi <= PPE.unit_fn L u x) /\
  (forall mo, pl_missing c = Some mo ->
     (forall lo, pa_min (pl_cfg c) = Some lo -> lo <= nth u mo 0) /\ (forall hi, pa_max (pl_cfg c) = Some hi -> nth u mo 0 <= hi)).
Proof. intros Hne Eu Ec Hu Hseg Hlen Hpass. rewrite Eu in Hu.
  assert (Ecol : column u (MPE.bias_and_heights L) = pwl_layer_col (pl_cyclic c) (column u (MPE.p_kernel L))).
  { destruct (MPE.p_cyclic L) eqn:Hc.
    - rewrite (PPE.column_bh_cyclic L u Hc ltac:(rewrite Eu; exact Hu)). rewrite <- Ec. reflexivity.
    - rewrite (PPE.column_bh_plain L u Hc). rewrite <- Ec. reflexivity. }
  unfold PPE.unit_fn. rewrite Ecol in *. set (kps := MPE.unit_lefts L u) in *. set (lens := MPE.unit_lens L u) in *.
  set (col := pwl_layer_col (pl_cyclic c) (column u (MPE.p_kernel L))) in *.
  assert (He : 0 <= 0) by lra. pose proof (PPE.segments_pos kps lens e Hseg) as Hpos.
  pose proof (pwl_assert_steps c (MPE.p_kernel L) 0 u kps Hne Hu He Hpass Hlen) as St. fold col in St.
  split; [|split; [|split; [|split; [|split; [|split]]]]].
  - intros Em x y Hxy. apply (PPE.pwl_monotone_function kps lens col x y Hpos); [|exact Hxy].
    intros j Hj. specialize (St ltac:(rewrite Em; discriminate) j Hj). rewrite Em in St. change (inject_Z 1) with 1 in St. lra.
  - intros Em x y Hxy. apply (PPE.pwl_antitone_function kps lens col x y Hpos); [|exact Hxy].
    intros j Hj. specialize (St ltac:(rewrite Em; discriminate) j Hj). rewrite Em in St. change (inject_Z (-1)) with (-(1)) in St. lra.
  - intros x. destruct (pwl_assert_bounded c (MPE.p_kernel L) 0 u kps lens e Hne Hu He Hpass Hseg Hlen x) as [A B]. fold col in A, B.
    split; [intros lo El; specialize (A lo El)|intros hi Eh; specialize (B hi Eh)]; lra.
  - intros x. destruct col as [|b hs] eqn:Ecl; [cbn in Hlen; lia|]. split; intros Hx.
    + rewrite (PPE.pwl_constant_left kps lens e b hs x Hseg Hx).
      rewrite (PPE.pwl_constant_left kps lens e b hs (hd e kps) Hseg (Qle_refl _)). reflexivity.
    + rewrite (PPE.pwl_constant_right kps lens e b hs x Hseg ltac:(cbn in Hlen; lia) Hx).
      rewrite (PPE.pwl_constant_right kps lens e b hs e Hseg ltac:(cbn in Hlen; lia) (Qle_refl _)). reflexivity.
  - intros lo El Hc. destruct (pwl_assert_clamps c (MPE.p_kernel L) 0 u kps lens e Hne Hu He Hpass Hseg Hlen) as [A _].
    destruct (A lo El Hc) as [j [_ G]]. fold col in G. exists (nth j (kps ++ [e]) 0). lra.
  - intros hi Eh Hc. destruct (pwl_assert_clamps c (MPE.p_kernel L) 0 u kps lens e Hne Hu He Hpass Hseg Hlen) as [_ B].
    destruct (B hi Eh Hc) as [j [_ G]]. fold col in G. exists (nth j (kps ++ [e]) 0). lra.
  - intros mo Em. destruct (pwl_assert_missing c (MPE.p_kernel L) 0 u Hne Hu He Hpass mo Em) as [A B].
    split; [intros lo El; specialize (A lo El)|intros hi Eh; specialize (B hi Eh)]; lra. Qed.

(* any eps >= 0: bounds (every input), clamps and missing output up to eps *)
Theorem pwl_assert_eps_bounded c L eps e u x : MPE.p_kernel L <> [] -> MPE.p_units L = pa_units (pl_cfg c) ->
  MPE.p_cyclic L = pl_cyclic c -> (u < MPE.p_units L)%nat -> 0 <= eps ->
  PPE.segments (MPE.unit_lefts L u) (MPE.unit_lens L u) e ->
  length (column u (MPE.bias_and_heights L)) = S (length (MPE.unit_lefts L u)) ->
  assert_pwl_layer c (MPE.p_kernel L) eps = true ->
  (forall lo, pa_min (pl_cfg c) = Some lo -> lo - eps <= PPE.unit_fn L u x) /\
  (forall hi, pa_max (pl_cfg c) = Some hi -> PPE.unit_fn L u x <= hi + eps).
Proof. intros Hne Eu Ec Hu He Hseg Hlen Hpass. rewrite Eu in Hu.
  assert (Ecol : column u (MPE.bias_and_heights L) = pwl_layer_col (pl_cyclic c) (column u (MPE.p_kernel L))).
  { destruct (MPE.p_cyclic L) eqn:Hc.
    - rewrite (PPE.column_bh_cyclic L u Hc ltac:(rewrite Eu; exact Hu)). rewrite <- Ec. reflexivity.
    - rewrite (PPE.column_bh_plain L u Hc). rewrite <- Ec. reflexivity. }
  unfold PPE.unit_fn. rewrite Ecol in *.
  exact (pwl_assert_bounded c (MPE.p_kernel L) eps u _ _ e Hne Hu He Hpass Hseg Hlen x). Qed.

(* non-vacuity: keypoints 0, 1, 3, two units, increasing, bounds [0, 2], clamped below *)
Definition am_pwl_cfg : pwl_layer_acfg := mkPL (mkPA 2 1 (Some 0) (Some 2) true false) false (Some [1; 2]).
Definition am_pwl_layer : MPE.pwl_layer :=
  MPE.build_fixed 2 [0; 1; 3] false [[0; 0]; [1; (1#2)]; [1; (1#2)]] true (Some (-(1))) None [1; 2] false.
Example am_pwl_hyps : MPE.p_kernel am_pwl_layer <> [] /\ MPE.p_units am_pwl_layer = pa_units (pl_cfg am_pwl_cfg) /\
  MPE.p_cyclic am_pwl_layer = pl_cyclic am_pwl_cfg /\ (1 < MPE.p_units am_pwl_layer)%nat /\
  PPE.segments (MPE.unit_lefts am_pwl_layer 1) (MPE.unit_lens am_pwl_layer 1) 3 /\
  length (column 1 (MPE.bias_and_heights am_pwl_layer)) = S (length (MPE.unit_lefts am_pwl_layer 1)) /\
  assert_pwl_layer am_pwl_cfg (MPE.p_kernel am_pwl_layer) 0 = true /\ pa_mono (pl_cfg am_pwl_cfg) = 1%Z.
Proof. split; [discriminate|]. split; [reflexivity|]. split; [reflexivity|]. split; [cbn; lia|].
  split. { cbn. repeat split; lra. } split; [reflexivity|]. split; [vm_compute; reflexivity|reflexivity]. Qed.

(* ====================================================================== *)
(* 5. CategoricalCalibration                                                *)
(* ====================================================================== *)
(* a row whose (default-replaced) category for unit u is bucket b outputs kernel[b][u] *)
Lemma cat_row_bucket L row u b : (u < MCE.c_units L)%nat -> (PPE.col_of (length row) u < length row)%nat ->
  (MCE.c_units L = 1%nat -> length row = 1%nat) -> PPE.cat_index L row u = Z.of_nat b -> (b < MCE.c_buckets L)%nat ->
  nth u (MCE.cat_row L row) 0 == kat (MCE.c_kernel L) b u.
Proof. intros Hu Hc H1 Hi Hb. rewrite (PPE.cat_row_unit L row u Hu Hc H1). rewrite Hi.
  rewrite PPE.dot_one_hot_in by lia. rewrite Nat2Z.id. rewrite PPE.nth_column. reflexivity. Qed.

Theorem cat_assert_meaning c L u : MCE.c_kernel L <> [] -> MCE.c_units L = ca_units c ->
  MCE.c_buckets L = length (MCE.c_kernel L) -> (u < ca_units c)%nat ->
  assert_categorical c (MCE.c_kernel L) 0 = true ->
  (* every bucket value in range *)
  (forall row b, (PPE.col_of (length row) u < length row)%nat -> (MCE.c_units L = 1%nat -> length row = 1%nat) ->
     PPE.cat_index L row u = Z.of_nat b -> (b < MCE.c_buckets L)%nat ->
     (forall lo, ca_min c = Some lo -> lo <= nth u (MCE.cat_row L row) 0) /\
     (forall hi, ca_max c = Some hi -> nth u (MCE.cat_row L row) 0 <= hi)) /\
  (* every configured pair (i, j): the output on category i is <= the output on category j *)
  (forall i j row row', In (i, j) (ca_pairs c) -> (i < MCE.c_buckets L)%nat -> (j < MCE.c_buckets L)%nat ->
     (PPE.col_of (length row) u < length row)%nat -> (MCE.c_units L = 1%nat -> length row = 1%nat) ->
     (PPE.col_of (length row') u < length row')%nat -> (MCE.c_units L = 1%nat -> length row' = 1%nat) ->
     PPE.cat_index L row u = Z.of_nat i -> PPE.cat_index L row' u = Z.of_nat j ->
     nth u (MCE.cat_row L row) 0 <= nth u (MCE.cat_row L row') 0).
Proof. intros Hne Eu Eb Hu Hpass. assert (Hu' : (u < MCE.c_units L)%nat) by (rewrite Eu; exact Hu).
  pose proof (proj1 (cat_exact c (MCE.c_kernel L) 0 Hne ltac:(lia) ltac:(lra)) Hpass) as (Fl & Fh & Fp). split.
  - intros row b Hc H1 Hi Hb. pose proof (cat_row_bucket L row u b Hu' Hc H1 Hi Hb) as E. rewrite Eb in Hb. split.
    + intros lo El. pose proof (Fl lo b u El Hb Hu). lra.
    + intros hi Eh. pose proof (Fh hi b u Eh Hb Hu). lra.
  - intros i j row row' Hin Hi Hj Hc H1 Hc' H1' Ei Ej.
    rewrite (cat_row_bucket L row u i Hu' Hc H1 Ei Hi), (cat_row_bucket L row' u j Hu' Hc' H1' Ej Hj).
    pose proof (Fp i j u Hin Hu). lra. Qed.

(* non-vacuity: 3 buckets, 1 unit, pairs (0, 1) and (1, 2), default value -1 -> last bucket *)
Definition am_cat_layer : MCE.cat_layer := MCE.mkCat 3 1 [[0]; [1]; [2]] (Some (-1)%Z) false.
Example am_cat_hyps : MCE.c_kernel am_cat_layer <> [] /\ MCE.c_units am_cat_layer = ca_units ex_cat /\
  MCE.c_buckets am_cat_layer = length (MCE.c_kernel am_cat_layer) /\ (0 < ca_units ex_cat)%nat /\
  assert_categorical ex_cat (MCE.c_kernel am_cat_layer) 0 = true /\ In (1%nat, 2%nat) (ca_pairs ex_cat) /\
  PPE.cat_index am_cat_layer [1] 0 = Z.of_nat 1 /\ PPE.cat_index am_cat_layer [-(1)] 0 = Z.of_nat 2.
Proof. split; [discriminate|]. split; [reflexivity|]. split; [reflexivity|]. split; [cbn; lia|].
  split; [vm_compute; reflexivity|]. split; [right; left; reflexivity|]. split; vm_compute; reflexivity. Qed.
